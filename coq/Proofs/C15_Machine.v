(* C15: the push decoder machine reads the same rows as the sync reader under every schedule;
   its requests lie within the file; supplying what was asked makes it advance. *)
From Coq Require Import List Arith NArith Lia Bool ZifyN ZifyNat ZifyBool Relations Wellfounded.
From AV Require Import Model.C15_PushBuf Model.C15_Machine Proofs.C15_PushBuf.
Import ListNotations.
Local Open Scope N_scope.

Section Proofs.
Variables (Rw B U R : Type).
Variable fr_step : nat -> B -> fstep B R.
Variable plan : R -> phase Rw U.
Variable upd : B -> U -> B.
Variable file : list N.

Notation phase := (phase Rw U).
Notation mach := (mach Rw B U).
Notation run_phase := (run_phase Rw U).
Notation next_reader := (next_reader Rw B U R fr_step plan upd).
Notation after_phase := (after_phase Rw B U upd).
Notation resume_reader := (resume_reader Rw B U R fr_step plan upd).
Notation try_decode := (try_decode Rw B U R fr_step plan upd).
Notation try_next_reader := (try_next_reader Rw B U R fr_step plan upd).
Notation sync_phase := (sync_phase Rw U file).
Notation sync_read := (sync_read Rw B U R fr_step plan upd file).
Notation fchunks := (file_chunks file).

Definition in_file_range (r : range) : Prop := fst r <= snd r /\ snd r <= nlen file.
Definition cons_buf (pb : pushbuf) : Prop := Forall (consistent file) (pb_entries pb).

(* Along the sync execution of a phase, every request satisfies P. *)
Inductive phase_ok (P : range -> Prop) : phase -> Prop :=
| ok_need req k : Forall P req -> phase_ok P (k (fchunks req)) -> phase_ok P (PNeed req k)
| ok_finish u : phase_ok P (PFinish u)
| ok_data bs u : phase_ok P (PData bs u).

(* planner hypothesis "needed ⊆ file": every range requested along the sync execution of any row
   group is a well-formed range within the file *)
Hypothesis plan_in_file : forall r, phase_ok in_file_range (plan r).

(* ------------------------------------------------------------------ chunks *)
Lemma get_chunks_file pb req cs : cons_buf pb -> get_chunks pb req = Some cs -> cs = fchunks req.
Proof.
  intros Hc. revert cs; induction req as [|r req IH]; cbn [get_chunks file_chunks map]; intros cs H.
  - now inversion H.
  - destruct (get_bytes pb (fst r) (snd r - fst r)) as [x|] eqn:E; [|discriminate].
    destruct (get_chunks pb req) as [xs|]; [|discriminate]. inversion H; subst cs.
    f_equal; [eapply get_bytes_reads_file; eauto|now apply IH].
Qed.

Lemma needed_nil_has pb req : needed_ranges pb req = [] -> Forall (fun r => has_range pb r = true) req.
Proof.
  unfold needed_ranges. induction req as [|r req IH]; cbn [filter]; [constructor|].
  destruct (has_range pb r) eqn:E; cbn [negb]; [|discriminate]. intros H; constructor; auto.
Qed.

Lemma get_chunks_total pb req :
  Forall (fun r => fst r <= snd r) req -> needed_ranges pb req = [] -> exists cs, get_chunks pb req = Some cs.
Proof.
  intros Hwf Hn. apply needed_nil_has in Hn. induction req as [|r req IH]; cbn [get_chunks]; [eauto|].
  inversion Hwf; inversion Hn; subst. destruct r as [s e]; cbn [fst snd] in *.
  destruct (has_range_get_bytes pb s e) as [x Hx]; auto. rewrite Hx.
  destruct IH as [cs Hcs]; auto. rewrite Hcs. eauto.
Qed.

Lemma needed_spec pb req r : In r (needed_ranges pb req) <-> In r req /\ has_range pb r = false.
Proof. unfold needed_ranges. rewrite filter_In. now destruct (has_range pb r). Qed.

(* ------------------------------------------------------------------ one row group *)
(* [reach p p']: p' is p or a continuation of p along the file's chunks *)
Inductive reach : phase -> phase -> Prop :=
| reach_refl p : reach p p
| reach_step req k p' : reach (k (fchunks req)) p' -> reach (PNeed req k) p'.

Lemma phase_ok_reach P p p' : phase_ok P p -> reach p p' -> phase_ok P p'.
Proof. intros H Hr; induction Hr; auto. inversion H; subst; auto. Qed.
Lemma sync_reach p p' : reach p p' -> sync_phase p = sync_phase p'.
Proof. induction 1; auto. Qed.

Lemma run_phase_spec p : forall pb, phase_ok in_file_range p -> cons_buf pb ->
  match run_phase p pb with
  | (BNeed rs, st, pb') =>
      exists req k, st = RGWait req k /\ reach p (PNeed req k) /\ rs = needed_ranges pb' req /\ rs <> []
        /\ cons_buf pb' /\ (forall r, has_range pb' r = true -> has_range pb r = true)
        /\ ((p = PNeed req k /\ pb' = pb) \/
            (exists req0 k0, p = PNeed req0 k0 /\ needed_ranges pb req0 = [] /\ reach (k0 (fchunks req0)) (PNeed req k)))
  | (BFinish u, st, pb') => st = RGIdle /\ sync_phase p = ([], u) /\ cons_buf pb'
  | (BData bs u, st, pb') => st = RGIdle /\ sync_phase p = (bs, u) /\ cons_buf pb'
  | (BError, _, _) => False
  end.
Proof.
  induction p as [req k IH|u|bs u]; intros pb Hok Hc; cbn [C15_Machine.run_phase]; [|auto|auto].
  inversion Hok as [req' k' Hreq Hk| |]; subst.
  destruct (needed_ranges pb req) as [|r0 rs0] eqn:En.
  2:{ exists req, k. split; [reflexivity|]. split; [apply reach_refl|]. split; [now rewrite En|].
      split; [discriminate|]. split; [exact Hc|]. split; [auto|]. left; auto. }
  - destruct (get_chunks_total pb req) as [cs Hcs]; [|exact En|].
    { eapply Forall_impl; [|exact Hreq]. intros a Ha; apply Ha. }
    rewrite Hcs. pose proof (get_chunks_file _ _ _ Hc Hcs) as ->.
    specialize (IH (fchunks req) (clear_ranges pb req) Hk (clear_ranges_consistent file pb req Hc)).
    destruct (run_phase (k (fchunks req)) (clear_ranges pb req)) as [[[rs|u|bs u|] st] pb'] eqn:Er; auto.
    destruct IH as (req2 & k2 & -> & Hr & -> & Hne & Hc' & Hmono & _).
    exists req2, k2. repeat split; auto.
    + now apply reach_step.
    + intros r Hr'. apply Hmono in Hr'. unfold has_range in *. cbn in Hr'.
      apply existsb_exists in Hr'. destruct Hr' as [e [He Hcov]]. apply filter_In in He.
      apply existsb_exists. exists e; tauto.
    + right. exists req, k. auto.
Qed.

(* ------------------------------------------------------------------ the rest of the sync output *)
Definition rest_rg (q : list nat) (b : B) (st : rgst Rw U) : list (list Rw) :=
  match st with
  | RGIdle => sync_read q b
  | RGWait req k => let '(bs, u) := sync_phase (PNeed req k) in bs ++ sync_read q (upd b u)
  end.
Definition rest (m : mach) : list (list Rw) :=
  match m_dec _ _ _ m with
  | DFinished => []
  | DDecoding bs => bs ++ rest_rg (m_queue _ _ _ m) (m_b _ _ _ m) (m_rg _ _ _ m)
  | DReading => rest_rg (m_queue _ _ _ m) (m_b _ _ _ m) (m_rg _ _ _ m)
  end.

Definition rg_ok (st : rgst Rw U) : Prop :=
  match st with RGIdle => True | RGWait req k => phase_ok in_file_range (PNeed req k) end.
Definition inv (m : mach) : Prop := cons_buf (m_buf _ _ _ m) /\ rg_ok (m_rg _ _ _ m).

Definition rstate_ok (s : list nat * B * rgst Rw U * pushbuf) : Prop :=
  let '(q, b, st, pb) := s in cons_buf pb /\ rg_ok st.

(* what a result of the row-group loop means for the remaining sync output [want] *)
Definition nres_spec (se : bool) (want : list (list Rw)) (qlen : nat) (x : nres Rw * (list nat * B * rgst Rw U * pushbuf)) : Prop :=
  let '(res, s) := x in let '(q', b', st', pb') := s in
  rstate_ok s /\ (length q' <= qlen)%nat /\
  match res with
  | NNeed rs => want = rest_rg q' b' st' /\ exists req k, st' = RGWait req k /\ rs = needed_ranges pb' req /\ rs <> []
  | NData bs => want = bs ++ sync_read q' b' /\ st' = RGIdle /\ (se = true -> bs <> [])
  | NFinished => want = [] /\ st' = RGIdle
  | NError => False
  end.

Lemma after_phase_spec se q b next p pb :
  phase_ok in_file_range p -> cons_buf pb ->
  (forall b1 pb1, cons_buf pb1 -> nres_spec se (sync_read q b1) (length q) (next b1 pb1)) ->
  nres_spec se (let '(bs, u) := sync_phase p in bs ++ sync_read q (upd b u)) (length q)
            (after_phase se q b next (run_phase p pb)).
Proof.
  intros Hok Hc Hnext. pose proof (run_phase_spec p pb Hok Hc) as Hs.
  destruct (run_phase p pb) as [[[rs|u|bs u|] st] pb'] eqn:Er; cbn [C15_Machine.after_phase].
  - destruct Hs as (req & k & -> & Hr & -> & Hne & Hc' & _). cbn. repeat split; auto.
    + eapply phase_ok_reach; eauto.
    + rewrite (sync_reach _ _ Hr). reflexivity.
    + eauto.
  - destruct Hs as (-> & Hsy & Hc'). rewrite Hsy. cbn [app]. apply Hnext, Hc'.
  - destruct Hs as (-> & Hsy & Hc'). rewrite Hsy. destruct bs as [|b0 bs]; [destruct se|].
    + cbn [app]. apply Hnext, Hc'.
    + cbn. repeat split; auto. discriminate.
    + cbn. repeat split; auto. discriminate.
  - contradiction.
Qed.

Lemma next_reader_spec se q : forall b pb, cons_buf pb ->
  nres_spec se (sync_read q b) (length q) (next_reader se q b pb).
Proof.
  induction q as [|g q IH]; intros b pb Hc; cbn [C15_Machine.next_reader C15_Machine.sync_read].
  - cbn. repeat split; auto.
  - destruct (fr_step g b) as [|b'|r b'].
    + cbn. repeat split; auto. lia.
    + specialize (IH b' pb Hc). unfold nres_spec in *.
      destruct (next_reader se q b' pb) as [res [[[q' b2] st'] pb']]. cbn [length].
      destruct IH as (H1 & H2 & H3). split; [exact H1|]. split; [lia|exact H3].
    + pose proof (after_phase_spec se q b' (next_reader se q) (plan r) pb (plan_in_file r) Hc (fun b1 pb1 H => IH b1 pb1 H)) as H.
      unfold nres_spec in *. destruct (after_phase se q b' (next_reader se q) (run_phase (plan r) pb)) as [res [[[q' b2] st'] pb']].
      cbn [length]. destruct H as (H1 & H2 & H3). split; [exact H1|]. split; [lia|exact H3].
Qed.

Lemma resume_reader_spec se m : inv m ->
  nres_spec se (rest_rg (m_queue _ _ _ m) (m_b _ _ _ m) (m_rg _ _ _ m)) (length (m_queue _ _ _ m)) (resume_reader se m).
Proof.
  intros [Hc Hrg]. unfold C15_Machine.resume_reader. destruct (m_rg _ _ _ m) as [|req k]; cbn [rest_rg].
  - now apply next_reader_spec.
  - apply after_phase_spec; auto. intros; now apply next_reader_spec.
Qed.

(* ------------------------------------------------------------------ decoder calls *)
Lemma rest_with_parts q b st pb d :
  rest (with_parts Rw B U (q, b, st, pb) d) =
  match d with DFinished => [] | DDecoding bs => bs ++ rest_rg q b st | DReading => rest_rg q b st end.
Proof. reflexivity. Qed.

Lemma pump_spec m : inv m -> m_dec _ _ _ m = DReading ->
  let '(m', res) := pump Rw B U R fr_step plan upd m in
  inv m' /\ (length (m_queue _ _ _ m') <= length (m_queue _ _ _ m))%nat /\
  match res with
  | RData b => rest m = b :: rest m'
  | RNeed rs => rest m = rest m' /\ m_dec _ _ _ m' = DReading /\
                exists req k, m_rg _ _ _ m' = RGWait req k /\ rs = needed_ranges (m_buf _ _ _ m') req /\ rs <> []
  | RFinished => rest m = [] /\ m_dec _ _ _ m' = DFinished
  | RReader _ | RError => False
  end.
Proof.
  intros Hi Hd. pose proof (resume_reader_spec true m Hi) as Hs.
  unfold pump, rest. rewrite Hd. unfold nres_spec in Hs.
  destruct (resume_reader true m) as [res [[[q' b'] st'] pb']].
  destruct Hs as ([Hc' Hrg'] & Hlen & Hs).
  destruct res as [rs|bs| |].
  - destruct Hs as (Hw & req & k & -> & -> & Hne). cbn. repeat split; auto. exists req, k. auto.
  - destruct Hs as (Hw & -> & Hne). destruct bs as [|b0 bs]; [exfalso; now apply Hne|].
    cbn. repeat split; auto.
  - destruct Hs as (Hw & ->). cbn. repeat split; auto.
  - contradiction.
Qed.

Definition dres_spec (m m' : mach) (res : dres Rw) : Prop :=
  inv m' /\ (length (m_queue _ _ _ m') <= length (m_queue _ _ _ m))%nat /\
  match res with
  | RData b => rest m = b :: rest m'
  | RReader bs => rest m = bs ++ rest m'
  | RNeed rs => rest m = rest m' /\ m_dec _ _ _ m' = DReading /\
                exists req k, m_rg _ _ _ m' = RGWait req k /\ rs = needed_ranges (m_buf _ _ _ m') req /\ rs <> []
  | RFinished => rest m = [] /\ m_dec _ _ _ m' = DFinished
  | RError => False
  end.

Theorem try_decode_spec m : inv m -> let '(m', res) := try_decode m in dres_spec m m' res.
Proof.
  intros Hi. unfold C15_Machine.try_decode. destruct (m_dec _ _ _ m) as [|bs|] eqn:Ed.
  - pose proof (pump_spec m Hi Ed) as H. destruct (pump _ _ _ _ _ _ _ m) as [m' res].
    destruct H as (H1 & H2 & H3). unfold dres_spec. split; [exact H1|]. split; [exact H2|].
    destruct res; try exact H3; contradiction.
  - destruct bs as [|b bs].
    + assert (Hi' : inv (with_dec Rw B U m (DReading))) by exact Hi.
      pose proof (pump_spec _ Hi' eq_refl) as H.
      destruct (pump _ _ _ _ _ _ _ (with_dec Rw B U m (DReading))) as [m' res].
      destruct H as (H1 & H2 & H3). unfold dres_spec. split; [exact H1|]. split; [exact H2|].
      assert (Hr : rest m = rest (with_dec Rw B U m (DReading))) by (unfold rest; rewrite Ed; reflexivity).
      rewrite Hr. destruct res; try exact H3; contradiction.
    + unfold dres_spec. repeat split; try apply Hi; auto. unfold rest; rewrite Ed. reflexivity.
  - unfold dres_spec. repeat split; try apply Hi; auto; unfold rest; now rewrite Ed.
Qed.

Theorem try_next_reader_spec m : inv m -> let '(m', res) := try_next_reader m in dres_spec m m' res.
Proof.
  intros Hi. unfold C15_Machine.try_next_reader. destruct (m_dec _ _ _ m) as [|bs|] eqn:Ed.
  - pose proof (resume_reader_spec false m Hi) as Hs. unfold nres_spec in Hs.
    destruct (resume_reader false m) as [res [[[q' b'] st'] pb']].
    destruct Hs as ([Hc' Hrg'] & Hlen & Hs). unfold dres_spec, rest. rewrite Ed.
    destruct res as [rs|bs| |].
    + destruct Hs as (Hw & req & k & -> & -> & Hne). cbn. repeat split; auto. exists req, k; auto.
    + destruct Hs as (Hw & -> & _). cbn. repeat split; auto.
    + destruct Hs as (Hw & ->). cbn. repeat split; auto.
    + contradiction.
  - unfold dres_spec. repeat split; try apply Hi; auto. unfold rest; rewrite Ed. reflexivity.
  - unfold dres_spec. repeat split; try apply Hi; auto; unfold rest; now rewrite Ed.
Qed.

(* ------------------------------------------------------------------ caller actions keep the invariant and the rest *)
Lemma push_all_file pb rs : Forall in_file_range rs -> cons_buf pb ->
  exists pb', push_all pb rs (fchunks rs) = (pb', true) /\ cons_buf pb' /\
    pb_entries pb' = pb_entries pb ++ map (fun r : range => {| e_st := fst r; e_en := snd r; e_data := fslice file (fst r) (snd r - fst r) |}) rs.
Proof.
  intros Hrs. revert pb; induction Hrs as [|[s e] rs [H1 H2] _ IH]; intros pb Hc; cbn [push_all file_chunks map].
  - exists pb. rewrite app_nil_r. auto.
  - cbn [fst snd] in *. destruct (push_range_consistent file pb s e H1 H2 Hc) as (pb1 & -> & He & Hc1 & _).
    destruct (IH pb1 Hc1) as (pb' & Hp & Hc' & He'). exists pb'. split; [exact Hp|]. split; [exact Hc'|].
    rewrite He', He, <- app_assoc. reflexivity.
Qed.

Lemma push_data_spec m rs : Forall in_file_range rs -> inv m ->
  match push_data Rw B U m rs (fchunks rs) with
  | Some m' => inv m' /\ rest m' = rest m /\ m_queue _ _ _ m' = m_queue _ _ _ m /\ m_rg _ _ _ m' = m_rg _ _ _ m
               /\ m_dec _ _ _ m' = m_dec _ _ _ m
               /\ pb_entries (m_buf _ _ _ m') = pb_entries (m_buf _ _ _ m) ++ map (fun r : range => {| e_st := fst r; e_en := snd r; e_data := fslice file (fst r) (snd r - fst r) |}) rs
  | None => m_dec _ _ _ m = DFinished
  end.
Proof.
  intros Hrs [Hc Hrg]. unfold push_data, push_ranges.
  assert (Hl : Nat.eqb (length rs) (length (fchunks rs)) = true) by (unfold file_chunks; rewrite map_length; apply Nat.eqb_refl).
  destruct (push_all_file _ rs Hrs Hc) as (pb' & Hp & Hc' & He).
  destruct (m_dec _ _ _ m) eqn:Ed; auto; rewrite Hl, Hp; unfold inv, rest; cbn; rewrite Ed; repeat split; auto.
Qed.

Lemma clear_all_spec m : inv m -> inv (clear_all Rw B U m) /\ rest (clear_all Rw B U m) = rest m.
Proof.
  intros [Hc Hrg]. unfold clear_all, inv, rest. destruct (m_dec _ _ _ m) eqn:Ed; cbn; rewrite ?Ed; repeat split; auto; constructor.
Qed.

(* rebuild_at_boundary: at a row-group boundary, turning the decoder into a builder and building it
   again gives back the same decoder state *)
Theorem rebuild_at_boundary m bd : into_builder Rw B U m = Some bd -> build Rw B U bd = m.
Proof.
  unfold into_builder, at_boundary. destruct m as [q b st pb d]; cbn. destruct d; try discriminate.
  destruct st; try discriminate. intros H; inversion H; subst. reflexivity.
Qed.

(* ------------------------------------------------------------------ schedules *)
Definition valid_action (a : action) : Prop :=
  match a with APush rs => Forall in_file_range rs | _ => True end.

Definition batches_of (evs : list (event Rw)) : list (list Rw) :=
  flat_map (fun e => match e with EData b => [b] | EReader bs => bs | _ => [] end) evs.
Lemma rows_of_batches evs : rows_of Rw evs = concat (batches_of evs).
Proof.
  unfold rows_of, batches_of. induction evs as [|e evs IH]; [reflexivity|]. cbn [flat_map].
  rewrite concat_app, IH. destruct e; cbn; rewrite ?app_nil_r; reflexivity.
Qed.

Definition ev_ok (e : event Rw) : Prop :=
  match e with
  | ENeed rs => rs <> [] /\ Forall in_file_range rs
  | EError => False
  | _ => True
  end.

Lemma step_spec m a : valid_action a -> inv m ->
  let '(m', evs) := step Rw B U R fr_step plan upd file m a in
  inv m' /\ batches_of evs ++ rest m' = rest m /\ Forall ev_ok evs /\ (In EFinished evs -> rest m' = []).
Proof.
  intros Hv Hi.
  assert (Hdec : forall m' res, dres_spec m m' res ->
            inv m' /\ batches_of [ev_of Rw res] ++ rest m' = rest m /\ Forall ev_ok [ev_of Rw res]
            /\ (In EFinished [ev_of Rw res] -> rest m' = [])).
  { intros m' res (Hi' & _ & H). split; [exact Hi'|].
    destruct res as [rs|b|bs| |]; cbn [ev_of batches_of flat_map app].
    - destruct H as (H1 & H2 & req & k & Hst & -> & Hne). split; [now rewrite H1|]. split.
      + constructor; [|constructor]. split; [exact Hne|].
        destruct Hi' as [_ Hrg]. rewrite Hst in Hrg. inversion Hrg as [? ? Hreq ?| |]; subst.
        apply Forall_forall. intros r Hr. apply needed_spec in Hr. rewrite Forall_forall in Hreq. now apply Hreq.
      + intros [E|[]]; discriminate.
    - split; [now rewrite H|]. split; [repeat constructor|]. intros [E|[]]; discriminate.
    - split; [now rewrite app_nil_r, H|]. split; [repeat constructor|]. intros [E|[]]; discriminate.
    - destruct H as [H1 H2]. assert (Hr : rest m' = []) by (unfold rest; now rewrite H2).
      split; [now rewrite H1, Hr|]. split; [repeat constructor|]. intros _; exact Hr.
    - contradiction. }
  destruct a as [rs| | | |]; cbn [step].
  - pose proof (push_data_spec m rs Hv Hi) as H. destruct (push_data Rw B U m rs (fchunks rs)) as [m'|].
    + destruct H as (H1 & H2 & _). split; [exact H1|]. split; [exact H2|]. split; [repeat constructor|].
      intros [E|[]]; discriminate.
    + split; [exact Hi|]. split; [reflexivity|]. split; [constructor|]. intros [].
  - pose proof (try_decode_spec m Hi) as H. destruct (try_decode m) as [m' res]. now apply Hdec.
  - pose proof (try_next_reader_spec m Hi) as H. destruct (try_next_reader m) as [m' res]. now apply Hdec.
  - destruct (clear_all_spec m Hi) as [H1 H2]. split; [exact H1|]. split; [exact H2|]. split; [repeat constructor|].
    intros [E|[]]; discriminate.
  - destruct (into_builder Rw B U m) as [bd|] eqn:Eb.
    + rewrite (rebuild_at_boundary _ _ Eb). split; [exact Hi|]. split; [reflexivity|]. split; [repeat constructor|].
      intros [E|[]]; discriminate.
    + split; [exact Hi|]. split; [reflexivity|]. split; [constructor|]. intros [].
Qed.

Lemma rest_finished_stays m a : inv m -> valid_action a -> m_dec _ _ _ m = DFinished ->
  m_dec _ _ _ (fst (step Rw B U R fr_step plan upd file m a)) = DFinished.
Proof.
  intros Hi Hv Hd. destruct a as [rs| | | |]; cbn [step].
  - unfold push_data. rewrite Hd. exact Hd.
  - unfold C15_Machine.try_decode. rewrite Hd. exact Hd.
  - unfold C15_Machine.try_next_reader. rewrite Hd. exact Hd.
  - unfold clear_all. rewrite Hd. exact Hd.
  - unfold into_builder, at_boundary. rewrite Hd. exact Hd.
Qed.

Theorem run_spec sched : forall m, Forall valid_action sched -> inv m ->
  let '(m', evs) := run Rw B U R fr_step plan upd file m sched in
  inv m' /\ batches_of evs ++ rest m' = rest m /\ Forall ev_ok evs /\ (In EFinished evs -> rest m' = []).
Proof.
  induction sched as [|a sched IH]; intros m Hv Hi; cbn [run].
  - split; [exact Hi|]. split; [reflexivity|]. split; [constructor|]. intros [].
  - inversion Hv as [|? ? Ha Hs]; subst.
    pose proof (step_spec m a Ha Hi) as H1. destruct (step _ _ _ _ _ _ _ file m a) as [m1 e1] eqn:Es.
    destruct H1 as (Hi1 & Hr1 & Ho1 & Hf1).
    pose proof (IH m1 Hs Hi1) as H2. destruct (run _ _ _ _ _ _ _ file m1 sched) as [m2 e2].
    destruct H2 as (Hi2 & Hr2 & Ho2 & Hf2). split; [exact Hi2|]. split; [|split].
    + unfold batches_of in *. rewrite flat_map_app, <- app_assoc, Hr2. exact Hr1.
    + apply Forall_app; auto.
    + intros Hin. apply in_app_or in Hin. destruct Hin as [Hin|Hin]; [|auto].
      (* Finished earlier: the remaining sync output was already empty and stays so *)
      specialize (Hf1 Hin). rewrite Hf1 in Hr2. apply app_eq_nil in Hr2. apply Hr2.
Qed.

(* ------------------------------------------------------------------ headline statements *)
Lemma inv_init q b : inv (init Rw B U q b).
Proof. split; cbn; constructor. Qed.
Lemma rest_init q b : rest (init Rw B U q b) = sync_read q b.
Proof. reflexivity. Qed.

Theorem schedule_independence q b sched :
  Forall valid_action sched ->
  let '(m', evs) := run Rw B U R fr_step plan upd file (init Rw B U q b) sched in
  rows_of Rw evs ++ concat (rest m') = sync_rows Rw B U R fr_step plan upd file q b
  /\ (In EFinished evs -> rows_of Rw evs = sync_rows Rw B U R fr_step plan upd file q b)
  /\ ~ In EError evs.
Proof.
  intros Hv. pose proof (run_spec sched (init Rw B U q b) Hv (inv_init q b)) as H.
  destruct (run _ _ _ _ _ _ _ file (init Rw B U q b) sched) as [m' evs].
  destruct H as (_ & Hr & Ho & Hf). rewrite rest_init in Hr. unfold sync_rows.
  rewrite rows_of_batches, <- Hr, concat_app. repeat split; auto.
  - intros Hin. rewrite (Hf Hin). cbn [concat]. now rewrite app_nil_r.
  - intros Hin. rewrite Forall_forall in Ho. exact (Ho _ Hin).
Qed.

Theorem requests_in_file q b sched rs :
  Forall valid_action sched ->
  In (ENeed rs) (snd (run Rw B U R fr_step plan upd file (init Rw B U q b) sched)) ->
  rs <> [] /\ Forall in_file_range rs.
Proof.
  intros Hv. pose proof (run_spec sched (init Rw B U q b) Hv (inv_init q b)) as H.
  destruct (run _ _ _ _ _ _ _ file (init Rw B U q b) sched) as [m' evs].
  destruct H as (_ & _ & Ho & _). cbn [snd]. intros Hin. rewrite Forall_forall in Ho. exact (Ho _ Hin).
Qed.

(* ------------------------------------------------------------------ progress *)
(* A NeedsData is never empty and never asks for a range the buffer already holds. *)
Theorem need_not_buffered m m' rs : inv m -> try_decode m = (m', RNeed rs) ->
  rs <> [] /\ Forall (fun r => has_range (m_buf _ _ _ m') r = false) rs.
Proof.
  intros Hi E. pose proof (try_decode_spec m Hi) as H. rewrite E in H.
  destruct H as (_ & _ & _ & _ & req & k & _ & -> & Hne). split; [exact Hne|].
  apply Forall_forall. intros r Hr. now apply needed_spec in Hr.
Qed.

Lemma next_reader_strict se q : forall b pb res q' b' st' pb', cons_buf pb ->
  next_reader se q b pb = (res, (q', b', st', pb')) -> res <> NFinished -> (length q' < length q)%nat.
Proof.
  induction q as [|g q IH]; intros b pb res q' b' st' pb' Hc; cbn [C15_Machine.next_reader].
  - intros H; inversion H; subst. intros Hn; now elim Hn.
  - destruct (fr_step g b) as [|b1|r b1].
    + intros H; inversion H; subst. intros Hn; now elim Hn.
    + intros H Hn. specialize (IH _ _ _ _ _ _ _ Hc H Hn). cbn [length]. lia.
    + intros H Hn.
      pose proof (after_phase_spec se q b1 (next_reader se q) (plan r) pb (plan_in_file r) Hc
                    (fun b2 pb2 H2 => next_reader_spec se q b2 pb2 H2)) as Hs.
      rewrite H in Hs. unfold nres_spec in Hs. destruct Hs as (_ & Hl & _). cbn [length]. lia.
Qed.

Lemma try_decode_no_reader m m' bs : try_decode m <> (m', RReader bs).
Proof.
  unfold C15_Machine.try_decode, pump. destruct (m_dec _ _ _ m) as [|[|b l]|]; try discriminate;
  match goal with |- context [resume_reader true ?x] => destruct (resume_reader true x) as [[rs|[|b0 bs0]| |] s] end; discriminate.
Qed.

(* the decoder waits for [req] and will continue with [k] *)
Definition waiting (m : mach) (req : list range) (k : list (list N) -> phase) : Prop :=
  m_dec _ _ _ m = DReading /\ m_rg _ _ _ m = RGWait req k.

(* Partial supply: while some range of the request is missing the decoder stays in the same phase
   and asks for exactly the ranges that are still missing — never again for a supplied one. *)
Theorem partial_supply_shrinks m req k : inv m -> waiting m req k -> needed_ranges (m_buf _ _ _ m) req <> [] ->
  try_decode m = (m, RNeed (needed_ranges (m_buf _ _ _ m) req)).
Proof.
  intros Hi [Hd Hrg] Hne. unfold C15_Machine.try_decode, pump, C15_Machine.resume_reader. rewrite Hd, Hrg.
  cbn [C15_Machine.run_phase]. destruct (needed_ranges (m_buf _ _ _ m) req) as [|r0 rs0] eqn:En; [now elim Hne|].
  cbn. destruct m as [q b st pb d]; cbn in *. subst. reflexivity.
Qed.

Corollary supplied_not_rerequested m req k r : inv m -> waiting m req k ->
  has_range (m_buf _ _ _ m) r = true -> ~ In r (needed_ranges (m_buf _ _ _ m) req).
Proof. intros _ _ Hh Hin. apply needed_spec in Hin. destruct Hin as [_ Hf]. congruence. Qed.

(* Full supply: once every range of the request is buffered (exactly, as supersets, with duplicates,
   in any order — has_range is all that matters) the next try_decode leaves the phase: it yields a
   batch, finishes, or asks for the ranges of a LATER phase (a continuation of k, or a later row
   group).  In particular it does not return the same NeedsData. *)
Theorem full_supply_advances m req k m' res : inv m -> waiting m req k ->
  needed_ranges (m_buf _ _ _ m) req = [] -> try_decode m = (m', res) ->
  match res with
  | RNeed rs =>
      exists req' k', m_rg _ _ _ m' = RGWait req' k' /\ rs = needed_ranges (m_buf _ _ _ m') req' /\
        ((length (m_queue _ _ _ m') < length (m_queue _ _ _ m))%nat \/
         (m_queue _ _ _ m' = m_queue _ _ _ m /\ reach (k (fchunks req)) (PNeed req' k')))
  | RData _ | RFinished => True
  | RReader _ | RError => False
  end.
Proof.
  intros Hi [Hd Hrg] Hn E. pose proof (try_decode_spec m Hi) as Hspec. rewrite E in Hspec.
  destruct res as [rs|b|bs| |]; auto; [|now apply try_decode_no_reader in E|destruct Hspec as (_ & _ & F); exact F].
  destruct Hspec as (_ & _ & _ & _ & req' & k' & Hst & Hrs & _).
  exists req', k'. split; [exact Hst|]. split; [exact Hrs|].
  revert E. unfold C15_Machine.try_decode, pump, C15_Machine.resume_reader. rewrite Hd, Hrg.
  destruct Hi as [Hc Hok]. rewrite Hrg in Hok.
  pose proof (run_phase_spec (PNeed req k) (m_buf _ _ _ m) Hok Hc) as Hp.
  destruct (run_phase (PNeed req k) (m_buf _ _ _ m)) as [[[rs1|u|bs1 u|] st1] pb1] eqn:Er; cbn [C15_Machine.after_phase].
  - destruct Hp as (req2 & k2 & -> & _ & -> & Hne & _ & _ & Hadv). intros E; inversion E; subst; clear E. cbn in *.
    inversion Hst; subst. destruct Hadv as [[Heq ->]|(req0 & k0 & Heq & _ & Hreach)].
    + inversion Heq; subst. rewrite Hn in Hne. now elim Hne.
    + inversion Heq; subst. right. auto.
  - destruct Hp as (_ & _ & Hc1).
    destruct (next_reader true (m_queue _ _ _ m) (upd (m_b _ _ _ m) u) pb1) as [res1 [[[q1 b1] st'] pb']] eqn:En.
    destruct res1 as [rs1|[|b0 bs0]| |]; intros E; inversion E; subst; clear E. cbn in *. left.
    eapply next_reader_strict; eauto. discriminate.
  - destruct Hp as (_ & _ & Hc1). destruct bs1 as [|b0 bs0]; [|intros E; inversion E].
    destruct (next_reader true (m_queue _ _ _ m) (upd (m_b _ _ _ m) u) pb1) as [res1 [[[q1 b1] st'] pb']] eqn:En.
    destruct res1 as [rs1|[|b1' bs1']| |]; intros E; inversion E; subst; clear E. cbn in *. left.
    eapply next_reader_strict; eauto. discriminate.
  - contradiction.
Qed.

(* "later phase" is well founded: a decoder cannot advance through phases forever *)
Inductive sub_phase : phase -> phase -> Prop :=
| sub_here req k : sub_phase (k (fchunks req)) (PNeed req k).
Theorem sub_phase_wf : well_founded sub_phase.
Proof.
  intros p. induction p as [req k IH|u|bs u]; constructor; intros p' Hs; inversion Hs; subst. apply IH.
Qed.
Lemma reach_sub p p' : reach p p' -> p = p' \/ Relation_Operators.clos_trans _ sub_phase p' p.
Proof.
  induction 1 as [p|req k p' Hr IH]; [now left|]. right. destruct IH as [<-|Ht].
  - apply Relation_Operators.t_step. constructor.
  - eapply Relation_Operators.t_trans; [exact Ht|]. apply Relation_Operators.t_step. constructor.
Qed.

End Proofs.
