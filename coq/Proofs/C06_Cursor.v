(* C06 — ReadPlanBuilder::build + MaskCursor::next_mask_chunk: the chunks handed to the reader
   tile the trimmed selection, and no chunk selects more rows than the batch size. *)
From Coq Require Import List Arith Lia Bool.
From AV Require Import Model.C06_RowSel Proofs.C06_Basics Proofs.C06_Construct Proofs.C06_Algebra.
Import ListNotations.

Notation chunk := (nat * nat * nat * nat * list bool)%type.
Definition chunk_bits (c : chunk) : list bool :=
  match c with (isk, _, _, _, bits) => repeat false isk ++ bits end.
Definition chunk_ok (bs : nat) (c : chunk) : Prop :=
  match c with (_, rows, selected, _, bits) =>
    selected <= bs /\ selected = count_true bits /\ rows = length bits /\ 1 <= rows end.

Definition ends_true (m : list bool) : Prop := m = [] \/ last m false = true.

Lemma take_selected_spec m : forall bs rows0 sel0, sel0 <= bs ->
  exists k, take_selected m bs rows0 sel0
            = (rows0 + k, sel0 + count_true (firstn k m), skipn k m)
    /\ k <= length m /\ sel0 + count_true (firstn k m) <= bs
    /\ (m <> [] -> sel0 < bs -> 1 <= k).
Proof.
  induction m as [|b m IH]; intros bs rows0 sel0 Hle; cbn [take_selected].
  - exists 0. cbn [firstn skipn count_true length]. rewrite !Nat.add_0_r.
    split; [reflexivity|split; [lia|split; [lia|intros H; contradiction]]].
  - destruct (Nat.ltb_spec sel0 bs) as [Hlt|Hge].
    + assert (Hle' : (if b then S sel0 else sel0) <= bs) by (destruct b; lia).
      destruct (IH bs (S rows0) (if b then S sel0 else sel0) Hle') as (k & Hk & Hkl & Hsel & _).
      exists (S k). cbn [firstn skipn count_true length]. rewrite Hk.
      split; [|split; [lia|split; [destruct b; lia|lia]]].
      replace (rows0 + S k) with (S rows0 + k) by lia.
      replace (sel0 + ((if b then 1 else 0) + count_true (firstn k m)))
        with ((if b then S sel0 else sel0) + count_true (firstn k m)) by (destruct b; lia).
      reflexivity.
    + exists 0. cbn [firstn skipn count_true]. rewrite !Nat.add_0_r.
      split; [reflexivity|split; [lia|split; [lia|lia]]].
Qed.

Lemma leading_false_spec m :
  m = repeat false (leading_false m) ++ skipn (leading_false m) m
  /\ (count_true m <> 0 -> skipn (leading_false m) m <> []).
Proof.
  induction m as [|b m [IH1 IH2]]; [split; [reflexivity|cbn; lia]|].
  destruct b; cbn [leading_false skipn repeat app count_true].
  - split; [reflexivity|discriminate].
  - split; [now rewrite <- IH1|exact IH2].
Qed.

Lemma last_skipn {A} (l : list A) d : forall k, skipn k l <> [] -> last (skipn k l) d = last l d.
Proof.
  induction l as [|x l IH]; intros k H; [now rewrite skipn_nil in *|].
  destruct k as [|k]; [reflexivity|]. cbn [skipn] in *. rewrite IH by exact H.
  destruct l; [now rewrite skipn_nil in H|reflexivity].
Qed.

Lemma skipn_skipn' {A} (l : list A) : forall a b, skipn a (skipn b l) = skipn (b + a) l.
Proof.
  induction l as [|x l IH]; intros a b; [now rewrite !skipn_nil|].
  destruct b as [|b]; [reflexivity|]. cbn [skipn Nat.add]. apply IH.
Qed.

Lemma ends_true_skipn m k : ends_true m -> ends_true (skipn k m).
Proof.
  intros [->|H]; [left; apply skipn_nil|].
  destruct (skipn k m) eqn:E; [now left|]. right. rewrite <- E, last_skipn by (rewrite E; discriminate).
  exact H.
Qed.

Lemma ends_true_count m : ends_true m -> m <> [] -> count_true m <> 0.
Proof.
  intros [->|H] Hne; [contradiction|].
  rewrite (app_removelast_last false Hne), H, count_true_app. cbn. lia.
Qed.

Lemma mask_chunks_spec fuel : forall m pos bs,
  1 <= bs -> length m < fuel -> ends_true m ->
  flat_map chunk_bits (mask_chunks fuel m pos bs) = m /\ Forall (chunk_ok bs) (mask_chunks fuel m pos bs).
Proof.
  induction fuel as [|fuel IH]; intros m pos bs Hbs Hf He; [lia|].
  cbn [mask_chunks]. destruct m as [|b0 m0]; [split; [reflexivity|constructor]|].
  set (m := b0 :: m0) in *.
  destruct (leading_false_spec m) as [Hm Hne].
  set (isk := leading_false m) in *. set (m1 := skipn isk m) in *.
  assert (Hm1 : m1 <> []) by (apply Hne, ends_true_count; [exact He|discriminate]).
  destruct (take_selected_spec m1 bs 0 0 (Nat.le_0_l bs)) as (k & Hk & Hkl & Hsel & Hk1).
  specialize (Hk1 Hm1 Hbs). rewrite Hk. cbn [Nat.add].
  assert (Hlen : length m = isk + length m1).
  { rewrite Hm at 1. rewrite app_length, repeat_length. reflexivity. }
  destruct (IH (skipn k m1) (pos + isk + k) bs Hbs) as [IH1 IH2].
  { rewrite skipn_length. lia. }
  { unfold m1. rewrite skipn_skipn'. now apply ends_true_skipn. }
  split.
  - cbn [flat_map chunk_bits]. rewrite IH1, <- !app_assoc, firstn_skipn. symmetry. exact Hm.
  - constructor; [|exact IH2]. cbn [chunk_ok]. rewrite firstn_length. repeat split; lia.
Qed.

Lemma trim_spec_ends_true l : ends_true (trim_spec l).
Proof.
  unfold trim_spec. destruct (drop_false (rev l)) as [|b r] eqn:E; [now left|].
  right. cbn [rev]. rewrite last_last.
  clear -E. induction (rev l) as [|x xs IH]; [discriminate|].
  destruct x; cbn [drop_false] in E; [now inversion E|now apply IH].
Qed.

Lemma trim_spec_no_true l : count_true l = 0 -> trim_spec l = [].
Proof.
  intros H. unfold trim_spec.
  assert (Hr : count_true (rev l) = 0).
  { clear -H. induction l as [|b l IH]; [reflexivity|]. cbn [count_true rev] in *.
    rewrite count_true_app. cbn. destruct b; [lia|]. rewrite IH; lia. }
  clear H. induction (rev l) as [|x xs IH]; [reflexivity|].
  cbn [count_true] in Hr. destruct x; [lia|]. cbn [drop_false]. apply IH. lia.
Qed.

Lemma selects_any_false_count s : selects_any s = false -> count_true (den s) = 0.
Proof.
  destruct s as [l|m]; cbn [selects_any den].
  - induction l as [|[sk c] l IH]; [reflexivity|]. cbn [existsb fst]. intros H.
    apply orb_false_elim in H as [H1 H2]. destruct sk; [|discriminate].
    rewrite dens_cons, count_true_app, count_true_repeat. cbn [negb]. now apply IH.
  - induction m as [|b m IH]; [reflexivity|]. cbn [existsb]. intros H.
    apply orb_false_elim in H as [H1 H2]. subst b. cbn [count_true]. now apply IH.
Qed.

(* the chunks of a Mask-policy plan tile the trimmed selection; each selects at most [bs] rows *)
Theorem plan_mask_spec s bs : wf_rowsel s -> 1 <= bs ->
  flat_map chunk_bits (plan_mask s bs) = trim_spec (den s)
  /\ Forall (chunk_ok bs) (plan_mask s bs).
Proof.
  intros Hwf Hbs. unfold plan_mask, mask_of.
  set (s1 := if selects_any s then s else Sels []).
  assert (Hwf1 : wf_rowsel s1) by (subst s1; destruct (selects_any s); [exact Hwf|constructor]).
  assert (Hd : den (trim s1) = trim_spec (den s)).
  { rewrite den_trim by exact Hwf1. subst s1. destruct (selects_any s) eqn:E; [reflexivity|].
    cbn [den dens flat_map]. symmetry. apply trim_spec_no_true. now apply selects_any_false_count. }
  rewrite Hd. apply mask_chunks_spec; [exact Hbs|lia|apply trim_spec_ends_true].
Qed.
