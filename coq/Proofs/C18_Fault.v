(* C18 - theorems about the sink / writer fault model (Model/C18_Fault.v). *)
From Coq Require Import List Arith ZArith Bool Lia.
From AV Require Import Model.C18_Fault.
Import ListNotations.

Lemma is_prefix_refl a : is_prefix a a.
Proof. exists []. now rewrite app_nil_r. Qed.
Lemma is_prefix_nil a : is_prefix [] a.
Proof. now exists a. Qed.
Lemma is_prefix_app_r a b c : is_prefix a b -> is_prefix a (b ++ c).
Proof. intros [r ->]. exists (r ++ c). now rewrite app_assoc. Qed.
Lemma is_prefix_app_l a b c : is_prefix b c -> is_prefix (a ++ b) (a ++ c).
Proof. intros [r ->]. exists r. now rewrite app_assoc. Qed.

(* ---------------------------------------------------------------- write_all *)
Lemma write_all_prefix : forall script sticky buf o out s',
  write_all script sticky buf = (o, out, s') ->
  is_prefix out buf /\ (o = Done -> out = buf).
Proof.
  induction script as [|r script IH]; intros sticky buf o out s' H.
  - destruct buf as [|b buf]; cbn [write_all] in H.
    + inversion H; subst. split; [apply is_prefix_refl|auto].
    + destruct sticky; inversion H; subst; split;
        [apply is_prefix_nil|discriminate|apply is_prefix_refl|auto].
  - destruct buf as [|b buf]; [cbn [write_all] in H; inversion H; subst; split; [apply is_prefix_refl|auto]|].
    cbn [write_all] in H. destruct r as [n| | | |].
    + set (k := Nat.min (Nat.max n 1) (length (b :: buf))) in *.
      destruct (write_all script sticky (skipn k (b :: buf))) as [[o1 out1] s1] eqn:E.
      inversion H; subst. destruct (IH _ _ _ _ _ E) as [Hp Hd]. split.
      * rewrite <- (firstn_skipn k (b :: buf)) at 2. now apply is_prefix_app_l.
      * intros D. rewrite (Hd D). apply firstn_skipn.
    + inversion H; subst. split; [apply is_prefix_refl|auto].
    + now apply IH in H.
    + inversion H; subst. split; [apply is_prefix_nil|discriminate].
    + inversion H; subst. split; [apply is_prefix_nil|discriminate].
Qed.

(* ---------------------------------------------------------------- run: success => everything accepted;
   whatever the script, the bytes emitted are a prefix of the fault-free output *)
Theorem run_prefix : forall calls script sticky o out,
  run script sticky calls = (o, out) ->
  is_prefix out (bytes_of_calls calls) /\ (o = Done -> out = bytes_of_calls calls).
Proof.
  unfold bytes_of_calls.
  induction calls as [|c cs IH]; intros script sticky o out H; cbn [run map concat] in *.
  - inversion H; subst. split; [apply is_prefix_refl|auto].
  - destruct c as [b|]; cbn [call_bytes].
    + destruct (write_all script sticky b) as [[o1 out1] s1] eqn:E.
      destruct (write_all_prefix _ _ _ _ _ _ E) as [Hp Hd].
      destruct o1.
      * rewrite (Hd eq_refl) in *. destruct (run s1 sticky cs) as [o2 out2] eqn:E2.
        inversion H; subst. destruct (IH _ _ _ _ E2) as [Hp2 Hd2]. split.
        -- now apply is_prefix_app_l.
        -- intros D. now rewrite (Hd2 D).
      * inversion H; subst. split; [now apply is_prefix_app_r|discriminate].
    + destruct (flush1 script sticky) as [o1 s1]. destruct o1.
      * cbn [app]. eapply IH; eassumption.
      * inversion H; subst. split; [apply is_prefix_nil|discriminate].
Qed.

Corollary ok_all_accepted : forall calls script sticky out,
  run script sticky calls = (Done, out) -> out = bytes_of_calls calls.
Proof. intros calls script sticky out H. now apply (run_prefix _ _ _ _ _ H). Qed.

Corollary emitted_prefix : forall calls script sticky,
  is_prefix (snd (run script sticky calls)) (bytes_of_calls calls).
Proof.
  intros calls script sticky. destruct (run script sticky calls) as [o out] eqn:E.
  now apply (run_prefix _ _ _ _ _ E).
Qed.

(* ---------------------------------------------------------------- the first k calls are accepted in full *)
Lemma write_all_accept_all sticky s b bs :
  write_all (AcceptAll :: s) sticky (b :: bs) = (Done, b :: bs, s).
Proof. reflexivity. Qed.

Lemma bytes_of_calls_cons c cs : bytes_of_calls (c :: cs) = call_bytes c ++ bytes_of_calls cs.
Proof. reflexivity. Qed.

Lemma run_accept_prefix : forall k calls rest sticky,
  k <= length calls -> forallb nonempty_call calls = true ->
  run (repeat AcceptAll k ++ rest) sticky calls =
  let '(o, out) := run rest sticky (skipn k calls) in (o, bytes_of_calls (firstn k calls) ++ out).
Proof.
  induction k as [|k IH]; intros calls rest sticky Hk Hne.
  - cbn [repeat app skipn firstn]. destruct (run rest sticky calls). reflexivity.
  - destruct calls as [|c cs]; [cbn in Hk; lia|].
    cbn [forallb] in Hne. apply andb_true_iff in Hne as [Hc Hcs].
    cbn [length] in Hk. cbn [repeat app skipn firstn]. rewrite bytes_of_calls_cons.
    destruct c as [[|b bs]|]; [discriminate| |].
    + cbn [run]. rewrite write_all_accept_all. rewrite IH by (assumption || lia).
      destruct (run rest sticky (skipn k cs)) as [o out]. cbn [call_bytes]. now rewrite app_assoc.
    + cbn [run flush1 call_bytes app]. now rewrite IH by (assumption || lia).
Qed.

(* A hard fault (Err, or Ok(0) = WriteZero) at call k: the run ends in Err and the bytes emitted are
   exactly those of the first k calls. *)
Theorem fault_at_k : forall calls k rest sticky r,
  k < length calls -> forallb nonempty_call calls = true -> (r = Fail \/ r = Zero /\ is_write (nth k calls Flush) = true) ->
  run (repeat AcceptAll k ++ r :: rest) sticky calls = (Failed, bytes_of_calls (firstn k calls)).
Proof.
  intros calls k rest sticky r Hk Hne Hr.
  rewrite run_accept_prefix by (assumption || lia).
  assert (Hs : exists c cs, skipn k calls = c :: cs /\ nth k calls Flush = c /\ nonempty_call c = true).
  { clear Hr. revert calls Hk Hne. induction k as [|k IH]; intros [|c cs] Hk Hne; cbn [length] in Hk; try lia.
    - cbn [forallb] in Hne. apply andb_true_iff in Hne as [Hc _]. now exists c, cs.
    - cbn [forallb] in Hne. apply andb_true_iff in Hne as [_ Hcs]. cbn [skipn nth]. apply IH; [lia|exact Hcs]. }
  destruct Hs as (c & cs & -> & Hn & Hc).
  destruct c as [[|b bs]|]; [discriminate| |].
  - cbn [run]. destruct Hr as [->|[-> _]]; cbn [write_all]; now rewrite app_nil_r.
  - destruct Hr as [->|[-> Hw]]; [|rewrite Hn in Hw; discriminate].
    cbn [run flush1]. now rewrite app_nil_r.
Qed.

(* the sticky script of the harness: calls k, k+1, ... all fail *)
Theorem fault_at_k_sticky : forall calls k,
  k < length calls -> forallb nonempty_call calls = true ->
  run (repeat AcceptAll k) true calls = (Failed, bytes_of_calls (firstn k calls)).
Proof.
  intros calls k Hk Hne.
  rewrite <- (app_nil_r (repeat AcceptAll k)), run_accept_prefix by (assumption || lia).
  assert (Hs : exists c cs, skipn k calls = c :: cs /\ nonempty_call c = true).
  { revert calls Hk Hne. induction k as [|k IH]; intros [|c cs] Hk Hne; cbn [length] in Hk; try lia.
    - cbn [forallb] in Hne. apply andb_true_iff in Hne as [Hc _]. now exists c, cs.
    - cbn [forallb] in Hne. apply andb_true_iff in Hne as [_ Hcs]. cbn [skipn]. apply IH; [lia|exact Hcs]. }
  destruct Hs as (c & cs & -> & Hc).
  destruct c as [[|b bs]|]; [discriminate| |]; cbn [run write_all flush1]; now rewrite app_nil_r.
Qed.

(* ---------------------------------------------------------------- Interrupted and short writes are absorbed *)
Lemma write_all_soft : forall script buf, forallb soft script = true ->
  exists s', write_all script false buf = (Done, buf, s') /\ forallb soft s' = true.
Proof.
  induction script as [|r script IH]; intros buf Hs.
  - destruct buf; cbn [write_all]; eexists; split; reflexivity.
  - cbn [forallb] in Hs. apply andb_true_iff in Hs as [Hr Hs].
    destruct buf as [|b buf]; [cbn [write_all]; eexists; split; [reflexivity|cbn [forallb]; now rewrite Hr]|].
    cbn [write_all]. destruct r as [n| | | |]; try discriminate.
    + set (k := Nat.min (Nat.max n 1) (length (b :: buf))).
      destruct (IH (skipn k (b :: buf)) Hs) as (s' & E & Hs'). rewrite E.
      exists s'. split; [now rewrite firstn_skipn|exact Hs'].
    + exists script. split; [reflexivity|exact Hs].
    + apply IH, Hs.
Qed.

(* a writer that only writes: any mix of short writes and Interrupted still delivers everything *)
Theorem soft_faults_absorbed : forall calls script,
  forallb soft script = true -> forallb is_write calls = true ->
  run script false calls = (Done, bytes_of_calls calls).
Proof.
  induction calls as [|c cs IH]; intros script Hs Hw; [reflexivity|].
  cbn [forallb] in Hw. apply andb_true_iff in Hw as [Hc Hcs].
  destruct c as [b|]; [|discriminate]. cbn [run].
  destruct (write_all_soft script b Hs) as (s' & E & Hs'). rewrite E.
  rewrite (IH s' Hs' Hcs). reflexivity.
Qed.

(* the two soft scripts of the harness, with flush calls allowed: a short write or an Interrupted
   at a (non-empty) write call k changes nothing *)
Theorem soft_fault_at_k : forall calls k r,
  k < length calls -> forallb nonempty_call calls = true -> is_write (nth k calls Flush) = true ->
  (r = Interrupted \/ exists n, r = Accept n) ->
  run (repeat AcceptAll k ++ [r]) false calls = (Done, bytes_of_calls calls).
Proof.
  intros calls k r Hk Hne Hw Hr.
  rewrite run_accept_prefix by (assumption || lia).
  assert (Hall : forall cs, run [] false cs = (Done, bytes_of_calls cs)).
  { induction cs as [|c cs IHc]; [reflexivity|]. destruct c as [[|b bs]|]; cbn [run write_all flush1].
    - rewrite IHc. reflexivity.
    - rewrite IHc. reflexivity.
    - rewrite IHc. reflexivity. }
  assert (Hs : exists b bs cs, skipn k calls = Write (b :: bs) :: cs).
  { clear Hr. revert calls Hk Hne Hw. induction k as [|k IH]; intros [|c cs] Hk Hne Hw; cbn [length] in Hk; try lia.
    - cbn [forallb] in Hne. apply andb_true_iff in Hne as [Hc _]. cbn [nth] in Hw.
      destruct c as [[|b bs]|]; try discriminate. now exists b, bs, cs.
    - cbn [forallb] in Hne. apply andb_true_iff in Hne as [_ Hcs]. cbn [skipn nth] in *. apply IH; [lia|exact Hcs|exact Hw]. }
  destruct Hs as (b & bs & cs & E).
  assert (Hrun : run [r] false (skipn k calls) = (Done, bytes_of_calls (skipn k calls))).
  { rewrite E. cbn [run]. destruct Hr as [->|[n ->]].
    - cbn [write_all]. rewrite Hall. reflexivity.
    - destruct (write_all_soft [Accept n] (b :: bs) eq_refl) as (s' & Ew & Hs').
      rewrite Ew.
      assert (s' = []) as ->.
      { cbn [write_all] in Ew. set (q := Nat.min (Nat.max n 1) (length (b :: bs))) in *.
        destruct (skipn q (b :: bs)) eqn:Es; cbn [write_all] in Ew; inversion Ew; reflexivity. }
      rewrite Hall. reflexivity. }
  rewrite Hrun. unfold bytes_of_calls. rewrite <- concat_app, <- map_app, firstn_skipn. reflexivity.
Qed.

(* ---------------------------------------------------------------- non-vacuity *)
Example fault_example :
  run (script_of 1 2) (sticky_of 1) [Write [1;2;3]%Z; Flush; Write [4;5]%Z; Write [6]%Z] = (Failed, [1;2;3]%Z).
Proof. reflexivity. Qed.
Example short_example :
  run (script_of 2 0) (sticky_of 2) [Write [1;2;3]%Z; Flush; Write [4;5]%Z] = (Done, [1;2;3;4;5]%Z).
Proof. reflexivity. Qed.

(* ---------------------------------------------------------------- executable helpers are sound *)
Lemma list_eqb_eq a b : list_eqb a b = true <-> a = b.
Proof.
  revert b. induction a as [|x a IH]; intros [|y b]; cbn [list_eqb]; split; intros H; try discriminate; auto.
  - destruct (Z.eqb_spec x y) as [->|]; [|discriminate]. f_equal. now apply IH.
  - inversion H; subst. rewrite Z.eqb_refl. now apply IH.
Qed.
Lemma prefixb_spec a b : prefixb a b = true <-> is_prefix a b.
Proof.
  revert b. induction a as [|x a IH]; intros b; cbn [prefixb].
  - split; [intros _; apply is_prefix_nil|reflexivity].
  - destruct b as [|y b].
    + split; [discriminate|intros [r Hr]; discriminate].
    + destruct (Z.eqb_spec x y) as [->|N].
      * rewrite IH. split; intros [r Hr]; exists r; [now rewrite Hr|now inversion Hr].
      * split; [discriminate|intros [r Hr]; cbn [app] in Hr; congruence].
Qed.
