(* C05 — non-vacuity: the hypotheses of the round-trip theorems are met by concrete, non-trivial inputs. *)
From Coq Require Import List NArith ZArith Bool.
From AV Require Import Model.C05_Enc Model.C05_Levels.
Import ListNotations.

(* i64 extremes: every delta wraps *)
Example delta_i64_extremes :
  delta_decode 64 (delta_encode 64 [(-9223372036854775808)%Z; 9223372036854775807%Z; (-9223372036854775808)%Z; 0%Z; (-1)%Z])
  = Some ([(-9223372036854775808)%Z; 9223372036854775807%Z; (-9223372036854775808)%Z; 0%Z; (-1)%Z], []).
Proof. vm_compute. reflexivity. Qed.

(* more than one block of INT32 values, last mini block partly filled *)
Example delta_i32_blocks :
  let vs := map (fun i => (Z.of_nat i * 1000003 mod 4294967296 - 2147483648)%Z) (seq 0 300) in
  delta_decode 32 (delta_encode 32 vs) = Some (vs, []).
Proof. vm_compute. reflexivity. Qed.

(* RLE run, bit-packed run, run switch, padded last group *)
Example rle_mixed :
  let vs := repeat 5%N 20 ++ [1; 2; 3; 4; 5; 6; 7; 0; 1; 2]%N ++ repeat 7%N 9 ++ [3; 3]%N in
  rle_decode 3 (length vs) (rle_encode 3 vs) = Some vs.
Proof. vm_compute. reflexivity. Qed.

(* optional list of optional values: null list, empty list, null element *)
Example shred_nested :
  let p := [Opt; Rep; Opt] in
  let rows : list (val p) := [None; Some []; Some [None; Some 7%Z]; Some [Some 1%Z]] in
  map (fun e => (e_def e, e_rep e)) (shred_rows p rows) = [(0, 0); (1, 0); (2, 0); (3, 1); (3, 0)]%nat /\
  assemble_rows 10 p (shred_rows p rows) = Some rows.
Proof. vm_compute. split; reflexivity. Qed.
