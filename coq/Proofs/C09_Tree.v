(* C09: generic facts about per-node predicates lifted to whole array trees. *)
From Coq Require Import List Bool.
From AV Require Import Model.C09_Layout.
Import ListNotations.

Lemma tree_all_unfold P a :
  tree_all P a = P a && forallb (tree_all P) (p_kids a).
Proof. destruct a; reflexivity. Qed.

(* nested induction: a node-level implication lifts to the whole tree *)
Fixpoint tree_all_impl (P Q : parr -> bool) (H : forall a, P a = true -> Q a = true) (a : parr) {struct a} :
  tree_all P a = true -> tree_all Q a = true.
Proof.
  destruct a as [ty len off nulls bufs kids]. cbn [tree_all].
  intros H1. apply andb_true_iff in H1. destruct H1 as [Ha Hk].
  apply andb_true_iff. split; [apply H, Ha|]. clear Ha.
  revert Hk. induction kids as [|k ks IH]; intros Hk; [reflexivity|].
  cbn [forallb] in *. apply andb_true_iff in Hk. destruct Hk as [Hk1 Hk2].
  apply andb_true_iff. split; [exact (tree_all_impl P Q H k Hk1) | exact (IH Hk2)].
Qed.

Lemma tree_all_and P Q a : tree_all (fun n => P n && Q n) a = tree_all P a && tree_all Q a.
Proof.
  revert a. fix IH 1. intros [ty len off nulls bufs kids]. cbn [tree_all].
  assert (Hk : forallb (tree_all (fun n => P n && Q n)) kids = forallb (tree_all P) kids && forallb (tree_all Q) kids).
  { induction kids as [|k ks IHk]; [reflexivity|]. cbn [forallb]. rewrite (IH k), IHk.
    destruct (tree_all P k), (tree_all Q k), (forallb (tree_all P) ks), (forallb (tree_all Q) ks); reflexivity. }
  rewrite Hk.
  destruct (P _), (Q _), (forallb (tree_all P) kids), (forallb (tree_all Q) kids); reflexivity.
Qed.
