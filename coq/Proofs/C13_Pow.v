(* C13 — powers of ten, the MAX_FOR_EACH_PRECISION tables and precision validation. *)
From Coq Require Import List ZArith Bool Lia.
From AV Require Import Gen.Consts Model.C13_Num Model.C13_Decimal.
Import ListNotations.
Local Open Scope Z_scope.

Lemma pow10_pos : forall k, 0 <= k -> 0 < 10 ^ k.
Proof. intros k Hk. apply Z.pow_pos_nonneg; lia. Qed.
Lemma pow10_mono : forall a b, 0 <= a <= b -> 10 ^ a <= 10 ^ b.
Proof. intros a b H. apply Z.pow_le_mono_r; lia. Qed.
Lemma pow10_mono_lt : forall a b, 0 <= a < b -> 10 ^ a < 10 ^ b.
Proof. intros a b H. apply Z.pow_lt_mono_r; lia. Qed.
Lemma pow10_add : forall a b, 0 <= a -> 0 <= b -> 10 ^ (a + b) = 10 ^ a * 10 ^ b.
Proof. intros a b Ha Hb. apply Z.pow_add_r; assumption. Qed.
Lemma pow10_ge1 : forall k, 0 <= k -> 1 <= 10 ^ k.
Proof. intros k Hk. pose proof (pow10_pos k Hk). lia. Qed.

Definition widths : list Z := [32; 64; 128; 256].

(* every entry of the (regenerated) tables is 10^k - 1, and the tables have MAX_PRECISION + 1 entries *)
Definition table_ok (w : Z) : bool :=
  forallb (fun n => match nth_error (max_table w) n with Some m => m =? 10 ^ Z.of_nat n - 1 | None => false end)
          (seq 0 (S (Z.to_nat (dec_maxp w))))
  && Nat.eqb (length (max_table w)) (S (Z.to_nat (dec_maxp w))).
Lemma tables_ok : forall w, In w widths -> table_ok w = true.
Proof.
  intros w [<-|[<-|[<-|[<-|[]]]]]; vm_compute; reflexivity.
Qed.

Lemma dec_maxp_pos : forall w, In w widths -> 1 <= dec_maxp w <= 76.
Proof. intros w [<-|[<-|[<-|[<-|[]]]]]; vm_compute; split; discriminate. Qed.

Lemma table_get_some : forall w k, In w widths -> 0 <= k <= dec_maxp w -> table_get w k = Some (10 ^ k - 1).
Proof.
  intros w k Hw Hk. pose proof (tables_ok w Hw) as T. unfold table_ok in T.
  apply andb_true_iff in T. destruct T as [T _]. rewrite forallb_forall in T.
  unfold table_get. destruct (Z.ltb_spec k 0); [lia|].
  specialize (T (Z.to_nat k)). rewrite in_seq in T.
  assert (Hn : (0 <= Z.to_nat k < 0 + S (Z.to_nat (dec_maxp w)))%nat) by lia.
  specialize (T Hn). destruct (nth_error (max_table w) (Z.to_nat k)) as [m|]; [|discriminate].
  apply Z.eqb_eq in T. rewrite Z2Nat.id in T by lia. subst. reflexivity.
Qed.
Lemma table_get_none : forall w k, In w widths -> k < 0 \/ dec_maxp w < k -> table_get w k = None.
Proof.
  intros w k Hw Hk. pose proof (tables_ok w Hw) as T. unfold table_ok in T.
  apply andb_true_iff in T. destruct T as [_ T]. apply Nat.eqb_eq in T.
  unfold table_get. destruct (Z.ltb_spec k 0); [reflexivity|].
  apply nth_error_None. rewrite T. pose proof (dec_maxp_pos w Hw). lia.
Qed.

(* the largest decimal of a width fits the native type with room to spare *)
Lemma pow10_fits_width : forall w, In w widths -> 10 ^ dec_maxp w < 2 ^ (w - 1).
Proof. intros w [<-|[<-|[<-|[<-|[]]]]]; vm_compute; reflexivity. Qed.

Lemma fits_signed_abs : forall w v, Z.abs v < 2 ^ (w - 1) -> fits w true v = true.
Proof.
  intros w v H. unfold fits, imin, imax. apply Z.abs_lt in H.
  apply andb_true_iff. split; apply Z.leb_le; lia.
Qed.

Lemma in_prec_fits : forall w p v, In w widths -> 0 <= p <= dec_maxp w -> Z.abs v < 10 ^ p -> fits w true v = true.
Proof.
  intros w p v Hw Hp Hv. apply fits_signed_abs.
  pose proof (pow10_fits_width w Hw). pose proof (pow10_mono p (dec_maxp w) Hp). lia.
Qed.

Lemma valid_prec_spec : forall w p v, In w widths -> 0 <= p <= dec_maxp w -> valid_prec w p v = in_prec p v.
Proof.
  intros w p v Hw Hp. unfold valid_prec, in_prec. cbv beta zeta. rewrite (table_get_some w p Hw Hp).
  destruct (Z.ltb_spec (Z.abs v) (10 ^ p)) as [H|H].
  - apply Z.abs_lt in H. apply andb_true_iff. split; apply Z.leb_le; lia.
  - apply andb_false_iff. destruct (Z.leb_spec (- (10 ^ p - 1)) v); [|left; reflexivity].
    right. apply Z.leb_gt. lia.
Qed.

Lemma check_prec_spec : forall w p v, In w widths -> 0 <= p <= dec_maxp w ->
  check_prec w p v = if in_prec p v then Some v else None.
Proof. intros w p v Hw Hp. unfold check_prec. rewrite valid_prec_spec by assumption. reflexivity. Qed.

Lemma dec_type_ok_bounds : forall w p s, dec_type_ok w p s = true ->
  1 <= p <= dec_maxp w /\ s <= dec_maxs w /\ (0 < s -> s <= p) /\ -128 <= s.
Proof.
  intros w p s H. unfold dec_type_ok in H.
  apply andb_true_iff in H; destruct H as [H H5].
  apply andb_true_iff in H; destruct H as [H H4].
  apply andb_true_iff in H; destruct H as [H H3].
  apply andb_true_iff in H; destruct H as [H1 H2].
  apply Z.leb_le in H1, H2, H3, H5.
  repeat split; try lia. intros Hs. apply Z.ltb_lt in Hs. rewrite Hs in H4. apply Z.leb_le in H4. assumption.
Qed.
