(* C13 — integer <-> integer casts are exact range checks; unit conversions of timestamps /
   durations / dates are exact multiplications (or truncating divisions); inverses. *)
From Coq Require Import List ZArith Bool Lia.
From AV Require Import Gen.Consts Model.C13_Num Model.C13_Decimal Model.C13_Cast Proofs.C13_Pow Proofs.C13_Rescale.
Import ListNotations.
Local Open Scope Z_scope.

Theorem int_cast_exact : forall b1 s1 b2 s2 v, fits b1 s1 v = true ->
  kernel_value (kernel_of (TInt b1 s1) (TInt b2 s2)) v = Some (if fits b2 s2 v then Some v else None).
Proof.
  intros b1 s1 b2 s2 v Hv. unfold kernel_of. cbn [mty_eqb].
  destruct ((b1 =? b2) && Bool.eqb s1 s2) eqn:E.
  - apply andb_true_iff in E. destruct E as [Eb Es]. apply Z.eqb_eq in Eb. apply Bool.eqb_prop in Es. subst.
    rewrite Hv. reflexivity.
  - cbn [kernel_value]. unfold num_cast. reflexivity.
Qed.

Theorem int_cast_inverse : forall b1 s1 b2 s2 v w, fits b1 s1 v = true ->
  kernel_value (kernel_of (TInt b1 s1) (TInt b2 s2)) v = Some (Some w) ->
  w = v /\ kernel_value (kernel_of (TInt b2 s2) (TInt b1 s1)) w = Some (Some v).
Proof.
  intros b1 s1 b2 s2 v w Hv H. rewrite int_cast_exact in H by assumption.
  destruct (fits b2 s2 v) eqn:F; [|discriminate]. inversion H; subst w. split; [reflexivity|].
  rewrite int_cast_exact by assumption. rewrite Hv. reflexivity.
Qed.

(* bool <-> integer *)
Theorem bool_int_exact : forall bits sg v, (v = 0 \/ v = 1) ->
  kernel_value (kernel_of TBool (TInt bits sg)) v = Some (Some v)
  /\ kernel_value (kernel_of (TInt bits sg) TBool) v = Some (Some v).
Proof. intros bits sg v [-> | ->]; split; reflexivity. Qed.
Theorem int_bool_exact : forall bits sg v,
  kernel_value (kernel_of (TInt bits sg) TBool) v = Some (Some (if v =? 0 then 0 else 1)).
Proof. intros. reflexivity. Qed.

(* ---------------------------------------------------------------- time units *)
Definition units : list Z := [0; 1; 2; 3].
Lemma unit_mult_pos : forall u, In u units -> 0 < unit_mult u.
Proof. intros u [<-|[<-|[<-|[<-|[]]]]]; reflexivity. Qed.
Lemma unit_mult_div : forall u1 u2, In u1 units -> In u2 units -> unit_mult u1 <= unit_mult u2 ->
  Z.quot (unit_mult u2) (unit_mult u1) * unit_mult u1 = unit_mult u2.
Proof.
  intros u1 u2 [<-|[<-|[<-|[<-|[]]]]] [<-|[<-|[<-|[<-|[]]]]] H; try reflexivity; exfalso; revert H; vm_compute; intros H; apply H; reflexivity.
Qed.

Theorem temporal_unit_exact : forall u1 u2 v w, In u1 units -> In u2 units ->
  kernel_value (unit_change_kernel u1 u2) v = Some (Some w) ->
  (unit_mult u1 <= unit_mult u2 -> w * unit_mult u1 = v * unit_mult u2)
  /\ (unit_mult u2 < unit_mult u1 -> w = Z.quot (v * unit_mult u2) (unit_mult u1)).
Proof.
  intros u1 u2 v w H1 H2 Hk.
  pose proof (unit_mult_pos u1 H1) as P1. pose proof (unit_mult_pos u2 H2) as P2.
  unfold unit_change_kernel in Hk.
  destruct (Z.ltb_spec (unit_mult u2) (unit_mult u1)) as [Hlt|Hge].
  - cbn in Hk. inversion Hk; subst w. split; [lia|]. intros _.
    pose proof (unit_mult_div u2 u1 H2 H1 ltac:(lia)) as D.
    set (k := Z.quot (unit_mult u1) (unit_mult u2)) in *.
    rewrite <- D. assert (k <> 0) by (intros ->; lia).
    rewrite Z.quot_mul_cancel_r by lia. reflexivity.
  - destruct (Z.eqb_spec (unit_mult u2) (unit_mult u1)) as [He|Hne].
    + cbn in Hk. inversion Hk; subst w. split; [intros _; rewrite He; reflexivity|lia].
    + cbn in Hk. destruct (checked_mul 64 v (Z.quot (unit_mult u2) (unit_mult u1))) as [m|] eqn:M; [|discriminate].
      inversion Hk; subst m. apply checked_mul_inv in M. subst w. split; [|lia]. intros _.
      pose proof (unit_mult_div u1 u2 H1 H2 ltac:(lia)) as D. rewrite <- D at 2. ring.
Qed.

(* a unit conversion yields a null / error exactly when the exact product leaves i64 *)
Theorem temporal_unit_overflow : forall u1 u2 v, In u1 units -> In u2 units ->
  kernel_value (unit_change_kernel u1 u2) v = Some None <->
  unit_mult u1 < unit_mult u2 /\ fits 64 true (v * Z.quot (unit_mult u2) (unit_mult u1)) = false.
Proof.
  intros u1 u2 v H1 H2. unfold unit_change_kernel.
  destruct (Z.ltb_spec (unit_mult u2) (unit_mult u1)) as [Hlt|Hge].
  - cbn. split; [discriminate|]. intros [H _]. lia.
  - destruct (Z.eqb_spec (unit_mult u2) (unit_mult u1)) as [He|Hne].
    + cbn. split; [discriminate|]. intros [H _]. lia.
    + cbn. unfold checked_mul. cbv zeta. destruct (fits 64 true (v * Z.quot (unit_mult u2) (unit_mult u1))).
      * split; [discriminate|]. intros [_ H]. discriminate.
      * split; [intros _; split; [lia|reflexivity]|reflexivity].
Qed.

(* to a finer unit and back is the identity *)
Theorem temporal_unit_inverse : forall u1 u2 v w, In u1 units -> In u2 units -> unit_mult u1 <= unit_mult u2 ->
  kernel_value (unit_change_kernel u1 u2) v = Some (Some w) ->
  kernel_value (unit_change_kernel u2 u1) w = Some (Some v).
Proof.
  intros u1 u2 v w H1 H2 Hle Hk.
  pose proof (unit_mult_pos u1 H1) as P1. pose proof (unit_mult_pos u2 H2) as P2.
  destruct (temporal_unit_exact u1 u2 v w H1 H2 Hk) as [E _]. specialize (E Hle).
  unfold unit_change_kernel.
  destruct (Z.ltb_spec (unit_mult u1) (unit_mult u2)) as [Hlt|Hge].
  - cbn. pose proof (unit_mult_div u1 u2 H1 H2 Hle) as D.
    set (k := Z.quot (unit_mult u2) (unit_mult u1)) in *.
    assert (Ew : w = v * k) by nia. subst w.
    assert (k <> 0) by (intros ->; lia). rewrite Z.quot_mul by assumption. reflexivity.
  - assert (Eq : unit_mult u1 = unit_mult u2) by lia. rewrite Eq, Z.eqb_refl. cbn.
    rewrite Eq in E. assert (w = v) by nia. subst. reflexivity.
Qed.

(* dates *)
Theorem date32_date64_exact : forall v, fits 32 true v = true ->
  kernel_value (kernel_of TDate32 TDate64) v = Some (Some (v * 86400000))
  /\ fits 64 true (v * 86400000) = true
  /\ kernel_value (kernel_of TDate64 TDate32) (v * 86400000) = Some (Some v).
Proof.
  intros v Hv. split; [reflexivity|]. pose proof Hv as Hv0.
  unfold fits, imin, imax in Hv. apply andb_true_iff in Hv. destruct Hv as [L U]. apply Z.leb_le in L, U.
  change (2 ^ (32 - 1)) with 2147483648 in L, U.
  split.
  - unfold fits, imin, imax. change (2 ^ (64 - 1)) with 9223372036854775808.
    apply andb_true_iff. split; apply Z.leb_le; lia.
  - cbn [kernel_of mty_eqb kernel_value]. change MS_DAY with 86400000. rewrite Z.quot_mul by lia.
    unfold num_cast. rewrite Hv0. reflexivity.
Qed.

(* ---------------------------------------------------------------- decimal inverse (specification level) *)
Lemma rha_mul : forall div x, 0 < div -> round_half_away div (x * div) = x.
Proof.
  intros div x Hd. unfold round_half_away.
  destruct (Z.leb_spec 0 (x * div)) as [H|H].
  - replace (2 * (x * div) + div) with (x * (2 * div) + div) by ring.
    rewrite Z.div_add_l by lia. rewrite Z.div_small by lia. lia.
  - replace (2 * - (x * div) + div) with (- x * (2 * div) + div) by ring.
    rewrite Z.div_add_l by lia. rewrite Z.div_small by lia. lia.
Qed.

Theorem decimal_upscale_inverse : forall s1 p1 s2 p2 x y, s1 <= s2 -> Z.abs x < 10 ^ p1 ->
  dec_dec_spec s1 p2 s2 x = Some y -> dec_dec_spec s2 p1 s1 y = Some x.
Proof.
  intros s1 p1 s2 p2 x y Hs Hx H. unfold dec_dec_spec, rescale_spec in *. cbv beta zeta in *.
  destruct (Z.leb_spec s1 s2); [|lia].
  destruct (in_prec p2 (x * 10 ^ (s2 - s1))); [|discriminate]. inversion H; subst y.
  destruct (Z.leb_spec s2 s1).
  - assert (s2 = s1) by lia. subst. rewrite Z.sub_diag. change (10 ^ 0) with 1. rewrite !Z.mul_1_r.
    assert (E : in_prec p1 x = true) by (apply in_prec_true; assumption). rewrite E. reflexivity.
  - rewrite rha_mul by (apply pow10_pos; lia).
    assert (E : in_prec p1 x = true) by (apply in_prec_true; assumption). rewrite E. reflexivity.
Qed.
