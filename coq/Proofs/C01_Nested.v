(* C01: the remaining layouts (list views, structs, unions, run-end encoded), the generic per-node lemmas, and the
   closure over accessor chains of any depth: on a tree the specification accepts, no chain of value() calls
   starting from an in-range slot ever leaves a buffer or addresses a missing child slot. *)
From Coq Require Import List Arith NArith ZArith Lia Bool ZifyN ZifyNat ZifyBool.
From AV Require Import Base.ListX Base.Bytes Model.C09_Layout Model.C01_Access Proofs.C09_Accept Proofs.C01_Bounds.
Import ListNotations.
Ltac Zify.zify_post_hook ::= Z.div_mod_to_equations.

Ltac node_hyps H :=
  unfold spec_node in H; cbn [p_ty p_len p_off p_nulls p_bufs p_kids] in H; split_andb.

(* ---- list views: offsets[i] and sizes[i] are read in bounds and the child range exists *)
Lemma listview_reads_slots large nullable c len off nulls bufs kids i :
  let a := PArr (TListView large nullable c) len off nulls bufs kids in
  spec_node a = true -> (i < len)%nat ->
  forallb (read_in_bounds a) (own_reads a i) = true /\ forallb (child_slots_in_bounds a) (child_slots a i) = true.
Proof.
  intros a H Hi. subst a. node_hyps H.
  match goal with H : forallb _ (seq 0 len) = true |- _ => rename H into Hk end.
  rewrite forallb_forall in Hk; specialize (Hk i ltac:(apply in_seq; lia)). cbn beta zeta in Hk.
  unb. unfold own_reads, child_slots. cbn [p_ty p_off forallb read_in_bounds child_slots_in_bounds].
  split.
  - rewrite andb_true_r. apply andb_true_iff; split; apply Nat.leb_le; unfold buf in *; cbn [p_bufs] in *; nia.
  - rewrite andb_true_r. exact Hk.
Qed.

(* ---- structs *)
Lemma combine_forallb_nth {A B} (P : A * B -> bool) : forall (l : list A) (r : list B) j k,
  forallb P (List.combine l r) = true -> length r = length l -> nth_error r j = Some k -> exists f, P (f, k) = true.
Proof.
  induction l as [|x l IH]; intros r j k H Hl Hn.
  - destruct r; [destruct j; discriminate | discriminate].
  - destruct r as [|y r]; [discriminate|]. cbn [List.combine forallb] in H. apply andb_true_iff in H. destruct H as [H1 H2].
    destruct j as [|j]; cbn [nth_error] in Hn.
    + inversion Hn; subst. eauto.
    + cbn [length] in Hl. eapply IH; eauto.
Qed.

Lemma struct_slots fs len off nulls bufs kids i :
  let a := PArr (TStruct fs) len off nulls bufs kids in
  spec_node a = true -> (i < len)%nat -> forallb (child_slots_in_bounds a) (child_slots a i) = true.
Proof.
  intros a H Hi. subst a. node_hyps H.
  match goal with H : (length kids =? length fs)%nat = true |- _ => apply Nat.eqb_eq in H; rename H into Hlen end.
  match goal with H : forallb _ _ = true |- _ => rename H into Hcomb end.
  unfold child_slots. cbn [p_ty p_off]. rewrite forallb_forall. intros [[j s] n] Hin.
  apply in_map_iff in Hin. destruct Hin as (j' & Heq & Hj). inversion Heq; subst. apply in_seq in Hj.
  unfold child_slots_in_bounds, kid_len, kid. cbn [p_kids].
  destruct (nth_error kids j) as [k|] eqn:Ek.
  2:{ apply nth_error_None in Ek. lia. }
  destruct (combine_forallb_nth _ _ _ _ _ Hcomb Hlen Ek) as (f & Hf).
  cbn [fst snd] in Hf. apply andb_true_iff in Hf. destruct Hf as [_ Hf]. apply Nat.leb_le in Hf.
  repeat (apply andb_true_iff; split); apply Z.leb_le; lia.
Qed.

(* ---- unions *)
Lemma index_of_bound x : forall l s ci, index_of x l s = Some ci -> (s <= ci < s + length l)%nat.
Proof.
  induction l as [|y l IH]; intros s ci H; cbn [index_of] in H; [discriminate|].
  destruct (Z.eqb x y). { inversion H; subst. cbn [length]. lia. }
  apply IH in H. cbn [length]. lia.
Qed.

Lemma union_reads_slots dense fs len off nulls bufs kids i :
  let a := PArr (TUnion dense fs) len off nulls bufs kids in
  spec_node a = true -> (i < len)%nat ->
  forallb (read_in_bounds a) (own_reads a i) = true /\ forallb (child_slots_in_bounds a) (child_slots a i) = true.
Proof.
  intros a H Hi. subst a. destruct dense; node_hyps H;
  (match goal with H : forallb _ (seq 0 len) = true |- _ => rename H into Hk end);
  (rewrite forallb_forall in Hk; specialize (Hk i ltac:(apply in_seq; lia)); cbn beta zeta in Hk);
  unfold own_reads, child_slots; cbn [p_ty p_off]; (split; [
    cbn [forallb read_in_bounds]; unb; unfold buf in *; cbn [p_bufs] in *;
    repeat (apply andb_true_iff; split); try reflexivity; apply Nat.leb_le; lia |]);
  (destruct (index_of _ (type_ids fs) 0) as [ci|] eqn:Ei; [|reflexivity]);
  cbn [forallb child_slots_in_bounds]; rewrite andb_true_r.
  - apply andb_true_iff in Hk. destruct Hk as [H1 H2]. apply Z.leb_le in H1. apply Z.ltb_lt in H2.
    repeat (apply andb_true_iff; split); apply Z.leb_le; lia.
  - apply index_of_bound in Ei. unfold type_ids in Ei. rewrite map_length in Ei.
    match goal with H : (length kids =? length fs)%nat = true |- _ => apply Nat.eqb_eq in H; rename H into Hlen end.
    match goal with H : forallb _ kids = true |- _ => rename H into Hs end.
    unfold kid_len, kid. cbn [p_kids]. destruct (nth_error kids ci) as [k|] eqn:Ek.
    2:{ apply nth_error_None in Ek. lia. }
    rewrite forallb_forall in Hs. specialize (Hs k (nth_error_In _ _ Ek)). apply Nat.leb_le in Hs.
    repeat (apply andb_true_iff; split); apply Z.leb_le; lia.
Qed.

(* ---- run-end encoded: the physical index found by the partition point exists in the values child *)
Lemma filter_length_le' {A} (f : A -> bool) l : (length (filter f l) <= length l)%nat.
Proof. induction l as [|y l IH]; cbn [filter length]; [lia|]. destruct (f y); cbn [length]; lia. Qed.

Lemma filter_length_lt {A} (f : A -> bool) l x : In x l -> f x = false -> (length (filter f l) < length l)%nat.
Proof.
  induction l as [|y l IH]; intros Hin Hf; [contradiction|]. cbn [filter length].
  destruct Hin as [->|Hin].
  - rewrite Hf. pose proof (filter_length_le' f l). lia.
  - specialize (IH Hin Hf). destruct (f y); cbn [length]; lia.
Qed.

Lemma last_In' {A} (l : list A) d : l <> [] -> In (last l d) l.
Proof.
  induction l as [|x l IH]; intros Hne; [contradiction|].
  destruct l as [|y l]; [left; reflexivity|]. right. change (last (x :: y :: l) d) with (last (y :: l) d). apply IH. discriminate.
Qed.

Lemma ree_slots rw v len off nulls bufs kids i :
  let a := PArr (TRee rw v) len off nulls bufs kids in
  spec_node a = true -> (i < len)%nat -> forallb (child_slots_in_bounds a) (child_slots a i) = true.
Proof.
  intros a H Hi. subst a. node_hyps H.
  unfold child_slots. cbn [p_ty p_off]. unfold kid_len, kid in *. cbn [p_kids] in *.
  destruct kids as [|r kids']; cbn [nth_error] in *; [reflexivity|].
  split_andb. change (map (fun i0 : nat => sle_at (nth 0 (p_bufs r) []) rw (p_off r + i0)) (seq 0 (p_len r))) with (ree_ends r rw) in *.
  assert (Hl : length (ree_ends r rw) = p_len r) by (unfold ree_ends; now rewrite map_length, seq_length).
  unb.
  assert (Hne : ree_ends r rw <> []). { intros E. rewrite E in *. cbn [last] in *. lia. }
  pose proof (filter_length_lt (fun e => (e <=? Z.of_nat (off + i))%Z) _ _ (last_In' _ 0%Z Hne) ltac:(apply Z.leb_gt; lia)) as Hlt.
  cbn [forallb child_slots_in_bounds]. unfold kid_len, kid. cbn [p_kids nth_error]. rewrite andb_true_r.
  repeat (apply andb_true_iff; split); apply Z.leb_le; lia.
Qed.

(* ---- generic per-node statements, every data type *)
Lemma own_reads_ok a i : spec_node a = true -> (i < p_len a)%nat -> forallb (read_in_bounds a) (own_reads a i) = true.
Proof.
  destruct a as [ty len off nulls bufs kids]. cbn [p_len]. intros H Hi. destruct ty.
  - reflexivity.
  - apply own_reads_fixed; [exact H|exact Hi|exact I].
  - apply own_reads_fixed; [exact H|exact Hi|exact I].
  - apply own_reads_fixed; [exact H|exact Hi|exact I].
  - apply own_reads_binary; assumption.
  - apply own_reads_fixed; [exact H|exact Hi|exact I].
  - apply child_slots_list; assumption.
  - apply listview_reads_slots; assumption.
  - reflexivity.
  - reflexivity.
  - apply own_reads_fixed; [exact H|exact Hi|exact I].
  - reflexivity.
  - apply union_reads_slots; assumption.
Qed.

Lemma child_slots_ok a i : spec_node a = true -> (i < p_len a)%nat ->
  forallb (child_slots_in_bounds a) (child_slots a i) = true.
Proof.
  destruct a as [ty len off nulls bufs kids]. cbn [p_len]. intros H Hi. destruct ty; try reflexivity.
  - apply child_slots_list; assumption.
  - apply listview_reads_slots; assumption.
  - apply child_slots_fixed_list; assumption.
  - apply struct_slots; assumption.
  - apply child_slots_dict; assumption.
  - apply ree_slots; assumption.
  - apply union_reads_slots; assumption.
Qed.

Lemma spec_node_nulls a : spec_node a = true -> spec_nulls a = true.
Proof.
  destruct a as [ty len off nulls bufs kids]. intros H.
  destruct ty; node_hyps H; try assumption;
    unfold spec_nulls; cbn [p_nulls]; destruct nulls; try discriminate; reflexivity.
Qed.

(* ---- closure over accessor chains *)
Lemma spec_valid_node a : spec_valid a = true -> spec_node a = true.
Proof. unfold spec_valid. destruct a. cbn [tree_all]. intros H. split_andb. assumption. Qed.

Lemma spec_valid_kid a j c : spec_valid a = true -> kid a j = Some c -> spec_valid c = true.
Proof.
  unfold spec_valid, kid. destruct a as [ty len off nulls bufs kids]. cbn [tree_all p_kids]. intros H Hk. split_andb.
  match goal with H : forallb _ kids = true |- _ => rewrite forallb_forall in H; apply H end.
  eapply nth_error_In; eassumption.
Qed.

Lemma reach_stays_valid a i b m : reach a i b m -> spec_valid a = true -> (i < p_len a)%nat ->
  spec_valid b = true /\ (m < p_len b)%nat.
Proof.
  induction 1 as [a i | a i j s n c k b m Hin Hkid Hrange Hreach IH]; intros Hv Hi; [split; assumption|].
  apply IH.
  - eapply spec_valid_kid; eassumption.
  - pose proof (child_slots_ok a i (spec_valid_node a Hv) Hi) as Hs.
    rewrite forallb_forall in Hs. specialize (Hs _ Hin). unfold child_slots_in_bounds, kid_len in Hs. rewrite Hkid in Hs.
    split_andb. unb. lia.
Qed.

Lemma accessor_chain_ok a i b m : spec_valid a = true -> (i < p_len a)%nat -> reach a i b m ->
  (m < p_len b)%nat /\ null_read_in_bounds b m = true /\
  forallb (read_in_bounds b) (own_reads b m) = true /\ forallb (child_slots_in_bounds b) (child_slots b m) = true.
Proof.
  intros Hv Hi Hr. destruct (reach_stays_valid a i b m Hr Hv Hi) as [Hvb Hm].
  pose proof (spec_valid_node b Hvb) as Hn.
  repeat split; [exact Hm | apply spec_nulls_read; [apply spec_node_nulls; exact Hn | exact Hm] | apply own_reads_ok; assumption | apply child_slots_ok; assumption].
Qed.
