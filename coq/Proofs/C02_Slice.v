(* C02 — slicing is a window on the logical content, for EVERY modelled type at once. *)
From Coq Require Import List Arith NArith ZArith Bool Lia.
From AV Require Import Base.ListX Base.Bits Base.Bytes Model.C09_Layout Model.C02_Logical.
Import ListNotations.

Lemma nb_valid_slice nb o n i : nb_valid (slice_nulls nb o n) i = nb_valid nb (o + i).
Proof. unfold nb_valid, slice_nulls; cbn [nb_bytes nb_off]. now rewrite Nat.add_assoc. Qed.

(* the slot i of a slice is the slot o+i of the array: no bound is needed *)
Lemma logical_at_slice a o n i : logical_at (slice a o n) i = logical_at a (o + i).
Proof.
  destruct a as [ty len off nulls bufs kids]. cbn [slice].
  assert (Hv : match match nulls with Some nb => Some (slice_nulls nb o n) | None => None end with
               | None => true | Some nb => nb_valid nb i end
               = match nulls with None => true | Some nb => nb_valid nb (o + i) end).
  { destruct nulls as [nb|]; [apply nb_valid_slice | reflexivity]. }
  destruct ty; cbn [logical_at]; rewrite ?Hv, <- ?Nat.add_assoc; reflexivity.
Qed.

Lemma seq_window o n m : o + n <= m -> firstn n (skipn o (seq 0 m)) = seq o n.
Proof.
  intros H. replace m with (o + (m - o)) by lia. rewrite seq_app, skipn_app, seq_length, Nat.sub_diag.
  rewrite skipn_all2 by (rewrite seq_length; lia). cbn [app skipn Nat.add].
  replace (m - o) with (n + (m - o - n)) by lia. rewrite seq_app, firstn_app, seq_length, Nat.sub_diag.
  rewrite firstn_all2 by (rewrite seq_length; lia). cbn [firstn]. now rewrite app_nil_r.
Qed.
Lemma seq_shift_map o n : seq o n = map (fun i => o + i) (seq 0 n).
Proof.
  revert o. induction n as [|n IH]; intros o; [reflexivity|]. cbn [seq map]. f_equal; [lia|].
  rewrite (IH (S o)), <- seq_shift, map_map. apply map_ext. intros; lia.
Qed.

Lemma p_len_slice a o n : p_len (slice a o n) = n.
Proof. now destruct a. Qed.

Lemma window_map {A} (f : nat -> A) o n m : o + n <= m ->
  firstn n (skipn o (map f (seq 0 m))) = map (fun i => f (o + i)) (seq 0 n).
Proof. intros H. now rewrite skipn_map, firstn_map, (seq_window o n m H), (seq_shift_map o n), map_map. Qed.

Theorem slice_logical_all a o n : o + n <= p_len a ->
  logical (slice a o n) = firstn n (skipn o (logical a)).
Proof.
  intros H. unfold logical. rewrite p_len_slice, (window_map _ o n (p_len a) H).
  apply map_ext. intros i. apply logical_at_slice.
Qed.

(* StructArray::slice: every child sliced, offset 0 *)
Theorem slice_struct_logical fs len off nulls bufs kids o n : o + n <= len ->
  logical (slice_struct (PArr (TStruct fs) len off nulls bufs kids) o n)
  = firstn n (skipn o (logical (PArr (TStruct fs) len off nulls bufs kids))).
Proof.
  intros H. unfold logical. cbn [slice_struct p_len]. rewrite (window_map _ o n len H).
  apply map_ext. intros i. cbn [logical_at].
  replace (match match nulls with Some nb => Some (slice_nulls nb o n) | None => None end with
           | None => true | Some nb => nb_valid nb i end)
    with (match nulls with None => true | Some nb => nb_valid nb (o + i) end)
    by (destruct nulls as [nb|]; [symmetry; apply nb_valid_slice | reflexivity]).
  destruct (match nulls with None => true | Some nb => nb_valid nb (o + i) end); [|reflexivity].
  f_equal. rewrite map_map. apply map_ext. intros k. rewrite logical_at_slice. f_equal. lia.
Qed.

(* finding F3: ArrayData::slice on a Struct advances the offset AND slices the children, so read with
   the format's meaning of offset (which StructArray::from(ArrayData) applies) the fields are shifted
   twice: the window theorem is FALSE for it *)
Definition f3_witness : parr :=
  PArr (TStruct [(true, TFixed 1)]) 3 0 None [] [PArr (TFixed 1) 3 0 None [[10; 20; 30]%N] []].
Theorem arraydata_slice_struct_refuted :
  exists a o n, o + n <= p_len a /\ logical (slice_data_struct a o n) <> firstn n (skipn o (logical a)).
Proof. exists f3_witness, 1, 1. split; [cbn; lia|]. vm_compute. discriminate. Qed.
