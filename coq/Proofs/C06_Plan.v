(* C06 — the read plan built from the reader options selects exactly the rows of the
   reference reader: predicates compose as filters, offset/limit as skipn/firstn. *)
From Coq Require Import List ZArith Arith Lia Bool.
From AV Require Import Model.C06_RowSel Model.C06_Reader Proofs.C06_Basics Proofs.C06_AndThen
  Proofs.C06_Construct Proofs.C06_Algebra.
Import ListNotations.

Section Rows.
Context {A : Type}.
Implicit Types rows : list A.

Lemma select_rows_nil_r (l : list bool) : select_rows l (@nil A) = [].
Proof. destruct l; reflexivity. Qed.

Lemma select_rows_and_then a : forall b rows,
  select_rows (and_then_spec a b) rows = select_rows b (select_rows a rows).
Proof.
  induction a as [|x a IH]; intros b rows.
  - cbn [and_then_spec select_rows]. now rewrite select_rows_nil_r.
  - destruct rows as [|r rs]; [now rewrite !select_rows_nil_r|].
    destruct x; cbn [and_then_spec].
    + destruct b as [|y b]; cbn [select_rows].
      * rewrite IH. reflexivity.
      * destruct y; rewrite IH; reflexivity.
    + cbn [select_rows]. apply IH.
Qed.

Lemma select_rows_map_filter (f : A -> bool) rows : select_rows (map f rows) rows = filter f rows.
Proof. induction rows as [|r rs IH]; [reflexivity|]. cbn [map select_rows filter]. now rewrite IH. Qed.

Lemma filter_all_true (f : A -> bool) rows : forallb (fun b => b) (map f rows) = true -> filter f rows = rows.
Proof.
  induction rows as [|r rs IH]; [reflexivity|]. cbn [map forallb filter]. intros H.
  apply andb_prop in H as [H1 H2]. rewrite H1, IH by exact H2. reflexivity.
Qed.

Lemma select_rows_length l : forall rows, length (select_rows l rows) <= count_true l.
Proof.
  induction l as [|b l IH]; intros [|r rs]; cbn [select_rows count_true length]; try lia.
  specialize (IH rs). destruct b; cbn [length]; lia.
Qed.

Lemma select_rows_length_rows l : forall rows, length (select_rows l rows) <= length rows.
Proof.
  induction l as [|b l IH]; intros [|r rs]; cbn [select_rows length]; try lia.
  specialize (IH rs). destruct b; cbn [length]; lia.
Qed.

Lemma select_rows_no_true l : forall rows, count_true l = 0 -> select_rows l rows = [].
Proof.
  intros rows H. pose proof (select_rows_length l rows) as Hl.
  destruct (select_rows l rows); [reflexivity|cbn [length] in Hl; lia].
Qed.

Lemma select_rows_app_false l k : forall rows, select_rows (l ++ repeat false k) rows = select_rows l rows.
Proof.
  induction l as [|b l IH]; intros rows.
  - cbn [app]. rewrite select_rows_no_true by (rewrite count_true_repeat; reflexivity).
    reflexivity.
  - destruct rows as [|r rs]; [reflexivity|]. cbn [app select_rows]. now rewrite IH.
Qed.

Lemma select_rows_clear_first l : forall n rows,
  select_rows (clear_first n l) rows = skipn n (select_rows l rows).
Proof.
  induction l as [|b l IH]; intros n rows.
  - cbn [clear_first select_rows]. now rewrite skipn_nil.
  - destruct n as [|n]; [reflexivity|]. cbn [clear_first].
    destruct rows as [|r rs]; [now rewrite !select_rows_nil_r, skipn_nil|].
    cbn [select_rows]. rewrite IH. destruct b; reflexivity.
Qed.

Lemma select_rows_offset n l rows : select_rows (offset_spec n l) rows = skipn n (select_rows l rows).
Proof.
  unfold offset_spec. destruct (Nat.eqb_spec n 0) as [->|Hn]; [reflexivity|].
  destruct (Nat.leb_spec (count_true l) n) as [Hle|Hgt].
  - rewrite skipn_all2; [reflexivity|]. pose proof (select_rows_length l rows). lia.
  - apply select_rows_clear_first.
Qed.

Lemma select_rows_limit l : forall n rows,
  select_rows (limit_spec n l) rows = firstn n (select_rows l rows).
Proof.
  induction l as [|b l IH]; intros n rows.
  - cbn [limit_spec select_rows]. now rewrite firstn_nil.
  - destruct n as [|n]; [reflexivity|]. cbn [limit_spec].
    destruct rows as [|r rs]; [now rewrite !select_rows_nil_r, firstn_nil|].
    cbn [select_rows]. rewrite IH. destruct b; reflexivity.
Qed.

Lemma select_rows_skip_select o k : forall rows,
  select_rows (repeat false o ++ repeat true k) rows = firstn k (skipn o rows).
Proof.
  induction o as [|o IH]; intros rows.
  - cbn [repeat app skipn]. revert rows. induction k as [|k IHk]; intros [|r rs]; cbn [repeat select_rows firstn]; try reflexivity.
    now rewrite IHk.
  - destruct rows as [|r rs]; [now rewrite select_rows_nil_r, skipn_nil, firstn_nil|].
    cbn [repeat app select_rows skipn]. apply IH.
Qed.
End Rows.

(* the rows a plan with selection [sel] reads *)
Definition sel_rows (sel : option rowsel) (rows : list Z) : list Z :=
  match sel with Some s => select_rows (den s) rows | None => rows end.

Theorem den_and_then a b r :
  and_then a b = Some r -> den r = and_then_spec (den a) (den b).
Proof.
  destruct a as [f|m], b as [s|o]; cbn [and_then den]; intros H.
  - destruct (and_then_sels f s) as [x|] eqn:E; [|discriminate]. inversion H. cbn [den].
    now apply and_then_sels_spec.
  - destruct (and_then_sels f (mask_to_selectors o)) as [x|] eqn:E; [|discriminate]. inversion H. cbn [den].
    apply and_then_sels_spec in E. now rewrite mask_to_selectors_dens in E.
  - destruct (and_then_mask_sels m s) as [x|] eqn:E; [|discriminate]. inversion H. cbn [den].
    now apply and_then_mask_sels_spec.
  - destruct (and_then_masks m o) as [x|] eqn:E; [|discriminate]. inversion H. cbn [den].
    now apply and_then_masks_spec.
Qed.

Lemma selects_any_false_rows {A} s (rows : list A) : selects_any s = false -> select_rows (den s) rows = [].
Proof.
  intros H. apply select_rows_no_true. destruct s as [l|m]; cbn [selects_any den] in *.
  - induction l as [|[sk c] l IH]; [reflexivity|]. cbn [existsb fst] in H.
    apply orb_false_elim in H as [H1 H2]. destruct sk; [|discriminate].
    rewrite dens_cons, count_true_app, count_true_repeat. cbn [negb]. now apply IH.
  - induction m as [|b m IH]; [reflexivity|]. cbn [existsb] in H.
    apply orb_false_elim in H as [H1 H2]. subst b. cbn [count_true]. now apply IH.
Qed.

Lemma with_predicate_spec rows f sel sel' :
  with_predicate rows f sel = Some sel' -> sel_rows sel' rows = filter f (sel_rows sel rows).
Proof.
  unfold with_predicate. fold (sel_rows sel rows). set (current := sel_rows sel rows).
  destruct (forallb (fun b => b) (map f current)) eqn:Eall.
  - intros H; inversion H; subst sel'. symmetry. now apply filter_all_true.
  - assert (Hraw : forall raw s r, den raw = map f current -> sel = Some s -> and_then s raw = Some r ->
                   select_rows (den r) rows = filter f current).
    { intros raw s r Hd Hs Ha. apply den_and_then in Ha. rewrite Ha, select_rows_and_then, Hd.
      subst sel. apply select_rows_map_filter. }
    destruct (from_filters_dens [map f current]) as (l & Hl & Hdl).
    cbn [concat] in Hdl. rewrite app_nil_r in Hdl.
    destruct sel as [[l0|m0]|].
    + rewrite Hl. cbn [option_map]. destruct (and_then (Sels l0) (Sels l)) as [r|] eqn:Ea; [|discriminate].
      intros H; inversion H; subst sel'. cbn [sel_rows]. eapply Hraw; [|reflexivity|exact Ea]. exact Hdl.
    + destruct (and_then (Mask m0) (Mask (map f current))) as [r|] eqn:Ea; [|discriminate].
      intros H; inversion H; subst sel'. cbn [sel_rows]. eapply Hraw; [|reflexivity|exact Ea]. reflexivity.
    + rewrite Hl. cbn [option_map]. intros H; inversion H; subst sel'. cbn [sel_rows den].
      rewrite Hdl. apply select_rows_map_filter.
Qed.

Lemma fold_filter_nil (fs : list (Z -> bool)) : fold_left (fun rs f => filter f rs) fs [] = [].
Proof. induction fs as [|f fs IH]; [reflexivity|]. exact IH. Qed.

Lemma with_predicates_spec rows fs : forall sel sel',
  with_predicates rows fs sel = Some sel' ->
  sel_rows sel' rows = fold_left (fun rs f => filter f rs) fs (sel_rows sel rows).
Proof.
  induction fs as [|f fs IH]; intros sel sel' H; cbn [with_predicates] in H.
  - inversion H. reflexivity.
  - cbn [fold_left].
    destruct (match sel with Some s => selects_any s | None => true end) eqn:Eany.
    + destruct (with_predicate rows f sel) as [sel1|] eqn:E1; [|discriminate].
      apply with_predicate_spec in E1. rewrite <- E1. now apply IH.
    + inversion H; subst sel'. destruct sel as [s|]; [|discriminate].
      cbn [sel_rows]. rewrite selects_any_false_rows by exact Eany. cbn [filter].
      now rewrite fold_filter_nil.
Qed.

Lemma truncate_empty_rows {A} s (rows : list A) :
  select_rows (den (if selects_any s then s else Sels [])) rows = select_rows (den s) rows.
Proof.
  destruct (selects_any s) eqn:E; [reflexivity|]. rewrite (selects_any_false_rows s) by exact E.
  reflexivity.
Qed.

Lemma build_limited_spec rows sel off lim :
  sel_rows (build_limited (length rows) sel off lim) rows
  = apply_opt lim (@firstn Z) (apply_opt off (@skipn Z) (sel_rows sel rows)).
Proof.
  unfold build_limited.
  set (sel0 := match sel with Some s => if selects_any s then Some s else Some (Sels []) | None => None end).
  assert (H0 : sel_rows sel0 rows = sel_rows sel rows).
  { destruct sel as [s|]; [|reflexivity]. subst sel0. cbn [sel_rows].
    pose proof (truncate_empty_rows s rows) as H. destruct (selects_any s); [reflexivity|exact H]. }
  set (sel1 := match off with None => sel0 | Some o => _ end).
  assert (H1 : sel_rows sel1 rows = apply_opt off (@skipn Z) (sel_rows sel rows)).
  { subst sel1. destruct off as [o|]; cbn [apply_opt]; [|exact H0].
    destruct (Nat.ltb_spec (length rows) o) as [Hlt|Hge].
    - cbn [sel_rows den dens flat_map select_rows]. rewrite skipn_all2; [reflexivity|].
      destruct sel as [s|]; cbn [sel_rows]; [pose proof (select_rows_length_rows (den s) rows)|]; lia.
    - rewrite <- H0. destruct sel0 as [s|]; cbn [sel_rows].
      + rewrite den_offset. apply select_rows_offset.
      + cbn [den]. rewrite from_iter_dens, !dens_cons, dens_nil, app_nil_r. cbn [negb].
        rewrite select_rows_skip_select. apply firstn_all2. rewrite skipn_length. lia. }
  destruct lim as [l|]; cbn [apply_opt]; [|exact H1].
  rewrite <- H1. destruct sel1 as [s|]; cbn [sel_rows].
  - rewrite den_limit. apply select_rows_limit.
  - cbn [den]. rewrite from_iter_dens, dens_cons, dens_nil, app_nil_r. cbn [negb].
    change (repeat true (Nat.min l (length rows))) with ([] ++ repeat true (Nat.min l (length rows))).
    change (@nil bool) with (repeat false 0). rewrite select_rows_skip_select. cbn [skipn].
    destruct (Nat.le_ge_cases l (length rows)) as [Hle|Hge].
    + now rewrite Nat.min_l by exact Hle.
    + rewrite Nat.min_r by exact Hge. rewrite !firstn_all2; [reflexivity|lia|lia].
Qed.

Lemma trim_sels_prefix_rev r : exists k, dens (rev r) = dens (rev (drop_skips r)) ++ repeat false k.
Proof.
  induction r as [|[sk c] r IH].
  - exists 0. reflexivity.
  - destruct sk; cbn [drop_skips].
    + destruct IH as (k & Hk). exists (k + c). cbn [rev]. rewrite dens_app, Hk, dens_cons, dens_nil, app_nil_r.
      cbn [negb]. rewrite repeat_app, app_assoc. reflexivity.
    + exists 0. cbn [repeat]. now rewrite app_nil_r.
Qed.

Lemma trim_sels_prefix l : exists k, dens l = dens (trim_sels l) ++ repeat false k.
Proof.
  unfold trim_sels. destruct (trim_sels_prefix_rev (rev l)) as (k & Hk).
  rewrite rev_involutive in Hk. eauto.
Qed.

Lemma trim_spec_prefix_rev r : exists k, rev r = rev (drop_false r) ++ repeat false k.
Proof.
  induction r as [|b r IH].
  - exists 0. reflexivity.
  - destruct b; cbn [drop_false].
    + exists 0. cbn [repeat]. now rewrite app_nil_r.
    + destruct IH as (k & Hk). exists (k + 1). cbn [rev]. rewrite Hk at 1.
      rewrite repeat_app, app_assoc. reflexivity.
Qed.

Lemma trim_spec_prefix m : exists k, m = trim_spec m ++ repeat false k.
Proof.
  unfold trim_spec. destruct (trim_spec_prefix_rev (rev m)) as (k & Hk).
  rewrite rev_involutive in Hk. eauto.
Qed.

Lemma trim_rows {A} s (rows : list A) : select_rows (den (trim s)) rows = select_rows (den s) rows.
Proof.
  destruct s as [l|m]; cbn [trim den].
  - destruct (trim_sels_prefix l) as (k & Hk). rewrite Hk. now rewrite select_rows_app_false.
  - rewrite trim_mask_spec. destruct (trim_spec_prefix m) as (k & Hk). rewrite Hk at 2.
    now rewrite select_rows_app_false.
Qed.

Lemma plan_rows_spec rows sel : plan_rows rows sel = sel_rows sel rows.
Proof.
  destruct sel as [s|]; [|reflexivity]. cbn [plan_rows sel_rows].
  rewrite trim_rows. apply truncate_empty_rows.
Qed.

Lemma fold_left_map_filter {P} (g : P -> Z -> bool) ps : forall rows,
  fold_left (fun rs f => filter f rs) (map g ps) rows = fold_left (fun rs p => filter (g p) rs) ps rows.
Proof. induction ps as [|p ps IH]; intros rows; [reflexivity|]. cbn [map fold_left]. apply IH. Qed.

(* M = S for the end-to-end suite: whenever the plan can be built (no and_then panic), the rows
   it reads are those of the reference reader *)
Theorem plan_read_refines nullmod rg_counts chosen selection preds off lim ids :
  plan_read nullmod rg_counts chosen selection preds off lim = Some ids ->
  ids = reference_read nullmod rg_counts chosen (option_map den selection) preds off lim.
Proof.
  unfold plan_read, reference_read. set (rows := rows_of rg_counts chosen).
  destruct (with_predicates rows (map (eval_pred nullmod) preds) selection) as [sel|] eqn:E; [|discriminate].
  intros H; inversion H; subst ids. clear H.
  rewrite plan_rows_spec, build_limited_spec. apply with_predicates_spec in E. rewrite E.
  rewrite fold_left_map_filter. destruct selection as [s|]; reflexivity.
Qed.
