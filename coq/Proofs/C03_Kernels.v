(* C03 — concat, interleave, nullif, shift, slice, zip refine their specifications. *)
From Coq Require Import List Arith ZArith Bool Lia.
From AV Require Import Base.ListX Model.C03_Select Proofs.C03_Filter Proofs.C03_Take.
From AV Require Model.C19_Bits.
Import ListNotations.

(* ------------------------------------------------------------------ concat *)
Lemma logical_nulls_or_true {T} (c : pcol T) : wf_col c -> map2 mk_row (fst c) (nulls_or_true c) = logical c.
Proof.
  destruct c as [v [n|]]; unfold wf_col, nulls_or_true, logical; cbn; intros H; [reflexivity|].
  apply map2_repeat_true. lia.
Qed.

Lemma nulls_or_true_length {T} (c : pcol T) : wf_col c -> length (nulls_or_true c) = length (fst c).
Proof. destruct c as [v [n|]]; unfold wf_col, nulls_or_true; cbn; intros H; [exact H|apply repeat_length]. Qed.

Lemma some_has_nulls_false {T} (cs : list (pcol T)) : some_has_nulls cs = false ->
  Forall (fun c => has_nulls (snd c) = None) cs.
Proof.
  unfold some_has_nulls. induction cs as [|c cs IH]; cbn; [constructor|].
  destruct (has_nulls (snd c)) eqn:E; cbn; [discriminate|]. intros H. constructor; auto.
Qed.

Lemma logical_no_nulls {T} (c : pcol T) : wf_col c -> has_nulls (snd c) = None -> logical c = map Some (fst c).
Proof. intros Hw H. rewrite (logical_norm c Hw), H. reflexivity. Qed.

Lemma concat_M_spec {T} (cs : list (pcol T)) : Forall wf_col cs ->
  logical (concat_M cs) = concat_spec (map logical cs).
Proof.
  intros Hw. unfold concat_M, concat_spec. destruct (some_has_nulls cs) eqn:E; unfold logical at 1; cbn [fst snd].
  - clear E. induction Hw as [|c cs Hc Hcs IH]; [reflexivity|].
    cbn [map concat]. rewrite map2_app by (now rewrite nulls_or_true_length).
    now rewrite IH, logical_nulls_or_true.
  - apply some_has_nulls_false in E. induction Hw as [|c cs Hc Hcs IH]; [reflexivity|].
    inversion E as [|? ? E1 E2]; subst. cbn [map concat]. rewrite map_app, IH by exact E2.
    now rewrite (logical_no_nulls c Hc E1).
Qed.

(* ------------------------------------------------------------------ interleave *)
Lemma nth_error_logical {T} (c : pcol T) i : wf_col c ->
  nth_error (logical c) i = option_map (fun v => mk_row v (is_valid_at c i)) (nth_error (fst c) i).
Proof.
  destruct c as [v [n|]]; unfold wf_col, logical, is_valid_at; cbn [fst snd]; intros H.
  - rewrite nth_error_map2 by lia.
    destruct (nth_error_both v n i (eq_sym H)) as [(x & y & E1 & E2)|[E1 E2]]; rewrite E1, ?E2; [|reflexivity].
    cbn. now rewrite (nth_error_nth _ _ false E2).
  - rewrite nth_error_map. now destruct (nth_error v i).
Qed.

Lemma nth_repeat_lt' {X} (a d : X) n i : i < n -> nth i (repeat a n) d = a.
Proof. revert i; induction n as [|n IH]; intros i H; [lia|]. destruct i; cbn; [reflexivity|]. apply IH. lia. Qed.

Lemma valid_if_no_nulls {T} (c : pcol T) i v : wf_col c -> has_nulls (snd c) = None ->
  nth_error (fst c) i = Some v -> is_valid_at c i = true.
Proof.
  destruct c as [vs [n|]]; unfold wf_col, has_nulls, is_valid_at; cbn [fst snd]; intros Hw Hn Hi; [|reflexivity].
  destruct (all_true n) eqn:E; [|discriminate].
  rewrite (all_true_repeat n E). assert (i < length vs) by (apply nth_error_Some; congruence).
  rewrite nth_repeat_lt'; [reflexivity|lia].
Qed.

Lemma nth_logical_default {T} (cs : list (pcol T)) a :
  nth a (map logical cs) [] = logical (nth a cs ([], None)).
Proof. change (@nil (option T)) with (logical (@nil T, @None (list bool))). apply map_nth. Qed.

Lemma wf_nth {T} (cs : list (pcol T)) a : Forall wf_col cs -> wf_col (nth a cs ([], None)).
Proof.
  intros H. destruct (Nat.lt_ge_cases a (length cs)) as [Hl|Hl].
  - apply (proj1 (Forall_forall _ _) H). now apply nth_In.
  - rewrite nth_overflow by exact Hl. exact I.
Qed.

Lemma no_nulls_nth {T} (cs : list (pcol T)) a : Forall (fun c => has_nulls (snd c) = None) cs ->
  has_nulls (snd (nth a cs ([], None))) = None.
Proof.
  intros H. destruct (Nat.lt_ge_cases a (length cs)) as [Hl|Hl].
  - apply (proj1 (Forall_forall _ _) H). now apply nth_In.
  - rewrite nth_overflow by exact Hl. reflexivity.
Qed.

Lemma interleave_M_spec {T} (cs : list (pcol T)) (ps : list (nat * nat)) : Forall wf_col cs ->
  option_map logical (interleave_M cs ps) = interleave_spec (map logical cs) ps.
Proof.
  intros Hw. unfold interleave_M.
  assert (G : forall ps, interleave_spec (map logical cs) ps =
     option_map (fun v => map2 mk_row v (map (fun p : nat * nat => is_valid_at (nth (fst p) cs ([], None)) (snd p)) ps))
                (interleave_vals cs ps)).
  { induction ps0 as [|[a i] r IH]; [reflexivity|].
    cbn [interleave_spec interleave_vals map fst snd].
    rewrite nth_logical_default, nth_error_logical by (apply wf_nth; exact Hw). rewrite IH.
    destruct (nth_error (fst (nth a cs ([], None))) i); cbn; [|reflexivity].
    destruct (interleave_vals cs r); reflexivity. }
  rewrite G. destruct (interleave_vals cs ps) as [v|] eqn:Ev; [|reflexivity]. cbn [option_map]. f_equal.
  destruct (some_has_nulls cs) eqn:E; [reflexivity|].
  apply some_has_nulls_false in E. unfold logical; cbn [fst snd].
  revert v Ev. induction ps as [|[a i] r IH]; intros v; cbn [interleave_vals].
  - now intros [= <-].
  - destruct (nth_error (fst (nth a cs ([], None))) i) as [x|] eqn:Ex; [|discriminate].
    destruct (interleave_vals cs r) as [o|]; [|discriminate]. intros [= <-].
    cbn [map map2 fst snd]. rewrite <- IH by reflexivity.
    rewrite (valid_if_no_nulls _ i x (wf_nth cs a Hw) (no_nulls_nth cs a E) Ex). reflexivity.
Qed.

(* ------------------------------------------------------------------ nullif *)
Lemma nullif_M_spec {T} (c : pcol T) (m : pcol bool) : wf_col c -> wf_col m -> length (fst m) = length (fst c) ->
  logical (nullif_M c m) = nullif_spec (logical c) (logical_mask m).
Proof.
  destruct c as [v cn]; destruct m as [mv mn]. unfold wf_col, nullif_M, nullif_spec, logical_mask, logical; cbn [fst snd].
  intros Hc Hm Hl.
  destruct cn as [l|]; destruct mn as [n|].
  - revert l mv n Hc Hm Hl; induction v as [|x v IH]; intros [|a l] [|b mv] [|e n] Hc Hm Hl; cbn in *; try discriminate; auto.
    f_equal; [destruct a, b, e; reflexivity|]. apply IH; lia.
  - revert l mv Hc Hl; induction v as [|x v IH]; intros [|a l] [|b mv] Hc Hl; cbn in *; try discriminate; auto.
    f_equal; [destruct a, b; reflexivity|]. apply IH; lia.
  - revert mv n Hm Hl; induction v as [|x v IH]; intros [|b mv] [|e n] Hm Hl; cbn in *; try discriminate; auto.
    f_equal; [destruct b, e; reflexivity|]. apply IH; lia.
  - revert mv Hl; induction v as [|x v IH]; intros [|b mv] Hl; cbn in *; try discriminate; auto.
    f_equal; [destruct b; reflexivity|]. apply IH; lia.
Qed.

(* ------------------------------------------------------------------ slice, shift *)
Lemma slice_M_spec {T} (c : pcol T) off len : logical (slice_M c off len) = slice_spec (logical c) off len.
Proof.
  destruct c as [v [n|]]; unfold slice_M, slice_spec, logical; cbn [fst snd option_map].
  - now rewrite map2_firstn, map2_skipn.
  - now rewrite skipn_map, firstn_map.
Qed.

Lemma wf_slice {T} (c : pcol T) off len : wf_col c -> wf_col (slice_M c off len).
Proof.
  destruct c as [v [n|]]; unfold wf_col, slice_M; cbn; [|auto]. intros H.
  now rewrite !firstn_length, !skipn_length, H.
Qed.

Lemma logical_null_col {T} (d : T) k : logical (null_col d k) = repeat None k.
Proof. unfold null_col, logical; cbn. induction k; cbn; [reflexivity|]. now f_equal. Qed.

Lemma wf_null_col {T} (d : T) k : wf_col (null_col d k).
Proof. unfold wf_col, null_col; cbn. now rewrite !repeat_length. Qed.

Lemma shift_M_spec {T} (d : T) (c : pcol T) (off : Z) : wf_col c ->
  (Z.of_nat (length (fst c)) < 2 ^ 63)%Z ->      (* array lengths fit an i64 *)
  logical (shift_M d c off) = shift_spec (logical c) off.
Proof.
  intros Hc Hfit. unfold shift_M, shift_spec. rewrite (logical_length c Hc).
  set (n := length (fst c)) in *.
  assert (Hn : length (logical c) = n) by (apply logical_length; exact Hc).
  destruct (Z.eqb_spec off 0) as [E0|N0].
  - subst off. replace (Z.to_nat (Z.min (Z.abs 0) (Z.of_nat n))) with 0 by lia.
    change (0 <=? 0)%Z with true. cbn [repeat app]. rewrite Nat.sub_0_r. now rewrite <- Hn, firstn_all.
  - destruct ((off =? i64_min)%Z || (Z.of_nat n <=? Z.abs off)%Z) eqn:Ebig.
    + assert (Hk : Z.to_nat (Z.min (Z.abs off) (Z.of_nat n)) = n).
      { apply orb_prop in Ebig. destruct Ebig as [E|E].
        - apply Z.eqb_eq in E. subst off. unfold i64_min.
          assert (Hp : (0 < 2 ^ 63)%Z) by (apply Z.pow_pos_nonneg; lia).
          rewrite Z.abs_opp, Z.abs_eq by lia. lia.
        - apply Z.leb_le in E. lia. }
      rewrite Hk, logical_null_col, Nat.sub_diag. cbn [firstn].
      destruct (0 <=? off)%Z; [now rewrite app_nil_r|].
      rewrite skipn_all2 by lia. reflexivity.
    + apply orb_false_elim in Ebig. destruct Ebig as [_ Ebig]. apply Z.leb_gt in Ebig.
      destruct (Z.ltb_spec 0 off) as [Hpos|Hneg].
      * assert (Hk : Z.to_nat (Z.min (Z.abs off) (Z.of_nat n)) = Z.to_nat off) by lia.
        rewrite Hk. replace (0 <=? off)%Z with true by (symmetry; apply Z.leb_le; lia).
        rewrite concat_M_spec by (repeat constructor; [apply wf_null_col|apply wf_slice; exact Hc]).
        unfold concat_spec. cbn [map concat]. rewrite logical_null_col, slice_M_spec. unfold slice_spec.
        cbn [skipn]. now rewrite app_nil_r.
      * assert (Hk : Z.to_nat (Z.min (Z.abs off) (Z.of_nat n)) = Z.to_nat (- off)) by lia.
        rewrite Hk. replace (0 <=? off)%Z with false by (symmetry; apply Z.leb_gt; lia).
        rewrite concat_M_spec by (repeat constructor; [apply wf_slice; exact Hc|apply wf_null_col]).
        unfold concat_spec. cbn [map concat]. rewrite logical_null_col, slice_M_spec. unfold slice_spec.
        rewrite app_nil_r. f_equal. apply firstn_all2. rewrite skipn_length. lia.
Qed.

(* ------------------------------------------------------------------ zip *)
Section Zip.
Context {A : Type}.
Variables (ts : bool) (t : list (option A)) (fs : bool) (f : list (option A)).

Definition rows_of (sc : bool) (src : list (option A)) (a b : nat) : list (option A) :=
  map (datum_at sc src) (seq a (b - a)).

Lemma zip_fill_rows sc out src a b : a <= b -> (sc = false -> b <= length src) ->
  zip_fill sc out src a b = out ++ rows_of sc src a b.
Proof.
  intros Hab Hb. unfold zip_fill, rows_of. destruct sc.
  - unfold extend_scalar, datum_at. f_equal. clear Hab Hb. generalize (b - a) as n. intros n. revert a.
    induction n as [|n IH]; intros a; [reflexivity|]. cbn. f_equal. apply (IH (S a)).
  - unfold extend. f_equal.
    change (firstn (b - a) (skipn a src)) with (copy_range src (a, b)).
    rewrite (copy_range_pick None src (a, b)) by (cbn; auto). reflexivity.
Qed.

Lemma rows_of_snoc sc src a b : a <= b -> rows_of sc src a (S b) = rows_of sc src a b ++ [datum_at sc src b].
Proof. intros H. unfold rows_of. rewrite seq_snoc by exact H. now rewrite map_app. Qed.

Lemma rows_of_nil sc src a : rows_of sc src a a = [].
Proof. unfold rows_of. now rewrite Nat.sub_diag. Qed.

(* the zip specification on a plain boolean mask *)
Fixpoint zip_b (i : nat) (m : list bool) : list (option A) :=
  match m with [] => [] | b :: m' => (if b then datum_at ts t i else datum_at fs f i) :: zip_b (S i) m' end.

Definition finalize (len : nat) (st : list (option A) * nat) : list (option A) :=
  let '(out, filled) := st in if filled <? len then zip_fill fs out f filled len else out.

Definition pending (out : list (option A)) (filled : nat) (open : option nat) (k : nat) : list (option A) :=
  match open with
  | Some s => out ++ rows_of fs f filled s ++ rows_of ts t s k
  | None => out ++ rows_of fs f filled k
  end.
Definition pending_ok (filled : nat) (open : option nat) (k : nat) : Prop :=
  match open with Some s => filled <= s /\ s <= k | None => filled <= k end.

Lemma zip_step_rows out filled s e : filled <= s -> s <= e ->
  (ts = false -> e <= length t) -> (fs = false -> e <= length f) ->
  zip_step ts t fs f (out, filled) (s, e) = (out ++ rows_of fs f filled s ++ rows_of ts t s e, e).
Proof.
  intros H1 H2 Ht Hf. unfold zip_step. f_equal.
  destruct (Nat.ltb_spec filled s) as [Hlt|Hge].
  - rewrite (zip_fill_rows fs out f filled s) by (try lia; intros E; specialize (Hf E); lia).
    rewrite (zip_fill_rows ts _ t s e) by auto. now rewrite <- app_assoc.
  - assert (filled = s) by lia. subst filled. rewrite rows_of_nil. cbn [app].
    now rewrite zip_fill_rows by auto.
Qed.

Lemma zip_fold m : forall k open out filled,
  pending_ok filled open k ->
  (ts = false -> k + length m <= length t) -> (fs = false -> k + length m <= length f) ->
  finalize (k + length m) (fold_left (zip_step ts t fs f) (C19_Bits.runs_from k open m) (out, filled))
  = pending out filled open k ++ zip_b k m.
Proof.
  induction m as [|b m IH]; intros k open out filled Hok Ht Hf.
  - cbn [C19_Bits.runs_from length zip_b]. rewrite Nat.add_0_r in *. rewrite app_nil_r.
    destruct open as [s|]; cbn in Hok; cbn [fold_left pending].
    + rewrite zip_step_rows by (try lia; auto). cbn [finalize]. now rewrite Nat.ltb_irrefl.
    + cbn [finalize]. destruct (Nat.ltb_spec filled k) as [Hlt|Hge].
      * apply zip_fill_rows; [lia|auto].
      * assert (filled = k) by lia. subst. now rewrite rows_of_nil, app_nil_r.
  - cbn [length] in *. replace (k + S (length m)) with (S k + length m) in * by lia.
    destruct b; cbn [C19_Bits.runs_from zip_b].
    + destruct open as [s|]; cbn in Hok.
      * rewrite IH by (cbn; try lia; auto). cbn [pending].
        rewrite rows_of_snoc by lia. now rewrite <- !app_assoc.
      * rewrite IH by (cbn; try lia; auto). cbn [pending].
        rewrite rows_of_snoc, rows_of_nil by lia. now rewrite <- !app_assoc.
    + destruct open as [s|]; cbn in Hok; cbn [fold_left].
      * rewrite zip_step_rows by (try lia; intros E; try specialize (Ht E); try specialize (Hf E); lia).
        rewrite IH by (cbn; try lia; auto). cbn [pending].
        rewrite rows_of_snoc, rows_of_nil by lia. now rewrite <- !app_assoc.
      * rewrite IH by (cbn; try lia; auto). cbn [pending].
        rewrite rows_of_snoc by lia. now rewrite <- !app_assoc.
Qed.

Lemma zip_b_spec m i : zip_b i (map sel m) = zip_spec_from i m ts t fs f.
Proof. revert i; induction m as [|b m IH]; intros i; cbn; [reflexivity|]. now rewrite IH. Qed.

Lemma zip_M_spec (m : pcol bool) : wf_col m ->
  (ts = false -> length (fst m) <= length t) -> (fs = false -> length (fst m) <= length f) ->
  zip_M m ts t fs f = zip_spec (logical_mask m) ts t fs f.
Proof.
  intros Hm Ht Hf. unfold zip_M, zip_spec. rewrite <- zip_b_spec, map_sel_logical by exact Hm.
  pose proof (prep_mask_length m Hm) as HL.
  pose proof (zip_fold (prep_mask m) 0 None [] 0) as Z. cbn [Nat.add pending app] in Z.
  rewrite rows_of_nil in Z. cbn [app] in Z. rewrite HL in Z.
  unfold C19_Bits.runs. unfold finalize in Z.
  destruct (fold_left (zip_step ts t fs f) (C19_Bits.runs_from 0 None (prep_mask m)) ([], 0)) as [out filled].
  apply Z; [cbn; lia|auto|auto].
Qed.
End Zip.
