(* C02 — shared lemmas for the equality proofs: list-of-bool specifications of the bit iterators
   ([runs] = BitSliceIterator, [positions] = BitIndexIterator), contains_nulls, equal_nulls, null counts. *)
From Coq Require Import List Arith NArith ZArith Bool Lia.
From AV Require Import Base.ListX Base.Bits Base.Bytes Model.C19_Bits Model.C09_Layout Model.C02_Logical Model.C02_Equal.
Import ListNotations.

(* ------------------------------------------------------------------ boolean list equality *)
Lemma bits_eqb_eq p : forall q, bits_eqb p q = true <-> p = q.
Proof.
  induction p as [|u p IH]; intros [|v q]; cbn [bits_eqb]; split; intros H; try discriminate; try reflexivity.
  - apply andb_true_iff in H as [H1 H2]. apply eqb_prop in H1. apply IH in H2. congruence.
  - injection H as -> ->. rewrite eqb_reflx. now apply IH.
Qed.
Lemma bytes_eqb_eq p : forall q, bytes_eqb p q = true <-> p = q.
Proof.
  induction p as [|u p IH]; intros [|v q]; cbn [bytes_eqb]; split; intros H; try discriminate; try reflexivity.
  - apply andb_true_iff in H as [H1 H2]. apply N.eqb_eq in H1. apply IH in H2. congruence.
  - injection H as -> ->. rewrite N.eqb_refl. now apply IH.
Qed.
Lemma zs_eqb_eq p : forall q, zs_eqb p q = true <-> p = q.
Proof.
  induction p as [|u p IH]; intros [|v q]; cbn [zs_eqb]; split; intros H; try discriminate; try reflexivity.
  - apply andb_true_iff in H as [H1 H2]. apply Z.eqb_eq in H1. apply IH in H2. congruence.
  - injection H as -> ->. rewrite Z.eqb_refl. now apply IH.
Qed.

Lemma map_seq_ext_iff {A} (f g : nat -> A) n :
  map f (seq 0 n) = map g (seq 0 n) <-> (forall i, i < n -> f i = g i).
Proof.
  split.
  - intros E i Hi.
    assert (H : nth i (map f (seq 0 n)) (f 0) = nth i (map g (seq 0 n)) (f 0)) by now rewrite E.
    now rewrite !nth_map_seq in H by exact Hi.
  - intros H. apply map_ext_in. intros i Hi. apply in_seq in Hi. apply H. lia.
Qed.

Lemma bits_range_eq_iff l r ls rs n :
  bits_range l ls n = bits_range r rs n <-> (forall i, i < n -> bit_at l (ls + i) = bit_at r (rs + i)).
Proof. unfold bits_range. apply map_seq_ext_iff. Qed.

Lemma equal_bits_iff l r ls rs n :
  equal_bits l r ls rs n = true <-> (forall i, i < n -> bit_at l (ls + i) = bit_at r (rs + i)).
Proof. unfold equal_bits. rewrite bits_eqb_eq. apply bits_range_eq_iff. Qed.

(* ------------------------------------------------------------------ runs (BitSliceIterator) *)
Definition covered (rs : list (nat * nat)) (j : nat) : Prop := exists s e, In (s, e) rs /\ s <= j < e.

Lemma runs_from_cover l : forall i open j,
  (match open with Some s => s <= i | None => True end) ->
  (covered (runs_from i open l) j <->
   (match open with Some s => s <= j < i | None => False end) \/ (i <= j < i + length l /\ nth (j - i) l false = true)).
Proof.
  induction l as [|b r IH]; intros i open j Hinv.
  - cbn [runs_from length]. destruct open as [s|]; unfold covered; split.
    + intros (s' & e' & [E|[]] & Hj). injection E as <- <-. left; lia.
    + intros [Hj|[Hj _]]; [|lia]. exists s, i. split; [now left | lia].
    + intros (s' & e' & [] & _).
    + intros [[]|[Hj _]]. lia.
  - destruct b.
    + cbn [runs_from].
      rewrite (IH (S i) (match open with Some s => Some s | None => Some i end) j)
        by (destruct open; lia).
      cbn [length]. destruct open as [s|].
      * split.
        -- intros [Hj|[Hj Hn]].
           ++ destruct (Nat.eq_dec j i) as [->|]; [right; split; [lia|]; now rewrite Nat.sub_diag | left; lia].
           ++ right. split; [lia|]. replace (j - i) with (S (j - S i)) by lia. exact Hn.
        -- intros [Hj|[Hj Hn]]; [left; lia|].
           destruct (Nat.eq_dec j i) as [->|]; [left; lia|].
           right. split; [lia|]. replace (j - i) with (S (j - S i)) in Hn by lia. exact Hn.
      * split.
        -- intros [Hj|[Hj Hn]].
           ++ right. replace j with i by lia. split; [lia|]. now rewrite Nat.sub_diag.
           ++ right. split; [lia|]. replace (j - i) with (S (j - S i)) by lia. exact Hn.
        -- intros [[]|[Hj Hn]].
           destruct (Nat.eq_dec j i) as [->|]; [left; lia|].
           right. split; [lia|]. replace (j - i) with (S (j - S i)) in Hn by lia. exact Hn.
    + cbn [runs_from length]. destruct open as [s|].
      * split.
        -- intros (s' & e' & [E|Hin] & Hj).
           ++ injection E as <- <-. left; lia.
           ++ assert (Hc : covered (runs_from (S i) None r) j) by (exists s', e'; tauto).
              apply (IH (S i) None j I) in Hc as [[]|[Hj' Hn]].
              right. split; [lia|]. replace (j - i) with (S (j - S i)) by lia. exact Hn.
        -- intros [Hj|[Hj Hn]].
           ++ exists s, i. split; [now left | lia].
           ++ destruct (Nat.eq_dec j i) as [->|]; [rewrite Nat.sub_diag in Hn; discriminate|].
              assert (Hc : covered (runs_from (S i) None r) j).
              { apply (IH (S i) None j I). right. split; [lia|]. replace (j - i) with (S (j - S i)) in Hn by lia. exact Hn. }
              destruct Hc as (s' & e' & Hin & Hj'). exists s', e'. split; [now right | exact Hj'].
      * rewrite (IH (S i) None j I). split.
        -- intros [[]|[Hj Hn]]. right. split; [lia|]. replace (j - i) with (S (j - S i)) by lia. exact Hn.
        -- intros [[]|[Hj Hn]].
           destruct (Nat.eq_dec j i) as [->|]; [rewrite Nat.sub_diag in Hn; discriminate|].
           right. split; [lia|]. replace (j - i) with (S (j - S i)) in Hn by lia. exact Hn.
Qed.

Lemma runs_cover l j : covered (runs l) j <-> (j < length l /\ nth j l false = true).
Proof.
  unfold runs. rewrite (runs_from_cover l 0 None j I). rewrite Nat.sub_0_r. cbn [Nat.add]. split.
  - intros [[]|[H1 H2]]. split; [lia | exact H2].
  - intros [H1 H2]. right. split; [lia | exact H2].
Qed.

Lemma runs_from_bound l : forall i open s e,
  (match open with Some s0 => s0 <= i | None => True end) ->
  In (s, e) (runs_from i open l) -> e <= i + length l /\ s <= e /\ (match open with Some s0 => s0 <= s | None => i <= s end).
Proof.
  induction l as [|b r IH]; intros i open s e Hinv Hin.
  - cbn [runs_from length] in *. destruct open as [s0|]; [|contradiction].
    destruct Hin as [E|[]]. injection E as <- <-. lia.
  - destruct b; cbn [runs_from length] in *.
    + apply IH in Hin; [|destruct open; lia]. destruct open; lia.
    + destruct open as [s0|].
      * destruct Hin as [E|Hin]; [injection E as <- <-; lia|].
        apply IH in Hin; [|exact I]. lia.
      * apply IH in Hin; [|exact I]. lia.
Qed.
Lemma runs_bound l s e : In (s, e) (runs l) -> e <= length l /\ s <= e.
Proof. intros H. apply (runs_from_bound l 0 None s e I) in H. lia. Qed.

(* head of the run list: what contains_nulls looks at *)
Lemma runs_from_open_head l : forall i s, s <= i ->
  exists e rest, runs_from i (Some s) l = (s, e) :: rest /\ i <= e <= i + length l /\
    (forall k, k < e - i -> nth k l false = true) /\ (e < i + length l -> nth (e - i) l true = false).
Proof.
  induction l as [|b r IH]; intros i s Hs.
  - exists i, []. cbn [runs_from length]. split; [reflexivity|]. split; [lia|]. split; [intros k Hk; lia | intros He; lia].
  - destruct b; cbn [runs_from length].
    + destruct (IH (S i) s ltac:(lia)) as (e & rest & E & Hb & Ht & Hf).
      exists e, rest. split; [exact E|]. split; [lia|]. split.
      * intros k Hk. destruct k as [|k]; [reflexivity|]. cbn [nth]. apply Ht. lia.
      * intros He. replace (e - i) with (S (e - S i)) by lia. cbn [nth]. apply Hf. lia.
    + exists i, (runs_from (S i) None r). split; [reflexivity|]. split; [lia|]. split.
      * intros k Hk; lia.
      * intros _. now rewrite Nat.sub_diag.
Qed.

Lemma contains_nulls_spec l :
  match runs l with
  | (s, e) :: _ => negb (Nat.eqb s 0) || negb (Nat.eqb e (length l))
  | [] => negb (Nat.eqb (length l) 0)
  end = existsb negb l.
Proof.
  unfold runs. destruct l as [|b r]; [reflexivity|].
  destruct b; cbn [runs_from existsb negb orb length].
  - destruct (runs_from_open_head r 1 0 ltac:(lia)) as (e & rest & E & Hb & Ht & Hf). rewrite E.
    cbn [Nat.eqb negb orb].
    destruct (Nat.eqb_spec e (S (length r))) as [He|He]; cbn [negb].
    + symmetry. apply not_true_is_false. intros Hex. apply existsb_exists in Hex as (x & Hin & Hx).
      apply (In_nth _ _ false) in Hin as (k & Hk & <-). rewrite Ht in Hx by lia. discriminate.
    + symmetry. apply existsb_exists. exists (nth (e - 1) r true). split.
      * apply nth_In. lia.
      * rewrite Hf by lia. reflexivity.
  - (* first bit false: any run starts at >= 1 *)
    destruct (runs_from 1 None r) as [|[s e] rest] eqn:E; [reflexivity|].
    assert (Hin : In (s, e) (runs_from 1 None r)) by (rewrite E; now left).
    apply (runs_from_bound r 1 None s e I) in Hin.
    destruct (Nat.eqb_spec s 0); [lia | reflexivity].
Qed.

(* ------------------------------------------------------------------ positions (BitIndexIterator) *)
Lemma In_positions_from l : forall s j, In j (positions_from s l) <-> (s <= j < s + length l /\ nth (j - s) l false = true).
Proof.
  induction l as [|b r IH]; intros s j; cbn [positions_from length].
  - split; [intros [] | lia].
  - rewrite in_app_iff, IH. split.
    + intros [H|[H1 H2]].
      * destruct b; [|destruct H]. destruct H as [<-|[]]. split; [lia|]. now rewrite Nat.sub_diag.
      * split; [lia|]. replace (j - s) with (S (j - S s)) by lia. exact H2.
    + intros [H1 H2]. destruct (Nat.eq_dec j s) as [->|Hne].
      * left. rewrite Nat.sub_diag in H2. cbn [nth] in H2. subst b. now left.
      * right. split; [lia|]. replace (j - s) with (S (j - S s)) in H2 by lia. exact H2.
Qed.
Lemma In_positions l j : In j (positions l) <-> (j < length l /\ nth j l false = true).
Proof. unfold positions. rewrite In_positions_from, Nat.sub_0_r. cbn [Nat.add]. split; intros [H1 H2]; (split; [lia | exact H2]). Qed.

(* ------------------------------------------------------------------ validity of a range *)
Lemma nulls_bits_length nb s n : length (nulls_bits nb s n) = n.
Proof. apply bits_range_length. Qed.
Lemma nulls_bits_nth nb s n i : i < n -> nth i (nulls_bits nb s n) false = nb_valid nb (s + i).
Proof. intros Hi. unfold nulls_bits. rewrite bits_range_nth by exact Hi. unfold nb_valid. f_equal. lia. Qed.

Lemma existsb_negb_false_iff l : existsb negb l = false <-> (forall i, i < length l -> nth i l false = true).
Proof.
  split.
  - intros H i Hi. destruct (nth i l false) eqn:E; [reflexivity|].
    assert (existsb negb l = true) by (apply existsb_exists; exists (nth i l false); split; [now apply nth_In | now rewrite E]).
    congruence.
  - intros H. apply not_true_is_false. intros Hex. apply existsb_exists in Hex as (x & Hin & Hx).
    apply (In_nth _ _ false) in Hin as (k & Hk & <-). rewrite H in Hx by exact Hk. discriminate.
Qed.

Definition valid_in (nulls : option nullbuf) (i : nat) : bool := match nulls with None => true | Some nb => nb_valid nb i end.

Lemma contains_nulls_false_iff nulls s n :
  contains_nulls nulls s n = false <-> (forall i, i < n -> valid_in nulls (s + i) = true).
Proof.
  destruct nulls as [nb|]; cbn [contains_nulls valid_in]; [|tauto].
  pose proof (contains_nulls_spec (nulls_bits nb s n)) as Hs. rewrite nulls_bits_length in Hs. rewrite Hs.
  rewrite existsb_negb_false_iff, nulls_bits_length. split; intros H i Hi; specialize (H i Hi).
  - now rewrite nulls_bits_nth in H.
  - now rewrite nulls_bits_nth.
Qed.

Lemma slot_valid_valid_in a i : slot_valid a i = valid_in (p_nulls a) i.
Proof. reflexivity. Qed.

Lemma equal_nulls_iff a b ls rs n :
  equal_nulls a b ls rs n = true <-> (forall i, i < n -> slot_valid a (ls + i) = slot_valid b (rs + i)).
Proof.
  unfold equal_nulls, slot_valid. destruct (p_nulls a) as [ln|], (p_nulls b) as [rn|].
  - rewrite equal_bits_iff. unfold nb_valid. split; intros H i Hi; specialize (H i Hi); now rewrite <- ?Nat.add_assoc in *.
  - rewrite negb_true_iff, contains_nulls_false_iff. cbn [valid_in]. tauto.
  - rewrite negb_true_iff, contains_nulls_false_iff. cbn [valid_in]. split; intros H i Hi; symmetry; now apply H.
  - tauto.
Qed.

(* cached null count of a well-formed validity buffer *)
Lemma count_false_ext l1 l2 : l1 = l2 -> count_false l1 = count_false l2.
Proof. now intros ->. Qed.
Lemma count_false_all_true l : (forall i, i < length l -> nth i l false = true) -> count_false l = 0.
Proof.
  intros H. unfold count_false. induction l as [|b r IH]; [reflexivity|].
  cbn [filter]. pose proof (H 0 ltac:(cbn; lia)) as H0. cbn [nth] in H0. subst b. cbn [negb].
  apply IH. intros i Hi. apply (H (S i)). cbn [length]. lia.
Qed.

Lemma null_count_eq a b :
  spec_nulls a = true -> spec_nulls b = true -> p_len a = p_len b ->
  (forall i, i < p_len a -> slot_valid a i = slot_valid b i) -> null_count a = null_count b.
Proof.
  unfold spec_nulls, null_count, slot_valid. intros Ha Hb Hl Hv.
  destruct (p_nulls a) as [la|] eqn:Ea, (p_nulls b) as [lb|] eqn:Eb.
  - apply andb_true_iff in Ha as [Ha Hca]. apply andb_true_iff in Ha as [Hla _].
    apply andb_true_iff in Hb as [Hb Hcb]. apply andb_true_iff in Hb as [Hlb _].
    apply Nat.eqb_eq in Hca, Hcb, Hla, Hlb. rewrite Hca, Hcb. apply count_false_ext.
    unfold nb_bits. rewrite Hla, Hlb, <- Hl. apply bits_range_eq_iff. intros i Hi. exact (Hv i Hi).
  - apply andb_true_iff in Ha as [Ha Hca]. apply andb_true_iff in Ha as [Hla _].
    apply Nat.eqb_eq in Hca, Hla. rewrite Hca. apply count_false_all_true.
    unfold nb_bits. rewrite bits_range_length, Hla. intros i Hi. rewrite bits_range_nth by exact Hi. exact (Hv i Hi).
  - apply andb_true_iff in Hb as [Hb Hcb]. apply andb_true_iff in Hb as [Hlb _].
    apply Nat.eqb_eq in Hcb, Hlb. rewrite Hcb. symmetry. apply count_false_all_true.
    unfold nb_bits. rewrite bits_range_length, Hlb, <- Hl. intros i Hi. rewrite bits_range_nth by exact Hi.
    symmetry. exact (Hv i Hi).
  - reflexivity.
Qed.

(* logical columns coincide iff they coincide slot by slot *)
Lemma logical_eq_iff a b :
  logical a = logical b <-> (p_len a = p_len b /\ forall i, i < p_len a -> logical_at a i = logical_at b i).
Proof.
  unfold logical. split.
  - intros E. assert (Hl : p_len a = p_len b) by (apply (f_equal (@length _)) in E; now rewrite !map_length, !seq_length in E).
    split; [exact Hl|]. rewrite <- Hl in E. now apply map_seq_ext_iff.
  - intros [Hl H]. rewrite <- Hl. now apply map_seq_ext_iff.
Qed.
