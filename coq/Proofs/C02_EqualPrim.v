(* C02 — arrow-data's primitive_equal / fixed_binary_equal (all three paths: whole-slice comparison,
   per-slot loop above the 0.4 null selectivity, valid-run loop below it) decide exactly the equality
   of the logical columns, whatever lies under null slots, for any offsets and any compared range. *)
From Coq Require Import List Arith NArith ZArith Bool Lia.
From AV Require Import Base.ListX Base.Bits Base.Bytes Model.C19_Bits Model.C09_Layout Model.C02_Logical Model.C02_Equal Proofs.C02_EqualNulls.
Import ListNotations.

(* ------------------------------------------------------------------ list plumbing *)
Lemma firstn_plus {A} (l : list A) a : forall b, firstn (a + b) l = firstn a l ++ firstn b (skipn a l).
Proof. revert l. induction a as [|a IH]; intros l b; [reflexivity|]. destruct l as [|x l]; [now destruct b|]. cbn [Nat.add firstn skipn app]. now rewrite IH. Qed.
Lemma skipn_plus {A} (l : list A) a : forall b, skipn b (skipn a l) = skipn (a + b) l.
Proof. revert l. induction a as [|a IH]; intros l b; [reflexivity|]. destruct l as [|x l]; [now rewrite !skipn_nil|]. cbn [Nat.add skipn]. apply IH. Qed.
Lemma app_eq_len {A} (x x' y y' : list A) : length x = length x' -> (x ++ y = x' ++ y' <-> x = x' /\ y = y').
Proof.
  revert x'. induction x as [|u x IH]; intros [|u' x'] Hl; cbn [length] in Hl; try discriminate.
  - cbn [app]. split; [tauto | now intros [_ ->]].
  - cbn [app]. split.
    + intros E. injection E as -> E. apply IH in E; [|lia]. destruct E as [-> ->]. tauto.
    + intros [E ->]. now injection E as -> ->.
Qed.
Lemma firstn_skipn_length {A} (l : list A) w o : o + w <= length l -> length (firstn w (skipn o l)) = w.
Proof. intros H. rewrite firstn_length, skipn_length. lia. Qed.

Definition chunk (l : list N) (w i : nat) : list N := firstn w (skipn (i * w) l).

Lemma chunks_eq w l r : forall n o o', (o + n) * w <= length l -> (o' + n) * w <= length r ->
  (firstn (n * w) (skipn (o * w) l) = firstn (n * w) (skipn (o' * w) r)
   <-> forall i, i < n -> chunk l w (o + i) = chunk r w (o' + i)).
Proof.
  induction n as [|n IH]; intros o o' Hl Hr.
  - cbn [Nat.mul firstn]. split; [intros _ i Hi; lia | reflexivity].
  - replace (S n * w) with (w + n * w) by lia. rewrite !firstn_plus, !skipn_plus.
    rewrite app_eq_len by (rewrite !firstn_skipn_length; nia).
    replace (o * w + w) with (S o * w) by lia. replace (o' * w + w) with (S o' * w) by lia.
    rewrite (IH (S o) (S o')) by lia. unfold chunk. split.
    + intros [H0 H] i Hi. destruct i as [|i]; [now rewrite !Nat.add_0_r|].
      replace (o + S i) with (S o + i) by lia. replace (o' + S i) with (S o' + i) by lia. apply H. lia.
    + intros H. split.
      * specialize (H 0 ltac:(lia)). now rewrite !Nat.add_0_r in H.
      * intros i Hi. specialize (H (S i) ltac:(lia)).
        replace (o + S i) with (S o + i) in H by lia. now replace (o' + S i) with (S o' + i) in H by lia.
Qed.

Lemma equal_len_chunks w l r oa ob ls rs n :
  (oa + ls + n) * w <= length l -> (ob + rs + n) * w <= length r ->
  (equal_len (skipn (oa * w) l) (skipn (ob * w) r) (ls * w) (rs * w) (n * w) = true
   <-> forall i, i < n -> chunk l w (oa + ls + i) = chunk r w (ob + rs + i)).
Proof.
  intros Hl Hr. unfold equal_len. rewrite bytes_eqb_eq, !skipn_plus.
  replace (oa * w + ls * w) with ((oa + ls) * w) by lia. replace (ob * w + rs * w) with ((ob + rs) * w) by lia.
  now apply chunks_eq.
Qed.

Lemma equal_len_chunk1 w l r oa ob i j :
  (oa + i + 1) * w <= length l -> (ob + j + 1) * w <= length r ->
  (equal_len (skipn (oa * w) l) (skipn (ob * w) r) (i * w) (j * w) w = true
   <-> chunk l w (oa + i) = chunk r w (ob + j)).
Proof.
  intros Hl Hr. pose proof (equal_len_chunks w l r oa ob i j 1 Hl Hr) as H.
  replace (1 * w) with w in H by lia. rewrite H. split.
  - intros H0. specialize (H0 0 ltac:(lia)). now rewrite !Nat.add_0_r in H0.
  - intros H0 k Hk. replace k with 0 by lia. now rewrite !Nat.add_0_r.
Qed.

Lemma forallb_combine_same {A} (f : A * A -> bool) l : forallb f (List.combine l l) = forallb (fun x => f (x, x)) l.
Proof. induction l as [|x l IH]; [reflexivity|]. cbn [List.combine forallb]. now rewrite IH. Qed.

Lemma forallb_seq_iff f n : forallb f (seq 0 n) = true <-> (forall i, i < n -> f i = true).
Proof. rewrite forallb_forall. split; intros H i Hi; apply H; [apply in_seq; lia | apply in_seq in Hi; lia]. Qed.

(* ------------------------------------------------------------------ primitive_equal on a range *)
Theorem primitive_equal_iff w a b ls rs n :
  (p_off a + ls + n) * w <= length (buf a 0) -> (p_off b + rs + n) * w <= length (buf b 0) ->
  (forall i, i < n -> slot_valid a (ls + i) = slot_valid b (rs + i)) ->
  (primitive_equal w a b ls rs n = true
   <-> forall i, i < n -> slot_valid a (ls + i) = true ->
         chunk (buf a 0) w (p_off a + ls + i) = chunk (buf b 0) w (p_off b + rs + i)).
Proof.
  intros Hla Hlb Hv. unfold primitive_equal.
  destruct (contains_nulls (p_nulls a) ls n) eqn:Ec; cbn [negb].
  - (* the range holds nulls *)
    assert (Hex : ~ (forall i, i < n -> valid_in (p_nulls a) (ls + i) = true))
      by (intros H; apply contains_nulls_false_iff in H; congruence).
    destruct (p_nulls a) as [ln|] eqn:Ea; [|exfalso; apply Hex; intros; reflexivity].
    destruct (p_nulls b) as [rn|] eqn:Eb.
    2:{ exfalso. apply Hex. intros i Hi. specialize (Hv i Hi). unfold slot_valid in Hv. rewrite Ea, Eb in Hv. exact Hv. }
    assert (Hva : forall i, slot_valid a i = nb_valid ln i) by (intros; unfold slot_valid; now rewrite Ea).
    assert (Hvb : forall i, slot_valid b i = nb_valid rn i) by (intros; unfold slot_valid; now rewrite Eb).
    destruct (selective a).
    + (* per-slot loop *)
      rewrite forallb_seq_iff. split; intros H i Hi; specialize (H i Hi).
      * intros Hval. unfold is_null_at in H. rewrite <- Hva, <- Hvb, <- (Hv i Hi), Hval in H. cbn [negb orb andb] in H.
        rewrite eqb_reflx in H. cbn [andb] in H.
        apply (equal_len_chunk1 w (buf a 0) (buf b 0) (p_off a) (p_off b) (ls + i) (rs + i)) in H; [|nia|nia].
        now rewrite !Nat.add_assoc in H.
      * unfold is_null_at. rewrite <- Hva, <- Hvb, <- (Hv i Hi).
        destruct (slot_valid a (ls + i)) eqn:Hval; cbn [negb orb]; [|reflexivity].
        rewrite eqb_reflx. cbn [andb].
        apply (equal_len_chunk1 w (buf a 0) (buf b 0) (p_off a) (p_off b) (ls + i) (rs + i)); [nia|nia|].
        rewrite !Nat.add_assoc. now apply H.
    + (* valid-run loop: both sides yield the same runs *)
      assert (Hbits : nulls_bits rn rs n = nulls_bits ln ls n).
      { unfold nulls_bits. apply bits_range_eq_iff. intros i Hi. specialize (Hv i Hi). rewrite Hva, Hvb in Hv.
        unfold nb_valid in Hv. now rewrite <- !Nat.add_assoc. }
      rewrite Hbits, forallb_combine_same, forallb_forall.
      set (rsl := runs (nulls_bits ln ls n)).
      assert (Hcov : forall j, covered rsl j <-> (j < n /\ nb_valid ln (ls + j) = true)).
      { intros j. unfold rsl. rewrite runs_cover, nulls_bits_length. split; intros [H1 H2]; (split; [exact H1|]);
          [now rewrite nulls_bits_nth in H2 | now rewrite nulls_bits_nth]. }
      split.
      * intros H i Hi Hval. rewrite Hva in Hval.
        destruct (proj2 (Hcov i) (conj Hi Hval)) as (s & e & Hin & Hse).
        pose proof (runs_bound _ s e Hin) as [Hbe _]. rewrite nulls_bits_length in Hbe.
        specialize (H (s, e) Hin). cbn beta iota in H. rewrite !Nat.eqb_refl in H. cbn [andb] in H.
        rewrite (equal_len_chunks w (buf a 0) (buf b 0) (p_off a) (p_off b) (ls + s) (rs + s) (e - s)) in H by nia.
        specialize (H (i - s) ltac:(lia)).
        replace (p_off a + (ls + s) + (i - s)) with (p_off a + ls + i) in H by lia.
        now replace (p_off b + (rs + s) + (i - s)) with (p_off b + rs + i) in H by lia.
      * intros H [s e] Hin. cbn beta iota. rewrite !Nat.eqb_refl. cbn [andb].
        pose proof (runs_bound _ s e Hin) as [Hbe Hse]. rewrite nulls_bits_length in Hbe.
        rewrite (equal_len_chunks w (buf a 0) (buf b 0) (p_off a) (p_off b) (ls + s) (rs + s) (e - s)) by nia.
        intros i Hi.
        assert (Hc : covered rsl (s + i)) by (exists s, e; split; [exact Hin | lia]).
        apply Hcov in Hc as [Hlt Hval].
        replace (p_off a + (ls + s) + i) with (p_off a + ls + (s + i)) by lia.
        replace (p_off b + (rs + s) + i) with (p_off b + rs + (s + i)) by lia.
        apply H; [exact Hlt | now rewrite Hva].
  - (* no null in the range: one slice comparison *)
    pose proof (proj1 (contains_nulls_false_iff _ _ _) Ec) as Ec'. clear Ec. rename Ec' into Ec.
    rewrite (equal_len_chunks w (buf a 0) (buf b 0) (p_off a) (p_off b) ls rs n Hla Hlb).
    split; intros H i Hi; [intros _; now apply H | apply H; [exact Hi | exact (Ec i Hi)]].
Qed.

(* ------------------------------------------------------------------ little-endian reading is injective *)
Lemma le_val_inj x : forall y, wf_bytes x -> wf_bytes y -> length x = length y -> le_val x = le_val y -> x = y.
Proof.
  induction x as [|u x IH]; intros [|v y] Hx Hy Hl E; cbn [length] in Hl; try discriminate; [reflexivity|].
  inversion Hx as [|? ? Hu Hx']; inversion Hy as [|? ? Hv Hy']; subst. cbn [le_val] in E.
  assert (u = v /\ le_val x = le_val y) as [-> E'] by (change (2^8)%N with 256%N in *; lia).
  f_equal. apply IH; auto.
Qed.

Lemma chunk_le_at l w i : le_at l w i = le_val (chunk l w i).
Proof. reflexivity. Qed.

Lemma spec_node_fixed a w : p_ty a = TFixed w -> spec_node a = true ->
  spec_nulls a = true /\ (p_off a + p_len a) * w <= length (buf a 0).
Proof.
  intros Ht H. unfold spec_node in H. rewrite Ht in H. cbn zeta in H.
  apply andb_true_iff in H as [_ H]. apply andb_true_iff in H as [H _]. apply andb_true_iff in H as [H Hb].
  apply andb_true_iff in H as [Hn _]. apply Nat.leb_le in Hb. tauto.
Qed.

Lemma dty_eqb_fixed w t : dty_eqb (TFixed w) t = true <-> t = TFixed w.
Proof. destruct t; cbn [dty_eqb]; split; intros H; try discriminate; [apply Nat.eqb_eq in H; now subst | injection H as ->; apply Nat.eqb_refl]. Qed.

Lemma logical_at_fixed a w i : p_ty a = TFixed w ->
  logical_at a i = if slot_valid a i then LInt (le_at (buf a 0) w (p_off a + i)) else LNull.
Proof. destruct a as [ty len off nulls bufs kids]. cbn [p_ty]. intros ->. reflexivity. Qed.

(* ------------------------------------------------------------------ the theorem *)
Theorem equal_iff_logical_prim w a b :
  p_ty a = TFixed w -> spec_node a = true -> spec_node b = true ->
  wf_bytes (buf a 0) -> wf_bytes (buf b 0) ->
  (equal a b = true <-> p_ty a = p_ty b /\ logical a = logical b).
Proof.
  intros Ht Hsa Hsb Hwa Hwb.
  destruct (spec_node_fixed a w Ht Hsa) as [Hna Hba].
  unfold equal, base_equal. rewrite Ht, !andb_true_iff, dty_eqb_fixed, Nat.eqb_eq, Nat.eqb_eq, equal_nulls_iff.
  split.
  - intros [[[[Htb Hl] Hnc] Hv] He]. split; [congruence|].
    destruct (spec_node_fixed b w Htb Hsb) as [Hnb Hbb].
    apply logical_eq_iff. split; [exact Hl|]. intros i Hi.
    assert (Hev : equal_values a b 0 0 (p_len a) = primitive_equal w a b 0 0 (p_len a))
      by (destruct a; cbn [p_ty] in Ht; subst; reflexivity).
    rewrite Hev in He. pose proof (proj1 (primitive_equal_iff w a b 0 0 (p_len a) ltac:(lia) ltac:(lia) Hv) He) as He'. clear He. rename He' into He.
    rewrite (logical_at_fixed a w i Ht), (logical_at_fixed b w i Htb).
    specialize (Hv i Hi). cbn [Nat.add] in Hv. rewrite <- Hv.
    destruct (slot_valid a i) eqn:Hval; [|reflexivity].
    specialize (He i Hi Hval). rewrite !Nat.add_0_r in He. now rewrite !chunk_le_at, He.
  - intros [Htb Hlog]. symmetry in Htb.
    destruct (spec_node_fixed b w Htb Hsb) as [Hnb Hbb].
    apply logical_eq_iff in Hlog as [Hl Hlog].
    assert (Hv : forall i, i < p_len a -> slot_valid a (0 + i) = slot_valid b (0 + i)).
    { intros i Hi. specialize (Hlog i Hi). rewrite (logical_at_fixed a w i Ht), (logical_at_fixed b w i Htb) in Hlog.
      cbn [Nat.add]. destruct (slot_valid a i), (slot_valid b i); try discriminate; reflexivity. }
    repeat split; try assumption.
    + apply null_count_eq; assumption.
    + assert (Hev : equal_values a b 0 0 (p_len a) = primitive_equal w a b 0 0 (p_len a))
        by (destruct a; cbn [p_ty] in Ht; subst; reflexivity).
      rewrite Hev. apply primitive_equal_iff; [lia|lia|exact Hv|].
      intros i Hi Hval. rewrite !Nat.add_0_r in *. cbn [Nat.add] in Hval.
      specialize (Hlog i Hi). rewrite (logical_at_fixed a w i Ht), (logical_at_fixed b w i Htb) in Hlog.
      specialize (Hv i Hi). cbn [Nat.add] in Hv. rewrite <- Hv, Hval in Hlog. injection Hlog as Hle.
      rewrite !chunk_le_at in Hle. apply le_val_inj in Hle; [exact Hle| | |].
      * apply wf_firstn_skipn, Hwa.
      * apply wf_firstn_skipn, Hwb.
      * unfold chunk. rewrite !firstn_skipn_length; [reflexivity|nia|nia].
Qed.

Example equal_prim_nonvacuous :
  let a := PArr (TFixed 2) 3 1 (Some {| nb_bytes := [10%N]; nb_off := 1; nb_len := 3; nb_count := 1 |}) [[9; 9; 1; 0; 7; 7; 3; 0]%N] [] in
  let b := PArr (TFixed 2) 3 0 (Some {| nb_bytes := [5%N]; nb_off := 0; nb_len := 3; nb_count := 1 |}) [[1; 0; 8; 8; 3; 0]%N] [] in
  spec_node a = true /\ spec_node b = true /\ equal a b = true /\ logical a = [LInt 1; LNull; LInt 3].
Proof. vm_compute. repeat split. Qed.

(* ------------------------------------------------------------------ FixedSizeBinary (fixed_binary.rs: the same three paths) *)
Lemma spec_node_fixedbin a s : p_ty a = TFixedBin s -> spec_node a = true ->
  spec_nulls a = true /\ (p_off a + p_len a) * Z.to_nat s <= length (buf a 0).
Proof.
  intros Ht H. unfold spec_node in H. rewrite Ht in H. cbn zeta in H.
  apply andb_true_iff in H as [_ H]. apply andb_true_iff in H as [H _]. apply andb_true_iff in H as [H Hb].
  apply andb_true_iff in H as [H _]. apply andb_true_iff in H as [Hn _]. apply Nat.leb_le in Hb. tauto.
Qed.
Lemma dty_eqb_fixedbin s t : dty_eqb (TFixedBin s) t = true <-> t = TFixedBin s.
Proof. destruct t; cbn [dty_eqb]; split; intros H; try discriminate; [apply Z.eqb_eq in H; now subst | injection H as ->; apply Z.eqb_refl]. Qed.
Lemma logical_at_fixedbin a s i : p_ty a = TFixedBin s ->
  logical_at a i = if slot_valid a i then LBytes (chunk (buf a 0) (Z.to_nat s) (p_off a + i)) else LNull.
Proof. destruct a as [ty len off nulls bufs kids]. cbn [p_ty]. intros ->. reflexivity. Qed.

Theorem equal_iff_logical_fixedbin s a b :
  p_ty a = TFixedBin s -> spec_node a = true -> spec_node b = true ->
  (equal a b = true <-> p_ty a = p_ty b /\ logical a = logical b).
Proof.
  intros Ht Hsa Hsb. set (w := Z.to_nat s).
  destruct (spec_node_fixedbin a s Ht Hsa) as [Hna Hba].
  assert (Hev : equal_values a b 0 0 (p_len a) = primitive_equal w a b 0 0 (p_len a))
    by (destruct a; cbn [p_ty] in Ht; subst; reflexivity).
  unfold equal, base_equal. rewrite Hev, Ht, !andb_true_iff, dty_eqb_fixedbin, Nat.eqb_eq, Nat.eqb_eq, equal_nulls_iff.
  split.
  - intros [[[[Htb Hl] Hnc] Hv] He]. split; [congruence|].
    destruct (spec_node_fixedbin b s Htb Hsb) as [Hnb Hbb].
    apply logical_eq_iff. split; [exact Hl|]. intros i Hi.
    pose proof (proj1 (primitive_equal_iff w a b 0 0 (p_len a) ltac:(fold w in Hba; lia) ltac:(fold w in Hbb; lia) Hv) He) as He'.
    rewrite (logical_at_fixedbin a s i Ht), (logical_at_fixedbin b s i Htb).
    specialize (Hv i Hi). cbn [Nat.add] in Hv. rewrite <- Hv.
    destruct (slot_valid a i) eqn:Hval; [|reflexivity].
    specialize (He' i Hi Hval). rewrite !Nat.add_0_r in He'. fold w. now rewrite He'.
  - intros [Htb Hlog]. symmetry in Htb.
    destruct (spec_node_fixedbin b s Htb Hsb) as [Hnb Hbb].
    apply logical_eq_iff in Hlog as [Hl Hlog].
    assert (Hv : forall i, i < p_len a -> slot_valid a (0 + i) = slot_valid b (0 + i)).
    { intros i Hi. specialize (Hlog i Hi). rewrite (logical_at_fixedbin a s i Ht), (logical_at_fixedbin b s i Htb) in Hlog.
      cbn [Nat.add]. destruct (slot_valid a i), (slot_valid b i); try discriminate; reflexivity. }
    repeat split; try assumption.
    + apply null_count_eq; assumption.
    + apply primitive_equal_iff; [fold w in Hba; lia | fold w in Hbb; lia | exact Hv|].
      intros i Hi Hval. rewrite !Nat.add_0_r in *. cbn [Nat.add] in Hval.
      specialize (Hlog i Hi). rewrite (logical_at_fixedbin a s i Ht), (logical_at_fixedbin b s i Htb) in Hlog.
      specialize (Hv i Hi). cbn [Nat.add] in Hv. rewrite <- Hv, Hval in Hlog. now injection Hlog.
Qed.
