(* C07 — the writer's comparisons are the column orders of the specification:
   total_cmp's sign-mask xor trick = IEEE totalOrder key, is_nan's threshold test = exponent/mantissa
   test, unsigned compare through as_u64, signed big-endian decimal compare for equal lengths. *)
From Coq Require Import List ZArith NArith Lia Bool Arith.
From AV Require Import Model.C07_Trunc Model.C07_Stats Model.C07_File Model.C07_Spec Proofs.C07_Trunc.
Import ListNotations.
Local Open Scope Z_scope.

(* ---------------------------------------------------------------- xor with a low mask *)
Lemma land_lxor_ones_self m n : 0 <= n -> 0 <= m < 2^n -> Z.land (Z.lxor m (Z.ones n)) m = 0.
Proof.
  intros Hn Hm. apply Z.bits_inj'. intros i Hi.
  rewrite Z.land_spec, Z.lxor_spec, Z.bits_0.
  destruct (Z.ltb_spec i n) as [L|L].
  - rewrite Z.ones_spec_low by lia. destruct (Z.testbit m i); reflexivity.
  - rewrite Z.ones_spec_high by lia.
    assert (Z.testbit m i = false) as ->; [|reflexivity].
    destruct (Z.eq_dec m 0) as [->|Nz]; [apply Z.bits_0|].
    apply Z.bits_above_log2; [lia|]. apply Z.log2_lt_pow2; [lia|].
    eapply Z.lt_le_trans; [apply Hm|]. apply Z.pow_le_mono_r; lia.
Qed.

Lemma lxor_ones_low m n : 0 <= n -> 0 <= m < 2^n -> Z.lxor m (Z.ones n) = 2^n - 1 - m.
Proof.
  intros Hn Hm. pose proof (land_lxor_ones_self m n Hn Hm) as H.
  apply Z.add_nocarry_lxor in H.
  rewrite Z.lxor_assoc, (Z.lxor_comm (Z.ones n) m), <- Z.lxor_assoc, Z.lxor_nilpotent, Z.lxor_0_l in H.
  rewrite Z.ones_equiv in H. rewrite Z.ones_equiv. lia.
Qed.

Lemma land_pow2_small n x : 0 <= n -> 0 <= x < 2^n -> Z.land (2^n) x = 0.
Proof.
  intros Hn Hx. apply Z.bits_inj'. intros i Hi.
  rewrite Z.land_spec, Z.bits_0, Z.pow2_bits_eqb by lia.
  destruct (Z.eqb_spec n i) as [<-|Ne]; [|reflexivity]. cbn [andb].
  destruct (Z.eq_dec x 0) as [->|Nz]; [apply Z.bits_0|].
  apply Z.bits_above_log2; [lia|]. apply Z.log2_lt_pow2; lia.
Qed.

(* flipping the low n bits of 2^n + m *)
Lemma lxor_ones_high m n : 0 <= n -> 0 <= m < 2^n -> Z.lxor (2^n + m) (Z.ones n) = 2^n + (2^n - 1 - m).
Proof.
  intros Hn Hm.
  rewrite (Z.add_nocarry_lxor (2^n) m) by (now apply land_pow2_small).
  rewrite Z.lxor_assoc, lxor_ones_low by assumption.
  symmetry. apply Z.add_nocarry_lxor. apply land_pow2_small; lia.
Qed.

(* ---------------------------------------------------------------- total_cmp *)
Theorem total_cmp_key_is_fkey W u : 1 <= W -> 0 <= u < 2^W -> total_cmp_key W u = fkey W u.
Proof.
  intros HW Hu. unfold total_cmp_key, fkey, to_signed.
  assert (E : 2^W = 2 * 2^(W-1)) by (replace W with (Z.succ (W-1)) at 1 by lia; apply Z.pow_succ_r; lia).
  destruct (Z.ltb_spec u (2^(W-1))) as [L|L].
  - rewrite Z.lxor_0_r. destruct (Z.ltb_spec u (2^(W-1))); [reflexivity|lia].
  - assert (Hx : Z.lxor u (2^(W-1) - 1) = 2^(W-1) + (2^(W-1) - 1 - (u - 2^(W-1)))).
    { transitivity (Z.lxor (2^(W-1) + (u - 2^(W-1))) (Z.ones (W-1))).
      - f_equal; [lia|rewrite Z.ones_equiv; lia].
      - apply lxor_ones_high; lia. }
    rewrite Hx.
    destruct (Z.ltb_spec (2^(W-1) + (2^(W-1) - 1 - (u - 2^(W-1)))) (2^(W-1))); lia.
Qed.

Corollary gt_total_is_key_order W a b : 1 <= W -> 0 <= a < 2^W -> 0 <= b < 2^W ->
  gt_total W a b = (fkey W b <? fkey W a).
Proof. intros. unfold gt_total. now rewrite !total_cmp_key_is_fkey. Qed.

(* the key is injective on bit patterns: the total order distinguishes -0/+0 and NaN payloads *)
Lemma fkey_inj W a b : 1 <= W -> 0 <= a < 2^W -> 0 <= b < 2^W -> fkey W a = fkey W b -> a = b.
Proof.
  intros HW Ha Hb. unfold fkey.
  assert (E : 2^W = 2 * 2^(W-1)) by (replace W with (Z.succ (W-1)) at 1 by lia; apply Z.pow_succ_r; lia).
  destruct (Z.ltb_spec a (2^(W-1))), (Z.ltb_spec b (2^(W-1))); lia.
Qed.

(* ---------------------------------------------------------------- is_nan *)
Theorem nan_bits_is_fnan W u : (W = 16 \/ W = 32 \/ W = 64) -> 0 <= u < 2^W -> nan_bits W u = fnan W u.
Proof.
  intros HW Hu. unfold nan_bits, fnan, exp_mask.
  destruct HW as [E|[E|E]]; subst W; cbn [Z.eqb Pos.eqb Z.sub Z.pos_sub Z.pred_double Pos.pred_double Z.add Z.opp];
  match goal with |- context [u mod ?p] => set (m := u mod p); assert (Hm : 0 <= m < p) by (apply Z.mod_pos_bound; reflexivity) end;
  cbv beta iota delta [Z.pow Z.pow_pos Pos.iter Z.mul Pos.mul Pos.add Pos.succ Pos.pred_double Z.sub Z.add Z.opp Z.pos_sub Z.pred_double Z.succ_double Z.double Pos.pred_N] in *.
  - set (q := m / 1024). set (r := m mod 1024).
    assert (m = 1024 * q + r /\ 0 <= r < 1024) as [Em Hr] by (split; [apply Z.div_mod; lia|apply Z.mod_pos_bound; lia]).
    destruct (Z.ltb_spec 31744 m), (Z.eqb_spec q 31), (Z.eqb_spec r 0); cbn [andb negb]; try reflexivity; lia.
  - set (q := m / 8388608). set (r := m mod 8388608).
    assert (m = 8388608 * q + r /\ 0 <= r < 8388608) as [Em Hr] by (split; [apply Z.div_mod; lia|apply Z.mod_pos_bound; lia]).
    destruct (Z.ltb_spec 2139095040 m), (Z.eqb_spec q 255), (Z.eqb_spec r 0); cbn [andb negb]; try reflexivity; lia.
  - set (q := m / 4503599627370496). set (r := m mod 4503599627370496).
    assert (m = 4503599627370496 * q + r /\ 0 <= r < 4503599627370496) as [Em Hr] by (split; [apply Z.div_mod; lia|apply Z.mod_pos_bound; lia]).
    destruct (Z.ltb_spec 9218868437227405312 m), (Z.eqb_spec q 2047), (Z.eqb_spec r 0); cbn [andb negb]; try reflexivity; lia.
Qed.

(* ---------------------------------------------------------------- unsigned through as_u64 *)
(* a UInt32/UInt64 logical value u is stored as the signed reinterpretation; comparing through
   as_u64 (sign-extend to 64 bits, reinterpret unsigned) is the unsigned order of the logical values *)
Lemma as_u64_wrap W u : (W = 32 \/ W = 64) -> 0 <= u < 2^W ->
  as_u64 (wrap_signed W u) = if u <? 2^(W-1) then u else 2^64 - 2^W + u.
Proof.
  intros HW Hu. unfold as_u64, wrap_signed. rewrite (Z.mod_small u) by lia.
  destruct HW as [E|E]; subst W.
  - change (32 - 1) with 31. change (2^32) with 4294967296 in *. change (2^31) with 2147483648. change (2^64) with 18446744073709551616.
    destruct (Z.ltb_spec u 2147483648) as [L|L].
    + apply Z.mod_small. lia.
    + rewrite <- (Z.mod_add _ 1) by lia. rewrite Z.mod_small by lia. lia.
  - change (64 - 1) with 63. change (2^63) with 9223372036854775808. change (2^64) with 18446744073709551616 in *.
    destruct (Z.ltb_spec u 9223372036854775808) as [L|L].
    + apply Z.mod_small. lia.
    + rewrite <- (Z.mod_add _ 1) by lia. rewrite Z.mod_small by lia. lia.
Qed.

Theorem gt_unsigned_is_order W a b : (W = 32 \/ W = 64) -> 0 <= a < 2^W -> 0 <= b < 2^W ->
  gt_unsigned (wrap_signed W a) (wrap_signed W b) = (b <? a).
Proof.
  intros HW Ha Hb. unfold gt_unsigned. rewrite !as_u64_wrap by assumption.
  destruct HW as [E|E]; subst W.
  - change (32 - 1) with 31. change (2^32) with 4294967296 in *. change (2^31) with 2147483648. change (2^64) with 18446744073709551616.
    destruct (Z.ltb_spec a 2147483648), (Z.ltb_spec b 2147483648);
    (destruct (Z.ltb_spec b a); try reflexivity; first [apply Z.ltb_lt; lia|apply Z.ltb_ge; lia]).
  - change (64 - 1) with 63. change (2^63) with 9223372036854775808. change (2^64) with 18446744073709551616 in *.
    destruct (Z.ltb_spec a 9223372036854775808), (Z.ltb_spec b 9223372036854775808);
    (destruct (Z.ltb_spec b a); try reflexivity; first [apply Z.ltb_lt; lia|apply Z.ltb_ge; lia]).
Qed.
