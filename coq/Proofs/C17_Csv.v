(* C17 — CSV: the reader automaton splits the writer's text back into the records and fields that were
   written: quote doubling read by the default reader (no escape byte), or escape-style quoting read with the
   same escape byte (fields free of the escape byte); CR / LF / CRLF terminators. *)
From Coq Require Import List NArith ZArith Lia Bool Arith ZifyN ZifyNat ZifyBool.
From AV Require Import Model.C17_Csv.
Import ListNotations.
Local Open Scope N_scope.

Section Csv.
Variables d q e : N.
Variable crlf : bool.
Variable dbl : bool.                    (* true: quotes are doubled; false: escaped with e, reader escape = e *)
Hypothesis Heq : dbl = false -> e <> q.
Hypothesis Hdq : d <> q.
Hypothesis Hd10 : d <> 10.
Hypothesis Hd13 : d <> 13.
Hypothesis Hq10 : q <> 10.
Hypothesis Hq13 : q <> 13.

Definition wc := {| w_delim := d; w_quote := q; w_escape := e; w_double := dbl; w_crlf := crlf |}.
Definition rc := {| r_delim := d; r_quote := q; r_escape := if dbl then None else Some e; r_term := None |}.
(* the text is unambiguous: with escape-style quoting no field contains the escape byte *)
Definition efree (b : N) : Prop := dbl = false -> b <> e.

Notation pst := (st * list N * list (list N) * list (list (list N)))%type.
Definition run (p : pst) (input : list N) : pst := fold_left (step rc) input p.

Lemma run_app p a b : run p (a ++ b) = run (run p a) b.
Proof. unfold run. apply fold_left_app. Qed.
Lemma run_cons p b l : run p (b :: l) = run (step rc p b) l.
Proof. reflexivity. Qed.
Lemma run_nil p : run p [] = p.
Proof. reflexivity. Qed.

Definition plain (b : N) : Prop := b <> d /\ b <> q /\ b <> 13 /\ b <> 10.

Ltac cases :=
  repeat match goal with
         | |- context [N.eqb ?a ?b] => destruct (N.eqb_spec a b)
         end; cbn [orb andb negb]; try reflexivity; try lia.

Ltac open_step :=
  unfold step, start_record, start_field, end_record, is_term, is_escape; cbn [r_delim r_quote r_escape r_term rc].

Lemma requires_false b : requires_quotes wc b = false -> plain b.
Proof.
  unfold requires_quotes, plain. cbn [w_delim w_quote w_double w_escape wc].
  intros H. repeat (apply orb_false_iff in H; destruct H as [H ?]).
  repeat match goal with H : (_ =? _) = false |- _ => apply N.eqb_neq in H end. tauto.
Qed.

Lemma existsb_false_plain f : existsb (requires_quotes wc) f = false -> Forall plain f.
Proof.
  induction f as [|b f IH]; [constructor|]. cbn [existsb]. intros H.
  apply orb_false_iff in H. destruct H as [Hb Hf]. constructor; [now apply requires_false|now apply IH].
Qed.

(* ------------------------------------------------------------------ single steps *)
Lemma step_infield_plain b cur fs rows : plain b ->
  step rc (InField, cur, fs, rows) b = (InField, b :: cur, fs, rows).
Proof. intros [? [? [? ?]]]. open_step. cases. Qed.

Lemma step_start_plain s b fs rows : plain b -> (s = StartField \/ (s = StartRecord /\ fs = [])) ->
  step rc (s, [], fs, rows) b = (InField, [b], fs, rows).
Proof. intros [? [? [? ?]]] [->|[-> ->]]; open_step; cases. Qed.

Lemma step_start_quote s fs rows : (s = StartField \/ (s = StartRecord /\ fs = [])) ->
  step rc (s, [], fs, rows) q = (InQuoted, [], fs, rows).
Proof. intros [->|[-> ->]]; open_step; cases. Qed.

Lemma step_quoted b cur fs rows : b <> q -> efree b -> step rc (InQuoted, cur, fs, rows) b = (InQuoted, b :: cur, fs, rows).
Proof.
  intros ? He. unfold efree in He. open_step.
  destruct (bool_dec dbl true) as [Hd|Hd]; [rewrite Hd|apply not_true_is_false in Hd; rewrite Hd; specialize (He Hd)]; cases.
Qed.

Lemma step_quoted_q cur fs rows : step rc (InQuoted, cur, fs, rows) q = (InDoubleQ, cur, fs, rows).
Proof. open_step. cases. Qed.

Lemma step_quoted_e cur fs rows : dbl = false -> step rc (InQuoted, cur, fs, rows) e = (InEscaped, cur, fs, rows).
Proof. intros Hd. specialize (Heq Hd). open_step. rewrite Hd. cases. Qed.

Lemma step_escaped b cur fs rows : step rc (InEscaped, cur, fs, rows) b = (InQuoted, b :: cur, fs, rows).
Proof. reflexivity. Qed.

Lemma step_doubleq_q cur fs rows : step rc (InDoubleQ, cur, fs, rows) q = (InQuoted, q :: cur, fs, rows).
Proof. open_step. cases. Qed.

(* a field is over: the delimiter *)
Definition done (s : st) (cur : list N) (fs : list (list N)) : Prop :=
  s = InField \/ s = InDoubleQ \/ (s = StartField /\ cur = []) \/ (s = StartRecord /\ cur = [] /\ fs = []).

Lemma step_done_delim s cur fs rows : done s cur fs ->
  step rc (s, cur, fs, rows) d = (StartField, [], rev cur :: fs, rows).
Proof. intros [->|[->|[[-> ->]|[-> [-> ->]]]]]; open_step; cases. Qed.

(* a field is over: the record terminator; a blank line (StartRecord) is excluded *)
Definition done_t (s : st) (cur : list N) : Prop :=
  s = InField \/ s = InDoubleQ \/ (s = StartField /\ cur = []).

Lemma run_done_term s cur fs rows : done_t s cur ->
  run (s, cur, fs, rows) (terminator wc) = (StartRecord, [], [], rev (rev cur :: fs) :: rows).
Proof.
  intros H. unfold terminator. cbn [w_crlf wc]. destruct crlf.
  - rewrite run_cons.
    assert (E : step rc (s, cur, fs, rows) 13 = (AfterCR, [], [], rev (rev cur :: fs) :: rows)).
    { destruct H as [->|[->|[-> ->]]]; open_step; cases. }
    rewrite E. rewrite run_cons, run_nil. open_step. cases.
  - rewrite run_cons, run_nil. destruct H as [->|[->|[-> ->]]]; open_step; cases.
Qed.

(* ------------------------------------------------------------------ field bodies *)
Lemma run_plain f : forall cur fs rows, Forall plain f ->
  run (InField, cur, fs, rows) f = (InField, rev f ++ cur, fs, rows).
Proof.
  induction f as [|b f IH]; intros cur fs rows H; [reflexivity|].
  inversion H as [|? ? Hb Hf]; subst. rewrite run_cons, step_infield_plain by exact Hb.
  rewrite IH by exact Hf. cbn [rev]. now rewrite <- app_assoc.
Qed.

Lemma run_quoted_body f : forall cur fs rows, Forall efree f ->
  run (InQuoted, cur, fs, rows) (flat_map (quote_byte wc) f) = (InQuoted, rev f ++ cur, fs, rows).
Proof.
  induction f as [|b f IH]; intros cur fs rows Hf; [reflexivity|].
  inversion Hf as [|? ? Hb Hf']; subst.
  cbn [flat_map]. rewrite run_app. unfold quote_byte at 1. cbn [w_quote w_double w_escape wc].
  destruct (N.eqb_spec b q) as [->|Hne].
  - destruct (bool_dec dbl true) as [Hd|Hd]; [rewrite Hd|apply not_true_is_false in Hd; rewrite Hd].
    + rewrite run_cons, step_quoted_q, run_cons, step_doubleq_q, run_nil.
      rewrite IH by exact Hf'. cbn [rev]. now rewrite <- app_assoc.
    + rewrite run_cons, step_quoted_e by exact Hd. rewrite run_cons, step_escaped, run_nil.
      rewrite IH by exact Hf'. cbn [rev]. now rewrite <- app_assoc.
  - rewrite run_cons, step_quoted by assumption. rewrite run_nil.
    rewrite IH by exact Hf'. cbn [rev]. now rewrite <- app_assoc.
Qed.

(* after the text of one field: the field is complete in a state that accepts a delimiter, and - unless the
   field was written as nothing at the start of a record - a terminator *)
Lemma run_field s f fs rows : (s = StartField \/ (s = StartRecord /\ fs = [])) -> Forall efree f ->
  exists s' cur', run (s, [], fs, rows) (write_field wc f) = (s', cur', fs, rows) /\ rev cur' = f /\
                  done s' cur' fs /\ (done_t s' cur' \/ (s = StartRecord /\ write_field wc f = [])).
Proof.
  intros Hs Hef. unfold write_field.
  destruct (existsb (requires_quotes wc) f) eqn:Hq.
  - cbn [w_quote wc]. exists InDoubleQ, (rev f).
    rewrite run_cons, step_start_quote by exact Hs.
    rewrite run_app, run_quoted_body by exact Hef. rewrite app_nil_r. rewrite run_cons, step_quoted_q, run_nil.
    split; [reflexivity|]. split; [apply rev_involutive|]. split; [right; left; reflexivity|left; right; left; reflexivity].
  - apply existsb_false_plain in Hq. destruct f as [|b f].
    + exists s, []. rewrite run_nil. split; [reflexivity|]. split; [reflexivity|].
      destruct Hs as [->|[-> ->]].
      * split; [right; right; left; split; reflexivity|left; right; right; split; reflexivity].
      * split; [right; right; right; repeat split; reflexivity|right; split; reflexivity].
    + inversion Hq as [|? ? Hb Hf]; subst. exists InField, (rev f ++ [b]).
      rewrite run_cons, step_start_plain by assumption. rewrite run_plain by exact Hf.
      split; [reflexivity|]. split; [rewrite rev_app_distr, rev_involutive; reflexivity|].
      split; [left; reflexivity|left; left; reflexivity].
Qed.

(* ------------------------------------------------------------------ records *)
Lemma join_cons2 f g r : join_fields wc (f :: g :: r) = f ++ d :: join_fields wc (g :: r).
Proof. reflexivity. Qed.

Lemma run_fields : forall fields s prev rows, fields <> [] -> Forall (Forall efree) fields ->
  (s = StartField \/ (s = StartRecord /\ prev = [])) ->
  (s = StartRecord -> join_fields wc (map (write_field wc) fields) <> []) ->
  run (s, [], prev, rows) (join_fields wc (map (write_field wc) fields) ++ terminator wc)
  = (StartRecord, [], [], rev (rev fields ++ prev) :: rows).
Proof.
  induction fields as [|f fields IH]; intros s prev rows Hne Hef Hs Hnz; [contradiction|].
  inversion Hef as [|? ? Hf Hef']; subst.
  destruct fields as [|g fields].
  - cbn [map join_fields] in *. rewrite run_app.
    destruct (run_field s f prev rows Hs Hf) as [s' [cur' [Hrun [Hrev [_ Hdt]]]]].
    rewrite Hrun. destruct Hdt as [Hdt|[Hs0 Hw]].
    + rewrite run_done_term by exact Hdt. rewrite Hrev. reflexivity.
    + exfalso. apply (Hnz Hs0). exact Hw.
  - cbn [map]. rewrite join_cons2. rewrite <- app_assoc. rewrite run_app.
    destruct (run_field s f prev rows Hs Hf) as [s' [cur' [Hrun [Hrev [Hd _]]]]].
    rewrite Hrun. cbn [app]. rewrite run_cons, step_done_delim by exact Hd. rewrite Hrev.
    change (join_fields wc (write_field wc g :: map (write_field wc) fields)) with (join_fields wc (map (write_field wc) (g :: fields))).
    rewrite IH; [|discriminate|exact Hef'|left; reflexivity|discriminate].
    f_equal. f_equal. cbn [rev]. rewrite <- !app_assoc. reflexivity.
Qed.

Lemma run_record fields rows : fields <> [] -> Forall (Forall efree) fields ->
  run (StartRecord, [], [], rows) (write_record wc fields) = (StartRecord, [], [], fields :: rows).
Proof.
  intros Hne Hef. unfold write_record.
  destruct (join_fields wc (map (write_field wc) fields)) as [|b body] eqn:Hj.
  - (* the record wrote nothing: it is one empty field, written as two quotes *)
    assert (Hf : fields = [[]]).
    { destruct fields as [|f [|g fields]]; [contradiction| |].
      - cbn [map join_fields] in Hj. unfold write_field in Hj.
        destruct (existsb (requires_quotes wc) f); [discriminate|]. now subst f.
      - cbn [map] in Hj. rewrite join_cons2 in Hj. destruct (write_field wc f); discriminate. }
    subst fields. cbn [w_quote wc app].
    rewrite run_cons, step_start_quote by (right; split; reflexivity).
    rewrite run_cons, step_quoted_q.
    rewrite run_done_term by (right; left; reflexivity). reflexivity.
  - rewrite <- Hj. rewrite run_fields; [|exact Hne|exact Hef|right; split; reflexivity|intros _; rewrite Hj; discriminate].
    rewrite app_nil_r, rev_involutive. reflexivity.
Qed.

Lemma run_rows : forall rows done_rows, Forall (fun r => r <> []) rows -> Forall (Forall (Forall efree)) rows ->
  run (StartRecord, [], [], done_rows) (write_rows wc rows) = (StartRecord, [], [], rev rows ++ done_rows).
Proof.
  induction rows as [|r rows IH]; intros done_rows H He; [reflexivity|].
  inversion H as [|? ? Hr Hrows]; subst. inversion He as [|? ? Her Herows]; subst.
  unfold write_rows. cbn [flat_map]. rewrite run_app. rewrite run_record by assumption.
  fold (write_rows wc rows). rewrite IH by assumption. cbn [rev]. now rewrite <- app_assoc.
Qed.

Theorem split_write_rows_gen rows : Forall (fun r => r <> []) rows -> Forall (Forall (Forall efree)) rows ->
  split rc (write_rows wc rows) = rows.
Proof.
  intros H He. unfold split. fold (run (StartRecord, [], [], []) (write_rows wc rows)).
  rewrite run_rows by assumption. cbn [finish]. rewrite app_nil_r. apply rev_involutive.
Qed.
End Csv.

(* quote doubling, default reader *)
Theorem split_write_rows d q e crlf : d <> q -> d <> 10 -> d <> 13 -> q <> 10 -> q <> 13 ->
  forall rows, Forall (fun r => r <> []) rows -> split (rc d q e true) (write_rows (wc d q e crlf true) rows) = rows.
Proof.
  intros ? ? ? ? ? rows H. apply split_write_rows_gen; try assumption; [discriminate|].
  apply Forall_forall. intros r _. apply Forall_forall. intros f _. apply Forall_forall. intros b _. unfold efree. discriminate.
Qed.

(* escape-style quoting read back with the same escape byte, for fields that do not contain it *)
Theorem split_write_rows_escaped d q e crlf : d <> q -> d <> 10 -> d <> 13 -> q <> 10 -> q <> 13 -> e <> q ->
  forall rows, Forall (fun r => r <> []) rows -> Forall (Forall (Forall (fun b => b <> e))) rows ->
  split (rc d q e false) (write_rows (wc d q e crlf false) rows) = rows.
Proof.
  intros ? ? ? ? ? Heq rows H He. apply split_write_rows_gen; try assumption; [intros _; exact Heq|].
  eapply Forall_impl; [|exact He]. intros r Hr. eapply Forall_impl; [|exact Hr]. intros f Hf.
  eapply Forall_impl; [|exact Hf]. intros b Hb _. exact Hb.
Qed.

(* non-vacuity: fields with delimiters, quotes, CR, LF, CRLF, empty fields, a record of one empty field *)
Example ex_rows :
  let rows := [[[97; 44; 98]; []; [34]]; [[]]; [[]; [13; 10]; [120]]; [[10]; []; []]; [[34; 34; 44]]] in
  Forall (fun r : list (list N) => r <> []) rows /\
  split (rc 44 34 92 true) (write_rows (wc 44 34 92 true true) rows) = rows /\
  split (rc 44 34 92 true) (write_rows (wc 44 34 92 false true) rows) = rows /\
  split (rc 44 34 92 false) (write_rows (wc 44 34 92 false false) rows) = rows.
Proof. cbv zeta. split; [repeat constructor; discriminate|repeat split; vm_compute; reflexivity]. Qed.
