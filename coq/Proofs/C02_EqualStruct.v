(* C02 — arrow-data's struct_equal (Struct ArrayData with offset 0, the form StructArray::to_data
   produces), compositional: IF comparing each pair of field arrays on every range decides equality of
   the windows of their logical columns, THEN struct_equal (whole-range path and per-slot path) holds
   exactly when every valid slot has the same field values on both sides. *)
From Coq Require Import List Arith NArith ZArith Bool Lia.
From AV Require Import Base.ListX Base.Bits Base.Bytes Model.C19_Bits Model.C09_Layout Model.C02_Logical Model.C02_Equal.
From AV Require Import Proofs.C02_Slice Proofs.C02_EqualNulls Proofs.C02_EqualPrim Proofs.C02_EqualList Proofs.C02_EqualListPrim.
Import ListNotations.

Definition range_ok (ka kb : parr) : Prop :=
  forall s1 s2 m, s1 + m <= p_len ka -> s2 + m <= p_len kb ->
    (equal_nulls ka kb s1 s2 m && equal_values ka kb s1 s2 m = true
     <-> window (logical ka) s1 m = window (logical kb) s2 m).

Fixpoint children_go (xs ys : list parr) (s1 s2 m : nat) : bool :=
  match xs, ys with
  | ka :: xs', kb :: ys' => equal_nulls ka kb s1 s2 m && equal_values ka kb s1 s2 m && children_go xs' ys' s1 s2 m
  | _, _ => true
  end.

Lemma children_go_iff xs : forall ys s1 s2 m,
  Forall2 range_ok xs ys ->
  Forall (fun k => s1 + m <= p_len k) xs -> Forall (fun k => s2 + m <= p_len k) ys ->
  (children_go xs ys s1 s2 m = true
   <-> forall i, i < m -> map (fun k => logical_at k (s1 + i)) xs = map (fun k => logical_at k (s2 + i)) ys).
Proof.
  induction xs as [|ka xs IH]; intros ys s1 s2 m H2 Hx Hy.
  - inversion H2; subst. cbn [children_go map]. split; [reflexivity | reflexivity].
  - inversion H2 as [|? kb ? ys' Hok H2']; subst. inversion Hx as [|? ? Hxa Hx']; subst. inversion Hy as [|? ? Hyb Hy']; subst.
    cbn [children_go map]. rewrite !andb_true_iff, <- andb_true_iff, (Hok s1 s2 m Hxa Hyb), (IH ys' s1 s2 m H2' Hx' Hy').
    rewrite !window_logical by assumption. rewrite map_seq_ext_iff.
    split.
    + intros [Ha Hr] i Hi. now rewrite (Ha i Hi), (Hr i Hi).
    + intros H. split; intros i Hi; specialize (H i Hi); injection H; tauto.
Qed.

Lemma forallb_ext' {A} (f g : A -> bool) l : (forall x, f x = g x) -> forallb f l = forallb g l.
Proof. intros H. induction l as [|x l IH]; [reflexivity|]. cbn [forallb]. now rewrite H, IH. Qed.

Section StructEq.
  Variables (fs : list (bool * dty)) (alen : nat) (anulls : option nullbuf) (abufs : list (list N)) (akids : list parr).
  Variable b : parr.
  Let a := PArr (TStruct fs) alen 0 anulls abufs akids.
  Hypothesis Hboff : p_off b = 0.
  Hypothesis child_ok : Forall2 range_ok akids (p_kids b).

  Lemma equal_values_struct_unfold ls rs n :
    equal_values a b ls rs n =
    if negb (contains_nulls anulls ls n) then children_go akids (p_kids b) ls rs n
    else match anulls, p_nulls b with
         | Some ln, Some rn =>
             forallb (fun i => let lnull := is_null_at ln (ls + i) in let rnull := is_null_at rn (rs + i) in
                               if negb (Bool.eqb lnull rnull) then false else lnull || children_go akids (p_kids b) (ls + i) (rs + i) 1)
                     (seq 0 n)
         | _, _ => false
         end.
  Proof.
    unfold a. cbn [equal_values].
    assert (Hgo : forall xs ys s1 s2 m,
              (fix go (xs ys : list parr) : bool :=
                 match xs, ys with
                 | ka :: xs', kb :: ys' => equal_nulls ka kb s1 s2 m && equal_values ka kb s1 s2 m && go xs' ys'
                 | _, _ => true end) xs ys = children_go xs ys s1 s2 m).
    { induction xs as [|ka xs IH]; intros [|kb ys] s1 s2 m; cbn [children_go]; try reflexivity. now rewrite IH. }
    rewrite Hgo. destruct (contains_nulls anulls ls n); cbn [negb]; [|reflexivity].
    destruct anulls as [ln|]; [|reflexivity]. destruct (p_nulls b) as [rn|]; [|reflexivity].
    apply forallb_ext'. intros i. cbn zeta. now rewrite Hgo.
  Qed.

  Theorem struct_equal_iff ls rs n :
    Forall (fun k => ls + n <= p_len k) akids -> Forall (fun k => rs + n <= p_len k) (p_kids b) ->
    (forall i, i < n -> slot_valid a (ls + i) = slot_valid b (rs + i)) ->
    (equal_values a b ls rs n = true
     <-> forall i, i < n -> slot_valid a (ls + i) = true ->
           map (fun k => logical_at k (ls + i)) akids = map (fun k => logical_at k (rs + i)) (p_kids b)).
  Proof.
    intros Hx Hy Hv. rewrite equal_values_struct_unfold.
    destruct (contains_nulls anulls ls n) eqn:Ec; cbn [negb].
    - assert (Hex : ~ (forall i, i < n -> valid_in anulls (ls + i) = true))
        by (intros H; apply contains_nulls_false_iff in H; congruence).
      destruct anulls as [ln|] eqn:Ean; [|exfalso; apply Hex; intros; reflexivity].
      destruct (p_nulls b) as [rn|] eqn:Ebn.
      2:{ exfalso. apply Hex. intros i Hi. specialize (Hv i Hi). unfold slot_valid in Hv. rewrite Ebn in Hv. exact Hv. }
      assert (Hva : forall j, slot_valid a j = nb_valid ln j) by reflexivity.
      assert (Hvb : forall j, slot_valid b j = nb_valid rn j) by (intros; unfold slot_valid; now rewrite Ebn).
      assert (Hone : forall i, i < n ->
                (children_go akids (p_kids b) (ls + i) (rs + i) 1 = true
                 <-> map (fun k => logical_at k (ls + i)) akids = map (fun k => logical_at k (rs + i)) (p_kids b))).
      { intros i Hi. rewrite (children_go_iff akids (p_kids b) (ls + i) (rs + i) 1 child_ok).
        - split; [intros H; specialize (H 0 ltac:(lia)); now rewrite !Nat.add_0_r in H | intros H k Hk; replace k with 0 by lia; now rewrite !Nat.add_0_r].
        - eapply Forall_impl; [|exact Hx]. cbn beta. intros k Hk. lia.
        - eapply Forall_impl; [|exact Hy]. cbn beta. intros k Hk. lia. }
      rewrite forallb_seq_iff. split; intros H i Hi; specialize (H i Hi).
      + intros Hval. cbn zeta in H. unfold is_null_at in H. rewrite <- Hva, <- Hvb, <- (Hv i Hi), Hval in H.
        cbn [negb orb Bool.eqb] in H. now apply (Hone i Hi).
      + cbn zeta. unfold is_null_at. rewrite <- Hva, <- Hvb, <- (Hv i Hi).
        destruct (slot_valid a (ls + i)) eqn:Hval; cbn [negb orb Bool.eqb]; [|reflexivity].
        apply (Hone i Hi). now apply H.
    - pose proof (proj1 (contains_nulls_false_iff _ _ _) Ec) as Hall.
      rewrite (children_go_iff akids (p_kids b) ls rs n child_ok Hx Hy).
      split; intros H i Hi; [intros _; now apply H | apply H; [exact Hi | exact (Hall i Hi)]].
  Qed.
End StructEq.
