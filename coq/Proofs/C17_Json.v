(* C17 — JSON strings: the reader's unescape inverts the writer's escape on every byte string, and decodes
   \uXXXX escapes (surrogate pairs included) of every scalar value, under the RFC combination and under
   the combination written in tape.rs (which is the RFC one since the repair c21c3ff). *)
From Coq Require Import List NArith ZArith Lia Bool ZifyN ZifyNat ZifyBool.
From AV Require Import Base.Bits Base.Utf8 Model.C17_Json Proofs.C17_Varint.
Import ListNotations.
Local Open Scope N_scope.
Ltac Zify.zify_post_hook ::= Z.div_mod_to_equations.

Section Go.
Variable comb : N -> N -> N.

(* one escaped byte is consumed and pushed *)
Lemma step_small b tail acc : b < 32 \/ b = 34 \/ b = 92 ->
  unescape_go comb (escape_byte b ++ tail) acc = unescape_go comb tail (b :: acc).
Proof.
  intros H.
  assert (E : b = 0 \/ b = 1 \/ b = 2 \/ b = 3 \/ b = 4 \/ b = 5 \/ b = 6 \/ b = 7 \/ b = 8 \/ b = 9 \/ b = 10 \/
              b = 11 \/ b = 12 \/ b = 13 \/ b = 14 \/ b = 15 \/ b = 16 \/ b = 17 \/ b = 18 \/ b = 19 \/ b = 20 \/
              b = 21 \/ b = 22 \/ b = 23 \/ b = 24 \/ b = 25 \/ b = 26 \/ b = 27 \/ b = 28 \/ b = 29 \/ b = 30 \/
              b = 31 \/ b = 34 \/ b = 92) by lia.
  repeat (destruct E as [E|E]; [subst b; reflexivity|]). subst b. reflexivity.
Qed.

Lemma step_plain b tail acc : 32 <= b -> b <> 34 -> b <> 92 ->
  unescape_go comb (escape_byte b ++ tail) acc = unescape_go comb tail (b :: acc).
Proof.
  intros H1 H2 H3. unfold escape_byte.
  destruct (N.eqb_spec b 34) as [?|_]; [lia|]. destruct (N.eqb_spec b 92) as [?|_]; [lia|].
  destruct (N.eqb_spec b 8) as [?|_]; [lia|]. destruct (N.eqb_spec b 9) as [?|_]; [lia|].
  destruct (N.eqb_spec b 10) as [?|_]; [lia|]. destruct (N.eqb_spec b 12) as [?|_]; [lia|].
  destruct (N.eqb_spec b 13) as [?|_]; [lia|]. destruct (N.ltb_spec b 32) as [?|_]; [lia|].
  cbn [app unescape_go].
  destruct (N.eqb_spec b 34) as [?|_]; [lia|]. destruct (N.eqb_spec b 92) as [?|_]; [lia|]. reflexivity.
Qed.

Lemma step_byte b tail acc :
  unescape_go comb (escape_byte b ++ tail) acc = unescape_go comb tail (b :: acc).
Proof.
  destruct (N.lt_ge_cases b 32) as [H|H]; [apply step_small; lia|].
  destruct (N.eq_dec b 34) as [E|E]; [apply step_small; lia|].
  destruct (N.eq_dec b 92) as [E'|E']; [apply step_small; lia|].
  now apply step_plain.
Qed.

Lemma unescape_go_escape s : forall rest acc,
  unescape_go comb (escape s ++ 34 :: rest) acc = Some (rev acc ++ s, rest).
Proof.
  induction s as [|b s IH]; intros rest acc.
  - cbn [escape flat_map app unescape_go]. change (34 =? 34) with true. cbv iota. now rewrite app_nil_r.
  - change (escape (b :: s)) with (escape_byte b ++ escape s). rewrite <- app_assoc.
    rewrite step_byte, IH. cbn [rev]. now rewrite <- app_assoc.
Qed.
End Go.

(* the writer's text, closing quote, anything after it: the reader returns the string and the rest *)
Theorem unescape_escape_any comb s rest : unescape comb (escape s ++ 34 :: rest) = Some (s, rest).
Proof. unfold unescape. now rewrite unescape_go_escape. Qed.

(* ------------------------------------------------------------------ \u escapes *)
Lemma parse_hex_uc n : n < 16 -> parse_hex (hex_digit_uc n) = Some n.
Proof.
  intros H.
  assert (E : n = 0 \/ n = 1 \/ n = 2 \/ n = 3 \/ n = 4 \/ n = 5 \/ n = 6 \/ n = 7 \/ n = 8 \/ n = 9 \/ n = 10 \/
              n = 11 \/ n = 12 \/ n = 13 \/ n = 14 \/ n = 15) by lia.
  repeat (destruct E as [E|E]; [subst n; reflexivity|]). subst n. reflexivity.
Qed.

Lemma lor_nibble x y : y < 16 -> N.lor (N.shiftl x 4) y = x * 16 + y.
Proof.
  intros Hy. rewrite N.lor_comm. rewrite lor_shift_add by (change (2^4) with 16; exact Hy).
  change (2^4) with 16. lia.
Qed.

Lemma hex4_u_escape u : u < 65536 ->
  hex4 (hex_digit_uc (u / 4096)) (hex_digit_uc ((u / 256) mod 16)) (hex_digit_uc ((u / 16) mod 16)) (hex_digit_uc (u mod 16)) = Some u.
Proof.
  intros Hu. unfold hex4.
  rewrite !parse_hex_uc by lia.
  rewrite !lor_nibble by lia. f_equal. lia.
Qed.

Section Pairs.
Variable comb : N -> N -> N.

Lemma step_u16 u tail acc : u < 65536 -> is_bmp_char u = true ->
  unescape_go comb (u_escape16 u ++ tail) acc = unescape_go comb tail (rev (encode u) ++ acc).
Proof.
  intros Hu Hb. unfold u_escape16. cbn [app unescape_go].
  change (92 =? 34) with false. change (92 =? 92) with true. change (117 =? 117) with true. cbv iota.
  rewrite hex4_u_escape by exact Hu. now rewrite Hb.
Qed.

Lemma step_pair c tail acc : 65536 <= c -> c <= 1114111 ->
  comb (55296 + (c - 65536) / 1024) (56320 + (c - 65536) mod 1024) = c ->
  unescape_go comb (u_escape c ++ tail) acc = unescape_go comb tail (rev (encode c) ++ acc).
Proof.
  intros Hlo Hhi Hc. unfold u_escape. destruct (N.ltb_spec c 65536) as [?|_]; [lia|].
  set (high := 55296 + (c - 65536) / 1024). set (low := 56320 + (c - 65536) mod 1024).
  assert (Hh : 55296 <= high <= 56319) by (unfold high; lia).
  assert (Hl : 56320 <= low <= 57343) by (unfold low; lia).
  rewrite <- app_assoc. unfold u_escape16 at 1. cbn [app unescape_go].
  change (92 =? 34) with false. change (92 =? 92) with true. change (117 =? 117) with true. cbv iota.
  rewrite hex4_u_escape by lia.
  replace (is_bmp_char high) with false
    by (unfold is_bmp_char; destruct (N.leb_spec 55296 high); destruct (N.leb_spec high 57343); try reflexivity; lia).
  unfold u_escape16. cbn [app].
  change ((92 =? 92) && (117 =? 117)) with true. cbv iota.
  rewrite hex4_u_escape by lia.
  unfold surrogate_pair.
  destruct (N.leb_spec 56320 low); [|lia]. destruct (N.leb_spec low 57343); [|lia].
  destruct (N.leb_spec 55296 high); [|lia]. destruct (N.leb_spec high 56319); [|lia].
  cbn [andb]. fold high low in Hc. rewrite Hc.
  replace (scalar c) with true; [reflexivity|].
  unfold scalar. destruct (N.ltb_spec c 55296); [lia|]. destruct (N.ltb_spec 57343 c); [|lia].
  destruct (N.leb_spec c 1114111); [reflexivity|lia].
Qed.
End Pairs.

Lemma scalar_bounds c : scalar c = true -> (c < 55296 \/ 57343 < c) /\ c <= 1114111.
Proof.
  unfold scalar. destruct (N.ltb_spec c 55296); destruct (N.ltb_spec 57343 c); destruct (N.leb_spec c 1114111); cbn; intros; try discriminate; lia.
Qed.

(* S: every scalar value, written as \uXXXX or as a surrogate pair, is decoded to its UTF-8 bytes *)
Theorem u_escape_spec c tail acc : scalar c = true ->
  unescape_go sp_spec (u_escape c ++ tail) acc = unescape_go sp_spec tail (rev (encode c) ++ acc).
Proof.
  intros Hs. destruct (scalar_bounds c Hs) as [Hr Hm].
  destruct (N.lt_ge_cases c 65536) as [Hlt|Hge].
  - unfold u_escape. destruct (N.ltb_spec c 65536) as [_|?]; [|lia].
    apply step_u16; [exact Hlt|].
    unfold is_bmp_char. destruct (N.leb_spec 55296 c); destruct (N.leb_spec c 57343); try reflexivity; lia.
  - apply step_pair; [exact Hge|exact Hm|]. unfold sp_spec. lia.
Qed.

(* M: the combination of tape.rs equals the RFC one *)
Lemma sp_combine_ok high low : sp_combine high low = sp_spec high low.
Proof. unfold sp_combine, sp_spec. rewrite N.shiftl_mul_pow2. change (2^10) with 1024. lia. Qed.

Theorem u_escape_impl c tail acc : scalar c = true ->
  unescape_go sp_combine (u_escape c ++ tail) acc = unescape_go sp_combine tail (rev (encode c) ++ acc).
Proof.
  intros Hs. destruct (scalar_bounds c Hs) as [Hr Hm].
  destruct (N.lt_ge_cases c 65536) as [Hlt|Hge].
  - unfold u_escape. destruct (N.ltb_spec c 65536) as [_|?]; [|lia].
    apply step_u16; [exact Hlt|].
    unfold is_bmp_char. destruct (N.leb_spec 55296 c); destruct (N.leb_spec c 57343); try reflexivity; lia.
  - apply step_pair; [exact Hge|exact Hm|]. rewrite sp_combine_ok. unfold sp_spec. lia.
Qed.

(* non-vacuity: U+20000 (high surrogate D840, bit 6 of the offset set) *)
Example u_escape_impl_20000 : unescape sp_combine (u_escape 131072 ++ [34]) = Some (encode 131072, []).
Proof. reflexivity. Qed.

(* ------------------------------------------------------------------ code point lists *)
Theorem string_value_escape comb cps : Forall (fun c => scalar c = true) cps ->
  string_value comb (escape (flat_map encode cps) ++ [34]) = Some (flat_map encode cps).
Proof.
  intros H. unfold string_value. rewrite unescape_escape_any.
  unfold valid_utf8. now rewrite (decode_all_encode cps H _ (le_n _)).
Qed.

(* non-vacuity: quote, backslash, controls, DEL, two-, three- and four-byte characters *)
Example ex_string : string_value sp_combine (escape (flat_map encode [34; 92; 0; 10; 31; 127; 233; 8364; 65533; 128512; 131072; 1114111]) ++ [34])
  = Some (flat_map encode [34; 92; 0; 10; 31; 127; 233; 8364; 65533; 128512; 131072; 1114111]).
Proof. vm_compute. reflexivity. Qed.
