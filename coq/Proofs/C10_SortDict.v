(* C10 — sort_impl with any set of (logical) nulls split off, and sort_dictionary through value ranks:
   the output is accepted by the sort predicate for the comparator on LOGICAL values, also when valid keys
   point at null dictionary values. *)
From Coq Require Import List ZArith Lia Bool Arith Permutation.
From AV Require Import Base.ListX Model.C10_Order Model.C10_Sort Model.C10_Rank Model.C10_Dict.
From AV Require Import Proofs.C10_Cmp Proofs.C10_Sort Proofs.C10_SortImpl Proofs.C10_Rank.
Import ListNotations.

Section Gen.
  Context {V : Type}.
  Variable so : (nat * V -> nat * V -> comparison) -> list (nat * V) -> list (nat * V).
  Variable se : (nat * V -> nat * V -> comparison) -> nat -> list (nat * V) -> list (nat * V).
  Hypothesis Hso : sort_contract so.
  Hypothesis Hse : select_contract se.
  Hypothesis Hsoe : sort_ext so.
  Hypothesis Hsee : select_ext se.

  Variable vc : V -> V -> comparison.
  Variable value : nat -> V.
  Variable a : list oval.
  Variable nf desc : bool.
  Variable vs nl : list nat.
  Hypothesis Hperm : Permutation (nl ++ vs) (seq 0 (length a)).
  Hypothesis Hnl : forall i, In i nl -> slot a i = None.
  (* the tuples' comparison, reversed when descending, is the slot comparator on the retained rows *)
  Hypothesis Hvc : forall i j, In i vs -> In j vs ->
    rev_if desc (vc (value i) (value j)) = cmp_opts nf desc (slot a i) (slot a j).

  Let n := length a.
  Let cR := fun i j => cmp_opts nf desc (slot a i) (slot a j).
  Let valids := map (fun i => (i, value i)) vs.
  Let c' := fun p q : nat * V => rev_if desc (vc (snd p) (snd q)).
  Let c'' := fun p q : nat * V => cR (fst p) (fst q).

  Lemma g_c''_tpo : tpo c''.
  Proof. unfold c'', cR. apply (tpo_on (fun p : nat * V => slot a (fst p))). apply cmp_opts_tpo. Qed.

  Lemma g_c'_c'' x y : In x valids -> In y valids -> c' x y = c'' x y.
  Proof.
    intros Hx Hy. apply in_map_iff in Hx, Hy. destruct Hx as (i & <- & Hi). destruct Hy as (j & <- & Hj).
    unfold c', c'', cR. cbn [fst snd]. now apply Hvc.
  Qed.

  Lemma g_sub_ext k : k <= length valids ->
    sort_unstable_by so se c' k valids = sort_unstable_by so se c'' k valids.
  Proof.
    intros Hk. unfold sort_unstable_by. destruct (length valids =? k); [apply Hsoe; apply g_c'_c''|].
    unfold partial_sort. destruct k as [|m]; [reflexivity|].
    rewrite (Hsee c' c'' m valids g_c'_c'').
    assert (Hm : m < length valids) by lia.
    destruct (Hse c'' m valids g_c''_tpo Hm) as [P _]. f_equal. apply Hsoe.
    intros x y Hx Hy. apply g_c'_c''; apply (Permutation_in _ P); eapply In_firstn; eassumption.
  Qed.

  Lemma none_le (d : bool) (o : oval) : cmp_opts true d None o <> Gt /\ cmp_opts false d o None <> Gt.
  Proof. destruct o; cbn; split; congruence. Qed.

  Theorem sort_impl_check_gen limit :
    sort_check (cmp_opts nf desc) a limit (sort_impl so se nf desc valids nl limit vc) = 1%Z.
  Proof.
    assert (Lvs : length valids = length vs) by apply map_length.
    assert (Ln : length vs + length nl = n).
    { pose proof (Permutation_length Hperm) as H. rewrite app_length, seq_length in H. unfold n. lia. }
    unfold sort_impl.
    set (v_limit := match limit, nf with Some l, true => Nat.min (l - length nl) (length valids) | _, _ => length valids end).
    assert (Hvl : v_limit <= length valids) by (unfold v_limit; destruct limit, nf; lia).
    fold c'. rewrite (g_sub_ext v_limit Hvl).
    destruct (sort_unstable_by_spec so se Hso Hse c'' v_limit valids g_c''_tpo Hvl) as [P LA].
    set (sorted := sort_unstable_by so se c'' v_limit valids) in *.
    set (sidx := map fst sorted).
    assert (Psidx : Permutation sidx vs).
    { unfold sidx. rewrite P. unfold valids. rewrite map_map. cbn. rewrite map_id. reflexivity. }
    assert (LAidx : le_after cR v_limit sidx).
    { unfold sidx. apply (proj1 (le_after_map fst cR v_limit sorted)). exact LA. }
    assert (Lsidx : length sidx = length vs) by apply (Permutation_length Psidx).
    rewrite Lvs. replace (length vs + length nl) with n by lia.
    set (limit' := Nat.min (match limit with Some l => l | None => n end) n).
    assert (Hlim : limit' = out_len n limit) by (unfold limit', out_len; destruct limit; lia).
    assert (Hrow : forall i, i < length a -> nth_error a i = Some (slot a i)).
    { intros i Hi. unfold slot. now apply nth_error_nth'. }
    destruct nf.
    - rewrite firstn_min_app. rewrite Hlim.
      apply (sort_check_firstn (cmp_opts true desc) a (slot a) Hrow).
      + apply Permutation_trans with (nl ++ vs); [apply Permutation_app_head; exact Psidx|exact Hperm].
      + fold n. apply le_after_app.
        * apply le_after_all. intros x y Hx Hy. rewrite (Hnl x Hx), (Hnl y Hy). cbn. congruence.
        * intros x y Hx Hy. rewrite (Hnl x Hx). apply none_le.
        * apply (le_after_mono _ v_limit); [|exact LAidx].
          unfold v_limit, out_len. rewrite Lvs. destruct limit; lia.
    - rewrite firstn_app_len. rewrite Hlim.
      apply (sort_check_firstn (cmp_opts false desc) a (slot a) Hrow).
      + apply Permutation_trans with (vs ++ nl); [apply Permutation_app_tail; exact Psidx|].
        apply Permutation_trans with (nl ++ vs); [apply Permutation_app_comm|exact Hperm].
      + fold n. apply le_after_app.
        * apply (le_after_mono _ v_limit); [|exact LAidx]. unfold v_limit. rewrite Lvs. destruct limit; lia.
        * intros x y Hx Hy. rewrite (Hnl y Hy). apply none_le.
        * apply le_after_all. intros x y Hx Hy. rewrite (Hnl x Hx), (Hnl y Hy). cbn. congruence.
  Qed.
End Gen.

(* ------------------------------------------------------------------ ranks order slots like the comparator
   with options {nulls_first, ascending} *)
Lemma count_le_bound vc a v : count_le false vc a v + count_nulls a <= length a.
Proof.
  unfold count_le, count_nulls. induction a as [|o a IH]; [reflexivity|]. cbn [filter].
  destruct o as [u|]; [destruct (not_gt (rev_if false (vc u v)))|]; cbn [length]; lia.
Qed.
Lemma count_le_pos vc a v : c_refl vc -> In (Some v) a -> 1 <= count_le false vc a v.
Proof.
  intros Hr H. unfold count_le. induction a as [|o a IH]; [contradiction|]. cbn [filter]. destruct H as [->|H].
  - cbn [rev_if]. rewrite (Hr v). cbn [not_gt length]. lia.
  - specialize (IH H). destruct o as [u|]; [destruct (not_gt (rev_if false (vc u v)))|]; cbn [length]; lia.
Qed.
Lemma count_nulls_pos a : In None a -> 1 <= count_nulls a.
Proof.
  unfold count_nulls. induction a as [|o a IH]; [contradiction|]. cbn [filter]. intros [->|H]; [cbn [length]; lia|].
  specialize (IH H). destruct o; cbn [length]; lia.
Qed.

Lemma rank_order (vc : val -> val -> comparison) (nf' : bool) (a : list oval) (p q : oval) : tpo vc -> In p a -> In q a ->
  let F := fun o : oval => match o with
                           | None => if nf' then count_nulls a else length a
                           | Some v => (if nf' then count_nulls a else 0) + count_le false vc a v end in
  Nat.compare (F p) (F q) = ncmp nf' false vc p q.
Proof.
  intros Hvc Hp Hq F. pose proof Hvc as (Hr & Ha & _).
  destruct p as [u|], q as [v|]; cbn [F ncmp rev_if].
  - destruct (vc u v) eqn:E.
    + assert (X : count_le false vc a u <= count_le false vc a v) by (apply (count_le_mono vc false a u v Hvc); cbn; rewrite E; congruence).
      assert (Y : count_le false vc a v <= count_le false vc a u).
      { apply (count_le_mono vc false a v u Hvc). cbn. rewrite (Ha u v), E. cbn. congruence. }
      apply Nat.compare_eq_iff. lia.
    + pose proof (count_le_strict vc false a u v Hvc Hq E). apply Nat.compare_lt_iff. lia.
    + assert (E' : vc v u = Lt) by (rewrite (Ha u v), E; reflexivity).
      pose proof (count_le_strict vc false a v u Hvc Hp E'). apply Nat.compare_gt_iff. lia.
  - pose proof (count_le_pos vc a u Hr Hp). pose proof (count_le_bound vc a u). pose proof (count_nulls_pos a Hq).
    destruct nf'; [apply Nat.compare_gt_iff|apply Nat.compare_lt_iff]; lia.
  - pose proof (count_le_pos vc a v Hr Hq). pose proof (count_le_bound vc a v). pose proof (count_nulls_pos a Hp).
    destruct nf'; [apply Nat.compare_lt_iff|apply Nat.compare_gt_iff]; lia.
  - apply Nat.compare_refl.
Qed.

Lemma child_to_parent nf desc (p q : oval) :
  rev_if desc (ncmp (child_nf nf desc) false (vcmp (child_nf nf desc)) p q) = cmp_opts nf desc p q.
Proof. unfold cmp_opts, ocmp, child_nf. destruct nf, desc, p, q; reflexivity. Qed.

Section Dict.
  Variable so : (nat * nat -> nat * nat -> comparison) -> list (nat * nat) -> list (nat * nat).
  Variable se : (nat * nat -> nat * nat -> comparison) -> nat -> list (nat * nat) -> list (nat * nat).
  Hypothesis Hso : sort_contract so.
  Hypothesis Hse : select_contract se.
  Hypothesis Hsoe : sort_ext so.
  Hypothesis Hsee : select_ext se.

  Theorem sort_dictionary_check keys values nf desc limit :
    (forall i k, nth i keys None = Some k -> k < length values) ->
    sort_check (cmp_opts nf desc) (dict_col keys values) limit (sort_dictionary so se keys values nf desc limit) = 1%Z.
  Proof.
    intros Hk. unfold sort_dictionary. set (a := dict_col keys values).
    assert (La : length a = length keys) by (unfold a, dict_col; now rewrite map_length, seq_length).
    destruct ((length keys =? 0) || match limit with Some 0 => true | _ => false end) eqn:E.
    - unfold sort_check. cbn [length].
      assert (X : out_len (length a) limit = 0).
      { rewrite La. apply orb_true_iff in E. destruct E as [E|E].
        - apply Nat.eqb_eq in E. rewrite E. unfold out_len. destruct limit; lia.
        - destruct limit as [[|l]|]; try discriminate. reflexivity. }
      rewrite X. cbn. destruct (mark_all_succeeds [] (repeat false (length a)) (NoDup_nil _)) as [m Em]; [intros i []|].
      cbn in Em. injection Em as <-. reflexivity.
    - set (idx := seq 0 (length keys)).
      set (vs := filter (fun i => negb (key_null keys i)) idx). set (nl := filter (key_null keys) idx).
      assert (Epart : (if length nl =? 0 then (idx, []) else (vs, nl)) = (vs, nl)).
      { destruct (length nl =? 0) eqn:E0; [|reflexivity]. apply Nat.eqb_eq, length_zero_iff_nil in E0. rewrite E0. f_equal.
        unfold vs. symmetry. apply filter_all. intros x Hx. fold nl in E0. now rewrite (filter_nil_all _ _ E0 x Hx). }
      rewrite Epart.
      assert (Hslot : forall i, i < length keys -> slot a i = dict_slot keys values i).
      { intros i Hi. unfold slot, a, dict_col. now rewrite nth_map_seq. }
      apply (sort_impl_check_gen so se Hso Hse Hsoe Hsee Nat.compare
               (fun i => nth (key_of keys i) (child_rank nf desc values) 0) a nf desc vs nl).
      + rewrite La. apply filter_perm.
      + intros i Hi. apply filter_In in Hi. destruct Hi as [Hi1 Hi2]. apply in_seq in Hi1.
        rewrite Hslot by lia. unfold dict_slot. unfold key_null in Hi2. destruct (nth i keys None); [discriminate|reflexivity].
      + intros i j Hi Hj. apply filter_In in Hi, Hj. destruct Hi as [Hi1 Hi2], Hj as [Hj1 Hj2].
        apply in_seq in Hi1, Hj1. rewrite !Hslot by lia. unfold dict_slot, key_of, key_null in *.
        destruct (nth i keys None) as [k1|] eqn:E1; [|discriminate]. destruct (nth j keys None) as [k2|] eqn:E2; [|discriminate].
        pose proof (Hk i k1 E1) as B1. pose proof (Hk j k2 E2) as B2.
        rewrite <- child_to_parent. f_equal. unfold child_rank, rank_spec.
        rewrite (nth_map_lt _ values k1 0 None B1), (nth_map_lt _ values k2 0 None B2).
        apply (rank_order (vcmp (child_nf nf desc)) (child_nf nf desc) values); [apply vcmp_tpo|now apply nth_In..].
  Qed.
End Dict.

(* ------------------------------------------------------------------ lists through rank slices *)
Lemma lex_ranks vc nf' child : tpo vc -> forall l1 l2 : list oval,
  (forall o, In o l1 -> In o child) -> (forall o, In o l2 -> In o child) ->
  lex_cmp Nat.compare (map (rank_fn vc nf' child) l1) (map (rank_fn vc nf' child) l2) = lex_cmp (ncmp nf' false vc) l1 l2.
Proof.
  intros Hvc. induction l1 as [|p l1 IH]; intros [|q l2] H1 H2; try reflexivity.
  cbn [map lex_cmp].
  assert (E : Nat.compare (rank_fn vc nf' child p) (rank_fn vc nf' child q) = ncmp nf' false vc p q).
  { apply (rank_order vc nf' child p q Hvc); [apply H1|apply H2]; now left. }
  rewrite E. destruct (ncmp nf' false vc p q); try reflexivity.
  apply IH; intros o Ho; [apply H1|apply H2]; now right.
Qed.

Section ListSort.
  Variable so : (nat * list nat -> nat * list nat -> comparison) -> list (nat * list nat) -> list (nat * list nat).
  Variable se : (nat * list nat -> nat * list nat -> comparison) -> nat -> list (nat * list nat) -> list (nat * list nat).
  Hypothesis Hso : sort_contract so.
  Hypothesis Hse : select_contract se.
  Hypothesis Hsoe : sort_ext so.
  Hypothesis Hsee : select_ext se.

  Theorem sort_list_check child a nf desc limit :
    (forall i u, slot a i = Some u -> exists l, u = VList l /\ forall o, In o l -> In o child) ->
    sort_check (cmp_opts nf desc) a limit (sort_list so se child a nf desc limit) = 1%Z.
  Proof.
    intros Hl. unfold sort_list. apply (sort_to_indices_check so se Hso Hse Hsoe Hsee).
    intros i j u v Hu Hv. rewrite Hu, Hv.
    destruct (Hl i u Hu) as (l1 & -> & H1). destruct (Hl j v Hv) as (l2 & -> & H2).
    cbn [list_ranks]. rewrite vcmp_list. apply lex_ranks; [apply vcmp_tpo|exact H1|exact H2].
  Qed.
End ListSort.
