(* C19: BitChunks / BitChunkIterator refine the bit range they address. *)
From Coq Require Import List Arith NArith ZArith Lia Bool.
From AV Require Import Base.ListX Base.Bits Base.Bytes Model.C19_Bits.
Import ListNotations.
Local Open Scope N_scope.

Lemma ones64 : 2^64 - 1 = N.ones 64. Proof. reflexivity. Qed.

Lemma combine_spec cur next off i :
  cur < 2^64 -> next < 256 -> off < 8 -> i < 64 ->
  N.testbit (combine cur next off) i = N.testbit (cur + 2^64 * next) (i + off).
Proof.
  intros Hc Hn Ho Hi. unfold combine.
  rewrite testbit_add_shift by assumption.
  destruct (N.eqb_spec off 0) as [->|Hoff].
  - rewrite N.add_0_r. destruct (N.ltb_spec i 64); [reflexivity|lia].
  - rewrite N.lor_spec, N.shiftr_spec', ones64, N.land_spec, N.ones_spec_low by lia.
    rewrite andb_true_r.
    destruct (N.ltb_spec (i + off) 64) as [Hlt|Hge].
    + rewrite N.shiftl_spec_low by lia. apply orb_false_r.
    + rewrite N.shiftl_spec_high' by lia.
      rewrite (testbit_high cur 64) by (assumption || lia).
      cbn [orb]. f_equal. lia.
Qed.

(* bit j of chunk n is bit (bit_off + 64 n + j) of the buffer; the side condition is exactly the
   in-bounds condition of the extra byte read by BitChunkIterator::next *)
Theorem chunk_spec bs bit_off n j : wf_bytes bs -> bit_off < 8 -> (j < 64)%nat ->
  (8 * n + 8 + (if (bit_off =? 0)%N then 0 else 1) <= length bs)%nat ->
  N.testbit (chunk bs bit_off n) (N.of_nat j) = bit_at bs (64 * n + N.to_nat bit_off + j).
Proof.
  intros Hwf Ho Hj Hlen. unfold chunk.
  assert (Hcur : read_u64 bs (8*n) < 2^64) by (apply read_u64_bound, Hwf).
  rewrite combine_spec; try assumption; try apply nth_bound, Hwf; try lia.
  rewrite testbit_add_shift by exact Hcur.
  replace (N.of_nat j + bit_off) with (N.of_nat (j + N.to_nat bit_off)) by lia.
  destruct (N.ltb_spec (N.of_nat (j + N.to_nat bit_off)) 64) as [Hlt|Hge].
  - unfold read_u64. rewrite le_val_testbit by (apply wf_firstn_skipn, Hwf).
    rewrite bit_at_firstn_skipn by (destruct (bit_off =? 0); lia). f_equal. lia.
  - assert (Hnz : bit_off <> 0) by lia.
    apply N.eqb_neq in Hnz. rewrite Hnz in Hlen.
    unfold bit_at.
    replace (64 * n + N.to_nat bit_off + j)%nat with ((j + N.to_nat bit_off - 64) + (8 * n + 8) * 8)%nat by lia.
    rewrite Nat.div_add, Nat.mod_add by lia.
    assert (Hs : (j + N.to_nat bit_off - 64 < 8)%nat) by lia.
    rewrite Nat.div_small, Nat.mod_small by exact Hs. cbn [Nat.add].
    f_equal. lia.
Qed.

Lemma bit_at_skipn bs k i : bit_at (skipn k bs) i = bit_at bs (8 * k + i).
Proof.
  unfold bit_at. rewrite nth_skipn'.
  replace (8 * k + i)%nat with (i + k * 8)%nat by lia.
  rewrite Nat.div_add, Nat.mod_add by lia. f_equal. f_equal. lia.
Qed.

Lemma wf_skipn bs k : wf_bytes bs -> wf_bytes (skipn k bs).
Proof. apply Forall_skipn'. Qed.

(* The constructor's own assertion  ceil(off+len, 8) <= buffer.len()  is the only hypothesis. *)
Theorem bitchunks_iter_spec bs off len n j :
  wf_bytes bs -> ((off + len + 7) / 8 <= length bs)%nat ->
  (n < len / 64)%nat -> (j < 64)%nat ->
  N.testbit (nth n (bitchunks_iter (bitchunks_new bs off len)) 0) (N.of_nat j)
  = nth (64 * n + j) (bits_range bs off len) false.
Proof.
  intros Hwf Hlen Hn Hj.
  assert (Hdm := Nat.div_mod off 8 ltac:(lia)).
  assert (Hm : (off mod 8 < 8)%nat) by (apply Nat.mod_upper_bound; lia).
  assert (Hl64 := Nat.div_mod len 64 ltac:(lia)).
  assert (Hc : (off + len + 7 < 8 * length bs + 8)%nat).
  { assert (H8 := Nat.div_mod (off + len + 7) 8 ltac:(lia)).
    assert ((off + len + 7) mod 8 < 8)%nat by (apply Nat.mod_upper_bound; lia). lia. }
  unfold bitchunks_iter, bitchunks_new; cbn [bc_buf bc_bit_off bc_chunk_len bc_rem_len].
  rewrite nth_map_seq by exact Hn. cbn [Nat.add].
  rewrite chunk_spec.
  - rewrite bits_range_nth by lia. rewrite bit_at_skipn. f_equal. lia.
  - apply wf_skipn, Hwf.
  - lia.
  - exact Hj.
  - rewrite skipn_length.
    destruct (N.eqb_spec (N.of_nat (off mod 8)) 0) as [E|E]; lia.
Qed.

Corollary bitchunks_count bs off len :
  length (bitchunks_iter (bitchunks_new bs off len)) = (len / 64)%nat.
Proof. unfold bitchunks_iter, bitchunks_new; cbn. now rewrite map_length, seq_length. Qed.
