(* C09: node lemma for ListView / LargeListView. *)
From Coq Require Import List Arith NArith ZArith Lia Bool ZifyN ZifyNat ZifyBool.
From AV Require Import Base.ListX Base.Bytes Model.C19_Bits Model.C09_Layout Model.C09_Validate Proofs.C09_Tree Proofs.C09_Accept Proofs.C09_Nodes.
Import ListNotations.
Ltac Zify.zify_post_hook ::= Z.div_mod_to_equations.

Lemma typed_buffer_ok_size a idx len w : typed_buffer_ok a idx (N.of_nat len) w = true ->
  ((p_off a + len) * w <= length (buf a idx))%nat.
Proof.
  unfold typed_buffer_ok.
  destruct (checked_add (N.of_nat len) (N.of_nat (p_off a))) as [req|] eqn:E1; [|discriminate].
  destruct (checked_mul req (N.of_nat w)) as [bytes|] eqn:E2; [|discriminate].
  intros H. apply N.leb_le in H. apply checked_add_some in E1. apply checked_mul_some in E2. unfold blen in H. nia.
Qed.

Lemma acc_TListView large nullable c len off nulls bufs kids :
  let a := PArr (TListView large nullable c) len off nulls bufs kids in
  phys a = true -> node_ok a = true -> spec_node a && spec_nullability a = true.
Proof.
  start. cbn [length orb] in *. open_spec.
  match goal with H : validate_offsets_and_sizes _ _ _ = true |- _ => unfold validate_offsets_and_sizes in H; split_andb end.
  repeat match goal with H : typed_buffer_ok _ _ _ _ = true |- _ => apply typed_buffer_ok_size in H end.
  cbn [p_off p_len] in *.
  conj; try reflexivity; try assumption; try (usize_goal Elpo); try nulls_goal.
  - apply Nat.leb_le. lia.
  - apply Nat.leb_le. lia.
  - match goal with H : forallb _ (seq 0 len) = true |- _ => rename H into Hfa end.
    rewrite forallb_forall in Hfa. apply forallb_forall. intros i Hi. specialize (Hfa i Hi).
    cbn [p_off] in Hfa. split_andb. conj; try assumption.
    apply Z.leb_le. match goal with H : (_ + _ <=? _)%Z = true |- _ => apply Z.leb_le in H end. lia.
Qed.
