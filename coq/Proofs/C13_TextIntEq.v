(* C13 — the integer parser of arrow-cast (parser_primitive!: conditional trimming, two atoi attempts,
   checked digit accumulation that keeps consuming after an overflow) equals, on EVERY byte string,
   the specification reader: trim ASCII whitespace, optional sign, one or more digits, value in range. *)
From Coq Require Import List ZArith Bool Lia.
From AV Require Import Model.C13_Num Model.C13_Decimal Model.C13_Text Proofs.C13_TextInt Proofs.C13_TextDec.
Import ListNotations.
Local Open Scope Z_scope.

(* ---- trimming *)
Lemma drop_while_all : forall p l, forallb p l = true -> drop_while p l = [].
Proof. induction l as [|b r IH]; intros H; [reflexivity|]. cbn in *. apply andb_true_iff in H. destruct H as [Hb Hr]. rewrite Hb. auto. Qed.

Lemma last_is_digit_app : forall l b, last_is_digit (l ++ [b]) = is_digit b.
Proof. intros. unfold last_is_digit. rewrite rev_app_distr. reflexivity. Qed.

Lemma digit_not_ws : forall b, is_digit b = true -> is_ascii_ws b = false.
Proof.
  intros b H. unfold is_digit in H. apply andb_true_iff in H. destruct H as [L U]. apply Z.leb_le in L, U.
  unfold is_ascii_ws.
  assert (E1 : (b =? 32) = false) by (apply Z.eqb_neq; lia).
  assert (E2 : (b =? 9) = false) by (apply Z.eqb_neq; lia).
  assert (E3 : (b =? 10) = false) by (apply Z.eqb_neq; lia).
  assert (E4 : (b =? 12) = false) by (apply Z.eqb_neq; lia).
  assert (E5 : (b =? 13) = false) by (apply Z.eqb_neq; lia).
  rewrite E1, E2, E3, E4, E5. reflexivity.
Qed.

Lemma trim_end_last_nonws : forall l b, is_ascii_ws b = false -> trim_end is_ascii_ws (l ++ [b]) = l ++ [b].
Proof.
  intros l b H. unfold trim_end. rewrite rev_app_distr. cbn [rev app drop_while]. rewrite H.
  cbn [rev]. rewrite rev_involutive. reflexivity.
Qed.

(* the result of trim_end is empty or ends with a non-whitespace byte *)
Lemma trim_end_shape : forall l, trim_end is_ascii_ws l = [] \/ exists l' b, trim_end is_ascii_ws l = l' ++ [b] /\ is_ascii_ws b = false.
Proof.
  intros l. unfold trim_end.
  assert (H : forall m, drop_while is_ascii_ws m = [] \/ exists b r, drop_while is_ascii_ws m = b :: r /\ is_ascii_ws b = false).
  { induction m as [|b r IH]; [left; reflexivity|]. cbn. destruct (is_ascii_ws b) eqn:E; [exact IH|]. right. exists b, r. split; [reflexivity|assumption]. }
  destruct (H (rev l)) as [E|(b & r & E & Hb)].
  - left. rewrite E. reflexivity.
  - right. exists (rev r), b. rewrite E. cbn [rev]. split; [reflexivity|assumption].
Qed.

(* the raw bytes parser_primitive! works on are exactly trim_end s *)
Lemma raw_is_trim_end : forall s,
  (if last_is_digit s then s else trim_end is_ascii_ws s) = trim_end is_ascii_ws s.
Proof.
  intros s. destruct (last_is_digit s) eqn:E; [|reflexivity].
  destruct (rev s) as [|b r] eqn:R.
  - unfold last_is_digit in E. rewrite R in E. discriminate.
  - assert (Es : s = rev r ++ [b]) by (rewrite <- (rev_involutive s), R; reflexivity).
    unfold last_is_digit in E. rewrite R in E. rewrite Es. symmetry. apply trim_end_last_nonws. apply digit_not_ws. assumption.
Qed.

(* ---- atoi on a run of digits: a fold with checked steps *)
Definition astep (bits : Z) (sg neg : bool) (acc : option Z) (c : Z) : option Z :=
  obind acc (fun n => num_cast bits sg (if neg then n * 10 - (c - ZERO) else n * 10 + (c - ZERO))).

Lemma atoi_digits_run : forall bits sg neg cs acc used, forallb is_digit cs = true ->
  atoi_digits bits sg neg cs acc used = (fold_left (astep bits sg neg) cs acc, used + Z.of_nat (length cs)).
Proof.
  intros bits sg neg cs. induction cs as [|c r IH]; intros acc used H.
  - cbn. rewrite Z.add_0_r. reflexivity.
  - cbn [forallb] in H. apply andb_true_iff in H. destruct H as [Hc Hr].
    cbn [atoi_digits]. rewrite Hc. rewrite IH by assumption. cbn [fold_left length].
    f_equal; try reflexivity; lia.
Qed.

(* a non-digit stops the scan before the end *)
Lemma atoi_digits_short : forall bits sg neg cs acc used, forallb is_digit cs = false ->
  snd (atoi_digits bits sg neg cs acc used) < used + Z.of_nat (length cs).
Proof.
  intros bits sg neg cs. induction cs as [|c r IH]; intros acc used H; [discriminate|].
  cbn [atoi_digits]. cbn [forallb] in H. destruct (is_digit c) eqn:Hc.
  - cbn [andb] in H. specialize (IH (obind acc (fun n => num_cast bits sg (if neg then n * 10 - (c - ZERO) else n * 10 + (c - ZERO)))) (used + 1) H).
    cbn [length]. lia.
  - cbn [snd length]. lia.
Qed.

(* the checked fold succeeds exactly when the final value is in range (the partial values are
   monotone), and then yields it *)
Lemma fold_none : forall bits sg neg cs, fold_left (astep bits sg neg) cs None = None.
Proof. induction cs as [|c r IH]; [reflexivity|]. cbn. exact IH. Qed.

Definition sval (neg : bool) (x : Z) : Z := if neg then - x else x.

Lemma fold_checked : forall bits sg neg cs a, 1 <= bits -> Forall digitc cs -> 0 <= a ->
  fits bits sg (sval neg a) = true ->
  fold_left (astep bits sg neg) cs (Some (sval neg a)) = num_cast bits sg (sval neg (dv a (vals_of cs))).
Proof.
  intros bits sg neg cs. induction cs as [|c r IH]; intros a Hb Hd Ha Hf.
  - cbn. unfold num_cast. rewrite Hf. reflexivity.
  - pose proof (Forall_inv Hd) as D1. pose proof (Forall_inv_tail Hd) as D2. unfold digitc in D1.
    cbn [fold_left vals_of map]. fold (vals_of r). rewrite dv_cons.
    change (astep bits sg neg (Some (sval neg a)) c)
      with (num_cast bits sg (if neg then sval neg a * 10 - (c - ZERO) else sval neg a * 10 + (c - ZERO))).
    assert (Es : (if neg then sval neg a * 10 - (c - ZERO) else sval neg a * 10 + (c - ZERO)) = sval neg (a * 10 + (c - ZERO))).
    { unfold sval. destruct neg; ring. }
    rewrite Es. unfold num_cast at 1.
    destruct (fits bits sg (sval neg (a * 10 + (c - ZERO)))) eqn:F.
    + apply IH; try assumption. unfold ZERO. lia.
    + rewrite fold_none. unfold num_cast.
      assert (Hdv : Forall digit (vals_of r)).
      { unfold vals_of. apply Forall_map. eapply Forall_impl; [|exact D2]. intros x [L U]. unfold digit, ZERO. lia. }
      pose proof (dv_ge (vals_of r) (a * 10 + (c - ZERO)) ltac:(unfold ZERO; lia) Hdv) as G.
      assert (F2 : fits bits sg (sval neg (dv (a * 10 + (c - ZERO)) (vals_of r))) = false).
      { unfold fits in *. apply andb_false_iff in F. apply andb_false_iff.
        pose proof (imin_le0 bits sg). pose proof (imax_ge0 bits sg Hb).
        unfold sval in *. destruct neg.
        - destruct F as [F|F]; [left; apply Z.leb_gt in F; apply Z.leb_gt; lia|apply Z.leb_gt in F; unfold ZERO in *; lia].
        - destruct F as [F|F]; [apply Z.leb_gt in F; unfold ZERO in *; lia|right; apply Z.leb_gt in F; apply Z.leb_gt; lia]. }
      rewrite F2. reflexivity.
Qed.

Lemma forallb_digitc : forall cs, forallb is_digit cs = true -> Forall digitc cs.
Proof.
  intros cs H. apply Forall_forall. intros c Hc. rewrite forallb_forall in H. specialize (H c Hc).
  unfold is_digit in H. apply andb_true_iff in H. destruct H as [L U]. apply Z.leb_le in L, U. unfold digitc. lia.
Qed.

Lemma fits_zero : forall bits sg, 1 <= bits -> fits bits sg 0 = true.
Proof. intros. apply fits_intro. pose proof (imin_le0 bits sg). pose proof (imax_ge0 bits sg H). lia. Qed.

(* atoi_full on a string without surrounding blanks whose last byte is a digit *)
Definition split_sign (t : list Z) : bool * list Z :=
  match t with
  | b :: r => if b =? MINUS then (true, r) else if b =? PLUS then (false, r) else (false, t)
  | [] => (false, [])
  end.

Lemma atoi_full_spec : forall bits sg t, 1 <= bits -> last_is_digit t = true ->
  atoi_full bits sg t =
  (let '(neg, ds) := split_sign t in
   if forallb is_digit ds && negb (match ds with [] => true | _ => false end)
   then num_cast bits sg (if neg then - digits_val (vals_of ds) else digits_val (vals_of ds))
   else None).
Proof.
  intros bits sg t Hb Hl.
  assert (Hcase : forall neg ds used, used + Z.of_nat (length ds) = Z.of_nat (length t) ->
            ds <> [] ->
            (match atoi_digits bits sg neg ds (Some 0) used with
             | (Some n, u) => if u =? Z.of_nat (length t) then Some n else None
             | (None, _) => None end)
            = (if forallb is_digit ds && negb (match ds with [] => true | _ => false end)
               then num_cast bits sg (if neg then - digits_val (vals_of ds) else digits_val (vals_of ds)) else None)).
  { intros neg ds used Hlen Hne.
    destruct (forallb is_digit ds) eqn:Fd.
    - rewrite atoi_digits_run by assumption.
      assert (Hn : negb (match ds with [] => true | _ => false end) = true) by (destruct ds; [congruence|reflexivity]).
      rewrite Hn. cbn [andb].
      assert (Fo : fold_left (astep bits sg neg) ds (Some 0) = num_cast bits sg (sval neg (dv 0 (vals_of ds)))).
      { destruct neg; [change (Some 0) with (Some (sval true 0))|change (Some 0) with (Some (sval false 0))];
          apply fold_checked; try assumption; try lia; try (apply forallb_digitc; assumption); apply fits_zero; assumption. }
      rewrite Fo. change (digits_val (vals_of ds)) with (dv 0 (vals_of ds)). unfold sval.
      destruct (num_cast bits sg (if neg then - dv 0 (vals_of ds) else dv 0 (vals_of ds))) as [n|]; cbv iota beta;
        [rewrite Hlen, Z.eqb_refl; reflexivity|reflexivity].
    - cbn [andb]. pose proof (atoi_digits_short bits sg neg ds (Some 0) used Fd) as S.
      destruct (atoi_digits bits sg neg ds (Some 0) used) as [[n|] u]; [|reflexivity]. cbn [snd] in S.
      destruct (Z.eqb_spec u (Z.of_nat (length t))); [lia|reflexivity]. }
  unfold atoi_full, atoi, split_sign.
  destruct t as [|b r]; [cbn in Hl; discriminate Hl|].
  destruct (Z.eqb_spec b MINUS) as [Em|Nm].
  - destruct r as [|c r'].
    + subst b. cbn in Hl. discriminate.
    + apply Hcase; [cbn [length]; lia|discriminate].
  - destruct (Z.eqb_spec b PLUS) as [Ep|Np].
    + destruct r as [|c r'].
      * subst b. cbn in Hl. discriminate.
      * apply Hcase; [cbn [length]; lia|discriminate].
    + apply Hcase; [lia|discriminate].
Qed.

(* a leading blank makes the first attempt fail *)
Lemma atoi_full_leading_ws : forall bits sg b r, is_ascii_ws b = true -> atoi_full bits sg (b :: r) = None.
Proof.
  intros bits sg b r H. unfold atoi_full, atoi.
  assert (Nm : (b =? MINUS) = false).
  { apply Z.eqb_neq. intros ->. discriminate H. }
  assert (Np : (b =? PLUS) = false).
  { apply Z.eqb_neq. intros ->. discriminate H. }
  assert (Nd : is_digit b = false).
  { destruct (is_digit b) eqn:D; [|reflexivity]. rewrite (digit_not_ws b D) in H. discriminate. }
  rewrite Nm, Np. cbn [atoi_digits]. rewrite Nd. cbn [length].
  destruct (Z.eqb_spec 0 (Z.of_nat (S (length r)))); [lia|reflexivity].
Qed.

Lemma trim_start_last : forall l b, is_ascii_ws b = false -> exists l', trim_start is_ascii_ws (l ++ [b]) = l' ++ [b].
Proof.
  intros l b H. unfold trim_start. induction l as [|c r IH].
  - exists []. cbn. rewrite H. reflexivity.
  - cbn [app drop_while]. destruct (is_ascii_ws c); [exact IH|]. exists (c :: r). reflexivity.
Qed.

Theorem parse_int_eq_spec : forall bits sg s, 1 <= bits -> parse_int bits sg s = parse_int_spec bits sg s.
Proof.
  intros bits sg s Hb. unfold parse_int, parse_int_spec. cbv zeta. rewrite raw_is_trim_end.
  set (e := trim_end is_ascii_ws s).
  fold (split_sign (trim_start is_ascii_ws e)).
  destruct (trim_end_shape s) as [E|(l' & b & E & Hb')]; fold e in E.
  - (* nothing left *)
    rewrite E. reflexivity.
  - rewrite E. rewrite last_is_digit_app.
    destruct (trim_start_last l' b Hb') as (t' & Et).
    destruct (is_digit b) eqn:Db.
    + (* ends with a digit: both attempts reduce to atoi_full of the fully trimmed string *)
      cbn [negb].
      assert (Lt : last_is_digit (trim_start is_ascii_ws (l' ++ [b])) = true) by (rewrite Et, last_is_digit_app; assumption).
      assert (M : match atoi_full bits sg (l' ++ [b]) with Some n => Some n | None => atoi_full bits sg (trim_start is_ascii_ws (l' ++ [b])) end
                  = atoi_full bits sg (trim_start is_ascii_ws (l' ++ [b]))).
      { destruct (l' ++ [b]) as [|c r] eqn:El; [reflexivity|].
        destruct (is_ascii_ws c) eqn:Wc.
        - rewrite (atoi_full_leading_ws bits sg c r Wc). reflexivity.
        - unfold trim_start. cbn [drop_while]. rewrite Wc. destruct (atoi_full bits sg (c :: r)); reflexivity. }
      rewrite M. rewrite (atoi_full_spec bits sg _ Hb Lt). reflexivity.
    + (* ends with something else: rejected by both *)
      cbn [negb]. rewrite Et. unfold split_sign.
      assert (Nd : forall ds, forallb is_digit (ds ++ [b]) = false).
      { intros ds. rewrite forallb_app. cbn. rewrite Db. rewrite andb_false_r. reflexivity. }
      destruct t' as [|c r].
      * cbn [app]. destruct (b =? MINUS); [reflexivity|]. destruct (b =? PLUS); [reflexivity|].
        cbv beta iota. cbn [forallb]. rewrite Db. reflexivity.
      * cbn [app]. destruct (c =? MINUS).
        -- cbv beta iota. rewrite (Nd r). reflexivity.
        -- destruct (c =? PLUS); cbv beta iota; [rewrite (Nd r); reflexivity|].
           change (c :: r ++ [b]) with ((c :: r) ++ [b]). rewrite (Nd (c :: r)). reflexivity.
Qed.
