(* C02 — arrow-data's fixed_list_equal (FixedSizeList, any array offset), compositional: IF the child
   comparison on every range decides equality of the windows of the child's logical column, THEN
   fixed_list_equal (one child range of size*len when the range holds no null, else slot by slot) holds
   exactly when every valid slot denotes the same list. *)
From Coq Require Import List Arith NArith ZArith Bool Lia.
From AV Require Import Base.ListX Base.Bits Base.Bytes Model.C19_Bits Model.C09_Layout Model.C02_Logical Model.C02_Equal.
From AV Require Import Proofs.C02_Slice Proofs.C02_EqualNulls Proofs.C02_EqualPrim Proofs.C02_EqualList Proofs.C02_EqualStruct.
Import ListNotations.

Lemma windows_chunks {A} (w : nat) (l r : list A) : forall n o o', (o + n) * w <= length l -> (o' + n) * w <= length r ->
  (window l (o * w) (n * w) = window r (o' * w) (n * w)
   <-> forall i, i < n -> window l ((o + i) * w) w = window r ((o' + i) * w) w).
Proof.
  unfold window. induction n as [|n IH]; intros o o' Hl Hr.
  - cbn [Nat.mul firstn]. split; [intros _ i Hi; lia | reflexivity].
  - replace (S n * w) with (w + n * w) by lia. rewrite !firstn_plus, !skipn_plus.
    rewrite app_eq_len by (rewrite !firstn_skipn_length; nia).
    replace (o * w + w) with (S o * w) by lia. replace (o' * w + w) with (S o' * w) by lia.
    rewrite (IH (S o) (S o')) by lia. split.
    + intros [H0 H] i Hi. destruct i as [|i]; [now rewrite !Nat.add_0_r|].
      replace (o + S i) with (S o + i) by lia. replace (o' + S i) with (S o' + i) by lia. apply H. lia.
    + intros H. split.
      * specialize (H 0 ltac:(lia)). now rewrite !Nat.add_0_r in H.
      * intros i Hi. specialize (H (S i) ltac:(lia)).
        replace (o + S i) with (S o + i) in H by lia. now replace (o' + S i) with (S o' + i) in H by lia.
Qed.

Section FixedListEq.
  Variables (sz : Z) (nullable : bool) (c : dty).
  Variables (alen aoff : nat) (anulls : option nullbuf) (abufs : list (list N)) (ka : parr) (akids : list parr).
  Variables (b kb : parr) (bkids : list parr).
  Let a := PArr (TFixedList sz nullable c) alen aoff anulls abufs (ka :: akids).
  Let s := Z.to_nat sz.
  Hypothesis Hkb : p_kids b = kb :: bkids.
  Hypothesis child_ok : range_ok ka kb.

  (* the list of slot j of x *)
  Definition fslice (x kx : parr) (j : nat) : list lval := window (logical kx) ((p_off x + j) * s) s.

  Lemma equal_values_fsl_unfold ls rs n :
    equal_values a b ls rs n =
    let range := fun (s1 s2 m : nat) => equal_nulls ka kb s1 s2 m && equal_values ka kb s1 s2 m in
    if negb (contains_nulls anulls ls n) then range ((ls + aoff) * s) ((rs + p_off b) * s) (s * n)
    else match anulls, p_nulls b with
         | Some ln, Some rn =>
             forallb (fun i => let lnull := is_null_at ln (ls + i) in let rnull := is_null_at rn (rs + i) in
                               lnull || (Bool.eqb lnull rnull && range ((ls + i + aoff) * s) ((rs + i + p_off b) * s) s))
                     (seq 0 n)
         | _, _ => false
         end.
  Proof. unfold a. cbn [equal_values]. rewrite Hkb. reflexivity. Qed.

  Theorem fixed_list_equal_iff ls rs n :
    (aoff + ls + n) * s <= p_len ka -> (p_off b + rs + n) * s <= p_len kb ->
    (forall i, i < n -> slot_valid a (ls + i) = slot_valid b (rs + i)) ->
    (equal_values a b ls rs n = true
     <-> forall i, i < n -> slot_valid a (ls + i) = true -> fslice a ka (ls + i) = fslice b kb (rs + i)).
  Proof.
    intros Hla Hlb Hv. rewrite equal_values_fsl_unfold. cbn zeta.
    assert (Hone : forall i, i < n ->
              (equal_nulls ka kb ((ls + i + aoff) * s) ((rs + i + p_off b) * s) s && equal_values ka kb ((ls + i + aoff) * s) ((rs + i + p_off b) * s) s = true
               <-> fslice a ka (ls + i) = fslice b kb (rs + i))).
    { intros i Hi. rewrite (child_ok ((ls + i + aoff) * s) ((rs + i + p_off b) * s) s) by nia.
      unfold fslice. cbn [p_off a]. unfold a. cbn [p_off].
      replace (ls + i + aoff) with (aoff + (ls + i)) by lia. replace (rs + i + p_off b) with (p_off b + (rs + i)) by lia. tauto. }
    destruct (contains_nulls anulls ls n) eqn:Ec; cbn [negb].
    - assert (Hex : ~ (forall i, i < n -> valid_in anulls (ls + i) = true))
        by (intros H; apply contains_nulls_false_iff in H; congruence).
      destruct anulls as [ln|] eqn:Ean; [|exfalso; apply Hex; intros; reflexivity].
      destruct (p_nulls b) as [rn|] eqn:Ebn.
      2:{ exfalso. apply Hex. intros i Hi. specialize (Hv i Hi). unfold slot_valid in Hv. rewrite Ebn in Hv. exact Hv. }
      assert (Hva : forall j, slot_valid a j = nb_valid ln j) by reflexivity.
      assert (Hvb : forall j, slot_valid b j = nb_valid rn j) by (intros; unfold slot_valid; now rewrite Ebn).
      rewrite forallb_seq_iff. split; intros H i Hi; specialize (H i Hi).
      + intros Hval. unfold is_null_at in H. rewrite <- Hva, <- Hvb, <- (Hv i Hi), Hval in H.
        cbn [negb orb Bool.eqb andb] in H. now apply (Hone i Hi).
      + unfold is_null_at. rewrite <- Hva, <- Hvb, <- (Hv i Hi).
        destruct (slot_valid a (ls + i)) eqn:Hval; cbn [negb orb Bool.eqb andb]; [|reflexivity].
        apply (Hone i Hi). now apply H.
    - pose proof (proj1 (contains_nulls_false_iff _ _ _) Ec) as Hall.
      rewrite (child_ok ((ls + aoff) * s) ((rs + p_off b) * s) (s * n)) by nia.
      replace (s * n) with (n * s) by lia.
      rewrite (windows_chunks s (logical ka) (logical kb) n (ls + aoff) (rs + p_off b)) by (rewrite logical_length; nia).
      split; intros H i Hi.
      + intros _. specialize (H i Hi). unfold fslice. unfold a. cbn [p_off].
        replace (aoff + (ls + i)) with (ls + aoff + i) by lia. now replace (p_off b + (rs + i)) with (rs + p_off b + i) by lia.
      + specialize (H i Hi (Hall i Hi)). unfold fslice in H. unfold a in H. cbn [p_off] in H.
        replace (aoff + (ls + i)) with (ls + aoff + i) in H by lia. now replace (p_off b + (rs + i)) with (rs + p_off b + i) in H by lia.
  Qed.
End FixedListEq.
