(* C15: the async stream (RequestState machine around the push decoder) returns the sync rows for
   every pattern of Pending results of the fetch futures. *)
From Coq Require Import List Arith NArith Lia Bool ZifyN ZifyNat ZifyBool.
From AV Require Import Model.C15_PushBuf Model.C15_Machine Proofs.C15_PushBuf Proofs.C15_Machine Proofs.C15_Drive.
Import ListNotations.
Local Open Scope N_scope.

Section Async.
Variables (Rw B U R : Type).
Variable fr_step : nat -> B -> fstep B R.
Variable plan : R -> phase Rw U.
Variable upd : B -> U -> B.
Variable file : list N.
Hypothesis plan_in_file : forall r, phase_ok Rw U file (in_file_range file) (plan r).

Notation mach := (mach Rw B U).
Notation stream := (stream Rw B U).
Notation try_decode := (try_decode Rw B U R fr_step plan upd).
Notation fchunks := (file_chunks file).
Notation rest := (rest Rw B U R fr_step plan upd file).
Notation inv := (inv Rw B U file).
Notation potential := (potential Rw B U R fr_step plan upd file).
Notation sstep := (sstep Rw B U R fr_step plan upd file).
Notation stream_collect := (stream_collect Rw B U R fr_step plan upd file).

Definition sinv (s : stream) : Prop :=
  inv (s_dec _ _ _ s) /\
  match s_req _ _ _ s with
  | QOutstanding rs _ =>
      exists req k, waiting Rw B U (s_dec _ _ _ s) req k /\ rs = needed_ranges (m_buf _ _ _ (s_dec _ _ _ s)) req /\ rs <> []
  | _ => True
  end.

Definition srest (s : stream) : list (list Rw) :=
  match s_req _ _ _ s with QDone => [] | _ => rest (s_dec _ _ _ s) end.

Definition smeasure (delays : list nat) (s : stream) : nat :=
  (3 * potential (s_dec _ _ _ s) + list_sum delays +
   match s_req _ _ _ s with QNone => 2 | QOutstanding _ d => 1 + d | QDone => 0 end)%nat.

Lemma list_sum_tl l : (hd O l + list_sum (tl l) = list_sum l)%nat.
Proof. destruct l; reflexivity. Qed.

Theorem stream_collect_completes : forall fuel delays s, sinv s -> s_req _ _ _ s <> QDone ->
  (smeasure delays s < fuel)%nat ->
  stream_collect fuel delays s = (concat (srest s), true).
Proof.
  induction fuel as [|f IH]; intros delays s [Hi Hq] Hnd Hf; [lia|]. cbn [C15_Machine.stream_collect].
  unfold C15_Machine.sstep, smeasure, srest in *. destruct s as [rq m]; cbn [s_req s_dec] in *.
  destruct rq as [|rs [|d]|]; [| | |now elim Hnd].
  - (* None: decode *)
    pose proof (try_decode_spec Rw B U R fr_step plan upd file plan_in_file m Hi) as Hs.
    destruct (try_decode m) as [m1 res] eqn:E.
    pose proof (decode_potential Rw B U R fr_step plan upd file plan_in_file m m1 res Hi E) as Hp.
    destruct Hs as (Hi1 & _ & Hs). destruct res as [rs|b|bs| |].
    + destruct Hs as (Hr & Hd1 & req & k & Hrg1 & Hrs & Hne). destruct Hp as (_ & Hle & Hlt).
      assert (Hpot1 : (potential m1 <= potential m)%nat).
      { unfold C15_Drive.potential. rewrite <- Hr.
        pose proof (unsat_le1 Rw B U m1). pose proof (unsat_le1 Rw B U m).
        destruct (unsat Rw B U m) eqn:Eu; [specialize (Hlt eq_refl); lia|lia]. }
      rewrite IH.
      * cbn. now rewrite Hr.
      * split; [exact Hi1|]. cbn. exists req, k. repeat split; auto.
      * discriminate.
      * cbn [s_req s_dec]. pose proof (list_sum_tl delays). lia.
    + rewrite IH.
      * cbn [s_req s_dec]. now rewrite Hs.
      * split; [exact Hi1|exact I].
      * discriminate.
      * cbn [s_req s_dec]. lia.
    + now apply try_decode_no_reader in E.
    + destruct Hs as [Hr _]. now rewrite Hr.
    + contradiction.
  - (* Outstanding, future ready: push exactly the requested ranges *)
    destruct Hq as (req & k & Hw & Hrs & Hne).
    assert (Hin : Forall (in_file_range file) rs).
    { destruct Hi as [_ Hok]. destruct Hw as [_ Hrg]. rewrite Hrg in Hok. inversion Hok as [? ? Hreq ?| |]; subst.
      apply Forall_forall. intros r Hr'. apply needed_spec in Hr'. rewrite Forall_forall in Hreq. now apply Hreq. }
    destruct (push_data Rw B U m rs (fchunks rs)) as [m2|] eqn:Epd.
    + destruct (covering_supply_satisfies Rw B U R fr_step plan upd file m req k rs rs m2 Hi Hw Hrs
                  (exact_covers file O rs Hin) Epd) as (Hi2 & Hr2 & Hp2 & Hu2 & _).
      rewrite IH.
      * cbn [s_req s_dec]. now rewrite Hr2.
      * split; [exact Hi2|exact I].
      * discriminate.
      * cbn [s_req s_dec].
        assert (potential m2 < potential m)%nat; [|lia].
        unfold C15_Drive.potential. rewrite Hr2, Hp2, Hu2.
        destruct Hw as [_ Hrg]. unfold unsat. rewrite Hrg. rewrite <- Hrs.
        destruct rs; [now elim Hne|lia].
    + exfalso. pose proof (push_data_spec Rw B U R fr_step plan upd file m rs Hin Hi) as Hs.
      rewrite Epd in Hs. destruct Hw as [Hd _]. rewrite Hd in Hs. discriminate.
  - (* Outstanding, future pending *)
    rewrite IH.
    + reflexivity.
    + split; [exact Hi|exact Hq].
    + discriminate.
    + cbn [s_req s_dec]. lia.
Qed.

Theorem async_stream_reads_sync_rows q b delays fuel :
  (3 * potential (init Rw B U q b) + list_sum delays + 2 < fuel)%nat ->
  stream_collect fuel delays {| s_req := QNone; s_dec := init Rw B U q b |}
  = (sync_rows Rw B U R fr_step plan upd file q b, true).
Proof.
  intros Hf. rewrite stream_collect_completes; [reflexivity| |discriminate|exact Hf].
  split; [split; cbn; constructor|exact I].
Qed.

End Async.
