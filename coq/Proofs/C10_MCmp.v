(* C10 — the comparator as arrow-cmp builds it (compare_impl's four cases, total_cmp key, view keys,
   list zip loop) equals the specification comparator on well-formed values. *)
From Coq Require Import List ZArith Lia Bool Arith.
From AV Require Import Model.C10_Order Proofs.C10_Float Proofs.C10_Cmp Proofs.C10_Bytes.
Import ListNotations.

(* well-formed logical values: bytes are bytes, a float is a w-bit pattern with h = 2^(w-1) *)
Fixpoint wf_val (v : val) : Prop :=
  match v with
  | VInt _ => True
  | VFloat h b => exists w, (0 < w)%Z /\ h = (2 ^ (w - 1))%Z /\ (0 <= b < 2 ^ w)%Z
  | VBytes l => bytes l
  | VList l =>
      (fix go (l : list oval) : Prop :=
         match l with
         | [] => True
         | o :: r => match o with Some u => wf_val u | None => True end /\ go r
         end) l
  end.
Definition wf_slot (o : oval) : Prop := oP wf_val o.
Definition wf_col (a : list oval) : Prop := Forall wf_slot a.

Lemma wf_list l : wf_val (VList l) <-> Forall wf_slot l.
Proof.
  induction l as [|o l IH]; cbn.
  - split; [constructor|trivial].
  - split.
    + intros [H1 H2]. constructor; [destruct o; exact H1|]. apply IH. exact H2.
    + intros H. inversion H as [|? ? H1 H2]; subst. split; [destruct o; exact H1|]. apply IH. exact H2.
Qed.

Lemma m_vcmp_list bc cnf x y :
  m_vcmp bc cnf (VList x) (VList y) = m_list_cmp (ncmp cnf false (m_vcmp bc cnf)) x y.
Proof.
  unfold m_list_cmp. cbn [m_vcmp].
  match goal with |- match ?f x y with _ => _ end = _ =>
    assert (E : forall x y, f x y = first_non_eq (ncmp cnf false (m_vcmp bc cnf)) x y) end.
  { clear x y. induction x as [|p x IH]; intros [|q y]; try reflexivity.
    cbn [first_non_eq]. rewrite <- IH.
    destruct p as [u|], q as [v|]; cbn; try (destruct cnf; reflexivity); reflexivity. }
  rewrite E. reflexivity.
Qed.

Lemma lex_cmp_ext_pt {A} (c1 c2 : A -> A -> comparison) (Q : A -> Prop) x :
  Forall (fun a => forall b, Q b -> c1 a b = c2 a b) x ->
  forall y, Forall Q y -> lex_cmp c1 x y = lex_cmp c2 x y.
Proof.
  induction 1 as [|a x Ha _ IH]; intros [|b y] Hy; try reflexivity.
  inversion Hy as [|? ? Hb Hy']; subst. cbn. rewrite (Ha b Hb). destruct (c2 a b); try reflexivity. now apply IH.
Qed.

Lemma w_of_pow w : (0 < w)%Z -> w_of_h (2 ^ (w - 1)) = w.
Proof. intros H. unfold w_of_h. rewrite Z.log2_pow2 by lia. lia. Qed.

Section M.
  Variable bc : list Z -> list Z -> comparison.
  Hypothesis Hbc : forall x y, bytes x -> bytes y -> bc x y = bytes_cmp x y.

  Theorem m_vcmp_spec cnf : forall a b, wf_val a -> wf_val b -> m_vcmp bc cnf a b = vcmp cnf a b.
  Proof.
    intros a. induction a as [z|h x|l|l IH] using val_ind'; intros [z'|h' x'|l'|l'] Wa Wb; try reflexivity.
    - cbn. destruct (h ?= h')%Z eqn:E; try reflexivity. apply Z.compare_eq in E. subst h'.
      destruct Wa as (w & Hw & Hh & Hx). destruct Wb as (w' & Hw' & Hh' & Hx').
      assert (w' = w). { subst h. apply Z.pow_inj_r in Hh'; lia. } subst w' h.
      rewrite w_of_pow by exact Hw. now apply float_key_total_order.
    - cbn. apply Hbc; assumption.
    - rewrite m_vcmp_list, m_list_cmp_lex, vcmp_list.
      apply wf_list in Wa. apply wf_list in Wb.
      apply lex_cmp_ext_pt with (Q := wf_slot); [|exact Wb].
      clear Wb l'. induction l as [|o l IHl]; [constructor|].
      inversion IH as [|? ? I1 I2]; inversion Wa as [|? ? W1 W2]; subst.
      constructor; [|now apply IHl].
      intros [v|] Wv; destruct o as [u|]; cbn; try reflexivity. apply I1; assumption.
  Qed.

  (* make_comparator(a, b, opts)(i, j) = the specification comparator on the two slots *)
  Theorem m_cmp_idx_spec nf desc a b i j : wf_col a -> wf_col b -> i < length a -> j < length b ->
    m_cmp_idx bc nf desc a b i j = cmp_idx nf desc a b i j.
  Proof.
    intros Wa Wb Hi Hj. unfold m_cmp_idx, cmp_idx, cmp_opts, ocmp.
    rewrite (compare_impl_spec nf desc a b (null_buffer a) (null_buffer b)
               (m_vcmp bc (child_nf nf desc)) i j (null_buffer_ok a) (null_buffer_ok b) Hi Hj).
    assert (Sa : wf_slot (slot a i)). { unfold slot. apply Forall_nth; assumption. }
    assert (Sb : wf_slot (slot b j)). { unfold slot. apply Forall_nth; assumption. }
    destruct (slot a i) as [u|], (slot b j) as [v|]; cbn; try reflexivity.
    rewrite m_vcmp_spec by assumption. reflexivity.
  Qed.
End M.

Lemma bytes_cmp_bc : forall x y, bytes x -> bytes y -> bytes_cmp x y = bytes_cmp x y.
Proof. reflexivity. Qed.
Lemma view_cmp_bc : forall x y, bytes x -> bytes y -> view_cmp x y = bytes_cmp x y.
Proof. exact view_cmp_lex. Qed.
