(* C10 — what the executable sort predicate means: code 1 implies the property's statement about a
   sort output (a duplicate-free prefix of a sorted permutation). *)
From Coq Require Import List ZArith Lia Bool Arith Permutation.
From AV Require Import Base.ListX Model.C10_Order Model.C10_Sort Proofs.C10_Cmp Proofs.C10_Sort.
Import ListNotations.

Lemma mark_all_inv out : forall m0 m, mark_all out m0 = Some m ->
  (forall j, In j out -> nth_error m0 j = Some false) /\ NoDup out /\
  (forall j, nth_error m j = Some false <-> nth_error m0 j = Some false /\ ~ In j out).
Proof.
  induction out as [|i r IH]; intros m0 m H.
  - cbn in H. injection H as <-. split; [intros j []|]. split; [constructor|]. intros j. split; [intros E; split; [exact E|intros []]|intros [E _]; exact E].
  - cbn in H. destruct (mark i m0) as [m1|] eqn:E; [|discriminate].
    destruct (mark_spec i m0 m1 E) as [H0 H1]. destruct (IH m1 m H) as (A & B & C).
    assert (Hm1i : nth_error m1 i = Some true) by (rewrite H1, Nat.eqb_refl; reflexivity).
    assert (Hni : ~ In i r). { intros Hi. specialize (A i Hi). congruence. }
    split; [|split].
    + intros j [<-|Hj]; [exact H0|]. specialize (A j Hj). rewrite H1 in A. destruct (j =? i); [discriminate|exact A].
    + constructor; assumption.
    + intros j. rewrite C. rewrite H1. destruct (j =? i) eqn:Eji.
      * apply Nat.eqb_eq in Eji. subst j. split; [intros [X _]; discriminate|intros [_ X]; exfalso; apply X; now left].
      * apply Nat.eqb_neq in Eji. split; [intros [X Y]; split; [exact X|intros [Z|Z]; [congruence|contradiction]]|].
        intros [X Y]. split; [exact X|intros Z; apply Y; now right].
Qed.

Lemma unmarked_complete {R} (rows : list R) : forall m i r,
  nth_error rows i = Some r -> nth_error m i = Some false -> In r (unmarked rows m).
Proof.
  induction rows as [|x rows IH]; intros [|b m] [|i] r H1 H2; try discriminate.
  - cbn in *. injection H1 as ->. injection H2 as ->. now left.
  - cbn in *. destruct b; [|right]; eapply IH; eassumption.
Qed.

Lemma pick_app {R} (rows : list R) a b : pick rows (a ++ b) = pick rows a ++ pick rows b.
Proof. unfold pick. apply flat_map_app. Qed.
Lemma pick_one {R} (rows : list R) i x : nth_error rows i = Some x -> pick rows [i] = [x].
Proof. intros H. unfold pick. cbn. now rewrite H. Qed.

Lemma le_after_pair {R} (c : R -> R -> comparison) A : forall x B y C,
  le_after c (length (A ++ x :: B ++ y :: C)) (A ++ x :: B ++ y :: C) -> c x y <> Gt.
Proof.
  induction A as [|a A IH]; intros x B y C H.
  - cbn in H. destruct H as [H _]. rewrite Forall_forall in H. apply H. apply in_or_app. right. now left.
  - cbn in H. destruct H as [_ H]. now apply (IH x B y C).
Qed.

Theorem sort_check_sound {R} (c : R -> R -> comparison) (rows : list R) limit out : tpo c ->
  sort_check c rows limit out = 1%Z ->
  length out = out_len (length rows) limit /\ NoDup out /\ (forall i, In i out -> i < length rows) /\
  (forall l1 i l2 j l3 x y, out = l1 ++ i :: l2 ++ j :: l3 ->
     nth_error rows i = Some x -> nth_error rows j = Some y -> c x y <> Gt) /\
  (forall i j x y, In i out -> j < length rows -> ~ In j out ->
     nth_error rows i = Some x -> nth_error rows j = Some y -> c x y <> Gt).
Proof.
  intros Hc. unfold sort_check.
  destruct (length out =? out_len (length rows) limit) eqn:E1; cbn [negb]; [|discriminate]. apply Nat.eqb_eq in E1.
  destruct (forallb (fun i => i <? length rows) out) eqn:E2; cbn [negb]; [|discriminate].
  assert (Hr : forall i, In i out -> i < length rows).
  { intros i Hi. rewrite forallb_forall in E2. apply Nat.ltb_lt. now apply E2. }
  destruct (mark_all out (repeat false (length rows))) as [m|] eqn:Em; [|discriminate].
  destruct (mark_all_inv out _ m Em) as (_ & Hnd & Hm).
  destruct (sortedb c (pick rows out)) eqn:E3; cbn [negb]; [|discriminate].
  pose proof (sortedb_le_after c _ Hc E3) as LA.
  assert (Pairs : forall l1 i l2 j l3 x y, out = l1 ++ i :: l2 ++ j :: l3 ->
     nth_error rows i = Some x -> nth_error rows j = Some y -> c x y <> Gt).
  { intros l1 i l2 j l3 x y -> Hx Hy.
    change (i :: l2 ++ j :: l3) with ([i] ++ l2 ++ [j] ++ l3) in LA. rewrite !pick_app in LA.
    rewrite (pick_one rows i x Hx), (pick_one rows j y Hy) in LA. cbn [app] in LA.
    exact (le_after_pair c _ x _ y _ LA). }
  intros Hfin. split; [exact E1|]. split; [exact Hnd|]. split; [exact Hr|]. split; [exact Pairs|].
  intros i j x y Hi Hj Hnj Hx Hy.
  destruct (rev (pick rows out)) as [|last rest] eqn:Erev.
  - (* nothing kept *) exfalso. apply (f_equal (@rev R)) in Erev. rewrite rev_involutive in Erev. cbn in Erev.
    apply in_split in Hi. destruct Hi as (l1 & l2 & ->). rewrite pick_app in Erev.
    change (i :: l2) with ([i] ++ l2) in Erev. rewrite pick_app, (pick_one rows i x Hx) in Erev.
    destruct (pick rows l1); discriminate.
  - destruct (forallb (fun r => not_gt (c last r)) (unmarked rows m)) eqn:E4; [|discriminate].
    assert (Hy' : c last y <> Gt).
    { rewrite forallb_forall in E4. apply not_gt_iff. apply E4. apply (unmarked_complete rows m j y Hy).
      apply Hm. split; [now apply nth_error_repeat|exact Hnj]. }
    assert (Hkept : pick rows out = rev rest ++ [last]).
    { apply (f_equal (@rev R)) in Erev. rewrite rev_involutive in Erev. exact Erev. }
    assert (Hx' : c x last <> Gt).
    { apply in_split in Hi. destruct Hi as (l1 & l2 & Eo). rewrite Eo in Hkept.
      change (i :: l2) with ([i] ++ l2) in Hkept. rewrite !pick_app, (pick_one rows i x Hx) in Hkept.
      destruct (pick rows l2) as [|z zs] eqn:E5.
      - rewrite app_nil_r in Hkept. apply app_inj_tail in Hkept. destruct Hkept as [_ ->].
        destruct Hc as (Hrf & _). rewrite Hrf. congruence.
      - destruct (@exists_last _ (z :: zs)) as (zs' & zl & Ez); [discriminate|].
        rewrite Ez in Hkept. rewrite !app_assoc in Hkept. apply app_inj_tail in Hkept. destruct Hkept as [_ ->].
        rewrite Eo in LA. change (i :: l2) with ([i] ++ l2) in LA.
        rewrite !pick_app, (pick_one rows i x Hx), E5, Ez in LA. cbn [app] in LA.
        exact (le_after_pair c (pick rows l1) x zs' last [] LA). }
    destruct Hc as (_ & _ & Ht). exact (Ht x last y Hx' Hy').
Qed.

(* sort_unstable_by(array, limit, cmp) — full sort when limit = len, else partial_sort = select_nth(limit-1)
   then sort of the part before it — puts the limit smallest elements first, in order *)
Theorem sort_unstable_by_contract {T} (so : (T -> T -> comparison) -> list T -> list T)
    (se : (T -> T -> comparison) -> nat -> list T -> list T) :
  sort_contract so -> select_contract se ->
  forall c k l, tpo c -> k <= length l ->
  Permutation (sort_unstable_by so se c k l) l /\
  sortedb c (firstn k (sort_unstable_by so se c k l)) = true /\
  (forall x y, In x (firstn k (sort_unstable_by so se c k l)) -> In y (skipn k (sort_unstable_by so se c k l)) -> c x y <> Gt).
Proof.
  intros Hso Hse c k l Hc Hk. destruct (sort_unstable_by_spec so se Hso Hse c k l Hc Hk) as [P LA].
  split; [exact P|]. split; [now apply le_after_sortedb|]. intros x y. now apply le_after_split.
Qed.
