(* C07 — UTF-8 aware truncation: the truncated minimum is a valid UTF-8 prefix, the truncated and
   incremented maximum is valid UTF-8 and strictly greater than the original. *)
From Coq Require Import List NArith ZArith Arith Lia Bool ZifyN ZifyNat ZifyBool.
From AV Require Import Base.ListX Model.C07_Trunc Proofs.C07_Trunc Proofs.C07_Utf8.
Import ListNotations.
Local Open Scope N_scope.
Ltac Zify.zify_post_hook ::= Z.div_mod_to_equations.

Notation scalars cs := (Forall (fun c => scalar c = true) cs).

(* ---------------------------------------------------------------- shape of one encoded character *)
Definition lead (b : N) : bool := (b <? 128) || (192 <=? b).

Lemma encode_shape c : exists b0 rest, encode c = b0 :: rest /\ lead b0 = true /\ Forall (fun b => lead b = false) rest.
Proof.
  unfold encode, lead.
  destruct (N.ltb_spec c 128) as [H1|H1].
  { exists c, []. split; [reflexivity|]. split; [|constructor]. rewrite ltb_true by lia. reflexivity. }
  assert (Cf : forall x, 128 <= x <= 191 -> (x <? 128) || (192 <=? x) = false).
  { intros x Hx. rewrite ltb_false by lia. cbn [orb]. apply N.leb_gt. lia. }
  assert (Lt : forall x, 192 <= x -> (x <? 128) || (192 <=? x) = true).
  { intros x Hx. rewrite (proj2 (N.leb_le 192 x)) by lia. apply orb_true_r. }
  destruct (N.ltb_spec c 2048) as [H2|H2].
  { eexists _, _. split; [reflexivity|]. split; [apply Lt; lia|]. repeat constructor. apply Cf. lia. }
  destruct (N.ltb_spec c 65536) as [H3|H3].
  { eexists _, _. split; [reflexivity|]. split; [apply Lt; lia|]. repeat constructor; apply Cf; lia. }
  eexists _, _. split; [reflexivity|]. split; [apply Lt; lia|]. repeat constructor; apply Cf; lia.
Qed.

(* ---------------------------------------------------------------- order of successive code points *)
Lemma lex_cons_lt x y a b : x < y -> lex (x :: a) (y :: b) = Lt.
Proof. intros H. cbn [lex]. now rewrite (proj2 (N.compare_lt_iff x y)). Qed.
Lemma lex_cons_eq x y a b : x = y -> lex (x :: a) (y :: b) = lex a b.
Proof. intros ->. cbn [lex]. now rewrite N.compare_refl. Qed.

(* when c+1 is encoded with as many bytes as c, its encoding is greater than anything starting with c's *)
Lemma encode_succ_lt c s : length (encode (c + 1)) = length (encode c) -> lex (encode c ++ s) (encode (c + 1)) = Lt.
Proof.
  unfold encode.
  destruct (N.ltb_spec c 128) as [H1|H1]; destruct (N.ltb_spec (c + 1) 128) as [G1|G1].
  - intros _. cbn [app]. apply lex_cons_lt. lia.
  - destruct (N.ltb_spec (c + 1) 2048); [|destruct (N.ltb_spec (c + 1) 65536)]; discriminate.
  - lia.
  - destruct (N.ltb_spec c 2048) as [H2|H2]; destruct (N.ltb_spec (c + 1) 2048) as [G2|G2].
    + intros _. cbn [app].
      destruct (N.eq_dec (c / 64) ((c + 1) / 64)) as [E|NE].
      * rewrite lex_cons_eq by lia. apply lex_cons_lt. lia.
      * apply lex_cons_lt. lia.
    + destruct (N.ltb_spec (c + 1) 65536); discriminate.
    + lia.
    + destruct (N.ltb_spec c 65536) as [H3|H3]; destruct (N.ltb_spec (c + 1) 65536) as [G3|G3].
      * intros _. cbn [app].
        destruct (N.eq_dec (c / 4096) ((c + 1) / 4096)) as [E|NE]; [|apply lex_cons_lt; lia].
        rewrite lex_cons_eq by lia.
        destruct (N.eq_dec ((c / 64) mod 64) (((c + 1) / 64) mod 64)) as [E2|NE2]; [|apply lex_cons_lt; lia].
        rewrite lex_cons_eq by lia. apply lex_cons_lt. lia.
      * discriminate.
      * lia.
      * intros _. cbn [app].
        destruct (N.eq_dec (c / 262144) ((c + 1) / 262144)) as [E|NE]; [|apply lex_cons_lt; lia].
        rewrite lex_cons_eq by lia.
        destruct (N.eq_dec ((c / 4096) mod 64) (((c + 1) / 4096) mod 64)) as [E2|NE2]; [|apply lex_cons_lt; lia].
        rewrite lex_cons_eq by lia.
        destruct (N.eq_dec ((c / 64) mod 64) (((c + 1) / 64) mod 64)) as [E3|NE3]; [|apply lex_cons_lt; lia].
        rewrite lex_cons_eq by lia. apply lex_cons_lt. lia.
Qed.

(* ---------------------------------------------------------------- increment_utf8 *)
Lemma flat_map_app {A B} (f : A -> list B) l1 l2 : flat_map f (l1 ++ l2) = flat_map f l1 ++ flat_map f l2.
Proof. induction l1 as [|x l1 IH]; cbn [flat_map app]; [reflexivity|]. now rewrite IH, app_assoc. Qed.

Lemma increment_utf8_rev_spec rcs : forall r, increment_utf8_rev rcs = Some r -> scalars rcs ->
  valid_utf8 r = true /\ forall suffix, lex (flat_map encode (rev rcs) ++ suffix) r = Lt.
Proof.
  induction rcs as [|c rest IH]; intros r H S; [discriminate|].
  inversion S as [|? ? Sc Srest]; subst. cbn [increment_utf8_rev] in H.
  destruct (scalar (c + 1) && (length (encode (c + 1)) =? length (encode c))%nat) eqn:E.
  - apply andb_true_iff in E as [E1 E2]. apply Nat.eqb_eq in E2. inversion H; subst. split.
    + replace (flat_map encode (rev rest) ++ encode (c + 1)) with (flat_map encode (rev rest ++ [c + 1])).
      2:{ rewrite flat_map_app. cbn [flat_map]. now rewrite app_nil_r. }
      apply valid_encode. apply Forall_app. split; [now apply Forall_rev|]. constructor; [exact E1|constructor].
    + intros suffix. cbn [rev]. rewrite flat_map_app. cbn [flat_map]. rewrite app_nil_r.
      rewrite <- app_assoc. rewrite lex_app_l. now apply encode_succ_lt.
  - destruct (IH r H Srest) as [V L]. split; [exact V|].
    intros suffix. cbn [rev]. rewrite flat_map_app, <- app_assoc. apply L.
Qed.

(* ---------------------------------------------------------------- character boundaries *)
Lemma icb_zero d : is_char_boundary d 0 = true.
Proof. reflexivity. Qed.

Lemma icb_app_encode c d x : (forall b0 t, d = b0 :: t -> lead b0 = true) ->
  is_char_boundary (encode c ++ d) x =
  if (x =? 0)%nat then true
  else if (x <? length (encode c))%nat then false
  else is_char_boundary d (x - length (encode c)).
Proof.
  intros Hd. destruct (encode_shape c) as (b0 & rest & Ee & Hl & Hr). rewrite Ee.
  unfold is_char_boundary at 1. destruct (Nat.eqb_spec x 0) as [->|Nx]; [reflexivity|].
  rewrite app_length. cbn [length].
  destruct (Nat.ltb_spec x (S (length rest))) as [L|L].
  - rewrite (proj2 (Nat.leb_gt _ _)) by lia.
    destruct x as [|x]; [lia|]. cbn [app nth]. rewrite app_nth1 by lia.
    assert (In (nth x rest 0) rest) by (apply nth_In; lia).
    rewrite Forall_forall in Hr. exact (Hr _ H).
  - unfold is_char_boundary.
    destruct (Nat.eqb_spec (x - S (length rest)) 0) as [E0|N0].
    + assert (x = S (length rest)) by lia. subst x.
      destruct d as [|d0 dt].
      * cbn [length]. rewrite (proj2 (Nat.leb_le _ _)) by lia. apply Nat.eqb_eq. lia.
      * cbn [length]. rewrite (proj2 (Nat.leb_gt _ _)) by lia.
        change (b0 :: rest) with ([b0] ++ rest). rewrite <- app_assoc. cbn [app nth].
        rewrite app_nth2 by lia. replace (length rest - length rest)%nat with 0%nat by lia. cbn [nth].
        exact (Hd d0 dt eq_refl).
    + destruct (Nat.leb_spec (S (length rest) + length d) x) as [G|G].
      * rewrite (proj2 (Nat.leb_le (length d) _)) by lia.
        destruct (Nat.eqb_spec x (S (length rest) + length d)); destruct (Nat.eqb_spec (x - S (length rest)) (length d)); try reflexivity; lia.
      * rewrite (proj2 (Nat.leb_gt (length d) _)) by lia.
        change (b0 :: rest) with ([b0] ++ rest). rewrite <- app_assoc.
        destruct x as [|x]; [lia|]. cbn [app nth]. rewrite app_nth2 by lia.
        replace (S x - S (length rest))%nat with (x - length rest)%nat by lia. reflexivity.
Qed.

Lemma flat_map_encode_head cs : forall b0 t, flat_map encode cs = b0 :: t -> lead b0 = true.
Proof.
  destruct cs as [|c cs]; intros b0 t H; [discriminate|]. cbn [flat_map] in H.
  destruct (encode_shape c) as (e0 & rest & Ee & Hl & _). rewrite Ee in H. cbn [app] in H. inversion H; subst. exact Hl.
Qed.

(* a boundary of a valid string cuts it between two code points *)
Lemma boundary_prefix cs : forall x, is_char_boundary (flat_map encode cs) x = true -> (x <= length (flat_map encode cs))%nat ->
  exists k, firstn x (flat_map encode cs) = flat_map encode (firstn k cs).
Proof.
  induction cs as [|c cs IH]; intros x Hb Hx.
  - exists 0%nat. cbn [flat_map] in *. now rewrite firstn_nil.
  - cbn [flat_map] in *. rewrite icb_app_encode in Hb by apply flat_map_encode_head.
    destruct x as [|x']; [exists 0%nat; reflexivity|].
    set (x := S x') in *. change (x =? 0)%nat with false in Hb. cbv iota in Hb.
    destruct (Nat.ltb_spec x (length (encode c))) as [L|L]; [discriminate|].
    rewrite app_length in Hx.
    destruct (IH (x - length (encode c))%nat Hb ltac:(lia)) as [k Hk].
    exists (S k). cbn [firstn flat_map]. rewrite firstn_app, Hk.
    rewrite firstn_all2 by lia. reflexivity.
Qed.

Lemma scalars_firstn k cs : scalars cs -> scalars (firstn k cs).
Proof. apply Forall_firstn'. Qed.

Lemma rfind_from_spec p lo cnt s : rfind_from p lo cnt = Some s -> p s = true /\ (lo <= s < lo + cnt)%nat.
Proof.
  induction cnt as [|c IH]; cbn [rfind_from]; [discriminate|].
  destruct (p (lo + c)%nat) eqn:E; intros H.
  - inversion H; subst. split; [exact E|lia].
  - destruct (IH H). split; [assumption|lia].
Qed.
Lemma rfind_spec p lo hi s : rfind p lo hi = Some s -> p s = true /\ (lo <= s <= hi)%nat.
Proof. unfold rfind. intros H. apply rfind_from_spec in H. destruct H. split; [assumption|lia]. Qed.

(* ---------------------------------------------------------------- truncate_utf8 *)
Theorem truncate_utf8_valid d l t : valid_utf8 d = true -> (l < length d)%nat ->
  truncate_utf8 d l = Some t -> valid_utf8 t = true /\ exists n, t = firstn n d.
Proof.
  unfold valid_utf8. destruct (decode d) as [cs|] eqn:D; [|discriminate]. intros _ Hl.
  apply decode_inv in D as [Ed Sc]. unfold truncate_utf8.
  destruct (rfind (is_char_boundary d) 1 l) as [s|] eqn:R; [|discriminate]. intros H; inversion H; subst t.
  apply rfind_spec in R as [Rb Rr]. split; [|now exists s].
  rewrite Ed in Rb |- *. destruct (boundary_prefix cs s Rb) as [k Hk]; [rewrite <- Ed; lia|].
  rewrite Hk. apply valid_encode. now apply scalars_firstn.
Qed.

(* ---------------------------------------------------------------- truncate_and_increment_utf8 *)
Theorem truncate_and_increment_utf8_spec d l r : valid_utf8 d = true -> (l < length d)%nat ->
  truncate_and_increment_utf8 d l = Some r -> valid_utf8 r = true /\ lex d r = Lt.
Proof.
  unfold valid_utf8. destruct (decode d) as [cs|] eqn:D; [|discriminate]. intros _ Hl.
  apply decode_inv in D as [Ed Sc]. unfold truncate_and_increment_utf8.
  destruct (rfind (is_char_boundary d) (l - 3) l) as [s|] eqn:R; [|discriminate].
  apply rfind_spec in R as [Rb Rr].
  rewrite Ed in Rb. destruct (boundary_prefix cs s Rb) as [k Hk]; [rewrite <- Ed; lia|]. rewrite <- Ed in Hk.
  unfold increment_utf8. rewrite Hk. rewrite decode_encode by (now apply scalars_firstn).
  intros H. apply increment_utf8_rev_spec in H; [|apply Forall_rev; now apply scalars_firstn].
  destruct H as [V L]. split; [exact V|].
  rewrite rev_involutive in L. rewrite <- Hk in L.
  rewrite <- (firstn_skipn s d) at 1. apply L.
Qed.

(* ---------------------------------------------------------------- truncate_min_value / truncate_max_value *)
Lemma truncate_utf8_prefix d l t : truncate_utf8 d l = Some t -> exists n, t = firstn n d.
Proof. unfold truncate_utf8. destruct (rfind _ _ _) as [s|]; [|discriminate]. intros H; inversion H. now exists s. Qed.

Theorem truncate_min_le_all utf8 tl d : lex (fst (truncate_min_value utf8 tl d)) d <> Gt.
Proof.
  unfold truncate_min_value. destruct tl as [l|]; [|cbn [fst]; rewrite lex_refl; discriminate].
  destruct (l <? length d)%nat; [|cbn [fst]; rewrite lex_refl; discriminate].
  destruct (utf8 && valid_utf8 d).
  - destruct (truncate_utf8 d l) as [t|] eqn:E; cbn [fst]; [|rewrite lex_refl; discriminate].
    apply truncate_utf8_prefix in E as [n ->]. apply lex_firstn.
  - cbn [fst]. apply lex_firstn.
Qed.

Theorem truncate_min_not_truncated utf8 tl d t : truncate_min_value utf8 tl d = (t, false) -> t = d.
Proof.
  unfold truncate_min_value. destruct tl as [l|]; [|intros H; now inversion H].
  destruct (l <? length d)%nat; [|intros H; now inversion H].
  destruct (if utf8 && valid_utf8 d then truncate_utf8 d l else Some (firstn l d)); intros H; now inversion H.
Qed.

Theorem truncate_max_gt_all utf8 tl d r : truncate_max_value utf8 tl d = (r, true) -> lex d r = Lt.
Proof.
  unfold truncate_max_value. destruct tl as [l|]; [|intros H; inversion H].
  destruct (Nat.ltb_spec l (length d)) as [Hl|Hl]; [|intros H; inversion H].
  destruct (utf8 && valid_utf8 d) eqn:U.
  - apply andb_true_iff in U as [_ V].
    destruct (truncate_and_increment_utf8 d l) as [t|] eqn:E; intros H; inversion H; subst.
    now apply (truncate_and_increment_utf8_spec d l r V Hl).
  - destruct (increment (firstn l d)) as [t|] eqn:E; intros H; inversion H; subst.
    rewrite <- (firstn_skipn l d) at 1. now apply increment_upper_bound.
Qed.

Theorem truncate_max_not_truncated utf8 tl d t : truncate_max_value utf8 tl d = (t, false) -> t = d.
Proof.
  unfold truncate_max_value. destruct tl as [l|]; [|intros H; now inversion H].
  destruct (l <? length d)%nat; [|intros H; now inversion H].
  destruct (if utf8 && valid_utf8 d then truncate_and_increment_utf8 d l else increment (firstn l d)); intros H; now inversion H.
Qed.

(* the stored bounds of a String column stay valid UTF-8 *)
Theorem truncate_min_utf8_valid tl d : valid_utf8 d = true -> valid_utf8 (fst (truncate_min_value true tl d)) = true.
Proof.
  intros V. unfold truncate_min_value. destruct tl as [l|]; [|exact V].
  destruct (Nat.ltb_spec l (length d)) as [Hl|Hl]; [|exact V]. rewrite V. cbn [andb].
  destruct (truncate_utf8 d l) as [t|] eqn:E; cbn [fst]; [|exact V].
  now destruct (truncate_utf8_valid d l t V Hl E).
Qed.

Theorem truncate_max_utf8_valid tl d : valid_utf8 d = true -> valid_utf8 (fst (truncate_max_value true tl d)) = true.
Proof.
  intros V. unfold truncate_max_value. destruct tl as [l|]; [|exact V].
  destruct (Nat.ltb_spec l (length d)) as [Hl|Hl]; [|exact V]. rewrite V. cbn [andb].
  destruct (truncate_and_increment_utf8 d l) as [t|] eqn:E; cbn [fst]; [|exact V].
  now destruct (truncate_and_increment_utf8_spec d l t V Hl E).
Qed.

(* soundness for every value the exact bound covered *)
Corollary truncated_min_bounds utf8 tl d v : lex d v <> Gt -> lex (fst (truncate_min_value utf8 tl d)) v <> Gt.
Proof. intros H. eapply lex_le_trans; [apply truncate_min_le_all|exact H]. Qed.

Corollary truncated_max_bounds utf8 tl d v : lex v d <> Gt -> lex v (fst (truncate_max_value utf8 tl d)) <> Gt.
Proof.
  intros H. destruct (truncate_max_value utf8 tl d) as [r [|]] eqn:E; cbn [fst].
  - apply truncate_max_gt_all in E. rewrite (lex_le_lt_trans v d r H E). discriminate.
  - apply truncate_max_not_truncated in E. now subst.
Qed.

Lemma exact_flags utf8 tl d t :
  (truncate_min_value utf8 tl d = (t, false) -> t = d) /\ (truncate_max_value utf8 tl d = (t, false) -> t = d).
Proof. split; [apply truncate_min_not_truncated|apply truncate_max_not_truncated]. Qed.

Lemma truncated_cover utf8 tl mn mx v : lex mn v <> Gt -> lex v mx <> Gt ->
  lex (fst (truncate_min_value utf8 tl mn)) v <> Gt /\ lex v (fst (truncate_max_value utf8 tl mx)) <> Gt.
Proof. intros; split; [now apply truncated_min_bounds|now apply truncated_max_bounds]. Qed.
