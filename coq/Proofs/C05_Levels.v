(* C05 — Dremel shredding / record assembly: assemble is a left inverse of shred, shredding is
   compositional in the rows (batch splits), levels are bounded by the path. *)
From Coq Require Import List ZArith Arith Lia Bool.
From AV Require Import Model.C05_Levels.
Import ListNotations.

(* the entry that follows a complete value belongs to an enclosing list: its repetition level is smaller *)
Definition head_lt (rest : list entry) (k : nat) : Prop :=
  match rest with [] => True | e :: _ => e_rep e < k end.

Lemma shred_hd p : forall d r rl (v : val p), exists e tl, shred p d r rl v = e :: tl /\ e_rep e = r /\ d <= e_def e.
Proof.
  induction p as [|n p IH]; intros d r rl v.
  - cbn. eexists _, _. split; [reflexivity|]. cbn. split; lia.
  - destruct n; cbn [shred].
    + apply IH.
    + cbn in v. destruct v as [x|].
      * destruct (IH (S d) r rl x) as (e & tl & E & Hr & Hd). exists e, tl. rewrite E. repeat split; auto; lia.
      * eexists _, _. split; [reflexivity|]. cbn. split; lia.
    + cbn in v. destruct v as [|x xs].
      * eexists _, _. split; [reflexivity|]. cbn. split; lia.
      * destruct (IH (S d) r (S rl) x) as (e & tl & E & Hr & Hd). rewrite E.
        exists e, (tl ++ flat_map (shred p (S d) (S rl) (S rl)) xs). repeat split; auto; lia.
Qed.

Lemma shred_length_pos p d r rl (v : val p) : 1 <= length (shred p d r rl v).
Proof. destruct (shred_hd p d r rl v) as (e & tl & E & _). rewrite E. cbn. lia. Qed.

Lemma head_lt_app_shred p d k rl (x : val p) rest j : k < j -> head_lt (shred p d k rl x ++ rest) j.
Proof. intros H. destruct (shred_hd p d k rl x) as (e & tl & E & Hr & _). rewrite E. cbn. lia. Qed.

Lemma many_cons {A} f (one : list entry -> option (A * list entry)) rl e tl :
  many (S f) one rl (e :: tl) =
  if (e_rep e =? rl)%nat then
    match one (e :: tl) with
    | None => None
    | Some (x, es') => match many f one rl es' with None => None | Some (xs, r) => Some (x :: xs, r) end
    end
  else Some ([], e :: tl).
Proof. reflexivity. Qed.

Lemma assemble_opt_cons fuel p d rl e r :
  assemble fuel (Opt :: p) d rl (e :: r) =
  if (e_def e =? d)%nat then (match e_val e with None => Some (None, r) | Some _ => None end)
  else if (e_def e <? d)%nat then None
  else match assemble fuel p (S d) rl (e :: r) with None => None | Some (x, r') => Some (Some x, r') end.
Proof. reflexivity. Qed.

Lemma assemble_rep_cons fuel p d rl e r :
  assemble fuel (Rep :: p) d rl (e :: r) =
  if (e_def e =? d)%nat then (match e_val e with None => Some ([], r) | Some _ => None end)
  else if (e_def e <? d)%nat then None
  else match assemble fuel p (S d) (S rl) (e :: r) with
       | None => None
       | Some (x, es') =>
         match many fuel (assemble fuel p (S d) (S rl)) (S rl) es' with
         | None => None
         | Some (xs, r') => Some (x :: xs, r')
         end
       end.
Proof. reflexivity. Qed.

Lemma many_ok (p : path) fuel' d rl
  (IH : forall r (v : val p) rest, length (shred p d r rl v ++ rest) <= fuel' -> head_lt rest (S rl) ->
        assemble fuel' p d rl (shred p d r rl v ++ rest) = Some (v, rest)) :
  forall (xs : list (val p)) fm rest, length xs < fm ->
    length (flat_map (shred p d rl rl) xs ++ rest) <= fuel' -> head_lt rest rl ->
    many fm (assemble fuel' p d rl) rl (flat_map (shred p d rl rl) xs ++ rest) = Some (xs, rest).
Proof.
  induction xs as [|x xs IHxs]; intros fm rest Hfm Hlen Hh.
  - destruct fm as [|fm]; [lia|]. cbn [flat_map app many].
    destruct rest as [|e rest']; [reflexivity|].
    cbn in Hh. destruct (Nat.eqb_spec (e_rep e) rl); [lia|reflexivity].
  - destruct fm as [|fm]; [cbn in Hfm; lia|].
    cbn [flat_map]. rewrite <- app_assoc.
    destruct (shred_hd p d rl rl x) as (e & tl & E & Hr & _).
    assert (E' : shred p d rl rl x ++ flat_map (shred p d rl rl) xs ++ rest = e :: (tl ++ flat_map (shred p d rl rl) xs ++ rest))
      by (rewrite E; reflexivity).
    rewrite E', many_cons, Hr, Nat.eqb_refl, <- E'.
    cbn [flat_map] in Hlen. rewrite <- app_assoc in Hlen.
    rewrite IH.
    + rewrite IHxs; [reflexivity| cbn in Hfm; lia | | exact Hh].
      rewrite app_length in Hlen. lia.
    + exact Hlen.
    + destruct xs as [|y ys]; cbn [flat_map app].
      * destruct rest; cbn in *; lia.
      * rewrite <- app_assoc. apply head_lt_app_shred. lia.
Qed.

Theorem shred_assemble_gen (p : path) : forall fuel d r rl (v : val p) rest,
  length (shred p d r rl v ++ rest) <= fuel -> head_lt rest (S rl) ->
  assemble fuel p d rl (shred p d r rl v ++ rest) = Some (v, rest).
Proof.
  induction p as [|n p IH]; intros fuel d r rl v rest Hlen Hh.
  - cbn. rewrite Nat.eqb_refl. reflexivity.
  - destruct n; cbn [shred].
    + cbn [assemble]. apply IH; assumption.
    + cbn in v. destruct v as [x|].
      * destruct (shred_hd p (S d) r rl x) as (e & tl & E & Hr & Hd).
        cbn [shred] in Hlen.
        assert (E' : shred p (S d) r rl x ++ rest = e :: (tl ++ rest)) by (rewrite E; reflexivity).
        rewrite E', assemble_opt_cons.
        destruct (Nat.eqb_spec (e_def e) d); [lia|].
        destruct (Nat.ltb_spec (e_def e) d); [lia|].
        rewrite <- E'.
        rewrite IH by assumption. reflexivity.
      * cbn. rewrite Nat.eqb_refl. reflexivity.
    + cbn in v. destruct v as [|x xs].
      * cbn. rewrite Nat.eqb_refl. reflexivity.
      * destruct (shred_hd p (S d) r (S rl) x) as (e & tl & E & Hr & Hd).
        cbn [shred] in Hlen. rewrite <- app_assoc in Hlen. rewrite <- app_assoc.
        assert (E' : shred p (S d) r (S rl) x ++ flat_map (shred p (S d) (S rl) (S rl)) xs ++ rest
                     = e :: (tl ++ flat_map (shred p (S d) (S rl) (S rl)) xs ++ rest)) by (rewrite E; reflexivity).
        rewrite E', assemble_rep_cons.
        destruct (Nat.eqb_spec (e_def e) d); [lia|].
        destruct (Nat.ltb_spec (e_def e) d); [lia|].
        rewrite <- E'.
        rewrite IH.
        -- rewrite (many_ok p fuel (S d) (S rl)).
           ++ reflexivity.
           ++ intros r0 v0 rest0 H1 H2. apply IH; assumption.
           ++ rewrite !app_length in Hlen. pose proof (shred_length_pos p (S d) r (S rl) x) as Hp.
              assert (Hx : length xs <= length (flat_map (shred p (S d) (S rl) (S rl)) xs)).
              { clear. induction xs as [|y ys IHy]; [cbn; lia|]. cbn [flat_map length]. rewrite app_length.
                pose proof (shred_length_pos p (S d) (S rl) (S rl) y). lia. }
              lia.
           ++ rewrite !app_length in Hlen. rewrite app_length. lia.
           ++ exact Hh.
        -- exact Hlen.
        -- destruct xs as [|y ys]; cbn [flat_map app].
           ++ destruct rest; cbn in *; lia.
           ++ rewrite <- app_assoc. apply head_lt_app_shred. lia.
Qed.

(* a whole chunk: rows start at repetition level 0 *)
Lemma shred_rows_cons p (x : val p) xs : shred_rows p (x :: xs) = shred p 0 0 0 x ++ shred_rows p xs.
Proof. reflexivity. Qed.

Lemma rows_length_le p (xs : list (val p)) : length xs <= length (shred_rows p xs).
Proof.
  induction xs as [|y ys IHy]; [cbn; lia|]. rewrite shred_rows_cons, app_length.
  pose proof (shred_length_pos p 0 0 0 y). cbn [length]. lia.
Qed.

Theorem shred_assemble_rows (p : path) : forall (rows : list (val p)) fuel,
  length rows <= fuel -> assemble_rows fuel p (shred_rows p rows) = Some rows.
Proof.
  induction rows as [|x xs IH]; intros fuel Hf.
  - destruct fuel; reflexivity.
  - destruct fuel as [|fuel]; [cbn in Hf; lia|].
    rewrite shred_rows_cons. cbn [assemble_rows].
    destruct (shred_hd p 0 0 0 x) as (e & tl & E & _).
    assert (E' : shred p 0 0 0 x ++ shred_rows p xs = e :: (tl ++ shred_rows p xs)) by (rewrite E; reflexivity).
    rewrite E'. rewrite <- E'.
    rewrite shred_assemble_gen.
    + rewrite IH by (cbn in Hf; lia). reflexivity.
    + lia.
    + destruct xs as [|y ys]; [exact I|]. rewrite shred_rows_cons. apply head_lt_app_shred. lia.
Qed.

(* batch-split independence: shredding two batches one after the other = shredding their concatenation *)
Theorem shred_partition (p : path) (rows1 rows2 : list (val p)) :
  shred_rows p (rows1 ++ rows2) = shred_rows p rows1 ++ shred_rows p rows2.
Proof. unfold shred_rows. apply flat_map_app. Qed.

(* levels stay within the path's maxima; a leaf value is present exactly at the maximal definition level *)
Lemma filter_length_le {A} (f : A -> bool) l : length (filter f l) <= length l.
Proof. induction l as [|a l IH]; cbn; [lia|]. destruct (f a); cbn; lia. Qed.

Theorem shred_levels_bounded (p : path) : forall d r rl (v : val p) e,
  In e (shred p d r rl v) ->
  e_def e <= d + max_def p /\ e_rep e <= Nat.max r (rl + max_rep p) /\
  (e_val e <> None <-> e_def e = d + max_def p).
Proof.
  induction p as [|n p IH]; intros d r rl v e Hin.
  - cbn in Hin. destruct Hin as [<-|[]]. cbn. repeat split; try lia. intros _. discriminate.
  - destruct n; cbn [shred] in Hin.
    + specialize (IH d r rl v e Hin). unfold max_def, max_rep in *. cbn [filter]. exact IH.
    + cbn in v. destruct v as [x|].
      * specialize (IH (S d) r rl x e Hin). unfold max_def, max_rep in *. cbn [filter length].
        destruct IH as (A & B & C). repeat split; try lia. intros Hv. apply C in Hv. lia. intros Hv. apply C. lia.
      * destruct Hin as [<-|[]]. unfold max_def, max_rep. cbn [filter length e_def e_rep e_val].
        repeat split; try lia. intros Hc. exfalso. apply Hc. reflexivity.
    + cbn in v. destruct v as [|x xs].
      * destruct Hin as [<-|[]]. unfold max_def, max_rep. cbn [filter length e_def e_rep e_val].
        repeat split; try lia. intros Hc. exfalso. apply Hc. reflexivity.
      * unfold max_def, max_rep. cbn [filter length]. fold (max_def p) (max_rep p).
        apply in_app_or in Hin. destruct Hin as [Hin|Hin].
        -- specialize (IH (S d) r (S rl) x e Hin). destruct IH as (A & B & C).
           repeat split; try lia. intros Hv. apply C in Hv. lia. intros Hv. apply C. lia.
        -- apply in_flat_map in Hin. destruct Hin as (y & _ & Hin).
           specialize (IH (S d) (S rl) (S rl) y e Hin). destruct IH as (A & B & C).
           repeat split; try lia. intros Hv. apply C in Hv. lia. intros Hv. apply C. lia.
Qed.

(* the token flattening of the case interface is faithful *)
Lemma parse_n_unparse (p : path)
  (IH : forall (v : val p) rest, parse p (unparse p v ++ rest) = Some (v, rest)) :
  forall (xs : list (val p)) rest, parse_n (parse p) (length xs) (flat_map (unparse p) xs ++ rest) = Some (xs, rest).
Proof.
  induction xs as [|x xs IHx]; intros rest; [reflexivity|].
  cbn [length parse_n flat_map]. rewrite <- app_assoc, IH, IHx. reflexivity.
Qed.

Theorem parse_unparse (p : path) : forall (v : val p) rest, parse p (unparse p v ++ rest) = Some (v, rest).
Proof.
  induction p as [|n p IH]; intros v rest.
  - reflexivity.
  - destruct n; cbn [parse unparse].
    + apply IH.
    + cbn in v. destruct v as [x|]; cbn [app]; [|reflexivity].
      cbn [Z.eqb]. rewrite IH. reflexivity.
    + cbn in v. cbn [app]. rewrite Nat2Z.id. apply parse_n_unparse, IH.
Qed.
