(* C12 — decimal rows: the closure applied per row by decimal_op is exact-or-error at the common
   scale: Overflow iff a rescaled operand or the result does not fit the native type,
   DivideByZero iff the rescaled divisor is zero. *)
From Coq Require Import List ZArith Bool Lia.
From AV Require Import Model.C12_Int Model.C12_Kernel Model.C12_Decimal Proofs.C12_Int Proofs.C12_Kernel.
Import ListNotations.
Local Open Scope Z_scope.

Section Width.
Variable H : Z.
Hypothesis Hpos : 0 < H.

Lemma fits_mul x m k : rbind (mul_checked true H x m) k = fits H (x * m) k.
Proof. rewrite (mul_checked_spec H Hpos). unfold fits. destruct (in_range true H (x * m)); reflexivity. Qed.

Theorem decimal_row_exact op same lm rm x y :
  in_range true H x = true -> in_range true H y = true ->
  (same = true -> lm = 1 /\ rm = 1) -> (op = DMul -> lm = 1 /\ rm = 1) ->
  (op = DRem -> ~ (x * lm = - H /\ y * rm = -1)) ->
  decimal_row H op same lm rm x y = spec_decimal_row H op lm rm x y.
Proof.
  intros Rx Ry Hs Hm Hr. unfold decimal_row, spec_decimal_row.
  assert (F1 : forall k, fits H (x * 1) (fun a => fits H (y * 1) (fun b => k a b)) = k x y).
  { intros k. unfold fits. rewrite !Z.mul_1_r, Rx, Ry. reflexivity. }
  assert (Resc : forall (k : Z -> Z -> res) (k' : Z -> Z -> res),
            (forall a b, in_range true H a = true -> in_range true H b = true -> k a b = k' a b) ->
            rbind (mul_checked true H x lm) (fun a => rbind (mul_checked true H y rm) (fun b => k a b))
            = fits H (x * lm) (fun a => fits H (y * rm) (fun b => k' a b))).
  { intros k k' E. rewrite fits_mul. unfold fits at 1 2.
    destruct (in_range true H (x * lm)) eqn:Ra; [|reflexivity].
    rewrite fits_mul. unfold fits at 1 2.
    destruct (in_range true H (y * rm)) eqn:Rb; [|reflexivity]. now apply E. }
  destruct op.
  - destruct same.
    + destruct (Hs eq_refl) as [-> ->]. rewrite (F1 (fun a b => fits H (a + b) Ok)).
      rewrite (add_checked_spec H Hpos). reflexivity.
    + apply Resc. intros a b _ _. rewrite (add_checked_spec H Hpos). reflexivity.
  - destruct same.
    + destruct (Hs eq_refl) as [-> ->]. rewrite (F1 (fun a b => fits H (a - b) Ok)).
      rewrite (sub_checked_spec H Hpos). reflexivity.
    + apply Resc. intros a b _ _. rewrite (sub_checked_spec H Hpos). reflexivity.
  - destruct (Hm eq_refl) as [-> ->]. rewrite (F1 (fun a b => fits H (a * b) Ok)).
    rewrite (mul_checked_spec H Hpos). reflexivity.
  - apply Resc. intros a b Ra Rb. rewrite (div_checked_spec H Hpos true _ _ Ra Rb). reflexivity.
  - (* rem: the closure sees the rescaled operands *)
    rewrite fits_mul. unfold fits at 1 2.
    destruct (in_range true H (x * lm)) eqn:Ra; [|reflexivity].
    rewrite fits_mul. unfold fits at 1 2.
    destruct (in_range true H (y * rm)) eqn:Rb; [|reflexivity].
    unfold mod_checked. destruct (Z.eqb_spec (y * rm) 0) as [E0|E0]; [reflexivity|].
    unfold checked_rem. rewrite (proj2 (Z.eqb_neq _ _) E0). cbn [orb andb tmin].
    destruct (Z.eqb_spec (x * lm) (- H)) as [E1|E1]; destruct (Z.eqb_spec (y * rm) (-1)) as [E2|E2]; cbn [andb of_opt];
      try reflexivity.
    exfalso. apply (Hr eq_refl). auto.
Qed.

(* kernel level: rows, nulls and scalars — by the generic row theorem *)
Theorem decimal_rows op same lm rm l_s r_s l r :
  wf l -> wf r -> (l_s = true -> arr_len l = 1%nat) -> (r_s = true -> arr_len r = 1%nat) ->
  vals_in_range H true l -> vals_in_range H true r ->
  (same = true -> lm = 1 /\ rm = 1) -> (op = DMul -> lm = 1 /\ rm = 1) ->
  (op = DRem -> forall x y, ~ (x * lm = - H /\ y * rm = -1)) ->
  canon (try_op (decimal_row H op same lm rm) l_s r_s l r)
  = spec_binary_kernel (spec_decimal_row H op lm rm) l_s r_s (denote l) (denote r).
Proof.
  intros Wl Wr Sl Sr Rl Rr Hs Hm Hr. rewrite try_op_spec by assumption.
  apply (spec_binary_kernel_ext (fun x => in_range true H x = true)); [|now apply rows_in_denote|now apply rows_in_denote].
  intros x y Rx Ry. apply decimal_row_exact; auto.
Qed.

End Width.

(* ---- the whole kernel: result type, multiplier checks, rows, final type validation *)
Definition dcanon (d : dres) : (list (option Z) * (Z * Z)) + Z :=
  match d with
  | DOk v n p s => inl (denote (mkarr v n), (p, s))
  | DErr k => inr k
  end.

Section Kernel.
Variable H : Z.
Hypothesis H2 : 2 <= H.
Variable m : Z.            (* MAX_PRECISION = MAX_SCALE *)
Hypothesis Hm : 1 <= m <= 76.

Lemma pow10_pos k : 0 < 10 ^ k \/ 10 ^ k = 0.
Proof. destruct (Z_lt_le_dec k 0); [right; now apply Z.pow_neg_r|left; apply Z.pow_pos_nonneg; lia]. Qed.

Lemma in_range_one : in_range true H 1 = true.
Proof. apply in_range_iff. unfold tmin, tmax. lia. Qed.

Lemma finish_ok r p s : 1 <= p <= m -> s <= m -> - 128 < s -> ~ (0 < s /\ p < s) ->
  dcanon (finish m m r p s) = match canon r with inl rows => inl (rows, (p, s)) | inr k => inr k end.
Proof.
  intros Hp Hs Hs' Hv. unfold finish. destruct r as [v n|k]; [|reflexivity].
  assert (V : validate_ps m m p s = true).
  { unfold validate_ps, as_u8. apply andb_true_iff. split; [apply andb_true_iff; split; [apply andb_true_iff; split|]|].
    - apply negb_true_iff. apply Z.eqb_neq. lia.
    - apply Z.leb_le. lia.
    - apply Z.leb_le. lia.
    - apply negb_true_iff. apply andb_false_iff.
      destruct (Z.ltb_spec 0 s) as [Ps|Ps]; [right|left; reflexivity].
      apply Z.ltb_ge. rewrite Z.mod_small by lia. lia. }
  rewrite V. reflexivity.
Qed.
Lemma finish_invalid r p s : 1 <= p <= m -> 0 < s <= m -> p < s ->
  dcanon (finish m m r p s) = match canon r with inl rows => inr E_INVALID | inr k => inr k end.
Proof.
  intros Hp Hs Hv. unfold finish. destruct r as [v n|k]; [|reflexivity].
  assert (V : validate_ps m m p s = false).
  { unfold validate_ps, as_u8. apply andb_false_iff. right. apply negb_false_iff. apply andb_true_iff. split.
    - apply Z.ltb_lt. lia.
    - apply Z.ltb_lt. rewrite Z.mod_small by lia. lia. }
  rewrite V. reflexivity.
Qed.

Theorem decimal_op_spec op l_s r_s p1 s1 p2 s2 l r :
  1 <= p1 <= m -> 1 <= p2 <= m -> - 40 <= s1 <= p1 -> - 40 <= s2 <= p2 ->
  1 <= fst (spec_result_type m m op p1 s1 p2 s2) ->
  wf l -> wf r -> (l_s = true -> arr_len l = 1%nat) -> (r_s = true -> arr_len r = 1%nat) ->
  vals_in_range H true l -> vals_in_range H true r ->
  (op = DRem -> Forall (fun x => x * 10 ^ (Z.max s1 s2 - s1) <> - H) (a_vals l)) ->
  dcanon (decimal_op H m m op l_s r_s p1 s1 p2 s2 l r)
  = spec_decimal H m m op l_s r_s p1 s1 p2 s2 (denote l) (denote r).
Proof.
  intros Hp1 Hp2 Hs1 Hs2 Hdoc Wl Wr Sl Sr Rl Rr Hrem.
  assert (Hpos : 0 < H) by lia.
  assert (Rows : forall op' same lm rm,
     (same = true -> lm = 1 /\ rm = 1) -> (op' = DMul -> lm = 1 /\ rm = 1) ->
     (op' = DRem -> Forall (fun x => x * lm <> - H) (a_vals l)) ->
     canon (try_op (decimal_row H op' same lm rm) l_s r_s l r)
     = spec_binary_kernel (spec_decimal_row H op' lm rm) l_s r_s (denote l) (denote r)).
  { intros op' same lm rm Hs Hmu Hr. rewrite try_op_spec by assumption.
    apply (spec_binary_kernel_ext2 (fun x => in_range true H x = true /\ (op' = DRem -> x * lm <> - H))
                                   (fun x => in_range true H x = true)).
    - intros x y [Rx Nx] Ry. apply (decimal_row_exact H Hpos); auto. intros E [E1 _]. exact (Nx E E1).
    - apply rows_in_denote. apply Forall_forall. intros x Hx. split.
      + exact (proj1 (Forall_forall _ _) Rl x Hx).
      + intros E. exact (proj1 (Forall_forall _ _) (Hr E) x Hx).
    - now apply rows_in_denote. }
  unfold decimal_op, spec_decimal, spec_result_type, spec_exponents in *.
  destruct op; cbn [fst] in Hdoc.
  - (* add *)
    set (rs := Z.max s1 s2) in *. set (d := Z.max (p1 - s1) (p2 - s2)) in *.
    assert (Ed : 1 <= rs + d <= 200) by (unfold rs, d; lia).
    assert (Erp : Z.min (sat_u8 (as_u8 (sat_i8 (rs + d)) + 1)) m = Z.min (rs + d + 1) m).
    { unfold sat_u8, as_u8, sat_i8. rewrite (Z.max_r (-128)) by lia.
      set (y := Z.min 127 (rs + d)). assert (Hy : 1 <= y <= 127) by (unfold y; lia).
      rewrite Z.mod_small by lia. unfold y. lia. }
    rewrite Erp. replace (m <? rs) with false by (symmetry; apply Z.ltb_ge; unfold rs; lia).
    unfold pow10_checked.
    destruct (in_range true H (10 ^ (rs - s1))) eqn:I1; cbn [negb andb]; [|reflexivity].
    destruct (in_range true H (10 ^ (rs - s2))) eqn:I2; cbn [negb andb]; [|reflexivity].
    assert (Hsame : (s1 =? s2) = true -> 10 ^ (rs - s1) = 1 /\ 10 ^ (rs - s2) = 1).
    { intros E. apply Z.eqb_eq in E. unfold rs. subst s2. rewrite Z.max_id, Z.sub_diag. auto. }
    rewrite finish_ok by (unfold rs, d in *; lia). rewrite (Rows DAdd) by (auto; discriminate).
    destruct (spec_binary_kernel _ l_s r_s (denote l) (denote r)); [|reflexivity].
    replace ((1 <=? Z.min (rs + d + 1) m) && negb ((0 <? rs) && (Z.min (rs + d + 1) m <? rs))) with true; [reflexivity|].
    symmetry. apply andb_true_iff. split; [apply Z.leb_le; lia|].
    apply negb_true_iff. apply andb_false_iff. right. apply Z.ltb_ge. unfold rs, d in *. lia.
  - (* sub *)
    set (rs := Z.max s1 s2) in *. set (d := Z.max (p1 - s1) (p2 - s2)) in *.
    assert (Ed : 1 <= rs + d <= 200) by (unfold rs, d; lia).
    assert (Erp : Z.min (sat_u8 (as_u8 (sat_i8 (rs + d)) + 1)) m = Z.min (rs + d + 1) m).
    { unfold sat_u8, as_u8, sat_i8. rewrite (Z.max_r (-128)) by lia.
      set (y := Z.min 127 (rs + d)). assert (Hy : 1 <= y <= 127) by (unfold y; lia).
      rewrite Z.mod_small by lia. unfold y. lia. }
    rewrite Erp. replace (m <? rs) with false by (symmetry; apply Z.ltb_ge; unfold rs; lia).
    unfold pow10_checked.
    destruct (in_range true H (10 ^ (rs - s1))) eqn:I1; cbn [negb andb]; [|reflexivity].
    destruct (in_range true H (10 ^ (rs - s2))) eqn:I2; cbn [negb andb]; [|reflexivity].
    assert (Hsame : (s1 =? s2) = true -> 10 ^ (rs - s1) = 1 /\ 10 ^ (rs - s2) = 1).
    { intros E. apply Z.eqb_eq in E. unfold rs. subst s2. rewrite Z.max_id, Z.sub_diag. auto. }
    rewrite finish_ok by (unfold rs, d in *; lia). rewrite (Rows DSub) by (auto; discriminate).
    destruct (spec_binary_kernel _ l_s r_s (denote l) (denote r)); [|reflexivity].
    replace ((1 <=? Z.min (rs + d + 1) m) && negb ((0 <? rs) && (Z.min (rs + d + 1) m <? rs))) with true; [reflexivity|].
    symmetry. apply andb_true_iff. split; [apply Z.leb_le; lia|].
    apply negb_true_iff. apply andb_false_iff. right. apply Z.ltb_ge. unfold rs, d in *. lia.
  - (* mul *)
    assert (Erp : Z.min (sat_u8 (p1 + (p2 + 1))) m = Z.min (p1 + p2 + 1) m) by (unfold sat_u8; lia).
    rewrite Erp.
    destruct (Z.ltb_spec m (s1 + s2)) as [Big|Small].
    { replace (m <? sat_i8 (s1 + s2)) with true; [reflexivity|]. symmetry. apply Z.ltb_lt. unfold sat_i8. lia. }
    assert (Ers : sat_i8 (s1 + s2) = s1 + s2) by (unfold sat_i8; lia).
    rewrite Ers. replace (m <? s1 + s2) with false by (symmetry; apply Z.ltb_ge; lia).
    change (10 ^ 0) with 1. rewrite in_range_one. cbn [negb andb].
    rewrite finish_ok by lia. rewrite (Rows DMul) by (auto; discriminate).
    destruct (spec_binary_kernel _ l_s r_s (denote l) (denote r)); [|reflexivity].
    replace ((1 <=? Z.min (p1 + p2 + 1) m) && negb ((0 <? s1 + s2) && (Z.min (p1 + p2 + 1) m <? s1 + s2))) with true; [reflexivity|].
    symmetry. apply andb_true_iff. split; [apply Z.leb_le; lia|].
    apply negb_true_iff. apply andb_false_iff. right. apply Z.ltb_ge. lia.
  - (* div *)
    assert (Ers : Z.min (sat_i8 (s1 + 4)) m = Z.min (s1 + 4) m) by (unfold sat_i8; lia).
    rewrite Ers. set (rs := Z.min (s1 + 4) m) in *. set (e := rs - s1 + s2) in *.
    assert (Be : - 160 <= e <= 160) by (unfold e, rs; lia).
    assert (Erp : Z.min (as_u8 (sat_i8 (e + p1))) m = Z.min (p1 - s1 + s2 + rs) m).
    { assert (E1 : e + p1 = p1 - s1 + s2 + rs) by (unfold e; ring).
      unfold as_u8, sat_i8. rewrite E1. rewrite (Z.max_r (-128)) by lia.
      destruct (Z_le_gt_dec (p1 - s1 + s2 + rs) 127).
      - rewrite (Z.min_r 127) by lia. rewrite Z.mod_small by lia. reflexivity.
      - rewrite (Z.min_l 127) by lia. change (127 mod 256) with 127. lia. }
    rewrite Erp. replace (m <? rs) with false by (symmetry; apply Z.ltb_ge; unfold rs; lia).
    unfold pow10_checked.
    assert (El : (if 0 <? e then (if in_range true H (10 ^ e) then Ok (10 ^ e) else Err E_OVERFLOW) else Ok 1)
                 = if in_range true H (10 ^ Z.max e 0) then Ok (10 ^ Z.max e 0) else Err E_OVERFLOW).
    { destruct (Z.ltb_spec 0 e); [rewrite Z.max_l by lia; reflexivity|].
      rewrite Z.max_r by lia. change (10 ^ 0) with 1. now rewrite in_range_one. }
    assert (Er : (if e <? 0 then (if in_range true H (10 ^ (- e)) then Ok (10 ^ (- e)) else Err E_OVERFLOW) else Ok 1)
                 = if in_range true H (10 ^ Z.max (- e) 0) then Ok (10 ^ Z.max (- e) 0) else Err E_OVERFLOW).
    { destruct (Z.ltb_spec e 0); [rewrite Z.max_l by lia; reflexivity|].
      rewrite Z.max_r by lia. change (10 ^ 0) with 1. now rewrite in_range_one. }
    rewrite El, Er.
    destruct (in_range true H (10 ^ Z.max e 0)) eqn:I1; cbn [negb andb]; [|reflexivity].
    destruct (in_range true H (10 ^ Z.max (- e) 0)) eqn:I2; cbn [negb andb]; [|reflexivity].
    set (rp := Z.min (p1 - s1 + s2 + rs) m) in *.
    destruct (Z_lt_ge_dec 0 rs) as [Prs|Nrs]; [destruct (Z_lt_ge_dec rp rs) as [Inv|Val]|].
    + rewrite finish_invalid by (unfold rp, rs in *; lia). rewrite (Rows DDiv) by (auto; discriminate).
      destruct (spec_binary_kernel _ l_s r_s (denote l) (denote r)); [|reflexivity].
      replace ((1 <=? rp) && negb ((0 <? rs) && (rp <? rs))) with false; [reflexivity|].
      symmetry. apply andb_false_iff. right. apply negb_false_iff. apply andb_true_iff. split; apply Z.ltb_lt; lia.
    + rewrite finish_ok by (unfold rp, rs in *; lia). rewrite (Rows DDiv) by (auto; discriminate).
      destruct (spec_binary_kernel _ l_s r_s (denote l) (denote r)); [|reflexivity].
      replace ((1 <=? rp) && negb ((0 <? rs) && (rp <? rs))) with true; [reflexivity|].
      symmetry. apply andb_true_iff. split; [apply Z.leb_le; unfold rp in *; lia|].
      apply negb_true_iff. apply andb_false_iff. right. apply Z.ltb_ge. lia.
    + rewrite finish_ok by (unfold rp, rs in *; lia). rewrite (Rows DDiv) by (auto; discriminate).
      destruct (spec_binary_kernel _ l_s r_s (denote l) (denote r)); [|reflexivity].
      replace ((1 <=? rp) && negb ((0 <? rs) && (rp <? rs))) with true; [reflexivity|].
      symmetry. apply andb_true_iff. split; [apply Z.leb_le; unfold rp in *; lia|].
      apply negb_true_iff. apply andb_false_iff. left. apply Z.ltb_ge. lia.
  - (* rem *)
    pose proof (Hrem eq_refl) as Nmin.
    set (rs := Z.max s1 s2) in *. set (d := Z.min (p1 - s1) (p2 - s2)) in *.
    assert (Ed : 1 <= rs + d <= 200) by (unfold rs, d in *; lia).
    assert (Erp : Z.min (as_u8 (sat_i8 (rs + d))) m = Z.min (d + rs) m).
    { unfold as_u8, sat_i8. rewrite (Z.max_r (-128)) by lia.
      set (y := Z.min 127 (rs + d)). assert (Hy : 1 <= y <= 127) by (unfold y; lia).
      rewrite Z.mod_small by lia. unfold y. lia. }
    rewrite Erp. replace (m <? rs) with false by (symmetry; apply Z.ltb_ge; unfold rs; lia).
    unfold pow10_checked.
    destruct (in_range true H (10 ^ (rs - s1))) eqn:I1; cbn [negb andb]; [|reflexivity].
    destruct (in_range true H (10 ^ (rs - s2))) eqn:I2; cbn [negb andb]; [|reflexivity].
    rewrite finish_ok by (unfold rs, d in *; lia). rewrite (Rows DRem) by (auto; discriminate).
    destruct (spec_binary_kernel _ l_s r_s (denote l) (denote r)); [|reflexivity].
    replace ((1 <=? Z.min (d + rs) m) && negb ((0 <? rs) && (Z.min (d + rs) m <? rs))) with true; [reflexivity|].
    symmetry. apply andb_true_iff. split; [apply Z.leb_le; lia|].
    apply negb_true_iff. apply andb_false_iff. right. apply Z.ltb_ge. unfold rs, d in *. lia.
Qed.

End Kernel.
