(* C12 — decimal rows: the closure applied per row by decimal_op is exact-or-error at the common
   scale: Overflow iff a rescaled operand or the result does not fit the native type,
   DivideByZero iff the rescaled divisor is zero. *)
From Coq Require Import List ZArith Bool Lia.
From AV Require Import Model.C12_Int Model.C12_Kernel Model.C12_Decimal Proofs.C12_Int Proofs.C12_Kernel.
Import ListNotations.
Local Open Scope Z_scope.

Section Width.
Variable H : Z.
Hypothesis Hpos : 0 < H.

Lemma fits_mul x m k : rbind (mul_checked true H x m) k = fits H (x * m) k.
Proof. rewrite (mul_checked_spec H Hpos). unfold fits. destruct (in_range true H (x * m)); reflexivity. Qed.

Theorem decimal_row_exact op same lm rm x y :
  in_range true H x = true -> in_range true H y = true ->
  (same = true -> lm = 1 /\ rm = 1) -> (op = DMul -> lm = 1 /\ rm = 1) ->
  (op = DRem -> ~ (x * lm = - H /\ y * rm = -1)) ->
  decimal_row H op same lm rm x y = spec_decimal_row H op lm rm x y.
Proof.
  intros Rx Ry Hs Hm Hr. unfold decimal_row, spec_decimal_row.
  assert (F1 : forall k, fits H (x * 1) (fun a => fits H (y * 1) (fun b => k a b)) = k x y).
  { intros k. unfold fits. rewrite !Z.mul_1_r, Rx, Ry. reflexivity. }
  assert (Resc : forall (k : Z -> Z -> res) (k' : Z -> Z -> res),
            (forall a b, in_range true H a = true -> in_range true H b = true -> k a b = k' a b) ->
            rbind (mul_checked true H x lm) (fun a => rbind (mul_checked true H y rm) (fun b => k a b))
            = fits H (x * lm) (fun a => fits H (y * rm) (fun b => k' a b))).
  { intros k k' E. rewrite fits_mul. unfold fits at 1 2.
    destruct (in_range true H (x * lm)) eqn:Ra; [|reflexivity].
    rewrite fits_mul. unfold fits at 1 2.
    destruct (in_range true H (y * rm)) eqn:Rb; [|reflexivity]. now apply E. }
  destruct op.
  - destruct same.
    + destruct (Hs eq_refl) as [-> ->]. rewrite (F1 (fun a b => fits H (a + b) Ok)).
      rewrite (add_checked_spec H Hpos). reflexivity.
    + apply Resc. intros a b _ _. rewrite (add_checked_spec H Hpos). reflexivity.
  - destruct same.
    + destruct (Hs eq_refl) as [-> ->]. rewrite (F1 (fun a b => fits H (a - b) Ok)).
      rewrite (sub_checked_spec H Hpos). reflexivity.
    + apply Resc. intros a b _ _. rewrite (sub_checked_spec H Hpos). reflexivity.
  - destruct (Hm eq_refl) as [-> ->]. rewrite (F1 (fun a b => fits H (a * b) Ok)).
    rewrite (mul_checked_spec H Hpos). reflexivity.
  - apply Resc. intros a b Ra Rb. rewrite (div_checked_spec H Hpos true _ _ Ra Rb). reflexivity.
  - (* rem: the closure sees the rescaled operands *)
    rewrite fits_mul. unfold fits at 1 2.
    destruct (in_range true H (x * lm)) eqn:Ra; [|reflexivity].
    rewrite fits_mul. unfold fits at 1 2.
    destruct (in_range true H (y * rm)) eqn:Rb; [|reflexivity].
    unfold mod_checked. destruct (Z.eqb_spec (y * rm) 0) as [E0|E0]; [reflexivity|].
    unfold checked_rem. rewrite (proj2 (Z.eqb_neq _ _) E0). cbn [orb andb tmin].
    destruct (Z.eqb_spec (x * lm) (- H)) as [E1|E1]; destruct (Z.eqb_spec (y * rm) (-1)) as [E2|E2]; cbn [andb of_opt];
      try reflexivity.
    exfalso. apply (Hr eq_refl). auto.
Qed.

(* kernel level: rows, nulls and scalars — by the generic row theorem *)
Theorem decimal_rows op same lm rm l_s r_s l r :
  wf l -> wf r -> (l_s = true -> arr_len l = 1%nat) -> (r_s = true -> arr_len r = 1%nat) ->
  vals_in_range H true l -> vals_in_range H true r ->
  (same = true -> lm = 1 /\ rm = 1) -> (op = DMul -> lm = 1 /\ rm = 1) ->
  (op = DRem -> forall x y, ~ (x * lm = - H /\ y * rm = -1)) ->
  canon (try_op (decimal_row H op same lm rm) l_s r_s l r)
  = spec_binary_kernel (spec_decimal_row H op lm rm) l_s r_s (denote l) (denote r).
Proof.
  intros Wl Wr Sl Sr Rl Rr Hs Hm Hr. rewrite try_op_spec by assumption.
  apply (spec_binary_kernel_ext (fun x => in_range true H x = true)); [|now apply rows_in_denote|now apply rows_in_denote].
  intros x y Rx Ry. apply decimal_row_exact; auto.
Qed.

End Width.
