(* C19: BitChunks::remainder_bits (the byte loop) yields exactly the remaining bits, zero above. *)
From Coq Require Import List Arith NArith ZArith Lia Bool ZifyN ZifyNat ZifyBool.
From AV Require Import Base.ListX Base.Bits Base.Bytes Model.C19_Bits Proofs.C19_Chunks.
Import ListNotations.
Local Open Scope N_scope.
Ltac Zify.zify_post_hook ::= Z.div_mod_to_equations.

Lemma fold_lor_testbit (f : nat -> N) l : forall init j,
  N.testbit (fold_left (fun acc i => N.lor acc (f i)) l init) j =
  N.testbit init j || existsb (fun i => N.testbit (f i) j) l.
Proof.
  induction l as [|i l IH]; intros init j; cbn [fold_left existsb].
  - now rewrite orb_false_r.
  - rewrite IH, N.lor_spec. now rewrite orb_assoc.
Qed.

Lemma u64_shl_testbit x k j : j < 64 -> N.testbit (u64_shl x k) j = if j <? k then false else N.testbit x (j - k).
Proof.
  intros Hj. unfold u64_shl, mask64. rewrite N.land_spec, N.ones_spec_low, andb_true_r by exact Hj.
  destruct (N.ltb_spec j k); [now rewrite N.shiftl_spec_low | now rewrite N.shiftl_spec_high'].
Qed.

Lemma byte_testbit_high b k : b < 2^8 -> 8 <= k -> N.testbit b k = false.
Proof. intros. now apply (testbit_high b 8). Qed.

(* bit j (< 64) of the unmasked accumulator is bit (off + j) of the bytes at [base ..], as long as that
   byte is one of the byte_len bytes read *)
Lemma remainder_acc_testbit buf base off byte_len j :
  wf_bytes buf -> off < 8 -> (1 <= byte_len)%nat -> j < 64 -> ((N.to_nat off + N.to_nat j) / 8 < byte_len)%nat ->
  N.testbit (fold_left (fun acc i => N.lor acc (u64_shl (nth (base + i) buf 0) (N.of_nat (i * 8) - off)))
               (seq 1 (byte_len - 1)) (N.shiftr (nth base buf 0) off)) j
  = bit_at (skipn base buf) (N.to_nat off + N.to_nat j).
Proof.
  intros Hwf Ho Hbl Hj Hin.
  rewrite fold_lor_testbit, N.shiftr_spec'.
  unfold bit_at. rewrite nth_skipn'.
  set (q := ((N.to_nat off + N.to_nat j) / 8)%nat) in *.
  assert (Hqr := Nat.div_mod (N.to_nat off + N.to_nat j) 8 ltac:(lia)). fold q in Hqr.
  assert (Hr : ((N.to_nat off + N.to_nat j) mod 8 < 8)%nat) by (apply Nat.mod_upper_bound; lia).
  destruct (Nat.eq_dec q 0) as [Hq0|Hq0].
  - (* comes from the first byte; no later byte contributes below bit 8 - off *)
    rewrite Hq0 in *. rewrite Nat.add_0_r.
    assert (Ex : existsb (fun i => N.testbit (u64_shl (nth (base + i) buf 0) (N.of_nat (i * 8) - off)) j) (seq 1 (byte_len - 1)) = false).
    { apply not_true_is_false. intro Hex. apply existsb_exists in Hex. destruct Hex as [i [Hi Ht]].
      apply in_seq in Hi. rewrite u64_shl_testbit in Ht by exact Hj.
      destruct (N.ltb_spec j (N.of_nat (i * 8) - off)); [discriminate|lia]. }
    rewrite Ex, orb_false_r. f_equal. lia.
  - (* comes from byte q >= 1 *)
    assert (Hb0 : N.testbit (nth base buf 0) (j + off) = false).
    { apply byte_testbit_high; [apply nth_bound, Hwf|lia]. }
    rewrite Hb0. cbn [orb].
    assert (Hq : In q (seq 1 (byte_len - 1))) by (apply in_seq; lia).
    apply eq_true_iff_eq. split.
    + intro Hex. apply existsb_exists in Hex. destruct Hex as [i [Hi Ht]]. apply in_seq in Hi.
      rewrite u64_shl_testbit in Ht by exact Hj.
      destruct (N.ltb_spec j (N.of_nat (i * 8) - off)) as [|Hge]; [discriminate|].
      (* the bit index inside byte i is < 8, hence i = q *)
      assert (Hlt8 : j - (N.of_nat (i * 8) - off) < 8).
      { destruct (N.lt_ge_cases (j - (N.of_nat (i * 8) - off)) 8) as [|Hbig]; [assumption|].
        rewrite byte_testbit_high in Ht; [discriminate|apply nth_bound, Hwf|exact Hbig]. }
      assert (i = q) by nia. subst i.
      replace (N.of_nat ((N.to_nat off + N.to_nat j) mod 8)) with (j - (N.of_nat (q * 8) - off)) by lia. exact Ht.
    + intro Ht. apply existsb_exists. exists q. split; [exact Hq|].
      rewrite u64_shl_testbit by exact Hj.
      destruct (N.ltb_spec j (N.of_nat (q * 8) - off)); [lia|].
      replace (j - (N.of_nat (q * 8) - off)) with (N.of_nat ((N.to_nat off + N.to_nat j) mod 8)) by lia. exact Ht.
Qed.

Theorem remainder_bits_spec bs off len j :
  wf_bytes bs -> ((off + len + 7) / 8 <= length bs)%nat ->
  N.testbit (remainder_bits (bitchunks_new bs off len)) (N.of_nat j)
  = if (j <? len mod 64)%nat then nth (64 * (len / 64) + j) (bits_range bs off len) false else false.
Proof.
  intros Hwf Hlen.
  assert (Hm : (off mod 8 < 8)%nat) by (apply Nat.mod_upper_bound; lia).
  assert (Hr : (len mod 64 < 64)%nat) by (apply Nat.mod_upper_bound; lia).
  assert (Hdm := Nat.div_mod off 8 ltac:(lia)). assert (Hl64 := Nat.div_mod len 64 ltac:(lia)).
  unfold remainder_bits, bitchunks_new; cbn [bc_buf bc_bit_off bc_chunk_len bc_rem_len].
  destruct (Nat.eqb_spec (len mod 64) 0) as [E0|E0].
  { rewrite N.bits_0. rewrite E0. destruct (Nat.ltb_spec j 0); [lia|reflexivity]. }
  rewrite N.land_spec, ones_pred.
  destruct (Nat.ltb_spec j (len mod 64)) as [Hj|Hj].
  - rewrite N.ones_spec_low, andb_true_r by lia.
    rewrite (remainder_acc_testbit (skipn (off / 8) bs) (len / 64 * 8) (N.of_nat (off mod 8))).
    + rewrite bits_range_nth by lia. rewrite !bit_at_skipn. f_equal. lia.
    + apply wf_skipn, Hwf.
    + lia.
    + rewrite Nat2N.id. assert (H8 := Nat.div_mod (len mod 64 + off mod 8 + 7) 8 ltac:(lia)).
      assert ((len mod 64 + off mod 8 + 7) mod 8 < 8)%nat by (apply Nat.mod_upper_bound; lia). lia.
    + lia.
    + rewrite !Nat2N.id. apply Nat.div_lt_upper_bound; [lia|].
      assert (H8 := Nat.div_mod (len mod 64 + off mod 8 + 7) 8 ltac:(lia)).
      assert ((len mod 64 + off mod 8 + 7) mod 8 < 8)%nat by (apply Nat.mod_upper_bound; lia). lia.
  - rewrite N.ones_spec_high by lia. apply andb_false_r.
Qed.
