(* C02 — read-back: the column denoted by a builder-made array is the column that was appended. *)
From Coq Require Import List Arith NArith ZArith Bool Lia.
From AV Require Import Base.ListX Base.Bits Base.Bytes Model.C09_Layout Model.C02_Logical.
Import ListNotations.

Lemma map_seq_nth {A} (f : nat -> A) (l : list A) d :
  (forall i, i < length l -> f i = nth i l d) -> map f (seq 0 (length l)) = l.
Proof.
  intros H. apply (nth_ext_len _ _ d); [now rewrite map_length, seq_length|].
  rewrite map_length, seq_length. intros i Hi. rewrite nth_map_seq by exact Hi. now apply H.
Qed.

(* ------------------------------------------------------------------ bit packing *)
Lemma byte_of_bools_testbit l : forall j, N.testbit (byte_of_bools l) (N.of_nat j) = nth j l false.
Proof.
  induction l as [|b r IH]; intros j.
  - cbn [byte_of_bools]. rewrite N.bits_0. now destruct j.
  - cbn [byte_of_bools].
    replace ((if b then 1 else 0) + 2 * byte_of_bools r)%N with (2 * byte_of_bools r + N.b2n b)%N by (destruct b; cbn [N.b2n]; lia).
    destruct j as [|j].
    + cbn [nth]. change (N.of_nat 0) with 0%N. apply N.testbit_0_r.
    + cbn [nth]. rewrite Nat2N.inj_succ, N.testbit_succ_r. apply IH.
Qed.

Lemma bit_at_cons_low x r i : i < 8 -> bit_at (x :: r) i = N.testbit x (N.of_nat i).
Proof. intros H. unfold bit_at. now rewrite Nat.div_small, Nat.mod_small by exact H. Qed.
Lemma bit_at_cons_high x r i : 8 <= i -> bit_at (x :: r) i = bit_at r (i - 8).
Proof.
  intros H. unfold bit_at. replace i with ((i - 8) + 1 * 8) at 1 2 by lia.
  rewrite Nat.div_add, Nat.mod_add by lia. replace ((i - 8) / 8 + 1) with (S ((i - 8) / 8)) by lia. reflexivity.
Qed.
Lemma bit_at_nil i : bit_at [] i = false.
Proof. unfold bit_at. destruct (i / 8); cbn [nth]; apply N.bits_0. Qed.

Lemma bit_at_pack_bits fuel : forall l i, length l <= 8 * fuel -> bit_at (pack_bits fuel l) i = nth i l false.
Proof.
  induction fuel as [|f IH]; intros l i Hl.
  - destruct l; [|cbn [length] in Hl; lia]. cbn [pack_bits]. rewrite bit_at_nil. now destruct i.
  - destruct l as [|b l']; [cbn [pack_bits]; rewrite bit_at_nil; now destruct i|].
    change (pack_bits (S f) (b :: l')) with (byte_of_bools (firstn 8 (b :: l')) :: pack_bits f (skipn 8 (b :: l'))).
    destruct (Nat.lt_ge_cases i 8) as [Hi|Hi].
    + rewrite bit_at_cons_low by exact Hi. rewrite byte_of_bools_testbit. now apply nth_firstn'.
    + rewrite bit_at_cons_high by exact Hi. rewrite IH by (rewrite skipn_length; lia).
      rewrite nth_skipn'. f_equal. lia.
Qed.
Lemma bit_at_pack l i : bit_at (pack l) i = nth i l false.
Proof. unfold pack. apply bit_at_pack_bits. lia. Qed.

(* ------------------------------------------------------------------ validity of builder output *)
Lemma build_nulls_valid vs i : i < length vs ->
  match build_nulls vs with None => true | Some nb => nb_valid nb i end = is_valid_l (nth i vs LNull).
Proof.
  intros Hi. unfold build_nulls.
  destruct (forallb (fun b : bool => b) (map is_valid_l vs)) eqn:E.
  - rewrite forallb_forall in E. symmetry. apply E.
    change (is_valid_l (nth i vs LNull)) with ((fun v => is_valid_l v) (nth i vs LNull)).
    apply in_map. now apply nth_In.
  - unfold nb_valid; cbn [nb_bytes nb_off Nat.add]. rewrite bit_at_pack.
    change false with (is_valid_l LNull). apply map_nth.
Qed.

(* ------------------------------------------------------------------ fixed-size chunks of a flat_map *)
Lemma flat_map_chunk {A} (f : A -> list N) (w : nat) (vs : list A) d : (forall v, length (f v) = w) ->
  forall i, i < length vs -> firstn w (skipn (i * w) (flat_map f vs)) = f (nth i vs d).
Proof.
  intros Hw. induction vs as [|v r IH]; intros i Hi; [cbn [length] in Hi; lia|].
  cbn [flat_map]. destruct i as [|i].
  - cbn [Nat.mul skipn nth]. rewrite firstn_app, (Hw v), Nat.sub_diag. cbn [firstn]. rewrite app_nil_r.
    apply firstn_all2. rewrite Hw; lia.
  - cbn [nth]. replace (S i * w) with (length (f v) + i * w) by (rewrite Hw; lia).
    rewrite skipn_app, skipn_all2 by lia. cbn [app].
    replace (length (f v) + i * w - length (f v)) with (i * w) by lia.
    apply IH. cbn [length] in Hi. lia.
Qed.

(* ------------------------------------------------------------------ little-endian bytes *)
Lemma le_bytes_of_length w z : length (le_bytes_of w z) = w.
Proof. unfold le_bytes_of. now rewrite map_length, seq_length. Qed.

Lemma le_bytes_of_S w z : le_bytes_of (S w) z = N.land z 255 :: le_bytes_of w (N.shiftr z 8).
Proof.
  unfold le_bytes_of. cbn [seq map]. f_equal.
  rewrite <- seq_shift, map_map. apply map_ext. intros k.
  rewrite N.shiftr_shiftr. f_equal. f_equal. lia.
Qed.

Lemma le_val_le_bytes_of w : forall z, le_val (le_bytes_of w z) = (z mod 2 ^ N.of_nat (8 * w))%N.
Proof.
  induction w as [|w IH]; intros z.
  - cbn. now rewrite N.mod_1_r.
  - rewrite le_bytes_of_S. cbn [le_val]. rewrite IH.
    change 255%N with (N.ones 8). rewrite N.land_ones, N.shiftr_div_pow2.
    replace (N.of_nat (8 * S w)) with (8 + N.of_nat (8 * w))%N by lia.
    rewrite N.pow_add_r. symmetry. apply N.mod_mul_r; apply N.pow_nonzero; discriminate.
Qed.

Lemma le_at_flat w (f : lval -> list N) vs i : (forall v, length (f v) = w) -> i < length vs ->
  le_at (flat_map f vs) w i = le_val (f (nth i vs LNull)).
Proof. intros Hw Hi. unfold le_at. now rewrite (flat_map_chunk f w vs LNull Hw i Hi). Qed.

(* ------------------------------------------------------------------ primitive *)
Theorem readback_prim w vs : prim_col w vs -> logical (build_prim w vs) = vs.
Proof.
  intros Hc. unfold logical. cbn [build_prim p_len]. apply (map_seq_nth _ _ LNull). intros i Hi.
  cbn [logical_at build_prim nth Nat.add].
  rewrite (build_nulls_valid vs i Hi).
  assert (Hin : In (nth i vs LNull) vs) by now apply nth_In.
  unfold prim_col in Hc. rewrite Forall_forall in Hc. specialize (Hc _ Hin).
  destruct (nth i vs LNull) as [|b|z|l|l|l] eqn:E; cbn [is_valid_l]; try contradiction; [reflexivity|].
  rewrite le_at_flat by (try exact Hi; intros [| | | | |]; try apply le_bytes_of_length; apply repeat_length).
  rewrite E, le_val_le_bytes_of, N.mod_small by exact Hc. reflexivity.
Qed.

(* ------------------------------------------------------------------ boolean *)
Theorem readback_bool vs : bool_col vs -> logical (build_bool vs) = vs.
Proof.
  intros Hc. unfold logical. cbn [build_bool p_len]. apply (map_seq_nth _ _ LNull). intros i Hi.
  cbn [logical_at build_bool nth Nat.add].
  rewrite (build_nulls_valid vs i Hi).
  assert (Hin : In (nth i vs LNull) vs) by now apply nth_In.
  unfold bool_col in Hc. rewrite Forall_forall in Hc. specialize (Hc _ Hin).
  destruct (nth i vs LNull) as [|b|z|l|l|l] eqn:E; cbn [is_valid_l]; try contradiction; [reflexivity|].
  rewrite bit_at_pack.
  change false with ((fun v => match v with LBool b0 => b0 | _ => false end) LNull).
  rewrite map_nth, E. reflexivity.
Qed.

(* ------------------------------------------------------------------ fixed-size binary *)
Theorem readback_fixedbin n vs : fixedbin_col n vs -> logical (build_fixedbin n vs) = vs.
Proof.
  intros Hc. unfold logical. cbn [build_fixedbin p_len]. apply (map_seq_nth _ _ LNull). intros i Hi.
  cbn [logical_at build_fixedbin nth Nat.add].
  rewrite (build_nulls_valid vs i Hi).
  assert (Hin : In (nth i vs LNull) vs) by now apply nth_In.
  unfold fixedbin_col in Hc. rewrite Forall_forall in Hc.
  assert (Hlen : forall v, In v vs -> length (match v with LBytes l => l | _ => repeat 0%N n end) = n).
  { intros v Hv. specialize (Hc _ Hv). destruct v; try contradiction; [apply repeat_length | tauto]. }
  specialize (Hc _ Hin).
  destruct (nth i vs LNull) as [|b|z|l|l|l] eqn:E; cbn [is_valid_l]; try contradiction; [reflexivity|].
  f_equal. unfold fixed_bytes. rewrite Nat2Z.id.
  (* chunk lemma with a length hypothesis restricted to the elements of vs *)
  clear Hc. revert i Hi E Hin. induction vs as [|v r IH]; intros i Hi E Hin; [cbn [length] in Hi; lia|].
  cbn [flat_map]. pose proof (Hlen v (or_introl eq_refl)) as Hv.
  destruct i as [|i].
  - cbn [Nat.mul skipn nth] in *. subst v. rewrite firstn_app, Hv, Nat.sub_diag. cbn [firstn]. rewrite app_nil_r.
    apply firstn_all2. lia.
  - cbn [nth] in E. replace (S i * n) with (length (match v with LBytes l0 => l0 | _ => repeat 0%N n end) + i * n) by lia.
    rewrite skipn_app, skipn_all2 by lia. cbn [app].
    replace (length (match v with LBytes l0 => l0 | _ => repeat 0%N n end) + i * n - length (match v with LBytes l0 => l0 | _ => repeat 0%N n end)) with (i * n) by lia.
    apply IH; [intros u Hu; apply Hlen; now right | cbn [length] in Hi; lia | exact E | rewrite <- E; apply nth_In; cbn [length] in Hi; lia].
Qed.

(* ------------------------------------------------------------------ variable-size binary *)
Fixpoint total_len (vs : list lval) : nat := match vs with [] => 0 | v :: r => length (payload v) + total_len r end.

Lemma offsets_from_length vs : forall cur, length (offsets_from cur vs) = S (length vs).
Proof. induction vs as [|v r IH]; intros cur; cbn [offsets_from length]; [reflexivity | now rewrite IH]. Qed.

Lemma offsets_from_nth vs : forall cur i, i <= length vs ->
  nth i (offsets_from cur vs) 0 = cur + total_len (firstn i vs).
Proof.
  induction vs as [|v r IH]; intros cur i Hi.
  - cbn [length] in Hi. replace i with 0 by lia. cbn. lia.
  - destruct i as [|i]; cbn [offsets_from nth firstn total_len]; [lia|].
    rewrite IH by (cbn [length] in Hi; lia). lia.
Qed.

Lemma total_len_firstn_le vs i : total_len (firstn i vs) <= total_len vs.
Proof. revert i. induction vs as [|v r IH]; intros [|i]; cbn [firstn total_len]; try lia. specialize (IH i). lia. Qed.

Lemma flat_map_payload_length vs : length (flat_map payload vs) = total_len vs.
Proof. induction vs as [|v r IH]; cbn [flat_map total_len]; [reflexivity | now rewrite app_length, IH]. Qed.

Lemma payload_window vs : forall i, i < length vs ->
  firstn (length (payload (nth i vs LNull))) (skipn (total_len (firstn i vs)) (flat_map payload vs)) = payload (nth i vs LNull).
Proof.
  induction vs as [|v r IH]; intros i Hi; [cbn [length] in Hi; lia|].
  destruct i as [|i]; cbn [firstn total_len nth flat_map].
  - cbn [skipn]. rewrite firstn_app, Nat.sub_diag. cbn [firstn]. rewrite app_nil_r. apply firstn_all.
  - rewrite skipn_app, skipn_all2 by lia. cbn [app].
    replace (length (payload v) + total_len (firstn i r) - length (payload v)) with (total_len (firstn i r)) by lia.
    apply IH. cbn [length] in Hi; lia.
Qed.

Lemma signed_of_small w x : (x < 2 ^ N.of_nat (8 * w - 1))%N -> signed_of w x = Z.of_N x.
Proof. intros H. unfold signed_of. apply N.ltb_lt in H. now rewrite H. Qed.

Lemma firstn_S_total vs i : i < length vs ->
  total_len (firstn (S i) vs) = total_len (firstn i vs) + length (payload (nth i vs LNull)).
Proof.
  revert i. induction vs as [|v r IH]; intros i Hi; [cbn [length] in Hi; lia|].
  destruct i as [|i]; [cbn [firstn total_len nth]; lia|].
  rewrite !firstn_cons. cbn [total_len nth]. rewrite (IH i) by (cbn [length] in Hi; lia). lia.
Qed.

Theorem readback_bin large utf8 vs : bin_col vs ->
  (N.of_nat (total_len vs) < 2 ^ N.of_nat (8 * offw large - 1))%N ->
  logical (build_bin large utf8 vs) = vs.
Proof.
  intros Hc Hsmall. unfold logical. cbn [build_bin p_len]. apply (map_seq_nth _ _ LNull). intros i Hi.
  cbn [logical_at build_bin nth Nat.add].
  rewrite (build_nulls_valid vs i Hi).
  assert (Hin : In (nth i vs LNull) vs) by now apply nth_In.
  unfold bin_col in Hc. rewrite Forall_forall in Hc. specialize (Hc _ Hin).
  destruct (nth i vs LNull) as [|b|z|l|l|l] eqn:E; cbn [is_valid_l]; try contradiction; [reflexivity|].
  set (w := offw large) in *.
  assert (Hoff : forall j, j <= length vs ->
            sle_at (flat_map (fun o => le_bytes_of w (N.of_nat o)) (offsets_from 0 vs)) w j
            = Z.of_nat (total_len (firstn j vs))).
  { intros j Hj. unfold sle_at, le_at.
    rewrite (flat_map_chunk (fun o => le_bytes_of w (N.of_nat o)) w (offsets_from 0 vs) 0)
      by (try (intros; apply le_bytes_of_length); rewrite offsets_from_length; lia).
    rewrite offsets_from_nth by exact Hj. cbn [Nat.add].
    pose proof (total_len_firstn_le vs j) as Hle.
    assert (Hlt : (N.of_nat (total_len (firstn j vs)) < 2 ^ N.of_nat (8 * w - 1))%N) by lia.
    rewrite le_val_le_bytes_of, N.mod_small.
    - rewrite signed_of_small by exact Hlt. lia.
    - eapply N.lt_le_trans; [exact Hlt|]. apply N.pow_le_mono_r; lia. }
  rewrite (Hoff i) by lia. replace (i + 1) with (S i) by lia. rewrite (Hoff (S i)) by lia.
  f_equal. unfold bytes_between.
  pose proof (total_len_firstn_le vs (S i)) as Hle. rewrite (firstn_S_total vs i Hi) in *.
  rewrite flat_map_payload_length.
  destruct (Z.leb_spec 0 (Z.of_nat (total_len (firstn i vs)))) as [_|?]; [|lia].
  destruct (Z.leb_spec (Z.of_nat (total_len (firstn i vs))) (Z.of_nat (total_len (firstn i vs) + length (payload (nth i vs LNull))))) as [_|?]; [|lia].
  destruct (Z.leb_spec (Z.of_nat (total_len (firstn i vs) + length (payload (nth i vs LNull)))) (Z.of_nat (total_len vs))) as [_|?]; [|lia].
  unfold slice_bytes.
  replace (Z.to_nat (Z.of_nat (total_len (firstn i vs) + length (payload (nth i vs LNull))) - Z.of_nat (total_len (firstn i vs))))
    with (length (payload (nth i vs LNull))) by lia.
  rewrite Nat2Z.id, payload_window by exact Hi. now rewrite E.
Qed.

Example readback_nonvacuous :
  logical (build_prim 2 [LInt 513; LNull; LInt 65535]) = [LInt 513; LNull; LInt 65535]
  /\ logical (build_bin false true [LBytes [97; 98]%N; LNull; LBytes []; LBytes [99]%N])
     = [LBytes [97; 98]%N; LNull; LBytes []; LBytes [99]%N].
Proof. split; vm_compute; reflexivity. Qed.
