(* C05 — PLAIN, DELTA_LENGTH_BYTE_ARRAY, DELTA_BYTE_ARRAY and BYTE_STREAM_SPLIT round trips. *)
From Coq Require Import List NArith ZArith Arith Lia Bool ZifyN ZifyNat ZifyBool.
From AV Require Import Base.ListX Model.C05_Enc Proofs.C05_Bits Proofs.C05_Wrap Proofs.C05_Delta.
Import ListNotations.
Ltac Zify.zify_post_hook ::= Z.div_mod_to_equations.

(* ------------------------------------------------------------------ PLAIN integers *)
Lemma chunks_flat_map {A B} (f : A -> list B) k : forall vs rest, Forall (fun v => length (f v) = k) vs ->
  chunks (length vs) k (flat_map f vs ++ rest) = map f vs.
Proof.
  induction vs as [|v vs IH]; intros rest Hl; [reflexivity|].
  inversion Hl as [|? ? Hv Hvs]; subst. cbn [length chunks flat_map map]. rewrite <- app_assoc.
  rewrite firstn_app, Nat.sub_diag, firstn_O, app_nil_r, firstn_all.
  rewrite skipn_app, Nat.sub_diag, skipn_O, skipn_all. cbn [app]. f_equal. apply IH, Hvs.
Qed.

Lemma flat_map_length_const {A B} (f : A -> list B) k vs : Forall (fun v => length (f v) = k) vs ->
  length (flat_map f vs) = (length vs * k)%nat.
Proof. induction 1 as [|v vs Hv _ IH]; [reflexivity|]. cbn [flat_map length]. rewrite app_length, Hv, IH. lia. Qed.

Theorem plain_int_roundtrip k vs : (0 < k)%nat ->
  Forall (in_range (8 * N.of_nat k)) vs ->
  plain_int_dec k (length vs) (plain_int_enc k vs) = Some vs.
Proof.
  intros Hk Hr. unfold plain_int_dec, plain_int_enc.
  set (tw := (8 * N.of_nat k)%N).
  assert (Htw : (0 < tw)%N) by (unfold tw; lia).
  assert (Hlen : Forall (fun v => length (le_bytes k (to_unsigned tw v)) = k) vs)
    by (apply Forall_forall; intros; apply le_bytes_length).
  rewrite (flat_map_length_const _ k) by exact Hlen.
  destruct (Nat.ltb_spec (length vs * k) (length vs * k)); [lia|].
  rewrite <- (app_nil_r (flat_map _ vs)). rewrite (chunks_flat_map _ k) by exact Hlen.
  rewrite map_map. f_equal.
  rewrite <- (map_id vs) at 2. apply map_ext_in. intros z Hz.
  rewrite Forall_forall in Hr. specialize (Hr z Hz).
  rewrite le_value_le_bytes.
  - change (to_signed tw (to_unsigned tw z)) with (wrap_s tw z). apply wrap_s_id; assumption.
  - replace (N.of_nat (8 * k)) with tw by (unfold tw; lia).
    apply N2Z.inj_lt. rewrite to_unsigned_spec by exact Htw.
    pose proof (M_2H tw Htw). pose proof (H_pos tw Htw). apply Z.mod_pos_bound. unfold Mz in *. lia.
Qed.

(* ------------------------------------------------------------------ PLAIN booleans *)
Lemma val_of_zeros k : val_of (repeat false k) = 0%N.
Proof. induction k as [|k IH]; [reflexivity|]. cbn [repeat val_of N.b2n]. rewrite IH. reflexivity. Qed.

Lemma firstn_repeat' {A} (x : A) n c : firstn n (repeat x c) = repeat x (Nat.min n c).
Proof.
  revert c; induction n as [|n IH]; intros c; [reflexivity|].
  destruct c as [|c]; [reflexivity|]. cbn [repeat firstn Nat.min]. f_equal. apply IH.
Qed.
Lemma skipn_repeat {A} (x : A) n c : skipn n (repeat x c) = repeat x (c - n).
Proof.
  revert c; induction n as [|n IH]; intros c; [rewrite Nat.sub_0_r; reflexivity|].
  destruct c as [|c]; [reflexivity|]. cbn [repeat skipn Nat.sub]. apply IH.
Qed.

Lemma bits_bytes_pad n : forall bits k, bits_bytes n (bits ++ repeat false k) = bits_bytes n bits.
Proof.
  induction n as [|n IH]; intros bits k; [reflexivity|].
  cbn [bits_bytes]. f_equal.
  - rewrite firstn_app, firstn_repeat', val_of_app, val_of_zeros. lia.
  - rewrite skipn_app, skipn_repeat. apply IH.
Qed.

Lemma bytes_bits_bits_bytes_pad n bits : (length bits <= 8 * n)%nat ->
  bytes_bits (bits_bytes n bits) = bits ++ repeat false (8 * n - length bits).
Proof.
  intros H. rewrite <- (bits_bytes_pad n bits (8 * n - length bits)).
  apply bytes_bits_bits_bytes. rewrite app_length, repeat_length. lia.
Qed.

Theorem plain_bool_roundtrip vs : plain_bool_dec (length vs) (plain_bool_enc vs) = vs.
Proof.
  unfold plain_bool_dec, plain_bool_enc, bits_to_bytes.
  rewrite bytes_bits_bits_bytes_pad by lia.
  rewrite firstn_app, Nat.sub_diag, firstn_O, app_nil_r. apply firstn_all.
Qed.

(* ------------------------------------------------------------------ PLAIN byte arrays *)
Theorem plain_ba_roundtrip : forall vs rest, Forall (fun v => (N.of_nat (length v) < 2^32)%N) vs ->
  plain_ba_dec (length vs) (plain_ba_enc vs ++ rest) =
  match vs with [] => Some [] | _ => Some vs end.
Proof.
  assert (G : forall vs rest, Forall (fun v => (N.of_nat (length v) < 2^32)%N) vs ->
              plain_ba_dec (length vs) (plain_ba_enc vs ++ rest) = Some vs).
  { induction vs as [|v vs IH]; intros rest Hl; [reflexivity|].
    inversion Hl as [|? ? Hv Hvs]; subst. unfold plain_ba_enc. cbn [length plain_ba_dec flat_map].
    fold (plain_ba_enc vs). rewrite <- !app_assoc.
    rewrite app_length, le_bytes_length. destruct (Nat.ltb_spec (4 + length (v ++ plain_ba_enc vs ++ rest)) 4); [lia|].
    rewrite firstn_app, le_bytes_length, Nat.sub_diag, firstn_O, app_nil_r, firstn_all2 by (rewrite le_bytes_length; lia).
    rewrite skipn_app, le_bytes_length, Nat.sub_diag, skipn_O, skipn_all2 by (rewrite le_bytes_length; lia). cbn [app].
    rewrite le_value_le_bytes by exact Hv. rewrite Nat2N.id.
    rewrite app_length. destruct (Nat.ltb_spec (length v + length (plain_ba_enc vs ++ rest)) (length v)); [lia|].
    rewrite firstn_app, Nat.sub_diag, firstn_O, app_nil_r, firstn_all.
    rewrite skipn_app, Nat.sub_diag, skipn_O, skipn_all. cbn [app].
    rewrite IH by exact Hvs. reflexivity. }
  intros vs rest H. rewrite G by exact H. destruct vs; reflexivity.
Qed.

(* ------------------------------------------------------------------ DELTA_LENGTH_BYTE_ARRAY *)
Lemma split_lens_concat : forall vs rest, split_lens (map (fun v => Z.of_nat (length v)) vs) (concat vs ++ rest) = Some vs.
Proof.
  induction vs as [|v vs IH]; intros rest; [reflexivity|].
  cbn [map split_lens concat]. destruct (Z.ltb_spec (Z.of_nat (length v)) 0); [lia|].
  rewrite Nat2Z.id. rewrite <- app_assoc, app_length.
  destruct (Nat.ltb_spec (length v + length (concat vs ++ rest)) (length v)); [lia|].
  rewrite firstn_app, Nat.sub_diag, firstn_O, app_nil_r, firstn_all.
  rewrite skipn_app, Nat.sub_diag, skipn_O, skipn_all. cbn [app]. rewrite IH. reflexivity.
Qed.

Lemma len_in_range32 n : (N.of_nat n < 2147483648)%N -> in_range 32 (Z.of_nat n).
Proof. intros H. unfold in_range, Hz. change (Z.of_N (2^(32-1))) with 2147483648%Z. lia. Qed.

Theorem dlba_roundtrip vs : Forall (fun v => (N.of_nat (length v) < 2147483648)%N) vs -> (N.of_nat (length vs) < 2^64)%N ->
  dlba_decode (dlba_encode vs) = Some vs.
Proof.
  intros Hl Hn. unfold dlba_decode, dlba_encode.
  rewrite delta_bp_roundtrip.
  - rewrite <- (app_nil_r (concat vs)). apply split_lens_concat.
  - left; reflexivity.
  - apply Forall_forall. intros z Hz. apply in_map_iff in Hz. destruct Hz as (v & <- & Hv).
    rewrite Forall_forall in Hl. apply len_in_range32, Hl, Hv.
  - rewrite map_length. exact Hn.
Qed.

(* ------------------------------------------------------------------ DELTA_BYTE_ARRAY *)
Lemma common_prefix_spec : forall a b, (common_prefix a b <= length a)%nat /\ (common_prefix a b <= length b)%nat /\
  firstn (common_prefix a b) a = firstn (common_prefix a b) b.
Proof.
  induction a as [|x a IH]; intros b; [cbn; repeat split; lia|].
  destruct b as [|y b]; [cbn; repeat split; lia|].
  cbn [common_prefix]. destruct (N.eqb_spec x y) as [->|]; [|cbn; repeat split; lia].
  destruct (IH b) as (A & B & C). cbn [length firstn]. repeat split; try lia. f_equal. exact C.
Qed.

Lemma dba_split_join : forall vs prev ps ss, dba_split prev vs = (ps, ss) -> dba_join prev ps ss = Some vs.
Proof.
  induction vs as [|v vs IH]; intros prev ps ss H.
  - cbn in H. injection H as <- <-. reflexivity.
  - cbn [dba_split] in H. destruct (dba_split v vs) as [ps' ss'] eqn:E. injection H as <- <-.
    destruct (common_prefix_spec prev v) as (A & B & C).
    cbn [dba_join]. destruct (Z.ltb_spec (Z.of_nat (common_prefix prev v)) 0); [lia|].
    rewrite Nat2Z.id. destruct (Nat.ltb_spec (length prev) (common_prefix prev v)); [lia|].
    rewrite C, firstn_skipn. rewrite (IH v ps' ss' E). reflexivity.
Qed.

Lemma dba_split_bounds : forall vs prev ps ss, dba_split prev vs = (ps, ss) ->
  Forall (fun v => (N.of_nat (length v) < 2147483648)%N) vs ->
  length ps = length vs /\ length ss = length vs /\ Forall (in_range 32) ps /\
  Forall (fun v => (N.of_nat (length v) < 2147483648)%N) ss.
Proof.
  induction vs as [|v vs IH]; intros prev ps ss H Hl.
  - cbn in H. injection H as <- <-. repeat split; constructor.
  - cbn [dba_split] in H. destruct (dba_split v vs) as [ps' ss'] eqn:E. injection H as <- <-.
    inversion Hl as [|? ? Hv Hvs]; subst. destruct (IH v ps' ss' E Hvs) as (A & B & C & D).
    destruct (common_prefix_spec prev v) as (P1 & P2 & _).
    cbn [length]. repeat split; try lia.
    + constructor; [apply len_in_range32; lia|exact C].
    + constructor; [rewrite skipn_length; lia|exact D].
Qed.

Theorem dba_roundtrip vs : Forall (fun v => (N.of_nat (length v) < 2147483648)%N) vs -> (N.of_nat (length vs) < 2^64)%N ->
  dba_decode (dba_encode vs) = Some vs.
Proof.
  intros Hl Hn. unfold dba_decode, dba_encode.
  destruct (dba_split [] vs) as [ps ss] eqn:E.
  destruct (dba_split_bounds vs [] ps ss E Hl) as (A & B & C & D).
  rewrite delta_bp_roundtrip; [|left; reflexivity|exact C|rewrite A; exact Hn].
  rewrite dlba_roundtrip by (try exact D; rewrite B; exact Hn).
  apply dba_split_join, E.
Qed.

(* ------------------------------------------------------------------ BYTE_STREAM_SPLIT *)
Lemma nth_flat_map_const {A B} (f : A -> list B) n d : forall l j i a0,
  (forall x, In x l -> length (f x) = n) -> (j < length l)%nat -> (i < n)%nat ->
  nth (j * n + i) (flat_map f l) d = nth i (f (nth j l a0)) d.
Proof.
  induction l as [|x l IH]; intros j i a0 Hlen Hj Hi; [cbn in Hj; lia|].
  cbn [flat_map]. destruct j as [|j].
  - cbn [Nat.mul Nat.add nth]. rewrite app_nth1 by (rewrite Hlen by (left; reflexivity); lia). reflexivity.
  - rewrite app_nth2 by (rewrite Hlen by (left; reflexivity); lia).
    rewrite Hlen by (left; reflexivity). replace (S j * n + i - n)%nat with (j * n + i)%nat by lia.
    cbn [nth]. apply IH; [intros y Hy; apply Hlen; right; exact Hy|cbn in Hj; lia|exact Hi].
Qed.

Lemma map_nth_seq {A} (l : list A) d : map (fun i => nth i l d) (seq 0 (length l)) = l.
Proof.
  apply (nth_ext_len _ _ d); [rewrite map_length, seq_length; reflexivity|].
  intros i Hi. rewrite map_length, seq_length in Hi. rewrite nth_map_seq by exact Hi. reflexivity.
Qed.

Theorem bss_roundtrip k vs : Forall (fun v => length v = k) vs ->
  bss_decode k (length vs) (bss_encode k vs) = vs.
Proof.
  intros Hk. unfold bss_decode, bss_encode.
  transitivity (map (fun i => nth i vs []) (seq 0 (length vs))); [|apply map_nth_seq].
  apply map_ext_in. intros i Hi. apply in_seq in Hi.
  assert (Hvi : length (nth i vs []) = k). { rewrite Forall_forall in Hk. apply Hk, nth_In. lia. }
  transitivity (map (fun j => nth j (nth i vs []) 0%N) (seq 0 k)); [|rewrite <- Hvi; apply map_nth_seq].
  apply map_ext_in. intros j Hj. apply in_seq in Hj.
  rewrite (nth_flat_map_const _ (length vs) 0%N (seq 0 k) j i 0%nat).
  - rewrite seq_nth by lia. cbn [Nat.add].
    rewrite (nth_indep _ 0%N (nth j [] 0%N)) by (rewrite map_length; lia).
    rewrite (map_nth (fun v => nth j v 0%N) vs []). reflexivity.
  - intros x _. apply map_length.
  - rewrite seq_length. lia.
  - lia.
Qed.
