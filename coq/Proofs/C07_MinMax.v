(* C07 — min/max accumulation: get_min_max, update_min/update_max and their folds over
   mini-batches and pages compute the extrema of the non-NaN values (of all values when every
   value is NaN), for any comparison that is the strict part of a total preorder. *)
From Coq Require Import List Arith Lia Bool.
From AV Require Import Model.C07_Stats.
Import ListNotations.

Section MinMaxProofs.
  Variable T : Type.
  Variable gt : T -> T -> bool.
  Variable nan : T -> bool.
  Variable le : T -> T -> bool.
  Hypothesis le_trans : forall a b c, le a b = true -> le b c = true -> le a c = true.
  Hypothesis le_total : forall a b, le a b = true \/ le b a = true.
  Hypothesis gt_spec : forall a b, gt a b = negb (le a b).

  Definition nonnan (x : T) := negb (nan x).
  Definition nn (l : list T) := filter nonnan l.
  Definition has (l : list T) := existsb nonnan l.
  (* the values that count: the non-NaN ones, or all of them when there is no non-NaN value *)
  Definition relevant (l : list T) := if has l then nn l else l.
  Definition lmin (R : list T) (m : T) := In m R /\ forall v, In v R -> le m v = true.
  Definition lmax (R : list T) (m : T) := In m R /\ forall v, In v R -> le v m = true.
  Definition is_min (l : list T) (m : T) := lmin (relevant l) m.
  Definition is_max (l : list T) (m : T) := lmax (relevant l) m.
  Definition count_nan (l : list T) := length (filter nan l).

  Lemma le_refl a : le a a = true.
  Proof. destruct (le_total a a); assumption. Qed.
  Lemma gt_true a b : gt a b = true -> le b a = true.
  Proof. rewrite gt_spec. intros H. apply negb_true_iff in H. destruct (le_total a b); congruence. Qed.
  Lemma gt_false a b : gt a b = false -> le a b = true.
  Proof. rewrite gt_spec. intros H. now apply negb_false_iff in H. Qed.

  (* ---------------------------------------------------------------- extending a set by one value *)
  Lemma lmin_single v : lmin [v] v.
  Proof. split; [now left|]. intros w [<-|[]]. apply le_refl. Qed.
  Lemma lmax_single v : lmax [v] v.
  Proof. split; [now left|]. intros w [<-|[]]. apply le_refl. Qed.

  Lemma lmin_app_keep R S m : lmin R m -> (forall v, In v S -> le m v = true) -> lmin (R ++ S) m.
  Proof. intros [Hi Hb] Hs. split; [apply in_or_app; now left|]. intros v Hv. apply in_app_or in Hv as [?|?]; auto. Qed.
  Lemma lmin_app_new R S m : lmin S m -> (forall v, In v R -> le m v = true) -> lmin (R ++ S) m.
  Proof. intros [Hi Hb] Hs. split; [apply in_or_app; now right|]. intros v Hv. apply in_app_or in Hv as [?|?]; auto. Qed.
  Lemma lmax_app_keep R S m : lmax R m -> (forall v, In v S -> le v m = true) -> lmax (R ++ S) m.
  Proof. intros [Hi Hb] Hs. split; [apply in_or_app; now left|]. intros v Hv. apply in_app_or in Hv as [?|?]; auto. Qed.
  Lemma lmax_app_new R S m : lmax S m -> (forall v, In v R -> le v m = true) -> lmax (R ++ S) m.
  Proof. intros [Hi Hb] Hs. split; [apply in_or_app; now right|]. intros v Hv. apply in_app_or in Hv as [?|?]; auto. Qed.

  (* merging the extrema of two sets: the smaller of the two minima *)
  Lemma lmin_merge R S a b : lmin R a -> lmin S b -> lmin (R ++ S) (if gt a b then b else a).
  Proof.
    intros HA HB. destruct (gt a b) eqn:E.
    - apply gt_true in E. apply lmin_app_new; [exact HB|]. intros v Hv. eapply le_trans; [exact E|]. now apply HA.
    - apply gt_false in E. apply lmin_app_keep; [exact HA|]. intros v Hv. eapply le_trans; [exact E|]. now apply HB.
  Qed.
  Lemma lmax_merge R S a b : lmax R a -> lmax S b -> lmax (R ++ S) (if gt b a then b else a).
  Proof.
    intros HA HB. destruct (gt b a) eqn:E.
    - apply gt_true in E. apply lmax_app_new; [exact HB|]. intros v Hv. eapply le_trans; [|exact E]. now apply HA.
    - apply gt_false in E. apply lmax_app_keep; [exact HA|]. intros v Hv. eapply le_trans; [|exact E]. now apply HB.
  Qed.

  (* ---------------------------------------------------------------- relevant values of a union *)
  Lemma has_app a b : has (a ++ b) = has a || has b.
  Proof. apply existsb_app. Qed.
  Lemma nn_app a b : nn (a ++ b) = nn a ++ nn b.
  Proof. apply filter_app. Qed.
  Lemma has_false_nn l : has l = false -> nn l = [].
  Proof.
    unfold has, nn. induction l as [|x l IH]; cbn [existsb filter]; [reflexivity|].
    intros H. apply orb_false_iff in H as [H1 H2]. rewrite H1. now apply IH.
  Qed.
  Lemma has_false_all_nan l : has l = false -> forall v, In v l -> nan v = true.
  Proof.
    unfold has. induction l as [|x l IH]; cbn [existsb]; intros H v Hv; [destruct Hv|].
    apply orb_false_iff in H as [H1 H2]. destruct Hv as [<-|Hv]; [|now apply IH].
    unfold nonnan in H1. now apply negb_false_iff in H1.
  Qed.
  Lemma in_nn v l : In v (nn l) <-> In v l /\ nan v = false.
  Proof. unfold nn. rewrite filter_In. unfold nonnan. rewrite negb_true_iff. tauto. Qed.
  Lemma relevant_nonempty l : l <> [] -> relevant l <> [].
  Proof.
    unfold relevant. destruct (has l) eqn:E; [|auto]. intros _ N.
    unfold has in E. apply existsb_exists in E as [x [Hx Hn]].
    assert (In x (nn l)) by (apply filter_In; split; assumption). rewrite N in H. destruct H.
  Qed.
  Lemma relevant_in v l : In v (relevant l) -> In v l.
  Proof. unfold relevant. destruct (has l); [|auto]. intros H. now apply in_nn in H. Qed.
  Lemma relevant_nan m l : In m (relevant l) -> nan m = negb (has l).
  Proof.
    unfold relevant. destruct (has l) eqn:E; intros H; cbn [negb].
    - now apply in_nn in H.
    - eapply has_false_all_nan; eauto.
  Qed.
  Lemma relevant_covers_nonnan v l : In v l -> nan v = false -> In v (relevant l).
  Proof.
    intros Hv Hn. unfold relevant. destruct (has l) eqn:E.
    - apply in_nn. now split.
    - rewrite (has_false_all_nan l E v Hv) in Hn. discriminate.
  Qed.

  (* the extremum of a union from the extrema of the parts, with the NaN rule of update_min:
       (min non-NaN, val NaN) keep;  (min NaN, val non-NaN) take val;  otherwise compare *)
  Definition pick_min (m v : T) : T :=
    match nan m, nan v with
    | false, true => m
    | true, false => v
    | _, _ => if gt m v then v else m
    end.
  Definition pick_max (m v : T) : T :=
    match nan m, nan v with
    | false, true => m
    | true, false => v
    | _, _ => if gt v m then v else m
    end.

  Lemma is_min_union A B a b : is_min A a -> is_min B b -> is_min (A ++ B) (pick_min a b).
  Proof.
    unfold is_min. intros HA HB.
    pose proof (relevant_nan a A (proj1 HA)) as Na. pose proof (relevant_nan b B (proj1 HB)) as Nb.
    unfold pick_min, relevant in *. rewrite has_app, nn_app.
    destruct (has A) eqn:EA, (has B) eqn:EB; cbn [negb orb] in *; rewrite Na, Nb.
    - now apply lmin_merge.
    - rewrite (has_false_nn B EB), app_nil_r. exact HA.
    - rewrite (has_false_nn A EA). exact HB.
    - now apply lmin_merge.
  Qed.
  Lemma is_max_union A B a b : is_max A a -> is_max B b -> is_max (A ++ B) (pick_max a b).
  Proof.
    unfold is_max. intros HA HB.
    pose proof (relevant_nan a A (proj1 HA)) as Na. pose proof (relevant_nan b B (proj1 HB)) as Nb.
    unfold pick_max, relevant in *. rewrite has_app, nn_app.
    destruct (has A) eqn:EA, (has B) eqn:EB; cbn [negb orb] in *; rewrite Na, Nb.
    - now apply lmax_merge.
    - rewrite (has_false_nn B EB), app_nil_r. exact HA.
    - rewrite (has_false_nn A EA). exact HB.
    - now apply lmax_merge.
  Qed.

  Lemma update_min_some v m : update_min gt nan v (Some m) = Some (pick_min m v).
  Proof. unfold update_min, pick_min. destruct (nan m), (nan v); try reflexivity; destruct (gt m v); reflexivity. Qed.
  Lemma update_max_some v m : update_max gt nan v (Some m) = Some (pick_max m v).
  Proof. unfold update_max, pick_max. destruct (nan m), (nan v); try reflexivity; destruct (gt v m); reflexivity. Qed.

  (* ---------------------------------------------------------------- get_min_max *)
  Lemma is_min_single v : is_min [v] v.
  Proof. unfold is_min, relevant, has, nn. cbn [existsb filter]. destruct (nonnan v); cbn [orb]; apply lmin_single. Qed.
  Lemma is_max_single v : is_max [v] v.
  Proof. unfold is_max, relevant, has, nn. cbn [existsb filter]. destruct (nonnan v); cbn [orb]; apply lmax_single. Qed.

  Lemma count_nan_app a b : count_nan (a ++ b) = count_nan a + count_nan b.
  Proof. unfold count_nan. now rewrite filter_app, app_length. Qed.

  Lemma has_single v : has [v] = negb (nan v).
  Proof. unfold has. cbn [existsb]. unfold nonnan. apply orb_false_r. Qed.
  Lemma count_nan_single v : count_nan [v] = if nan v then 1 else 0.
  Proof. unfold count_nan. cbn [filter]. destruct (nan v); reflexivity. Qed.

  (* one iteration of the loop is a pair of picks (the `else if` never loses a maximum because
     a value below the minimum cannot exceed the maximum) *)
  Lemma gmm_loop_step v vs mn mx mmnan cnt :
    nan mn = mmnan -> nan mx = mmnan -> le mn mx = true ->
    gmm_loop gt nan (v :: vs) mn mx mmnan cnt =
    gmm_loop gt nan vs (pick_min mn v) (pick_max mx v) (mmnan && nan v) (if nan v then S cnt else cnt).
  Proof.
    intros Nmn Nmx L. cbn [gmm_loop]. unfold pick_min, pick_max. rewrite Nmn, Nmx.
    assert (X : gt mn v = true -> gt v mx = false).
    { intros G1. apply gt_true in G1. rewrite gt_spec. apply negb_false_iff.
      eapply le_trans; [exact G1|exact L]. }
    destruct mmnan, (nan v); cbn [andb]; try reflexivity.
    - destruct (gt mn v) eqn:G1; [rewrite (X eq_refl); reflexivity|]. destruct (gt v mx); reflexivity.
    - destruct (gt mn v) eqn:G1; [rewrite (X eq_refl); reflexivity|]. destruct (gt v mx); reflexivity.
  Qed.

  Lemma gmm_loop_spec vs : forall seen mn mx mmnan cnt,
    is_min seen mn -> is_max seen mx -> mmnan = negb (has seen) -> cnt = count_nan seen ->
    forall mn' mx' c', gmm_loop gt nan vs mn mx mmnan cnt = (mn', mx', c') ->
    is_min (seen ++ vs) mn' /\ is_max (seen ++ vs) mx' /\ c' = count_nan (seen ++ vs).
  Proof.
    induction vs as [|v vs IH]; intros seen mn mx mmnan cnt Hmn Hmx Hnan Hcnt mn' mx' c' H.
    - cbn [gmm_loop] in H. inversion H; subst. now rewrite app_nil_r.
    - replace (seen ++ v :: vs) with ((seen ++ [v]) ++ vs) by (now rewrite <- app_assoc).
      pose proof (relevant_nan mn seen (proj1 Hmn)) as Nmn. pose proof (relevant_nan mx seen (proj1 Hmx)) as Nmx.
      rewrite gmm_loop_step in H; [|congruence|congruence|exact (proj2 Hmx mn (proj1 Hmn))].
      eapply IH; [| | | |exact H].
      + apply is_min_union; [exact Hmn|apply is_min_single].
      + apply is_max_union; [exact Hmx|apply is_max_single].
      + rewrite has_app, has_single, Hnan. destruct (has seen), (nan v); reflexivity.
      + rewrite count_nan_app, count_nan_single, Hcnt. destruct (nan v); lia.
  Qed.

  Theorem get_min_max_spec vs mn mx c : get_min_max gt nan vs = Some (mn, mx, c) ->
    is_min vs mn /\ is_max vs mx /\ c = count_nan vs.
  Proof.
    destruct vs as [|f r]; [discriminate|]. cbn [get_min_max]. intros H. inversion H as [H1]. clear H.
    change (f :: r) with ([f] ++ r).
    eapply gmm_loop_spec; [apply is_min_single|apply is_max_single| | |exact H1].
    - rewrite has_single. now rewrite negb_involutive.
    - rewrite count_nan_single. destruct (nan f); reflexivity.
  Qed.

  Lemma get_min_max_none vs : get_min_max gt nan vs = None -> vs = [].
  Proof. destruct vs; [reflexivity|discriminate]. Qed.

  (* ---------------------------------------------------------------- folds of write_slice *)
  (* invariant of the encoder state over the batches written so far *)
  Definition st_ok (float : bool) (seen : list T) (st : enc_state T) : Prop :=
    let '(mn, mx, nc) := st in
    match seen with
    | [] => mn = None /\ mx = None
    | _ => exists a b, mn = Some a /\ mx = Some b /\ is_min seen a /\ is_max seen b
    end /\
    (float = true -> match nc with Some n => n = count_nan seen | None => seen = [] end).

  Lemma write_slice_ok float seen st s : st_ok float seen st -> st_ok float (seen ++ s) (write_slice gt nan float s st).
  Proof.
    destruct st as [[mn0 mx0] nc0]. intros [Hm Hn]. unfold write_slice.
    destruct (get_min_max gt nan s) as [[[mn mx] c]|] eqn:E.
    - apply get_min_max_spec in E as (Imn & Imx & Ec).
      assert (Hs : s <> []) by (intros ->; destruct Imn as [[] _]).
      split.
      + destruct (seen ++ s) eqn:Eapp; [apply app_eq_nil in Eapp; tauto|]. rewrite <- Eapp.
        destruct seen as [|x seen].
        * destruct Hm as [-> ->]. cbn [update_min update_max app]. exists mn, mx. split; [reflexivity|]. split; [reflexivity|]. split; assumption.
        * destruct Hm as (a & b & -> & -> & Ha & Hb). rewrite update_min_some, update_max_some.
          exists (pick_min a mn), (pick_max b mx). split; [reflexivity|]. split; [reflexivity|]. split.
          -- now apply is_min_union.
          -- now apply is_max_union.
      + intros Hf. specialize (Hn Hf). rewrite Hf. rewrite count_nan_app, Ec.
        destruct nc0 as [n|]; [subst n; lia|]. subst seen. cbn. lia.
    - apply get_min_max_none in E. subst s. rewrite app_nil_r. now split.
  Qed.

  Lemma fold_write_slice_ok float batches : forall seen st, st_ok float seen st ->
    st_ok float (seen ++ concat batches) (fold_left (fun st s => write_slice gt nan float s st) batches st).
  Proof.
    induction batches as [|s r IH]; intros seen st H; cbn [fold_left concat]; [now rewrite app_nil_r|].
    rewrite app_assoc. apply IH. now apply write_slice_ok.
  Qed.

  (* min <= every non-NaN value <= max, min/max attained, NaN never a bound when a non-NaN value exists *)
  Theorem minmax_fold_bounds float batches mn mx nc :
    fold_left (fun st s => write_slice gt nan float s st) batches (None, None, None) = (Some mn, Some mx, nc) ->
    let vs := concat batches in
    In mn vs /\ In mx vs /\
    (forall v, In v vs -> nan v = false ->
       nan mn = false /\ nan mx = false /\ le mn v = true /\ le v mx = true) /\
    (float = true -> nc = Some (count_nan vs)).
  Proof.
    intros H vs.
    pose proof (fold_write_slice_ok float batches [] (None, None, None)) as K.
    cbn [app] in K. rewrite H in K. fold vs in K.
    destruct K as [Km Kn]; [split; [now split|intros _; reflexivity]|].
    destruct vs as [|x vs'] eqn:Ev; [destruct Km; discriminate|]. rewrite <- Ev in *.
    destruct Km as (a & b & Ea & Eb & Ha & Hb). inversion Ea; inversion Eb; subst a b.
    split; [exact (relevant_in _ _ (proj1 Ha))|]. split; [exact (relevant_in _ _ (proj1 Hb))|]. split.
    - intros v Hv Nv. pose proof (relevant_covers_nonnan v vs Hv Nv) as R.
      assert (Hh : has vs = true).
      { unfold has. apply existsb_exists. exists v. split; [exact Hv|]. unfold nonnan. now rewrite Nv. }
      rewrite (relevant_nan mn vs (proj1 Ha)), (relevant_nan mx vs (proj1 Hb)), Hh. cbn [negb].
      repeat split; [now apply Ha|now apply Hb].
    - intros Hf. specialize (Kn Hf). destruct nc as [n|]; [now subst|]. rewrite Kn in Ev. discriminate.
  Qed.
End MinMaxProofs.
