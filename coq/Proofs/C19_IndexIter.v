(* C19/C03: BitIndexIterator — the whole loop over any list of 64-bit words yields exactly the
   positions of the set bits, in increasing order. *)
From Coq Require Import List Arith NArith ZArith Lia Bool ZifyN ZifyNat ZifyBool.
From AV Require Import Base.ListX Base.Bits Model.C19_Bits Proofs.C19_LowBit.
Import ListNotations.
Local Open Scope N_scope.
Ltac Zify.zify_post_hook ::= Z.div_mod_to_equations.

Lemma testbit_S w i : N.testbit w (N.succ i) = N.testbit (N.div2 w) i.
Proof. rewrite N.div2_spec, N.shiftr_spec'. f_equal. lia. Qed.

(* ctz_aux finds the lowest set bit when there is one below the fuel *)
Lemma ctz_aux_spec fuel : forall w, w <> 0 -> w < 2 ^ N.of_nat fuel ->
  N.testbit w (N.of_nat (ctz_aux fuel w)) = true /\
  (forall i, i < N.of_nat (ctz_aux fuel w) -> N.testbit w i = false) /\ (ctz_aux fuel w < fuel)%nat.
Proof.
  induction fuel as [|f IH]; intros w Hnz Hlt.
  - cbn in Hlt. lia.
  - cbn [ctz_aux]. destruct (N.odd w) eqn:Ho.
    + cbn. rewrite N.bit0_odd. repeat split; [exact Ho | intros i Hi; lia | lia].
    + assert (Hd : N.div2 w <> 0).
      { intro E. apply Hnz. rewrite (N.div2_odd w), E, Ho. reflexivity. }
      assert (Hl : N.div2 w < 2 ^ N.of_nat f).
      { rewrite N.div2_div. apply N.div_lt_upper_bound; [lia|].
        rewrite Nat2N.inj_succ, N.pow_succ_r' in Hlt. exact Hlt. }
      destruct (IH _ Hd Hl) as (H1 & H2 & H3).
      rewrite Nat2N.inj_succ. repeat split.
      * rewrite testbit_S. exact H1.
      * intros i Hi. destruct (N.eq_dec i 0) as [->|Hi0].
        -- rewrite N.bit0_odd. exact Ho.
        -- replace i with (N.succ (i - 1)) by lia. rewrite testbit_S. apply H2. lia.
      * lia.
Qed.

Lemma ctz_spec w : w <> 0 -> w < 2^64 ->
  N.testbit w (N.of_nat (ctz w)) = true /\ (forall i, i < N.of_nat (ctz w) -> N.testbit w i = false) /\ (ctz w < 64)%nat.
Proof.
  intros Hnz Hlt. unfold ctz. apply N.eqb_neq in Hnz. rewrite Hnz. apply N.eqb_neq in Hnz.
  apply ctz_aux_spec; assumption.
Qed.

(* a word whose lowest set bit is t is (2m+1) * 2^t *)
Lemma odd_shift_form w t : N.testbit w t = true -> (forall i, i < t -> N.testbit w i = false) ->
  w = (2 * (w / 2^(t+1)) + 1) * 2^t.
Proof.
  intros Ht Hlow. apply N.bits_inj. intro i.
  rewrite testbit_odd_shift.
  destruct (N.ltb_spec i t) as [Hl|Hl]; [now apply Hlow|].
  destruct (N.eqb_spec i t) as [->|Hne]; [exact Ht|].
  rewrite <- N.shiftr_div_pow2, N.shiftr_spec'. f_equal. lia.
Qed.

Lemma clear_lowest_gen w t i : N.testbit w t = true -> (forall j, j < t -> N.testbit w j = false) ->
  N.testbit (N.land w (w - 1)) i = N.testbit w i && negb (i =? t).
Proof.
  intros Ht Hlow. rewrite (odd_shift_form w t Ht Hlow) at 1 2 3. apply clear_lowest.
Qed.

Lemma land_pred_lt w : w < 2^64 -> N.land w (w - 1) < 2^64.
Proof.
  intros H. destruct (N.eq_dec w 0) as [->|Hnz]; [reflexivity|].
  eapply N.le_lt_trans; [|exact H].
  (* land w x <= w *)
  rewrite <- (N.ldiff_ldiff_l w (w-1) ) at 1 || idtac.
  assert (Hle : forall a b, N.land a b <= a).
  { intros a b. destruct (N.eq_dec (N.land a b) 0) as [E|E]; [rewrite E; lia|].
    apply N.lt_eq_cases. destruct (N.lt_ge_cases a (N.land a b)) as [Hlt|Hge]; [|lia].
    exfalso. (* use log2 bound: land a b has only bits of a *)
    assert (Hs : N.land a b = N.land a b) by reflexivity.
    pose proof (N.ldiff_le (N.land a b) a) as Hd.
    assert (Hz : N.ldiff (N.land a b) a = 0).
    { apply N.bits_inj_0. intro k. rewrite N.ldiff_spec, N.land_spec. destruct (N.testbit a k), (N.testbit b k); reflexivity. }
    specialize (Hd Hz). lia. }
  apply Hle.
Qed.

Definition word_positions (w : N) (lo n : nat) : list nat :=
  filter (fun i => N.testbit w (N.of_nat i)) (seq lo n).

Lemma filter_all_false {A} (f : A -> bool) l : (forall x, In x l -> f x = false) -> filter f l = [].
Proof.
  induction l as [|a l IH]; intros H; [reflexivity|]. cbn. rewrite (H a) by now left.
  apply IH. intros x Hx. apply H. now right.
Qed.

Lemma filter_ext_in' {A} (f g : A -> bool) l : (forall x, In x l -> f x = g x) -> filter f l = filter g l.
Proof.
  induction l as [|a l IH]; intros H; [reflexivity|]. cbn. rewrite (H a) by now left.
  rewrite IH; [reflexivity|]. intros x Hx. apply H. now right.
Qed.

(* the inner loop: fuel 64 always suffices *)
Lemma word_indices_spec fuel : forall w lo base, w < 2^64 ->
  (forall i, i < N.of_nat lo -> N.testbit w i = false) -> (64 - lo <= fuel)%nat -> (lo <= 64)%nat ->
  word_indices fuel w base = map (fun i => (base + Z.of_nat i)%Z) (word_positions w lo (64 - lo)).
Proof.
  induction fuel as [|f IH]; intros w lo base Hw Hlo Hf Hl64.
  - assert (lo = 64)%nat by lia. subst lo. reflexivity.
  - cbn [word_indices]. destruct (N.eqb_spec w 0) as [->|Hnz].
    + unfold word_positions. rewrite filter_all_false; [reflexivity|]. intros x _. apply N.bits_0.
    + destruct (ctz_spec w Hnz Hw) as (Ht & Hlow & Ht64).
      set (t := ctz w) in *.
      assert (Hlot : (lo <= t)%nat).
      { destruct (Nat.le_gt_cases lo t) as [H|H]; [exact H|]. rewrite Hlo in Ht by lia. discriminate. }
      unfold word_positions.
      replace (64 - lo)%nat with ((t - lo) + (1 + (64 - S t)))%nat by lia.
      rewrite seq_app, filter_app. rewrite (filter_all_false _ (seq lo (t - lo))).
      2:{ intros x Hx. apply in_seq in Hx. apply Hlow. lia. }
      rewrite seq_app, filter_app. replace (lo + (t - lo))%nat with t by lia.
      cbn [seq filter app]. rewrite Ht. cbn [map app]. f_equal.
      rewrite (IH (N.land w (w - 1)) (S t) base).
      * unfold word_positions. f_equal. replace (t + 1)%nat with (S t) by lia.
        apply filter_ext_in'. intros x Hx. apply in_seq in Hx.
        rewrite (clear_lowest_gen w (N.of_nat t)) by assumption.
        destruct (N.eqb_spec (N.of_nat x) (N.of_nat t)); [lia|]. now rewrite andb_true_r.
      * apply land_pred_lt, Hw.
      * intros i Hi. rewrite (clear_lowest_gen w (N.of_nat t)) by assumption.
        destruct (N.eqb_spec i (N.of_nat t)) as [->|Hne]; [now rewrite andb_false_r|].
        rewrite Hlow by lia. reflexivity.
      * lia.
      * lia.
Qed.

Corollary word_indices_64 w base : w < 2^64 ->
  word_indices 64 w base = map (fun i => (base + Z.of_nat i)%Z) (word_positions w 0 64).
Proof. intros Hw. apply (word_indices_spec 64 w 0 base Hw); [intros i Hi; lia | lia | lia]. Qed.

(* bits denoted by a list of words, LSB first *)
Definition word_bits (w : N) : list bool := map (fun i => N.testbit w (N.of_nat i)) (seq 0 64).
Definition words_bits (ws : list N) : list bool := flat_map word_bits ws.

Lemma positions_from_map_seq (f : nat -> bool) n : forall a s,
  positions_from s (map f (seq a n)) = map (fun i => (s + (i - a))%nat) (filter f (seq a n)).
Proof.
  induction n as [|n IH]; intros a s; [reflexivity|].
  cbn [seq map positions_from filter]. rewrite IH.
  assert (E : map (fun i => (S s + (i - S a))%nat) (filter f (seq (S a) n)) =
              map (fun i => (s + (i - a))%nat) (filter f (seq (S a) n))).
  { apply map_ext_in. intros i Hi. apply filter_In in Hi. destruct Hi as [Hi _]. apply in_seq in Hi. lia. }
  rewrite E. destruct (f a); cbn [app map]; [f_equal; lia | reflexivity].
Qed.

Lemma positions_from_app l1 : forall l2 s,
  positions_from s (l1 ++ l2) = positions_from s l1 ++ positions_from (s + length l1) l2.
Proof.
  induction l1 as [|b l1 IH]; intros l2 s; cbn [app positions_from length].
  - now rewrite Nat.add_0_r.
  - rewrite IH, <- app_assoc. replace (s + S (length l1))%nat with (S s + length l1)%nat by lia. reflexivity.
Qed.

Lemma positions_from_shift l : forall s, positions_from s l = map (fun i => (s + i)%nat) (positions_from 0 l).
Proof.
  induction l as [|b l IH]; intros s; [reflexivity|]. cbn [positions_from].
  rewrite (IH (S s)), (IH 1%nat), map_app, map_map.
  destruct b; cbn [app map]; [rewrite Nat.add_0_r; f_equal|]; apply map_ext; intros a; cbv beta; lia.
Qed.

Lemma word_bits_length w : length (word_bits w) = 64%nat.
Proof. unfold word_bits. now rewrite map_length, seq_length. Qed.

Lemma word_positions_bits w : word_positions w 0 64 = positions_from 0 (word_bits w).
Proof.
  unfold word_bits. rewrite (positions_from_map_seq (fun i => N.testbit w (N.of_nat i)) 64 0 0).
  unfold word_positions. rewrite <- (map_id (filter _ _)) at 1. apply map_ext. intros a; cbv beta; lia.
Qed.

(* THE LOOP: over any list of u64 words the iterator yields chunk_offset + p for exactly the
   positions p of set bits of the concatenated words, in increasing order *)
Theorem index_iter_words_spec ws : forall c, Forall (fun w => w < 2^64) ws ->
  index_iter_words ws c = map (fun i => (c + Z.of_nat i)%Z) (positions (words_bits ws)).
Proof.
  unfold positions. induction ws as [|w ws IH]; intros c Hws; [reflexivity|].
  inversion Hws as [|? ? Hw Hr]; subst.
  cbn [index_iter_words words_bits flat_map].
  rewrite positions_from_app, map_app, word_indices_64 by exact Hw.
  rewrite word_positions_bits. f_equal.
  rewrite IH by exact Hr. rewrite word_bits_length, Nat.add_0_l.
  rewrite (positions_from_shift _ 64), map_map. apply map_ext. intros i. cbv beta. lia.
Qed.
