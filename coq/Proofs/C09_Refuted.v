(* C09: the hypothesis [covered] of accept_implies_valid cannot be dropped — at exactly the known gaps
   (known_findings.json F4, F5) the transcription of ArrayData::validate_full accepts a tree that the
   specification rejects.  Witnesses, decided by computation. *)
From Coq Require Import List Bool NArith ZArith.
From AV Require Import Model.C09_Layout Model.C09_Validate Model.C09_Gaps Model.C01_Access Proofs.C09_Accept.
Import ListNotations.

Definition w_leaf2 : parr := PArr (TFixed 4) 2 0 None [[1;0;0;0; 2;0;0;0]%N] [].
(* F4: Struct<Int32> of length 2 at offset 1 over a child of length 2 (offset + len = 3 slots are needed) *)
Definition w_struct_offset : parr := PArr (TStruct [(true, TFixed 4)]) 2 1 None [] [w_leaf2].
(* F5: sparse Union with the single type id 5 whose type-id buffer holds 9, 9 *)
Definition w_union_ids : parr := PArr (TUnion false [(5%Z, TFixed 4)]) 2 0 None [[9;9]%N] [w_leaf2].
(* F4: FixedSizeList(2) with a NON-nullable child at offset 1: the child is null at slot 2 (inside the addressed
   range [2,4)) while the only parent slot is valid; validation looks at child slots [0,2) *)
Definition w_leaf4_null2 : parr :=
  PArr (TFixed 4) 4 0 (Some {| nb_bytes := [11%N]; nb_off := 0; nb_len := 4; nb_count := 1 |})
       [[1;0;0;0; 2;0;0;0; 3;0;0;0; 4;0;0;0]%N] [].
Definition w_fsl_offset : parr :=
  PArr (TFixedList 2 false (TFixed 4)) 1 1 (Some {| nb_bytes := [1%N]; nb_off := 0; nb_len := 1; nb_count := 0 |}) [] [w_leaf4_null2].

Definition gap_witness (a : parr) : bool :=
  tree_all phys a && impl_validate_full a && negb (spec_valid a).

Lemma struct_offset_gap : gap_witness w_struct_offset = true /\ gap_kinds w_struct_offset = [1%Z].
Proof. split; vm_compute; reflexivity. Qed.
Lemma union_ids_gap : gap_witness w_union_ids = true /\ gap_kinds w_union_ids = [3%Z].
Proof. split; vm_compute; reflexivity. Qed.
Lemma fsl_offset_gap : gap_witness w_fsl_offset = true /\ gap_kinds w_fsl_offset = [2%Z].
Proof. split; vm_compute; reflexivity. Qed.

Lemma gap_refutes a : gap_witness a = true ->
  tree_all phys a = true /\ impl_validate_full a = true /\ spec_valid a = false.
Proof.
  unfold gap_witness. intros H. apply andb_true_iff in H. destruct H as [H H3]. apply andb_true_iff in H. destruct H as [H1 H2].
  repeat split; try assumption. now apply negb_true_iff.
Qed.

(* consequence for C01 on the accepted struct: value(1) addresses child slot 2 of a 2-slot child *)
Lemma struct_offset_child_slot_missing :
  forallb (child_slots_in_bounds w_struct_offset) (child_slots w_struct_offset 1) = false.
Proof. vm_compute. reflexivity. Qed.

Lemma gap_not_covered a k : gap_kind a = Some k -> k <> 0%Z -> covered a = false.
Proof.
  unfold gap_kind, covered. destruct (node_ok a && negb (spec_node a && spec_nullability a))%bool; [|discriminate].
  intros H Hk. inversion H as [Hk']. clear H. destruct (p_ty a) as [ | | | | | | | | s nullable c | fs | | | ]; try (subst k; contradiction).
  - destruct nullable; [subst k; contradiction|]. destruct (Nat.eqb (p_off a) 0); [subst k; contradiction|reflexivity].
  - destruct (Nat.eqb (p_off a) 0); [subst k; contradiction|reflexivity].
  - reflexivity.
Qed.

Lemma accept_implies_valid_struct_offset_refuted_w : exists a,
  tree_all phys a = true /\ impl_validate_full a = true /\ spec_valid a = false /\
  match p_ty a with TStruct _ => p_off a <> 0%nat | _ => False end.
Proof. exists w_struct_offset. pose proof (gap_refutes _ (proj1 struct_offset_gap)) as (A & B & C). refine (conj A (conj B (conj C _))). cbn. discriminate. Qed.

Lemma accept_implies_valid_fixed_size_list_offset_refuted_w : exists a,
  tree_all phys a = true /\ impl_validate_full a = true /\ spec_valid a = false /\
  match p_ty a with TFixedList _ false _ => p_off a <> 0%nat | _ => False end.
Proof. exists w_fsl_offset. pose proof (gap_refutes _ (proj1 fsl_offset_gap)) as (A & B & C). refine (conj A (conj B (conj C _))). cbn. discriminate. Qed.

Lemma accept_implies_valid_union_type_ids_refuted_w : exists a,
  tree_all phys a = true /\ impl_validate_full a = true /\ spec_valid a = false /\
  match p_ty a with TUnion _ _ => True | _ => False end.
Proof. exists w_union_ids. pose proof (gap_refutes _ (proj1 union_ids_gap)) as (A & B & C). refine (conj A (conj B (conj C _))). cbn. exact I. Qed.
