(* C09: node lemma for Struct (offset 0). *)
From Coq Require Import List Arith NArith ZArith Lia Bool ZifyN ZifyNat ZifyBool.
From AV Require Import Base.ListX Base.Bytes Model.C19_Bits Model.C09_Layout Model.C09_Validate Proofs.C09_Tree Proofs.C09_Accept Proofs.C09_Nodes.
Import ListNotations.
Ltac Zify.zify_post_hook ::= Z.div_mod_to_equations.

Lemma acc_TStruct fs len nulls bufs kids :
  let a := PArr (TStruct fs) len 0 nulls bufs kids in
  phys a = true -> forallb node_ok kids = true -> node_ok a = true -> spec_node a && spec_nullability a = true.
Proof.
  intros a Hp Hk. revert a Hp. start. cbn [length orb] in *. open_spec.
  match goal with H : node_nulls _ = true |- _ => pose proof H as Hnn; unfold node_nulls in H; cbn [p_ty p_nulls p_kids] in H; split_andb end.
  cbn [Nat.add] in *.
  conj; try reflexivity; try assumption; try (usize_goal Elpo); try nulls_goal.
  (* non-nullable fields *)
  match goal with H : forallb _ (List.combine fs kids) = true |- forallb _ (List.combine fs kids) = true =>
    rename H into Hfa end.
  rewrite forallb_forall in Hfa. apply forallb_forall. intros [[nb t] k] Hin. specialize (Hfa _ Hin). cbn [fst snd] in *.
  apply orb_true_iff in Hfa. destruct Hfa as [Hfa|Hfa]; [rewrite Hfa; reflexivity|].
  apply orb_true_iff; right. apply non_nullable_spec; [|assumption].
  apply node_ok_counts. rewrite forallb_forall in Hk. apply Hk. apply in_combine_r in Hin. exact Hin.
Qed.
