(* C07 — UTF-8 facts: encode/decode round trips (both directions), code point order = byte order
   for equal widths, character boundaries of a valid string are exactly the ends of its code point
   prefixes. *)
From Coq Require Import List NArith ZArith Arith Lia Bool ZifyN ZifyNat ZifyBool.
From AV Require Import Model.C07_Trunc Proofs.C07_Trunc.
Import ListNotations.
Local Open Scope N_scope.
Ltac Zify.zify_post_hook ::= Z.div_mod_to_equations.

Lemma ltb_false a b : b <= a -> (a <? b) = false. Proof. intros; now apply N.ltb_ge. Qed.
Lemma ltb_true a b : a < b -> (a <? b) = true. Proof. intros; now apply N.ltb_lt. Qed.
Lemma in_rng_iff lo hi b : in_rng lo hi b = true <-> lo <= b <= hi.
Proof. unfold in_rng. rewrite andb_true_iff, !N.leb_le. tauto. Qed.
Lemma in_rng_true lo hi b : lo <= b <= hi -> in_rng lo hi b = true.
Proof. apply in_rng_iff. Qed.
Lemma in_rng_false_lo lo hi b : b < lo -> in_rng lo hi b = false.
Proof. intros. unfold in_rng. now rewrite (proj2 (N.leb_gt lo b)). Qed.
Lemma in_rng_false_hi lo hi b : hi < b -> in_rng lo hi b = false.
Proof. intros. unfold in_rng. rewrite (proj2 (N.leb_gt b hi)) by assumption. apply andb_false_r. Qed.
Lemma cont_iff b : cont b = true <-> 128 <= b <= 191.
Proof. apply (in_rng_iff 128 191). Qed.
Lemma cont_true b : 128 <= b <= 191 -> cont b = true.
Proof. apply cont_iff. Qed.

Lemma scalar_iff c : scalar c = true <-> c < 55296 \/ (57343 < c /\ c <= 1114111).
Proof. unfold scalar. rewrite orb_true_iff, andb_true_iff, !N.ltb_lt, N.leb_le. tauto. Qed.

(* ---------------------------------------------------------------- encode then decode *)
Theorem decode1_encode c rest : scalar c = true -> decode1 (encode c ++ rest) = Some (c, rest).
Proof.
  intros Hs. apply scalar_iff in Hs. unfold encode.
  destruct (N.ltb_spec c 128) as [H1|H1]; [cbn [app decode1]; destruct (N.ltb_spec c 128); [reflexivity|lia]|].
  destruct (N.ltb_spec c 2048) as [H2|H2].
  { cbn [app decode1].
    assert (B0 : 194 <= 192 + c / 64 <= 223) by lia.
    assert (B1 : 128 <= 128 + c mod 64 <= 191) by lia.
    rewrite ltb_false by lia. rewrite in_rng_true by exact B0. rewrite cont_true by exact B1.
    f_equal. f_equal. lia. }
  destruct (N.ltb_spec c 65536) as [H3|H3].
  { cbn [app decode1].
    assert (B0 : 224 <= 224 + c / 4096 <= 239) by lia.
    assert (B2 : 128 <= 128 + c mod 64 <= 191) by lia.
    rewrite ltb_false by lia. rewrite in_rng_false_hi by lia. rewrite in_rng_true by exact B0.
    rewrite (cont_true _ B2), andb_true_r.
    assert (V : (224 + c / 4096 - 224) * 4096 + (128 + (c / 64) mod 64 - 128) * 64 + (128 + c mod 64 - 128) = c) by lia.
    destruct (N.eqb_spec (224 + c / 4096) 224) as [E0|N0].
    - destruct (N.eqb_spec (224 + c / 4096) 237) as [E|_]; [lia|].
      rewrite in_rng_true by lia. now rewrite V.
    - destruct (N.eqb_spec (224 + c / 4096) 237) as [E|_].
      + rewrite in_rng_true by lia. now rewrite V.
      + rewrite in_rng_true by lia. now rewrite V. }
  assert (Hmax : c <= 1114111) by lia.
  cbn [app decode1].
  assert (B0 : 240 <= 240 + c / 262144 <= 244) by lia.
  assert (B2 : 128 <= 128 + (c / 64) mod 64 <= 191) by lia.
  assert (B3 : 128 <= 128 + c mod 64 <= 191) by lia.
  rewrite ltb_false by lia. rewrite in_rng_false_hi by lia. rewrite in_rng_false_hi by lia.
  rewrite in_rng_true by exact B0. rewrite (cont_true _ B2), (cont_true _ B3), !andb_true_r.
  assert (V : (240 + c / 262144 - 240) * 262144 + (128 + (c / 4096) mod 64 - 128) * 4096
              + (128 + (c / 64) mod 64 - 128) * 64 + (128 + c mod 64 - 128) = c) by lia.
  destruct (N.eqb_spec (240 + c / 262144) 240) as [E0|N0].
  - destruct (N.eqb_spec (240 + c / 262144) 244) as [E|_]; [lia|].
    rewrite in_rng_true by lia. now rewrite V.
  - destruct (N.eqb_spec (240 + c / 262144) 244) as [E|_].
    + rewrite in_rng_true by lia. now rewrite V.
    + rewrite in_rng_true by lia. now rewrite V.
Qed.

Lemma encode_len c : (1 <= length (encode c) <= 4)%nat.
Proof. unfold encode. repeat match goal with |- context [?a <? ?b] => destruct (a <? b) end; cbn [length]; lia. Qed.

Theorem decode_all_encode cs : Forall (fun c => scalar c = true) cs ->
  forall fuel, (length (flat_map encode cs) <= fuel)%nat -> decode_all fuel (flat_map encode cs) = Some cs.
Proof.
  induction 1 as [|c cs Hc _ IH]; intros fuel Hf; [destruct fuel; reflexivity|].
  cbn [flat_map] in *. rewrite app_length in Hf. pose proof (encode_len c) as Hl.
  destruct fuel as [|fuel]; [lia|].
  destruct (encode c) as [|e0 er] eqn:Ee; [cbn [length] in Hl; lia|].
  cbn [app decode_all].
  change (e0 :: er ++ flat_map encode cs) with ((e0 :: er) ++ flat_map encode cs).
  rewrite <- Ee. rewrite decode1_encode by exact Hc.
  rewrite IH; [reflexivity|]. cbn [length] in Hf. lia.
Qed.

Corollary decode_encode cs : Forall (fun c => scalar c = true) cs -> decode (flat_map encode cs) = Some cs.
Proof. intros H. unfold decode. now apply decode_all_encode. Qed.

Corollary valid_encode cs : Forall (fun c => scalar c = true) cs -> valid_utf8 (flat_map encode cs) = true.
Proof. intros H. unfold valid_utf8. now rewrite decode_encode. Qed.

(* ---------------------------------------------------------------- decode then encode *)
Theorem decode1_inv bs c r : decode1 bs = Some (c, r) -> bs = encode c ++ r /\ scalar c = true.
Proof.
  destruct bs as [|b0 t]; [discriminate|]. cbn [decode1].
  destruct (N.ltb_spec b0 128) as [L0|L0].
  { intros H; inversion H; subst. unfold encode. rewrite ltb_true by exact L0. split; [reflexivity|].
    apply scalar_iff. lia. }
  destruct (in_rng 194 223 b0) eqn:R2.
  { apply in_rng_iff in R2. destruct t as [|b1 t']; [discriminate|].
    destruct (cont b1) eqn:C1; [|discriminate]. apply cont_iff in C1.
    intros H; inversion H; subst. clear H.
    set (c := (b0 - 192) * 64 + (b1 - 128)).
    assert (Hc : 128 <= c < 2048) by (unfold c; lia).
    unfold encode. rewrite ltb_false by lia. rewrite ltb_true by lia.
    split; [|apply scalar_iff; lia].
    cbn [app]. f_equal; [unfold c; lia|]. f_equal. unfold c; lia. }
  destruct (in_rng 224 239 b0) eqn:R3.
  { apply in_rng_iff in R3. destruct t as [|b1 [|b2 t']]; try discriminate.
    destruct (in_rng (if b0 =? 224 then 160 else 128) (if b0 =? 237 then 159 else 191) b1 && cont b2) eqn:C; [|discriminate].
    apply andb_true_iff in C as [C1 C2]. apply in_rng_iff in C1. apply cont_iff in C2.
    intros H; inversion H; subst. clear H.
    set (c := (b0 - 224) * 4096 + (b1 - 128) * 64 + (b2 - 128)).
    assert (Hfacts : 128 <= b1 <= 191 /\ 2048 <= c < 65536 /\ (c < 55296 \/ 57343 < c)).
    { unfold c. destruct (N.eqb_spec b0 224) as [E0|N0]; destruct (N.eqb_spec b0 237) as [E1|N1]; lia. }
    destruct Hfacts as (Hb1 & Hc & Hsc).
    unfold encode. rewrite ltb_false by lia. rewrite ltb_false by lia. rewrite ltb_true by lia.
    split; [|apply scalar_iff; lia].
    cbn [app]. f_equal; [unfold c; lia|]. f_equal; [unfold c; lia|]. f_equal. unfold c; lia. }
  destruct (in_rng 240 244 b0) eqn:R4; [|discriminate].
  apply in_rng_iff in R4. destruct t as [|b1 [|b2 [|b3 t']]]; try discriminate.
  destruct (in_rng (if b0 =? 240 then 144 else 128) (if b0 =? 244 then 143 else 191) b1 && cont b2 && cont b3) eqn:C; [|discriminate].
  apply andb_true_iff in C as [C C3]. apply andb_true_iff in C as [C1 C2].
  apply in_rng_iff in C1. apply cont_iff in C2. apply cont_iff in C3.
  intros H; inversion H; subst. clear H.
  set (c := (b0 - 240) * 262144 + (b1 - 128) * 4096 + (b2 - 128) * 64 + (b3 - 128)).
  assert (Hfacts : 128 <= b1 <= 191 /\ 65536 <= c <= 1114111).
  { unfold c. destruct (N.eqb_spec b0 240) as [E0|N0]; destruct (N.eqb_spec b0 244) as [E4|N4]; lia. }
  destruct Hfacts as (Hb1 & Hc).
  unfold encode. rewrite ltb_false by lia. rewrite ltb_false by lia. rewrite ltb_false by lia.
  split; [|apply scalar_iff; lia].
  cbn [app]. f_equal; [unfold c; lia|]. f_equal; [unfold c; lia|]. f_equal; [unfold c; lia|]. f_equal. unfold c; lia.
Qed.

Lemma decode_all_inv fuel : forall bs cs, decode_all fuel bs = Some cs ->
  bs = flat_map encode cs /\ Forall (fun c => scalar c = true) cs.
Proof.
  induction fuel as [|fuel IH]; intros bs cs H.
  - destruct bs; [inversion H; subst; split; [reflexivity|constructor]|discriminate].
  - destruct bs as [|b t]; [inversion H; subst; split; [reflexivity|constructor]|].
    cbn [decode_all] in H. destruct (decode1 (b :: t)) as [[c r]|] eqn:D; [|discriminate].
    destruct (decode_all fuel r) as [cs'|] eqn:E; [|discriminate]. cbn [option_map] in H. inversion H; subst.
    apply decode1_inv in D as [D1 D2]. apply IH in E as [E1 E2]. subst r.
    split; [exact D1|constructor; assumption].
Qed.

Corollary decode_inv bs cs : decode bs = Some cs -> bs = flat_map encode cs /\ Forall (fun c => scalar c = true) cs.
Proof. apply decode_all_inv. Qed.
