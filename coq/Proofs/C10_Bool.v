(* C10 — boolean_rank (counts, the [false, true, null] rank table for the four option combinations and
   the bit-trick index) equals the rank specification on boolean columns; and the element tests used by
   the executable kernel model are consistent with the value order. *)
From Coq Require Import List ZArith Lia Bool Arith.
From AV Require Import Model.C10_Order Model.C10_Sort Model.C10_Rank Model.D_C10.
From AV Require Import Proofs.C10_Float Proofs.C10_Cmp Proofs.C10_Bytes Proofs.C10_MCmp.
Import ListNotations.

Definition bool_slot (o : oval) : Prop := match o with None => True | Some v => v = VInt 0 \/ v = VInt 1 end.
Definition bool_col (a : list oval) : Prop := Forall bool_slot a.

Definition n_true (a : list oval) : nat := length (filter (fun o : oval => match o with Some (VInt 1) => true | _ => false end) a).
Definition n_false (a : list oval) : nat := length (filter (fun o : oval => match o with Some (VInt 0) => true | _ => false end) a).

Lemma bool_counts a : bool_col a -> count_nulls a + n_true a + n_false a = length a.
Proof.
  induction 1 as [|o a Ho _ IH]; [reflexivity|]. unfold count_nulls, n_true, n_false in *. cbn.
  destruct o as [v|]; cbn; [|lia]. destruct Ho as [->| ->]; cbn; lia.
Qed.

Lemma bool_count_le desc a (b : bool) : bool_col a ->
  count_le desc (vcmp false) a (VInt (Z.b2z b))
  = match desc, b with
    | false, false => n_false a
    | false, true => n_false a + n_true a
    | true, true => n_true a
    | true, false => n_true a + n_false a
    end.
Proof.
  induction 1 as [|o a Ho _ IH]; [destruct desc, b; reflexivity|].
  unfold count_le, n_true, n_false in *. cbn [filter].
  destruct o as [v|]; [|exact IH]. destruct Ho as [->| ->]; destruct desc, b; cbn in *; lia.
Qed.

Lemma gbri_00 : get_boolean_rank_index false false = 0. Proof. reflexivity. Qed.
Lemma gbri_10 : get_boolean_rank_index true false = 1. Proof. reflexivity. Qed.
Lemma gbri_01 : get_boolean_rank_index false true = 2. Proof. reflexivity. Qed.

Theorem boolean_rank_spec nf desc a : bool_col a -> boolean_rank nf desc a = rank_spec (vcmp false) nf desc a.
Proof.
  intros Hb. pose proof (bool_counts a Hb) as Hc. unfold boolean_rank, rank_spec.
  fold (n_true a). apply map_ext_in. intros o Ho.
  assert (Bo : bool_slot o) by (unfold bool_col in Hb; rewrite Forall_forall in Hb; now apply Hb).
  replace (length a - count_nulls a - n_true a) with (n_false a) by lia.
  destruct o as [v|].
  - destruct Bo as [->| ->].
    + pose proof (bool_count_le desc a false Hb) as E. cbn [Z.b2z] in E. rewrite E. cbv beta iota zeta. rewrite ?gbri_00, ?gbri_10, ?gbri_01. destruct desc, nf; cbn [nth]; lia.
    + pose proof (bool_count_le desc a true Hb) as E. cbn [Z.b2z] in E. rewrite E. cbv beta iota zeta. rewrite ?gbri_00, ?gbri_10, ?gbri_01. destruct desc, nf; cbn [nth]; lia.
  - cbv beta iota zeta. rewrite ?gbri_00, ?gbri_10, ?gbri_01. destruct desc, nf; cbn [nth]; lia.
Qed.

(* ------------------------------------------------------------------ element tests of the kernel model *)

Definition leaf (v : val) : Prop := match v with VList _ => False | _ => True end.
Definition ok_leaf (v : val) : Prop := wf_val v /\ leaf v.

Lemma bc_of_lex ty x y : bytes x -> bytes y -> bc_of ty x y = bytes_cmp x y.
Proof. intros Hx Hy. unfold bc_of. destruct (is_view ty); [now apply view_cmp_lex|reflexivity]. Qed.

Lemma m_is_lt_ok ty a b : ok_leaf a -> ok_leaf b -> m_is_lt ty a b = is_lt_c (vcmp false a b).
Proof.
  intros [Wa _] [Wb _]. unfold m_is_lt. rewrite (m_vcmp_spec (bc_of ty) (bc_of_lex ty) false a b Wa Wb). reflexivity.
Qed.

Lemma m_is_eq_ok ty a b : ok_leaf a -> ok_leaf b -> m_is_eq ty a b = is_eq_c (vcmp false a b).
Proof.
  intros [Wa La] [Wb Lb]. destruct a as [x|h x|x|x], b as [y|h' y|y|y]; try contradiction; try reflexivity.
  - cbn. destruct (Z.compare_spec x y) as [->|L|G]; cbn; [apply Z.eqb_refl|apply Z.eqb_neq; lia|apply Z.eqb_neq; lia].
  - cbn. destruct (Z.compare_spec h h') as [->|L|G]; cbn.
    + rewrite Z.eqb_refl. cbn. destruct (total_order h' x y) eqn:E.
      * apply total_order_eq in E. subst. apply Z.eqb_refl.
      * apply Z.eqb_neq. intros ->. rewrite total_order_refl in E. discriminate.
      * apply Z.eqb_neq. intros ->. rewrite total_order_refl in E. discriminate.
    + replace (h =? h')%Z with false by (symmetry; apply Z.eqb_neq; lia). reflexivity.
    + replace (h =? h')%Z with false by (symmetry; apply Z.eqb_neq; lia). reflexivity.
  - cbn [m_is_eq vcmp]. cbn in Wa, Wb.
    assert (E : list_eqb x y = is_eq_c (bytes_cmp x y)).
    { destruct (bytes_cmp x y) eqn:C; cbn.
      - apply list_eqb_iff. now apply bytes_cmp_eq_iff.
      - apply not_true_iff_false. intros H. apply list_eqb_iff in H. subst. rewrite (proj1 tpo_bytes_cmp) in C. discriminate.
      - apply not_true_iff_false. intros H. apply list_eqb_iff in H. subst. rewrite (proj1 tpo_bytes_cmp) in C. discriminate. }
    destruct (is_view ty); [rewrite view_eq_spec by assumption|]; exact E.
Qed.

(* ------------------------------------------------------------------ the value comparators the sort kernels
   run on (index, value) tuples — T::compare through the float key, slice cmp, the 4-byte-prefix comparator of
   sort_bytes, the view keys — agree with the value order on well-formed non-nested values *)
Lemma vcmp_leaf cnf a b : leaf a -> leaf b -> vcmp cnf a b = vcmp false a b.
Proof. destruct a, b; cbn; intros; try contradiction; reflexivity. Qed.

Lemma m_value_cmp_ok ty cnf a b : ok_leaf a -> ok_leaf b -> m_value_cmp ty a b = vcmp cnf a b.
Proof.
  intros [Wa La] [Wb Lb]. rewrite (vcmp_leaf cnf a b La Lb). unfold m_value_cmp.
  destruct (existsb _ ty).
  - destruct a as [x|h x|x|x], b as [y|h' y|y|y]; try contradiction;
      try (apply (m_vcmp_spec bytes_cmp bytes_cmp_bc false); assumption).
    cbn in Wa, Wb. cbn [vcmp]. now apply cmp_bytes_prefix_lex.
  - apply (m_vcmp_spec (bc_of ty) (bc_of_lex ty) false); assumption.
Qed.
