(* C19/C03: the step of BitIndexIterator —  pos = trailing_zeros(w); w &= w - 1. *)
From Coq Require Import NArith ZArith Lia Bool ZifyN ZifyNat ZifyBool.
From AV Require Import Base.Bits.
Local Open Scope N_scope.
Ltac Zify.zify_post_hook ::= Z.div_mod_to_equations.

Lemma testbit_odd_shift m t i :
  N.testbit ((2 * m + 1) * 2^t) i = if i <? t then false else if i =? t then true else N.testbit m (i - t - 1).
Proof.
  rewrite N.mul_comm.
  replace (2^t * (2 * m + 1)) with (0 + 2^t * (2 * m + 1)) by lia.
  rewrite testbit_add_shift by (apply N.neq_0_lt_0, N.pow_nonzero; discriminate).
  destruct (N.ltb_spec i t); [apply N.bits_0|].
  destruct (N.eqb_spec i t) as [->|Hne].
  - rewrite N.sub_diag. apply N.testbit_odd_0.
  - assert (E : i - t = N.succ (i - t - 1)) by lia. rewrite E at 1. rewrite N.testbit_odd_succ by lia. reflexivity.
Qed.

Lemma pred_odd_shift m t : (2 * m + 1) * 2^t - 1 = (2^t - 1) + 2^t * (2 * m).
Proof. assert (0 < 2^t) by (apply N.neq_0_lt_0, N.pow_nonzero; discriminate). nia. Qed.

Lemma testbit_pred_odd_shift m t i :
  N.testbit ((2 * m + 1) * 2^t - 1) i = if i <? t then true else if i =? t then false else N.testbit m (i - t - 1).
Proof.
  assert (Hp : 0 < 2^t) by (apply N.neq_0_lt_0, N.pow_nonzero; discriminate).
  rewrite pred_odd_shift, testbit_add_shift by lia.
  destruct (N.ltb_spec i t).
  - replace (2^t - 1) with (N.ones t) by (rewrite N.ones_equiv; lia). now apply N.ones_spec_low.
  - destruct (N.eqb_spec i t) as [->|Hne].
    + rewrite N.sub_diag. apply N.testbit_even_0.
    + assert (E : i - t = N.succ (i - t - 1)) by lia. rewrite E at 1. rewrite N.testbit_even_succ by lia. reflexivity.
Qed.

Theorem clear_lowest m t i :
  let w := (2 * m + 1) * 2^t in
  N.testbit (N.land w (w - 1)) i = N.testbit w i && negb (i =? t).
Proof.
  cbv zeta. rewrite N.land_spec, testbit_odd_shift, testbit_pred_odd_shift.
  destruct (i <? t); [reflexivity|]. destruct (i =? t); [reflexivity|]. cbn. now rewrite andb_diag, andb_true_r.
Qed.

Theorem lowest_is_min m t i : N.testbit ((2 * m + 1) * 2^t) i = true -> t <= i.
Proof. rewrite testbit_odd_shift. destruct (N.ltb_spec i t); [discriminate|lia]. Qed.
