(* C10 — the byte-string fast paths order exactly like the lexicographic byte order:
   sort_bytes' (4-byte prefix, length, full) comparator, the 128-bit inline key of the view types,
   compare_unchecked / cmp_mixed / is_lt, and the view equality fast paths. *)
From Coq Require Import List ZArith Lia Bool Arith.
From AV Require Import Base.ListX Model.C10_Order Proofs.C10_Cmp.
Import ListNotations.

Definition byte (b : Z) : Prop := (0 <= b < 256)%Z.
Definition bytes (l : list Z) : Prop := Forall byte l.

Lemma cmp_mul_add (M v1 v2 l1 l2 : Z) : (0 <= l1 < M)%Z -> (0 <= l2 < M)%Z ->
  (v1 * M + l1 ?= v2 * M + l2)%Z = match (v1 ?= v2)%Z with Eq => (l1 ?= l2)%Z | r => r end.
Proof.
  intros H1 H2. destruct (Z.compare_spec v1 v2) as [->|L|G].
  - apply Z.add_compare_mono_l.
  - apply Z.compare_lt_iff. nia.
  - apply Z.compare_gt_iff. nia.
Qed.

(* big-endian value of equally long byte strings compares like the strings *)
Lemma fold_be_cmp x : forall y ax ay, length x = length y -> bytes x -> bytes y ->
  (fold_left (fun acc b => acc * 256 + b) x ax ?= fold_left (fun acc b => acc * 256 + b) y ay)%Z
  = match (ax ?= ay)%Z with Eq => bytes_cmp x y | r => r end.
Proof.
  induction x as [|a x IH]; intros [|b y] ax ay Hl Hx Hy; try discriminate.
  - cbn. destruct (ax ?= ay)%Z; reflexivity.
  - cbn [fold_left]. inversion Hx as [|? ? Ha Hx']; inversion Hy as [|? ? Hb Hy']; subst.
    rewrite IH by (auto; cbn in Hl; lia).
    rewrite (cmp_mul_add 256 ax ay a b Ha Hb).
    unfold bytes_cmp. cbn [lex_cmp].
    destruct (ax ?= ay)%Z; reflexivity.
Qed.

Lemma be_cmp_lex x y : length x = length y -> bytes x -> bytes y ->
  (be_val x ?= be_val y)%Z = bytes_cmp x y.
Proof. intros Hl Hx Hy. unfold be_val. rewrite fold_be_cmp by assumption. reflexivity. Qed.

(* ---- zero padding *)
Lemma pad_nil n : pad n [] = repeat 0%Z n.
Proof. unfold pad. destruct n; reflexivity. Qed.
Lemma pad_cons n a l : pad (S n) (a :: l) = a :: pad n l.
Proof. reflexivity. Qed.
Lemma pad_S_nil n : pad (S n) [] = 0%Z :: pad n [].
Proof. rewrite !pad_nil. reflexivity. Qed.
Lemma pad_0 l : pad 0 l = [].
Proof. reflexivity. Qed.
Lemma pad_length n l : length (pad n l) = n.
Proof.
  unfold pad. rewrite app_length, firstn_length, repeat_length. lia.
Qed.
Lemma pad_bytes n l : bytes l -> bytes (pad n l).
Proof.
  intros H. unfold pad. apply Forall_app. split.
  - now apply Forall_firstn'.
  - apply Forall_forall. intros x Hx. apply repeat_spec in Hx. subst. unfold byte. lia.
Qed.

Lemma bytes_cmp_cons a b x y :
  bytes_cmp (a :: x) (b :: y) = match (a ?= b)%Z with Eq => bytes_cmp x y | r => r end.
Proof. reflexivity. Qed.

Lemma zeros_min n : forall l, bytes l -> bytes_cmp (pad n []) (pad n l) <> Gt.
Proof.
  induction n as [|n IH]; intros l Hl; [cbn; congruence|].
  rewrite pad_S_nil. destruct l as [|b l].
  - rewrite pad_S_nil, bytes_cmp_cons. cbn [Z.compare]. apply IH. constructor.
  - rewrite pad_cons, bytes_cmp_cons. inversion Hl as [|? ? Hb Hl']; subst. unfold byte in Hb.
    destruct (Z.compare_spec 0 b); try congruence; [|lia]. apply IH. exact Hl'.
Qed.

Lemma bytes_cmp_antisym x y : bytes_cmp y x = CompOpp (bytes_cmp x y).
Proof. apply (proj1 (proj2 tpo_bytes_cmp)). Qed.

(* when the padded prefixes differ, they decide *)
Lemma lex_pad_ne n : forall a b, bytes a -> bytes b ->
  bytes_cmp (pad n a) (pad n b) <> Eq -> bytes_cmp a b = bytes_cmp (pad n a) (pad n b).
Proof.
  induction n as [|n IH]; intros a b Ha Hb; [cbn; congruence|].
  destruct a as [|x a], b as [|y b].
  - intros N. exfalso. apply N. apply (proj1 tpo_bytes_cmp).
  - rewrite pad_S_nil, pad_cons, bytes_cmp_cons. inversion Hb as [|? ? Hy Hb']; subst. unfold byte in Hy.
    change (bytes_cmp [] (y :: b)) with Lt.
    destruct (Z.compare_spec 0 y) as [E|L|G]; [|intros _; reflexivity|lia].
    intros N. pose proof (zeros_min n b Hb') as Z. destruct (bytes_cmp (pad n []) (pad n b)); congruence.
  - rewrite pad_S_nil, pad_cons, bytes_cmp_cons. inversion Ha as [|? ? Hx Ha']; subst. unfold byte in Hx.
    change (bytes_cmp (x :: a) []) with Gt.
    destruct (Z.compare_spec x 0) as [E|L|G]; [|lia|intros _; reflexivity].
    intros N. pose proof (zeros_min n a Ha') as Z. rewrite (bytes_cmp_antisym (pad n a) (pad n [])) in Z.
    destruct (bytes_cmp (pad n a) (pad n [])); cbn in Z; congruence.
  - rewrite !pad_cons, !bytes_cmp_cons. inversion Ha; inversion Hb; subst.
    destruct (x ?= y)%Z; try reflexivity. now apply IH.
Qed.

(* equal padded prefixes: the shorter string (if it is shorter than the padding) is a proper prefix *)
Lemma pad_eq_shorter n : forall a b,
  bytes_cmp (pad n a) (pad n b) = Eq -> length a < length b -> length a < n -> bytes_cmp a b = Lt.
Proof.
  induction n as [|n IH]; intros a b E L1 L2; [lia|].
  destruct a as [|x a], b as [|y b]; cbn [length] in *; try lia; [reflexivity|].
  rewrite !pad_cons, bytes_cmp_cons in E. rewrite bytes_cmp_cons.
  destruct (x ?= y)%Z; try discriminate. apply IH; [exact E|lia|lia].
Qed.

Lemma pad_eq_longer n a b :
  bytes_cmp (pad n a) (pad n b) = Eq -> length b < length a -> length b < n -> bytes_cmp a b = Gt.
Proof.
  intros E L1 L2. rewrite bytes_cmp_antisym.
  rewrite (pad_eq_shorter n b a); [reflexivity| |exact L1|exact L2].
  rewrite bytes_cmp_antisym, E. reflexivity.
Qed.

Lemma pad_eq_same n : forall a b,
  bytes_cmp (pad n a) (pad n b) = Eq -> length a = length b -> length a <= n -> bytes_cmp a b = Eq.
Proof.
  induction n as [|n IH]; intros a b E L1 L2.
  - destruct a, b; cbn in *; try lia. reflexivity.
  - destruct a as [|x a], b as [|y b]; cbn [length] in *; try lia; [reflexivity|].
    rewrite !pad_cons, bytes_cmp_cons in E. rewrite bytes_cmp_cons.
    destruct (x ?= y)%Z; try discriminate. apply IH; [exact E|lia|lia].
Qed.

Lemma prefix4_cmp a b : bytes a -> bytes b ->
  (prefix4 a ?= prefix4 b)%Z = bytes_cmp (pad 4 a) (pad 4 b).
Proof. intros Ha Hb. unfold prefix4. apply be_cmp_lex; [now rewrite !pad_length|now apply pad_bytes..]. Qed.

(* sort_bytes: prefix, then length when one side is shorter than 4, then the full comparison *)
Theorem cmp_bytes_prefix_lex a b : bytes a -> bytes b -> cmp_bytes_prefix a b = bytes_cmp a b.
Proof.
  intros Ha Hb. unfold cmp_bytes_prefix. rewrite prefix4_cmp by assumption.
  destruct (bytes_cmp (pad 4 a) (pad 4 b)) eqn:E.
  - destruct ((length a <? 4) || (length b <? 4)) eqn:S; [|reflexivity].
    destruct (Nat.compare_spec (length a) (length b)) as [L|L|L]; [reflexivity| |].
    + symmetry. apply (pad_eq_shorter 4); [exact E|exact L|].
      apply orb_true_iff in S. destruct S as [S|S]; apply Nat.ltb_lt in S; lia.
    + symmetry. apply (pad_eq_longer 4); [exact E|exact L|].
      apply orb_true_iff in S. destruct S as [S|S]; apply Nat.ltb_lt in S; lia.
  - symmetry. rewrite <- E. apply lex_pad_ne; congruence.
  - symmetry. rewrite <- E. apply lex_pad_ne; congruence.
Qed.

(* inline_key_fast: big-endian 12 padded bytes, then the length *)
Theorem inline_key_lex a b : bytes a -> bytes b -> length a <= 12 -> length b <= 12 ->
  (inline_key a ?= inline_key b)%Z = bytes_cmp a b.
Proof.
  intros Ha Hb La Lb. unfold inline_key.
  assert (P : (2 ^ 32 = 4294967296)%Z) by reflexivity. rewrite P.
  rewrite cmp_mul_add by lia.
  rewrite be_cmp_lex by (first [now apply pad_bytes | now rewrite !pad_length]).
  destruct (bytes_cmp (pad 12 a) (pad 12 b)) eqn:E.
  - destruct (Z.compare_spec (Z.of_nat (length a)) (Z.of_nat (length b))) as [L|L|L].
    + symmetry. apply (pad_eq_same 12); [exact E|lia|lia].
    + symmetry. apply (pad_eq_shorter 12); [exact E|lia|lia].
    + symmetry. apply (pad_eq_longer 12); [exact E|lia|lia].
  - symmetry. rewrite <- E. apply lex_pad_ne; congruence.
  - symmetry. rewrite <- E. apply lex_pad_ne; congruence.
Qed.

(* compare_unchecked / cmp_mixed / is_lt *)
Theorem view_cmp_lex a b : bytes a -> bytes b -> view_cmp a b = bytes_cmp a b.
Proof.
  intros Ha Hb. unfold view_cmp.
  destruct ((length a <=? 12) && (length b <=? 12)) eqn:S.
  - apply andb_true_iff in S. destruct S as [S1 S2]. apply Nat.leb_le in S1, S2. now apply inline_key_lex.
  - rewrite prefix4_cmp by assumption.
    destruct (bytes_cmp (pad 4 a) (pad 4 b)) eqn:E; [reflexivity| |]; symmetry; rewrite <- E; apply lex_pad_ne; congruence.
Qed.

Lemma list_eqb_iff a : forall b, list_eqb a b = true <-> a = b.
Proof.
  induction a as [|x a IH]; intros [|y b]; cbn; split; try congruence.
  - intros E. apply andb_true_iff in E. destruct E as [E1 E2]. apply Z.eqb_eq in E1. apply IH in E2. congruence.
  - intros E. injection E as -> ->. rewrite Z.eqb_refl. cbn. now apply IH.
Qed.

Lemma bytes_cmp_eq_iff a b : bytes_cmp a b = Eq <-> a = b.
Proof. split; [apply ext_bytes_cmp|intros ->; apply (proj1 tpo_bytes_cmp)]. Qed.

(* cmp.rs ArrayOrd::is_eq for views *)
Theorem view_eq_spec a b : bytes a -> bytes b -> view_eq a b = list_eqb a b.
Proof.
  intros Ha Hb. unfold view_eq.
  destruct ((inline_key a =? inline_key b)%Z && (length a <=? 12) && (length b <=? 12)) eqn:C1.
  - apply andb_true_iff in C1. destruct C1 as [C1 L2]. apply andb_true_iff in C1. destruct C1 as [K L1].
    apply Nat.leb_le in L1, L2. apply Z.eqb_eq in K.
    symmetry. apply list_eqb_iff. apply bytes_cmp_eq_iff. rewrite <- inline_key_lex by assumption.
    rewrite K. apply Z.compare_refl.
  - destruct (length a =? length b) eqn:C2; cbn [negb].
    2:{ apply Nat.eqb_neq in C2. symmetry. apply not_true_iff_false. intros E. apply list_eqb_iff in E. congruence. }
    apply Nat.eqb_eq in C2.
    destruct (length a =? 0) eqn:C3.
    { apply Nat.eqb_eq in C3. destruct a, b; cbn in *; try lia; try reflexivity. }
    destruct (prefix4 a =? prefix4 b)%Z eqn:C4; cbn [negb].
    2:{ apply Z.eqb_neq in C4. symmetry. apply not_true_iff_false. intros E. apply list_eqb_iff in E. congruence. }
    destruct (length a <=? 12) eqn:C5; [|reflexivity].
    symmetry. apply not_true_iff_false. intros E. apply list_eqb_iff in E. subst b.
    rewrite Z.eqb_refl in C1. rewrite !C5 in C1. cbn in C1. discriminate.
Qed.
