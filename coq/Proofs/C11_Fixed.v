(* C11 — fixed-width encodings: big-endian bytes, sign-bit flip, float key. *)
From Coq Require Import List Arith NArith ZArith Lia Bool.
From Coq Require Import ZifyN ZifyNat ZifyBool.
From AV Require Import Base.Bits Model.C11_Row Proofs.C11_Lex.
Import ListNotations.
Local Open Scope N_scope.

(* ------------------------------------------------------------------ big-endian bytes *)
Lemma be_bytes_length w n : length (be_bytes w n) = w.
Proof. induction w as [|w IH]; cbn [be_bytes length]; [reflexivity|]. now rewrite IH. Qed.

Lemma be_bytes_wf w n : wf_bytes (be_bytes w n).
Proof.
  induction w as [|w IH]; cbn [be_bytes]; constructor; [|exact IH].
  unfold wf_byte. apply N.mod_lt. lia.
Qed.

Lemma pow8_S w : 2 ^ (8 * N.of_nat (S w)) = 2 ^ (8 * N.of_nat w) * 256.
Proof. rewrite Nat2N.inj_succ, N.mul_succ_r, N.pow_add_r. reflexivity. Qed.

Lemma pow8_pos w : 0 < 2 ^ (8 * N.of_nat w).
Proof. apply N.neq_0_lt_0, N.pow_nonzero. lia. Qed.

(* split of the low w+1 bytes into head byte and low w bytes *)
Lemma mod_split w n :
  n mod 2 ^ (8 * N.of_nat (S w)) = n mod 2 ^ (8 * N.of_nat w) + 2 ^ (8 * N.of_nat w) * ((n / 2 ^ (8 * N.of_nat w)) mod 256).
Proof. rewrite pow8_S. apply N.mod_mul_r; [pose proof (pow8_pos w); lia | lia]. Qed.

Lemma cmp_split M la ha lb hb : la < M -> lb < M ->
  (la + M * ha ?= lb + M * hb) = match ha ?= hb with Eq => la ?= lb | c => c end.
Proof.
  intros Ha Hb.
  destruct (N.compare_spec ha hb) as [E|L|G].
  - subst hb. destruct (N.compare_spec la lb); [apply N.compare_eq_iff | apply N.compare_lt_iff | apply N.compare_gt_iff]; lia.
  - apply N.compare_lt_iff. nia.
  - apply N.compare_gt_iff. nia.
Qed.

(* byte-wise order of big-endian encodings = numeric order of the low w bytes *)
Lemma lex_be_mod w a b :
  lex (be_bytes w a) (be_bytes w b) = (a mod 2 ^ (8 * N.of_nat w) ?= b mod 2 ^ (8 * N.of_nat w)).
Proof.
  induction w as [|w IH]; cbn [be_bytes lex].
  - cbn. now rewrite !N.mod_1_r.
  - rewrite !mod_split, IH.
    pose proof (pow8_pos w) as Hp.
    rewrite cmp_split; [reflexivity | apply N.mod_lt; lia | apply N.mod_lt; lia].
Qed.

Lemma lex_be w a b : a < 2 ^ (8 * N.of_nat w) -> b < 2 ^ (8 * N.of_nat w) ->
  lex (be_bytes w a) (be_bytes w b) = (a ?= b).
Proof. intros Ha Hb. rewrite lex_be_mod, !N.mod_small by assumption. reflexivity. Qed.

(* be_bytes only looks at the low w bytes *)
Lemma be_bytes_add_high_gen w k n c : (w <= k)%nat -> be_bytes w (n + 2 ^ (8 * N.of_nat k) * c) = be_bytes w n.
Proof.
  intros Hk. induction w as [|w IH]; cbn [be_bytes]; [reflexivity|].
  rewrite IH by lia. f_equal.
  pose proof (pow8_pos w) as Hp.
  replace (8 * N.of_nat k) with (8 * N.of_nat w + (8 + 8 * N.of_nat (k - S w))) by lia.
  rewrite !N.pow_add_r. change (2 ^ 8) with 256.
  replace (n + 2 ^ (8 * N.of_nat w) * (256 * 2 ^ (8 * N.of_nat (k - S w))) * c)
    with (n + (2 ^ (8 * N.of_nat (k - S w)) * c * 256) * 2 ^ (8 * N.of_nat w)) by lia.
  rewrite N.div_add by lia. rewrite N.mod_add by lia. reflexivity.
Qed.

Lemma be_bytes_add_high w n c : be_bytes w (n + 2 ^ (8 * N.of_nat w) * c) = be_bytes w n.
Proof. apply be_bytes_add_high_gen. lia. Qed.

Lemma be_val_gen bs acc :
  fold_left (fun a b => a * 256 + b) bs acc = acc * 2 ^ (8 * N.of_nat (length bs)) + be_val bs.
Proof.
  unfold be_val. revert acc. induction bs as [|b bs IH]; intros acc; cbn [fold_left length].
  - cbn. lia.
  - rewrite IH. rewrite (IH (0 * 256 + b)). rewrite pow8_S. lia.
Qed.

Lemma be_val_cons b bs : be_val (b :: bs) = b * 2 ^ (8 * N.of_nat (length bs)) + be_val bs.
Proof. unfold be_val at 1. cbn [fold_left]. rewrite be_val_gen. lia. Qed.

Lemma be_val_be_bytes w n : be_val (be_bytes w n) = n mod 2 ^ (8 * N.of_nat w).
Proof.
  induction w as [|w IH]; cbn [be_bytes].
  - cbn. now rewrite N.mod_1_r.
  - rewrite be_val_cons, be_bytes_length, IH, mod_split. lia.
Qed.

(* ------------------------------------------------------------------ sign-bit flip *)
Lemma lxor_128 h : h < 256 -> N.lxor h 128 = (h + 128) mod 256.
Proof.
  intros Hh.
  assert (Hall : forallb (fun n => N.eqb (N.lxor (N.of_nat n) 128) ((N.of_nat n + 128) mod 256)) (seq 0 256) = true)
    by (vm_compute; reflexivity).
  rewrite forallb_forall in Hall.
  specialize (Hall (N.to_nat h)). rewrite N2Nat.id in Hall.
  apply N.eqb_eq, Hall, in_seq. lia.
Qed.

(* W = 8 * (S w) bits; the flip adds half the range *)
Lemma flip_first_be w p :
  flip_first (be_bytes (S w) p) = be_bytes (S w) (p + 128 * 2 ^ (8 * N.of_nat w)).
Proof.
  cbn [be_bytes flip_first].
  pose proof (pow8_pos w) as Hp.
  rewrite lxor_128 by (apply N.mod_lt; lia).
  f_equal.
  - rewrite N.add_mod_idemp_l by lia.
    rewrite N.div_add by lia. reflexivity.
  - rewrite (N.mul_comm 128). symmetry. apply be_bytes_add_high.
Qed.

Definition half (w : nat) : N := 2 ^ (bits w - 1).

Lemma half_double w : (1 <= w)%nat -> 2 * half w = 2 ^ bits w.
Proof.
  intros Hw. unfold half, bits. replace (8 * N.of_nat w) with (N.succ (8 * N.of_nat w - 1)) at 2 by lia.
  now rewrite N.pow_succ_r'.
Qed.

Lemma half_128 w : half (S w) = 128 * 2 ^ (8 * N.of_nat w).
Proof.
  unfold half, bits. replace (8 * N.of_nat (S w) - 1) with (7 + 8 * N.of_nat w) by lia.
  rewrite N.pow_add_r. reflexivity.
Qed.

Lemma half_pos w : 0 < half w.
Proof. unfold half. apply N.neq_0_lt_0, N.pow_nonzero. lia. Qed.

Lemma encode_signed_pat_be w p : (1 <= w)%nat ->
  encode_signed_pat w p = be_bytes w (p + half w).
Proof.
  intros Hw. destruct w as [|w]; [lia|]. unfold encode_signed_pat.
  rewrite flip_first_be, half_128. reflexivity.
Qed.

Lemma encode_signed_pat_length w p : length (encode_signed_pat w p) = w.
Proof.
  unfold encode_signed_pat. destruct w as [|w]; [reflexivity|]. cbn [be_bytes flip_first length].
  now rewrite be_bytes_length.
Qed.

Lemma encode_signed_pat_wf w p : (1 <= w)%nat -> wf_bytes (encode_signed_pat w p).
Proof. intros Hw. rewrite encode_signed_pat_be by exact Hw. apply be_bytes_wf. Qed.

Lemma flip_first_invol bs : flip_first (flip_first bs) = bs.
Proof.
  destruct bs as [|b r]; [reflexivity|]. cbn [flip_first].
  now rewrite N.lxor_assoc, N.lxor_nilpotent, N.lxor_0_r.
Qed.

Lemma decode_encode_signed_pat w p : p < 2 ^ bits w ->
  decode_signed_pat (encode_signed_pat w p) = p.
Proof.
  intros Hp. unfold decode_signed_pat, encode_signed_pat.
  rewrite flip_first_invol, be_val_be_bytes. apply N.mod_small. exact Hp.
Qed.

(* ------------------------------------------------------------------ signed integers *)
Definition in_signed (w : nat) (z : Z) : Prop := (- Z.of_N (half w) <= z < Z.of_N (half w))%Z.

Lemma to_pattern_shift w z : (1 <= w)%nat -> in_signed w z ->
  (to_pattern w z + half w) mod 2 ^ bits w = Z.to_N (z + Z.of_N (half w)).
Proof.
  intros Hw Hz. unfold in_signed in Hz. pose proof (half_double w Hw) as Hd. pose proof (half_pos w) as Hh.
  unfold to_pattern. rewrite <- Hd.
  assert (E2 : (2 ^ Z.of_N (bits w))%Z = Z.of_N (2 * half w)).
  { rewrite Hd. rewrite N2Z.inj_pow. reflexivity. }
  rewrite E2.
  destruct (Z.neg_nonneg_cases z) as [Hn|Hn].
  - assert (Ez : (z mod Z.of_N (2 * half w) = z + Z.of_N (2 * half w))%Z).
    { symmetry. apply Z.mod_unique_pos with (q := (-1)%Z); lia. }
    rewrite Ez. symmetry. apply N.mod_unique with (q := 1); lia.
  - rewrite Z.mod_small by lia. rewrite N.mod_small by lia. lia.
Qed.

Theorem signed_order w a b : (1 <= w)%nat -> in_signed w a -> in_signed w b ->
  lex (encode_signed w a) (encode_signed w b) = (a ?= b)%Z.
Proof.
  intros Hw Ha Hb. unfold encode_signed. rewrite !encode_signed_pat_be by exact Hw.
  rewrite lex_be_mod. fold (bits w). rewrite !to_pattern_shift by assumption.
  unfold in_signed in *. rewrite Z2N.inj_compare by lia.
  destruct (Z.compare_spec (a + Z.of_N (half w)) (b + Z.of_N (half w))) as [E|L|G]; symmetry;
    [apply Z.compare_eq_iff | apply Z.compare_lt_iff | apply Z.compare_gt_iff]; lia.
Qed.

Lemma half_Z w : (1 <= w)%nat -> Z.of_N (half w) = (2 ^ (Z.of_N (bits w) - 1))%Z.
Proof.
  intros Hw. unfold half. rewrite N2Z.inj_pow. f_equal. unfold bits. lia.
Qed.

Lemma pow_bits_Z w : (2 ^ Z.of_N (bits w))%Z = Z.of_N (2 ^ bits w).
Proof. now rewrite N2Z.inj_pow. Qed.

Lemma encode_signed_length w z : length (encode_signed w z) = w.
Proof. apply encode_signed_pat_length. Qed.

Lemma encode_signed_wf w z : (1 <= w)%nat -> wf_bytes (encode_signed w z).
Proof. intros. now apply encode_signed_pat_wf. Qed.

(* ------------------------------------------------------------------ unsigned integers, bool *)
Definition in_unsigned (w : nat) (z : Z) : Prop := (0 <= z < Z.of_N (2 ^ bits w))%Z.

Theorem unsigned_order w a b : in_unsigned w a -> in_unsigned w b ->
  lex (encode_unsigned w a) (encode_unsigned w b) = (a ?= b)%Z.
Proof.
  intros Ha Hb. unfold in_unsigned in *. unfold encode_unsigned.
  rewrite lex_be by (fold (bits w); lia). apply Z2N.inj_compare; lia.
Qed.

Lemma encode_unsigned_length w z : length (encode_unsigned w z) = w.
Proof. apply be_bytes_length. Qed.

Lemma encode_unsigned_wf w z : wf_bytes (encode_unsigned w z).
Proof. apply be_bytes_wf. Qed.

Lemma decode_encode_unsigned w z : in_unsigned w z -> decode_unsigned (encode_unsigned w z) = z.
Proof.
  intros Hz. unfold in_unsigned in Hz. unfold decode_unsigned, encode_unsigned.
  rewrite be_val_be_bytes. fold (bits w). rewrite N.mod_small by lia. lia.
Qed.

Theorem bool_order a b : (a = 0 \/ a = 1)%Z -> (b = 0 \/ b = 1)%Z ->
  lex (encode_bool a) (encode_bool b) = (a ?= b)%Z.
Proof. intros [-> | ->] [-> | ->]; reflexivity. Qed.

(* ------------------------------------------------------------------ top bit *)
Lemma testbit_top k u : u < 2 * 2 ^ k -> N.testbit u k = (2 ^ k <=? u).
Proof.
  intros Hu. pose proof (N.testbit_spec' u k) as Hs.
  assert (Hp : 0 < 2 ^ k) by (apply N.neq_0_lt_0, N.pow_nonzero; lia).
  destruct (N.leb_spec (2 ^ k) u) as [Hge|Hlt].
  - assert (E : u / 2 ^ k = 1).
    { symmetry. apply N.div_unique with (r := u - 2 ^ k); lia. }
    rewrite E in Hs. destruct (N.testbit u k); [reflexivity|discriminate].
  - rewrite N.div_small in Hs by exact Hlt. destruct (N.testbit u k); [discriminate|reflexivity].
Qed.

Lemma bits_pred w : (1 <= w)%nat -> 2 ^ bits w = 2 * 2 ^ (bits w - 1).
Proof. intros Hw. rewrite <- half_double by exact Hw. reflexivity. Qed.

Lemma of_to_pattern w z : (1 <= w)%nat -> in_signed w z -> of_pattern w (to_pattern w z) = z.
Proof.
  intros Hw Hz. unfold in_signed in Hz. pose proof (half_double w Hw) as Hd. pose proof (half_pos w) as Hh.
  unfold of_pattern.
  assert (E2 : (2 ^ Z.of_N (bits w))%Z = Z.of_N (2 * half w)) by (rewrite Hd; apply pow_bits_Z).
  assert (Hlt : to_pattern w z < 2 * 2 ^ (bits w - 1)).
  { fold (half w). unfold to_pattern. rewrite E2.
    pose proof (Z.mod_pos_bound z (Z.of_N (2 * half w))). lia. }
  rewrite testbit_top by exact Hlt. fold (half w).
  unfold to_pattern in *. rewrite E2 in *.
  destruct (Z.neg_nonneg_cases z) as [Hn|Hn].
  - assert (Ez : (z mod Z.of_N (2 * half w) = z + Z.of_N (2 * half w))%Z).
    { symmetry. apply Z.mod_unique_pos with (q := (-1)%Z); lia. }
    rewrite Ez. destruct (N.leb_spec (half w) (Z.to_N (z + Z.of_N (2 * half w)))); lia.
  - rewrite Z.mod_small by lia.
    destruct (N.leb_spec (half w) (Z.to_N z)); lia.
Qed.

Lemma to_pattern_lt w z : to_pattern w z < 2 ^ bits w.
Proof.
  unfold to_pattern. rewrite pow_bits_Z.
  assert (0 < 2 ^ bits w) by (apply N.neq_0_lt_0, N.pow_nonzero; lia).
  pose proof (Z.mod_pos_bound z (Z.of_N (2 ^ bits w))). lia.
Qed.

Lemma decode_encode_signed w z : (1 <= w)%nat -> in_signed w z -> decode_signed w (encode_signed w z) = z.
Proof.
  intros Hw Hz. unfold decode_signed, encode_signed.
  rewrite decode_encode_signed_pat by apply to_pattern_lt. now apply of_to_pattern.
Qed.

(* ------------------------------------------------------------------ float key *)
Lemma land_pow2_low k m : m < 2 ^ k -> N.land (2 ^ k) m = 0.
Proof.
  intros Hm. apply N.bits_inj. intros i. rewrite N.land_spec, N.bits_0, N.pow2_bits_eqb.
  destruct (N.eqb_spec k i) as [->|Hne]; [|reflexivity].
  rewrite (testbit_high m i i) by (try exact Hm; lia). reflexivity.
Qed.

Lemma lxor_pow2_low k m : m < 2 ^ k -> N.lxor (2 ^ k) m = 2 ^ k + m.
Proof. intros Hm. symmetry. apply N.add_nocarry_lxor. now apply land_pow2_low. Qed.

Lemma lxor_ones_low k m : 0 < k -> m < 2 ^ k -> N.lxor m (N.ones k) = 2 ^ k - 1 - m.
Proof.
  intros Hk Hm. change (N.lxor m (N.ones k)) with (N.lnot m k).
  rewrite N.lnot_sub_low.
  - rewrite N.ones_equiv. lia.
  - destruct (N.eq_dec m 0) as [->|Hnz]; [cbn; exact Hk|].
    apply N.log2_lt_pow2; [lia | exact Hm].
Qed.

Lemma shiftr_ones k : 0 < k -> N.shiftr (N.ones k) 1 = N.ones (k - 1).
Proof.
  intros Hk. rewrite N.shiftr_div_pow2, !N.ones_equiv. change (2 ^ 1) with 2.
  replace k with (N.succ (k - 1)) at 1 by lia. rewrite N.pow_succ_r'.
  assert (0 < 2 ^ (k - 1)) by (apply N.neq_0_lt_0, N.pow_nonzero; lia).
  symmetry. apply N.div_unique with (r := 1); lia.
Qed.

(* the xor/shift trick, arithmetically: non-negative patterns are kept, negative ones have their
   low bits flipped *)
Lemma float_key_arith w u : (1 <= w)%nat -> u < 2 ^ bits w ->
  float_key w u = if u <? half w then u else 3 * half w - 1 - u.
Proof.
  intros Hw Hu. pose proof (half_double w Hw) as Hd. pose proof (half_pos w) as Hh.
  unfold float_key, sar_sign.
  rewrite testbit_top by (rewrite <- bits_pred by exact Hw; exact Hu). fold (half w).
  assert (Hk : 0 < bits w - 1) by (unfold bits; lia).
  destruct (N.leb_spec (half w) u) as [Hge|Hlt].
  - destruct (N.ltb_spec u (half w)) as [Hc|_]; [lia|].
    rewrite shiftr_ones by (unfold bits; lia).
    set (m := u - half w). assert (Em : u = 2 ^ (bits w - 1) + m) by (fold (half w); lia).
    assert (Hm : m < 2 ^ (bits w - 1)) by (fold (half w); lia).
    rewrite Em at 1. rewrite <- lxor_pow2_low by exact Hm.
    rewrite N.lxor_assoc, lxor_ones_low by assumption.
    rewrite lxor_pow2_low by lia. fold (half w). lia.
  - destruct (N.ltb_spec u (half w)) as [_|Hc]; [|lia].
    rewrite N.shiftr_0_l. apply N.lxor_0_r.
Qed.

Lemma float_key_lt w u : (1 <= w)%nat -> u < 2 ^ bits w -> float_key w u < 2 ^ bits w.
Proof.
  intros Hw Hu. rewrite float_key_arith by assumption. pose proof (half_double w Hw).
  destruct (N.ltb_spec u (half w)); lia.
Qed.

Lemma float_key_invol w u : (1 <= w)%nat -> u < 2 ^ bits w -> float_key w (float_key w u) = u.
Proof.
  intros Hw Hu. rewrite (float_key_arith w (float_key w u)) by (try apply float_key_lt; assumption).
  rewrite float_key_arith by assumption. pose proof (half_double w Hw).
  destruct (N.ltb_spec u (half w)) as [H1|H1].
  - destruct (N.ltb_spec u (half w)); lia.
  - destruct (N.ltb_spec (3 * half w - 1 - u) (half w)); lia.
Qed.

Theorem float_order w a b : (1 <= w)%nat -> in_unsigned w a -> in_unsigned w b ->
  lex (encode_float w a) (encode_float w b) = total_cmp (Z.of_N (half w)) a b.
Proof.
  intros Hw Ha Hb. unfold in_unsigned in *. pose proof (half_double w Hw) as Hd. pose proof (half_pos w) as Hh.
  unfold encode_float. rewrite !encode_signed_pat_be by exact Hw.
  rewrite lex_be_mod. fold (bits w).
  rewrite !float_key_arith by (try exact Hw; lia).
  unfold total_cmp, fmag, fsign.
  set (ua := Z.to_N a). set (ub := Z.to_N b).
  assert (Ea : a = Z.of_N ua) by (subst ua; lia). assert (Eb : b = Z.of_N ub) by (subst ub; lia).
  assert (Ha' : ua < 2 * half w) by lia. assert (Hb' : ub < 2 * half w) by lia.
  rewrite Ea, Eb. clearbody ua ub. clear Ea Eb Ha Hb a b.
  rewrite <- Hd.
  assert (R1 : forall u, u < half w -> (u + half w) mod (2 * half w) = u + half w)
    by (intros u Hu'; apply N.mod_small; lia).
  assert (R2 : forall u, half w <= u -> u < 2 * half w ->
                 (3 * half w - 1 - u + half w) mod (2 * half w) = 2 * half w - 1 - u).
  { intros u H1 H2. symmetry. apply N.mod_unique with (q := 1); lia. }
  destruct (N.ltb_spec ua (half w)) as [La|La], (N.ltb_spec ub (half w)) as [Lb|Lb];
    destruct (Z.leb_spec (Z.of_N (half w)) (Z.of_N ua)) as [Sa|Sa]; try lia;
    destruct (Z.leb_spec (Z.of_N (half w)) (Z.of_N ub)) as [Sb|Sb]; try lia.
  - rewrite (R1 ua), (R1 ub) by assumption.
    destruct (Z.compare_spec (Z.of_N ua) (Z.of_N ub)); [apply N.compare_eq_iff | apply N.compare_lt_iff | apply N.compare_gt_iff]; lia.
  - rewrite (R1 ua), (R2 ub) by assumption. apply N.compare_gt_iff. lia.
  - rewrite (R1 ub), (R2 ua) by assumption. apply N.compare_lt_iff. lia.
  - rewrite (R2 ua), (R2 ub) by assumption.
    destruct (Z.compare_spec (Z.of_N ub - Z.of_N (half w)) (Z.of_N ua - Z.of_N (half w)));
      [apply N.compare_eq_iff | apply N.compare_lt_iff | apply N.compare_gt_iff]; lia.
Qed.

Lemma encode_float_length w z : length (encode_float w z) = w.
Proof. apply encode_signed_pat_length. Qed.

Lemma encode_float_wf w z : (1 <= w)%nat -> wf_bytes (encode_float w z).
Proof. intros. now apply encode_signed_pat_wf. Qed.

Lemma decode_encode_float w z : (1 <= w)%nat -> in_unsigned w z -> decode_float w (encode_float w z) = z.
Proof.
  intros Hw Hz. unfold in_unsigned in Hz. unfold decode_float, encode_float.
  rewrite decode_encode_signed_pat by (apply float_key_lt; [exact Hw | lia]).
  rewrite float_key_invol by (try exact Hw; lia). lia.
Qed.

(* total_cmp is Eq only on identical patterns (injectivity for floats) *)
Lemma total_cmp_eq H x y : (0 < H)%Z -> (0 <= x < 2 * H)%Z -> (0 <= y < 2 * H)%Z ->
  total_cmp H x y = Eq -> x = y.
Proof.
  intros HH Hx Hy. unfold total_cmp, fmag, fsign.
  destruct (Z.leb_spec H x), (Z.leb_spec H y); try discriminate; intros E; apply Z.compare_eq_iff in E; lia.
Qed.
