(* C13 — whole-column statements for the modelled casts: the cast of a physical column (either
   CastOptions.safe value) IS the specification cast of its logical column. *)
From Coq Require Import List ZArith Bool Lia.
From AV Require Import Model.C13_Num Model.C13_Decimal Model.C13_Cast.
From AV Require Import Proofs.C13_Col Proofs.C13_Pow Proofs.C13_Rescale Proofs.C13_Int.
Import ListNotations.
Local Open Scope Z_scope.

Definition refines (res : res) (conv : Z -> option Z) (safe : bool) (c : column) : Prop :=
  match res with
  | ROk r => spec_cast conv safe (logical c) = Some (logical r)
  | RErr => spec_cast conv safe (logical c) = None
  | RPanic => False
  end.

Lemma spec_fails_total : forall (g : Z -> Z) xs, spec_fails (fun v => Some (g v)) xs = false.
Proof. intros g xs. unfold spec_fails. induction xs as [|[v|] r IH]; cbn; [reflexivity|exact IH|exact IH]. Qed.

(* kernels with a safe and a strict reading *)
Lemma run_kernel_refines_fn : forall k f conv safe c, value_fn k = Some f ->
  (forall v, In (true, v) c -> f v = conv v) -> refines (run_kernel k safe c) conv safe c.
Proof.
  intros k f conv safe c Hk Hv. unfold refines.
  assert (Hv' : forall v, In (Some v) (logical c) -> f v = conv v) by (intros v Hi; apply Hv, in_logical; assumption).
  destruct k as [f0|g| | | |]; cbn in Hk; try discriminate Hk.
  - inversion Hk; subst f0. cbn [run_kernel]. unfold spec_cast. destruct safe.
    + rewrite unary_opt_logical. f_equal. fold (spec_safe f (logical c)). symmetry. apply spec_safe_ext. assumption.
    + unfold spec_strict. rewrite <- (spec_fails_ext f conv) by assumption. rewrite <- (spec_safe_ext f conv) by assumption.
      destruct (try_unary f c) as [r|] eqn:T.
      * assert (spec_fails f (logical c) = false) as ->.
        { destruct (spec_fails f (logical c)) eqn:F; [|reflexivity]. exfalso.
          unfold spec_fails in F. apply existsb_exists in F. destruct F as ([v|] & Hi & Hn); [|discriminate].
          assert (X : try_unary f c = None); [|congruence]. apply try_unary_none. exists v. split; [apply in_logical; assumption|].
          destruct (f v); [discriminate|reflexivity]. }
        rewrite (try_unary_some _ _ _ T), unary_opt_logical. reflexivity.
      * apply try_unary_none in T. destruct T as (v & Hi & Hn).
        assert (spec_fails f (logical c) = true) as ->; [|reflexivity].
        unfold spec_fails. apply existsb_exists. exists (Some v). split; [apply in_logical; assumption|]. rewrite Hn. reflexivity.
  - inversion Hk; subst f. cbn [run_kernel]. unfold spec_cast.
    assert (E : spec_safe conv (logical c) = logical (unary g c)).
    { rewrite unary_logical. symmetry. apply spec_safe_ext. assumption. }
    destruct safe; [rewrite E; reflexivity|].
    unfold spec_strict. rewrite <- (spec_fails_ext (fun v => Some (g v)) conv) by assumption.
    rewrite spec_fails_total.
    rewrite E. reflexivity.
Qed.

(* any kernel except the both-modes try_unary one, described by what it does to every raw slot *)
Theorem run_kernel_refines : forall k conv safe c,
  (forall f, k <> KTry f) ->
  kernel_value k 0 = Some (conv 0) ->
  (forall b v, In (b, v) c -> kernel_value k v = Some (conv v)) ->
  refines (run_kernel k safe c) conv safe c.
Proof.
  intros k conv safe c Hnt H0 Hall.
  destruct k as [f|g|f|f| |].
  - apply (run_kernel_refines_fn (KOpt f) f); [reflexivity|].
    intros v Hi. specialize (Hall true v Hi). cbn in Hall. inversion Hall. reflexivity.
  - apply (run_kernel_refines_fn (KTotal g) (fun v => Some (g v))); [reflexivity|].
    intros v Hi. specialize (Hall true v Hi). cbn in Hall. inversion Hall. reflexivity.
  - (* unary (unwrap . f): no slot fails *)
    assert (Hs : forall b v, In (b, v) c -> exists r, f v = Some r /\ conv v = Some r).
    { intros b v Hi. specialize (Hall b v Hi). cbn in Hall. destruct (f v) as [r|]; [|discriminate].
      exists r. split; [reflexivity|]. inversion Hall. reflexivity. }
    unfold refines. cbn [run_kernel]. unfold unary_unwrap.
    assert (Fa : forallb (fun s : slot => is_some (f (snd s))) c = true).
    { apply forallb_forall. intros [b v] Hi. cbn [snd]. destruct (Hs b v Hi) as (r & E & _). rewrite E. reflexivity. }
    rewrite Fa.
    assert (E : spec_safe conv (logical c) = logical (map (fun s : slot => (fst s, match f (snd s) with Some r => r | None => 0 end)) c)).
    { unfold spec_safe, logical. rewrite !map_map. apply map_ext_in. intros [b v] Hi. cbn [fst snd].
      destruct b; [|reflexivity]. destruct (Hs true v Hi) as (r & E1 & E2). rewrite E1, E2. reflexivity. }
    unfold spec_cast. destruct safe; [rewrite E; reflexivity|].
    unfold spec_strict.
    assert (spec_fails conv (logical c) = false) as ->.
    { destruct (spec_fails conv (logical c)) eqn:F; [|reflexivity]. exfalso.
      unfold spec_fails in F. apply existsb_exists in F. destruct F as ([v|] & Hi & Hn); [|discriminate].
      apply in_logical in Hi. destruct (Hs true v Hi) as (r & _ & E2). rewrite E2 in Hn. discriminate. }
    rewrite E. reflexivity.
  - exfalso. apply (Hnt f). reflexivity.
  - cbn in H0. discriminate.
  - cbn in H0. discriminate.
Qed.

(* ---------------------------------------------------------------- integers *)
Theorem int_column_cast_spec : forall b1 s1 b2 s2 safe c,
  (forall v, In (true, v) c -> fits b1 s1 v = true) ->
  refines (cast_model (TInt b1 s1) (TInt b2 s2) safe c) (num_cast b2 s2) safe c.
Proof.
  intros b1 s1 b2 s2 safe c Hc. unfold cast_model, kernel_of. cbn [mty_eqb].
  destruct ((b1 =? b2) && Bool.eqb s1 s2) eqn:E.
  - apply andb_true_iff in E. destruct E as [Eb Es]. apply Z.eqb_eq in Eb. apply Bool.eqb_prop in Es. subst.
    apply (run_kernel_refines_fn idk (fun v => Some v)); [reflexivity|].
    intros v Hi. unfold num_cast. rewrite (Hc v Hi). reflexivity.
  - apply (run_kernel_refines_fn (KOpt (num_cast b2 s2)) (num_cast b2 s2)); [reflexivity|]. reflexivity.
Qed.

(* ---------------------------------------------------------------- decimals *)
Lemma kernel_of_dec : forall w1 p1 s1 w2 p2 s2,
  kernel_of (TDec w1 p1 s1) (TDec w2 p2 s2) = dec_dec_kernel w1 p1 s1 w2 p2 s2.
Proof.
  intros. unfold kernel_of. cbn [mty_eqb].
  destruct ((w1 =? w2) && (p1 =? p2) && (s1 =? s2)) eqn:E; [|reflexivity].
  apply andb_true_iff in E. destruct E as [E Es]. apply andb_true_iff in E. destruct E as [Ew Ep].
  apply Z.eqb_eq in Ew, Ep, Es. subst. unfold dec_dec_kernel. rewrite !Z.eqb_refl, Z.leb_refl. reflexivity.
Qed.

Lemma dec_dec_kernel_not_try : forall w1 p1 s1 w2 p2 s2 f, dec_dec_kernel w1 p1 s1 w2 p2 s2 <> KTry f.
Proof.
  intros w1 p1 s1 w2 p2 s2 f. unfold dec_dec_kernel. cbv zeta.
  repeat match goal with
         | |- context [if ?b then _ else _] => destruct b
         | |- context [match table_get ?w ?k with _ => _ end] => destruct (table_get w k)
         end; discriminate.
Qed.

(* decimal -> decimal on a whole column, both modes: provided every raw slot — the ones under nulls
   too, because the fast path visits them — is within the declared precision, the modelled cast is
   the specification cast (round half away from zero, null / error beyond the output precision) *)
Theorem decimal_column_cast_spec : forall w1 p1 s1 w2 p2 s2 safe c,
  In w1 widths -> In w2 widths ->
  dec_type_ok w1 p1 s1 = true -> dec_type_ok w2 p2 s2 = true ->
  - 127 <= s2 - s1 <= 127 -> p1 + (s2 - s1) <= 127 -> (s1 <= s2 -> s2 - s1 <= dec_maxp w2) ->
  (forall b v, In (b, v) c -> Z.abs v < 10 ^ p1) ->
  refines (cast_model (TDec w1 p1 s1) (TDec w2 p2 s2) safe c) (dec_dec_spec s1 p2 s2) safe c.
Proof.
  intros w1 p1 s1 w2 p2 s2 safe c Hw1 Hw2 T1 T2 Hi8 Hi8p Hup Hc.
  unfold cast_model. rewrite kernel_of_dec.
  apply run_kernel_refines.
  - intros f. apply dec_dec_kernel_not_try.
  - apply dec_dec_kernel_exact; try assumption. apply dec_type_ok_bounds in T1. destruct T1 as (P1 & _).
    pose proof (pow10_pos p1 ltac:(lia)). cbn. lia.
  - intros b v Hi. apply dec_dec_kernel_exact; try assumption. apply (Hc b v Hi).
Qed.
