(* C11 — every field encoder is strong for the logical comparison under its SortOptions. *)
From Coq Require Import List Arith NArith ZArith Lia Bool.
From AV Require Import Base.ListX Model.C11_Row Proofs.C11_Lex Proofs.C11_Fixed Proofs.C11_Var Proofs.C11_Unfold.
Import ListNotations.
Local Open Scope N_scope.

Definition dir (d : bool) (c : comparison) : comparison := if d then CompOpp c else c.

Lemma strong_map {A B} (f : B -> A) (P : A -> Prop) e c :
  strong P e c -> strong (fun b => P (f b)) (fun b => e (f b)) (fun x y => c (f x) (f y)).
Proof. intros H a b x y Pa Pb. now apply H. Qed.

(* ------------------------------------------------------------------ nulls *)
Definition nonree (t : ftype) : Prop := match t with TRee _ => False | _ => True end.

Lemma cmp_field_nn t o : nonree t -> cmp_field t o VNull VNull = Eq.
Proof. intros H. unfold cmp_field. destruct t; try contradiction; destruct (descending o); reflexivity. Qed.

Lemma cmp_field_nl t o a : nonree t -> a <> VNull ->
  cmp_field t o VNull a = if nulls_first o then Lt else Gt.
Proof.
  intros H Na. unfold cmp_field.
  destruct t; try contradiction; destruct a; try congruence;
    destruct (descending o), (nulls_first o); reflexivity.
Qed.

Lemma cmp_field_ln t o a : nonree t -> a <> VNull ->
  cmp_field t o a VNull = if nulls_first o then Gt else Lt.
Proof.
  intros H Na. unfold cmp_field.
  destruct t; try contradiction; destruct a; try congruence;
    destruct (descending o), (nulls_first o); reflexivity.
Qed.

Lemma value_null_dec (v : value) : {v = VNull} + {v <> VNull}.
Proof. destruct v; [left; reflexivity | right; discriminate ..]. Qed.

(* A nullable field: null = sentinel + constant padding; a valid value starts with a byte
   strictly between the two sentinels 0x00 and 0xFF *)
Lemma field_strong_from_valid t o (Pv : value -> Prop) (ev : value -> list N)
      (cv : value -> value -> comparison) (pad : list N) :
  nonree t ->
  strong Pv ev cv ->
  (forall a, Pv a -> exists h tl, ev a = h :: tl /\ 0 < h < 255) ->
  (forall v, wt t v -> v <> VNull -> Pv v /\ enc t o v = ev v) ->
  enc t o VNull = null_sentinel o :: pad ->
  (forall a b, wt t a -> wt t b -> a <> VNull -> b <> VNull -> cmp_field t o a b = cv a b) ->
  strong (wt t) (enc t o) (cmp_field t o).
Proof.
  intros Hnr Hs Hh He Hn Hc a b x y Wa Wb.
  destruct (value_null_dec a) as [->|Na], (value_null_dec b) as [->|Nb].
  - rewrite cmp_field_nn by exact Hnr. rewrite Hn. cbn [app]. rewrite lex_cons_same. apply lex_app_same.
  - rewrite cmp_field_nl by assumption. rewrite Hn.
    destruct (He b Wb Nb) as [Pb ->]. destruct (Hh b Pb) as (h & tl & -> & Hr).
    unfold null_sentinel. cbn [app]. destruct (nulls_first o); [apply lex_cons_lt | apply lex_cons_gt]; lia.
  - rewrite cmp_field_ln by assumption. rewrite Hn.
    destruct (He a Wa Na) as [Pa ->]. destruct (Hh a Pa) as (h & tl & -> & Hr).
    unfold null_sentinel. cbn [app]. destruct (nulls_first o); [apply lex_cons_gt | apply lex_cons_lt]; lia.
  - destruct (He a Wa Na) as [Pa ->]. destruct (He b Wb Nb) as [Pb ->].
    rewrite (Hc a b Wa Wb Na Nb). now apply Hs.
Qed.

(* ------------------------------------------------------------------ fixed-width leaves *)
Definition zof (v : value) : Z := match v with VInt z => z | _ => 0%Z end.
Definition bof (v : value) : list N := match v with VBytes b => b | _ => [] end.

(* integer-like leaf: valid = 1 :: (inverted) ez z with all encodings of the same length *)
Lemma intlike_valid_strong (d : bool) (w : nat) (Pz : Z -> Prop) (ez : Z -> list N) (cz : Z -> Z -> comparison) :
  (forall z, length (ez z) = w) -> (forall z, Pz z -> wf_bytes (ez z)) ->
  (forall a b, Pz a -> Pz b -> lex (ez a) (ez b) = cz a b) ->
  strong (fun v => exists z, v = VInt z /\ Pz z)
         (fun v => 1 :: inv_if d (ez (zof v)))
         (fun a b => dir d (cz (zof a) (zof b))).
Proof.
  intros Hl Hw Ho.
  apply (strong_prefix _ _ _ [1]).
  apply (strong_sub (fun v => Pz (zof v))); [intros v (z & -> & Hz); exact Hz|].
  apply (strong_inv_if (fun v => Pz (zof v)) (fun v => ez (zof v)) (fun a b => cz (zof a) (zof b)) d).
  - intros v Hv. now apply Hw.
  - apply (strong_map zof Pz ez cz). apply strong_of_same_len; [intros; now rewrite !Hl | exact Ho].
Qed.

Lemma inv_if_length d l : length (inv_if d l) = length l.
Proof. destruct d; [apply invert_length | reflexivity]. Qed.

Lemma inv_if_wf d l : wf_bytes l -> wf_bytes (inv_if d l).
Proof. intros H. destruct d; [apply invert_wf | exact H]. Qed.

Lemma one_head (l : list N) : exists h tl, 1 :: l = h :: tl /\ 0 < h < 255.
Proof. exists 1, l. split; [reflexivity|lia]. Qed.

Lemma cmp_field_dir t o a b :
  cmp_field t o a b = if descending o then CompOpp (cmp_asc t (negb (nulls_first o)) a b) else cmp_asc t (nulls_first o) a b.
Proof. reflexivity. Qed.

Theorem int_strong w o : (1 <= w)%nat -> strong (wt (TInt w)) (enc (TInt w) o) (cmp_field (TInt w) o).
Proof.
  intros Hw.
  apply (field_strong_from_valid (TInt w) o _ _ _ (repeat 0 w) I
           (intlike_valid_strong (descending o) w (in_signed w) (encode_signed w) Z.compare
              (encode_signed_length w) (fun z _ => encode_signed_wf w z Hw) (fun a b => signed_order w a b Hw))).
  - intros a _. apply one_head.
  - intros v Wv Nv. destruct v; try congruence; try contradiction. cbn [wt] in Wv.
    split; [|reflexivity]. eexists; split; [reflexivity|]. unfold in_signed. rewrite half_Z by exact Hw. exact Wv.
  - reflexivity.
  - intros a b Wa Wb Na Nb. destruct a, b; try congruence; try contradiction.
    rewrite cmp_field_dir. cbn [cmp_asc zof]. unfold dir. destruct (descending o); reflexivity.
Qed.

Theorem uint_strong w o : strong (wt (TUInt w)) (enc (TUInt w) o) (cmp_field (TUInt w) o).
Proof.
  apply (field_strong_from_valid (TUInt w) o _ _ _ (repeat 0 w) I
           (intlike_valid_strong (descending o) w (in_unsigned w) (encode_unsigned w) Z.compare
              (encode_unsigned_length w) (fun z _ => encode_unsigned_wf w z) (unsigned_order w))).
  - intros a _. apply one_head.
  - intros v Wv Nv. destruct v; try congruence; try contradiction. cbn [wt] in Wv.
    split; [|reflexivity]. eexists; split; [reflexivity|]. unfold in_unsigned. rewrite <- pow_bits_Z. exact Wv.
  - reflexivity.
  - intros a b Wa Wb Na Nb. destruct a, b; try congruence; try contradiction.
    rewrite cmp_field_dir. cbn [cmp_asc zof]. unfold dir. destruct (descending o); reflexivity.
Qed.

Lemma encode_bool_wf z : wf_bytes (encode_bool z).
Proof. unfold encode_bool. constructor; [|constructor]. unfold wf_byte. destruct (Z.eqb z 0); lia. Qed.

Theorem bool_strong o : strong (wt TBool) (enc TBool o) (cmp_field TBool o).
Proof.
  apply (field_strong_from_valid TBool o _ _ _ (repeat 0 1) I
           (intlike_valid_strong (descending o) 1 (fun z => z = 0 \/ z = 1)%Z encode_bool Z.compare
              (fun _ => eq_refl) 
              (fun z _ => encode_bool_wf z) bool_order)).
  - intros a _. apply one_head.
  - intros v Wv Nv. destruct v; try congruence; try contradiction. cbn [wt] in Wv.
    split; [|reflexivity]. eexists; split; [reflexivity|exact Wv].
  - reflexivity.
  - intros a b Wa Wb Na Nb. destruct a, b; try congruence; try contradiction.
    rewrite cmp_field_dir. cbn [cmp_asc zof]. unfold dir. destruct (descending o); reflexivity.
Qed.

Theorem float_strong w o : (1 <= w)%nat -> strong (wt (TFloat w)) (enc (TFloat w) o) (cmp_field (TFloat w) o).
Proof.
  intros Hw.
  apply (field_strong_from_valid (TFloat w) o _ _ _ (repeat 0 w) I
           (intlike_valid_strong (descending o) w (in_unsigned w) (encode_float w) (total_cmp (Z.of_N (half w)))
              (encode_float_length w) (fun z _ => encode_float_wf w z Hw) (fun a b => float_order w a b Hw))).
  - intros a _. apply one_head.
  - intros v Wv Nv. destruct v; try congruence; try contradiction. cbn [wt] in Wv.
    split; [|reflexivity]. eexists; split; [reflexivity|]. unfold in_unsigned. rewrite <- pow_bits_Z. exact Wv.
  - reflexivity.
  - intros a b Wa Wb Na Nb. destruct a, b; try congruence; try contradiction.
    rewrite cmp_field_dir. cbn [cmp_asc zof]. rewrite <- half_Z by exact Hw. unfold dir. destruct (descending o); reflexivity.
Qed.

(* FixedSizeBinary(n): valid = 1 :: (inverted) bytes, all of length n *)
Theorem fsb_strong n o : strong (wt (TFsb n)) (enc (TFsb n) o) (cmp_field (TFsb n) o).
Proof.
  apply (field_strong_from_valid (TFsb n) o
           (fun v => exists b, v = VBytes b /\ length b = n /\ wf_bytes b)
           (fun v => 1 :: inv_if (descending o) (bof v))
           (fun a b => dir (descending o) (lex (bof a) (bof b))) (repeat 0 n) I).
  - apply (strong_prefix _ _ _ [1]).
    apply (strong_sub (fun v => length (bof v) = n /\ wf_bytes (bof v))); [intros v (b & -> & H); exact H|].
    apply (strong_inv_if _ (fun v => bof v) (fun a b => lex (bof a) (bof b))); [intros a [_ H]; exact H|].
    apply strong_of_same_len; [intros a b [Ha _] [Hb _]; congruence | reflexivity].
  - intros a _. apply one_head.
  - intros v Wv Nv. destruct v; try congruence; try contradiction. cbn [wt] in Wv.
    split; [|reflexivity]. eexists; split; [reflexivity|exact Wv].
  - reflexivity.
  - intros a b Wa Wb Na Nb. destruct a, b; try congruence; try contradiction.
    rewrite cmp_field_dir. cbn [cmp_asc bof]. unfold dir. destruct (descending o); reflexivity.
Qed.

(* ------------------------------------------------------------------ interval tuples *)
Definition sof (v : value) : list value := match v with VStruct vs => vs | _ => [] end.

Lemma encode_tuple_length ws zs : length (encode_tuple ws zs) = sum_widths ws.
Proof.
  revert zs. induction ws as [|w ws IH]; intros zs; [reflexivity|].
  cbn [encode_tuple sum_widths fold_right]. rewrite app_length, encode_signed_length, IH. reflexivity.
Qed.

Lemma encode_tuple_wf ws zs : wf_widths ws -> wf_bytes (encode_tuple ws zs).
Proof.
  revert zs. induction ws as [|w ws IH]; intros zs Hw; [constructor|].
  cbn [encode_tuple wf_widths] in *. apply Forall_app; split; [apply encode_signed_wf; tauto | apply IH; tauto].
Qed.

Lemma tuple_order ws : wf_widths ws -> forall a b, wt_tuple ws a -> wt_tuple ws b ->
  lex (encode_tuple ws a) (encode_tuple ws b) = tuple_cmp a b.
Proof.
  induction ws as [|w ws IH]; intros Hw a b Wa Wb.
  - destruct a, b; try contradiction. reflexivity.
  - destruct a as [|[|x| | |] a], b as [|[|y| | |] b]; cbn [wt_tuple] in Wa, Wb; try contradiction.
    cbn [wf_widths] in Hw. cbn [encode_tuple tuple_cmp hd tl vint].
    rewrite lex_app_same_len by (now rewrite !encode_signed_length).
    rewrite signed_order; [| tauto | unfold in_signed; rewrite half_Z by tauto; tauto | unfold in_signed; rewrite half_Z by tauto; tauto].
    destruct (x ?= y)%Z; try reflexivity. apply IH; tauto.
Qed.

Theorem iv_strong ws o : wf_widths ws -> strong (wt (TIv ws)) (enc (TIv ws) o) (cmp_field (TIv ws) o).
Proof.
  intros Hw.
  apply (field_strong_from_valid (TIv ws) o
           (fun v => exists zs, v = VStruct zs /\ wt_tuple ws zs)
           (fun v => 1 :: inv_if (descending o) (encode_tuple ws (sof v)))
           (fun a b => dir (descending o) (tuple_cmp (sof a) (sof b))) (repeat 0 (sum_widths ws)) I).
  - apply (strong_prefix _ _ _ [1]).
    apply (strong_sub (fun v => wt_tuple ws (sof v))); [intros v (zs & -> & H); exact H|].
    apply (strong_inv_if _ (fun v => encode_tuple ws (sof v)) (fun a b => tuple_cmp (sof a) (sof b))).
    + intros a _. now apply encode_tuple_wf.
    + apply (strong_map sof (wt_tuple ws) (encode_tuple ws) tuple_cmp).
      apply strong_of_same_len; [intros; now rewrite !encode_tuple_length | now apply tuple_order].
  - intros a _. apply one_head.
  - intros v Wv Nv. destruct v; try congruence; try (cbn [wt] in Wv; contradiction).
    rewrite wt_iv in Wv. split; [eexists; split; [reflexivity|exact Wv]|]. reflexivity.
  - reflexivity.
  - intros a b Wa Wb Na Nb. destruct a, b; try congruence; try (cbn [wt] in Wa, Wb; contradiction).
    rewrite cmp_field_dir, !cmp_asc_iv. cbn [sof]. unfold dir. destruct (descending o); reflexivity.
Qed.

(* ------------------------------------------------------------------ variable-length leaf *)
Lemma inv_if_head d (l : list N) : wf_bytes l -> (exists h tl, l = h :: tl /\ 0 < h < 255) ->
  exists h tl, inv_if d l = h :: tl /\ 0 < h < 255.
Proof.
  intros W (h & tl & -> & Hr). destruct d; [|exists h, tl; split; [reflexivity|exact Hr]].
  exists (not8 h), (invert tl). split; [reflexivity|]. unfold not8. lia.
Qed.

Theorem var_strong o : strong (wt TVar) (enc TVar o) (cmp_field TVar o).
Proof.
  apply (field_strong_from_valid TVar o
           (fun v => exists b, v = VBytes b /\ wf_bytes b)
           (fun v => inv_if (descending o) (var_body (bof v)))
           (fun a b => dir (descending o) (lex (bof a) (bof b))) [] I).
  - apply (strong_sub (fun v => wf_bytes (bof v))); [intros v (b & -> & H); exact H|].
    apply (strong_inv_if _ (fun v => var_body (bof v)) (fun a b => lex (bof a) (bof b))).
    + intros a Ha. now apply var_body_wf.
    + apply (strong_sub (fun _ => True)); [trivial|]. apply (strong_map bof _ _ _ var_body_strong).
  - intros a (b & -> & Wb). apply inv_if_head; [now apply var_body_wf | apply var_body_head].
  - intros v Wv Nv. destruct v; try congruence; try contradiction. cbn [wt] in Wv.
    split; [eexists; split; [reflexivity|exact Wv]|]. cbn [enc bof]. apply encode_one_some.
  - reflexivity.
  - intros a b Wa Wb Na Nb. destruct a, b; try congruence; try contradiction.
    rewrite cmp_field_dir. cbn [cmp_asc bof]. unfold dir. destruct (descending o); reflexivity.
Qed.

(* ------------------------------------------------------------------ general facts on enc *)
Lemma encode_nonempty_cons v : exists h tl, encode_nonempty v = h :: tl.
Proof. unfold encode_nonempty. destruct (length v <=? BLOCK_SIZE)%nat; eexists _, _; reflexivity. Qed.

Lemma encode_one_nonempty o v : encode_one o v <> [].
Proof.
  destruct v as [[|p v]|]; cbn [encode_one]; try discriminate.
  destruct (encode_nonempty_cons (p :: v)) as (h & tl & ->). destruct (descending o); discriminate.
Qed.

Lemma enc_nonempty t o v : enc t o v <> [].
Proof.
  destruct t; cbn [enc]; try (unfold encode_fixed; destruct v; discriminate); try apply encode_one_nonempty.
  destruct v as [| | | |[|x vs]]; try discriminate.
  intros E. apply app_eq_nil in E as [_ E]. discriminate.
Qed.

Lemma wt_null t : wt t VNull.
Proof. induction t using ftype_ind'; cbn [wt]; auto. Qed.

Lemma null_sentinel_wf o : wf_byte (null_sentinel o).
Proof. unfold null_sentinel, wf_byte. destruct (nulls_first o); lia. Qed.

Lemma repeat0_wf n : wf_bytes (repeat 0 n).
Proof. apply Forall_forall. intros z Hz. apply repeat_spec in Hz. subst. unfold wf_byte. lia. Qed.

Lemma encode_fixed_wf o w e : (forall b, e = Some b -> wf_bytes b) -> wf_bytes (encode_fixed o w e).
Proof.
  intros H. destruct e as [b|]; cbn [encode_fixed].
  - constructor; [unfold wf_byte; lia|]. apply inv_if_wf. now apply H.
  - constructor; [apply null_sentinel_wf | apply repeat0_wf].
Qed.

Lemma encode_one_wf o v : (forall b, v = Some b -> wf_bytes b) -> wf_bytes (encode_one o v).
Proof.
  intros H. destruct v as [b|].
  - rewrite encode_one_some. apply inv_if_wf, var_body_wf. now apply H.
  - constructor; [apply null_sentinel_wf | constructor].
Qed.

Lemma encode_empty_wf o : wf_bytes (encode_empty o).
Proof. unfold encode_empty, not8, EMPTY_SENTINEL. constructor; [unfold wf_byte; destruct (descending o); lia|constructor]. Qed.

Lemma wf_flat_map {A} (g : A -> list N) vs : (forall a, In a vs -> wf_bytes (g a)) -> wf_bytes (flat_map g vs).
Proof.
  induction vs as [|a vs IH]; intros H; cbn [flat_map]; [constructor|].
  apply Forall_app; split; [apply H; left; reflexivity | apply IH; intros; apply H; now right].
Qed.

Theorem enc_wf : forall t, wf_type t -> forall o v, wt t v -> wf_bytes (enc t o v).
Proof.
  induction t as [w|w| |w|n| |fs IH|c IH|c n IH|c IH|ws] using ftype_ind'; intros Wt o v Wv.
  - cbn [enc]. apply encode_fixed_wf. intros b E. destruct v; try discriminate. injection E as <-. now apply encode_signed_wf.
  - cbn [enc]. apply encode_fixed_wf. intros b E. destruct v; try discriminate. injection E as <-. apply encode_unsigned_wf.
  - cbn [enc]. apply encode_fixed_wf. intros b E. destruct v; try discriminate. injection E as <-. apply encode_bool_wf.
  - cbn [enc]. apply encode_fixed_wf. intros b E. destruct v; try discriminate. injection E as <-. now apply encode_float_wf.
  - cbn [enc]. apply encode_fixed_wf. intros b E. destruct v; try discriminate. injection E as <-. cbn [wt] in Wv. apply Wv.
  - cbn [enc]. apply encode_one_wf. intros b E. destruct v; try discriminate. injection E as <-. exact Wv.
  - rewrite wf_type_struct in Wt.
    destruct v as [| | |vs|]; try (cbn [wt] in Wv; contradiction).
    + rewrite enc_struct_null. constructor; [apply null_sentinel_wf|].
      induction IH as [|f fs Hf Hfs IHfs]; cbn [null_fields]; [constructor|].
      cbn [wf_types] in Wt. apply Forall_app; split; [apply Hf; [tauto | apply wt_null] | apply IHfs; tauto].
    + rewrite enc_struct_valid. constructor; [unfold wf_byte; lia|].
      rewrite wt_struct in Wv. revert vs Wv.
      induction IH as [|f fs Hf Hfs IHfs]; intros vs Wv; cbn [enc_fields]; [constructor|].
      destruct vs as [|x vs]; [contradiction|]. cbn [wt_fields wf_types hd tl] in *.
      apply Forall_app; split; [apply Hf; tauto | apply IHfs; tauto].
  - cbn [wf_type] in Wt. destruct v as [| | | |vs]; try (cbn [wt] in Wv; contradiction).
    + cbn [enc]. constructor; [apply null_sentinel_wf | constructor].
    + rewrite wt_list, wt_all_Forall in Wv. rewrite Forall_forall in Wv.
      assert (Hb : wf_bytes (flat_map (fun e => encode_one o (Some (enc c (child_opts o) e))) vs ++ encode_empty o)).
      { apply Forall_app; split; [|apply encode_empty_wf]. apply wf_flat_map. intros a Ha.
        apply encode_one_wf. intros b E. injection E as <-. apply IH; [exact Wt | now apply Wv]. }
      cbn [enc]. destruct vs; [apply encode_empty_wf | exact Hb].
  - cbn [wf_type] in Wt. destruct v as [| | | |vs]; try (cbn [wt] in Wv; contradiction).
    + cbn [enc]. constructor; [apply null_sentinel_wf | constructor].
    + rewrite wt_fsl in Wv. destruct Wv as [_ Wv]. rewrite wt_all_Forall, Forall_forall in Wv.
      cbn [enc]. constructor; [unfold wf_byte; lia|]. apply wf_flat_map. intros a Ha. apply IH; [exact Wt | now apply Wv].
  - cbn [wf_type wt] in *. cbn [enc]. apply encode_one_wf. intros b E. injection E as <-. now apply IH.
  - rewrite wf_type_iv in Wt. cbn [enc]. apply encode_fixed_wf. intros b E. destruct v; try discriminate. injection E as <-. now apply encode_tuple_wf.
Qed.
