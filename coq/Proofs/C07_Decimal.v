(* C07 — compare_greater_byte_array_decimals is the order of the signed big-endian values when both
   operands have the same length (every FIXED_LEN_BYTE_ARRAY decimal); for different lengths it is
   not (refuted by a concrete pair). *)
From Coq Require Import List ZArith NArith Lia Bool Arith.
From AV Require Import Model.C07_Trunc Model.C07_Stats Model.C07_File Model.C07_Spec Proofs.C07_Trunc.
Import ListNotations.
Local Open Scope Z_scope.

(* unsigned / signed big-endian value *)
Fixpoint uval (l : bytes) : Z :=
  match l with [] => 0 | x :: t => Z.of_N x * 256 ^ Z.of_nat (length t) + uval t end.
Definition sval (l : bytes) : Z :=
  match l with [] => 0 | x :: t => i8 x * 256 ^ Z.of_nat (length t) + uval t end.

Lemma pow256_pos n : 0 < 256 ^ Z.of_nat n.
Proof. apply Z.pow_pos_nonneg; lia. Qed.

Lemma pow256_succ n : 256 ^ Z.of_nat (S n) = 256 * 256 ^ Z.of_nat n.
Proof. rewrite Nat2Z.inj_succ. apply Z.pow_succ_r. lia. Qed.

Lemma uval_bound l : wf l -> 0 <= uval l < 256 ^ Z.of_nat (length l).
Proof.
  induction 1 as [|x l Hx Hl IH]; cbn [uval length]; [cbn; lia|].
  rewrite pow256_succ. pose proof (pow256_pos (length l)). nia.
Qed.

Lemma lex_uval a : forall b, length a = length b -> wf a -> wf b -> lex a b = (uval a ?= uval b).
Proof.
  induction a as [|x a IH]; intros [|y b] Hl Wa Wb; try discriminate; [reflexivity|].
  inversion Wa as [|? ? Hx Wa']; inversion Wb as [|? ? Hy Wb']; subst.
  cbn [lex uval length] in *. injection Hl as Hl. rewrite <- Hl.
  pose proof (uval_bound a Wa') as Ba. pose proof (uval_bound b Wb') as Bb. rewrite <- Hl in Bb.
  pose proof (pow256_pos (length a)) as P. set (p := 256 ^ Z.of_nat (length a)) in *.
  destruct (N.compare_spec x y) as [E|L|G].
  - subst y. rewrite (IH b Hl Wa' Wb').
    destruct (Z.compare_spec (uval a) (uval b)); symmetry;
      [apply Z.compare_eq_iff|apply Z.compare_lt_iff|apply Z.compare_gt_iff]; lia.
  - symmetry. apply Z.compare_lt_iff. nia.
  - symmetry. apply Z.compare_gt_iff. nia.
Qed.

Lemma lex_gtb_uval a b : length a = length b -> wf a -> wf b -> lex_gtb a b = (uval b <? uval a).
Proof.
  intros Hl Wa Wb. unfold lex_gtb. rewrite (lex_uval a b Hl Wa Wb).
  destruct (Z.compare_spec (uval a) (uval b)); symmetry; [apply Z.ltb_ge|apply Z.ltb_ge|apply Z.ltb_lt]; lia.
Qed.

Lemma i8_range x : (x <= 255)%N -> -128 <= i8 x <= 127.
Proof. intros H. unfold i8. destruct (N.ltb_spec x 128); lia. Qed.

(* sign bit test of the first bytes: decided on the 256 byte values *)
Lemma land128_table :
  forallb (fun x => N.eqb (N.land 128 x) (if (x <? 128)%N then 0%N else 128%N)) (map N.of_nat (seq 0 256)) = true.
Proof. vm_compute. reflexivity. Qed.

Lemma sign_test fa fb : (fa <= 255)%N -> (fb <= 255)%N ->
  negb (N.land 128 fa =? N.land 128 fb)%N = negb (Bool.eqb (fa <? 128)%N (fb <? 128)%N).
Proof.
  intros Ha Hb.
  assert (L : forall x, (x <= 255)%N -> N.land 128 x = if (x <? 128)%N then 0%N else 128%N).
  { intros x Hx. pose proof land128_table as Tb. rewrite forallb_forall in Tb.
    apply N.eqb_eq, Tb. replace x with (N.of_nat (N.to_nat x)) by apply N2Nat.id.
    apply in_map, in_seq. lia. }
  rewrite (L fa Ha), (L fb Hb). destruct (fa <? 128)%N, (fb <? 128)%N; reflexivity.
Qed.

Theorem gt_decimal_eqlen a b : wf a -> wf b -> length a = length b -> a <> [] ->
  gt_decimal_bytes a b = (sval b <? sval a).
Proof.
  intros Wa Wb Hl Na. destruct a as [|fa ta]; [contradiction|]. destruct b as [|fb tb]; [discriminate|].
  inversion Wa as [|? ? Hfa Wta]; inversion Wb as [|? ? Hfb Wtb]; subst.
  unfold gt_decimal_bytes. rewrite Hl, Nat.eqb_refl. cbn [andb].
  cbn [length] in Hl. injection Hl as Hl.
  rewrite sign_test by assumption.
  cbn [sval]. rewrite <- Hl.
  pose proof (uval_bound ta Wta) as Ba. pose proof (uval_bound tb Wtb) as Bb. rewrite <- Hl in Bb.
  pose proof (pow256_pos (length ta)) as P. set (p := 256 ^ Z.of_nat (length ta)) in *.
  pose proof (i8_range fa Hfa). pose proof (i8_range fb Hfb).
  destruct (N.eqb_spec fa fb) as [E|Ne].
  - subst fb. rewrite eqb_reflx. cbn [negb orb].
    rewrite (lex_gtb_uval ta tb Hl Wta Wtb).
    destruct (Z.ltb_spec (uval tb) (uval ta)); symmetry; [apply Z.ltb_lt|apply Z.ltb_ge]; lia.
  - rewrite orb_true_r.
    assert (i8 fa <> i8 fb).
    { unfold i8. destruct (N.ltb_spec fa 128), (N.ltb_spec fb 128); lia. }
    destruct (Z.ltb_spec (i8 fb) (i8 fa)); symmetry; [apply Z.ltb_lt|apply Z.ltb_ge]; nia.
Qed.

(* for operands of different lengths the function is NOT the value order: 32768 = 00 80 00 is
   reported not greater than 32767 = 7F FF (the tails are compared unaligned) *)
Theorem gt_decimal_unequal_lengths_refuted :
  exists a b, wf a /\ wf b /\ a <> [] /\ b <> [] /\ gt_decimal_bytes a b <> (sval b <? sval a).
Proof.
  exists [0; 128; 0]%N, [127; 255]%N. repeat split; try discriminate.
  - repeat constructor; lia.
  - repeat constructor; lia.
Qed.

(* the spec's decoding of a stored FLBA decimal is the signed big-endian value *)
Lemma le_unsigned_rev l : le_unsigned (rev l) = uval l.
Proof.
  assert (A : forall a b, le_unsigned (a ++ b) = le_unsigned a + 256 ^ Z.of_nat (length a) * le_unsigned b).
  { induction a as [|x a IH]; intros b; cbn [app le_unsigned length]; [change (Z.of_nat 0) with 0; rewrite Z.pow_0_r; ring|].
    rewrite IH, pow256_succ. ring. }
  induction l as [|x l IH]; [reflexivity|]. cbn [rev uval]. rewrite A, IH, rev_length. cbn [le_unsigned]. ring.
Qed.

Lemma sdec_decimal_flba l : wf l -> l <> [] -> sdec KDF (length l) l = Some (sval l).
Proof.
  intros W N. unfold sdec. rewrite Nat.eqb_refl. cbn [negb orb].
  destruct l as [|x t]; [contradiction|]. cbn [length Nat.eqb]. f_equal.
  rewrite le_unsigned_rev. unfold signed_of. cbn [uval sval].
  inversion W as [|? ? Hx Wt]; subst. pose proof (uval_bound t Wt) as B. pose proof (pow256_pos (length t)) as P.
  replace (2 ^ (8 * Z.of_nat (S (length t)) - 1)) with (128 * 256 ^ Z.of_nat (length t)).
  2:{ rewrite Nat2Z.inj_succ. replace (8 * Z.succ (Z.of_nat (length t)) - 1) with (7 + 8 * Z.of_nat (length t)) by lia.
      rewrite Z.pow_add_r by lia. rewrite Z.pow_mul_r by lia. reflexivity. }
  replace (2 ^ (8 * Z.of_nat (S (length t)))) with (256 * 256 ^ Z.of_nat (length t)).
  2:{ rewrite Nat2Z.inj_succ. replace (8 * Z.succ (Z.of_nat (length t))) with (8 + 8 * Z.of_nat (length t)) by lia.
      rewrite Z.pow_add_r by lia. rewrite Z.pow_mul_r by lia. reflexivity. }
  set (p := 256 ^ Z.of_nat (length t)) in *. unfold i8.
  destruct (N.ltb_spec x 128); destruct (Z.ltb_spec (Z.of_N x * p + uval t) (128 * p)); nia.
Qed.
