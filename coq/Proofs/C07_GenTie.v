(* C07: constants used by the models equal the constants regenerated from /repo's source on this run. *)
From Coq Require Import List ZArith NArith.
From AV Require Import Gen.Consts Model.C07_Bloom.

Lemma tie_bloom_salt : map Z.of_N SALT = parquet_bloom_filter__SALT.
Proof. reflexivity. Qed.
