(* C04 — framing: padding arithmetic, and the message reader inverts the message writer for every
   alignment and both prefix formats. *)
From Coq Require Import List Arith NArith ZArith Lia Bool.
From Coq Require Import ZifyN ZifyNat ZifyBool.
From AV Require Import Model.C04_Frame.
Import ListNotations.
Ltac Zify.zify_post_hook ::= Z.div_mod_to_equations.

Definition aligned_ok (a : nat) : Prop := a = 8 \/ a = 16 \/ a = 32 \/ a = 64.

(* (x + (a-1)) & !(a-1) rounds x up to the next multiple of a power of two *)
Lemma round_up_mask (a x : nat) : aligned_ok a ->
  N.to_nat (N.ldiff (N.of_nat x + N.of_nat (a - 1)) (N.of_nat (a - 1))) = (x + (a - 1)) / a * a.
Proof.
  intros [-> | [-> | [-> | ->]]].
  - change (N.of_nat (8 - 1)) with (N.ones 3). rewrite N.ldiff_ones_r, N.shiftr_div_pow2, N.shiftl_mul_pow2.
    change (N.ones 3) with 7%N. change (2 ^ 3)%N with 8%N. change (8 - 1) with 7. lia.
  - change (N.of_nat (16 - 1)) with (N.ones 4). rewrite N.ldiff_ones_r, N.shiftr_div_pow2, N.shiftl_mul_pow2.
    change (N.ones 4) with 15%N. change (2 ^ 4)%N with 16%N. change (16 - 1) with 15. lia.
  - change (N.of_nat (32 - 1)) with (N.ones 5). rewrite N.ldiff_ones_r, N.shiftr_div_pow2, N.shiftl_mul_pow2.
    change (N.ones 5) with 31%N. change (2 ^ 5)%N with 32%N. change (32 - 1) with 31. lia.
  - change (N.of_nat (64 - 1)) with (N.ones 6). rewrite N.ldiff_ones_r, N.shiftr_div_pow2, N.shiftl_mul_pow2.
    change (N.ones 6) with 63%N. change (2 ^ 6)%N with 64%N. change (64 - 1) with 63. lia.
Qed.

Lemma aligned_pos a : aligned_ok a -> 0 < a.
Proof. unfold aligned_ok. lia. Qed.

Lemma pad_to_alignment_spec a len : aligned_ok a -> pad_to_alignment a len = pad_spec a len.
Proof.
  intros Ha. unfold pad_to_alignment, pad_spec. cbv zeta. rewrite (round_up_mask a len Ha).
  pose proof (aligned_pos a Ha) as Hp. destruct Ha as [-> | [-> | [-> | ->]]]; lia.
Qed.

Lemma pad_to_alignment_aligned a len : aligned_ok a ->
  (len + pad_to_alignment a len) mod a = 0 /\ pad_to_alignment a len < a.
Proof.
  intros Ha. rewrite (pad_to_alignment_spec a len Ha). unfold pad_spec.
  destruct Ha as [-> | [-> | [-> | ->]]]; lia.
Qed.

(* the padded header (prefix + metadata + padding) is a multiple of the alignment *)
Lemma padded_header_aligned o n : aligned_ok (o_align o) ->
  padded_header_len o n mod o_align o = 0 /\ n + prefix_size o <= padded_header_len o n.
Proof.
  intros Ha. unfold padded_header_len. cbv zeta.
  replace (N.of_nat (n + prefix_size o) + N.of_nat (o_align o - 1))%N
    with (N.of_nat (n + prefix_size o) + N.of_nat (o_align o - 1))%N by reflexivity.
  rewrite (round_up_mask (o_align o) (n + prefix_size o) Ha).
  destruct Ha as [-> | [-> | [-> | ->]]]; lia.
Qed.

Lemma metadata_layout o n : aligned_ok (o_align o) ->
  prefix_size o + n + metadata_padding o n = padded_header_len o n /\
  padded_metadata_len o n = n + metadata_padding o n.
Proof.
  intros Ha. destruct (padded_header_aligned o n Ha) as [_ Hle].
  unfold metadata_padding, padded_metadata_len. lia.
Qed.

(* tail_pad of a record batch body is always zero: every buffer was already padded *)
Lemma batch_offset_aligned a bufs : aligned_ok a -> batch_offset a bufs mod a = 0.
Proof.
  intros Ha. unfold batch_offset.
  assert (H : forall off, off mod a = 0 ->
            fold_left (fun off b => off + length b + pad_to_alignment a (length b)) bufs off mod a = 0).
  { induction bufs as [|b r IH]; intros off Hoff; [exact Hoff|]. cbn [fold_left]. apply IH.
    destruct (pad_to_alignment_aligned a (length b) Ha) as [Hm _].
    pose proof (aligned_pos a Ha). rewrite <- Nat.add_assoc.
    rewrite Nat.add_mod by lia. rewrite Hoff, Hm. cbn. apply Nat.mod_0_l. lia. }
  apply H. apply Nat.mod_0_l. pose proof (aligned_pos a Ha). lia.
Qed.
Lemma tail_pad_zero a bufs : aligned_ok a -> pad_to_alignment a (batch_offset a bufs) = 0.
Proof.
  intros Ha. rewrite (pad_to_alignment_spec _ _ Ha). unfold pad_spec.
  rewrite (batch_offset_aligned a bufs Ha). rewrite Nat.sub_0_r. apply Nat.mod_same. pose proof (aligned_pos a Ha). lia.
Qed.

Lemma zeros_length n : length (zeros n) = n.
Proof. apply repeat_length. Qed.

Lemma body_bytes_aligned a m : aligned_ok a -> length (body_bytes a m) mod a = 0.
Proof.
  intros Ha. pose proof (aligned_pos a Ha) as Hp. destruct m as [meta body|meta bufs]; cbn [body_bytes].
  - destruct body as [|b r]; [apply Nat.mod_0_l; lia|].
    unfold padded. rewrite app_length, zeros_length. apply (pad_to_alignment_aligned a _ Ha).
  - rewrite (tail_pad_zero a bufs Ha). cbn [zeros repeat]. rewrite app_nil_r.
    induction bufs as [|b r IH]; [apply Nat.mod_0_l; lia|].
    cbn [map concat]. rewrite app_length. unfold padded at 1. rewrite app_length, zeros_length.
    rewrite Nat.add_mod by lia. rewrite IH. destruct (pad_to_alignment_aligned a (length b) Ha) as [Hm _]. rewrite Hm.
    apply Nat.mod_0_l. lia.
Qed.

(* the whole framed message is a multiple of the alignment: message starts stay aligned *)
Lemma frame_msg_length o m : aligned_ok (o_align o) -> (o_legacy o = true -> o_v5 o = false) ->
  length (frame_msg o m) = padded_header_len o (length (msg_meta m)) + length (body_bytes (o_align o) m).
Proof.
  intros Ha Hl. unfold frame_msg. cbv zeta. rewrite !app_length, zeros_length.
  destruct (metadata_layout o (length (msg_meta m)) Ha) as [H1 _]. rewrite <- H1.
  assert (Hc : forall n, length (write_continuation o n) = prefix_size o).
  { intros n. unfold write_continuation, prefix_size. destruct (o_v5 o) eqn:E5, (o_legacy o) eqn:El; try reflexivity.
    specialize (Hl eq_refl). discriminate. }
  rewrite Hc. lia.
Qed.

(* ---- reader inverts writer *)
Lemma firstn_app_exact {A} (a b : list A) n : n = length a -> firstn n (a ++ b) = a.
Proof. intros ->. rewrite firstn_app, Nat.sub_diag, firstn_all. cbn. apply app_nil_r. Qed.
Lemma skipn_app_exact {A} (a b : list A) n : n = length a -> skipn n (a ++ b) = b.
Proof. intros ->. rewrite skipn_app, Nat.sub_diag, skipn_all. reflexivity. Qed.

Lemma le32_length n : length (le32 n) = 4.
Proof. reflexivity. Qed.
Lemma le32_val_le32 n r : (N.of_nat n < 4294967296)%N -> le32_val (le32 n ++ r) = N.of_nat n.
Proof.
  intros Hn. unfold le32_val, le32. cbv zeta. cbn [app nth]. lia.
Qed.
Lemma le32_not_marker n : (N.of_nat n < 2147483648)%N -> list_eqb (le32 n) continuation_marker = false.
Proof.
  intros Hn. destruct (list_eqb (le32 n) continuation_marker) eqn:E; [|reflexivity]. exfalso.
  unfold list_eqb, le32, continuation_marker in E. cbv zeta in E. cbn [length combine forallb fst snd Nat.eqb andb] in E.
  repeat (apply andb_true_iff in E; destruct E as [? E]).
  match goal with H : N.eqb ((_ / 16777216) mod 256) 255 = true |- _ => apply N.eqb_eq in H end.
  lia.
Qed.

Lemma firstn4_le32 L r : firstn 4 (le32 L ++ r) = le32 L. Proof. reflexivity. Qed.
Lemma skipn4_le32 L r : skipn 4 (le32 L ++ r) = r. Proof. reflexivity. Qed.
Lemma length_le32_app L r : length (le32 L ++ r) = 4 + length r. Proof. reflexivity. Qed.
Lemma firstn4_marker r : firstn 4 (continuation_marker ++ r) = continuation_marker. Proof. reflexivity. Qed.
Lemma skipn4_marker r : skipn 4 (continuation_marker ++ r) = r. Proof. reflexivity. Qed.
Lemma length_marker_app r : length (continuation_marker ++ r) = 4 + length r. Proof. reflexivity. Qed.
Lemma ltb_false_ge a b : b <= a -> (a <? b) = false.
Proof. intros H. apply Nat.ltb_ge. exact H. Qed.
Lemma le32_val_le32' n : (N.of_nat n < 4294967296)%N -> le32_val (le32 n) = N.of_nat n.
Proof. intros H. rewrite <- (le32_val_le32 n [] H). now rewrite app_nil_r. Qed.

Lemma read_meta_len_marker L rest : 0 < L -> (N.of_nat L < 2147483648)%N ->
  read_meta_len (continuation_marker ++ le32 L ++ rest) = LLen L rest.
Proof.
  intros Hpos Hlt. unfold read_meta_len.
  rewrite length_marker_app, firstn4_marker, skipn4_marker, length_le32_app, firstn4_le32, skipn4_le32.
  rewrite !ltb_false_ge by lia.
  change (list_eqb continuation_marker continuation_marker) with true. cbv iota.
  rewrite le32_val_le32' by lia.
  replace (N.of_nat L =? 0)%N with false by (symmetry; apply N.eqb_neq; lia).
  replace (2147483648 <=? N.of_nat L)%N with false by (symmetry; apply N.leb_gt; exact Hlt).
  now rewrite Nat2N.id.
Qed.
Lemma read_meta_len_legacy L rest : 0 < L -> (N.of_nat L < 2147483648)%N ->
  read_meta_len (le32 L ++ rest) = LLen L rest.
Proof.
  intros Hpos Hlt. unfold read_meta_len.
  rewrite length_le32_app, firstn4_le32, skipn4_le32.
  rewrite !ltb_false_ge by lia.
  rewrite (le32_not_marker L Hlt).
  rewrite le32_val_le32' by lia.
  replace (N.of_nat L =? 0)%N with false by (symmetry; apply N.eqb_neq; lia).
  replace (2147483648 <=? N.of_nat L)%N with false by (symmetry; apply N.leb_gt; exact Hlt).
  now rewrite Nat2N.id.
Qed.

Section RT.
Variable bodylen : list N -> nat.
Variable o : wopts.
Hypothesis Ha : aligned_ok (o_align o).
Hypothesis Hlv : o_legacy o = true -> o_v5 o = false.

Definition padded_meta (m : msg) : list N := msg_meta m ++ zeros (metadata_padding o (length (msg_meta m))).
Definition msg_wf (m : msg) : Prop :=
  msg_meta m <> [] /\
  (N.of_nat (padded_metadata_len o (length (msg_meta m))) < 2147483648)%N /\
  bodylen (padded_meta m) = length (body_bytes (o_align o) m).

Lemma unframe_eos f : unframe bodylen (S f) (eos o) = RDone [].
Proof. unfold eos, write_continuation. destruct (o_v5 o), (o_legacy o); reflexivity. Qed.

Lemma read_prefix L rest : 0 < L -> (N.of_nat L < 2147483648)%N ->
  read_meta_len (write_continuation o L ++ rest) = LLen L rest.
Proof.
  intros Hp Hl. unfold write_continuation.
  destruct (o_v5 o); [|destruct (o_legacy o)]; rewrite <- ?app_assoc;
    auto using read_meta_len_marker, read_meta_len_legacy.
Qed.

Lemma unframe_step f m s : msg_wf m ->
  unframe bodylen (S f) (frame_msg o m ++ s) =
  match unframe bodylen f s with
  | RDone r => RDone ((padded_meta m, body_bytes (o_align o) m) :: r)
  | RErr => RErr
  end.
Proof.
  intros (Hne & Hlt & Hbl).
  set (meta := msg_meta m) in *. set (body := body_bytes (o_align o) m) in *.
  set (L := padded_metadata_len o (length meta)) in *.
  destruct (metadata_layout o (length meta) Ha) as [_ HL]. fold L in HL.
  assert (HLpos : 0 < L) by (destruct meta; [congruence|cbn [length] in HL; lia]).
  assert (Hpm : length (padded_meta m) = L) by (unfold padded_meta; fold meta; rewrite app_length, zeros_length; lia).
  assert (Es : frame_msg o m ++ s = write_continuation o L ++ padded_meta m ++ body ++ s).
  { unfold frame_msg, padded_meta. cbv zeta. fold meta. fold L. fold body. now rewrite <- !app_assoc. }
  rewrite Es. cbn [unframe]. rewrite (read_prefix L _ HLpos Hlt).
  rewrite (ltb_false_ge (length (padded_meta m ++ body ++ s)) L) by (rewrite app_length; lia).
  rewrite (firstn_app_exact (padded_meta m) (body ++ s) L) by lia.
  rewrite (skipn_app_exact (padded_meta m) (body ++ s) L) by lia.
  rewrite Hbl. rewrite (ltb_false_ge (length (body ++ s)) (length body)) by (rewrite app_length; lia).
  rewrite (firstn_app_exact body s) by reflexivity. rewrite (skipn_app_exact body s) by reflexivity.
  reflexivity.
Qed.

(* the reader inverts the writer on every message sequence: what is read back is each message's metadata
   (followed by its alignment padding, which a flatbuffer reader ignores) and exactly its body bytes *)
Theorem frame_roundtrip_sec : forall ms fuel, Forall msg_wf ms -> length ms < fuel ->
  unframe bodylen fuel (frame_stream o ms) = RDone (map (fun m => (padded_meta m, body_bytes (o_align o) m)) ms).
Proof.
  unfold frame_stream.
  induction ms as [|m ms IH]; intros fuel Hwf Hf; (destruct fuel as [|f]; [cbn [length] in Hf; lia|]).
  - cbn [map concat app]. apply unframe_eos.
  - inversion Hwf as [|? ? Hm Hms]; subst. cbn [map concat]. rewrite <- app_assoc.
    rewrite (unframe_step f m _ Hm). rewrite (IH f Hms) by (cbn [length] in Hf; lia). reflexivity.
Qed.
End RT.
