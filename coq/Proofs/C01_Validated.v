(* C01 + C09: the accessor-chain closure from acceptance by the transcribed ArrayData::validate_full. *)
From Coq Require Import List Arith Bool ZArith.
From AV Require Import Base.Bytes Model.C09_Layout Model.C09_Validate Model.C01_Access Proofs.C09_Tree Proofs.C09_Accept Proofs.C09_Main Proofs.C01_Bounds Proofs.C01_Nested.
Import ListNotations.

Lemma validated_chain_ok a i b m :
  tree_all phys a = true -> tree_all covered a = true -> impl_validate_full a = true ->
  (i < p_len a)%nat -> reach a i b m ->
  (m < p_len b)%nat /\ null_read_in_bounds b m = true /\
  forallb (read_in_bounds b) (own_reads b m) = true /\ forallb (child_slots_in_bounds b) (child_slots b m) = true.
Proof.
  intros Hp Hc Hv Hi Hr. eapply accessor_chain_ok; [|exact Hi|exact Hr].
  apply accept_implies_valid_tree; assumption.
Qed.
