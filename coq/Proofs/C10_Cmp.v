(* C10 — the slot comparator is a total preorder whose equivalence is equality of logical values,
   for all four option combinations and for nested values; compare_impl's four null-buffer cases
   compute it. *)
From Coq Require Import List ZArith Lia Bool Arith.
From AV Require Import Model.C10_Order Proofs.C10_Float.
Import ListNotations.

(* ------------------------------------------------------------------ comparators as total preorders *)

Definition c_refl {A} (c : A -> A -> comparison) := forall a, c a a = Eq.
Definition c_antisym {A} (c : A -> A -> comparison) := forall a b, c b a = CompOpp (c a b).
Definition c_trans {A} (c : A -> A -> comparison) := forall a b d, c a b <> Gt -> c b d <> Gt -> c a d <> Gt.
Definition c_ext {A} (c : A -> A -> comparison) := forall a b, c a b = Eq -> a = b.
Definition tpo {A} (c : A -> A -> comparison) := c_refl c /\ c_antisym c /\ c_trans c.

Lemma compopp_gt c : CompOpp c = Gt <-> c = Lt. Proof. destruct c; cbn; split; congruence. Qed.
Lemma compopp_lt c : CompOpp c = Lt <-> c = Gt. Proof. destruct c; cbn; split; congruence. Qed.
Lemma compopp_eq c : CompOpp c = Eq <-> c = Eq. Proof. destruct c; cbn; split; congruence. Qed.

Section Derived.
  Context {A : Type} (c : A -> A -> comparison).
  Hypothesis Hc : tpo c.

  Lemma tpo_lt_le a b d : c a b = Lt -> c b d <> Gt -> c a d = Lt.
  Proof.
    destruct Hc as (_ & Ha & Ht). intros E1 E2.
    assert (N : c a d <> Gt) by (apply (Ht a b d); congruence).
    destruct (c a d) eqn:E; try congruence. exfalso.
    assert (N2 : c b a <> Gt). { apply (Ht b d a); [exact E2|]. rewrite Ha, E. cbn. congruence. }
    rewrite Ha, E1 in N2. cbn in N2. congruence.
  Qed.

  Lemma tpo_le_lt a b d : c a b <> Gt -> c b d = Lt -> c a d = Lt.
  Proof.
    destruct Hc as (_ & Ha & Ht). intros E1 E2.
    assert (N : c a d <> Gt) by (apply (Ht a b d); congruence).
    destruct (c a d) eqn:E; try congruence. exfalso.
    assert (N2 : c d b <> Gt). { apply (Ht d a b); [|exact E1]. rewrite Ha, E. cbn. congruence. }
    rewrite Ha, E2 in N2. cbn in N2. congruence.
  Qed.

  Lemma tpo_eq_trans a b d : c a b = Eq -> c b d = Eq -> c a d = Eq.
  Proof.
    destruct Hc as (_ & Ha & Ht). intros E1 E2.
    assert (N : c a d <> Gt) by (apply (Ht a b d); congruence).
    assert (N2 : c d a <> Gt). { apply (Ht d b a); rewrite Ha; [rewrite E2|rewrite E1]; cbn; congruence. }
    rewrite Ha in N2. destruct (c a d); cbn in *; congruence.
  Qed.

  Lemma tpo_eq_l a b d : c a b = Eq -> c a d = c b d.
  Proof.
    destruct Hc as (Hr & Ha & Ht). intros E.
    assert (E' : c b a = Eq) by (rewrite Ha, E; reflexivity).
    destruct (c b d) eqn:E2.
    - now apply tpo_eq_trans with b.
    - apply tpo_le_lt with b; congruence.
    - assert (X : c d a = Lt). { apply tpo_lt_le with b; [rewrite Ha, E2; reflexivity | congruence]. }
      rewrite Ha, X. reflexivity.
  Qed.

  Lemma tpo_eq_r a b d : c a b = Eq -> c d a = c d b.
  Proof.
    destruct Hc as (Hr & Ha & Ht). intros E. rewrite (Ha a d), (Ha b d). f_equal. now apply tpo_eq_l.
  Qed.
End Derived.

Lemma tpo_Zcompare : tpo Z.compare.
Proof.
  split; [|split].
  - intros a. apply Z.compare_refl.
  - intros a b. apply Z.compare_antisym.
  - intros a b d. rewrite !Z.compare_gt_iff. lia.
Qed.
Lemma ext_Zcompare : c_ext Z.compare. Proof. intros a b. apply Z.compare_eq. Qed.

Lemma tpo_total_order h : tpo (total_order h).
Proof.
  split; [|split].
  - intros a. apply total_order_refl.
  - intros a b. apply total_order_antisym.
  - intros a b d. apply total_order_trans.
Qed.

Lemma tpo_rev_if {A} (c : A -> A -> comparison) d : tpo c -> tpo (fun a b => rev_if d (c a b)).
Proof.
  destruct d; cbn; [|intros H; exact H].
  intros (Hr & Ha & Ht). split; [|split].
  - intros a. now rewrite Hr.
  - intros a b. now rewrite Ha.
  - intros a b e. rewrite !compopp_gt. intros N1 N2 E.
    assert (X : c e b <> Gt) by (rewrite Ha; rewrite compopp_gt; exact N2).
    assert (Y : c b a <> Gt) by (rewrite Ha; rewrite compopp_gt; exact N1).
    apply (Ht e b a X) in Y. rewrite Ha, E in Y. cbn in Y. congruence.
Qed.

(* ------------------------------------------------------------------ ncmp (null placement), pointwise *)

Definition oP {A} (P : A -> Prop) (o : option A) : Prop := match o with Some a => P a | None => True end.

Section Ncmp.
  Context {A : Type} (nf : bool) (c : A -> A -> comparison).

  Lemma ncmp_refl_pt p : oP (fun a => c a a = Eq) p -> ncmp nf false c p p = Eq.
  Proof. destruct p; cbn; [intros ->; reflexivity|reflexivity]. Qed.

  Lemma ncmp_antisym_pt p : oP (fun a => forall b, c b a = CompOpp (c a b)) p ->
    forall q, ncmp nf false c q p = CompOpp (ncmp nf false c p q).
  Proof.
    destruct p as [a|]; cbn; intros H [b|]; cbn; try (now destruct nf).
    all: try apply H.
  Qed.

  Lemma ncmp_ext_pt p : oP (fun a => forall b, c a b = Eq -> a = b) p ->
    forall q, ncmp nf false c p q = Eq -> p = q.
  Proof.
    destruct p as [a|]; cbn; intros H [b|]; cbn; try (now destruct nf).
    all: try reflexivity.
    all: intros E; f_equal; now apply H.
  Qed.

  Lemma ncmp_trans_pt p :
    oP (fun a => forall b d, c a b <> Gt -> c b d <> Gt -> c a d <> Gt) p ->
    forall q r, ncmp nf false c p q <> Gt -> ncmp nf false c q r <> Gt -> ncmp nf false c p r <> Gt.
  Proof.
    destruct p as [a|]; cbn; intros H [b|] [d|]; cbn; try (destruct nf; congruence).
    apply H.
  Qed.
End Ncmp.

Lemma ncmp_rev {A} nf desc (c : A -> A -> comparison) p q :
  ncmp nf desc c p q = ncmp nf false (fun a b => rev_if desc (c a b)) p q.
Proof. destruct p, q; reflexivity. Qed.

Lemma ncmp_tpo {A} nf desc (c : A -> A -> comparison) : tpo c -> tpo (ncmp nf desc c).
Proof.
  intros H. apply (tpo_rev_if c desc) in H. destruct H as (Hr & Ha & Ht). split; [|split].
  - intros p. rewrite (ncmp_rev nf desc c). apply ncmp_refl_pt. destruct p; cbn; [apply Hr|exact I].
  - intros p q. rewrite !(ncmp_rev nf desc c). apply ncmp_antisym_pt. destruct p; cbn; [intros; apply Ha|exact I].
  - intros p q r. rewrite !(ncmp_rev nf desc c). apply ncmp_trans_pt. destruct p; cbn; [intros b d; apply Ht|exact I].
Qed.

Lemma ncmp_ext {A} nf desc (c : A -> A -> comparison) : c_ext c -> c_ext (ncmp nf desc c).
Proof.
  intros He p q. rewrite (ncmp_rev nf desc c). apply ncmp_ext_pt. destruct p; cbn; [|exact I].
  intros b E. apply He. destruct desc; cbn in E; [now apply compopp_eq|exact E].
Qed.

(* ------------------------------------------------------------------ lexicographic order, pointwise *)

Section Lex.
  Context {A : Type} (c : A -> A -> comparison).

  Lemma lex_refl_pt x : Forall (fun a => c a a = Eq) x -> lex_cmp c x x = Eq.
  Proof. induction 1 as [|a x Ha _ IH]; cbn; [reflexivity|now rewrite Ha]. Qed.

  Lemma lex_antisym_pt x : Forall (fun a => forall b, c b a = CompOpp (c a b)) x ->
    forall y, lex_cmp c y x = CompOpp (lex_cmp c x y).
  Proof.
    induction 1 as [|a x Ha _ IH]; intros [|b y]; cbn; try reflexivity.
    rewrite Ha. destruct (c a b); cbn; [apply IH|reflexivity|reflexivity].
  Qed.

  Lemma lex_ext_pt x : Forall (fun a => forall b, c a b = Eq -> a = b) x ->
    forall y, lex_cmp c x y = Eq -> x = y.
  Proof.
    induction 1 as [|a x Ha _ IH]; intros [|b y]; cbn; try congruence.
    destruct (c a b) eqn:E; try congruence. intros E2. f_equal; [now apply Ha|now apply IH].
  Qed.

  Lemma lex_trans_pt x : c_antisym c -> c_ext c ->
    Forall (fun a => forall b d, c a b <> Gt -> c b d <> Gt -> c a d <> Gt) x ->
    forall y z, lex_cmp c x y <> Gt -> lex_cmp c y z <> Gt -> lex_cmp c x z <> Gt.
  Proof.
    intros Hanti Hext. induction 1 as [|a x Ha _ IH]; intros [|b y] [|d z]; cbn; try congruence.
    destruct (c a b) eqn:E1; try congruence.
    - apply Hext in E1. subst b. destruct (c a d); try congruence. apply IH.
    - intros _. destruct (c b d) eqn:E2; try congruence; intros _.
      + apply Hext in E2. subst d. rewrite E1. congruence.
      + assert (N : c a d <> Gt) by (apply (Ha b d); congruence).
        destruct (c a d) eqn:E3; try congruence.
        apply Hext in E3. subst d. rewrite Hanti, E1 in E2. cbn in E2. congruence.
  Qed.

  Lemma lex_tpo : tpo c -> c_ext c -> tpo (lex_cmp c).
  Proof.
    intros (Hr & Ha & Ht) He. split; [|split].
    - intros x. apply lex_refl_pt. apply Forall_forall. intros; apply Hr.
    - intros x y. apply lex_antisym_pt. apply Forall_forall. intros; apply Ha.
    - intros x y z. apply lex_trans_pt; auto. apply Forall_forall. intros a _ b d. apply Ht.
  Qed.
  Lemma lex_ext : c_ext c -> c_ext (lex_cmp c).
  Proof. intros He x y. apply lex_ext_pt. apply Forall_forall. intros a _ b. apply He. Qed.
End Lex.

(* the zip loop of compare_list & co. is the lexicographic order *)
Lemma m_list_cmp_lex {A} (c : A -> A -> comparison) x y : m_list_cmp c x y = lex_cmp c x y.
Proof.
  unfold m_list_cmp. revert y. induction x as [|a x IH]; intros [|b y]; cbn; try reflexivity.
  destruct (c a b); try reflexivity. apply IH.
Qed.

Lemma tpo_bytes_cmp : tpo bytes_cmp. Proof. apply lex_tpo; [apply tpo_Zcompare|apply ext_Zcompare]. Qed.
Lemma ext_bytes_cmp : c_ext bytes_cmp. Proof. apply lex_ext, ext_Zcompare. Qed.

(* ------------------------------------------------------------------ nested values *)

Section ValInd.
  Variable P : val -> Prop.
  Hypothesis HI : forall z, P (VInt z).
  Hypothesis HF : forall h b, P (VFloat h b).
  Hypothesis HB : forall l, P (VBytes l).
  Hypothesis HL : forall l, Forall (oP P) l -> P (VList l).
  Fixpoint val_ind' (v : val) : P v :=
    match v with
    | VInt z => HI z
    | VFloat h b => HF h b
    | VBytes l => HB l
    | VList l =>
        HL l ((fix go (l : list oval) : Forall (oP P) l :=
                 match l with
                 | [] => Forall_nil _
                 | o :: r => Forall_cons o (match o return oP P o with Some v => val_ind' v | None => I end) (go r)
                 end) l)
    end.
End ValInd.

Lemma vcmp_list cnf x y : vcmp cnf (VList x) (VList y) = lex_cmp (ncmp cnf false (vcmp cnf)) x y.
Proof.
  revert y. induction x as [|p x IH]; intros [|q y]; try reflexivity.
  specialize (IH y). cbn in IH |- *.
  destruct p as [u|], q as [v|]; cbn; try (destruct cnf; reflexivity).
  - destruct (vcmp cnf u v); try reflexivity. exact IH.
  - exact IH.
Qed.


Lemma Forall_oP_impl (P : val -> Prop) (Q : oval -> Prop) (l : list oval) :
  (forall o, oP P o -> Q o) -> Forall (oP P) l -> Forall Q l.
Proof. intros H F. eapply Forall_impl; [|exact F]. exact H. Qed.

Lemma vcmp_refl cnf : c_refl (vcmp cnf).
Proof.
  intros a. induction a as [z|h b|l|l IH] using val_ind'.
  - apply Z.compare_refl.
  - cbn. rewrite Z.compare_refl. apply total_order_refl.
  - apply (proj1 tpo_bytes_cmp).
  - rewrite vcmp_list. apply lex_refl_pt. eapply Forall_oP_impl; [|exact IH].
    intros o Ho. now apply ncmp_refl_pt.
Qed.

Lemma vcmp_antisym cnf : c_antisym (vcmp cnf).
Proof.
  intros a. induction a as [z|h x|l|l IH] using val_ind'; intros [z'|h' x'|l'|l']; try reflexivity.
  - apply Z.compare_antisym.
  - cbn. rewrite (Z.compare_antisym h h'). destruct (h ?= h')%Z eqn:E; cbn; try reflexivity.
    apply Z.compare_eq in E. subst h'. apply total_order_antisym.
  - apply (proj1 (proj2 tpo_bytes_cmp)).
  - rewrite !vcmp_list. apply lex_antisym_pt. eapply Forall_oP_impl; [|exact IH].
    intros o Ho. now apply ncmp_antisym_pt.
Qed.

Lemma vcmp_ext cnf : c_ext (vcmp cnf).
Proof.
  intros a. induction a as [z|h x|l|l IH] using val_ind'; intros [z'|h' x'|l'|l']; try discriminate.
  - cbn. intros E. apply Z.compare_eq in E. congruence.
  - cbn. destruct (h ?= h')%Z eqn:E; try discriminate. apply Z.compare_eq in E. subst h'.
    intros E2. apply total_order_eq in E2. congruence.
  - intros E. apply ext_bytes_cmp in E. congruence.
  - rewrite vcmp_list. intros E. f_equal. revert E. apply lex_ext_pt.
    eapply Forall_oP_impl; [|exact IH]. intros o Ho. now apply ncmp_ext_pt.
Qed.

Lemma ocmp_elem_antisym cnf : c_antisym (ncmp cnf false (vcmp cnf)).
Proof. intros p q. apply ncmp_antisym_pt. destruct p; cbn; [intros; apply vcmp_antisym|exact I]. Qed.
Lemma ocmp_elem_ext cnf : c_ext (ncmp cnf false (vcmp cnf)).
Proof. apply ncmp_ext, vcmp_ext. Qed.

Lemma vcmp_trans cnf : c_trans (vcmp cnf).
Proof.
  intros a. induction a as [z|h x|l|l IH] using val_ind'; intros [z'|h' x'|l'|l'] [z''|h'' x''|l''|l''];
    try (cbn; congruence).
  - apply (proj2 (proj2 tpo_Zcompare)).
  - cbn. destruct (h ?= h')%Z eqn:E1; try congruence.
    + apply Z.compare_eq in E1. subst h'. destruct (h ?= h'')%Z eqn:E2; try congruence.
      apply total_order_trans.
    + intros _. destruct (h' ?= h'')%Z eqn:E2; try congruence; intros _.
      * apply Z.compare_eq in E2. subst h''. rewrite E1. congruence.
      * assert (E3 : (h ?= h'')%Z = Lt) by (rewrite Z.compare_lt_iff in *; lia). rewrite E3. congruence.
  - apply (proj2 (proj2 tpo_bytes_cmp)).
  - rewrite !vcmp_list. apply lex_trans_pt; [apply ocmp_elem_antisym|apply ocmp_elem_ext|].
    eapply Forall_oP_impl; [|exact IH]. intros o Ho. now apply ncmp_trans_pt.
Qed.

Theorem vcmp_tpo cnf : tpo (vcmp cnf).
Proof. split; [apply vcmp_refl|split; [apply vcmp_antisym|apply vcmp_trans]]. Qed.

(* the slot comparator for every SortOptions combination *)
Theorem cmp_opts_tpo nf desc : tpo (cmp_opts nf desc).
Proof. unfold cmp_opts, ocmp. apply ncmp_tpo, vcmp_tpo. Qed.
Theorem cmp_opts_ext nf desc : c_ext (cmp_opts nf desc).
Proof. unfold cmp_opts, ocmp. apply ncmp_ext, vcmp_ext. Qed.

Lemma cmp_opts_eq_iff nf desc p q : cmp_opts nf desc p q = Eq <-> p = q.
Proof. split; [apply cmp_opts_ext|intros ->; apply (proj1 (cmp_opts_tpo nf desc))]. Qed.

(* descending reverses values only; nulls keep their side *)
Lemma cmp_opts_nulls nf desc v :
  cmp_opts nf desc None (Some v) = (if nf then Lt else Gt) /\ cmp_opts nf desc (Some v) None = (if nf then Gt else Lt) /\ cmp_opts nf desc None None = Eq.
Proof. repeat split. Qed.

(* ------------------------------------------------------------------ compare_impl: the four null-buffer cases *)

(* a null buffer that is dropped (None) promises that the side has no null *)
Definition buf_ok (a : list oval) (b : option (nat -> bool)) (n : nat) : Prop :=
  match b with
  | Some f => forall i, i < n -> f i = is_null a i
  | None => forall i, i < n -> is_null a i = false
  end.

Lemma null_buffer_ok a : buf_ok a (null_buffer a) (length a).
Proof.
  unfold null_buffer, buf_ok.
  destruct (existsb _ a) eqn:E; [reflexivity|].
  intros i Hi. unfold is_null, slot.
  destruct (nth i a None) eqn:E2; [reflexivity|].
  exfalso. assert (X : existsb (fun o : oval => match o with None => true | Some _ => false end) a = true).
  { apply existsb_exists. exists None. split; [|reflexivity]. rewrite <- E2. now apply nth_In. }
  congruence.
Qed.

Theorem compare_impl_spec nf desc (a b : list oval) (la lb : option (nat -> bool)) (vc : val -> val -> comparison) i j :
  buf_ok a la (length a) -> buf_ok b lb (length b) -> i < length a -> j < length b ->
  compare_impl nf desc la lb (fun i j => vc (val_of a i) (val_of b j)) i j
  = ncmp nf desc vc (slot a i) (slot b j).
Proof.
  intros Ha Hb Hi Hj. unfold compare_impl, buf_ok, val_of, is_null in *.
  destruct la as [fa|], lb as [fb|].
  - rewrite (Ha i Hi), (Hb j Hj). destruct (slot a i), (slot b j); cbn; now destruct desc.
  - rewrite (Ha i Hi). specialize (Hb j Hj). destruct (slot a i), (slot b j); cbn; try discriminate; now destruct desc.
  - rewrite (Hb j Hj). specialize (Ha i Hi). destruct (slot a i), (slot b j); cbn; try discriminate; now destruct desc.
  - specialize (Ha i Hi). specialize (Hb j Hj). destruct (slot a i), (slot b j); cbn; try discriminate; now destruct desc.
Qed.
