(* C15: PushBuffers — a successful read returns the file's bytes, whatever was pushed and in
   whatever order; has_range is exactly the success condition of get_bytes. *)
From Coq Require Import List Arith NArith Lia Bool Permutation ZifyN ZifyNat ZifyBool.
From AV Require Import Model.C15_PushBuf.
Import ListNotations.
Local Open Scope N_scope.

Lemma skipn_skipn' {A} (l : list A) a b : skipn a (skipn b l) = skipn (a + b) l.
Proof.
  revert l; induction b as [|b IH]; intros l; [now rewrite Nat.add_0_r|].
  rewrite Nat.add_succ_r. destruct l; [now rewrite !skipn_nil|]. cbn [skipn]. apply IH.
Qed.

Lemma bslice_length l off len : off + len <= nlen l -> length (bslice l off len) = N.to_nat len.
Proof.
  unfold bslice, nlen. intros H. rewrite firstn_length, skipn_length. lia.
Qed.

(* a slice of a slice of the file is the corresponding slice of the file *)
Lemma slice_slice file a n s l : a <= s -> s + l <= a + n ->
  bslice (fslice file a n) (s - a) l = fslice file s l.
Proof.
  intros H1 H2. unfold fslice, bslice.
  rewrite skipn_firstn_comm, skipn_skipn', firstn_firstn.
  replace (N.to_nat (s - a) + N.to_nat a)%nat with (N.to_nat s) by lia.
  f_equal. lia.
Qed.

Section File.
Variable file : list N.
Notation cons_ := (consistent file).

Lemma find_bytes_reads_file es s l x :
  Forall cons_ es -> find_bytes es s l = Some x -> x = fslice file s l.
Proof.
  induction 1 as [|e es [Hse [Hel Hd]] _ IH]; cbn [find_bytes]; [discriminate|].
  destruct (N.leb_spec (e_st e) s); cbn [andb]; [|exact IH].
  destruct (N.leb_spec (s + l) (e_en e)); [|exact IH].
  intros E; inversion E; subst x. rewrite Hd. apply slice_slice; lia.
Qed.

(* pushbuf_reads_file *)
Theorem get_bytes_reads_file pb s l x :
  Forall cons_ (pb_entries pb) -> get_bytes pb s l = Some x -> x = fslice file s l.
Proof. apply find_bytes_reads_file. Qed.

Theorem read_reads_file pb n x pb' :
  Forall cons_ (pb_entries pb) -> read pb n = (Some x, pb') ->
  x = fslice file (pb_offset pb) n /\ pb_offset pb' = pb_offset pb + n /\ pb_entries pb' = pb_entries pb.
Proof.
  intros Hc. unfold read. destruct (find_bytes _ _ _) eqn:E; [|discriminate].
  intros H; inversion H; subst. cbn. repeat split. eapply find_bytes_reads_file; eauto.
Qed.

(* get_bytes succeeds exactly when one entry contains the request *)
Lemma find_bytes_some_iff es s l :
  (exists x, find_bytes es s l = Some x) <-> existsb (fun e => covers e (s, s + l)) es = true.
Proof.
  induction es as [|e es IH]; cbn [find_bytes existsb]; [split; [intros [x Hx]; discriminate|discriminate]|].
  unfold covers at 1; cbn [fst snd].
  destruct ((e_st e <=? s) && (s + l <=? e_en e)); cbn [orb]; [split; eauto|exact IH].
Qed.

Theorem has_range_get_bytes pb s e :
  s <= e -> has_range pb (s, e) = true -> exists x, get_bytes pb s (e - s) = Some x.
Proof.
  intros Hse H. apply find_bytes_some_iff. replace (s + (e - s)) with e by lia. exact H.
Qed.

Theorem get_bytes_has_range pb s l x : get_bytes pb s l = Some x -> has_range pb (s, s + l) = true.
Proof. intros H. apply find_bytes_some_iff. eauto. Qed.

Theorem get_bytes_iff_has_range pb s l :
  Forall cons_ (pb_entries pb) ->
  get_bytes pb s l = if has_range pb (s, s + l) then Some (fslice file s l) else None.
Proof.
  intros Hc. destruct (get_bytes pb s l) as [x|] eqn:E.
  - rewrite (get_bytes_has_range _ _ _ _ E). f_equal. eapply get_bytes_reads_file; eauto.
  - destruct (has_range pb (s, s + l)) eqn:Hh; [|reflexivity].
    apply find_bytes_some_iff in Hh. destruct Hh as [x Hx]. unfold get_bytes in E. congruence.
Qed.

(* M = S: on file-consistent contents get_bytes is the specification on the list of pushed ranges *)
Theorem get_bytes_is_spec pb s l :
  Forall cons_ (pb_entries pb) ->
  get_bytes pb s l = get_bytes_spec file (map (fun e => (e_st e, e_en e)) (pb_entries pb)) s l.
Proof.
  intros Hc. rewrite get_bytes_iff_has_range by exact Hc. unfold get_bytes_spec, has_range.
  assert (forall es, existsb (fun p : range => (fst p <=? s) && (s + l <=? snd p)) (map (fun e => (e_st e, e_en e)) es)
                     = existsb (fun e => covers e (s, s + l)) es) as ->; [|reflexivity].
  induction es as [|e es IH]; [reflexivity|]. cbn [map existsb]. now rewrite IH.
Qed.

(* independence of push order, duplicates, supersets, additional ranges: has_range only depends on
   the SET of entries, and with it (by get_bytes_iff_has_range) so does get_bytes *)
Lemma has_range_In pb r : has_range pb r = true <-> exists e, In e (pb_entries pb) /\ covers e r = true.
Proof. unfold has_range. apply existsb_exists. Qed.

Theorem get_bytes_order_independent pb pb' s l :
  Forall cons_ (pb_entries pb) -> Forall cons_ (pb_entries pb') ->
  (forall e, In e (pb_entries pb) <-> In e (pb_entries pb')) ->
  get_bytes pb s l = get_bytes pb' s l.
Proof.
  intros Hc Hc' Hin. rewrite !get_bytes_iff_has_range by assumption.
  assert (has_range pb (s, s + l) = has_range pb' (s, s + l)) as ->; [|reflexivity].
  apply eq_true_iff_eq. rewrite !has_range_In. split; intros [e [Hi Hcov]]; exists e; split; auto; now apply Hin.
Qed.

Corollary get_bytes_permutation pb pb' s l :
  Forall cons_ (pb_entries pb) -> Permutation (pb_entries pb) (pb_entries pb') ->
  get_bytes pb s l = get_bytes pb' s l.
Proof.
  intros Hc Hp. apply get_bytes_order_independent; [exact Hc| |].
  - eapply Permutation_Forall; eauto.
  - intros e; split; apply Permutation_in; [exact Hp|now apply Permutation_sym].
Qed.

(* supplying more (duplicates, supersets, unrelated ranges) never invalidates a read *)
Theorem get_bytes_monotone pb extra s l x :
  get_bytes pb s l = Some x ->
  get_bytes (pb_with_entries pb (pb_entries pb ++ extra)) s l = Some x.
Proof.
  unfold get_bytes; cbn. induction (pb_entries pb) as [|e es IH]; cbn [find_bytes app]; [discriminate|].
  destruct ((e_st e <=? s) && (s + l <=? e_en e)); auto.
Qed.
Theorem has_range_monotone pb extra r :
  has_range pb r = true -> has_range (pb_with_entries pb (pb_entries pb ++ extra)) r = true.
Proof. unfold has_range; cbn. rewrite existsb_app. intros ->. reflexivity. Qed.

(* a superset delivery satisfies the request *)
Theorem superset_satisfies pb st en data s e :
  st <= s -> e <= en -> has_range (pb_with_entries pb (pb_entries pb ++ [{| e_st := st; e_en := en; e_data := data |}])) (s, e) = true.
Proof.
  intros H1 H2. unfold has_range; cbn. rewrite existsb_app. cbn. unfold covers; cbn.
  destruct (N.leb_spec st s); [|lia]. destruct (N.leb_spec e en); [|lia]. cbn. now rewrite orb_true_r.
Qed.

(* non-coalescing: two adjacent pieces do not satisfy a request spanning both *)
Example no_coalescing :
  let pb := {| pb_offset := 0; pb_file_len := 8; pb_entries :=
                [{| e_st := 0; e_en := 4; e_data := [1;2;3;4] |}; {| e_st := 4; e_en := 8; e_data := [5;6;7;8] |}] |} in
  has_range pb (0, 8) = false /\ get_bytes pb 2 4 = None /\ get_bytes pb 4 4 = Some [5;6;7;8].
Proof. vm_compute. auto. Qed.

(* ---------------------------------------------------------------- preservation of consistency *)
Lemma fslice_length s l : s + l <= nlen file -> nlen (fslice file s l) = l.
Proof. intros H. unfold nlen, fslice. rewrite bslice_length by exact H. lia. Qed.

Theorem push_range_consistent pb st en :
  st <= en -> en <= nlen file -> Forall cons_ (pb_entries pb) ->
  exists pb', push_range pb st en (fslice file st (en - st)) = Some pb'
    /\ pb_entries pb' = pb_entries pb ++ [{| e_st := st; e_en := en; e_data := fslice file st (en - st) |}]
    /\ Forall cons_ (pb_entries pb') /\ pb_offset pb' = pb_offset pb /\ pb_file_len pb' = pb_file_len pb.
Proof.
  intros H1 H2 Hc. unfold push_range. rewrite fslice_length by lia. rewrite N.eqb_refl.
  eexists; split; [reflexivity|]. cbn. repeat split; auto.
  apply Forall_app; split; [exact Hc|]. constructor; [|constructor]. repeat split; cbn; auto.
Qed.

Theorem clear_ranges_consistent pb rs : Forall cons_ (pb_entries pb) -> Forall cons_ (pb_entries (clear_ranges pb rs)).
Proof.
  intros Hc. cbn. apply Forall_forall. intros e He. apply filter_In in He.
  rewrite Forall_forall in Hc. now apply Hc.
Qed.
End File.
