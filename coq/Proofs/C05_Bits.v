(* C05 — bit lists, bit packing, bytes<->bits, ULEB128 and zig-zag round trips. *)
From Coq Require Import List NArith ZArith Arith Lia Bool ZifyN ZifyNat ZifyBool.
From AV Require Import Base.ListX Model.C05_Enc.
Import ListNotations.
Ltac Zify.zify_post_hook ::= Z.div_mod_to_equations.

Lemma bits_of_length w n : length (bits_of w n) = w.
Proof. revert n; induction w; intros; cbn [bits_of length]; auto. Qed.

Lemma val_bits w : forall n, (n < 2^N.of_nat w)%N -> val_of (bits_of w n) = n.
Proof.
  induction w as [|w IH]; intros n Hn.
  - cbn in *. lia.
  - cbn [bits_of val_of]. rewrite IH.
    + pose proof (N.div2_odd n) as E. lia.
    + rewrite Nat2N.inj_succ, N.pow_succ_r' in Hn. rewrite N.div2_div.
      apply N.div_lt_upper_bound; lia.
Qed.

Lemma val_of_bound bs : (val_of bs < 2^N.of_nat (length bs))%N.
Proof.
  induction bs as [|b r IH]; [cbn; lia|].
  cbn [val_of length]. rewrite Nat2N.inj_succ, N.pow_succ_r'. destruct b; cbn [N.b2n]; lia.
Qed.

Lemma bits_of_val w : forall bs, length bs = w -> bits_of w (val_of bs) = bs.
Proof.
  induction w as [|w IH]; intros [|b r] Hl; try discriminate; [reflexivity|].
  cbn [val_of bits_of]. injection Hl as Hl.
  assert (Ho : N.odd (N.b2n b + 2 * val_of r) = b).
  { rewrite N.odd_add_mul_2. destruct b; reflexivity. }
  assert (Hd : N.div2 (N.b2n b + 2 * val_of r) = val_of r).
  { rewrite N.div2_div. destruct b; cbn [N.b2n]; lia. }
  rewrite Ho, Hd, IH by assumption. reflexivity.
Qed.

(* bits_of only looks at the low w bits *)
Lemma bits_of_mod w : forall n, bits_of w (n mod 2^N.of_nat w) = bits_of w n.
Proof.
  induction w as [|w IH]; intros n; [reflexivity|].
  cbn [bits_of]. rewrite Nat2N.inj_succ.
  assert (Hp : (2 ^ N.of_nat w <> 0)%N) by (apply N.pow_nonzero; lia).
  f_equal.
  - rewrite <- !N.bit0_odd. rewrite N.mod_pow2_bits_low by lia. reflexivity.
  - rewrite N.pow_succ_r'. rewrite <- IH. rewrite <- (IH (N.div2 n)). f_equal.
    rewrite !N.div2_div. rewrite N.mod_mul_r by lia.
    rewrite N.mul_comm, N.div_add by lia.
    rewrite (N.div_small (n mod 2) 2) by (apply N.mod_lt; lia).
    rewrite N.add_0_l. rewrite N.mod_mod by exact Hp. reflexivity.
Qed.

Lemma bits_of_app a : forall b n, bits_of (a + b) n = bits_of a n ++ bits_of b (n / 2^N.of_nat a).
Proof.
  induction a as [|a IH]; intros b n.
  - cbn [plus bits_of app N.of_nat]. rewrite N.pow_0_r, N.div_1_r. reflexivity.
  - cbn [plus bits_of app]. f_equal. rewrite IH. f_equal. f_equal.
    rewrite N.div2_div, Nat2N.inj_succ, N.pow_succ_r', N.div_div by (try apply N.pow_nonzero; lia). reflexivity.
Qed.

Lemma val_of_app a b : val_of (a ++ b) = (val_of a + 2^N.of_nat (length a) * val_of b)%N.
Proof.
  induction a as [|x a IH]; [cbn [app val_of length N.of_nat]; rewrite N.pow_0_r; lia|].
  cbn [app val_of length]. rewrite IH, Nat2N.inj_succ, N.pow_succ_r'. lia.
Qed.

(* ---- bit packing ---- *)
Theorem bitpack_roundtrip w vs padding :
  Forall (fun v => (v < 2^N.of_nat w)%N) vs ->
  unpack w (length vs) (pack w vs ++ padding) = vs.
Proof.
  induction 1 as [|v vs Hv _ IH]; [reflexivity|].
  cbn [pack flat_map length unpack]. rewrite <- app_assoc.
  rewrite firstn_app, bits_of_length, Nat.sub_diag, firstn_O, app_nil_r.
  rewrite firstn_all2 by (rewrite bits_of_length; lia).
  rewrite skipn_app, bits_of_length, Nat.sub_diag, skipn_O.
  rewrite skipn_all2 by (rewrite bits_of_length; lia). cbn [app].
  rewrite val_bits by exact Hv. f_equal. exact IH.
Qed.

Lemma pack_length w vs : length (pack w vs) = (length vs * w)%nat.
Proof. unfold pack. induction vs as [|v vs IH]; cbn [flat_map length]; [reflexivity|]. rewrite app_length, bits_of_length, IH. lia. Qed.

Lemma pack_app w a b : pack w (a ++ b) = pack w a ++ pack w b.
Proof. unfold pack. apply flat_map_app. Qed.

Lemma unpack_length w n bs : length (unpack w n bs) = n.
Proof. revert bs; induction n; intros; cbn [unpack length]; auto. Qed.

(* unpacking fewer values than were packed gives a prefix *)
Lemma unpack_firstn w : forall k vs padding, Forall (fun v => (v < 2^N.of_nat w)%N) vs -> (k <= length vs)%nat ->
  unpack w k (pack w vs ++ padding) = firstn k vs.
Proof.
  intros k vs padding Hv Hk.
  rewrite <- (firstn_skipn k vs) at 1. rewrite pack_app, <- app_assoc.
  replace k with (length (firstn k vs)) at 1 by (rewrite firstn_length; lia).
  apply bitpack_roundtrip. apply Forall_firstn', Hv.
Qed.

(* ---- bytes <-> bits ---- *)
Lemma bytes_bits_length bs : length (bytes_bits bs) = (8 * length bs)%nat.
Proof. induction bs; cbn [bytes_bits flat_map length]; [reflexivity|]. rewrite app_length. unfold byte_bits at 1. rewrite bits_of_length. fold (bytes_bits bs). lia. Qed.

Lemma bytes_bits_app a b : bytes_bits (a ++ b) = bytes_bits a ++ bytes_bits b.
Proof. unfold bytes_bits. apply flat_map_app. Qed.

Lemma bits_bytes_length n bits : length (bits_bytes n bits) = n.
Proof. revert bits; induction n; intros; cbn [bits_bytes length]; auto. Qed.

Lemma bytes_bits_bits_bytes n : forall bits, length bits = (8 * n)%nat -> bytes_bits (bits_bytes n bits) = bits.
Proof.
  induction n as [|n IH]; intros bits Hl.
  - destruct bits; [reflexivity|discriminate].
  - cbn [bits_bytes bytes_bits flat_map]. unfold byte_bits at 1.
    rewrite bits_of_val by (rewrite firstn_length; lia).
    fold (bytes_bits (bits_bytes n (skipn 8 bits))). rewrite IH by (rewrite skipn_length; lia).
    apply firstn_skipn.
Qed.

Lemma bits_bytes_wf n : forall bits, Forall (fun b => (b < 256)%N) (bits_bytes n bits).
Proof.
  induction n as [|n IH]; intros bits; cbn [bits_bytes]; constructor; [|apply IH].
  eapply N.lt_le_trans; [apply val_of_bound|]. change 256%N with (2^8)%N.
  apply N.pow_le_mono_r; [lia|]. rewrite firstn_length. lia.
Qed.

Lemma byte_bits_length b : length (byte_bits b) = 8%nat.
Proof. apply bits_of_length. Qed.

Lemma bits_bytes_bytes_bits bs : Forall (fun b => (b < 256)%N) bs -> bits_bytes (length bs) (bytes_bits bs) = bs.
Proof.
  induction 1 as [|b r Hb _ IH]; [reflexivity|].
  cbn [length bits_bytes bytes_bits flat_map]. fold (bytes_bits r).
  rewrite firstn_app, byte_bits_length, Nat.sub_diag, firstn_O, app_nil_r, firstn_all2 by (rewrite byte_bits_length; lia).
  rewrite skipn_app, byte_bits_length, Nat.sub_diag, skipn_O, skipn_all2 by (rewrite byte_bits_length; lia).
  cbn [app]. unfold byte_bits. rewrite val_bits by exact Hb. f_equal. exact IH.
Qed.

(* little-endian values *)
Lemma le_value_le_bytes k v : (v < 2^N.of_nat (8 * k))%N -> le_value (le_bytes k v) = v.
Proof.
  intros Hv. unfold le_value, le_bytes. rewrite bytes_bits_bits_bytes by (rewrite bits_of_length; lia).
  apply val_bits, Hv.
Qed.

Lemma le_bytes_length k v : length (le_bytes k v) = k.
Proof. apply bits_bytes_length. Qed.

(* ---- ULEB128 ---- *)
Local Open Scope N_scope.
Lemma pow7 k : 2^(7 * N.of_nat (S k)) = 128 * 2^(7 * N.of_nat k).
Proof. rewrite Nat2N.inj_succ, N.mul_succ_r, N.pow_add_r. change (2^7) with 128. lia. Qed.

Theorem vlq_dec_enc : forall fuel n shift acc rest, n < 2^(7 * N.of_nat (S fuel)) ->
  vlq_dec (vlq_enc (S fuel) n ++ rest) shift acc = Some (acc + n * 2^shift, rest).
Proof.
  induction fuel as [|fuel IH]; intros n shift acc rest Hn.
  - change (n < 128) in Hn. cbn [vlq_enc].
    destruct (N.ltb_spec n 128); [|lia]. cbn [app vlq_dec]. rewrite N.mod_small by lia.
    destruct (N.ltb_spec n 128); [reflexivity|lia].
  - change (vlq_enc (S (S fuel)) n) with (if n <? 128 then [n] else (n mod 128 + 128) :: vlq_enc (S fuel) (n / 128)).
    destruct (N.ltb_spec n 128) as [Hlt|Hge].
    + cbn [app vlq_dec]. rewrite N.mod_small by exact Hlt. destruct (N.ltb_spec n 128); [reflexivity|lia].
    + cbn [app vlq_dec].
      pose proof (N.mod_lt n 128 ltac:(lia)) as Hm.
      replace ((n mod 128 + 128) mod 128) with (n mod 128).
      2:{ rewrite N.add_mod by lia. rewrite N.mod_same by lia. rewrite N.add_0_r. now rewrite !N.mod_mod by lia. }
      destruct (N.ltb_spec (n mod 128 + 128) 128) as [Hc|Hc]; [lia|].
      rewrite IH.
      * f_equal. f_equal. rewrite <- N.add_assoc. f_equal.
        rewrite N.pow_add_r. change (2^7) with 128.
        pose proof (N.div_mod n 128 ltac:(lia)). nia.
      * rewrite pow7 in Hn. apply N.div_lt_upper_bound; lia.
Qed.

(* 10 groups cover every u64: the bound of put_vlq_int / MAX_VLQ_BYTE_LEN *)
Corollary vlq_roundtrip n rest : n < 2^64 -> vlq_dec (vlq n ++ rest) 0 0 = Some (n, rest).
Proof.
  intros H. unfold vlq. rewrite (vlq_dec_enc 9); [f_equal; f_equal; cbn; lia|].
  eapply N.lt_trans; [exact H|]. reflexivity.
Qed.

Lemma vlq_enc_wf : forall fuel n, Forall (fun b => b < 256) (vlq_enc fuel n).
Proof.
  induction fuel as [|fuel IH]; intros n; cbn [vlq_enc]; [constructor|].
  destruct (N.ltb_spec n 128); [repeat constructor; lia|].
  constructor; [|apply IH]. pose proof (N.mod_lt n 128 ltac:(lia)). lia.
Qed.
Local Close Scope N_scope.

(* ---- zig-zag ---- *)
Local Open Scope Z_scope.
Lemma zz_roundtrip z : zz_dec (zz_enc z) = z.
Proof.
  unfold zz_enc, zz_dec. destruct (Z.leb_spec 0 z).
  - replace (Z.even (2 * z)) with true by (rewrite Z.even_mul; reflexivity). lia.
  - replace (Z.even (-2 * z - 1)) with false.
    + lia.
    + replace (-2 * z - 1)%Z with (1 + 2 * (- z - 1))%Z by lia. now rewrite Z.even_add_mul_2.
Qed.

Lemma lxor_m1 a : Z.lxor a (-1) = - a - 1.
Proof. rewrite Z.lxor_m1_r. unfold Z.lnot. lia. Qed.

Lemma shiftr63 v : - 2^63 <= v < 2^63 -> Z.shiftr v 63 = if 0 <=? v then 0 else -1.
Proof.
  intros H. rewrite Z.shiftr_div_pow2 by lia.
  assert (HP : 0 < 2^63) by reflexivity.
  remember (2^63) as P eqn:EP. clear EP.
  destruct (Z.leb_spec 0 v).
  - apply Z.div_small; lia.
  - symmetry. apply (Z.div_unique v P (-1) (v + P)); lia.
Qed.

Lemma to_unsigned_small tw z : 0 <= z < Z.of_N (2^tw) -> to_unsigned tw z = Z.to_N z.
Proof. intros H. unfold to_unsigned. rewrite Z.mod_small by exact H. reflexivity. Qed.

(* M = S : the shift/xor form of BitWriter::put_zigzag_vlq_int is the arithmetic zig-zag, for every i64 *)
Theorem zz_enc_m_spec v : - 2^63 <= v < 2^63 -> Z.of_N (zz_enc_m v) = zz_enc v /\ (zz_enc_m v < 2^64)%N.
Proof.
  intros H. unfold zz_enc_m, zz_enc.
  rewrite Z.shiftl_mul_pow2 by lia. rewrite shiftr63 by exact H. change (2^1) with 2.
  assert (E64 : Z.of_N (2^64) = 2 * 2^63) by reflexivity.
  assert (EN : forall x, 0 <= x < 2 * 2^63 -> (Z.to_N x < 2^64)%N).
  { intros x Hx. apply N2Z.inj_lt. rewrite Z2N.id by lia. rewrite E64. lia. }
  assert (HP : 0 < 2^63) by reflexivity.
  remember (2^63) as P eqn:EP. clear EP.
  destruct (Z.leb_spec 0 v).
  - rewrite Z.lxor_0_r. rewrite to_unsigned_small by (rewrite E64; lia).
    split; [rewrite Z2N.id by lia; lia|]. apply EN. lia.
  - rewrite lxor_m1. rewrite to_unsigned_small by (rewrite E64; lia).
    split; [rewrite Z2N.id by lia; lia|]. apply EN. lia.
Qed.

Theorem zz_dec_m_spec u : zz_dec_m u = zz_dec (Z.of_N u).
Proof.
  unfold zz_dec_m, zz_dec.
  rewrite N.shiftr_div_pow2. change (2^1)%N with 2%N. rewrite N2Z.inj_div. change (Z.of_N 2) with 2.
  change 1%N with (N.ones 1). rewrite N.land_ones. change (2^1)%N with 2%N.
  rewrite N2Z.inj_mod. change (Z.of_N 2) with 2.
  pose proof (Z.mod_pos_bound (Z.of_N u) 2 ltac:(lia)) as Hm.
  destruct (Z.even (Z.of_N u)) eqn:Ev.
  - apply Z.even_spec in Ev. destruct Ev as [m Em].
    assert (E : Z.of_N u mod 2 = 0) by lia. rewrite E. cbn [Z.opp]. apply Z.lxor_0_r.
  - assert (Od : Z.odd (Z.of_N u) = true) by (rewrite <- Z.negb_even, Ev; reflexivity).
    apply Z.odd_spec in Od. destruct Od as [m Em].
    assert (E1 : Z.of_N u mod 2 = 1) by lia. rewrite E1. rewrite lxor_m1. lia.
Qed.

Theorem zz_m_roundtrip v : - 2^63 <= v < 2^63 -> zz_dec_m (zz_enc_m v) = v.
Proof. intros H. rewrite zz_dec_m_spec. destruct (zz_enc_m_spec v H) as [E _]. rewrite E. apply zz_roundtrip. Qed.

Theorem zz_vlq_roundtrip v rest : - 2^63 <= v < 2^63 -> zz_vlq_dec (zz_vlq v ++ rest) = Some (v, rest).
Proof.
  intros H. unfold zz_vlq_dec, zz_vlq. destruct (zz_enc_m_spec v H) as [_ Hb].
  rewrite vlq_roundtrip by exact Hb. rewrite N.mod_small by exact Hb. rewrite zz_m_roundtrip by exact H. reflexivity.
Qed.
