(* C09: constants used by the models equal the constants regenerated from /repo's source on this run
   (coq/Gen/Consts.v is rewritten by rs2v before every build). *)
From Coq Require Import ZArith NArith.
From AV Require Import Gen.Consts Model.C09_Layout.

Lemma tie_max_inline_view_len : Z.of_N max_inline_view_len = arrow_data_byte_view__MAX_INLINE_VIEW_LEN.
Proof. reflexivity. Qed.
