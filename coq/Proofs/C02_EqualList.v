(* C02 — arrow-data's list_equal ((Large)List): compositional correctness.  IF the comparison of the
   child arrays on every range decides equality of the corresponding windows of the child's logical
   column, THEN list_equal (empty-children shortcut, null-count comparison, the null-free path
   lengths_equal + ONE child range comparison, the per-slot path) decides equality of the list slots. *)
From Coq Require Import List Arith NArith ZArith Bool Lia.
From AV Require Import Base.ListX Base.Bits Base.Bytes Model.C19_Bits Model.C09_Layout Model.C02_Logical Model.C02_Equal.
From AV Require Import Proofs.C02_EqualNulls Proofs.C02_EqualPrim Proofs.C02_EqualBin.
Import ListNotations.

Definition window {A} (l : list A) (s m : nat) : list A := firstn m (skipn s l).

Lemma logical_length a : length (logical a) = p_len a.
Proof. unfold logical. now rewrite map_length, seq_length. Qed.

Lemma count_false_zero_iff l : count_false l = 0 <-> (forall i, i < length l -> nth i l false = true).
Proof.
  unfold count_false. induction l as [|b r IH]; cbn [filter length].
  - split; [intros _ i Hi; lia | reflexivity].
  - destruct b; cbn [negb].
    + rewrite IH. split; intros H i Hi; [destruct i as [|i]; [reflexivity | apply H; lia] | apply (H (S i)); lia].
    + cbn [length]. split; [discriminate | intros H; specialize (H 0 ltac:(lia)); discriminate].
Qed.

Lemma count_nulls_zero_iff nulls s n : count_nulls nulls s n = 0 <-> (forall i, i < n -> valid_in nulls (s + i) = true).
Proof.
  destruct nulls as [nb|]; cbn [count_nulls valid_in]; [|split; [reflexivity | intros _; reflexivity]].
  rewrite count_false_zero_iff, nulls_bits_length. split; intros H i Hi; specialize (H i Hi).
  - now rewrite nulls_bits_nth in H.
  - now rewrite nulls_bits_nth.
Qed.

Lemma count_nulls_eq a b ls rs n : (forall i, i < n -> slot_valid a (ls + i) = slot_valid b (rs + i)) ->
  count_nulls (p_nulls a) ls n = count_nulls (p_nulls b) rs n.
Proof.
  unfold slot_valid. intros Hv. destruct (p_nulls a) as [la|] eqn:Ea, (p_nulls b) as [lb|] eqn:Eb; cbn [count_nulls].
  - apply count_false_ext. unfold nulls_bits. apply bits_range_eq_iff. intros i Hi. specialize (Hv i Hi).
    unfold nb_valid in Hv. now rewrite <- !Nat.add_assoc.
  - apply (count_nulls_zero_iff (Some la)). intros i Hi. exact (Hv i Hi).
  - symmetry. apply (count_nulls_zero_iff (Some lb)). intros i Hi. symmetry. exact (Hv i Hi).
  - reflexivity.
Qed.

Section ListEq.
  Variables (large nullable : bool) (c : dty).
  Variables (alen aoff : nat) (anulls : option nullbuf) (abufs : list (list N)) (ka : parr) (akids : list parr).
  Variables (b kb : parr) (bkids : list parr).
  Let a := PArr (TList large nullable c) alen aoff anulls abufs (ka :: akids).
  Let w := offw large.
  Hypothesis Hkb : p_kids b = kb :: bkids.
  Hypothesis Hoa : offs_ok a w (p_len ka).
  Hypothesis Hob : offs_ok b w (p_len kb).
  (* correctness of the child comparison on every range *)
  Hypothesis child_ok : forall s1 s2 m, s1 + m <= p_len ka -> s2 + m <= p_len kb ->
    (equal_nulls ka kb s1 s2 m && equal_values ka kb s1 s2 m = true
     <-> window (logical ka) s1 m = window (logical kb) s2 m).

  (* the list slot j of x: the window [offsets[j], offsets[j+1]) of the child's column *)
  Definition lslice (x kx : parr) (j : nat) : list lval :=
    window (logical kx) (noff x w j) (noff x w (S j) - noff x w j).

  Let range (s1 s2 n : Z) : bool :=
    if (0 <=? s1)%Z then if (0 <=? s2)%Z then if (0 <=? n)%Z then
      if (s1 + n <=? Z.of_nat (p_len ka))%Z then if (s2 + n <=? Z.of_nat (p_len kb))%Z then
        equal_nulls ka kb (Z.to_nat s1) (Z.to_nat s2) (Z.to_nat n) &&
        equal_values ka kb (Z.to_nat s1) (Z.to_nat s2) (Z.to_nat n)
      else false else false else false else false else false.

  Lemma range_nat s1 s2 m : s1 + m <= p_len ka -> s2 + m <= p_len kb ->
    (range (Z.of_nat s1) (Z.of_nat s2) (Z.of_nat m) = true <-> window (logical ka) s1 m = window (logical kb) s2 m).
  Proof.
    intros H1 H2. unfold range.
    destruct (Z.leb_spec 0 (Z.of_nat s1)); [|lia]. destruct (Z.leb_spec 0 (Z.of_nat s2)); [|lia]. destruct (Z.leb_spec 0 (Z.of_nat m)); [|lia].
    destruct (Z.leb_spec (Z.of_nat s1 + Z.of_nat m) (Z.of_nat (p_len ka))); [|lia].
    destruct (Z.leb_spec (Z.of_nat s2 + Z.of_nat m) (Z.of_nat (p_len kb))); [|lia].
    rewrite !Nat2Z.id. now apply child_ok.
  Qed.

  Lemma equal_values_list_unfold ls rs n :
    equal_values a b ls rs n =
    if Nat.eqb n 0 then true else
    let l_child_len := (off_at a w (ls + n) - off_at a w ls)%Z in
    let r_child_len := (off_at b w (rs + n) - off_at b w rs)%Z in
    if Z.eqb l_child_len 0 && Z.eqb l_child_len r_child_len then true else
    let lnc := count_nulls anulls ls n in
    let rnc := count_nulls (p_nulls b) rs n in
    if negb (Nat.eqb lnc rnc) then false
    else if Nat.eqb lnc 0 then
      if Z.eqb l_child_len r_child_len then
        if lengths_equal (offs_range a w ls n) (offs_range b w rs n)
        then range (off_at a w ls) (off_at b w rs) l_child_len else false
      else false
    else
      match anulls, p_nulls b with
      | Some ln, Some rn =>
          forallb (fun i =>
                     let lnull := is_null_at ln (ls + i) in
                     let rnull := is_null_at rn (rs + i) in
                     if negb (Bool.eqb lnull rnull) then false else
                     let los := off_at a w (ls + i) in let loe := off_at a w (ls + i + 1) in
                     let ros := off_at b w (rs + i) in let roe := off_at b w (rs + i + 1) in
                     lnull || (if Z.eqb (loe - los)%Z (roe - ros)%Z then range los ros (loe - los)%Z else false))
                  (seq 0 n)
      | _, _ => false
      end.
  Proof. unfold a. cbn [equal_values]. rewrite Hkb. reflexivity. Qed.

  Theorem list_equal_iff ls rs n :
    ls + n <= alen -> rs + n <= p_len b ->
    (forall i, i < n -> slot_valid a (ls + i) = slot_valid b (rs + i)) ->
    (equal_values a b ls rs n = true
     <-> forall i, i < n -> slot_valid a (ls + i) = true -> lslice a ka (ls + i) = lslice b kb (rs + i)).
  Proof.
    intros Hla Hlb Hv. rewrite equal_values_list_unfold.
    assert (Hal : p_len a = alen) by reflexivity.
    destruct (Nat.eqb_spec n 0) as [->|Hn]; [split; [intros _ i Hi; lia | reflexivity]|].
    cbn zeta.
    set (fa := fun i => noff a w (ls + i)). set (fb := fun i => noff b w (rs + i)).
    assert (Ma : forall i, i < n -> fa i <= fa (S i)) by (intros i Hi; unfold fa; replace (ls + S i) with (S (ls + i)) by lia; apply (noff_mono a w Hoa); lia).
    assert (Mb : forall i, i < n -> fb i <= fb (S i)) by (intros i Hi; unfold fb; replace (rs + S i) with (S (rs + i)) by lia; apply (noff_mono b w Hob); lia).
    assert (La : fa n <= length (logical ka)) by (rewrite logical_length; unfold fa; etransitivity; [apply (noff_le a w Hoa (ls + n) (p_len a)); lia | apply (noff_last a w Hoa)]).
    assert (Lb : fb n <= length (logical kb)) by (rewrite logical_length; unfold fb; etransitivity; [apply (noff_le b w Hob (rs + n) (p_len b)); lia | apply (noff_last b w Hob)]).
    pose proof (mono_le fa n Ma) as MLa. pose proof (mono_le fb n Mb) as MLb.
    assert (Hslice : forall i, i < n ->
              (lslice a ka (ls + i) = lslice b kb (rs + i)
               <-> firstn (fa (S i) - fa i) (skipn (fa i) (logical ka)) = firstn (fb (S i) - fb i) (skipn (fb i) (logical kb)))).
    { intros i Hi. unfold lslice, window, fa, fb. replace (ls + S i) with (S (ls + i)) by lia. replace (rs + S i) with (S (rs + i)) by lia. tauto. }
    rewrite (off_noff a w (ls + n) Hoa ltac:(lia)), (off_noff a w ls Hoa ltac:(lia)), (off_noff b w (rs + n) Hob ltac:(lia)), (off_noff b w rs Hob ltac:(lia)).
    replace (noff a w (ls + n)) with (fa n) by reflexivity. replace (noff a w ls) with (fa 0) by (unfold fa; now rewrite Nat.add_0_r).
    replace (noff b w (rs + n)) with (fb n) by reflexivity. replace (noff b w rs) with (fb 0) by (unfold fb; now rewrite Nat.add_0_r).
    pose proof (MLa 0 n ltac:(lia) ltac:(lia)) as Ha0n. pose proof (MLb 0 n ltac:(lia) ltac:(lia)) as Hb0n.
    rewrite logical_length in La, Lb.
    destruct (Z.eqb (Z.of_nat (fa n) - Z.of_nat (fa 0%nat)) 0 && Z.eqb (Z.of_nat (fa n) - Z.of_nat (fa 0%nat)) (Z.of_nat (fb n) - Z.of_nat (fb 0%nat))) eqn:Esc.
    - (* no child values on either side *)
      apply andb_true_iff in Esc as [E1 E2]. apply Z.eqb_eq in E1, E2.
      split; [|reflexivity]. intros _ i Hi _. apply Hslice; [exact Hi|].
      pose proof (MLa 0 i ltac:(lia) ltac:(lia)). pose proof (MLa (S i) n ltac:(lia) ltac:(lia)). pose proof (Ma i Hi).
      pose proof (MLb 0 i ltac:(lia) ltac:(lia)). pose proof (MLb (S i) n ltac:(lia) ltac:(lia)). pose proof (Mb i Hi).
      replace (fa (S i) - fa i) with 0 by lia. replace (fb (S i) - fb i) with 0 by lia. reflexivity.
    - replace (count_nulls anulls ls n) with (count_nulls (p_nulls b) rs n) by (symmetry; exact (count_nulls_eq a b ls rs n Hv)).
      rewrite Nat.eqb_refl. cbn [negb].
      destruct (Nat.eqb_spec (count_nulls (p_nulls b) rs n) 0) as [Hz|Hnz].
      + (* null-free range *)
        assert (Hall : forall i, i < n -> slot_valid a (ls + i) = true).
        { intros i Hi. rewrite (Hv i Hi). exact (proj1 (count_nulls_zero_iff _ _ _) Hz i Hi). }
        pose proof (windows_eq (logical ka) (logical kb) fa fb n Ma Mb ltac:(rewrite logical_length; exact La) ltac:(rewrite logical_length; exact Lb)) as W.
        assert (Hgoal : (forall i, i < n -> slot_valid a (ls + i) = true -> lslice a ka (ls + i) = lslice b kb (rs + i))
                        <-> (forall i, i < n -> firstn (fa (S i) - fa i) (skipn (fa i) (logical ka)) = firstn (fb (S i) - fb i) (skipn (fb i) (logical kb)))).
        { split; intros H i Hi; [apply Hslice; [exact Hi | apply H; [exact Hi | exact (Hall i Hi)]] | intros _; apply Hslice; [exact Hi | now apply H]]. }
        rewrite Hgoal, <- W. clear Hgoal W.
        (* lengths_equal over the first n offsets: the first n-1 differences *)
        assert (Hle : lengths_equal (offs_range a w ls n) (offs_range b w rs n) = true
                      <-> forall i, i < n - 1 -> fa (S i) - fa i = fb (S i) - fb i).
        { rewrite lengths_equal_iff by (unfold offs_range; now rewrite !map_length, !seq_length).
          unfold offs_range. replace n with (S (n - 1)) at 1 2 by lia. rewrite !diffs_map, map_seq_ext_iff.
          split; intros H i Hi; specialize (H i Hi).
          - unfold fa, fb, noff.
            pose proof (bo_nonneg a w _ Hoa (ls + i) ltac:(lia)). pose proof (bo_nonneg a w _ Hoa (ls + S i) ltac:(lia)).
            pose proof (bo_nonneg b w _ Hob (rs + i) ltac:(lia)). pose proof (bo_nonneg b w _ Hob (rs + S i) ltac:(lia)). lia.
          - pose proof (Ma i ltac:(lia)). pose proof (Mb i ltac:(lia)). unfold fa, fb in *.
            rewrite (off_noff a w (ls + i) Hoa ltac:(lia)), (off_noff a w (ls + S i) Hoa ltac:(lia)),
                    (off_noff b w (rs + i) Hob ltac:(lia)), (off_noff b w (rs + S i) Hob ltac:(lia)). lia. }
        assert (Hdiffs : (Z.of_nat (fa n) - Z.of_nat (fa 0%nat) = Z.of_nat (fb n) - Z.of_nat (fb 0%nat))%Z ->
                         (forall i, i < n - 1 -> fa (S i) - fa i = fb (S i) - fb i) ->
                         forall i, i < n -> fa (S i) - fa i = fb (S i) - fb i).
        { intros Ht Hd i Hi. destruct (Nat.eq_dec i (n - 1)) as [->|Hne]; [|apply Hd; lia].
          pose proof (diffs_sum fa fb (n - 1) ltac:(intros; apply Ma; lia) ltac:(intros; apply Mb; lia) Hd) as Hs.
          pose proof (MLa 0 (n - 1) ltac:(lia) ltac:(lia)). pose proof (MLb 0 (n - 1) ltac:(lia) ltac:(lia)).
          pose proof (Ma (n - 1) ltac:(lia)). pose proof (Mb (n - 1) ltac:(lia)).
          replace (S (n - 1)) with n in * by lia. lia. }
        destruct (Z.eqb_spec (Z.of_nat (fa n) - Z.of_nat (fa 0%nat)) (Z.of_nat (fb n) - Z.of_nat (fb 0%nat))) as [Et|Et].
        * destruct (lengths_equal (offs_range a w ls n) (offs_range b w rs n)) eqn:El.
          -- pose proof (Hdiffs Et (proj1 Hle eq_refl)) as Hd.
             replace (Z.of_nat (fa n) - Z.of_nat (fa 0%nat))%Z with (Z.of_nat (fa n - fa 0)) by lia.
             rewrite range_nat by lia. unfold window. replace (fb n - fb 0) with (fa n - fa 0) by lia.
             split; [intros Hw; split; [exact Hd | exact Hw] | intros [_ Hw]; exact Hw].
          -- split; [discriminate|]. intros [Hd _]. assert (Hf : false = true); [|discriminate Hf]. apply Hle. intros i Hi. apply Hd. lia.
        * split; [discriminate|]. intros [Hd _]. exfalso. apply Et.
          pose proof (diffs_sum fa fb n Ma Mb Hd). lia.
      + (* per-slot loop *)
        assert (Hca : count_nulls (p_nulls a) ls n <> 0) by (rewrite (count_nulls_eq a b ls rs n Hv); exact Hnz).
        destruct anulls as [ln|] eqn:Ean; [|exfalso; apply Hca; reflexivity].
        destruct (p_nulls b) as [rn|] eqn:Ebn; [|exfalso; apply Hnz; reflexivity].
        assert (Hva : forall j, slot_valid a j = nb_valid ln j) by reflexivity.
        assert (Hvb : forall j, slot_valid b j = nb_valid rn j) by (intros; unfold slot_valid; now rewrite Ebn).
        rewrite forallb_seq_iff.
        assert (Hslot : forall i, i < n ->
                  ((if Z.eqb (off_at a w (ls + i + 1) - off_at a w (ls + i)) (off_at b w (rs + i + 1) - off_at b w (rs + i))
                    then range (off_at a w (ls + i)) (off_at b w (rs + i)) (off_at a w (ls + i + 1) - off_at a w (ls + i)) else false) = true
                   <-> lslice a ka (ls + i) = lslice b kb (rs + i))).
        { intros i Hi. rewrite (Hslice i Hi).
          replace (ls + i + 1) with (ls + S i) by lia. replace (rs + i + 1) with (rs + S i) by lia.
          rewrite (off_noff a w (ls + i) Hoa ltac:(lia)), (off_noff a w (ls + S i) Hoa ltac:(lia)), (off_noff b w (rs + i) Hob ltac:(lia)), (off_noff b w (rs + S i) Hob ltac:(lia)).
          change (noff a w (ls + i)) with (fa i). change (noff a w (ls + S i)) with (fa (S i)).
          change (noff b w (rs + i)) with (fb i). change (noff b w (rs + S i)) with (fb (S i)).
          pose proof (Ma i Hi). pose proof (Mb i Hi). pose proof (MLa (S i) n ltac:(lia) ltac:(lia)). pose proof (MLb (S i) n ltac:(lia) ltac:(lia)).
          destruct (Z.eqb_spec (Z.of_nat (fa (S i)) - Z.of_nat (fa i)) (Z.of_nat (fb (S i)) - Z.of_nat (fb i))) as [E|E].
          - replace (Z.of_nat (fa (S i)) - Z.of_nat (fa i))%Z with (Z.of_nat (fa (S i) - fa i)) by lia.
            rewrite range_nat by lia. unfold window. replace (fb (S i) - fb i) with (fa (S i) - fa i) by lia. tauto.
          - split; [discriminate|]. intros Hw. apply (f_equal (@length _)) in Hw.
            rewrite !firstn_skipn_length in Hw by (rewrite logical_length; lia). lia. }
        split; intros H i Hi; specialize (H i Hi).
        * intros Hval. cbn zeta in H. unfold is_null_at in H. rewrite <- Hva, <- Hvb, <- (Hv i Hi), Hval in H.
          cbn [negb Bool.eqb orb] in H. now apply (Hslot i Hi).
        * cbn zeta. unfold is_null_at. rewrite <- Hva, <- Hvb, <- (Hv i Hi).
          destruct (slot_valid a (ls + i)) eqn:Hval; cbn [negb Bool.eqb orb]; [|reflexivity].
          apply (Hslot i Hi). now apply H.
  Qed.
End ListEq.
