(* C11 — byte-wise lexicographic order, strong order preservation, complement (descending). *)
From Coq Require Import List Arith NArith ZArith Lia Bool.
From AV Require Import Model.C11_Row.
Import ListNotations.
Local Open Scope N_scope.

Lemma lex_refl a : lex a a = Eq.
Proof. induction a as [|p a IH]; cbn [lex]; [reflexivity|]. now rewrite N.compare_refl. Qed.

Lemma lex_opp a b : lex b a = CompOpp (lex a b).
Proof.
  revert b; induction a as [|p a IH]; intros [|q b]; cbn [lex]; try reflexivity.
  rewrite (N.compare_antisym p q). destruct (N.compare p q); cbn [CompOpp]; auto.
Qed.

Lemma lex_eq a b : lex a b = Eq -> a = b.
Proof.
  revert b; induction a as [|p a IH]; intros [|q b]; cbn [lex]; try discriminate; [reflexivity|].
  destruct (N.compare_spec p q) as [E|L|G]; try discriminate. intros H. subst q. f_equal. now apply IH.
Qed.

Lemma lex_eq_iff a b : lex a b = Eq <-> a = b.
Proof. split; [apply lex_eq | intros ->; apply lex_refl]. Qed.

Lemma lex_app_same_len a b x y : length a = length b ->
  lex (a ++ x) (b ++ y) = match lex a b with Eq => lex x y | c => c end.
Proof.
  revert b; induction a as [|p a IH]; intros [|q b] H; cbn [length] in H; try discriminate; [reflexivity|].
  cbn [app lex]. destruct (N.compare p q); [apply IH; lia | reflexivity | reflexivity].
Qed.

Lemma lex_app_same a x y : lex (a ++ x) (a ++ y) = lex x y.
Proof. rewrite lex_app_same_len by reflexivity. now rewrite lex_refl. Qed.

Lemma lex_cons_same p x y : lex (p :: x) (p :: y) = lex x y.
Proof. cbn [lex]. now rewrite N.compare_refl. Qed.

Lemma lex_cons_lt p q x y : p < q -> lex (p :: x) (q :: y) = Lt.
Proof. intros H. cbn [lex]. apply N.compare_lt_iff in H. now rewrite H. Qed.

Lemma lex_cons_gt p q x y : q < p -> lex (p :: x) (q :: y) = Gt.
Proof. intros H. cbn [lex]. apply N.compare_gt_iff in H. now rewrite H. Qed.

(* transitivity is not needed for the results below; antisymmetry and reflexivity are *)

(* ------------------------------------------------------------------ strong order preservation *)
(* An encoder e is *strong* for the comparison c on the domain P when comparing two encodings
   followed by arbitrary bytes is decided by c, and falls through to the followers exactly on Eq.
   This packs order preservation, injectivity up to c-equality, and prefix-freeness. *)
Definition strong {A} (P : A -> Prop) (e : A -> list N) (c : A -> A -> comparison) : Prop :=
  forall a b x y, P a -> P b ->
    lex (e a ++ x) (e b ++ y) = match c a b with Eq => lex x y | r => r end.

Lemma strong_nil {A} (P : A -> Prop) e c : strong P e c ->
  forall a b, P a -> P b -> lex (e a) (e b) = c a b.
Proof.
  intros H a b Pa Pb. specialize (H a b [] [] Pa Pb). rewrite !app_nil_r in H. rewrite H.
  now destruct (c a b).
Qed.

Lemma strong_eq {A} (P : A -> Prop) e c : strong P e c ->
  forall a b, P a -> P b -> c a b = Eq -> e a = e b.
Proof. intros H a b Pa Pb E. apply lex_eq. now rewrite (strong_nil P e c H a b Pa Pb). Qed.

(* equal-length encoders: order embedding suffices *)
Lemma strong_of_same_len {A} (P : A -> Prop) e c :
  (forall a b, P a -> P b -> length (e a) = length (e b)) ->
  (forall a b, P a -> P b -> lex (e a) (e b) = c a b) ->
  strong P e c.
Proof. intros Hl Hc a b x y Pa Pb. rewrite lex_app_same_len by now apply Hl. now rewrite Hc. Qed.

(* a constant prefix keeps strength *)
Lemma strong_prefix {A} (P : A -> Prop) e c (p : list N) : strong P e c -> strong P (fun a => p ++ e a) c.
Proof. intros H a b x y Pa Pb. rewrite <- !app_assoc, lex_app_same. now apply H. Qed.

(* concatenation of two strong encoders is strong for the lexicographic product *)
Lemma strong_pair {A B} (P : A -> Prop) (Q : B -> Prop) e1 c1 e2 c2 :
  strong P e1 c1 -> strong Q e2 c2 ->
  strong (fun ab : A * B => P (fst ab) /\ Q (snd ab)) (fun ab => e1 (fst ab) ++ e2 (snd ab))
         (fun x y => match c1 (fst x) (fst y) with Eq => c2 (snd x) (snd y) | r => r end).
Proof.
  intros H1 H2 [a1 a2] [b1 b2] x y [Pa Qa] [Pb Qb]. cbn [fst snd] in *.
  rewrite <- !app_assoc, (H1 a1 b1 _ _ Pa Pb). destruct (c1 a1 b1); try reflexivity. now apply H2.
Qed.

(* ------------------------------------------------------------------ complement = descending *)
Definition wf_bytes (l : list N) := Forall wf_byte l.

Lemma not8_lt p q : p < 256 -> q < 256 -> p < q -> not8 q < not8 p.
Proof. unfold not8. lia. Qed.

Lemma not8_wf p : wf_byte (not8 p).
Proof. unfold wf_byte, not8. lia. Qed.

Lemma not8_invol p : p < 256 -> not8 (not8 p) = p.
Proof. unfold not8. lia. Qed.

Lemma invert_invol l : wf_bytes l -> invert (invert l) = l.
Proof.
  induction 1 as [|p l Hp Hl IH]; [reflexivity|]. cbn [invert map]. f_equal; [now apply not8_invol | exact IH].
Qed.

Lemma invert_app a b : invert (a ++ b) = invert a ++ invert b.
Proof. apply map_app. Qed.

Lemma invert_length a : length (invert a) = length a.
Proof. apply map_length. Qed.

Lemma invert_wf l : wf_bytes (invert l).
Proof. induction l; constructor; [apply not8_wf | assumption]. Qed.

(* two byte strings *diverge* when they differ at a position inside both *)
Definition diverge (a b : list N) : Prop :=
  exists p u v ra rb, a = p ++ u :: ra /\ b = p ++ v :: rb /\ u < v.

Lemma lex_snoc_gt l z : lex (l ++ [z]) l = Gt.
Proof. induction l as [|p l IH]; [reflexivity|]. cbn [app]. now rewrite lex_cons_same. Qed.

(* if e a ++ x < e b ++ y whatever follows, then the two encodings diverge *)
Lemma always_lt_diverge a b : (forall x y, lex (a ++ x) (b ++ y) = Lt) -> diverge a b.
Proof.
  revert b; induction a as [|u a IH]; intros b H.
  - specialize (H (b ++ [0]) []). rewrite app_nil_r in H. cbn [app] in H. rewrite lex_snoc_gt in H. discriminate.
  - destruct b as [|v b].
    + specialize (H [] []). discriminate.
    + destruct (N.compare_spec u v) as [E|L|G].
      * subst v. destruct (IH b) as (p & u' & v' & ra & rb & Ea & Eb & Huv).
        { intros x y. specialize (H x y). cbn [app] in H. now rewrite lex_cons_same in H. }
        exists (u :: p), u', v', ra, rb. subst. repeat split; assumption.
      * exists [], u, v, a, b. repeat split; assumption.
      * specialize (H [] []). cbn [app] in H. rewrite lex_cons_gt in H by assumption. discriminate.
Qed.

Lemma diverge_invert a b : wf_bytes a -> wf_bytes b -> diverge a b ->
  forall x y, lex (invert a ++ x) (invert b ++ y) = Gt.
Proof.
  intros Wa Wb (p & u & v & ra & rb & -> & -> & Huv) x y.
  rewrite !invert_app, <- !app_assoc, lex_app_same. cbn [invert map app].
  apply lex_cons_gt. apply Forall_app in Wa as [_ Wa]. apply Forall_app in Wb as [_ Wb].
  inversion Wa; inversion Wb; subst. apply not8_lt; assumption.
Qed.

Lemma diverge_lt a b : diverge a b -> forall x y, lex (a ++ x) (b ++ y) = Lt.
Proof.
  intros (p & u & v & ra & rb & -> & -> & Huv) x y.
  rewrite <- !app_assoc, lex_app_same. cbn [app]. now apply lex_cons_lt.
Qed.

(* DESCENDING: the bitwise complement of a strong encoder is strong for the reversed comparison.
   (Prefix-freeness, which strength includes, is exactly what makes this sound.) *)
Theorem strong_invert {A} (P : A -> Prop) e c :
  (forall a, P a -> wf_bytes (e a)) ->
  strong P e c -> strong P (fun a => invert (e a)) (fun a b => CompOpp (c a b)).
Proof.
  intros W H a b x y Pa Pb.
  destruct (c a b) eqn:E; cbn [CompOpp].
  - rewrite (strong_eq P e c H a b Pa Pb E). apply lex_app_same.
  - apply diverge_invert; [now apply W | now apply W |].
    apply always_lt_diverge. intros x' y'. rewrite (H a b x' y' Pa Pb), E. reflexivity.
  - rewrite lex_opp.
    rewrite (diverge_invert (e b) (e a)); [reflexivity | now apply W | now apply W |].
    apply always_lt_diverge. intros x' y'. rewrite lex_opp, (H a b y' x' Pa Pb), E. reflexivity.
Qed.

Lemma strong_inv_if {A} (P : A -> Prop) e c (d : bool) :
  (forall a, P a -> wf_bytes (e a)) ->
  strong P e c -> strong P (fun a => inv_if d (e a)) (fun a b => if d then CompOpp (c a b) else c a b).
Proof. intros W H. destruct d; [now apply strong_invert | exact H]. Qed.

Lemma strong_ext {A} (P : A -> Prop) e e' c c' :
  (forall a, P a -> e a = e' a) -> (forall a b, P a -> P b -> c a b = c' a b) ->
  strong P e c -> strong P e' c'.
Proof. intros He Hc H a b x y Pa Pb. rewrite <- (He a Pa), <- (He b Pb), <- (Hc a b Pa Pb). now apply H. Qed.

Lemma strong_sub {A} (P Q : A -> Prop) e c : (forall a, Q a -> P a) -> strong P e c -> strong Q e c.
Proof. intros HS H a b x y Qa Qb. apply H; now apply HS. Qed.
