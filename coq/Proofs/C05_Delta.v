(* C05 — DELTA_BINARY_PACKED: the block / mini-block decoder inverts the encoder, including wrapping
   deltas (i32/i64 MIN/MAX), bit-width-0 mini blocks (constant and arithmetic-progression fast paths)
   and the zero-padded last mini block. *)
From Coq Require Import List NArith ZArith Arith Lia Bool ZifyN ZifyNat ZifyBool.
From AV Require Import Base.ListX Model.C05_Enc Proofs.C05_Bits Proofs.C05_Wrap.
Import ListNotations.
Ltac Zify.zify_post_hook ::= Z.div_mod_to_equations.

(* ---- fold min / max ---- *)
Lemma fold_max_spec : forall l d, (d <= fold_left Z.max l d)%Z /\ (forall x, In x l -> (x <= fold_left Z.max l d)%Z) /\
  In (fold_left Z.max l d) (d :: l).
Proof.
  induction l as [|y l IH]; intros d; cbn [fold_left].
  - repeat split; [lia|intros x []|left; reflexivity].
  - destruct (IH (Z.max d y)) as (A & B & C). repeat split.
    + lia.
    + intros x [<-|Hx]; [lia|apply B, Hx].
    + destruct C as [C|C]; [|right; right; exact C].
      rewrite <- C. destruct (Z.max_spec d y) as [[_ E]|[_ E]]; rewrite E; [right; left|left]; reflexivity.
Qed.

Lemma fold_min_spec : forall l d, (fold_left Z.min l d <= d)%Z /\ (forall x, In x l -> (fold_left Z.min l d <= x)%Z) /\
  In (fold_left Z.min l d) (d :: l).
Proof.
  induction l as [|y l IH]; intros d; cbn [fold_left].
  - repeat split; [lia|intros x []|left; reflexivity].
  - destruct (IH (Z.min d y)) as (A & B & C). repeat split.
    + lia.
    + intros x [<-|Hx]; [lia|apply B, Hx].
    + destruct C as [C|C]; [|right; right; exact C].
      rewrite <- C. destruct (Z.min_spec d y) as [[_ E]|[_ E]]; rewrite E; [left|right; left]; reflexivity.
Qed.

Lemma nbits_gt x : (x < 2^N.of_nat (nbits x))%N.
Proof. unfold nbits. rewrite N2Nat.id. apply N.size_gt. Qed.

Lemma nbits_le x k : (x < 2^k)%N -> (N.of_nat (nbits x) <= k)%N.
Proof.
  intros H. unfold nbits. rewrite N2Nat.id.
  destruct (N.eq_dec x 0) as [->|Hx]; [cbn; lia|].
  pose proof (N.size_le x) as Hs. rewrite N.succ_double_spec in Hs.
  assert (Hlt : (2^N.size x < 2^N.succ k)%N) by (rewrite N.pow_succ_r'; lia).
  apply N.pow_lt_mono_r_iff in Hlt; lia.
Qed.

Lemma take_bytes_app a rest : take_bytes (length a) (a ++ rest) = Some (a, rest).
Proof.
  unfold take_bytes. rewrite app_length. destruct (Nat.ltb_spec (length a + length rest) (length a)); [lia|].
  rewrite firstn_app, Nat.sub_diag, firstn_O, app_nil_r, firstn_all.
  rewrite skipn_app, Nat.sub_diag, skipn_O, skipn_all. reflexivity.
Qed.

Lemma in_range_i64 tw z : (0 < tw)%N -> (tw <= 64)%N -> in_range tw z -> (- 2^63 <= z < 2^63)%Z.
Proof.
  unfold in_range, Hz. intros Hp Hl H.
  assert (Hpw : (2^(tw - 1) <= 2^63)%N) by (apply N.pow_le_mono_r; lia).
  change (2^63)%Z with (Z.of_N (2^63)). lia.
Qed.

Lemma enc_minis_cons j tw mini minv d0 ds' :
  enc_minis (S j) tw mini minv (d0 :: ds') =
  let ds := d0 :: ds' in
  let c := firstn mini ds in
  let w := nbits (to_unsigned tw (zmax_list d0 c - minv)) in
  let packed := map (fun d => to_unsigned tw (d - minv)) c ++ repeat 0%N (mini - length c) in
  let '(ws, bs) := enc_minis j tw mini minv (skipn mini ds) in
  (N.of_nat w :: ws, bits_bytes (mini * w / 8) (pack w packed) ++ bs).
Proof. reflexivity. Qed.

Lemma dec_minis_cons tw vpm minv wN ws' last remaining bs :
  dec_minis tw vpm minv (wN :: ws') last remaining bs =
  if (remaining =? 0)%nat then Some ([], last, bs)
  else
    let w := N.to_nat wN in
    if (N.to_nat tw <? w)%nat then None else
    match take_bytes (w * vpm / 8) bs with
    | None => None
    | Some (payload, rest) =>
      let k := Nat.min vpm remaining in
      let vals := dec_mini tw w k minv last payload in
      let last' := List.last vals last in
      match dec_minis tw vpm minv ws' last' (remaining - k) rest with
      | None => None
      | Some (more, l, r) => Some (vals ++ more, l, r)
      end
    end.
Proof. reflexivity. Qed.

Lemma dec_blocks_S fuel tw mpb vpm last remaining bs :
  dec_blocks (S fuel) tw mpb vpm last remaining bs =
  if (remaining =? 0)%nat then Some ([], bs) else
  match zz_vlq_dec bs with
  | None => None
  | Some (minv, r1) =>
    if negb (Z.eqb (wrap_s tw minv) minv) then None else
    match take_bytes mpb r1 with
    | None => None
    | Some (ws, r2) =>
      match dec_minis tw vpm minv ws last remaining r2 with
      | None => None
      | Some (vals, last', r3) =>
        match dec_blocks fuel tw mpb vpm last' (remaining - length vals) r3 with
        | None => None
        | Some (more, r4) => Some (vals ++ more, r4)
        end
      end
    end
  end.
Proof. reflexivity. Qed.

Lemma enc_blocks_S fuel tw mini ds : ds <> [] ->
  enc_blocks (S fuel) tw mini ds = enc_block tw mini (firstn (4 * mini) ds) ++ enc_blocks fuel tw mini (skipn (4 * mini) ds).
Proof. destruct ds; [contradiction|reflexivity]. Qed.

Section D.
Variable tw : N.
Hypothesis tw_pos : (0 < tw)%N.
Hypothesis tw_le : (tw <= 64)%N.
Variable m8 : nat.
Hypothesis m8_pos : (0 < m8)%nat.
Variable mini : nat.
Hypothesis mini_eq : mini = (8 * m8)%nat.
Notation in_range := (in_range tw).
Notation recon := (recon tw).

(* ---- the arithmetic of one packed delta ---- *)
Lemma prefix_sums_recon minv : in_range minv -> forall ds last, Forall in_range ds -> Forall (fun d => (minv <= d)%Z) ds ->
  prefix_sums tw last minv (map (fun d => to_unsigned tw (d - minv)) ds) = recon last ds.
Proof.
  intros Hm. induction ds as [|d ds IH]; intros last Hr Hge; [reflexivity|].
  inversion Hr; inversion Hge; subst. cbn [map prefix_sums C05_Wrap.recon].
  destruct (to_unsigned_diff tw tw_pos d minv) as [E _]; try assumption.
  rewrite E. rewrite wrap_s_add_l by exact tw_pos.
  replace (d - minv + minv + last)%Z with (last + d)%Z by lia.
  f_equal. apply IH; assumption.
Qed.

Lemma progression_recon minv : forall n last delta x0, (exists q, x0 = last + delta - minv + q * Mz tw)%Z ->
  progression tw last delta minv n = recon x0 (repeat minv n).
Proof.
  induction n as [|n IH]; intros last delta x0 (q & E); [reflexivity|].
  cbn [progression repeat C05_Wrap.recon].
  assert (Eh : wrap_s tw (last + delta) = wrap_s tw (x0 + minv)).
  { symmetry. apply (wrap_s_eq tw tw_pos _ _ q). lia. }
  rewrite Eh. f_equal. apply IH.
  destruct (wrap_s_cong tw tw_pos (x0 + minv)) as (q1 & E1). destruct (wrap_s_cong tw tw_pos (delta + minv)) as (q2 & E2).
  exists (q1 + q - q2)%Z. lia.
Qed.

Lemma recon_zero : forall n last, in_range last -> recon last (repeat 0%Z n) = repeat last n.
Proof.
  induction n as [|n IH]; intros last Hl; [reflexivity|].
  cbn [repeat C05_Wrap.recon]. rewrite Z.add_0_r, wrap_s_id by assumption. f_equal. apply IH, Hl.
Qed.

(* ---- one mini block ---- *)
Lemma mini_block c d0 minv last rest :
  In d0 c -> (length c <= mini)%nat -> Forall in_range c -> in_range minv -> Forall (fun d => (minv <= d)%Z) c -> in_range last ->
  let maxv := zmax_list d0 c in
  let w := nbits (to_unsigned tw (maxv - minv)) in
  let packed := map (fun d => to_unsigned tw (d - minv)) c ++ repeat 0%N (mini - length c) in
  let payload := bits_bytes (mini * w / 8) (pack w packed) in
  (w <= N.to_nat tw)%nat /\ take_bytes (w * mini / 8) (payload ++ rest) = Some (payload, rest) /\
  dec_mini tw w (length c) minv last payload = recon last c.
Proof.
  intros Hd0 Hlen Hr Hm Hge Hl maxv w packed payload.
  destruct (fold_max_spec c d0) as (Mx1 & Mx2 & Mx3). fold (zmax_list d0 c) in Mx1, Mx2, Mx3. fold maxv in Mx1, Mx2, Mx3.
  assert (Hmaxr : in_range maxv).
  { rewrite Forall_forall in Hr. destruct Mx3 as [<-|Hin]; apply Hr; assumption. }
  assert (Hmaxge : (minv <= maxv)%Z). { rewrite Forall_forall in Hge. pose proof (Hge d0 Hd0). lia. }
  destruct (to_unsigned_diff tw tw_pos maxv minv Hmaxr Hm Hmaxge) as [EX HX].
  set (X := to_unsigned tw (maxv - minv)) in *.
  assert (Hw : (w <= N.to_nat tw)%nat). { pose proof (nbits_le X tw HX). unfold w. lia. }
  assert (Hpb : Forall (fun v => (v < 2^N.of_nat w)%N) packed).
  { unfold packed. apply Forall_app; split.
    - apply Forall_forall. intros p Hp. apply in_map_iff in Hp. destruct Hp as (d & <- & Hd).
      rewrite Forall_forall in Hr, Hge.
      destruct (to_unsigned_diff tw tw_pos d minv (Hr d Hd) Hm (Hge d Hd)) as [Ed _].
      pose proof (Mx2 d Hd). pose proof (nbits_gt X). fold w in H0. lia.
    - apply Forall_forall. intros p Hp. apply repeat_spec in Hp. subst p. apply N.neq_0_lt_0, N.pow_nonzero. lia. }
  assert (Hplen : length packed = mini). { unfold packed. rewrite app_length, map_length, repeat_length. lia. }
  assert (Hbytes : (mini * w / 8 = m8 * w)%nat).
  { replace (mini * w)%nat with ((m8 * w) * 8)%nat by lia. apply Nat.div_mul. lia. }
  assert (Hpaylen : length payload = (w * mini / 8)%nat).
  { unfold payload. rewrite bits_bytes_length. f_equal. lia. }
  split; [exact Hw|]. split.
  - rewrite <- Hpaylen. apply take_bytes_app.
  - assert (Hbits : bytes_bits payload = pack w packed).
    { unfold payload. rewrite Hbytes. apply bytes_bits_bits_bytes. rewrite pack_length, Hplen. lia. }
    unfold dec_mini. destruct (Nat.eqb_spec w 0) as [Hw0|Hw0].
    + (* every delta of the mini block equals min_delta *)
      assert (Hall : c = repeat minv (length c)).
      { apply Forall_eq_repeat. rewrite Forall_forall in Hr, Hge |- *. intros d Hd.
        destruct (to_unsigned_diff tw tw_pos d minv (Hr d Hd) Hm (Hge d Hd)) as [Ed _].
        pose proof (Mx2 d Hd). pose proof (nbits_gt X). fold w in H0. rewrite Hw0 in H0. cbn in H0. pose proof (Hge d Hd). lia. }
      transitivity (recon last (repeat minv (length c))); [|rewrite <- Hall; reflexivity].
      destruct (Z.eqb_spec minv 0) as [->|Hm0].
      * symmetry. apply recon_zero, Hl.
      * apply progression_recon. exists 0%Z. lia.
    + rewrite Hbits. rewrite <- (app_nil_r (pack w packed)).
      rewrite unpack_firstn by (try exact Hpb; lia).
      unfold packed. rewrite firstn_app, map_length, Nat.sub_diag, firstn_O, app_nil_r.
      rewrite firstn_all2 by (rewrite map_length; lia).
      apply prefix_sums_recon; assumption.
Qed.

(* ---- the mini blocks of one block ---- *)
Lemma last_app_default {A} : forall (a b : list A) d, List.last (a ++ b) d = List.last b (List.last a d).
Proof.
  induction a as [|x a IH]; intros b d; [reflexivity|].
  change ((x :: a) ++ b) with (x :: (a ++ b)). rewrite !last_cons. apply IH.
Qed.

Lemma minis_ok : forall j ds minv last remaining rest ws bs,
  enc_minis j tw mini minv ds = (ws, bs) ->
  length ds = Nat.min (j * mini) remaining ->
  Forall in_range ds -> in_range minv -> Forall (fun d => (minv <= d)%Z) ds -> in_range last ->
  length ws = j /\ Forall (fun b => (b < 256)%N) ws /\
  dec_minis tw mini minv ws last remaining (bs ++ rest) = Some (recon last ds, List.last (recon last ds) last, rest).
Proof.
  induction j as [|j IH]; intros ds minv last remaining rest ws bs Henc Hlen Hr Hm Hge Hl.
  - cbn in Henc. injection Henc as <- <-. cbn in Hlen. destruct ds; [|discriminate].
    split; [reflexivity|]. split; [constructor|]. reflexivity.
  - destruct ds as [|d0 ds'].
    + cbn [enc_minis] in Henc. injection Henc as <- <-. cbn [length] in Hlen.
      assert (remaining = 0)%nat by lia. subst remaining.
      change (0%N :: repeat 0%N j) with (repeat 0%N (S j)).
      split; [apply repeat_length|]. split; [apply Forall_forall; intros b Hb; apply repeat_spec in Hb; subst b; lia|].
      cbn [repeat dec_minis Nat.eqb app C05_Wrap.recon List.last]. reflexivity.
    + rewrite enc_minis_cons in Henc. cbv zeta in Henc.
      set (ds := d0 :: ds') in *.
      set (c := firstn mini ds) in *.
      destruct (enc_minis j tw mini minv (skipn mini ds)) as [ws' bs'] eqn:Erec.
      apply pair_equal_spec in Henc. destruct Henc as [<- <-].
      assert (Hd0 : In d0 c).
      { unfold c, ds. replace mini with (S (mini - 1)) by lia. cbn [firstn]. left. reflexivity. }
      assert (Hclen : length c = Nat.min mini (length ds)) by (unfold c; apply firstn_length).
      assert (Hcr : Forall in_range c) by (apply Forall_firstn', Hr).
      assert (Hcge : Forall (fun d => (minv <= d)%Z) c) by (apply Forall_firstn', Hge).
      rewrite Nat.mul_succ_l in Hlen.
      assert (Hrem : remaining <> 0%nat) by (unfold ds in Hlen; cbn [length] in Hlen; lia).
      assert (Hk : Nat.min mini remaining = length c) by lia.
      pose proof (mini_block c d0 minv last (bs' ++ rest) Hd0 ltac:(lia) Hcr Hm Hcge Hl) as MB. cbv zeta in MB.
      destruct MB as (Hw & Htake & Hdec).
      set (w := nbits (to_unsigned tw (zmax_list d0 c - minv))) in *.
      set (payload := bits_bytes (mini * w / 8) (pack w (map (fun d => to_unsigned tw (d - minv)) c ++ repeat 0%N (mini - length c)))) in *.
      set (last' := List.last (recon last c) last).
      assert (Hl' : in_range last') by (apply last_in_range; [apply recon_range, tw_pos|exact Hl]).
      destruct (IH (skipn mini ds) minv last' (remaining - length c)%nat rest ws' bs' Erec) as (Hwl & Hwb & Hrec); try assumption.
      * rewrite skipn_length. lia.
      * apply Forall_skipn', Hr.
      * apply Forall_skipn', Hge.
      * split; [cbn [length]; lia|]. split; [constructor; [lia|exact Hwb]|].
        rewrite dec_minis_cons. cbv zeta. destruct (Nat.eqb_spec remaining 0); [contradiction|].
        rewrite Nat2N.id. destruct (Nat.ltb_spec (N.to_nat tw) w); [lia|].
        rewrite <- app_assoc. rewrite Htake. rewrite Hk, Hdec. fold last'. rewrite Hrec.
        assert (Eds : ds = c ++ skipn mini ds) by (symmetry; apply firstn_skipn).
        rewrite Eds at 3 4. rewrite recon_app. fold last'. rewrite last_app_default. fold last'. reflexivity.
Qed.

(* ---- one block ---- *)
Lemma block_ok ds last remaining rest :
  ds <> [] -> length ds = Nat.min (4 * mini) remaining -> Forall in_range ds -> in_range last ->
  exists minv ws bs, enc_block tw mini ds = zz_vlq minv ++ ws ++ bs /\ in_range minv /\ length ws = 4%nat /\
    dec_minis tw mini minv ws last remaining (bs ++ rest) = Some (recon last ds, List.last (recon last ds) last, rest).
Proof.
  intros Hne Hlen Hr Hl. destruct ds as [|d0 ds']; [contradiction|].
  unfold enc_block. set (ds := d0 :: ds') in *. set (minv := zmin_list d0 ds).
  destruct (enc_minis 4 tw mini minv ds) as [ws bs] eqn:E.
  destruct (fold_min_spec ds d0) as (A & B & C). fold (zmin_list d0 ds) in A, B, C. fold minv in A, B, C.
  assert (Hm : in_range minv).
  { rewrite Forall_forall in Hr. destruct C as [<-|C]; apply Hr; [left; reflexivity|exact C]. }
  assert (Hge : Forall (fun d => (minv <= d)%Z) ds) by (apply Forall_forall; exact B).
  destruct (minis_ok 4 ds minv last remaining rest ws bs E Hlen Hr Hm Hge Hl) as (Hwl & _ & Hdec).
  exists minv, ws, bs. auto.
Qed.

(* ---- all blocks ---- *)
Lemma blocks_ok : forall fuel ds last rest fuel',
  (length ds <= fuel)%nat -> (length ds <= fuel')%nat -> Forall in_range ds -> in_range last ->
  dec_blocks fuel' tw 4 mini last (length ds) (enc_blocks fuel tw mini ds ++ rest) = Some (recon last ds, rest).
Proof.
  induction fuel as [|fuel IH]; intros ds last rest fuel' Hf Hf' Hr Hl.
  - assert (ds = []) by (destruct ds; [reflexivity|cbn in Hf; lia]). subst ds.
    destruct fuel'; reflexivity.
  - destruct ds as [|d0 ds'] eqn:Eds.
    + destruct fuel'; reflexivity.
    + rewrite <- Eds in *. assert (Hne : ds <> []) by (rewrite Eds; discriminate).
      assert (Hlpos : (1 <= length ds)%nat) by (rewrite Eds; cbn; lia).
      destruct fuel' as [|fuel']; [lia|].
      rewrite enc_blocks_S by exact Hne.
      set (b := firstn (4 * mini) ds). set (tl := skipn (4 * mini) ds).
      assert (Hbne : b <> []). { unfold b. rewrite Eds. replace (4 * mini)%nat with (S (4 * mini - 1)) by lia. discriminate. }
      assert (Hblen : length b = Nat.min (4 * mini) (length ds)) by apply firstn_length.
      destruct (block_ok b last (length ds) (enc_blocks fuel tw mini tl ++ rest) Hbne Hblen (Forall_firstn' _ _ _ Hr) Hl)
        as (minv & ws & bs & Eb & Hm & Hwl & Hdec).
      rewrite Eb. rewrite dec_blocks_S. destruct (Nat.eqb_spec (length ds) 0); [lia|].
      rewrite <- !app_assoc. rewrite zz_vlq_roundtrip by (apply (in_range_i64 tw _ tw_pos tw_le), Hm).
      rewrite wrap_s_id by assumption. rewrite Z.eqb_refl. cbn [negb].
      assert (Ht : take_bytes 4 (ws ++ bs ++ enc_blocks fuel tw mini tl ++ rest) = Some (ws, bs ++ enc_blocks fuel tw mini tl ++ rest))
        by (rewrite <- Hwl; apply take_bytes_app).
      rewrite Ht, Hdec.
      assert (Htl : length tl = (length ds - length (recon last b))%nat).
      { unfold tl. rewrite skipn_length, recon_length. lia. }
      rewrite <- Htl.
      set (last' := List.last (recon last b) last).
      rewrite IH.
      * f_equal. f_equal. assert (E : ds = b ++ tl) by (symmetry; apply firstn_skipn).
        transitivity (recon last (b ++ tl)); [rewrite recon_app; reflexivity|rewrite <- E; reflexivity].
      * unfold tl. rewrite skipn_length. lia.
      * unfold tl. rewrite skipn_length. lia.
      * apply Forall_skipn', Hr.
      * apply last_in_range; [apply recon_range, tw_pos|exact Hl].
Qed.

End D.

(* ---- the whole page, for the two instantiations the encoder uses: INT32 (32-value mini blocks) and INT64 (64) ---- *)
Theorem delta_bp_roundtrip tw vs rest :
  tw = 32%N \/ tw = 64%N ->
  Forall (in_range tw) vs -> (N.of_nat (length vs) < 2^64)%N ->
  delta_decode tw (delta_encode tw vs ++ rest) = Some (vs, rest).
Proof.
  intros Htw Hr Hn.
  assert (Hpos : (0 < tw)%N) by (destruct Htw; subst; lia).
  assert (Hle : (tw <= 64)%N) by (destruct Htw; subst; lia).
  assert (Hm8 : exists m8, (0 < m8)%nat /\ N.to_nat tw = (8 * m8)%nat).
  { destruct Htw; subst; [exists 4%nat|exists 8%nat]; split; try lia; reflexivity. }
  destruct Hm8 as (m8 & Hm8 & Emini).
  unfold delta_encode, delta_decode.
  set (mini := N.to_nat tw) in *.
  assert (Hhdr : forall first body, in_range tw first ->
    match vlq_dec ((vlq (N.of_nat (4 * mini)) ++ vlq 4 ++ vlq (N.of_nat (length vs)) ++ zz_vlq first) ++ body) 0 0 with
    | None => None
    | Some (block_size, r1) =>
      match vlq_dec r1 0 0 with None => None | Some (mpb, r2) =>
      if (mpb =? 0)%N then None else
      match vlq_dec r2 0 0 with None => None | Some (total, r3) =>
      match zz_vlq_dec r3 with None => None | Some (first', r4) =>
      Some (block_size, mpb, total, first', r4) end end end end
    = Some (N.of_nat (4 * mini), 4%N, N.of_nat (length vs), first, body)).
  { intros first body Hf. rewrite <- !app_assoc.
    rewrite vlq_roundtrip by (change (2^64)%N with 18446744073709551616%N; lia).
    rewrite vlq_roundtrip by reflexivity. cbn [N.eqb Pos.eqb].
    rewrite vlq_roundtrip by exact Hn.
    rewrite zz_vlq_roundtrip by (apply (in_range_i64 tw _ Hpos Hle), Hf). reflexivity. }
  assert (Hbs : (N.of_nat (4 * mini) mod 128 =? 0)%N = true /\ (N.of_nat (4 * mini) mod 4 =? 0)%N = true /\
                (N.of_nat (4 * mini) / 4)%N = N.of_nat mini /\ (N.of_nat mini mod 32 =? 0)%N = true).
  { unfold mini. destruct Htw; subst; repeat split; reflexivity. }
  destruct Hbs as (B1 & B2 & B3 & B4).
  destruct vs as [|v0 vs'].
  - (* empty page: header only *)
    assert (H0 : in_range tw 0%Z). { unfold in_range. pose proof (H_pos tw Hpos). lia. }
    specialize (Hhdr 0%Z rest H0).
    destruct (vlq_dec _ 0 0) as [[bsz r1]|]; [|discriminate].
    destruct (vlq_dec r1 0 0) as [[mpb r2]|]; [|discriminate].
    destruct (mpb =? 0)%N; [discriminate|].
    destruct (vlq_dec r2 0 0) as [[total r3]|]; [|discriminate].
    destruct (zz_vlq_dec r3) as [[first' r4]|]; [|discriminate].
    injection Hhdr as -> -> -> -> ->. change (mini + (mini + (mini + (mini + 0))))%nat with (4 * mini)%nat.
    rewrite wrap_s_id by assumption. cbn [Z.eqb negb]. rewrite B1, B2, B3, B4. cbn [negb length N.of_nat N.eqb]. reflexivity.
  - inversion Hr as [|? ? Hv0 Hvs]; subst.
    remember (length (v0 :: vs')) as n eqn:En.
    assert (Hn1 : n = S (length vs')) by (rewrite En; reflexivity). clear En.
    specialize (Hhdr v0 (enc_blocks n tw mini (deltas_of tw v0 vs') ++ rest) Hv0).
    rewrite <- app_assoc.
    destruct (vlq_dec _ 0 0) as [[bsz r1]|]; [|discriminate].
    destruct (vlq_dec r1 0 0) as [[mpb r2]|]; [|discriminate].
    destruct (mpb =? 0)%N; [discriminate|].
    destruct (vlq_dec r2 0 0) as [[total r3]|]; [|discriminate].
    destruct (zz_vlq_dec r3) as [[first' r4]|]; [|discriminate].
    injection Hhdr as -> -> -> -> ->. change (mini + (mini + (mini + (mini + 0))))%nat with (4 * mini)%nat.
    rewrite wrap_s_id by assumption. rewrite Z.eqb_refl. cbn [negb]. rewrite B1, B2, B3, B4. cbn [negb].
    destruct (N.eqb_spec (N.of_nat n) 0) as [E0|_]; [lia|].
    rewrite !Nat2N.id.
    replace (n - 1)%nat with (length (deltas_of tw v0 vs')) by (rewrite deltas_length; lia).
    change (N.to_nat 4) with 4%nat.
    rewrite (blocks_ok tw Hpos Hle m8 Hm8 mini Emini).
    + rewrite recon_deltas by assumption. reflexivity.
    + rewrite deltas_length. lia.
    + rewrite deltas_length. lia.
    + apply deltas_in_range, Hpos.
    + exact Hv0.
Qed.
