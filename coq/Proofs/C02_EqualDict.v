(* C02 — arrow-data's dictionary_equal compares dictionaries THROUGH their keys: permuted, duplicated
   and unused dictionary entries do not matter.  Compositional: IF comparing the value arrays on one-slot
   ranges decides equality of the denoted values, THEN dictionary_equal (both paths) holds exactly when
   every valid slot denotes the same value on both sides. *)
From Coq Require Import List Arith NArith ZArith Bool Lia.
From AV Require Import Base.ListX Base.Bits Base.Bytes Model.C19_Bits Model.C09_Layout Model.C02_Logical Model.C02_Equal.
From AV Require Import Proofs.C02_EqualNulls Proofs.C02_EqualPrim.
Import ListNotations.

Section DictEq.
  Variables (kw : nat) (signed : bool) (v : dty).
  Variables (alen aoff : nat) (anulls : option nullbuf) (abufs : list (list N)) (ka : parr) (akids : list parr).
  Variables (b kb : parr) (bkids : list parr).
  Let a := PArr (TDict kw signed v) alen aoff anulls abufs (ka :: akids).
  Hypothesis Hkb : p_kids b = kb :: bkids.
  (* the value comparison on one slot *)
  Hypothesis child_ok : forall s1 s2, s1 < p_len ka -> s2 < p_len kb ->
    (equal_nulls ka kb s1 s2 1 && equal_values ka kb s1 s2 1 = true <-> logical_at ka s1 = logical_at kb s2).

  Definition dkey (x : parr) (i : nat) : Z := key_at (buf x 0) kw signed (p_off x + i).
  Definition keys_ok (x kx : parr) (s n : nat) : Prop :=
    forall i, i < n -> slot_valid x (s + i) = true -> (0 <= dkey x (s + i) < Z.of_nat (p_len kx))%Z.

  Let one (ls rs i : nat) : bool :=
    let lk := key_at (buf a 0) kw signed (aoff + ls + i) in
    let rk := key_at (buf b 0) kw signed (p_off b + rs + i) in
    if (0 <=? lk)%Z then if (0 <=? rk)%Z then
      if (lk <? Z.of_nat (p_len ka))%Z then if (rk <? Z.of_nat (p_len kb))%Z then
        equal_nulls ka kb (Z.to_nat lk) (Z.to_nat rk) 1 && equal_values ka kb (Z.to_nat lk) (Z.to_nat rk) 1
      else false else false else false else false.

  Lemma one_iff ls rs i :
    (0 <= dkey a (ls + i) < Z.of_nat (p_len ka))%Z -> (0 <= dkey b (rs + i) < Z.of_nat (p_len kb))%Z ->
    (one ls rs i = true <-> logical_at ka (Z.to_nat (dkey a (ls + i))) = logical_at kb (Z.to_nat (dkey b (rs + i)))).
  Proof.
    intros Ha Hb. unfold one. unfold dkey in *. cbn [p_off a] in *. unfold a in Ha. cbn [p_off buf p_bufs] in Ha.
    replace (aoff + ls + i) with (aoff + (ls + i)) by lia. replace (p_off b + rs + i) with (p_off b + (rs + i)) by lia.
    change (buf a 0) with (nth 0 abufs []).
    change (buf (PArr (TDict kw signed v) alen aoff anulls abufs (ka :: akids)) 0) with (nth 0 abufs []) in Ha.
    set (lk := key_at (nth 0 abufs []) kw signed (aoff + (ls + i))) in *.
    set (rk := key_at (buf b 0) kw signed (p_off b + (rs + i))) in *.
    destruct (Z.leb_spec 0 lk); [|lia]. destruct (Z.leb_spec 0 rk); [|lia].
    destruct (Z.ltb_spec lk (Z.of_nat (p_len ka))); [|lia]. destruct (Z.ltb_spec rk (Z.of_nat (p_len kb))); [|lia].
    apply child_ok; lia.
  Qed.

  Lemma equal_values_dict_unfold ls rs n :
    equal_values a b ls rs n =
    if negb (contains_nulls anulls ls n) then forallb (one ls rs) (seq 0 n)
    else match anulls, p_nulls b with
         | Some ln, Some rn =>
             forallb (fun i => let lnull := is_null_at ln (ls + i) in let rnull := is_null_at rn (rs + i) in
                               lnull || (Bool.eqb lnull rnull && one ls rs i)) (seq 0 n)
         | _, _ => false
         end.
  Proof. unfold a. cbn [equal_values]. rewrite Hkb. reflexivity. Qed.

  Theorem dictionary_equal_iff ls rs n :
    keys_ok a ka ls n -> keys_ok b kb rs n ->
    (forall i, i < n -> slot_valid a (ls + i) = slot_valid b (rs + i)) ->
    (equal_values a b ls rs n = true
     <-> forall i, i < n -> slot_valid a (ls + i) = true ->
           logical_at ka (Z.to_nat (dkey a (ls + i))) = logical_at kb (Z.to_nat (dkey b (rs + i)))).
  Proof.
    intros Hka Hkbb Hv. rewrite equal_values_dict_unfold.
    assert (Hone : forall i, i < n -> slot_valid a (ls + i) = true ->
              (one ls rs i = true <-> logical_at ka (Z.to_nat (dkey a (ls + i))) = logical_at kb (Z.to_nat (dkey b (rs + i))))).
    { intros i Hi Hval. apply one_iff; [apply (Hka i Hi Hval) | apply (Hkbb i Hi); rewrite <- (Hv i Hi); exact Hval]. }
    destruct (contains_nulls anulls ls n) eqn:Ec; cbn [negb].
    - assert (Hex : ~ (forall i, i < n -> valid_in anulls (ls + i) = true))
        by (intros H; apply contains_nulls_false_iff in H; congruence).
      destruct anulls as [ln|] eqn:Ean; [|exfalso; apply Hex; intros; reflexivity].
      destruct (p_nulls b) as [rn|] eqn:Ebn.
      2:{ exfalso. apply Hex. intros i Hi. specialize (Hv i Hi). unfold slot_valid in Hv. rewrite Ebn in Hv. exact Hv. }
      assert (Hva : forall j, slot_valid a j = nb_valid ln j) by reflexivity.
      assert (Hvb : forall j, slot_valid b j = nb_valid rn j) by (intros; unfold slot_valid; now rewrite Ebn).
      rewrite forallb_seq_iff. split; intros H i Hi; specialize (H i Hi).
      + intros Hval. cbn zeta in H. unfold is_null_at in H. rewrite <- Hva, <- Hvb, <- (Hv i Hi), Hval in H.
        cbn [negb orb Bool.eqb andb] in H. now apply (Hone i Hi Hval).
      + cbn zeta. unfold is_null_at. rewrite <- Hva, <- Hvb, <- (Hv i Hi).
        destruct (slot_valid a (ls + i)) eqn:Hval; cbn [negb orb Bool.eqb andb]; [|reflexivity].
        apply (Hone i Hi Hval). now apply H.
    - pose proof (proj1 (contains_nulls_false_iff _ _ _) Ec) as Hall.
      rewrite forallb_seq_iff. split; intros H i Hi; specialize (H i Hi).
      + intros Hval. now apply (Hone i Hi Hval).
      + apply (Hone i Hi (Hall i Hi)). apply H. exact (Hall i Hi).
  Qed.
End DictEq.
