(* C09: per-type node lemmas — node_ok (transcribed arrow-rs validator) implies spec_node && spec_nullability. *)
From Coq Require Import List Arith NArith ZArith Lia Bool ZifyN ZifyNat ZifyBool.
From AV Require Import Base.ListX Base.Bytes Model.C19_Bits Model.C09_Layout Model.C09_Validate Proofs.C09_Tree Proofs.C09_Accept.
Import ListNotations.
Ltac Zify.zify_post_hook ::= Z.div_mod_to_equations.

Ltac start :=
  intros a Hp H; subst a; unfold node_ok in H; split_andb;
  unfold node_validate in *; cbn [p_ty p_len p_off p_nulls p_bufs p_kids layout_of] in *;
  match goal with H : match checked_add ?x ?y with _ => _ end = true |- _ =>
    destruct (checked_add x y) as [lpo|] eqn:Elpo; [|discriminate] end;
  split_andb.

Ltac usize_goal Elpo := apply N.leb_le; apply checked_add_some in Elpo; lia.


Lemma node_nulls_counts a : node_nulls a = true ->
  match p_nulls a with None => true | Some nb => Nat.eqb (count_false (nb_bits nb)) (nb_count nb) end = true.
Proof. unfold node_nulls. intros H. split_andb. assumption. Qed.

Ltac nulls_goal :=
  match goal with
  | Elpo : checked_add _ _ = Some ?lpo, Hn : node_nulls ?a = true |- spec_nulls ?a = true =>
      apply (spec_nulls_of_impl a lpo); [exact Elpo | cbn [p_nulls p_len]; assumption | exact (node_nulls_counts a Hn)]
  end.

Ltac open_spec :=
  unfold spec_node, spec_nullability, validate_child_data, num_children, child_ok in *;
  cbn [p_ty p_len p_off p_nulls p_bufs p_kids] in *; split_andb.

Ltac conj := repeat (apply andb_true_iff; split).

Lemma phys_buf0 ty len off nulls b0 rest kids :
  phys (PArr ty len off nulls (b0 :: rest) kids) = true -> (blen b0 < usize_max)%N.
Proof. unfold phys. cbn [p_bufs forallb]. intros H. split_andb. apply N.ltb_lt. assumption. Qed.

Lemma acc_TNull len off nulls bufs kids :
  let a := PArr TNull len off nulls bufs kids in
  phys a = true -> node_ok a = true -> spec_node a && spec_nullability a = true.
Proof.
  start. cbn [length orb] in *. open_spec.
  destruct nulls; [discriminate|].
  conj; try reflexivity; try assumption; try (usize_goal Elpo).
Qed.

Lemma acc_TBool len off nulls bufs kids :
  let a := PArr TBool len off nulls bufs kids in
  phys a = true -> node_ok a = true -> spec_node a && spec_nullability a = true.
Proof.
  start. cbn [length orb] in *. open_spec.
  match goal with H : (length bufs =? 1)%nat = true |- _ =>
    pose proof H as Hl; apply Nat.eqb_eq in Hl; destruct (length1 _ Hl) as [b0 ->] end.
  unfold buf; cbn [p_bufs nth List.combine forallb fst snd andb] in *.
  conj; try reflexivity; try assumption; try (usize_goal Elpo); try nulls_goal.
  split_andb. apply Nat.leb_le.
    match goal with H : (nceil8 lpo <=? blen b0)%N = true |- _ => apply N.leb_le in H; unfold nceil8, blen in H end.
    apply checked_add_some in Elpo. lia.
Qed.

Lemma acc_TFixed w len off nulls bufs kids :
  let a := PArr (TFixed w) len off nulls bufs kids in
  phys a = true -> node_ok a = true -> spec_node a && spec_nullability a = true.
Proof.
  start. cbn [length orb] in *. open_spec.
  match goal with H : (length bufs =? 1)%nat = true |- _ =>
    pose proof H as Hl; apply Nat.eqb_eq in Hl; destruct (length1 _ Hl) as [b0 ->] end.
  pose proof (phys_buf0 _ _ _ _ _ _ _ Hp) as Hb.
  unfold buf; cbn [p_bufs nth List.combine forallb fst snd andb] in *.
  conj; try reflexivity; try assumption; try (usize_goal Elpo); try nulls_goal.
  split_andb. apply Nat.leb_le.
    match goal with H : (saturating_mul lpo _ <=? blen b0)%N = true |- _ => apply (sat_mul_le _ _ _ Hb) in H; unfold blen in H end.
    apply checked_add_some in Elpo. nia.
Qed.

Lemma acc_TFixedBin s len off nulls bufs kids :
  let a := PArr (TFixedBin s) len off nulls bufs kids in
  phys a = true -> node_ok a = true -> spec_node a && spec_nullability a = true.
Proof.
  start. cbn [length orb] in *. open_spec.
  match goal with H : (length bufs =? 1)%nat = true |- _ =>
    pose proof H as Hl; apply Nat.eqb_eq in Hl; destruct (length1 _ Hl) as [b0 ->] end.
  pose proof (phys_buf0 _ _ _ _ _ _ _ Hp) as Hb.
  unfold buf; cbn [p_bufs nth List.combine forallb fst snd andb] in *.
  conj; try reflexivity; try assumption; try (usize_goal Elpo); try nulls_goal.
  split_andb. apply Nat.leb_le.
    match goal with H : (saturating_mul lpo _ <=? blen b0)%N = true |- _ => apply (sat_mul_le _ _ _ Hb) in H; unfold blen in H end.
    match goal with H : (0 <=? s)%Z = true |- _ => apply Z.leb_le in H end.
    apply checked_add_some in Elpo. nia.
Qed.

Lemma acc_TBin large len off nulls bufs kids :
  let a := PArr (TBin large false) len off nulls bufs kids in
  phys a = true -> node_ok a = true -> spec_node a && spec_nullability a = true.
Proof.
  start. cbn [length orb] in *. open_spec.
  match goal with H : node_values _ = true |- _ => unfold node_values in H; cbn [p_ty] in H;
    apply spec_offsets_of_impl in H; rewrite H end.
  conj; try reflexivity; try assumption; try (usize_goal Elpo); try nulls_goal.
Qed.

Lemma kid_counts_of_kids a i k : forallb node_ok (p_kids a) = true -> kid a i = Some k -> kid_counts_ok k = true.
Proof.
  unfold kid. intros H E. apply node_ok_counts. rewrite forallb_forall in H. apply H. eapply nth_error_In. exact E.
Qed.

Lemma acc_TList large nullable c len off nulls bufs kids :
  let a := PArr (TList large nullable c) len off nulls bufs kids in
  phys a = true -> forallb node_ok kids = true -> node_ok a = true -> spec_node a && spec_nullability a = true.
Proof.
  intros a Hp Hk. revert a Hp. start. cbn [length orb] in *. open_spec.
  match goal with H : node_values _ = true |- _ => unfold node_values in H; cbn [p_ty] in H;
    apply spec_offsets_of_impl in H end.
  conj; try reflexivity; try assumption; try (usize_goal Elpo); try nulls_goal.
  (* nullability of the child *)
  destruct nullable; [reflexivity|]. cbn [orb].
  match goal with H : node_nulls _ = true |- _ => unfold node_nulls in H; cbn [p_ty p_nulls] in H; split_andb end.
  destruct (kid (PArr (TList large false c) len off nulls bufs kids) 0) as [k|] eqn:Ek; [|discriminate].
  apply non_nullable_spec; [|assumption].
  eapply (kid_counts_of_kids (PArr (TList large false c) len off nulls bufs kids)); [exact Hk|exact Ek].
Qed.

Lemma acc_TFixedList s nullable c len off nulls bufs kids :
  let a := PArr (TFixedList s nullable c) len off nulls bufs kids in
  (nullable || Nat.eqb off 0) = true ->
  phys a = true -> forallb node_ok kids = true -> node_ok a = true -> spec_node a && spec_nullability a = true.
Proof.
  intros a Hcov Hp Hk. revert a Hp. start. cbn [length orb] in *. open_spec.
  match goal with H : match checked_add ?x ?y with _ => _ end = true |- _ => rewrite Elpo in H end.
  pose proof Elpo as Elpo2.
  match goal with H : match checked_mul ?x ?y with _ => _ end = true |- _ =>
    destruct (checked_mul x y) as [ex|] eqn:Eex; [|discriminate] end.
  conj; try reflexivity; try assumption; try (usize_goal Elpo); try nulls_goal.
  - (* child covers (off+len) * s values *)
    apply Nat.leb_le. apply checked_add_some in Elpo2. apply checked_mul_some in Eex.
    match goal with H : (ex <=? _)%N = true |- _ => apply N.leb_le in H end.
    match goal with H : (0 <=? s)%Z = true |- _ => apply Z.leb_le in H end. nia.
  - (* nullability *)
    destruct nullable; [reflexivity|]. cbn [orb] in Hcov. apply Nat.eqb_eq in Hcov. subst off.
    match goal with H : node_nulls _ = true |- _ => unfold node_nulls in H; cbn [p_ty p_nulls] in H; split_andb end.
    destruct (kid (PArr (TFixedList s false c) len 0 nulls bufs kids) 0) as [k|] eqn:Ek; [|reflexivity].
    cbn [Nat.mul]. apply non_nullable_spec; [|assumption].
    eapply (kid_counts_of_kids (PArr (TFixedList s false c) len 0 nulls bufs kids)); [exact Hk|exact Ek].
Qed.

Lemma acc_TDict kw ks v len off nulls bufs kids :
  let a := PArr (TDict kw ks v) len off nulls bufs kids in
  phys a = true -> node_ok a = true -> spec_node a && spec_nullability a = true.
Proof.
  start. cbn [length orb] in *. open_spec.
  match goal with H : (length bufs =? 1)%nat = true |- _ =>
    pose proof H as Hl; apply Nat.eqb_eq in Hl; destruct (length1 _ Hl) as [b0 ->] end.
  pose proof (phys_buf0 _ _ _ _ _ _ _ Hp) as Hb.
  match goal with H : node_values _ = true |- _ => unfold node_values, check_bounds in H; cbn [p_ty p_len p_off] in H end.
  unfold buf in *; cbn [p_bufs nth List.combine forallb fst snd andb] in *. split_andb.
  conj; try reflexivity; try assumption; try (usize_goal Elpo); try nulls_goal.
  - apply Nat.leb_le.
    match goal with H : (saturating_mul lpo _ <=? blen b0)%N = true |- _ => apply (sat_mul_le _ _ _ Hb) in H; unfold blen in H end.
    apply checked_add_some in Elpo. nia.
  - match goal with H : forallb _ (seq 0 len) = true |- _ => rename H into Hfa end.
    rewrite forallb_forall in Hfa.
    apply forallb_forall. intros i Hi. specialize (Hfa i Hi). unfold key_in_range, buf; cbn [p_bufs nth p_off].
    apply orb_true_iff in Hfa. apply orb_true_iff. destruct Hfa as [H|H]; [left; exact H|right].
    apply andb_true_iff in H. destruct H as [H1 H2]. apply andb_true_iff. split; [exact H1|].
    apply Z.ltb_lt. apply Z.leb_le in H2. lia.
Qed.

Lemma acc_TRee rw v len off nulls bufs kids :
  let a := PArr (TRee rw v) len off nulls bufs kids in
  phys a = true -> node_ok a = true -> spec_node a && spec_nullability a = true.
Proof.
  start. cbn [length orb] in *. open_spec.
  destruct nulls; [discriminate|].
  match goal with H : node_values _ = true |- _ => unfold node_values in H; cbn [p_ty] in H end.
  destruct (kid (PArr (TRee rw v) len off None bufs kids) 0) as [r|] eqn:Er; [|discriminate].
  match goal with H : check_run_ends _ _ _ = true |- _ => unfold check_run_ends in H; cbn [p_off p_len] in H end.
  split_andb.
  match goal with H : (let '(ok, last_) := run_ends_ok 0 true ?e in _) = true |- _ =>
    destruct (run_ends_ok 0 true e) as [ok lst] eqn:Ere; split_andb; subst ok;
    destruct (run_ends_ok_spec _ _ _ _ Ere (fun _ => eq_refl)) as [Hs Hl] end.
  conj; try reflexivity; try assumption; try (usize_goal Elpo).
  - apply Nat.eqb_eq. match goal with H : (kid_len _ 0 =? kid_len _ 1)%nat = true |- _ => apply Nat.eqb_eq in H; rewrite <- H end.
    unfold kid_len. rewrite Er. reflexivity.
  - subst lst. assumption.
Qed.

