(* C12 — the row machinery (try_binary / binary / try_unary / unary / scalar dispatch) computes
   exactly the row-wise specification on the logical content: values under null slots are inert,
   result rows are null iff an input row is null, the kernel fails iff a valid row fails. *)
From Coq Require Import List ZArith Bool Arith Lia.
From AV Require Import Model.C12_Int Model.C12_Kernel Proofs.C12_Int.
Import ListNotations.

Definition mk (v : list bool) (a : list Z) : list (option Z) :=
  map2 (fun (v : bool) x => if v then Some x else None) v a.
Definition vof (a : parr) : list bool :=
  match a_nulls a with Some n => n | None => repeat true (arr_len a) end.
Definition wf (a : parr) : Prop :=
  match a_nulls a with Some n => length n = length (a_vals a) | None => True end.
Definition lift (n : list bool) (r : list Z + Z) : list (option Z) + Z :=
  match r with inl v => inl (mk n v) | inr k => inr k end.

Lemma mk_true a : mk (repeat true (length a)) a = map Some a.
Proof. induction a as [|x a IH]; [reflexivity|]. cbn [length repeat mk map2 map]. f_equal. exact IH. Qed.

Lemma denote_mk a : denote a = mk (vof a) (a_vals a).
Proof.
  unfold denote, vof, arr_len. destruct (a_nulls a) as [n|]; [reflexivity|].
  symmetry. apply mk_true.
Qed.

Lemma vof_length a : wf a -> length (vof a) = arr_len a.
Proof.
  unfold wf, vof, arr_len. destruct (a_nulls a) as [n|]; [auto|]. intros _. apply repeat_length.
Qed.

Lemma mk_length v a : length v = length a -> length (mk v a) = length a.
Proof.
  revert a. induction v as [|b v IH]; intros [|x a] L; cbn [length] in *; try reflexivity; try discriminate.
  cbn [mk map2 length]. f_equal. apply IH. lia.
Qed.

Lemma denote_length a : wf a -> length (denote a) = arr_len a.
Proof. intros W. rewrite denote_mk. apply mk_length. now apply vof_length. Qed.

Lemma count_false_0 n : count_false n = O -> n = repeat true (length n).
Proof.
  induction n as [|b n IH]; [reflexivity|]. cbn [count_false length repeat].
  destruct b; cbn; [|discriminate]. intros E. f_equal. now apply IH.
Qed.

Lemma vof_no_nulls a : wf a -> null_count a = O -> vof a = repeat true (arr_len a).
Proof.
  unfold wf, null_count, vof, arr_len. destruct (a_nulls a) as [n|]; [|reflexivity].
  intros L C. rewrite (count_false_0 n C). now rewrite L.
Qed.

Lemma and_true_r v : map2 andb v (repeat true (length v)) = v.
Proof. induction v as [|b v IH]; [reflexivity|]. cbn [length repeat map2]. rewrite IH, andb_true_r. reflexivity. Qed.
Lemma and_true_l v : map2 andb (repeat true (length v)) v = v.
Proof. induction v as [|b v IH]; [reflexivity|]. cbn [length repeat map2]. rewrite IH. reflexivity. Qed.
Lemma and_true_true n : map2 andb (repeat true n) (repeat true n) = repeat true n.
Proof. induction n as [|n IH]; [reflexivity|]. cbn [repeat map2]. rewrite IH. reflexivity. Qed.

Lemma cons_ok_lift b n z r : lift (b :: n) (cons_ok z r) = cons_row (if b then Some z else None) (lift n r).
Proof. destruct r; reflexivity. Qed.

(* core: the masked loop over the union validity = row-wise spec *)
Lemma try_zip_valid_spec f : forall va vb a b,
  length va = length a -> length vb = length b -> length a = length b ->
  lift (map2 andb va vb) (try_zip_valid f (map2 andb va vb) a b) = spec_rows2 f (mk va a) (mk vb b).
Proof.
  induction va as [|p va IH]; intros [|q vb] [|x a] [|y b] La Lb Lab; cbn [length] in *; try discriminate; try reflexivity.
  cbn [map2 try_zip_valid mk spec_rows2]. fold (mk va a) (mk vb b).
  specialize (IH vb a b ltac:(lia) ltac:(lia) ltac:(lia)).
  destruct p, q; cbn [andb].
  - destruct (f x y) as [z|k]; [|reflexivity]. rewrite cons_ok_lift, IH. reflexivity.
  - rewrite cons_ok_lift, IH. reflexivity.
  - rewrite cons_ok_lift, IH. reflexivity.
  - rewrite cons_ok_lift, IH. reflexivity.
Qed.

Lemma try_zip_as_valid f : forall a b, length a = length b ->
  try_zip f a b = try_zip_valid f (repeat true (length a)) a b.
Proof.
  induction a as [|x a IH]; intros [|y b] L; cbn [length] in *; try discriminate; try reflexivity.
  cbn [repeat try_zip try_zip_valid]. rewrite IH by lia. reflexivity.
Qed.

Lemma try_zip_spec f a b : length a = length b ->
  lift (repeat true (length a)) (try_zip f a b) = spec_rows2 f (map Some a) (map Some b).
Proof.
  intros L. rewrite try_zip_as_valid by assumption.
  rewrite <- (mk_true a). rewrite <- (mk_true b). rewrite <- L.
  rewrite <- (and_true_true (length a)) at 1 2.
  apply try_zip_valid_spec; rewrite ?repeat_length; lia.
Qed.

Lemma spec_rows2_nil_l f r : spec_rows2 f [] r = inl [].
Proof. reflexivity. Qed.

Lemma canon_no_nulls f a b : length (a_vals a) = length (a_vals b) ->
  canon (try_binary_no_nulls f a b) = spec_rows2 f (map Some (a_vals a)) (map Some (a_vals b)).
Proof.
  intros L. unfold try_binary_no_nulls. rewrite <- (try_zip_spec f _ _ L).
  destruct (try_zip f (a_vals a) (a_vals b)) as [v|k] eqn:E; cbn [canon lift]; [|reflexivity].
  unfold denote. cbn [a_nulls a_vals]. f_equal.
  assert (Lv : length v = length (a_vals a)).
  { clear -E L. revert v E. generalize dependent (a_vals b). induction (a_vals a) as [|x a' IH]; intros [|y b'] L v E; cbn [length] in *; try discriminate.
    - inversion E. reflexivity.
    - cbn [try_zip] in E. destruct (f x y); [|discriminate].
      destruct (try_zip f a' b') as [t|] eqn:E'; cbn [cons_ok] in E; [|discriminate].
      inversion E. cbn [length]. f_equal. apply (IH b'); [lia|exact E']. }
  rewrite <- Lv. symmetry. apply mk_true.
Qed.

Lemma try_zip_valid_length f : forall n a b v, length n = length a -> length a = length b ->
  try_zip_valid f n a b = inl v -> length v = length a.
Proof.
  induction n as [|p n IH]; intros [|x a] [|y b] v Ln L E; cbn [length] in *; try discriminate.
  - inversion E. reflexivity.
  - cbn [try_zip_valid] in E. destruct p.
    + destruct (f x y); [|discriminate].
      destruct (try_zip_valid f n a b) as [t|] eqn:E'; cbn [cons_ok] in E; [|discriminate].
      inversion E. cbn [length]. f_equal. apply (IH a b t); [lia|lia|exact E'].
    + destruct (try_zip_valid f n a b) as [t|] eqn:E'; cbn [cons_ok] in E; [|discriminate].
      inversion E. cbn [length]. f_equal. apply (IH a b t); [lia|lia|exact E'].
Qed.

Lemma map2_andb_length : forall x y : list bool, length x = length y -> length (map2 andb x y) = length x.
Proof. induction x as [|p x IH]; intros [|q y] L; cbn [length] in *; try discriminate; [reflexivity|]. cbn [map2 length]. f_equal. apply IH. lia. Qed.

(* union of the optional null buffers = pointwise AND of the validity vectors *)
Lemma nb_union_vof a b n : wf a -> wf b -> arr_len a = arr_len b ->
  nb_union (a_nulls a) (a_nulls b) = Some n -> n = map2 andb (vof a) (vof b).
Proof.
  unfold wf, vof, nb_union, arr_len. intros Wa Wb L.
  destruct (a_nulls a) as [x|], (a_nulls b) as [y|]; intros E; inversion E; subst.
  - reflexivity.
  - rewrite <- L, <- Wa. symmetry. apply and_true_r.
  - rewrite L, <- Wb. symmetry. apply and_true_l.
Qed.

Theorem try_binary_spec f a b : wf a -> wf b ->
  canon (try_binary f a b) =
  if negb (arr_len a =? arr_len b)%nat then inr E_INVALID else spec_rows2 f (denote a) (denote b).
Proof.
  intros Wa Wb. unfold try_binary.
  destruct (Nat.eqb_spec (arr_len a) (arr_len b)) as [L|L]; cbn [negb]; [|reflexivity].
  destruct (Nat.eqb_spec (arr_len a) 0) as [Z0|Z0].
  - cbn [canon]. rewrite (denote_mk a). unfold arr_len in *.
    destruct (a_vals a); [|discriminate]. unfold mk. destruct (vof a); reflexivity.
  - destruct ((null_count a =? 0)%nat && (null_count b =? 0)%nat) eqn:NC.
    + apply andb_true_iff in NC. destruct NC as [Na Nb]. apply Nat.eqb_eq in Na, Nb.
      rewrite (denote_mk a), (denote_mk b), (vof_no_nulls a Wa Na), (vof_no_nulls b Wb Nb).
      unfold arr_len in *. rewrite !mk_true. now apply canon_no_nulls.
    + destruct (nb_union (a_nulls a) (a_nulls b)) as [n|] eqn:U.
      * pose proof (nb_union_vof a b n Wa Wb L U) as En.
        pose proof (try_zip_valid_spec f (vof a) (vof b) (a_vals a) (a_vals b)
                      (vof_length a Wa) (vof_length b Wb) L) as S.
        rewrite <- En in S. rewrite (denote_mk a), (denote_mk b), <- S.
        destruct (try_zip_valid f n (a_vals a) (a_vals b)) as [v|k] eqn:E; cbn [canon lift]; reflexivity.
      * unfold nb_union in U. destruct (a_nulls a) eqn:A1, (a_nulls b) eqn:B1; try discriminate.
        unfold denote. rewrite A1, B1. now apply canon_no_nulls.
Qed.

(* ---- unary *)
Lemma try_map_valid_spec f : forall n a, length n = length a ->
  lift n (try_map_valid f n a) = spec_rows1 f (mk n a).
Proof.
  induction n as [|p n IH]; intros [|x a] L; cbn [length] in *; try discriminate; try reflexivity.
  cbn [try_map_valid mk map2 spec_rows1]. fold (mk n a). specialize (IH a ltac:(lia)).
  destruct p.
  - destruct (f x); [|reflexivity]. rewrite cons_ok_lift, IH. reflexivity.
  - rewrite cons_ok_lift, IH. reflexivity.
Qed.
Lemma try_map_as_valid f : forall a, try_map f a = try_map_valid f (repeat true (length a)) a.
Proof. induction a as [|x a IH]; [reflexivity|]. cbn [length repeat try_map try_map_valid]. now rewrite IH. Qed.
Lemma try_map_valid_length f : forall n a v, length n = length a -> try_map_valid f n a = inl v -> length v = length a.
Proof.
  induction n as [|p n IH]; intros [|x a] v L E; cbn [length] in *; try discriminate.
  - inversion E. reflexivity.
  - cbn [try_map_valid] in E. destruct p.
    + destruct (f x); [|discriminate]. destruct (try_map_valid f n a) as [t|] eqn:E'; cbn [cons_ok] in E; [|discriminate].
      inversion E. cbn [length]. f_equal. apply (IH a t); [lia|exact E'].
    + destruct (try_map_valid f n a) as [t|] eqn:E'; cbn [cons_ok] in E; [|discriminate].
      inversion E. cbn [length]. f_equal. apply (IH a t); [lia|exact E'].
Qed.

Theorem try_unary_spec f a : wf a -> canon (try_unary f a) = spec_rows1 f (denote a).
Proof.
  intros W. unfold try_unary. rewrite (denote_mk a). unfold vof, wf, arr_len in *.
  destruct (a_nulls a) as [n|] eqn:A.
  - rewrite <- (try_map_valid_spec f n (a_vals a) W).
    destruct (try_map_valid f n (a_vals a)) as [v|k]; reflexivity.
  - rewrite <- (try_map_valid_spec f _ (a_vals a) (repeat_length _ _)).
    rewrite try_map_as_valid.
    destruct (try_map_valid f (repeat true (length (a_vals a))) (a_vals a)) as [v|k] eqn:E; cbn [canon lift]; [|reflexivity].
    unfold denote. cbn [a_nulls a_vals]. f_equal.
    rewrite <- (try_map_valid_length f _ _ v (repeat_length _ _) E). symmetry. apply mk_true.
Qed.

(* ---- scalar broadcasting *)
Lemma spec_rows2_bcast_l f x : forall r, spec_rows2 f (repeat (Some x) (length r)) r = spec_rows1 (f x) r.
Proof.
  induction r as [|[y|] r IH]; [reflexivity| |]; cbn [length repeat spec_rows2 spec_rows1]; rewrite IH; reflexivity.
Qed.
Lemma spec_rows2_bcast_r f y : forall l, spec_rows2 f l (repeat (Some y) (length l)) = spec_rows1 (fun x => f x y) l.
Proof.
  induction l as [|[x|] l IH]; [reflexivity| |]; cbn [length repeat spec_rows2 spec_rows1]; rewrite IH; reflexivity.
Qed.
Lemma spec_rows2_null_l f : forall r, spec_rows2 f (repeat None (length r)) r = inl (repeat None (length r)).
Proof. induction r as [|y r IH]; [reflexivity|]. cbn [length repeat spec_rows2]. rewrite IH. reflexivity. Qed.
Lemma spec_rows2_null_r f : forall l, spec_rows2 f l (repeat None (length l)) = inl (repeat None (length l)).
Proof. induction l as [|[x|] l IH]; [reflexivity| |]; cbn [length repeat spec_rows2]; rewrite IH; reflexivity. Qed.

Lemma canon_new_null n : canon (new_null n) = inl (repeat None n).
Proof.
  unfold new_null, canon, denote. cbn [a_nulls a_vals]. f_equal.
  induction n as [|n IH]; [reflexivity|]. cbn [repeat map2]. now rewrite IH.
Qed.

(* a length-1 array: its single row *)
Lemma scalar_row a : wf a -> arr_len a = 1%nat ->
  denote a = [if (null_count a =? 0)%nat then Some (value0 a) else None].
Proof.
  unfold wf, arr_len, denote, null_count, value0. intros W L.
  destruct (a_vals a) as [|x [|? ?]]; try discriminate. cbn [hd].
  destruct (a_nulls a) as [[|p [|? ?]]|]; try discriminate; [|reflexivity].
  destruct p; reflexivity.
Qed.

Theorem try_op_spec f l_s r_s l r :
  wf l -> wf r -> (l_s = true -> arr_len l = 1%nat) -> (r_s = true -> arr_len r = 1%nat) ->
  canon (try_op f l_s r_s l r) = spec_binary_kernel f l_s r_s (denote l) (denote r).
Proof.
  intros Wl Wr Sl Sr. unfold try_op, spec_binary_kernel, broadcast.
  destruct l_s, r_s; cbn [andb negb].
  - rewrite try_binary_spec by assumption. now rewrite !denote_length.
  - specialize (Sl eq_refl). rewrite (scalar_row l Wl Sl). cbn [hd].
    rewrite repeat_length, Nat.eqb_refl. cbn [negb].
    destruct (null_count l =? 0)%nat.
    + rewrite spec_rows2_bcast_l. now apply try_unary_spec.
    + rewrite spec_rows2_null_l, canon_new_null. now rewrite denote_length.
  - specialize (Sr eq_refl). rewrite (scalar_row r Wr Sr). cbn [hd].
    rewrite repeat_length, Nat.eqb_refl. cbn [negb].
    destruct (null_count r =? 0)%nat.
    + rewrite spec_rows2_bcast_r. now apply (try_unary_spec (fun x => f x (value0 r))).
    + rewrite spec_rows2_null_r, canon_new_null. now rewrite denote_length.
  - rewrite try_binary_spec by assumption. now rewrite !denote_length.
Qed.

(* ---- infallible forms: every row is computed, also under nulls; canon erases those rows *)
Lemma mk_map2 (g : Z -> Z -> Z) : forall va vb a b,
  length va = length a -> length vb = length b -> length a = length b ->
  inl (mk (map2 andb va vb) (map2 g a b)) = spec_rows2 (fun x y => Ok (g x y)) (mk va a) (mk vb b).
Proof.
  induction va as [|p va IH]; intros [|q vb] [|x a] [|y b] La Lb Lab; cbn [length] in *; try discriminate; try reflexivity.
  cbn [map2 mk spec_rows2]. fold (mk va a) (mk vb b) (mk (map2 andb va vb) (map2 g a b)).
  rewrite <- (IH vb a b) by lia. destruct p, q; reflexivity.
Qed.
Lemma map2_length {A B C} (g : A -> B -> C) : forall a b, length a = length b -> length (map2 g a b) = length a.
Proof. induction a as [|x a IH]; intros [|y b] L; cbn [length] in *; try discriminate; [reflexivity|]. cbn [map2 length]. f_equal. apply IH. lia. Qed.

Theorem binary_spec g a b : wf a -> wf b ->
  canon (binary g a b) =
  if negb (arr_len a =? arr_len b)%nat then inr E_INVALID
  else spec_rows2 (fun x y => Ok (g x y)) (denote a) (denote b).
Proof.
  intros Wa Wb. unfold binary.
  destruct (Nat.eqb_spec (arr_len a) (arr_len b)) as [L|L]; cbn [negb]; [|reflexivity].
  destruct (Nat.eqb_spec (arr_len a) 0) as [Z0|Z0].
  - cbn [canon]. rewrite (denote_mk a). unfold arr_len in *.
    destruct (a_vals a); [|discriminate]. unfold mk. destruct (vof a); reflexivity.
  - rewrite (denote_mk a), (denote_mk b).
    rewrite <- (mk_map2 g (vof a) (vof b) (a_vals a) (a_vals b) (vof_length a Wa) (vof_length b Wb) L).
    cbn [canon]. f_equal. rewrite denote_mk. cbn [a_vals]. f_equal.
    unfold vof at 1. cbn [a_nulls arr_len a_vals].
    destruct (nb_union (a_nulls a) (a_nulls b)) as [n|] eqn:U.
    + apply (nb_union_vof a b n Wa Wb L U).
    + unfold nb_union in U. unfold vof. destruct (a_nulls a), (a_nulls b); try discriminate.
      unfold arr_len in *. cbn [a_vals]. rewrite map2_length by assumption. rewrite <- L. symmetry. apply and_true_true.
Qed.

Theorem unary_spec g a : wf a -> canon (unary g a) = spec_rows1 (fun x => Ok (g x)) (denote a).
Proof.
  intros W. unfold unary. cbn [canon]. rewrite (denote_mk a), denote_mk. cbn [a_vals].
  assert (V : vof {| a_vals := map g (a_vals a); a_nulls := a_nulls a |} = vof a).
  { unfold vof, arr_len. cbn [a_nulls a_vals]. now rewrite map_length. }
  rewrite V. clear V.
  pose proof (vof_length a W) as L. unfold arr_len in L.
  generalize dependent (a_vals a). generalize (vof a). clear.
  induction l as [|p n IH]; intros [|x a] L; cbn [length] in *; try discriminate; try reflexivity.
  cbn [map mk map2 spec_rows1]. fold (mk n a) (mk n (map g a)).
  specialize (IH a ltac:(lia)). destruct p; rewrite <- IH; reflexivity.
Qed.

Theorem inf_op_spec g l_s r_s l r :
  wf l -> wf r -> (l_s = true -> arr_len l = 1%nat) -> (r_s = true -> arr_len r = 1%nat) ->
  canon (inf_op g l_s r_s l r) = spec_binary_kernel (fun x y => Ok (g x y)) l_s r_s (denote l) (denote r).
Proof.
  intros Wl Wr Sl Sr. unfold inf_op, spec_binary_kernel, broadcast.
  destruct l_s, r_s; cbn [andb negb].
  - rewrite binary_spec by assumption. now rewrite !denote_length.
  - specialize (Sl eq_refl). rewrite (scalar_row l Wl Sl). cbn [hd].
    rewrite repeat_length, Nat.eqb_refl. cbn [negb].
    destruct (null_count l =? 0)%nat.
    + rewrite (spec_rows2_bcast_l (fun x y => Ok (g x y))). now apply unary_spec.
    + rewrite spec_rows2_null_l, canon_new_null. now rewrite denote_length.
  - specialize (Sr eq_refl). rewrite (scalar_row r Wr Sr). cbn [hd].
    rewrite repeat_length, Nat.eqb_refl. cbn [negb].
    destruct (null_count r =? 0)%nat.
    + rewrite (spec_rows2_bcast_r (fun x y => Ok (g x y))). now apply (unary_spec (fun x => g x (value0 r))).
    + rewrite spec_rows2_null_r, canon_new_null. now rewrite denote_length.
  - rewrite binary_spec by assumption. now rewrite !denote_length.
Qed.

(* ---- extensionality of the spec in the row function, on the values that occur *)
Definition rows_in (P : Z -> Prop) (l : list (option Z)) : Prop :=
  Forall (fun o => match o with Some x => P x | None => True end) l.

Lemma spec_rows2_ext (P : Z -> Prop) f g :
  (forall a b, P a -> P b -> f a b = g a b) ->
  forall l r, rows_in P l -> rows_in P r -> spec_rows2 f l r = spec_rows2 g l r.
Proof.
  intros E. induction l as [|x l IH]; intros [|y r] Hl Hr; try reflexivity.
  inversion Hl as [|? ? Px Hl']; inversion Hr as [|? ? Py Hr']; subst.
  cbn [spec_rows2]. rewrite (IH r Hl' Hr').
  destruct x as [a|], y as [b|]; try reflexivity. now rewrite (E a b Px Py).
Qed.

Lemma rows_in_repeat P o n : (match o with Some x => P x | None => True end) -> rows_in P (repeat o n).
Proof. intros Ho. induction n; constructor; assumption. Qed.

Lemma rows_in_mk P : forall v a, Forall P a -> rows_in P (mk v a).
Proof.
  induction v as [|p v IH]; intros [|x a] F; try constructor.
  - inversion F; subst. destruct p; [assumption|exact I].
  - inversion F; subst. now apply IH.
Qed.
Lemma rows_in_denote P a : Forall P (a_vals a) -> rows_in P (denote a).
Proof. intros F. rewrite denote_mk. now apply rows_in_mk. Qed.

Lemma rows_in_broadcast P s o x other : rows_in P x -> rows_in P (broadcast s o x other).
Proof.
  intros Hx. unfold broadcast. destruct (s && negb o); [|assumption].
  apply rows_in_repeat. destruct x as [|h t]; [exact I|]. inversion Hx; subst. assumption.
Qed.

Lemma spec_binary_kernel_ext (P : Z -> Prop) f g l_s r_s l r :
  (forall a b, P a -> P b -> f a b = g a b) -> rows_in P l -> rows_in P r ->
  spec_binary_kernel f l_s r_s l r = spec_binary_kernel g l_s r_s l r.
Proof.
  intros E Hl Hr. unfold spec_binary_kernel.
  destruct (negb _); [reflexivity|].
  apply (spec_rows2_ext P); [assumption| |]; now apply rows_in_broadcast.
Qed.

(* ---- integer kernels *)
Section Width.
Variable H : Z.
Hypothesis Hpos : (0 < H)%Z.

Definition vals_in_range (s : bool) (a : parr) : Prop := Forall (fun x => in_range s H x = true) (a_vals a).

Theorem integer_op_spec s op l_s r_s l r :
  wf l -> wf r -> (l_s = true -> arr_len l = 1%nat) -> (r_s = true -> arr_len r = 1%nat) ->
  vals_in_range s l -> vals_in_range s r ->
  canon (integer_op s H op l_s r_s l r) = spec_binary_kernel (spec_scalar s H op) l_s r_s (denote l) (denote r).
Proof.
  intros Wl Wr Sl Sr Rl Rr. unfold integer_op.
  destruct (is_wrapping op) eqn:Wp.
  - rewrite inf_op_spec by assumption.
    apply (spec_binary_kernel_ext (fun x => in_range s H x = true)); [|now apply rows_in_denote|now apply rows_in_denote].
    intros a b Ra Rb. rewrite <- (integer_op_elem_spec H Hpos s op a b Ra Rb).
    destruct op; try discriminate; reflexivity.
  - rewrite try_op_spec by assumption.
    apply (spec_binary_kernel_ext (fun x => in_range s H x = true)); [|now apply rows_in_denote|now apply rows_in_denote].
    intros a b Ra Rb. apply (integer_op_elem_spec H Hpos s op a b Ra Rb).
Qed.

Lemma spec_rows1_ext (P : Z -> Prop) f g :
  (forall a, P a -> f a = g a) -> forall l, rows_in P l -> spec_rows1 f l = spec_rows1 g l.
Proof.
  intros E. induction l as [|x l IH]; intros Hl; [reflexivity|].
  inversion Hl as [|? ? Px Hl']; subst. cbn [spec_rows1]. rewrite (IH Hl').
  destruct x as [a|]; [|reflexivity]. now rewrite (E a Px).
Qed.

Theorem neg_kernel_spec a : wf a -> vals_in_range true a ->
  canon (neg_kernel true H a) = spec_rows1 (spec_neg true H) (denote a).
Proof.
  intros W R. unfold neg_kernel. rewrite try_unary_spec by assumption.
  apply (spec_rows1_ext (fun x => in_range true H x = true)); [|now apply rows_in_denote].
  intros x Rx. now apply neg_checked_spec.
Qed.

Theorem neg_wrapping_kernel_spec s a : wf a ->
  canon (neg_wrapping_kernel s H a) = spec_rows1 (spec_neg_wrapping s H) (denote a).
Proof. intros W. unfold neg_wrapping_kernel. now rewrite unary_spec. Qed.

End Width.

(* asymmetric extensionality: separate predicates for the left and right values *)
Lemma spec_rows2_ext2 (P Q : Z -> Prop) f g :
  (forall a b, P a -> Q b -> f a b = g a b) ->
  forall l r, rows_in P l -> rows_in Q r -> spec_rows2 f l r = spec_rows2 g l r.
Proof.
  intros E. induction l as [|x l IH]; intros [|y r] Hl Hr; try reflexivity.
  inversion Hl as [|? ? Px Hl']; inversion Hr as [|? ? Py Hr']; subst.
  cbn [spec_rows2]. rewrite (IH r Hl' Hr').
  destruct x as [a|], y as [b|]; try reflexivity. now rewrite (E a b Px Py).
Qed.
Lemma spec_binary_kernel_ext2 (P Q : Z -> Prop) f g l_s r_s l r :
  (forall a b, P a -> Q b -> f a b = g a b) -> rows_in P l -> rows_in Q r ->
  spec_binary_kernel f l_s r_s l r = spec_binary_kernel g l_s r_s l r.
Proof.
  intros E Hl Hr. unfold spec_binary_kernel.
  destruct (negb _); [reflexivity|].
  apply (spec_rows2_ext2 P Q); [assumption| |]; now apply rows_in_broadcast.
Qed.
