(* C16 — property-level statements derived from the invariant of all reachable states. *)
From Coq Require Import List Arith ZArith Bool Lia.
From AV Require Import Model.C16_Own Proofs.C16_Inv Proofs.C16_Ops.
Import ListNotations.

Lemma reach_inv ops : Inv (run ops init).
Proof. apply run_inv. apply init_inv. Qed.

Lemma release_exactly_once_l ops id n :
  nth_error (nodes (run ops init)) id = Some n ->
  node_rel n <= 1 /\ (node_rel n = 1 <-> cnt (run ops init) id = 0).
Proof.
  intros Hn. pose proof (reach_inv ops) as I. pose proof (inv2 _ I id n Hn) as H2. split; [exact H2|]. split.
  - intros H1. destruct (cnt (run ops init) id) eqn:C; [reflexivity|].
    assert (Hin : In id (all_refs (run ops init))) by (apply in_refs_cnt; lia).
    destruct (inv1 _ I id Hin) as (m & Hm & Hr). unfold node_at in Hm. rewrite Hn in Hm. injection Hm as <-. lia.
  - intros C. destruct (node_rel n) as [|[|k]] eqn:R; [|reflexivity|lia].
    pose proof (inv3 _ I id n Hn R) as Hin. apply in_refs_cnt in Hin. lia.
Qed.

Lemma no_use_after_release_l ops i o h :
  get_slot (run ops init) i = Some o -> In h (ohs o) ->
  exists n, nth_error (nodes (run ops init)) (hreg h) = Some n /\ node_rel n = 0.
Proof.
  intros Hs Hh. apply (inv1 _ (reach_inv ops)). eapply get_slot_refs; eauto. unfold obj_refs. apply in_map. exact Hh.
Qed.

(* a live node keeps everything it refers to alive: an imported region its exported structure,
   an exported structure the exporter's buffers *)
Lemma keeps_alive_l ops id n r :
  nth_error (nodes (run ops init)) id = Some n -> In r (node_refs n) ->
  r < id /\ exists m, nth_error (nodes (run ops init)) r = Some m /\ node_rel m = 0.
Proof.
  intros Hn Hr. pose proof (reach_inv ops) as I. split; [apply (inv_dag _ I id n r Hn Hr)|].
  apply (inv1 _ I). unfold all_refs. apply in_or_app. right. eapply in_flat_map_nth; eauto.
Qed.

Lemma pool_accounting_l ops : pool (run ops init) = live_resv (run ops init).
Proof. apply (inv4 _ (reach_inv ops)). Qed.

(* a release is final: counters never decrease and released nodes stay released *)
Lemma settle_from_rel_mono k pre cur id n : nth_error (nodes cur) id = Some n ->
  exists n', nth_error (nodes (settle_from k pre cur)) id = Some n' /\ node_rel n <= node_rel n'.
Proof.
  revert cur n; induction k as [|k IH]; intros cur n Hn; [exists n; auto|]. cbn [settle_from].
  destruct (_ && _).
  - destruct (Nat.eq_dec id k) as [->|Hne].
    + destruct (release_nodes cur k n Hn) as (Hns & _ & _).
      assert (Hk : k < length (nodes cur)) by (apply nth_error_Some; unfold node_at in Hn; congruence).
      destruct (IH (release k cur) (fst (release_node n))) as (n' & Hn' & Hr).
      { rewrite Hns. apply nth_error_upd_nth_eq. exact Hk. }
      exists n'. split; [exact Hn'|]. rewrite release_node_rel in Hr. lia.
    + destruct (IH (release k cur) n) as (n' & Hn' & Hr); [rewrite release_node_at_ne by exact Hne; exact Hn|]. eauto.
  - apply IH. exact Hn.
Qed.

(* ------------------------------------------------------------------ immutability / unique ownership *)
From AV Require Import Proofs.C16_Mut Proofs.C16_Excl.

Lemma reach_excl ops : Excl (run ops init).
Proof. apply run_excl; [apply init_inv|apply init_excl]. Qed.

Lemma exclusive_objects_unique_l ops i o id :
  get_slot (run ops init) i = Some o -> is_excl_kind (okind o) = true -> In id (obj_refs o) ->
  cnt (run ops init) id = 1.
Proof. intros. eapply reach_excl; eauto. Qed.

Lemma mutation_requires_unique_r ops p id :
  id < length (nodes (run ops init)) ->
  reg_bytes (step (run ops init) p) id <> reg_bytes (run ops init) id ->
  0 < count_occ Nat.eq_dec (acts (run ops init) (o_a p)) id
  /\ cnt (run ops init) id = count_occ Nat.eq_dec (acts (run ops init) (o_a p)) id.
Proof. intros Hlt Hne. apply (mutation_requires_unique_l _ p id (reach_excl ops) Hlt Hne). Qed.

Lemma immutability_r ops p j o :
  get_slot (run ops init) j = Some o -> j <> o_a p ->
  view (step (run ops init) p) o = view (run ops init) o.
Proof. intros Hs Hne. apply (immutability_l _ p j o (reach_excl ops) (inv1 _ (reach_inv ops)) Hs Hne). Qed.

(* the object an operation does NOT act on also stays in its slot, except the validity slot that the
   array constructors (11, 13) consume *)
Lemma other_slots_stay ops p j :
  j <> o_a p -> (o_code p = 11 \/ o_code p = 13 -> j <> o_b p) -> j < length (slots (run ops init)) ->
  nth_error (slots (step (run ops init) p)) j = nth_error (slots (run ops init)) j.
Proof.
  intros Ha Hb Hlt. unfold step. rewrite settle_slots.
  apply (ra_slots _ _ _ _ (exec_rawA (run ops init) p (reach_inv ops))); [|exact Hlt].
  unfold opT. destruct (o_code p) as [|[|[|[|[|[|[|[|[|[|[|[|[|[|c]]]]]]]]]]]]]]; cbn [In]; try tauto;
    intros H; repeat (destruct H as [H|H]); try contradiction; try (apply Ha; congruence); apply Hb; auto.
Qed.

(* ------------------------------------------------------------------ non-vacuity *)
Definition ex_ops : list op :=
  [ mkOp 1 0 0 0 0 [1;2;3;4;5;6;7;8]%Z 0 0;      (* custom region, slot 0 *)
    mkOp 3 0 0 0 0 [] 0 0;                        (* clone -> slot 1 *)
    mkOp 11 0 0 0 0 [] 0 0;                       (* slot 0 becomes an Int32Array *)
    mkOp 20 0 0 0 0 [] 0 0;                       (* export -> slot 2 *)
    mkOp 21 2 0 0 0 [] 0 0;                       (* import: slot 2 is the imported array *)
    mkOp 5 0 0 0 0 [] 0 0; mkOp 5 1 0 0 0 [] 0 0 ]%Z.

(* after dropping the original array and its clone, the imported array still keeps the custom owner alive *)
Example ex_alive : cust_counters (run ex_ops init) = [0%Z] /\ exp_counters (run ex_ops init) = [0%Z]
                   /\ slot_view (run ex_ops init) (nth 2 (slots (run ex_ops init)) None) = Some [1;2;3;4;5;6;7;8]%Z.
Proof. vm_compute. auto. Qed.
(* dropping the imported array releases the structure and then the owner, once each *)
Example ex_released : cust_counters (run (ex_ops ++ [mkOp 5 2 0 0 0 [] 0%Z 0%Z]) init) = [1%Z]
                      /\ exp_counters (run (ex_ops ++ [mkOp 5 2 0 0 0 [] 0%Z 0%Z]) init) = [1%Z].
Proof. vm_compute. auto. Qed.
(* a unique standard buffer can be mutated in place, a shared one cannot *)
Example ex_mutation :
  let ops := [ mkOp 0 1 0 0 0 [9;9;9;9]%Z 0%Z 0%Z; mkOp 3 0 0 0 0 [] 0%Z 0%Z; mkOp 6 0 0 0 0 [] 0%Z 0%Z;
               mkOp 5 1 0 0 0 [] 0%Z 0%Z; mkOp 6 0 0 0 0 [] 0%Z 0%Z; mkOp 8 0 2 7 0 [] 2%Z 7%Z ] in
  step_flag (run (firstn 2 ops) init) (nth 2 ops (mkOp 99 0 0 0 0 [] 0%Z 0%Z)) = 2%Z
  /\ step_flag (run (firstn 4 ops) init) (nth 4 ops (mkOp 99 0 0 0 0 [] 0%Z 0%Z)) = 1%Z
  /\ reg_bytes (run ops init) 0 = [9;9;7;9]%Z.
Proof. vm_compute. auto. Qed.

(* ------------------------------------------------------------------ export -> import round trip (arrays without validity) *)
Lemma get_exp_last s e : get_exp (add_node (NExp e) s) (next_id s) = Some e.
Proof. unfold get_exp, add_node, next_id. cbn [nodes]. rewrite nth_error_app_last. reflexivity. Qed.
Lemma reg_bytes_last s r : reg_bytes (add_node (NReg r) s) (next_id s) = r_bytes r.
Proof. unfold reg_bytes, get_reg, add_node, next_id. cbn [nodes]. rewrite nth_error_app_last. reflexivity. Qed.

Lemma import_arr_no_nulls s e ex v : get_exp s e = Some ex -> e_kind ex = 4 -> e_bufs ex = [v] ->
  import_arr s e =
  if 4 * e_len ex =? 0
  then (add_node (NReg (fresh_region [] (OStd 64) 0 true)) s, Some (mkO 4 [mkH (next_id s) 0 0 0 0] []))
  else (add_node (NReg (fresh_region (firstn (4 * e_len ex) (skipn (hoff v) (reg_bytes s (hreg v)))) (OImp e) (4 * e_len ex) true)) s,
        Some (mkO 4 [mkH (next_id s) 0 (4 * e_len ex) 0 0] [])).
Proof.
  intros Hg Hk Hb. unfold import_arr. rewrite Hg, Hk, Hb. cbn [Nat.eqb].
  destruct (4 * e_len ex =? 0); reflexivity.
Qed.

Lemma roundtrip_no_nulls s c v :
  hreg v < length (nodes s) -> hlen v mod 4 = 0 ->
  exists o, snd (import_arr (fst (export_arr s 4 c [v])) (snd (export_arr s 4 c [v]))) = Some o /\ okind o = 4 /\
            view (fst (import_arr (fst (export_arr s 4 c [v])) (snd (export_arr s 4 c [v])))) o = view s (mkO 4 [v] []).
Proof.
  intros Hlt Hmod. unfold export_arr. cbn [filter_nulls Nat.eqb fst snd].
  set (ex := mkE 4 (hlen v / 4) 0 [mkH (hreg v) (hoff v) (hlen v) 0 0] c 0).
  rewrite (import_arr_no_nulls _ _ ex (mkH (hreg v) (hoff v) (hlen v) 0 0) (get_exp_last s ex) eq_refl eq_refl).
  cbn [e_len ex hreg hoff].
  assert (Hlen : 4 * (hlen v / 4) = hlen v).
  { pose proof (Nat.div_mod (hlen v) 4 ltac:(lia)). lia. }
  assert (Hb : reg_bytes (add_node (NExp ex) s) (hreg v) = reg_bytes s (hreg v)) by (apply rb_add_node; exact Hlt).
  destruct (4 * (hlen v / 4) =? 0) eqn:Z; cbn [fst snd]; eexists; (split; [reflexivity|]); (split; [reflexivity|]);
    unfold view; cbn [okind ohs]; unfold hbytes; cbn [hlen hoff hreg].
  - apply Nat.eqb_eq in Z. assert (H0 : hlen v = 0) by lia. rewrite H0. reflexivity.
  - rewrite reg_bytes_last. cbn [fresh_region r_bytes skipn]. rewrite Hb, Hlen, firstn_firstn, Nat.min_id. reflexivity.
Qed.

(* ------------------------------------------------------------------ memory referenced by a live exported structure / imported region never changes *)
Lemma node_held_immutable ops p id n r :
  nth_error (nodes (run ops init)) id = Some n -> In r (node_refs n) ->
  reg_bytes (step (run ops init) p) r = reg_bytes (run ops init) r.
Proof.
  intros Hn Hr. set (s := run ops init) in *.
  destruct (list_eq_dec Z.eq_dec (reg_bytes (step s p) r) (reg_bytes s r)) as [E|E]; [exact E|exfalso].
  destruct (keeps_alive_l ops id n r Hn Hr) as (_ & m & Hm & _). fold s in Hm.
  assert (Hlt : r < length (nodes s)) by (apply nth_error_Some; congruence).
  destruct (mutation_requires_unique_r ops p r Hlt E) as [_ Hc]. fold s in Hc.
  (* the node's own reference is not one of the acting object's *)
  assert (Hnode : 0 < count_occ Nat.eq_dec (flat_map node_refs (nodes s)) r).
  { apply (count_occ_In Nat.eq_dec). exact (in_flat_map_nth node_refs (nodes s) id n r Hn Hr). }
  assert (Hslots : count_occ Nat.eq_dec (acts s (o_a p)) r <= count_occ Nat.eq_dec (flat_map slot_refs (slots s)) r).
  { unfold acts. destruct (nth_error (slots s) (o_a p)) as [so|] eqn:Es.
    - rewrite (nth_error_nth _ _ _ Es). exact (count_flat_map_nth slot_refs (slots s) (o_a p) so r Es).
    - rewrite nth_overflow by (apply nth_error_None; exact Es). cbn [slot_refs count_occ]. lia. }
  unfold cnt, all_refs in Hc. rewrite count_occ_app in Hc. lia.
Qed.
