(* C16 — property-level statements derived from the invariant of all reachable states. *)
From Coq Require Import List Arith ZArith Bool Lia.
From AV Require Import Model.C16_Own Proofs.C16_Inv Proofs.C16_Ops.
Import ListNotations.

Lemma reach_inv ops : Inv (run ops init).
Proof. apply run_inv. apply init_inv. Qed.

Lemma release_exactly_once_l ops id n :
  nth_error (nodes (run ops init)) id = Some n ->
  node_rel n <= 1 /\ (node_rel n = 1 <-> cnt (run ops init) id = 0).
Proof.
  intros Hn. pose proof (reach_inv ops) as I. pose proof (inv2 _ I id n Hn) as H2. split; [exact H2|]. split.
  - intros H1. destruct (cnt (run ops init) id) eqn:C; [reflexivity|].
    assert (Hin : In id (all_refs (run ops init))) by (apply in_refs_cnt; lia).
    destruct (inv1 _ I id Hin) as (m & Hm & Hr). unfold node_at in Hm. rewrite Hn in Hm. injection Hm as <-. lia.
  - intros C. destruct (node_rel n) as [|[|k]] eqn:R; [|reflexivity|lia].
    pose proof (inv3 _ I id n Hn R) as Hin. apply in_refs_cnt in Hin. lia.
Qed.

Lemma no_use_after_release_l ops i o h :
  get_slot (run ops init) i = Some o -> In h (ohs o) ->
  exists n, nth_error (nodes (run ops init)) (hreg h) = Some n /\ node_rel n = 0.
Proof.
  intros Hs Hh. apply (inv1 _ (reach_inv ops)). eapply get_slot_refs; eauto. unfold obj_refs. apply in_map. exact Hh.
Qed.

(* a live node keeps everything it refers to alive: an imported region its exported structure,
   an exported structure the exporter's buffers *)
Lemma keeps_alive_l ops id n r :
  nth_error (nodes (run ops init)) id = Some n -> In r (node_refs n) ->
  r < id /\ exists m, nth_error (nodes (run ops init)) r = Some m /\ node_rel m = 0.
Proof.
  intros Hn Hr. pose proof (reach_inv ops) as I. split; [apply (inv_dag _ I id n r Hn Hr)|].
  apply (inv1 _ I). unfold all_refs. apply in_or_app. right. eapply in_flat_map_nth; eauto.
Qed.

Lemma pool_accounting_l ops : pool (run ops init) = live_resv (run ops init).
Proof. apply (inv4 _ (reach_inv ops)). Qed.

(* a release is final: counters never decrease and released nodes stay released *)
Lemma settle_from_rel_mono k pre cur id n : nth_error (nodes cur) id = Some n ->
  exists n', nth_error (nodes (settle_from k pre cur)) id = Some n' /\ node_rel n <= node_rel n'.
Proof.
  revert cur n; induction k as [|k IH]; intros cur n Hn; [exists n; auto|]. cbn [settle_from].
  destruct (_ && _).
  - destruct (Nat.eq_dec id k) as [->|Hne].
    + destruct (release_nodes cur k n Hn) as (Hns & _ & _).
      assert (Hk : k < length (nodes cur)) by (apply nth_error_Some; unfold node_at in Hn; congruence).
      destruct (IH (release k cur) (fst (release_node n))) as (n' & Hn' & Hr).
      { rewrite Hns. apply nth_error_upd_nth_eq. exact Hk. }
      exists n'. split; [exact Hn'|]. rewrite release_node_rel in Hr. lia.
    + destruct (IH (release k cur) n) as (n' & Hn' & Hr); [rewrite release_node_at_ne by exact Hne; exact Hn|]. eauto.
  - apply IH. exact Hn.
Qed.
