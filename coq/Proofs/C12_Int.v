(* C12 — proofs about the fixed-width integer vocabulary: every checked op is exact-or-Overflow,
   every wrapping op is the exact result reduced into the type, div/rem error exactly on a zero
   divisor (and MIN / -1 for div).  Parametric in the half-modulus H > 0. *)
From Coq Require Import List ZArith Bool Lia Zquot.
From AV Require Import Model.C12_Int.
Import ListNotations.
Local Open Scope Z_scope.

Section Width.
Variable H : Z.
Hypothesis Hpos : 0 < H.

Lemma in_range_iff s z : in_range s H z = true <-> tmin s H <= z <= tmax s H.
Proof. unfold in_range. rewrite andb_true_iff, !Z.leb_le. tauto. Qed.

Lemma wrap_in_range s z : in_range s H (wrap s H z) = true.
Proof.
  apply in_range_iff. unfold wrap, tmin, tmax. destruct s.
  - pose proof (Z.mod_pos_bound (z + H) (2 * H) ltac:(lia)). lia.
  - pose proof (Z.mod_pos_bound z (2 * H) ltac:(lia)). lia.
Qed.

Lemma wrap_small s z : in_range s H z = true -> wrap s H z = z.
Proof.
  intros R. apply in_range_iff in R. unfold wrap, tmin, tmax in *. destruct s.
  - rewrite Z.mod_small by lia. lia.
  - apply Z.mod_small. lia.
Qed.

Lemma wrap_fix_iff s z : wrap s H z = z <-> in_range s H z = true.
Proof.
  split; [|apply wrap_small]. intros E. rewrite <- E. apply wrap_in_range.
Qed.

(* congruence: the wrapped value differs from the exact one by a multiple of the modulus 2H *)
Lemma wrap_cong s z : exists k, wrap s H z = z + k * (2 * H).
Proof.
  unfold wrap. destruct s.
  - exists (- ((z + H) / (2 * H))). pose proof (Z.div_mod (z + H) (2 * H) ltac:(lia)). lia.
  - exists (- (z / (2 * H))). pose proof (Z.div_mod z (2 * H) ltac:(lia)). lia.
Qed.

(* uniqueness: an in-range value congruent to z is wrap z *)
Lemma wrap_unique s z r k : in_range s H r = true -> r = z + k * (2 * H) -> r = wrap s H z.
Proof.
  intros R E. apply in_range_iff in R. unfold wrap, tmin, tmax in *. destruct s.
  - replace (z + H) with ((r + H) + (- k) * (2 * H)) by lia.
    rewrite Z.mod_add by lia. rewrite Z.mod_small by lia. lia.
  - replace z with (r + (- k) * (2 * H)) by lia.
    rewrite Z.mod_add by lia. rewrite Z.mod_small by lia. lia.
Qed.

Lemma std_checked_spec s z :
  std_checked s H z = if in_range s H z then Some z else None.
Proof.
  unfold std_checked, overflowing.
  destruct (in_range s H z) eqn:R.
  - rewrite (wrap_small s z R), Z.eqb_refl. reflexivity.
  - destruct (Z.eqb_spec (wrap s H z) z) as [E|E]; [|reflexivity].
    apply wrap_fix_iff in E. congruence.
Qed.

(* ---- truncating division stays in range except for MIN / -1 *)
Lemma quot_bound a b : b <> 0 -> Z.abs (Z.quot a b) <= Z.abs a.
Proof.
  intros Hb.
  rewrite <- Z.quot_abs by assumption.
  assert (Ha : 0 <= Z.abs a) by apply Z.abs_nonneg.
  assert (Hb' : 0 < Z.abs b) by lia.
  generalize dependent (Z.abs a). generalize dependent (Z.abs b). clear a b Hb. intros b Hb a Ha.
  pose proof (Z.quot_pos a b Ha Hb).
  pose proof (Z.mul_quot_le a b Ha ltac:(lia)).
  nia.
Qed.

Lemma quot_sign_pos a b : 0 <= a -> 0 < b -> 0 <= Z.quot a b.
Proof. intros. apply Z.quot_pos; assumption. Qed.

Lemma quot_in_range s a b :
  in_range s H a = true -> in_range s H b = true -> b <> 0 ->
  in_range s H (Z.quot a b) = negb (s && (a =? tmin s H) && (b =? -1)).
Proof.
  intros Ra Rb Hb. apply in_range_iff in Ra. apply in_range_iff in Rb.
  pose proof (quot_bound a b Hb) as Q.
  destruct s; cbn [andb negb]; unfold tmin, tmax in *.
  - destruct (Z.eqb_spec a (- H)) as [Ea|Ea]; cbn [andb negb].
    + destruct (Z.eqb_spec b (-1)) as [Eb|Eb]; cbn [negb].
      * subst a b. replace (- H) with (- H * 1 * 1) by ring.
        change (-1) with (- (1)). rewrite Z.quot_opp_r by lia.
        replace (- H * 1 * 1) with (- H) by ring. rewrite Z.quot_1_r.
        unfold in_range, tmin, tmax. apply andb_false_iff. right. apply Z.leb_gt. lia.
      * apply in_range_iff. unfold tmin, tmax. subst a.
        (* |b| >= 2 or b = 1 *)
        destruct (Z.eq_dec b 1) as [E1|E1].
        { subst b. rewrite Z.quot_1_r. lia. }
        assert (Hb2 : 2 <= Z.abs b) by lia.
        assert (A : Z.abs (- H) = H) by lia.
        assert (Z.quot H (Z.abs b) <= Z.quot H 2).
        { apply Z.quot_le_compat_l; lia. }
        assert (Z.quot H 2 < H) by (apply Z.quot_lt; lia).
        assert (A2 : Z.abs (Z.quot (- H) b) < H).
        { rewrite <- Z.quot_abs by assumption. rewrite A. lia. }
        lia.
    + cbn [negb]. apply in_range_iff. unfold tmin, tmax. lia.
  - apply in_range_iff. unfold tmin, tmax.
    pose proof (Z.quot_pos a b ltac:(lia) ltac:(lia)). lia.
Qed.

Lemma rem_in_range s a b : in_range s H a = true -> b <> 0 -> in_range s H (Z.rem a b) = true.
Proof.
  intros Ra Hb. apply in_range_iff in Ra. apply in_range_iff.
  pose proof (Z.rem_le).
  destruct (Z_le_gt_dec 0 a) as [Ha|Ha].
  - pose proof (Zrem_lt_pos a b Ha Hb).
    assert (Z.rem a b <= a).
    { rewrite <- (Z.rem_abs_r a b) by assumption. apply Z.rem_le; lia. }
    destruct s; unfold tmin, tmax in *; lia.
  - pose proof (Zrem_lt_neg a b ltac:(lia) Hb).
    assert (a <= Z.rem a b).
    { assert (E : Z.rem a b = - Z.rem (- a) (Z.abs b)).
      { rewrite Z.rem_abs_r by assumption. rewrite Z.rem_opp_l by assumption. ring. }
      rewrite E. pose proof (Z.rem_le (- a) (Z.abs b) ltac:(lia) ltac:(lia)). lia. }
    destruct s; unfold tmin, tmax in *; lia.
Qed.

Lemma rem_m1 a : Z.rem a (-1) = 0.
Proof. change (-1) with (- (1)). rewrite Z.rem_opp_r by lia. apply Z.rem_1_r. Qed.

(* ---- the main scalar theorem *)
Theorem integer_op_elem_spec s op a b :
  in_range s H a = true -> in_range s H b = true ->
  integer_op_elem s H op a b = spec_scalar s H op a b.
Proof.
  intros Ra Rb. unfold integer_op_elem, spec_scalar.
  destruct op; cbn [is_divrem is_wrapping andb exact_op];
    unfold wrapping_add, wrapping_sub, wrapping_mul, add_checked, sub_checked, mul_checked,
           checked_add, checked_sub, checked_mul;
    try reflexivity;
    try (rewrite std_checked_spec; match goal with |- context [in_range s H ?z] => destruct (in_range s H z) end; reflexivity).
  - (* Div *)
    unfold div_checked. destruct (Z.eqb_spec b 0) as [Eb|Eb]; [reflexivity|].
    unfold checked_div. rewrite (proj2 (Z.eqb_neq b 0) Eb). cbn [orb].
    rewrite (quot_in_range s a b Ra Rb Eb).
    destruct (s && (a =? tmin s H) && (b =? -1)); reflexivity.
  - (* Rem *)
    destruct (Z.eqb_spec b 0) as [Eb|Eb]; [reflexivity|].
    rewrite (rem_in_range s a b Ra Eb). unfold wrapping_rem.
    destruct s; cbn [andb]; [|reflexivity].
    destruct (Z.eqb_spec b (-1)) as [E1|E1]; [|reflexivity].
    subst b. now rewrite rem_m1.
Qed.

(* results of the kernel closure are always representable *)
Theorem integer_op_elem_in_range s op a b z :
  in_range s H a = true -> in_range s H b = true ->
  integer_op_elem s H op a b = Ok z -> in_range s H z = true.
Proof.
  intros Ra Rb. rewrite (integer_op_elem_spec s op a b Ra Rb). unfold spec_scalar.
  destruct (is_divrem op && (b =? 0)) eqn:D; [discriminate|].
  destruct (is_wrapping op) eqn:Wp.
  - intros E. inversion E. apply wrap_in_range.
  - destruct (in_range s H (exact_op op a b)) eqn:R; [|discriminate]. intros E. inversion E. subst. exact R.
Qed.

(* ---- the trait-level methods (used by decimals, aggregates, and recorded for rem) *)
Lemma add_checked_spec s a b : add_checked s H a b = if in_range s H (a + b) then Ok (a + b) else Err E_OVERFLOW.
Proof. unfold add_checked, checked_add. rewrite std_checked_spec. destruct (in_range s H (a + b)); reflexivity. Qed.
Lemma sub_checked_spec s a b : sub_checked s H a b = if in_range s H (a - b) then Ok (a - b) else Err E_OVERFLOW.
Proof. unfold sub_checked, checked_sub. rewrite std_checked_spec. destruct (in_range s H (a - b)); reflexivity. Qed.
Lemma mul_checked_spec s a b : mul_checked s H a b = if in_range s H (a * b) then Ok (a * b) else Err E_OVERFLOW.
Proof. unfold mul_checked, checked_mul. rewrite std_checked_spec. destruct (in_range s H (a * b)); reflexivity. Qed.

Lemma div_checked_spec s a b : in_range s H a = true -> in_range s H b = true ->
  div_checked s H a b = if b =? 0 then Err E_DIVZERO
                        else if in_range s H (Z.quot a b) then Ok (Z.quot a b) else Err E_OVERFLOW.
Proof. intros Ra Rb. exact (integer_op_elem_spec s Div a b Ra Rb). Qed.

(* neg *)
Theorem neg_checked_spec a : in_range true H a = true -> neg_checked true H a = spec_neg true H a.
Proof.
  intros Ra. apply in_range_iff in Ra. unfold neg_checked, checked_neg, spec_neg, tmin, tmax in *.
  destruct (Z.eqb_spec a (- H)) as [E|E].
  - subst a. replace (in_range true H (- - H)) with false; [reflexivity|].
    symmetry. unfold in_range, tmin, tmax. apply andb_false_iff. right. apply Z.leb_gt. lia.
  - replace (in_range true H (- a)) with true; [reflexivity|].
    symmetry. apply in_range_iff. unfold tmin, tmax. lia.
Qed.
(* unsigned checked_neg (std): Some 0 for 0, None otherwise = exact-or-overflow as well *)
Theorem neg_checked_unsigned_spec a : in_range false H a = true -> neg_checked false H a = spec_neg false H a.
Proof.
  intros Ra. apply in_range_iff in Ra. unfold neg_checked, checked_neg, spec_neg, tmin, tmax in *.
  destruct (Z.eqb_spec a 0) as [E|E].
  - subst a. replace (in_range false H (- 0)) with true; [reflexivity|].
    symmetry. apply in_range_iff. unfold tmin, tmax. lia.
  - replace (in_range false H (- a)) with false; [reflexivity|].
    symmetry. unfold in_range, tmin, tmax. apply andb_false_iff. left. apply Z.leb_gt. lia.
Qed.

(* The trait method mod_checked deviates from exact-or-error at MIN % -1 (the kernel does not use it
   for integers: integer_op goes through mod_wrapping, see integer_op_elem_spec). *)
Lemma mod_checked_min_neg1 : mod_checked true H (- H) (-1) = Err E_OVERFLOW /\ Z.rem (- H) (-1) = 0.
Proof.
  split; [|apply rem_m1]. unfold mod_checked, checked_rem, tmin. cbn [andb].
  rewrite Z.eqb_refl. reflexivity.
Qed.

End Width.

(* uniform-signature wrappers (section discharge drops unused hypotheses) *)
Lemma neg_checked_exact_all (H : Z) (Hp : 0 < H) (s : bool) (a : Z) :
  in_range s H a = true ->
  neg_checked s H a = (if in_range s H (- a) then Ok (- a) else Err E_OVERFLOW).
Proof.
  intros R. destruct s.
  - now apply neg_checked_spec.
  - now apply neg_checked_unsigned_spec.
Qed.
Lemma mod_checked_min_neg1_all (H : Z) (Hp : 0 < H) :
  mod_checked true H (- H) (-1) = Err E_OVERFLOW /\ Z.rem (- H) (-1) = 0.
Proof. apply mod_checked_min_neg1. Qed.
Lemma wrap_is_reduction_all (H : Z) (Hp : 0 < H) (s : bool) (z : Z) :
  in_range s H (wrap s H z) = true /\ exists k, wrap s H z = z + k * (2 * H).
Proof. split; [now apply wrap_in_range|now apply wrap_cong]. Qed.

(* non-vacuity: concrete 8-bit instances *)
Example ex_div_min_neg1 : integer_op_elem true 128 Div (-128) (-1) = Err E_OVERFLOW.
Proof. vm_compute. reflexivity. Qed.
Example ex_rem_min_neg1 : integer_op_elem true 128 Rem (-128) (-1) = Ok 0.
Proof. vm_compute. reflexivity. Qed.
Example ex_add_wrap : integer_op_elem true 128 AddWrapping 127 1 = Ok (-128).
Proof. vm_compute. reflexivity. Qed.
Example ex_mul_u8 : integer_op_elem false 128 Mul 16 16 = Err E_OVERFLOW /\ integer_op_elem false 128 Mul 15 17 = Ok 255.
Proof. vm_compute. split; reflexivity. Qed.
