(* C17 — Avro: decode inverts encode, by induction over schemas, for every block splitting of arrays / maps
   (what arrow-avro writes is bk = 0, sized = false), in the positive-count form and in the
   negative-count + byte-size form. *)
From Coq Require Import List NArith ZArith Lia Bool Arith ZifyN ZifyNat ZifyBool.
From AV Require Import Base.Utf8 Model.C17_Avro Proofs.C17_Varint Proofs.C17_AvroLemmas.
Import ListNotations.
Local Open Scope N_scope.

(* ------------------------------------------------------------------ induction over schemas (nested lists) *)
Definition sub_hyp (P : schema -> Prop) (s : schema) : Prop :=
  match s with
  | SArray t | SMap t | SNullable _ t => P t
  | SUnion l | SRecord l => Forall P l
  | _ => True
  end.

Definition schema_ind2 (P : schema -> Prop) (H : forall s, sub_hyp P s -> P s) : forall s, P s :=
  fix IH (s : schema) : P s :=
    H s (match s as s0 return sub_hyp P s0 with
         | SArray t => IH t
         | SMap t => IH t
         | SNullable _ t => IH t
         | SUnion l => (fix go (l : list schema) : Forall P l :=
                          match l with [] => Forall_nil P | x :: r => Forall_cons x (IH x) (go r) end) l
         | SRecord l => (fix go (l : list schema) : Forall P l :=
                           match l with [] => Forall_nil P | x :: r => Forall_cons x (IH x) (go r) end) l
         | _ => I
         end).

Section Main.
Variable bk : nat.
Variable sized : bool.

Notation enc := (encode bk sized).
(* the byte sizes written in the sized form must not wrap an i64 *)
Definition fits (l : list N) : Prop := sized = true -> (Z.of_nat (length l) < 2^63)%Z.
Definition ok (s : schema) : Prop :=
  forall d rest, wf s d -> fits (enc s d) -> decode s (enc s d ++ rest) = Some (d, rest).

Lemma fits_le (a b : list N) : (length a <= length b)%nat -> fits b -> fits a.
Proof. unfold fits. intros H Hb Hs. specialize (Hb Hs). lia. Qed.

(* unfolding equations for the nested fixpoints *)
Definition enc_pick (x : datum) :=
  fix pick (l : list schema) (i : nat) {struct l} : list N :=
    match l with [] => [] | t :: l' => match i with O => enc t x | S i' => pick l' i' end end.
Definition enc_fields :=
  fix fields (l : list schema) (vs : list datum) {struct l} : list N :=
    match l, vs with t :: l', v :: vs' => enc t v ++ fields l' vs' | _, _ => [] end.
Definition dec_pick (r : list N) :=
  fix pick (l : list schema) (k : nat) (idx : Z) {struct l} : option (datum * list N) :=
    match l with
    | [] => None
    | t :: l' => if (idx =? 0)%Z then map_res (DUnion k) (decode t r) else pick l' (S k) (idx - 1)%Z
    end.
Definition dec_fields :=
  fix fields (l : list schema) (b : list N) {struct l} : option (list datum * list N) :=
    match l with
    | [] => Some ([], b)
    | t :: l' => match decode t b with
                 | None => None
                 | Some (d, b') => match fields l' b' with None => None | Some (ds, b'') => Some (d :: ds, b'') end
                 end
    end.
Definition wf_pick (x : datum) :=
  fix pick (l : list schema) (i : nat) {struct l} : Prop :=
    match l with [] => False | t :: l' => match i with O => wf t x | S i' => pick l' i' end end.
Definition wf_fields :=
  fix fields (l : list schema) (vs : list datum) {struct l} : Prop :=
    match l, vs with [], [] => True | t :: l', v :: vs' => wf t v /\ fields l' vs' | _, _ => False end.

Lemma enc_union brs k x : enc (SUnion brs) (DUnion k x) = write_long (Z.of_nat k) ++ enc_pick x brs k.
Proof. reflexivity. Qed.
Lemma enc_record fs ds : enc (SRecord fs) (DRecord ds) = enc_fields fs ds.
Proof. reflexivity. Qed.
Lemma dec_union brs bs : decode (SUnion brs) bs =
  match get_long bs with None => None | Some (i, r) => if (i <? 0)%Z then None else dec_pick r brs O i end.
Proof. reflexivity. Qed.
Lemma dec_record fs bs : decode (SRecord fs) bs = map_res DRecord (dec_fields fs bs).
Proof. reflexivity. Qed.
Lemma wf_union brs k x : wf (SUnion brs) (DUnion k x) = ((Z.of_nat k < 2^31)%Z /\ wf_pick x brs k).
Proof. reflexivity. Qed.
Lemma wf_record fs ds : wf (SRecord fs) (DRecord ds) = wf_fields fs ds.
Proof. reflexivity. Qed.

Lemma pick_ok x rest : forall brs k k0, Forall ok brs -> wf_pick x brs k -> fits (enc_pick x brs k) ->
  dec_pick (enc_pick x brs k ++ rest) brs k0 (Z.of_nat k) = Some (DUnion (k0 + k) x, rest).
Proof.
  induction brs as [|t brs IH]; intros k k0 Hall Hwf Hfit; [contradiction|].
  inversion Hall as [|? ? Ht Hrest]; subst.
  destruct k as [|k].
  - cbn [enc_pick dec_pick wf_pick] in *. change (Z.of_nat 0 =? 0)%Z with true. cbv iota.
    rewrite (Ht x rest Hwf Hfit). cbn [map_res]. now rewrite Nat.add_0_r.
  - cbn [enc_pick dec_pick wf_pick] in *.
    destruct (Z.eqb_spec (Z.of_nat (S k)) 0) as [?|_]; [lia|].
    replace (Z.of_nat (S k) - 1)%Z with (Z.of_nat k) by lia.
    fold (enc_pick x) in *. fold (dec_pick (enc_pick x brs k ++ rest)).
    rewrite (IH k (S k0) Hrest Hwf Hfit). f_equal. f_equal. f_equal. lia.
Qed.

Lemma fields_ok : forall fs ds rest, Forall ok fs -> wf_fields fs ds -> fits (enc_fields fs ds) ->
  dec_fields fs (enc_fields fs ds ++ rest) = Some (ds, rest).
Proof.
  induction fs as [|t fs IH]; intros ds rest Hall Hwf Hfit.
  - destruct ds; [reflexivity|contradiction].
  - destruct ds as [|v ds]; [contradiction|]. inversion Hall as [|? ? Ht Hrest]; subst.
    cbn [wf_fields] in Hwf. destruct Hwf as [Hv Hds].
    cbn [enc_fields dec_fields] in *. fold enc_fields in *. fold dec_fields.
    rewrite <- app_assoc. rewrite (Ht v _ Hv) by (eapply fits_le; [|exact Hfit]; rewrite app_length; lia).
    rewrite (IH ds rest Hrest Hds) by (eapply fits_le; [|exact Hfit]; rewrite app_length; lia). reflexivity.
Qed.

Lemma blocks_len (items : list (list N)) : blocks bk sized items = enc_blocks (length items) bk sized items.
Proof. reflexivity. Qed.

Theorem decode_encode_all : forall s, ok s.
Proof.
  apply schema_ind2. intros s IH. unfold ok. intros d rest Hwf Hfit.
  destruct s; cbn [sub_hyp] in IH.
  - (* null *) destruct d; cbn [wf] in Hwf; try contradiction. reflexivity.
  - (* boolean *) destruct d; cbn [wf] in Hwf; try contradiction. destruct b; reflexivity.
  - (* int *) destruct d; cbn [wf] in Hwf; try contradiction.
    cbn [encode decode]. now rewrite get_int_write by exact Hwf.
  - (* long *) destruct d; cbn [wf] in Hwf; try contradiction.
    cbn [encode decode]. now rewrite get_long_write by exact Hwf.
  - (* float *) destruct d; cbn [wf] in Hwf; try contradiction.
    cbn [encode decode]. rewrite take_le_bytes. cbn [map_res]. rewrite le_value_le_bytes.
    change (2^(8 * N.of_nat 4)) with (2^32). now rewrite N.mod_small by exact Hwf.
  - (* double *) destruct d; cbn [wf] in Hwf; try contradiction.
    cbn [encode decode]. rewrite take_le_bytes. cbn [map_res]. rewrite le_value_le_bytes.
    change (2^(8 * N.of_nat 8)) with (2^64). now rewrite N.mod_small by exact Hwf.
  - (* bytes *) destruct d; cbn [wf] in Hwf; try contradiction. destruct Hwf as [_ Hl].
    cbn [encode decode]. now rewrite get_bytes_write by exact Hl.
  - (* string *) destruct d; cbn [wf] in Hwf; try contradiction. destruct Hwf as [_ [Hl Hu]].
    cbn [encode decode]. rewrite get_bytes_write by exact Hl. now rewrite Hu.
  - (* fixed *) destruct d; cbn [wf] in Hwf; try contradiction. destruct Hwf as [_ Hn].
    cbn [encode decode]. rewrite <- Hn. now rewrite take_app.
  - (* enum *) destruct d; cbn [wf] in Hwf; try contradiction. destruct Hwf as [Hr Hi].
    cbn [encode decode]. rewrite get_int_write by exact Hi.
    destruct (Z.leb_spec 0 i) as [_|?]; [|lia]. destruct (Z.ltb_spec i (Z.of_nat nsym)) as [_|?]; [|lia]. reflexivity.
  - (* decimal over bytes *) destruct d; cbn [wf] in Hwf; try contradiction. destruct Hwf as [Hw Hv].
    cbn [encode decode].
    pose proof (be_bytes_bytes w v) as HB. pose proof (be_bytes_length w v) as HL.
    destruct (minimal_twos_skip (be_bytes w v) HB) as [dd [Hd [Hm [Hf Hs]]]].
    { intros E. rewrite E in HL. cbn [length] in HL. lia. }
    rewrite get_bytes_write.
    + rewrite Hm. rewrite <- HL at 1. rewrite (sign_fit_skip _ dd HB Hd Hf Hs).
      now rewrite from_be_be_bytes by (try exact Hv; lia).
    + unfold len_ok. rewrite Hm, skipn_length. lia.
  - (* decimal over fixed *) destruct d; cbn [wf] in Hwf; try contradiction. destruct Hwf as [Hw [Hn [Hv Hacc]]].
    cbn [encode decode].
    pose proof (be_bytes_bytes w v) as HB. pose proof (be_bytes_length w v) as HL.
    destruct (sign_fit n (be_bytes w v)) as [R|] eqn:HR; [|contradiction].
    pose proof (sign_fit_length _ _ _ HR) as HRl.
    rewrite <- HRl at 1. rewrite take_app.
    rewrite <- HL at 1. rewrite (sign_fit_back _ n R HB ltac:(lia) Hn HR).
    now rewrite from_be_be_bytes by (try exact Hv; lia).
  - (* array *) destruct d; cbn [wf] in Hwf; try contradiction. destruct Hwf as [Hlen Hall].
    cbn [encode decode] in *. rewrite blocks_len, map_length in *.
    assert (Hcat : fits (concat (map (enc s) l))).
    { eapply fits_le; [|exact Hfit]. apply enc_blocks_concat_le. now rewrite map_length. }
    rewrite (read_blocks_enc (decode s) (enc s) bk sized (length l) l rest 0 [] _).
    + reflexivity.
    + intros a r Hin. apply IH; [rewrite Forall_forall in Hall; now apply Hall|].
      eapply fits_le; [|exact Hcat]. apply in_concat_le. now apply in_map.
    + exact Hcat.
    + lia.
    + unfold max_items in Hlen. lia.
    + lia.
    + rewrite app_length. lia.
  - (* map *) destruct d; cbn [wf] in Hwf; try contradiction. destruct Hwf as [Hlen Hall].
    cbn [encode decode] in *. rewrite blocks_len, map_length in *.
    set (encA := fun kv : list N * datum => write_len_prefixed (fst kv) ++ enc s (snd kv)) in *.
    assert (Hcat : fits (concat (map encA l))).
    { eapply fits_le; [|exact Hfit]. apply enc_blocks_concat_le. now rewrite map_length. }
    rewrite (read_blocks_enc _ encA bk sized (length l) l rest 0 [] _).
    + reflexivity.
    + intros [k x] r Hin. rewrite Forall_forall in Hall. destruct (Hall _ Hin) as [_ [Hk [Hu Hx]]]. cbn [fst snd] in *.
      unfold encA. cbn [fst snd]. rewrite <- app_assoc. rewrite get_bytes_write by exact Hk. rewrite Hu.
      rewrite (IH x r Hx); [reflexivity|].
      eapply fits_le; [|exact Hcat].
      transitivity (length (encA (k, x))); [unfold encA; cbn [fst snd]; rewrite app_length; lia|].
      apply in_concat_le. now apply (in_map encA).
    + exact Hcat.
    + lia.
    + unfold max_items in Hlen. lia.
    + lia.
    + rewrite app_length. lia.
  - (* nullable *) destruct d; cbn [wf] in Hwf; try contradiction.
    destruct o as [x|]; destruct null_second; cbn [encode decode app read_varint];
      try (change (0 <? 128) with true); try (change (2 <? 128) with true); cbv iota;
      try (change (0 =? 0) with true); try (change (2 =? 0) with false); cbn [negb]; cbv iota;
      try (rewrite (IH x rest Hwf) by (eapply fits_le; [|exact Hfit]; cbn [encode length]; lia)); reflexivity.
  - (* union *) destruct d; try (cbn [wf] in Hwf; contradiction).
    rewrite wf_union in Hwf. destruct Hwf as [Hk Hp].
    rewrite enc_union in Hfit. rewrite enc_union, dec_union, <- app_assoc. rewrite get_long_write by lia.
    destruct (Z.ltb_spec (Z.of_nat k) 0) as [?|_]; [lia|].
    rewrite (pick_ok d rest branches k O IH Hp); [reflexivity|].
    eapply fits_le; [|exact Hfit]. rewrite app_length. lia.
  - (* record *) destruct d; try (cbn [wf] in Hwf; contradiction).
    rewrite wf_record in Hwf. rewrite enc_record in Hfit. rewrite enc_record, dec_record.
    now rewrite (fields_ok fields l rest IH Hwf Hfit).
Qed.
End Main.

(* ------------------------------------------------------------------ corollaries *)
Theorem decode_encode bk s d rest : wf s d -> decode s (encode bk false s d ++ rest) = Some (d, rest).
Proof. intros H. apply (decode_encode_all bk false s d rest H). discriminate. Qed.

(* the negative-count + byte-size block form: the sizes written must fit an i64 *)
Theorem decode_encode_sized bk s d rest : wf s d -> (Z.of_nat (length (encode bk true s d)) < 2^63)%Z ->
  decode s (encode bk true s d ++ rest) = Some (d, rest).
Proof. intros H Hl. apply (decode_encode_all bk true s d rest H). intros _. exact Hl. Qed.

Corollary decode_encode_writer s d : wf s d -> decode s (encode_w s d) = Some (d, []).
Proof. intros H. rewrite <- (app_nil_r (encode_w s d)). now apply decode_encode. Qed.

(* decimal over bytes: minimal two's complement form, sign extension back to w bytes, value *)
Theorem decimal_bytes_roundtrip w v : (0 < w)%nat -> (- 2^(8 * Z.of_nat w - 1) <= v < 2^(8 * Z.of_nat w - 1))%Z ->
  sign_fit w (minimal_twos (be_bytes w v)) = Some (be_bytes w v) /\ from_be (be_bytes w v) = v.
Proof.
  intros Hw Hv. split; [|now apply from_be_be_bytes].
  pose proof (be_bytes_bytes w v) as HB. pose proof (be_bytes_length w v) as HL.
  destruct (minimal_twos_skip (be_bytes w v) HB) as [dd [Hd [Hm [Hf Hs]]]].
  { intros E. rewrite E in HL. cbn [length] in HL. lia. }
  rewrite Hm. rewrite <- HL at 1. now apply sign_fit_skip.
Qed.

(* decimal over fixed(n): whatever the writer's sign extension / truncation accepts is read back *)
Theorem decimal_fixed_roundtrip w n v R : (0 < w)%nat -> (0 < n)%nat ->
  (- 2^(8 * Z.of_nat w - 1) <= v < 2^(8 * Z.of_nat w - 1))%Z ->
  sign_fit n (be_bytes w v) = Some R ->
  length R = n /\ sign_fit w R = Some (be_bytes w v) /\ from_be (be_bytes w v) = v.
Proof.
  intros Hw Hn Hv HR. split; [now apply sign_fit_length in HR|]. split; [|now apply from_be_be_bytes].
  pose proof (be_bytes_length w v) as HL. rewrite <- HL at 1.
  apply (sign_fit_back _ n R); [apply be_bytes_bytes|lia|exact Hn|exact HR].
Qed.

(* non-vacuity: a nested datum satisfying wf, and its round trip computed *)
Definition ex_schema : schema :=
  SRecord [SLong; SNullable false SString; SArray (SNullable true SInt); SMap SDouble;
           SUnion [SNull; SBool; SBytes]; SDecBytes 16; SDecFixed 16 5; SEnum 3].
Definition ex_datum : datum :=
  DRecord [DLong (-9223372036854775808)%Z; DOpt (Some (DString [104; 195; 169]));
           DArray [DOpt (Some (DInt 7%Z)); DOpt None; DOpt (Some (DInt (-2147483648)%Z))];
           DMap [([97], DDouble 4611686018427387904); ([98; 99], DDouble 0)];
           DUnion 2 (DBytes [1; 2; 255]); DDec (-129)%Z; DDec 70000%Z; DEnum 2%Z].
Example ex_wf : wf ex_schema ex_datum.
Proof.
  cbn [wf ex_schema ex_datum]. unfold i64, i32, byte_list, len_ok, max_items. cbn [length].
  repeat split; try lia; try reflexivity; try discriminate;
    repeat (constructor; cbn [fst snd wf length]; unfold i32, byte_list, len_ok; repeat split; try lia; try reflexivity).
Qed.
Example ex_roundtrip : decode ex_schema (encode 2 false ex_schema ex_datum) = Some (ex_datum, [])
  /\ decode ex_schema (encode 1 true ex_schema ex_datum) = Some (ex_datum, []).
Proof. split; vm_compute; reflexivity. Qed.
