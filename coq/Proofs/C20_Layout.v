(* C20 — offsets/values layouts, length / bit_length, concat_elements. *)
From Coq Require Import List NArith ZArith Arith Lia Bool.
From AV Require Import Base.Utf8 Model.C20_Like Model.C20_Substr Proofs.C20_Utf8.
Import ListNotations.

Lemma slice_app_mid {A} (pre v post : list A) :
  slice (pre ++ v ++ post) (length pre) (length pre + length v) = v.
Proof.
  unfold slice. rewrite skipn_app, skipn_all, Nat.sub_diag. cbn [app skipn].
  replace (length pre + length v - length pre) with (length v) by lia.
  rewrite firstn_app, firstn_all, Nat.sub_diag. cbn. apply app_nil_r.
Qed.

Lemma windows_offsets_from o v r :
  windows (offsets_from o (v :: r)) = (o, (o + Z.of_nat (length v))%Z) :: windows (offsets_from (o + Z.of_nat (length v)) r).
Proof. cbn [offsets_from windows]. destruct r; reflexivity. Qed.
Lemma windows_offsets_nil o : windows (offsets_from o []) = [].
Proof. reflexivity. Qed.

Lemma zslice_layout (pre v post : list N) :
  zslice (pre ++ v ++ post) (Z.of_nat (length pre)) (Z.of_nat (length pre) + Z.of_nat (length v)) = v.
Proof.
  unfold zslice. rewrite <- Nat2Z.inj_add, !Nat2Z.id. apply slice_app_mid.
Qed.

(* the values denoted by a layout are the values laid out *)
Theorem values_of_layout vs : forall pre post,
  values_of (layout_offsets pre vs) (layout_data pre vs post) = vs.
Proof.
  unfold values_of, layout_offsets, layout_data.
  induction vs as [|v r IH]; intros pre post; [reflexivity|].
  rewrite windows_offsets_from. cbn [map fst snd concat]. rewrite <- app_assoc.
  rewrite zslice_layout. f_equal.
  specialize (IH (pre ++ v) post). rewrite app_length, Nat2Z.inj_add in IH.
  rewrite <- app_assoc in IH. exact IH.
Qed.

(* ------------------------------------------------------------------ length / bit_length *)
Lemma wrap_id bits z : (1 <= bits)%Z -> (- 2 ^ (bits - 1) <= z < 2 ^ (bits - 1))%Z -> wrap bits z = z.
Proof.
  intros Hb Hz. unfold wrap.
  assert (E : (2 ^ bits = 2 * 2 ^ (bits - 1))%Z).
  { replace bits with (Z.succ (bits - 1)) at 1 by lia. apply Z.pow_succ_r. lia. }
  rewrite E. rewrite Z.mod_small by lia. lia.
Qed.

Lemma length_m_layout bits vs : (1 <= bits)%Z -> forall pre,
  Forall (fun v => (Z.of_nat (length v) < 2 ^ (bits - 1))%Z) vs ->
  length_m bits (layout_offsets pre vs) = map (fun v => Z.of_nat (length v)) vs.
Proof.
  intros Hb. unfold length_m, layout_offsets. induction vs as [|v r IH]; intros pre F; [reflexivity|].
  inversion F as [|? ? Hv Hr]; subst.
  rewrite windows_offsets_from. cbn [map fst snd]. f_equal.
  - rewrite wrap_id; lia.
  - specialize (IH (pre ++ v) Hr). rewrite app_length, Nat2Z.inj_add in IH. exact IH.
Qed.

Theorem length_spec_thm bits ss pre : (1 <= bits)%Z ->
  Forall (fun s => (Z.of_nat (blen s) < 2 ^ (bits - 1))%Z) ss ->
  length_m bits (layout_offsets pre (map utf8 ss)) = map length_spec ss.
Proof.
  intros Hb F. rewrite length_m_layout; [now rewrite map_map|assumption|].
  apply Forall_map. exact F.
Qed.

Lemma bit_length_m_layout bits vs : (1 <= bits)%Z -> forall pre,
  Forall (fun v => (8 * Z.of_nat (length v) < 2 ^ (bits - 1))%Z) vs ->
  bit_length_m bits (layout_offsets pre vs) = map (fun v => (8 * Z.of_nat (length v))%Z) vs.
Proof.
  intros Hb. unfold bit_length_m, layout_offsets. induction vs as [|v r IH]; intros pre F; [reflexivity|].
  inversion F as [|? ? Hv Hr]; subst.
  rewrite windows_offsets_from. cbn [map fst snd]. f_equal.
  - rewrite (wrap_id bits (_ - _)) by lia. rewrite wrap_id; lia.
  - specialize (IH (pre ++ v) Hr). rewrite app_length, Nat2Z.inj_add in IH. exact IH.
Qed.

Theorem bit_length_spec_thm bits ss pre : (1 <= bits)%Z ->
  Forall (fun s => (8 * Z.of_nat (blen s) < 2 ^ (bits - 1))%Z) ss ->
  bit_length_m bits (layout_offsets pre (map utf8 ss)) = map bit_length_spec ss.
Proof.
  intros Hb F. rewrite bit_length_m_layout; [now rewrite map_map|assumption|].
  apply Forall_map. exact F.
Qed.

(* the multiplication wraps for strings of 2^28 bytes and more (i32 offsets) *)
Theorem bit_length_wraps_refuted :
  exists o : list Z, length_m 32 o = [268435456%Z] /\ bit_length_m 32 o <> [(8 * 268435456)%Z].
Proof. exists [0%Z; 268435456%Z]. split; [reflexivity|]. vm_compute. discriminate. Qed.

(* ------------------------------------------------------------------ concat_elements *)
Lemma offsets_from_app o a b :
  offsets_from o (a ++ b) = removelast (offsets_from o a) ++ offsets_from (o + Z.of_nat (length (concat a))) b.
Proof.
  revert o. induction a as [|v a IH]; intros o.
  - cbn. now rewrite Z.add_0_r.
  - cbn [app offsets_from concat]. rewrite IH, app_length, Nat2Z.inj_add, Z.add_assoc.
    destruct (offsets_from (o + Z.of_nat (length v)) a) eqn:E; [destruct a; discriminate|]. reflexivity.
Qed.
Lemma offsets_from_snoc o a v :
  offsets_from o (a ++ [v]) = offsets_from o a ++ [(o + Z.of_nat (length (concat (a ++ [v]))))%Z].
Proof.
  revert o. induction a as [|x a IH]; intros o.
  - cbn. now rewrite app_nil_r.
  - cbn [app offsets_from concat]. rewrite IH. cbn [app]. rewrite !app_length, !Nat2Z.inj_add.
    do 3 f_equal. rewrite concat_app, app_length. cbn. lia.
Qed.

Lemma concat_loop_spec ld rd : forall lw rw done,
  concat_loop lw rw ld rd (concat done) (offsets_from 0 done) =
  let new := map2 (fun l r : Z * Z => zslice ld (fst l) (snd l) ++ zslice rd (fst r) (snd r)) lw rw in
  (offsets_from 0 (done ++ new), concat (done ++ new)).
Proof.
  induction lw as [|[a b] lw IH]; intros rw done.
  - cbn. now rewrite app_nil_r.
  - destruct rw as [|[c d] rw]; [cbn; now rewrite app_nil_r|].
    cbn [concat_loop map2 fst snd].
    set (v := zslice ld a b ++ zslice rd c d).
    specialize (IH rw (done ++ [v])).
    rewrite concat_app in IH. cbn [concat] in IH. rewrite app_nil_r in IH.
    rewrite offsets_from_snoc, concat_app in IH. cbn [concat] in IH. rewrite app_nil_r, Z.add_0_l in IH.
    rewrite IH. cbn zeta. now rewrite <- !app_assoc.
Qed.

Theorem concat_elements_values lo ld ro rd :
  let r := concat_elements_m lo ld ro rd in
  values_of (fst r) (snd r) = map2 (@app N) (values_of lo ld) (values_of ro rd).
Proof.
  unfold concat_elements_m.
  pose proof (concat_loop_spec ld rd (windows lo) (windows ro) []) as E. cbn [concat offsets_from app] in E.
  rewrite E. cbn zeta. cbn [fst snd].
  set (new := map2 _ _ _).
  pose proof (values_of_layout new [] []) as V. unfold layout_offsets, layout_data in V. cbn [length app] in V.
  rewrite app_nil_r in V. change (Z.of_nat 0) with 0%Z in V. rewrite V.
  subst new. unfold values_of. generalize (windows lo) (windows ro).
  induction l as [|x l IH]; intros [|y l0]; cbn [map2 map]; try reflexivity. f_equal. apply IH.
Qed.

(* on laid-out arrays: row-wise concatenation, and concatenation of the code points *)
Theorem concat_elements_spec_thm (ls rs : list (list N)) lpre lpost rpre rpost :
  let r := concat_elements_m (layout_offsets lpre (map utf8 ls)) (layout_data lpre (map utf8 ls) lpost)
                             (layout_offsets rpre (map utf8 rs)) (layout_data rpre (map utf8 rs) rpost) in
  values_of (fst r) (snd r) = map utf8 (map2 (@app N) ls rs).
Proof.
  cbn zeta. rewrite concat_elements_values, !values_of_layout.
  revert rs. induction ls as [|a ls IH]; intros [|b rs]; cbn [map map2]; try reflexivity.
  rewrite utf8_app. f_equal. apply IH.
Qed.

Theorem concat_valid_utf8 a b : scalars a -> scalars b -> valid_utf8 (utf8 a ++ utf8 b) = true.
Proof. intros Ha Hb. rewrite <- utf8_app. apply valid_utf8_utf8. now apply Forall_app. Qed.
