(* C15 — property theorems only: each closed by [exact] and followed by Print Assumptions. *)
From Coq Require Import List Arith NArith ZArith Bool Permutation Relations Wellfounded.
From AV Require Import Model.C15_PushBuf Model.C15_Machine Model.C15_Trace Model.C15_Plan Proofs.C15_PushBuf Proofs.C15_Machine Proofs.C15_Drive Proofs.C15_Async Proofs.C15_Plan.
Import ListNotations.
Local Open Scope N_scope.

(* ------------------------------------------------------------------ PushBuffers *)

(* pushbuf_reads_file: whatever was pushed — in any order, with duplicates, supersets, early or
   unrelated ranges — as long as every pushed buffer carries the file's bytes of its range, a
   successful get_bytes returns exactly the file's bytes [start, start+len). *)
Theorem pushbuf_reads_file : forall (file : list N) (pb : pushbuf) (start len : N) (x : list N),
  Forall (consistent file) (pb_entries pb) -> get_bytes pb start len = Some x -> x = fslice file start len.
Proof. exact get_bytes_reads_file. Qed.
Print Assumptions pushbuf_reads_file.

(* the same for the std::io::Read view (get_read + read): bytes at the virtual offset, offset advances *)
Theorem pushbuf_read_reads_file : forall (file : list N) (pb : pushbuf) (n : N) (x : list N) (pb' : pushbuf),
  Forall (consistent file) (pb_entries pb) -> read pb n = (Some x, pb') ->
  x = fslice file (pb_offset pb) n /\ pb_offset pb' = pb_offset pb + n /\ pb_entries pb' = pb_entries pb.
Proof. exact read_reads_file. Qed.
Print Assumptions pushbuf_read_reads_file.

(* has_range is sufficient: what has_range promises, get_bytes delivers (DataRequest::get_chunks
   cannot hit its "Internal Error missing data" branch). *)
Theorem has_range_get_bytes_succeeds : forall (pb : pushbuf) (s e : N),
  s <= e -> has_range pb (s, e) = true -> exists x, get_bytes pb s (e - s) = Some x.
Proof. exact has_range_get_bytes. Qed.
Print Assumptions has_range_get_bytes_succeeds.

(* M = S: on file-consistent contents get_bytes is: the file's bytes iff ONE pushed range contains
   the request (the non-coalescing rule), independent of anything else. *)
Theorem pushbuf_get_bytes_is_spec : forall (file : list N) (pb : pushbuf) (s l : N),
  Forall (consistent file) (pb_entries pb) ->
  get_bytes pb s l = get_bytes_spec file (map (fun e => (e_st e, e_en e)) (pb_entries pb)) s l.
Proof. exact get_bytes_is_spec. Qed.
Print Assumptions pushbuf_get_bytes_is_spec.

(* independence of push order / duplicates: only the SET of entries matters *)
Theorem pushbuf_order_independent : forall (file : list N) (pb pb' : pushbuf) (s l : N),
  Forall (consistent file) (pb_entries pb) -> Forall (consistent file) (pb_entries pb') ->
  (forall e, In e (pb_entries pb) <-> In e (pb_entries pb')) ->
  get_bytes pb s l = get_bytes pb' s l.
Proof. exact get_bytes_order_independent. Qed.
Print Assumptions pushbuf_order_independent.

(* supplying more (later duplicates, supersets, unrelated ranges) never changes an answer *)
Theorem pushbuf_monotone : forall (pb : pushbuf) (extra : list entry) (s l : N) (x : list N),
  get_bytes pb s l = Some x -> get_bytes (pb_with_entries pb (pb_entries pb ++ extra)) s l = Some x.
Proof. exact get_bytes_monotone. Qed.
Print Assumptions pushbuf_monotone.

(* a superset delivery satisfies the request *)
Theorem pushbuf_superset_satisfies : forall (pb : pushbuf) (st en : N) (data : list N) (s e : N),
  st <= s -> e <= en ->
  has_range (pb_with_entries pb (pb_entries pb ++ [{| e_st := st; e_en := en; e_data := data |}])) (s, e) = true.
Proof. exact superset_satisfies. Qed.
Print Assumptions pushbuf_superset_satisfies.

(* ------------------------------------------------------------------ the decoder protocol
   For every planner (strategy trees [plan], frontier [fr_step], budget update [upd]) whose
   requests along the sync execution are well-formed ranges within the file: *)

(* schedule_independence: under EVERY schedule of pushes (any ranges of the file, any order, any
   number of calls, duplicates, supersets, early/unrelated ranges up to the whole file),
   try_decode / try_next_reader calls, clear_all_ranges calls and rebuilds at row-group boundaries,
   the rows handed out so far followed by what the sync reader would still read from the decoder's
   state are exactly the sync reader's rows; once Finished is returned the rows handed out ARE the
   sync reader's rows; and the decoder never hits an internal error. *)
Theorem schedule_independence :
  forall (Rw B U R : Type) (fr_step : nat -> B -> fstep B R) (plan : R -> phase Rw U) (upd : B -> U -> B) (file : list N),
  (forall r, phase_ok Rw U file (in_file_range file) (plan r)) ->
  forall (q : list nat) (b : B) (sched : list action),
  Forall (valid_action file) sched ->
  let '(m', evs) := run Rw B U R fr_step plan upd file (init Rw B U q b) sched in
  rows_of Rw evs ++ concat (rest Rw B U R fr_step plan upd file m') = sync_rows Rw B U R fr_step plan upd file q b
  /\ (In EFinished evs -> rows_of Rw evs = sync_rows Rw B U R fr_step plan upd file q b)
  /\ ~ In EError evs.
Proof. exact C15_Machine.schedule_independence. Qed.
Print Assumptions schedule_independence.

(* requests_in_file: every NeedsData of every run is non-empty and asks only for ranges within the file *)
Theorem requests_in_file :
  forall (Rw B U R : Type) (fr_step : nat -> B -> fstep B R) (plan : R -> phase Rw U) (upd : B -> U -> B) (file : list N),
  (forall r, phase_ok Rw U file (in_file_range file) (plan r)) ->
  forall (q : list nat) (b : B) (sched : list action) (rs : list range),
  Forall (valid_action file) sched ->
  In (ENeed rs) (snd (run Rw B U R fr_step plan upd file (init Rw B U q b) sched)) ->
  rs <> [] /\ Forall (in_file_range file) rs.
Proof. exact C15_Machine.requests_in_file. Qed.
Print Assumptions requests_in_file.

(* a NeedsData never asks for a range the buffer already holds *)
Theorem need_not_buffered :
  forall (Rw B U R : Type) (fr_step : nat -> B -> fstep B R) (plan : R -> phase Rw U) (upd : B -> U -> B) (file : list N),
  (forall r, phase_ok Rw U file (in_file_range file) (plan r)) ->
  forall (m m' : mach Rw B U) (rs : list range),
  inv Rw B U file m -> try_decode Rw B U R fr_step plan upd m = (m', RNeed rs) ->
  rs <> [] /\ Forall (fun r => has_range (m_buf Rw B U m') r = false) rs.
Proof. exact C15_Machine.need_not_buffered. Qed.
Print Assumptions need_not_buffered.

(* progress, partial supply: while part of the request is missing the decoder stays where it is and
   asks for exactly the missing ranges (so never again for a supplied one) *)
Theorem progress_partial_supply :
  forall (Rw B U R : Type) (fr_step : nat -> B -> fstep B R) (plan : R -> phase Rw U) (upd : B -> U -> B) (file : list N)
         (m : mach Rw B U) (req : list range) (k : list (list N) -> phase Rw U),
  inv Rw B U file m -> waiting Rw B U m req k -> needed_ranges (m_buf Rw B U m) req <> [] ->
  try_decode Rw B U R fr_step plan upd m = (m, RNeed (needed_ranges (m_buf Rw B U m) req)).
Proof. exact C15_Machine.partial_supply_shrinks. Qed.
Print Assumptions progress_partial_supply.

(* progress, full supply: once every requested range is contained in one buffered range, the next
   try_decode yields a batch, finishes, or asks for the ranges of a strictly LATER phase (a
   continuation of the current one, or a later row group) — never the same NeedsData again. *)
Theorem progress_full_supply :
  forall (Rw B U R : Type) (fr_step : nat -> B -> fstep B R) (plan : R -> phase Rw U) (upd : B -> U -> B) (file : list N),
  (forall r, phase_ok Rw U file (in_file_range file) (plan r)) ->
  forall (m : mach Rw B U) (req : list range) (k : list (list N) -> phase Rw U) (m' : mach Rw B U) (res : dres Rw),
  inv Rw B U file m -> waiting Rw B U m req k ->
  needed_ranges (m_buf Rw B U m) req = [] -> try_decode Rw B U R fr_step plan upd m = (m', res) ->
  match res with
  | RNeed rs =>
      exists req' k', m_rg Rw B U m' = RGWait req' k' /\ rs = needed_ranges (m_buf Rw B U m') req' /\
        ((length (m_queue Rw B U m') < length (m_queue Rw B U m))%nat \/
         (m_queue Rw B U m' = m_queue Rw B U m /\ reach Rw U file (k (file_chunks file req)) (PNeed req' k')))
  | RData _ | RFinished => True
  | RReader _ | RError => False
  end.
Proof. exact C15_Machine.full_supply_advances. Qed.
Print Assumptions progress_full_supply.

(* the "later phase" order is well founded *)
Theorem later_phase_well_founded :
  forall (Rw U : Type) (file : list N), well_founded (sub_phase Rw U file).
Proof. exact C15_Machine.sub_phase_wf. Qed.
Print Assumptions later_phase_well_founded.

(* progress, end to end (liveness for every responsive schedule): a driver that answers the i-th
   NeedsData(rs) with ANY supply [sup i rs] of ranges within the file in which each requested range
   is contained in one supplied range — exact, supersets up to the whole file, duplicates, any
   order, additional unrelated ranges — reaches Finished within an explicit number of calls and has
   then produced exactly the sync reader's rows. *)
Theorem responsive_supply_completes :
  forall (Rw B U R : Type) (fr_step : nat -> B -> fstep B R) (plan : R -> phase Rw U) (upd : B -> U -> B) (file : list N),
  (forall r, phase_ok Rw U file (in_file_range file) (plan r)) ->
  forall (sup : nat -> list range -> list range) (q : list nat) (b : B) (fuel : nat),
  (forall i rs, Forall (in_file_range file) rs -> covering file (sup i rs) rs) ->
  (potential Rw B U R fr_step plan upd file (init Rw B U q b) < fuel)%nat ->
  drive_with Rw B U R fr_step plan upd file sup fuel O (init Rw B U q b)
  = (sync_rows Rw B U R fr_step plan upd file q b, true).
Proof. exact C15_Drive.responsive_supply_completes. Qed.
Print Assumptions responsive_supply_completes.

(* fair_supply_completes (schedule independence for every FAIR schedule, including partial supply):
   it is enough that each response delivers ranges of the file covering AT LEAST ONE of the requested
   ranges — one range per call, half of them, exact, supersets, duplicates, any order, additional
   ranges — for the decoder to reach Finished, within an explicit number of calls, with exactly the
   sync reader's rows. *)
Theorem fair_supply_completes :
  forall (Rw B U R : Type) (fr_step : nat -> B -> fstep B R) (plan : R -> phase Rw U) (upd : B -> U -> B) (file : list N),
  (forall r, phase_ok Rw U file (in_file_range file) (plan r)) ->
  forall (sup : nat -> list range -> list range) (q : list nat) (b : B) (fuel : nat),
  (forall i rs, rs <> [] -> Forall (in_file_range file) rs -> progressing file (sup i rs) rs) ->
  (potential Rw B U R fr_step plan upd file (init Rw B U q b)
   + ranges_left Rw B U R fr_step plan upd file (init Rw B U q b) < fuel)%nat ->
  drive_with Rw B U R fr_step plan upd file sup fuel O (init Rw B U q b)
  = (sync_rows Rw B U R fr_step plan upd file q b, true).
Proof. exact C15_Drive.fair_supply_completes. Qed.
Print Assumptions fair_supply_completes.

(* the canonical instance: supplying exactly the requested ranges *)
Theorem exact_supply_completes :
  forall (Rw B U R : Type) (fr_step : nat -> B -> fstep B R) (plan : R -> phase Rw U) (upd : B -> U -> B) (file : list N),
  (forall r, phase_ok Rw U file (in_file_range file) (plan r)) ->
  forall (q : list nat) (b : B) (fuel : nat),
  (potential Rw B U R fr_step plan upd file (init Rw B U q b) < fuel)%nat ->
  drive Rw B U R fr_step plan upd file fuel (init Rw B U q b) = (sync_rows Rw B U R fr_step plan upd file q b, true).
Proof. exact C15_Drive.exact_supply_completes. Qed.
Print Assumptions exact_supply_completes.

(* async stream: ParquetRecordBatchStream modelled as the RequestState machine (None / Outstanding /
   Done) around the same push decoder, polled by an executor; [delays] says how many times the
   future of the i-th fetch returns Pending.  For EVERY pending pattern the stream ends, within an
   explicit number of polls, having yielded exactly the sync reader's rows. *)
Theorem async_stream_reads_sync_rows :
  forall (Rw B U R : Type) (fr_step : nat -> B -> fstep B R) (plan : R -> phase Rw U) (upd : B -> U -> B) (file : list N),
  (forall r, phase_ok Rw U file (in_file_range file) (plan r)) ->
  forall (q : list nat) (b : B) (delays : list nat) (fuel : nat),
  (3 * potential Rw B U R fr_step plan upd file (init Rw B U q b) + list_sum delays + 2 < fuel)%nat ->
  stream_collect Rw B U R fr_step plan upd file fuel delays {| s_req := QNone; s_dec := init Rw B U q b |}
  = (sync_rows Rw B U R fr_step plan upd file q b, true).
Proof. exact C15_Async.async_stream_reads_sync_rows. Qed.
Print Assumptions async_stream_reads_sync_rows.

(* rebuild_at_boundary: at a row-group boundary into_builder().build() gives back the same decoder
   state (remaining row groups, remaining budget/selection, buffered bytes) *)
Theorem rebuild_at_boundary :
  forall (Rw B U : Type) (m : mach Rw B U) (bd : builder B),
  into_builder Rw B U m = Some bd -> build Rw B U bd = m.
Proof. exact C15_Machine.rebuild_at_boundary. Qed.
Print Assumptions rebuild_at_boundary.

(* ------------------------------------------------------------------ the replayed instance
   The planner the correspondence run replays against the real decoder (whole column chunks from the
   file metadata, predicate chain, projection, offset/limit budget: Model/C15_Plan.v) satisfies the
   hypothesis above as soon as the chunk ranges read from the metadata lie within the file, so the
   theorems apply to the very machine whose requests, row counts and buffered bytes are compared
   with the real ParquetPushDecoder's. *)
Theorem concrete_planner_in_file : forall (fp : fileplan) (file : list N),
  (forall g c, In c (nth g (fp_chunks fp) []) -> in_file_range file c) ->
  forall r, phase_ok unit budget file (in_file_range file) (c_plan fp r).
Proof. exact c_plan_in_file. Qed.
Print Assumptions concrete_planner_in_file.

Theorem concrete_schedule_independence : forall (fp : fileplan) (file : list N),
  (forall g c, In c (nth g (fp_chunks fp) []) -> in_file_range file c) ->
  forall (b : budget) (sched : list action),
  Forall (valid_action file) sched ->
  let '(m', evs) := run unit budget budget (nat * budget) (c_fr_step fp) (c_plan fp) c_upd file (c_init fp b) sched in
  (In EFinished evs -> rows_of unit evs = sync_rows unit budget budget (nat * budget) (c_fr_step fp) (c_plan fp) c_upd file (seq 0 (length (fp_rows fp))) b)
  /\ ~ In EError evs.
Proof. exact c_schedule_independence. Qed.
Print Assumptions concrete_schedule_independence.
