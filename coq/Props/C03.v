(* C03 — property theorems only: each closed by [exact] and followed by Print Assumptions.
   [logical c] is the row-by-row reading of a physical column (values buffer + optional validity
   buffer, arbitrary payload under null slots); the right-hand sides are the naive definitions. *)
From Coq Require Import List Arith ZArith Bool.
From AV Require Import Model.C03_Select Model.C03_Coalesce.
From AV Require Import Proofs.C03_Filter Proofs.C03_Take Proofs.C03_Kernels Proofs.C03_Merge Proofs.C03_Gc Proofs.C03_CoalesceP.
From AV Require Model.C19_Bits.
Import ListNotations.

(* The ranges produced by the slice iterator enumerate exactly the positions produced by the index
   iterator: the two families of iteration strategies visit the same rows in the same order. *)
Theorem slices_are_indices : forall f : list bool,
  flat_map (fun se : nat * nat => seq (fst se) (snd se - fst se)) (C19_Bits.runs f) = C19_Bits.positions f.
Proof. exact (fun f => runs_positions f 0 None I). Qed.
Print Assumptions slices_are_indices.

(* ... and the ranges are non-empty, increasing and separated by at least one unselected row *)
Theorem slices_are_maximal_runs : forall f : list bool, separated 0 (C19_Bits.runs f).
Proof. exact runs_are_separated. Qed.
Print Assumptions slices_are_maximal_runs.

(* filter, for every iteration strategy a FilterPredicate may carry (None only when nothing is
   selected, All only when everything is), every mask (nulls = not selected), every column. *)
Theorem filter_refines : forall (s : strategy) (c : pcol Z) (m : pcol bool),
  wf_col c -> wf_col m -> length (fst m) <= length (fst c) -> strategy_ok s (prep_mask m) ->
  logical (filter_with s 0%Z c m) = filter_spec (logical c) (logical_mask m).
Proof. exact (fun s c m => filter_array_spec 0%Z s c m). Qed.
Print Assumptions filter_refines.

(* the strategy FilterBuilder::new chooses (selectivity thresholds) is one of those *)
Theorem filter_default_refines : forall (c : pcol Z) (m : pcol bool),
  wf_col c -> wf_col m -> length (fst m) <= length (fst c) ->
  logical (filter_M 0%Z c m) = filter_spec (logical c) (logical_mask m).
Proof. exact (filter_M_spec 0%Z). Qed.
Print Assumptions filter_default_refines.

Theorem strategy_irrelevant : forall (s1 s2 : strategy) (c : pcol Z) (m : pcol bool),
  wf_col c -> wf_col m -> length (fst m) <= length (fst c) ->
  strategy_ok s1 (prep_mask m) -> strategy_ok s2 (prep_mask m) ->
  logical (filter_with s1 0%Z c m) = logical (filter_with s2 0%Z c m).
Proof. exact (filter_strategy_irrelevant 0%Z). Qed.
Print Assumptions strategy_irrelevant.

(* take (with or without check_bounds): null index -> null row, valid index out of range -> error *)
Theorem take_refines : forall (cb : bool) (c : pcol Z) (idx : pcol Z),
  wf_col c -> wf_col idx ->
  option_map logical (take_M 0%Z cb c idx) = take_spec (logical c) (logical_idx idx).
Proof. exact (take_M_spec 0%Z). Qed.
Print Assumptions take_refines.

(* whatever lies under a null index slot (even an out-of-range or negative payload) is never
   observable and never turns into an error *)
Theorem take_null_index_never_reads : forall (cb : bool) (c : pcol Z) (iv iv' : list Z) (n : list bool),
  wf_col c -> length iv = length n -> length iv' = length n ->
  map2 mk_row iv n = map2 mk_row iv' n ->
  option_map logical (take_M 0%Z cb c (iv, Some n)) = option_map logical (take_M 0%Z cb c (iv', Some n)).
Proof. exact (take_null_payload_irrelevant 0%Z). Qed.
Print Assumptions take_null_index_never_reads.

Theorem take_all_null_indices : forall (cb : bool) (c : pcol Z) (iv : list Z),
  wf_col c ->
  option_map logical (take_M 0%Z cb c (iv, Some (repeat false (length iv)))) = Some (repeat None (length iv)).
Proof. exact (take_all_null_ok 0%Z). Qed.
Print Assumptions take_all_null_indices.

Theorem concat_refines : forall cs : list (pcol Z),
  Forall wf_col cs -> logical (concat_M cs) = concat_spec (map logical cs).
Proof. exact concat_M_spec. Qed.
Print Assumptions concat_refines.

Theorem interleave_refines : forall (cs : list (pcol Z)) (ps : list (nat * nat)),
  Forall wf_col cs -> option_map logical (interleave_M cs ps) = interleave_spec (map logical cs) ps.
Proof. exact interleave_M_spec. Qed.
Print Assumptions interleave_refines.

(* zip_impl's run-by-run copying (gap from falsy, run from truthy, tail from falsy), arrays or scalars *)
Theorem zip_refines : forall (ts : bool) (t : list (option Z)) (fs : bool) (f : list (option Z)) (m : pcol bool),
  wf_col m ->
  (ts = false -> length (fst m) <= length t) -> (fs = false -> length (fst m) <= length f) ->
  zip_M m ts t fs f = zip_spec (logical_mask m) ts t fs f.
Proof. exact zip_M_spec. Qed.
Print Assumptions zip_refines.

(* merge: the same run-by-run copy, array operands consumed through running offsets; the operands only
   need as many rows as the mask selects from them (extra rows are ignored) *)
Theorem merge_refines : forall (ts : bool) (t : list (option Z)) (fs : bool) (f : list (option Z)) (m : pcol bool),
  wf_col m ->
  (ts = false -> count_true (prep_mask m) <= length t) ->
  (fs = false -> length (fst m) - count_true (prep_mask m) <= length f) ->
  merge_M m ts t fs f = merge_spec (logical_mask m) ts t fs f.
Proof. exact merge_M_spec. Qed.
Print Assumptions merge_refines.

(* validity' = validity & !(mask & mask_validity) *)
Theorem nullif_refines : forall (c : pcol Z) (m : pcol bool),
  wf_col c -> wf_col m -> length (fst m) = length (fst c) ->
  logical (nullif_M c m) = nullif_spec (logical c) (logical_mask m).
Proof. exact nullif_M_spec. Qed.
Print Assumptions nullif_refines.

Theorem shift_refines : forall (c : pcol Z) (off : Z),
  wf_col c -> (Z.of_nat (length (fst c)) < 2 ^ 63)%Z ->
  logical (shift_M 0%Z c off) = shift_spec (logical c) off.
Proof. exact (shift_M_spec 0%Z). Qed.
Print Assumptions shift_refines.

Theorem slice_refines : forall (c : pcol Z) (off len : nat),
  logical (slice_M c off len) = slice_spec (logical c) off len.
Proof. exact slice_M_spec. Qed.
Print Assumptions slice_refines.

(* dictionary garbage collection (occupancy mask, key remap by rank, values filtered by the mask)
   keeps every row, and keeps exactly as many values as are referenced by a valid key *)
Theorem gc_refines : forall (keys : pcol Z) (values : list Z),
  keys_in_range keys (length values) ->
  dict_logical (fst (gc_M keys values)) (snd (gc_M keys values)) = dict_logical keys values.
Proof. exact gc_M_spec. Qed.
Print Assumptions gc_refines.

Theorem gc_values_count : forall (keys : pcol Z) (values : list Z),
  length (snd (gc_M keys values)) = count_true (occupancy keys (length values)).
Proof. exact gc_M_values_count. Qed.
Print Assumptions gc_values_count.

(* ---- BatchCoalescer, for every history of pushes / filtered pushes / index pushes / finishes /
   next_completed_batch calls, every target size > 0, with or without the bypass limit ---- *)
Theorem coalesce_rows : forall (c : cfg) (ops : list (cop Z)),
  0 < target c -> Forall wf_op ops ->
  all_rows (crun c ops) = rows_out ops.
Proof. exact (fun c ops Ht Hw => proj1 (crun_spec c ops Ht Hw)). Qed.
Print Assumptions coalesce_rows.

Theorem coalesce_inv : forall (c : cfg) (ops : list (cop Z)),
  0 < target c -> Forall wf_op ops ->
  length (buf (crun c ops)) < target c.
Proof. exact (fun c ops Ht Hw => proj2 (crun_spec c ops Ht Hw)). Qed.
Print Assumptions coalesce_inv.

(* a filtered push is a push of the filtered rows, whichever copy path (materialise / sparse) is taken *)
Theorem coalesce_filter_path_irrelevant : forall (c : cfg) (s : cst Z) (r : list (option Z)) (m : pcol bool),
  wf_col m -> push_filter c s r m = push c s (selected_rows (PushFilter r m)).
Proof. exact push_filter_is_push. Qed.
Print Assumptions coalesce_filter_path_irrelevant.

(* without a bypass limit the state machine is the naive coalescer (append, cut off full batches) *)
Theorem coalesce_naive : forall (c : cfg) (ops : list (cop Z)),
  0 < target c -> limit c = None -> Forall wf_op ops ->
  crun c ops = srun (target c) ops.
Proof. exact crun_is_srun. Qed.
Print Assumptions coalesce_naive.

(* ... hence every batch is non-empty and at most target rows, and the batches shorter than the target
   are at most as many as the explicit finish calls *)
Theorem coalesce_sizes : forall (c : cfg) (ops : list (cop Z)),
  0 < target c -> limit c = None -> Forall wf_op ops ->
  Forall (fun b : list (option Z) => 0 < length b <= target c) (batches (crun c ops)) /\
  short_batches (target c) (batches (crun c ops)) <= length (filter is_finish ops).
Proof. exact crun_sized. Qed.
Print Assumptions coalesce_sizes.

(* non-vacuity: a concrete history that splits, flushes, filters and pops *)
Example coalesce_example :
  let c := {| target := 3; limit := None; nonspec := false |} in
  let ops := [Push [Some 1; None; Some 3; Some 4]%Z;
              PushFilter [Some 5; Some 6; Some 7]%Z ([true; false; true], Some [true; true; false]);
              Finish; Pop; Push [Some 8]%Z] in
  batches (crun c ops) = [[Some 1; None; Some 3]; [Some 4; Some 5]]%Z /\ buf (crun c ops) = [Some 8%Z].
Proof. vm_compute. split; reflexivity. Qed.
