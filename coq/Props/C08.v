(* C08 — Untrusted bytes yield an error or valid data, never an invalid array.
   Theorems about the guards between attacker-controlled integers and buffers (thrift compact protocol readers,
   Avro varint / OCF block layer, Arrow IPC node/buffer cursors).  The models are tied to arrow-rs by the
   correspondence run (probes c08.thrift_meta, c08.schema_probe, c08.avro_longs, c08.ipc_batch). *)
From Coq Require Import List NArith ZArith Bool.
From AV Require Import Base.Bytes Model.C08_Thrift Model.C08_Avro Model.C08_Ipc.
From AV Require Import Proofs.C08_Thrift Proofs.C08_Vlq Proofs.C08_Avro Proofs.C08_Ipc.
Import ListNotations.

(* ---- thrift: every reader returns Err or consumes at least one byte (structural termination on the input) *)
Theorem vlq_total_progress : forall bs v r,
  C08_Thrift.read_vlq bs = Ok v r -> (v < 2^64)%N /\ (length r < length bs)%nat.
Proof. exact read_vlq_bounded. Qed.
Print Assumptions vlq_total_progress.

Theorem list_begin_total_progress : forall bs,
  match read_list_begin bs with Ok _ r => (length r + 1 <= length bs)%nat | Err _ => True end.
Proof. exact read_list_begin_consumed. Qed.
Print Assumptions list_begin_total_progress.

Theorem field_begin_total_progress : forall last bs,
  match read_field_begin last bs with Ok _ r => (length r + 1 <= length bs)%nat | Err _ => True end.
Proof. exact read_field_begin_consumed. Qed.
Print Assumptions field_begin_total_progress.

(* read_bytes: the declared length is checked against the remaining input; the result is a slice of it *)
Theorem read_bytes_in_bounds : forall bs s r,
  read_bytes bs = Ok s r -> (length s + length r < length bs)%nat /\ exists p, bs = p ++ s ++ r.
Proof. exact Proofs.C08_Thrift.read_bytes_in_bounds. Qed.
Print Assumptions read_bytes_in_bounds.

(* skip: never grows the input, strictly consumes for every non-boolean field, whatever the depth budget *)
Theorem skip_total_progress : forall d ft bs r,
  skip d ft bs = Ok tt r ->
  (length r <= length bs)%nat /\ (is_bool_ty ft = false -> (length r < length bs)%nat).
Proof. exact skip_progress. Qed.
Print Assumptions skip_total_progress.

(* skip: the loops (struct fields, list / map elements) terminate: the model's input-length fuel is never
   exhausted, at any depth budget; at budget 0 the reader refuses (SkipDepth) *)
Theorem skip_depth_terminates : forall d ft bs,
  skip d ft bs <> Err e_fuel /\ skip 0 ft bs = Err e_inv.
Proof. exact skip_terminates_and_budget. Qed.
Print Assumptions skip_depth_terminates.

(* the two footer decoders terminate on every byte string *)
Theorem footer_decoders_total : forall bs,
  meta_probe bs <> MErr e_fuel /\ schema_probe bs <> Err e_fuel.
Proof. exact footer_decoders_never_out_of_fuel. Qed.
Print Assumptions footer_decoders_total.

(* ---- varints *)
(* the thrift reader agrees with the bounded ULEB128 specification (<= 10 bytes, value < 2^64) wherever that is defined;
   the one-byte fast path is the general loop *)
Theorem vlq_agrees_spec : forall bs v r,
  varint_spec bs = Some (v, r) -> C08_Thrift.read_vlq bs = Ok v r.
Proof. exact read_vlq_agrees_spec. Qed.
Print Assumptions vlq_agrees_spec.

(* INTENDED: vlq_bounded — at most 10 bytes are consumed.  False for the pinned reader (no bound on continuation
   bytes; wrapping_shl folds later groups back into the low bits): *)
Theorem vlq_at_most_10_bytes_refuted :
  exists bs v r, C08_Thrift.read_vlq bs = Ok v r /\ (length bs - length r > 10)%nat.
Proof. exact Proofs.C08_Vlq.vlq_at_most_10_bytes_refuted. Qed.
Print Assumptions vlq_at_most_10_bytes_refuted.

Theorem vlq_decode_encode : forall n rest,
  (n < 2^64)%N -> C08_Thrift.read_vlq (uleb_enc 10 n ++ rest) = Ok n rest.
Proof. exact read_vlq_enc. Qed.
Print Assumptions vlq_decode_encode.

Theorem zigzag_decode_encode : forall z rest,
  (- 2^63 <= z < 2^63)%Z -> read_zig_zag (uleb_enc 10 (zigzag_enc z) ++ rest) = Ok z rest.
Proof. exact read_zig_zag_enc. Qed.
Print Assumptions zigzag_decode_encode.

(* ---- thrift list length guard.
   INTENDED (thrift_vec_len_le_input): the element count that read_thrift_vec hands to Vec::with_capacity is at most
   the number of input bytes.  REFUTED for the pinned code: footer 15 02 19 FC FF FF FF FF 07 00 requests 2^31-1
   SchemaElements from a 10-byte input. *)
Theorem thrift_vec_len_le_input_refuted :
  exists bs n, schema_alloc_request bs = Some n /\ (N.of_nat (length bs) < n)%N.
Proof. exact Proofs.C08_Vlq.thrift_vec_len_le_input_refuted. Qed.
Print Assumptions thrift_vec_len_le_input_refuted.

(* ... except for that request, the vector read_thrift_vec RETURNS (and the input it leaves) is bounded by the input,
   for every element reader that consumes at least one byte per element; and its loop terminates *)
Theorem thrift_vec_len_le_input_except_known : forall (A : Type) (rd : list N -> res A),
  (forall bs, match rd bs with Ok _ r => (length r + 1 <= length bs)%nat | Err _ => True end) ->
  (forall bs, rd bs <> Err e_fuel) ->
  forall e bs, read_thrift_vec rd e bs <> Err e_fuel /\
               forall v r, read_thrift_vec rd e bs = Ok v r -> (length v + length r < length bs)%nat.
Proof. exact thrift_vec_bounded_by_input. Qed.
Print Assumptions thrift_vec_len_le_input_except_known.

(* ---- Avro *)
(* VLQDecoder::long: at most 10 bytes, and the shift never reaches 64 (no arithmetic panic in debug builds) *)
Theorem avro_vlq_bounded : forall bs,
  vlq_long bs 0 0 <> VPanic /\
  forall z r, vlq_long bs 0 0 = VVal z r -> (length r < length bs /\ length bs - length r <= 10)%nat.
Proof. exact vlq_long_bounded. Qed.
Print Assumptions avro_vlq_bounded.

(* read_varint (AvroCursor): the one-byte fast path, the 10-byte array path (additive accumulation with the continuation
   bits subtracted) and the slow path all compute the bounded ULEB128 specification, and report the bytes consumed *)
Theorem avro_read_varint_is_spec : forall bs, wf_bytes bs ->
  read_varint bs = match varint_spec bs with
                   | Some (v, r) => Some (v, N.of_nat (length bs - length r))
                   | None => None end.
Proof. exact read_varint_spec. Qed.
Print Assumptions avro_read_varint_is_spec.

Theorem varint_spec_decode_encode : forall n rest,
  (n < 2^64)%N -> varint_spec (uleb_enc 10 n ++ rest) = Some (n, rest).
Proof. exact varint_spec_enc. Qed.
Print Assumptions varint_spec_decode_encode.

(* block count / size sign rules and progress of the block decoder *)
Theorem avro_block_guards : forall bs c d s rest,
  decode_block bs = BBlock c d s rest -> (length rest + length d + 18 <= length bs)%nat /\ length s = 16%nat.
Proof. exact decode_block_progress. Qed.
Print Assumptions avro_block_guards.

(* the OCF reader loop of the model ends with Ok, Err or the explicit no-progress state, never by fuel or panic *)
Theorem avro_reader_total : forall sync bs,
  match read_blocks (S (length bs)) sync bs [] with ROk _ | RErr | RHang => True | _ => False end.
Proof. exact read_blocks_total_start. Qed.
Print Assumptions avro_reader_total.

(* INTENDED: the reader loop makes progress on every input.  REFUTED: a block with count 0 and non-empty data *)
Theorem avro_reader_progress_refuted :
  exists bs, read_blocks (S (length bs)) (repeat 7%N 16) bs [] = RHang.
Proof. exact Proofs.C08_Avro.avro_reader_progress_refuted. Qed.
Print Assumptions avro_reader_progress_refuted.

(* ---- Arrow IPC *)
(* read_buffer's guard admits exactly the in-bounds (offset, length) pairs *)
Theorem ipc_buffer_guard : forall body off len,
  (0 <= body < 2^63)%Z -> (- 2^63 <= off < 2^63)%Z -> (- 2^63 <= len < 2^63)%Z ->
  (buffer_in_bounds body (off, len) = true <-> (0 <= off /\ 0 <= len /\ off + len <= body)%Z).
Proof. exact buffer_guard_iff. Qed.
Print Assumptions ipc_buffer_guard.

(* a field whose walk passes consumed exactly the nodes and buffers its type prescribes, all buffers inside the body *)
Theorem ipc_cursor_walk_sound : forall t body s s',
  walk t body s = (Pass, s') ->
  exists un ub, nodes s = un ++ nodes s' /\ bufs s = ub ++ bufs s' /\
                length un = n_nodes t /\ length ub = n_bufs t /\
                Forall (fun b => buffer_in_bounds body b = true) ub.
Proof. exact walk_sound. Qed.
Print Assumptions ipc_cursor_walk_sound.

(* ... and for a node that declares nulls the validity buffer covers the node length *)
Theorem ipc_validity_guard : forall body n vb b2 s',
  walk FPrim body {| nodes := [n]; bufs := [vb; b2] |} = (Pass, s') -> (0 < snd n)%Z ->
  (as_usize (fst n) <= 8 * as_usize (snd vb))%Z.
Proof. exact walk_prim_validity. Qed.
Print Assumptions ipc_validity_guard.

(* INTENDED: an out-of-bounds buffer is an error.  In the pinned code it is a panic (assert in Buffer::slice_with_length) *)
Theorem ipc_out_of_bounds_is_error_refuted :
  exists body s, fst (walk FPrim body s) = BoundsPanic.
Proof. exact ipc_bounds_panic_reachable. Qed.
Print Assumptions ipc_out_of_bounds_is_error_refuted.
