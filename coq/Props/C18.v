(* C18 — property theorems only: each closed by [exact] and followed by Print Assumptions. *)
From Coq Require Import List Arith ZArith Bool.
From AV Require Import Model.C18_Fault Model.C18_Frame Model.C18_Avro Proofs.C18_Fault Proofs.C18_Frame Proofs.C18_Avro.
Import ListNotations.

(* ---------------------------------------------------------------- writers: sink faults
   A writer is the sequence of sink calls it performs with `?` propagation; a sink is a script of
   responses (one per call), arbitrary. *)

(* emitted_is_prefix + ok_implies_all_accepted, for EVERY script: whatever the sink does, the bytes
   it accepted are a prefix of the fault-free output, and the run reports success only if every byte
   was accepted. *)
Theorem emitted_is_prefix_and_ok_implies_all_accepted :
  forall (calls : list call) (script : list resp) (sticky : bool) (o : outcome) (out : list Z),
  run script sticky calls = (o, out) ->
  is_prefix out (bytes_of_calls calls) /\ (o = Done -> out = bytes_of_calls calls).
Proof. exact run_prefix. Qed.
Print Assumptions emitted_is_prefix_and_ok_implies_all_accepted.

(* fault_propagates: the first hard fault (an I/O error on a write or flush call, or Ok(0) on a
   write call) at call k, the calls before it accepted in full: the run ends in Err and the bytes
   emitted are exactly those of the first k calls, whatever the sink would answer afterwards. *)
Theorem fault_propagates :
  forall (calls : list call) (k : nat) (rest : list resp) (sticky : bool) (r : resp),
  k < length calls -> forallb nonempty_call calls = true ->
  (r = Fail \/ r = Zero /\ is_write (nth k calls Flush) = true) ->
  run (repeat AcceptAll k ++ r :: rest) sticky calls = (Failed, bytes_of_calls (firstn k calls)).
Proof. exact fault_at_k. Qed.
Print Assumptions fault_propagates.

(* the same for a sink that is dead from call k on *)
Theorem fault_propagates_sticky :
  forall (calls : list call) (k : nat),
  k < length calls -> forallb nonempty_call calls = true ->
  run (repeat AcceptAll k) true calls = (Failed, bytes_of_calls (firstn k calls)).
Proof. exact fault_at_k_sticky. Qed.
Print Assumptions fault_propagates_sticky.

(* interrupted_retried (and short writes completed): a writer that only writes delivers every byte
   and reports success under ANY mix of short writes and Interrupted errors *)
Theorem interrupted_retried :
  forall (calls : list call) (script : list resp),
  forallb soft script = true -> forallb is_write calls = true ->
  run script false calls = (Done, bytes_of_calls calls).
Proof. exact soft_faults_absorbed. Qed.
Print Assumptions interrupted_retried.

(* ... and with flush calls present, for one Interrupted / short write at a write call k *)
Theorem interrupted_or_short_at_k :
  forall (calls : list call) (k : nat) (r : resp),
  k < length calls -> forallb nonempty_call calls = true -> is_write (nth k calls Flush) = true ->
  (r = Interrupted \/ exists n, r = Accept n) ->
  run (repeat AcceptAll k ++ [r]) false calls = (Done, bytes_of_calls calls).
Proof. exact soft_fault_at_k. Qed.
Print Assumptions interrupted_or_short_at_k.

(* ---------------------------------------------------------------- readers: truncation *)

(* ipc_stream_truncation: for every list of well-formed messages, with or without the end-of-stream
   marker, and every cut position k, the stream reader's framing loop returns exactly the first n
   messages (never one that was not written, never reordered), n being the number of frames that lie
   completely before k; a clean end is reported only within 3 bytes after a message boundary or on
   the complete stream, every other cut is an error; the complete stream yields everything.
   [body_len] (how the body length is read from the metadata) is arbitrary. *)
Theorem ipc_stream_truncation :
  forall (body_len : list Z -> option Z) (ms : list (list Z * list Z)) (with_eos : bool) (k : nat),
  Forall (wf_msg body_len) ms -> k <= length (encode ms with_eos) ->
  exists (n : nat) (t : tail),
    decode_all body_len (firstn k (encode ms with_eos)) = (firstn n ms, t) /\
    n <= length ms /\ length (encode (firstn n ms) false) <= k /\
    (t = End -> k < length (encode (firstn n ms) false) + 4 \/
                (n = length ms /\ with_eos = true /\ k = length (encode ms with_eos))) /\
    (k = length (encode ms with_eos) -> n = length ms /\ t = End).
Proof. exact stream_truncation. Qed.
Print Assumptions ipc_stream_truncation.

(* footer_truncation_rejected (conditional form, with the coincidence set explicit): a Parquet file
   cut at k passes the footer checks IF AND ONLY IF the original bytes in front of k already are a
   footer tail: a magic at k-4 and an in-range metadata length at k-8. *)
Theorem footer_truncation_rejected_parquet :
  forall (file : list Z) (k : nat), k <= length file ->
  pq_footer_ok (firstn k file) = true <->
  (8 <= k /\ (sub file (k - 4) 4 = par1 \/ sub file (k - 4) 4 = pare) /\
   (le (sub file (k - 8) 4) + 8 <= Z.of_nat k)%Z).
Proof. exact pq_footer_cut_iff. Qed.
Print Assumptions footer_truncation_rejected_parquet.

Theorem footer_truncation_rejected_ipc_file :
  forall (file : list Z) (k : nat), k <= length file ->
  ipc_footer_ok (firstn k file) = true <->
  (10 <= k /\ sub file (k - 6) 6 = arrow1 /\
   (0 <= signed 32 (le (sub file (k - 10) 4)))%Z /\
   (signed 32 (le (sub file (k - 10) 4)) + 10 <= Z.of_nat k)%Z).
Proof. exact ipc_footer_cut_iff. Qed.
Print Assumptions footer_truncation_rejected_ipc_file.

(* ... hence a file whose payload contains no magic in front of a cut point is rejected at EVERY
   proper truncation *)
Theorem footer_truncation_rejected_no_embedded_footer_parquet :
  forall (file : list Z),
  (forall k, k < length file -> sub file (k - 4) 4 <> par1 /\ sub file (k - 4) 4 <> pare) ->
  forall k, k < length file -> pq_footer_ok (firstn k file) = false.
Proof. exact pq_no_embedded_footer. Qed.
Print Assumptions footer_truncation_rejected_no_embedded_footer_parquet.

Theorem footer_truncation_rejected_no_embedded_footer_ipc_file :
  forall (file : list Z),
  (forall k, k < length file -> sub file (k - 6) 6 <> arrow1) ->
  forall k, k < length file -> ipc_footer_ok (firstn k file) = false.
Proof. exact ipc_no_embedded_footer. Qed.
Print Assumptions footer_truncation_rejected_no_embedded_footer_ipc_file.

(* avro_ocf_truncation: for every 16-byte sync marker, every sequence of blocks (row count, data) and
   every cut position k, the block reader returns exactly the blocks that lie completely before the
   cut and then a clean end: never an error, never rows of a partial block. *)
Theorem avro_ocf_truncation :
  forall (sync : list Z), length sync = 16 ->
  forall (bl : list (Z * list Z)) (k : nat),
  Forall wf_block bl -> k <= length (enc_blocks sync bl) ->
  exists n : nat,
    read_all_blocks sync (firstn k (enc_blocks sync bl)) = (firstn n bl, End) /\
    n <= length bl /\ length (enc_blocks sync (firstn n bl)) <= k /\
    (n = length bl \/ k < length (enc_blocks sync (firstn (S n) bl))) /\
    (k = length (enc_blocks sync bl) -> n = length bl).
Proof. exact blocks_truncation. Qed.
Print Assumptions avro_ocf_truncation.
