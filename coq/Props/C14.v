(* C14 — property theorems only: each closed by [exact] and followed by Print Assumptions. *)
From Coq Require Import List Arith NArith ZArith.
From AV Require Import Base.Bytes Model.C14_Ipc Model.C14_Avro Model.C14_Json Proofs.C14_Ipc Proofs.C14_Avro Proofs.C14_Json.
Import ListNotations.

(* ===== IPC StreamDecoder ===================================================================== *)

(* M = S: for every oracle about message contents and every way of cutting the stream into chunks
   (including empty and one-byte chunks), the real decode loop - zero-copy and scratch-buffer
   paths, one RecordBatch per call, driver re-offering the rest - hands over exactly the messages
   (same ordinal, same metadata bytes, same body bytes), fails at exactly the same place and ends
   with the same finish() verdict as the byte-at-a-time automaton run on the concatenated bytes. *)
Theorem ipc_chunked_equals_bytewise : forall (orc : nat -> list N -> minfo) (chunks : list (list N)),
  obs (run orc dec0 chunks) = obs1 (run1 orc (abs dec0) (concat chunks)).
Proof. exact (fun orc chunks => run_is_run1 orc dec0 chunks (wf_dec0 orc)). Qed.
Print Assumptions ipc_chunked_equals_bytewise.

(* The property: any two chunkings of the same bytes are observationally equal. *)
Theorem ipc_chunk_independent : forall (orc : nat -> list N -> minfo) (c1 c2 : list (list N)),
  concat c1 = concat c2 -> obs (run orc dec0 c1) = obs (run orc dec0 c2).
Proof. exact (fun orc c1 c2 => chunk_independent orc dec0 c1 c2 (wf_dec0 orc)). Qed.
Print Assumptions ipc_chunk_independent.

(* ... also for a decoder resumed in any reachable state (partial header / metadata / body). *)
Theorem ipc_chunk_independent_resumed : forall (orc : nat -> list N -> minfo) (d : dec) (c1 c2 : list (list N)),
  match d_st d with
  | DHeader buf _ => length buf < 4 /\ d_buf d = []
  | DMessage size => length (d_buf d) < size
  | DBody meta => length (d_buf d) < mi_body (orc (d_k d) meta) \/ d_buf d = []
  | DFinished => True
  end ->
  concat c1 = concat c2 -> obs (run orc d c1) = obs (run orc d c2).
Proof. exact chunk_independent. Qed.
Print Assumptions ipc_chunk_independent_resumed.

(* ===== Avro ================================================================================== *)

(* VLQDecoder::long: feeding a ++ b at once = feeding a, then (if no value was produced yet) b. *)
Theorem vlq_chunk_independent : forall (a : list N) (st : vlq) (b : list N),
  vlq_long st (a ++ b) =
  match vlq_long st a with
  | (st', _, VNone) => vlq_long st' b
  | (st', rest, r) => (st', rest ++ b, r)
  end.
Proof. exact vlq_long_app. Qed.
Print Assumptions vlq_chunk_independent.

(* the streaming decoder computes the ULEB128 value (10-byte / 64-bit limit) and its zig-zag decoding *)
Theorem vlq_stream_equals_uleb : forall buf : list N, wf_bytes buf ->
  vres_of (vlq_long vlq0 buf) =
  match uleb10 buf with Some (v, rest) => Some (zigzag v, rest) | None => None end.
Proof. exact vlq_stream_equals_oneshot. Qed.
Print Assumptions vlq_stream_equals_uleb.

(* read_varint: the 1-byte fast path, the unrolled 10-byte array path (+= / -= arithmetic) and
   the slow path all compute the same ULEB128 value and length *)
Theorem read_varint_equals_uleb : forall buf : list N, wf_bytes buf ->
  read_varint buf =
  match uleb10 buf with Some (v, rest) => Some (v, (length buf - length rest)%nat) | None => None end.
Proof. exact read_varint_is_uleb. Qed.
Print Assumptions read_varint_equals_uleb.

(* streaming (any chunking, by vlq_chunk_independent) = one-shot AvroCursor::get_long *)
Theorem vlq_stream_equals_read_varint : forall buf : list N, wf_bytes buf ->
  vres_of (vlq_long vlq0 buf) = get_long buf.
Proof. exact vlq_stream_equals_get_long. Qed.
Print Assumptions vlq_stream_equals_read_varint.

Theorem zigzag_is_arithmetic : forall val : N, zigzag val = zz_dec (Z.of_N val).
Proof. exact zigzag_spec. Qed.
Print Assumptions zigzag_is_arithmetic.

(* BlockDecoder::decode (bulk copies of payload and sync marker, whole-buffer varint reads) is the
   byte-at-a-time block automaton: same Ok/Err, and on Ok the same state and unconsumed rest *)
Theorem block_decode_equals_bytewise : forall (d : bdec) (buf : list N),
  match bd_state d with BSync => (0 < bd_rem d)%N | _ => True end ->
  snd (block_decode (block_fuel buf) d buf) = snd (brun1 d buf) /\
  (snd (block_decode (block_fuel buf) d buf) = true -> block_decode (block_fuel buf) d buf = brun1 d buf).
Proof. exact block_decode_is_brun1'. Qed.
Print Assumptions block_decode_equals_bytewise.

(* the byte automaton does not care where its input is cut *)
Theorem block_bytewise_split : forall (a : list N) (d : bdec) (b : list N),
  brun1 d (a ++ b) =
  match brun1 d a with
  | (d1, [], true) => brun1 d1 b
  | (d1, rest, ok) => (d1, rest ++ b, ok)
  end.
Proof. exact brun1_app. Qed.
Print Assumptions block_bytewise_split.

(* hence the real BlockDecoder: one call on a ++ b = a call on a, then (unless the block was
   completed inside a and the caller re-offers the tail) a call on b *)
Theorem block_decoder_chunk_independent : forall (d : bdec) (a b : list N),
  match bd_state d with BSync => (0 < bd_rem d)%N | _ => True end ->
  let r1 := block_decode (block_fuel (a ++ b)) d (a ++ b) in
  let r2 := match block_decode (block_fuel a) d a with
            | (d1, [], true) => block_decode (block_fuel b) d1 b
            | (d1, rest, ok) => (d1, rest ++ b, ok)
            end in
  snd r1 = snd r2 /\ (snd r1 = true -> r1 = r2).
Proof. exact block_chunk_independent. Qed.
Print Assumptions block_decoder_chunk_independent.

(* block phase of the OCF Reader::read loop (fill_buf / BlockDecoder::decode / consume / flush, sync
   check, records of one Avro long): over any chunked BufRead it yields the values and status of
   the flat byte-automaton loop on the concatenated bytes ... *)
Theorem ocf_block_phase_equals_flat : forall (chunks : list (list N)) (f1 f2 : nat) (sync : list N)
    (d : bdec) (trace : list nat) (vals : list Z),
  match bd_state d with BSync => (0 < bd_rem d)%N | _ => True end -> bd_state d <> BFinished ->
  (length (concat chunks) < f1)%nat -> (length (concat chunks) < f2)%nat ->
  (let '(_, v, st) := read_blocks f1 sync d chunks trace vals in (v, st))
  = blocks1 f2 sync d (concat chunks) vals.
Proof. exact read_blocks_flat'. Qed.
Print Assumptions ocf_block_phase_equals_flat.

(* ... hence two chunkings of the same bytes give the same values and status *)
Theorem ocf_block_phase_chunk_independent : forall (c1 c2 : list (list N)) (f1 f2 : nat) (sync : list N)
    (d : bdec) (t1 t2 : list nat) (vals : list Z),
  match bd_state d with BSync => (0 < bd_rem d)%N | _ => True end -> bd_state d <> BFinished ->
  concat c1 = concat c2 ->
  (length (concat c1) < f1)%nat -> (length (concat c2) < f2)%nat ->
  (let '(_, v, st) := read_blocks f1 sync d c1 t1 vals in (v, st))
  = (let '(_, v, st) := read_blocks f2 sync d c2 t2 vals in (v, st)).
Proof. exact read_blocks_chunk_independent. Qed.
Print Assumptions ocf_block_phase_chunk_independent.

(* ===== JSON TapeDecoder ====================================================================== *)

(* The property for one decode call of the tape decoder, with all its bulk operations: if the call
   on a ++ b completes (the model's fuel f is not exhausted) then the call on a followed - when a
   was consumed completely - by the call on b ends in the same decoder state (tape, string data,
   offsets, state stack, row count), consumes the same bytes and reports the same error. *)
Theorem json_decode_chunk_independent : forall (batch_size : nat) (flatten : bool) (f : nat) (t : tape)
    (a b : list N) (R : jres),
  jdecode batch_size flatten f t (a ++ b) = R -> snd R <> JOof ->
  match jdecode batch_size flatten f t a with
  | (t1, [], JOk) => jdecode batch_size flatten f t1 b = R
  | (t1, rest, JOk) => R = (t1, rest ++ b, JOk)
  | (t1, rest, JErr) => R = (t1, rest ++ b, JErr)
  | (_, _, JOof) => False
  end.
Proof. exact jsplit. Qed.
Print Assumptions json_decode_chunk_independent.

(* bulk fast paths = byte-at-a-time feeding *)
Theorem json_bulk_equals_bytewise : forall (batch_size : nat) (flatten : bool) (buf : list N) (f : nat)
    (t : tape) (R : jres),
  jdecode batch_size flatten f t buf = R -> snd R <> JOof -> jrun1 batch_size flatten f t buf = R.
Proof. exact jdecode_is_jrun1. Qed.
Print Assumptions json_bulk_equals_bytewise.
