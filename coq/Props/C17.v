(* C17 — property theorems only: each closed by [exact] and followed by Print Assumptions. *)
From Coq Require Import List NArith ZArith Bool.
From AV Require Import Base.Utf8 Model.C17_Avro Model.C17_Json Model.C17_Csv.
From AV Require Import Proofs.C17_Varint Proofs.C17_AvroLemmas Proofs.C17_Avro Proofs.C17_Json Proofs.C17_Csv.
Import ListNotations.
Local Open Scope N_scope.

(* Avro long: the bytes write_long emits (zig-zag, 7-bit groups) are read back by get_long - through the
   one-byte, the 10-byte-array or the slow path of read_varint, whichever applies - for every i64, with any
   bytes following. *)
Theorem avro_long_roundtrip : forall (v : Z) (rest : list N), (- 2^63 <= v < 2^63)%Z ->
  get_long (write_long v ++ rest) = Some (v, rest).
Proof. exact get_long_write. Qed.
Print Assumptions avro_long_roundtrip.

Theorem avro_int_roundtrip : forall (v : Z) (rest : list N), (- 2^31 <= v < 2^31)%Z ->
  get_int (write_long v ++ rest) = Some (v, rest).
Proof. exact get_int_write. Qed.
Print Assumptions avro_int_roundtrip.

Theorem avro_varint_roundtrip : forall (v : N) (rest : list N), v < 2^64 ->
  read_varint (write_vlq 10 v ++ rest) = Some (v, rest).
Proof. exact read_varint_write. Qed.
Print Assumptions avro_varint_roundtrip.

(* Avro datum codec: for every schema, every well-formed datum (what the writer accepts) and every block
   size bk (bk = 0 is the single block arrow-avro writes; other values split arrays and maps into several
   blocks), decoding the encoding gives the datum back and leaves the following bytes untouched. *)
Theorem avro_decode_encode : forall (bk : nat) (s : schema) (d : datum) (rest : list N), wf s d ->
  decode s (encode bk false s d ++ rest) = Some (d, rest).
Proof. exact decode_encode. Qed.
Print Assumptions avro_decode_encode.

(* the same for the second block form of the format, a negative count followed by the byte size of the block
   (which a reader may use to skip the block): the sizes written must fit an i64 *)
Theorem avro_decode_encode_sized : forall (bk : nat) (s : schema) (d : datum) (rest : list N), wf s d ->
  (Z.of_nat (length (encode bk true s d)) < 2^63)%Z ->
  decode s (encode bk true s d ++ rest) = Some (d, rest).
Proof. exact decode_encode_sized. Qed.
Print Assumptions avro_decode_encode_sized.

Theorem avro_decode_encode_writer : forall (s : schema) (d : datum), wf s d ->
  decode s (encode_w s d) = Some (d, []).
Proof. exact decode_encode_writer. Qed.
Print Assumptions avro_decode_encode_writer.

(* decimal logical type: minimal two's complement bytes / sign extension to the Arrow integer width *)
Theorem avro_decimal_bytes_roundtrip : forall (w : nat) (v : Z), (0 < w)%nat ->
  (- 2^(8 * Z.of_nat w - 1) <= v < 2^(8 * Z.of_nat w - 1))%Z ->
  sign_fit w (minimal_twos (be_bytes w v)) = Some (be_bytes w v) /\ from_be (be_bytes w v) = v.
Proof. exact decimal_bytes_roundtrip. Qed.
Print Assumptions avro_decimal_bytes_roundtrip.

Theorem avro_decimal_fixed_roundtrip : forall (w n : nat) (v : Z) (R : list N), (0 < w)%nat -> (0 < n)%nat ->
  (- 2^(8 * Z.of_nat w - 1) <= v < 2^(8 * Z.of_nat w - 1))%Z ->
  sign_fit n (be_bytes w v) = Some R ->
  length R = n /\ sign_fit w R = Some (be_bytes w v) /\ from_be (be_bytes w v) = v.
Proof. exact decimal_fixed_roundtrip. Qed.
Print Assumptions avro_decimal_fixed_roundtrip.

(* JSON strings: whatever byte string the writer escapes, the reader's unescape returns it, together with
   the text after the closing quote - for the combination function of tape.rs and for the RFC one alike
   (the writer never emits a surrogate pair). *)
Theorem json_unescape_escape : forall (s rest : list N),
  unescape_m (escape s ++ 34 :: rest) = Some (s, rest) /\ unescape_s (escape s ++ 34 :: rest) = Some (s, rest).
Proof. exact (fun s rest => conj (unescape_escape_any sp_combine s rest) (unescape_escape_any sp_spec s rest)). Qed.
Print Assumptions json_unescape_escape.

(* ... in particular for the UTF-8 encoding of every list of scalar values (controls, non-BMP included), where
   the final UTF-8 validation of the tape also succeeds *)
Theorem json_unescape_escape_codepoints : forall (cps : list N), Forall (fun c => scalar c = true) cps ->
  string_value sp_combine (escape (flat_map Utf8.encode cps) ++ [34]) = Some (flat_map Utf8.encode cps).
Proof. exact (string_value_escape sp_combine). Qed.
Print Assumptions json_unescape_escape_codepoints.

(* \uXXXX escapes, RFC 8259 section 7: every scalar value written as one escape or as a surrogate pair is
   decoded to its UTF-8 bytes by the reader automaton with the RFC combination (S) ... *)
Theorem json_u_escape_spec : forall (c : N) (tail acc : list N), scalar c = true ->
  unescape_go sp_spec (u_escape c ++ tail) acc = unescape_go sp_spec tail (rev (Utf8.encode c) ++ acc).
Proof. exact u_escape_spec. Qed.
Print Assumptions json_u_escape_spec.

(* ... and by the combination written in tape.rs (M), for every scalar value: M = S *)
Theorem json_u_escape_impl : forall (c : N) (tail acc : list N), scalar c = true ->
  unescape_go sp_combine (u_escape c ++ tail) acc = unescape_go sp_combine tail (rev (Utf8.encode c) ++ acc).
Proof. exact u_escape_impl. Qed.
Print Assumptions json_u_escape_impl.

Theorem json_surrogate_combine_spec : forall (high low : N), sp_combine high low = sp_spec high low.
Proof. exact sp_combine_ok. Qed.
Print Assumptions json_surrogate_combine_spec.

(* CSV (rc d q e dbl / wc d q e crlf dbl are the reader / writer configurations of Proofs/C17_Csv.v: dbl = true
   is quote doubling read by the default reader, dbl = false escape-style quoting read with escape e):
   for every delimiter d and quote q (distinct, neither CR nor LF), LF or CRLF terminators, and every
   list of non-empty records of arbitrary fields (delimiters, quotes, CR, LF inside), the csv-core reader
   automaton splits the text the writer produced back into exactly those records and fields. *)
Theorem csv_split_quote : forall (d q e : N) (crlf : bool), d <> q -> d <> 10 -> d <> 13 -> q <> 10 -> q <> 13 ->
  forall rows : list (list (list N)), Forall (fun r => r <> []) rows ->
  split (rc d q e true) (write_rows (wc d q e crlf true) rows) = rows.
Proof. exact split_write_rows. Qed.
Print Assumptions csv_split_quote.

(* the same for escape-style quoting (double_quote = false) read with the same escape byte e, provided no
   field contains e: csv-core writes e unescaped inside a quoted field, so such a field cannot round-trip *)
Theorem csv_split_quote_escaped : forall (d q e : N) (crlf : bool), d <> q -> d <> 10 -> d <> 13 -> q <> 10 -> q <> 13 -> e <> q ->
  forall rows : list (list (list N)), Forall (fun r => r <> []) rows ->
  Forall (Forall (Forall (fun b => b <> e))) rows ->
  split (rc d q e false) (write_rows (wc d q e crlf false) rows) = rows.
Proof. exact split_write_rows_escaped. Qed.
Print Assumptions csv_split_quote_escaped.
