(* C04 — property theorems only: each closed by [exact] and followed by Print Assumptions. *)
From Coq Require Import List Bool Arith NArith ZArith.
From AV Require Import Base.Bytes Model.C09_Layout Model.C04_Dict Model.C04_Walk Model.C04_Frame Model.C04_Flight Model.C04_Rebase Model.C04_Write.
From AV Require Import Proofs.C04_Dict Proofs.C04_Walk Proofs.C04_Frame Proofs.C04_Flight Proofs.C04_Rebase Proofs.C04_Write.
Import ListNotations.

(* ---------------------------------------------------------------- dictionaries ------------------- *)
(* Writer DictionaryTracker::insert_column / compare_dictionaries against reader update_dictionaries, for one
   dictionary id over ANY history of per-batch dictionaries (unchanged, extended, shrunk, replaced), both
   DictionaryHandling modes, with or without error_on_replacement: whenever the writer accepts the history,
   the dictionary a streaming reader holds when it decodes batch i is exactly the dictionary batch i was
   written with.  V is the (abstract) logical value of a dictionary entry with decidable equality. *)
Theorem dict_refinement : forall (V : Type) (veq : V -> V -> bool),
  (forall a b, veq a b = true <-> a = b) ->
  forall (eor : bool) (h : handling) (hist : list (list V)) (written : option (list V)) (obs : list (option (list V))),
  run V veq eor h written written hist = Some obs -> obs = map Some hist.
Proof. exact C04_Dict.dict_refinement. Qed.
Print Assumptions dict_refinement.

(* Stream writer, StreamEncoder and Flight (error_on_replacement = false) accept every history. *)
Theorem stream_never_rejects : forall (V : Type) (veq : V -> V -> bool),
  (forall a b, veq a b = true <-> a = b) ->
  forall (h : handling) (hist : list (list V)) (written : option (list V)),
  exists obs, run V veq false h written written hist = Some obs.
Proof. exact C04_Dict.stream_never_rejects. Qed.
Print Assumptions stream_never_rejects.

(* File format: the FileReader applies EVERY dictionary block before decoding any batch.  For a history the
   FileWriter accepts, the reader's final dictionary extends the dictionary of every batch, so every key of
   every batch still denotes the value it denoted when written. *)
Theorem file_dict_prefix : forall (V : Type) (veq : V -> V -> bool),
  (forall a b, veq a b = true <-> a = b) ->
  forall (h : handling) (d0 : list V) (hist : list (list V)) (ms : list (dmsg V)),
  emit V veq true h None (d0 :: hist) = Some ms ->
  exists final, fold_left (apply_msg V) ms None = Some final /\
                Forall (fun d => exists s, final = d ++ s) (d0 :: hist).
Proof. exact C04_Dict.file_dict_prefix. Qed.
Print Assumptions file_dict_prefix.

(* ... and a dictionary that does not extend the previous one is rejected by the FileWriter. *)
Theorem file_writer_rejects_replacement : forall (V : Type) (veq : V -> V -> bool),
  (forall a b, veq a b = true <-> a = b) ->
  forall (h : handling) (old d : list V),
  (forall s, d <> old ++ s) -> insert_column V veq true h (Some old) d = None.
Proof. exact C04_Dict.file_writer_rejects_replacement. Qed.
Print Assumptions file_writer_rejects_replacement.

(* ---------------------------------------------------------------- layout walk -------------------- *)
(* For every data type (any nesting depth) and metadata version — except RunEndEncoded under V4, see below —
   and a supply [cs] of the variadic buffer counts of the type's view arrays:
   write_array_data and append_variadic_buffer_counts consume exactly [cs] and emit exactly [cs];
   create_array, fed with the emitted counts, succeeds, pops exactly [cs], and consumes the same number of
   field nodes and the same sequence of buffers (kind by kind) as were written;
   skip_field (projection) succeeds, pops exactly [cs] and consumes as many nodes and buffers as create_array. *)
Theorem walk_agree : forall (t : dty) (v5 : bool), (v5 = true \/ ree_free t = true) ->
  forall (cs q : list nat), length cs = views t ->
  exists wt rt st,
    w_walk t v5 (cs ++ q) = (wt, q) /\ w_var t (cs ++ q) = (cs, q) /\
    r_walk t v5 (cs ++ q) = Some (rt, q) /\ s_walk t v5 (cs ++ q) = Some (st, q) /\
    nodes_of rt = nodes_of wt /\ bufs_of rt = bufs_of wt /\
    snodes_of st = nodes_of rt /\ sbufs_of st = length (bufs_of rt).
Proof. exact walk_agree_all. Qed.
Print Assumptions walk_agree.

(* whole record batches: the columns in schema order *)
Theorem walk_agree_batch : forall (v5 : bool) (cols : list dty),
  Forall (fun t => v5 = true \/ ree_free t = true) cols ->
  forall cs q, length cs = fold_right (fun t acc => views t + acc) 0 cols ->
  exists wt rt,
    w_batch cols v5 (cs ++ q) = (wt, q) /\ w_batch_var cols (cs ++ q) = (cs, q) /\
    r_batch cols v5 (cs ++ q) = Some (rt, q) /\
    nodes_of rt = nodes_of wt /\ bufs_of rt = bufs_of wt.
Proof. exact batch_agree. Qed.
Print Assumptions walk_agree_batch.

(* The full statement (no side condition) is FALSE for the faithful model: with MetadataVersion::V4 the writer
   emits a validity buffer for a RunEndEncoded array (has_validity_bitmap) that create_array never consumes. *)
Theorem walk_agree_v4_ree_refuted :
  let t := TRee 4 (TFixed 4) in
  exists wt rt, w_walk t false [] = (wt, []) /\ r_walk t false [] = Some (rt, []) /\ bufs_of rt <> bufs_of wt.
Proof. exact walk_v4_ree_differs. Qed.
Print Assumptions walk_agree_v4_ree_refuted.

(* ---------------------------------------------------------------- framing ------------------------ *)
(* pad_to_alignment's mask trick is the distance to the next multiple, for the four legal alignments *)
Theorem pad_to_alignment_correct : forall a len, (a = 8 \/ a = 16 \/ a = 32 \/ a = 64) ->
  pad_to_alignment a len = pad_spec a len /\ (len + pad_to_alignment a len) mod a = 0 /\ pad_to_alignment a len < a.
Proof. intros a len Ha. split; [exact (pad_to_alignment_spec a len Ha)|exact (pad_to_alignment_aligned a len Ha)]. Qed.
Print Assumptions pad_to_alignment_correct.

(* every framed message (prefix + metadata + padding + body) occupies padded_header_len + body bytes, both
   multiples of the alignment: messages and the FileWriter's footer blocks stay aligned; the tail padding of a
   record batch body is always 0 *)
Theorem frame_sizes : forall o m, (o_align o = 8 \/ o_align o = 16 \/ o_align o = 32 \/ o_align o = 64) ->
  (o_legacy o = true -> o_v5 o = false) ->
  length (frame_msg o m) = padded_header_len o (length (msg_meta m)) + length (body_bytes (o_align o) m) /\
  padded_header_len o (length (msg_meta m)) mod o_align o = 0 /\
  length (body_bytes (o_align o) m) mod o_align o = 0 /\
  (forall bufs, pad_to_alignment (o_align o) (batch_offset (o_align o) bufs) = 0).
Proof.
  intros o m Ha Hl. split; [exact (frame_msg_length o m Ha Hl)|]. split; [exact (proj1 (padded_header_aligned o _ Ha))|].
  split; [exact (body_bytes_aligned _ m Ha)|]. intros bufs. exact (tail_pad_zero _ bufs Ha).
Qed.
Print Assumptions frame_sizes.

(* MessageReader inverts the stream writer: for every alignment 8/16/32/64, V4 / V5, legacy (length only) and
   current (continuation marker + length) prefixes, every sequence of messages (schema / dictionary messages
   given as EncodedData, record batches given as metadata + buffer list) whose metadata is non-empty and below
   2^31 bytes, [bodylen] being any function that reads Message.bodyLength back from the (padded) metadata:
   reading the framed stream returns, message by message, the metadata (plus its alignment padding) and exactly
   the body bytes, then stops at the end-of-stream marker. *)
Theorem frame_roundtrip : forall (bodylen : list N -> nat) (o : wopts),
  (o_align o = 8 \/ o_align o = 16 \/ o_align o = 32 \/ o_align o = 64) ->
  (o_legacy o = true -> o_v5 o = false) ->
  forall (ms : list msg) (fuel : nat),
  Forall (fun m => msg_meta m <> [] /\
                   (N.of_nat (padded_metadata_len o (length (msg_meta m))) < 2147483648)%N /\
                   bodylen (msg_meta m ++ zeros (metadata_padding o (length (msg_meta m)))) = length (body_bytes (o_align o) m)) ms ->
  length ms < fuel ->
  unframe bodylen fuel (frame_stream o ms)
  = RDone (map (fun m => (msg_meta m ++ zeros (metadata_padding o (length (msg_meta m))), body_bytes (o_align o) m)) ms).
Proof. exact frame_roundtrip_sec. Qed.
Print Assumptions frame_roundtrip.

(* ---------------------------------------------------------------- slice re-basing ---------------- *)
(* reencode_offsets + get_byte_array_buffers / get_list_array_buffers: for every valid offsets buffer
   (non-negative, non-decreasing, last offset within the values), every array offset and non-zero length —
   including a non-zero first offset — slot i of the written (offsets', values') is slot off+i of the
   original, offsets' has len+1 entries and starts at 0. *)
Theorem rebase_logical : forall (A : Type) (offs : list Z) (values : list A) (off len i : nat),
  monotone 0 offs -> off + len + 1 <= length offs ->
  (nth (off + len) offs 0 <= Z.of_nat (length values))%Z -> i < len ->
  let '(o', v') := rebase offs values off len in
  var_slot o' v' i = var_slot offs values (off + i) /\ length o' = len + 1 /\ nth 0 o' 0%Z = 0%Z.
Proof. exact @rebase_logical_slots. Qed.
Print Assumptions rebase_logical.

(* get_or_truncate_buffer on a fixed-width layout keeps exactly the addressed elements *)
Theorem truncate_logical : forall (b : list N) (w off len i : nat),
  (off + len) * w <= length b -> i < len ->
  fixed_slot (truncate_fixed b w off len) w i = fixed_slot b w (off + i).
Proof. exact truncate_fixed_slots. Qed.
Print Assumptions truncate_logical.

(* validity bitmaps and boolean values of sliced arrays: Buffer::bit_slice (shared bytes when the bit offset is a
   multiple of 8, re-packed bits otherwise) keeps exactly the addressed bits, for every buffer, offset and length *)
Theorem bitmap_truncation : forall (b : list N) (off len i : nat), i < len ->
  bit_at (bit_slice b off len) i = bit_at b (off + i).
Proof. exact bit_slice_spec. Qed.
Print Assumptions bitmap_truncation.

(* The byte-level writer model (C04_Write.w_arr, compared with the real writer buffer by buffer) and the
   type-level walk agree: for every array tree that has the shape of its type, every slice the writer may take of
   it (s, l, ArrayData- or Array-level) and enough fuel, the model emits exactly as many field nodes and buffers
   as w_walk lists, and w_walk consumes exactly the variadic counts the array contributes. *)
Theorem writer_model_follows_walk : forall (v5 : bool) (t : dty) (a : parr), shaped t a ->
  forall (fuel s l : nat) (proper : bool), depth a < fuel ->
  forall q, let '(toks, rest) := w_walk t v5 (var_counts a ++ q) in
            length (fst (w_arr fuel v5 a s l proper)) = nodes_of toks /\
            length (snd (w_arr fuel v5 a s l proper)) = length (bufs_of toks) /\ rest = q.
Proof. exact w_arr_counts. Qed.
Print Assumptions writer_model_follows_walk.

(* ---------------------------------------------------------------- Flight split ------------------- *)
(* split_batch_for_grpc_response, for every batch, buffer size and size limit (a zero limit divides by zero in
   Rust and is excluded by the model's Nat division convention only through n_batches >= 1): the loop ends
   within num_rows iterations, the pieces are non-empty, in range, adjacent (each starts where the previous one
   ends, from row 0) and their concatenation is the batch: no row is lost, duplicated or reordered. *)
Theorem flight_split_concat : forall (A : Type) (rows : list A) (size max : N),
  let ps := split (length rows) size max in
  concat (map (slice_rows rows) ps) = rows /\
  Forall (fun p => 0 < snd p /\ fst p + snd p <= length rows) ps /\
  adjacent 0 ps.
Proof. exact @flight_split_concat_all. Qed.
Print Assumptions flight_split_concat.

Theorem flight_split_piece_rows : forall (num_rows : nat) (size max : N),
  Forall (fun p => snd p <= rows_per_batch num_rows (n_batches size max)) (split num_rows size max).
Proof. exact flight_split_piece_bound. Qed.
Print Assumptions flight_split_piece_rows.

(* non-vacuity: concrete instances of the hypotheses *)
Example dict_nonvacuous :
  run nat Nat.eqb false Delta None None [[1; 2]; [1; 2]; [1; 2; 3]; [7]; [7; 8]]
  = Some [Some [1; 2]; Some [1; 2]; Some [1; 2; 3]; Some [7]; Some [7; 8]] /\
  emit nat Nat.eqb false Delta None [[1; 2]; [1; 2]; [1; 2; 3]; [7]; [7; 8]]
  = Some [Full [1; 2]; DeltaMsg [3]; Full [7]; DeltaMsg [8]] /\
  emit nat Nat.eqb true Delta None [[1; 2]; [1; 2; 3]; [7]] = None.
Proof. vm_compute. repeat split. Qed.
Example walk_nonvacuous :
  let t := TStruct [(true, TList false true (TView true)); (false, TUnion true [(0%Z, TView false); (5%Z, TDict 4 true (TView true))])] in
  views t = 2 /\ w_var t [3; 1; 9] = ([3; 1], [9]) /\
  nodes_of (fst (w_walk t true [3; 1; 9])) = 6 /\ length (bufs_of (fst (w_walk t true [3; 1; 9]))) = 15.
Proof. vm_compute. repeat split. Qed.
Example frame_nonvacuous :
  let o := {| o_align := 16; o_legacy := true; o_v5 := false |} in
  let ms := [MEnc [1; 2; 3]%N []; MBatch [9; 9; 9; 9; 9]%N [[1; 2; 3]%N; []; [4]%N]] in
  unframe (fun meta => match meta with 9%N :: _ => 32 | _ => 0 end) 3 (frame_stream o ms)
  = RDone (map (fun m => (msg_meta m ++ zeros (metadata_padding o (length (msg_meta m))), body_bytes 16 m)) ms).
Proof. vm_compute. reflexivity. Qed.
Example split_nonvacuous : split 10 1000%N 300%N = [(0, 2); (2, 2); (4, 2); (6, 2); (8, 2)] /\ split 0 5%N 1%N = [] /\ split 3 0%N 7%N = [(0, 3)].
Proof. vm_compute. repeat split. Qed.
