(* C04 — property theorems only. *)
From Coq Require Import List Bool NArith ZArith.
From AV Require Import Model.C04_Dict Model.C04_Walk Model.C04_Frame Model.C04_Flight.
Import ListNotations.
