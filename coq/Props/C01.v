(* C01 — property theorems only.  "Every array returned by a safe API is well formed ...
   consequently no sequence of safe calls on such results can read outside a buffer."
   The well-formedness predicate is [spec_valid] (Model/C09_Layout.v, written from the Arrow format
   specification); the harness applies its extraction to every array real kernels return.  The
   theorems below are the "consequently" clause: on a node the specification accepts, the byte
   ranges the unchecked typed accessors touch lie inside the buffers, and the child slots they
   dereference exist.  With [accept_implies_valid] (Props/C09.v) the same follows from acceptance by
   arrow-rs's own validators. *)
From Coq Require Import List Arith Bool ZArith.
From AV Require Import Base.Bytes Model.C09_Layout Model.C09_Validate Model.C01_Access Proofs.C01_Bounds Proofs.C01_Nested Proofs.C09_Accept Proofs.C09_Main Proofs.C01_Validated.
Import ListNotations.

Theorem validity_bitmap_read_in_bounds : forall a i,
  spec_nulls a = true -> (i < p_len a)%nat -> null_read_in_bounds a i = true.
Proof. exact spec_nulls_read. Qed.
Print Assumptions validity_bitmap_read_in_bounds.

Theorem fixed_width_reads_in_bounds : forall a i,
  spec_node a = true -> (i < p_len a)%nat ->
  match p_ty a with TBool | TFixed _ | TFixedBin _ | TDict _ _ _ | TView _ => True | _ => False end ->
  forallb (read_in_bounds a) (own_reads a i) = true.
Proof. exact own_reads_fixed. Qed.
Print Assumptions fixed_width_reads_in_bounds.

Theorem binary_reads_in_bounds : forall large utf8 len off nulls bufs kids i,
  let a := PArr (TBin large utf8) len off nulls bufs kids in
  spec_node a = true -> (i < len)%nat -> forallb (read_in_bounds a) (own_reads a i) = true.
Proof. exact own_reads_binary. Qed.
Print Assumptions binary_reads_in_bounds.

Theorem list_reads_and_child_range_in_bounds : forall large nullable c len off nulls bufs kids i,
  let a := PArr (TList large nullable c) len off nulls bufs kids in
  spec_node a = true -> (i < len)%nat ->
  forallb (read_in_bounds a) (own_reads a i) = true /\ forallb (child_slots_in_bounds a) (child_slots a i) = true.
Proof. exact child_slots_list. Qed.
Print Assumptions list_reads_and_child_range_in_bounds.

Theorem dictionary_key_indexes_existing_value : forall kw ks v len off nulls bufs kids i,
  let a := PArr (TDict kw ks v) len off nulls bufs kids in
  spec_node a = true -> (i < len)%nat -> forallb (child_slots_in_bounds a) (child_slots a i) = true.
Proof. exact child_slots_dict. Qed.
Print Assumptions dictionary_key_indexes_existing_value.

Theorem fixed_size_list_child_range_in_bounds : forall n nullable c len off nulls bufs kids i,
  let a := PArr (TFixedList n nullable c) len off nulls bufs kids in
  spec_node a = true -> (i < len)%nat -> forallb (child_slots_in_bounds a) (child_slots a i) = true.
Proof. exact child_slots_fixed_list. Qed.
Print Assumptions fixed_size_list_child_range_in_bounds.

(* ---- the remaining nested layouts (Proofs/C01_Nested.v) *)
Theorem listview_reads_and_child_range_in_bounds : forall large nullable c len off nulls bufs kids i,
  let a := PArr (TListView large nullable c) len off nulls bufs kids in
  spec_node a = true -> (i < len)%nat ->
  forallb (read_in_bounds a) (own_reads a i) = true /\ forallb (child_slots_in_bounds a) (child_slots a i) = true.
Proof. exact listview_reads_slots. Qed.
Print Assumptions listview_reads_and_child_range_in_bounds.

Theorem struct_child_slots_in_bounds : forall fs len off nulls bufs kids i,
  let a := PArr (TStruct fs) len off nulls bufs kids in
  spec_node a = true -> (i < len)%nat -> forallb (child_slots_in_bounds a) (child_slots a i) = true.
Proof. exact struct_slots. Qed.
Print Assumptions struct_child_slots_in_bounds.

Theorem union_reads_and_child_slot_in_bounds : forall dense fs len off nulls bufs kids i,
  let a := PArr (TUnion dense fs) len off nulls bufs kids in
  spec_node a = true -> (i < len)%nat ->
  forallb (read_in_bounds a) (own_reads a i) = true /\ forallb (child_slots_in_bounds a) (child_slots a i) = true.
Proof. exact union_reads_slots. Qed.
Print Assumptions union_reads_and_child_slot_in_bounds.

(* the physical index RunEndBuffer::get_physical_index finds (partition point x <= offset + i over all run ends)
   exists in the values child *)
Theorem run_end_physical_index_in_bounds : forall rw v len off nulls bufs kids i,
  let a := PArr (TRee rw v) len off nulls bufs kids in
  spec_node a = true -> (i < len)%nat -> forallb (child_slots_in_bounds a) (child_slots a i) = true.
Proof. exact ree_slots. Qed.
Print Assumptions run_end_physical_index_in_bounds.

(* ---- every data type at once *)
Theorem every_accessor_read_in_bounds : forall a i,
  spec_node a = true -> (i < p_len a)%nat -> forallb (read_in_bounds a) (own_reads a i) = true.
Proof. exact own_reads_ok. Qed.
Print Assumptions every_accessor_read_in_bounds.

Theorem every_dereferenced_child_slot_exists : forall a i,
  spec_node a = true -> (i < p_len a)%nat -> forallb (child_slots_in_bounds a) (child_slots a i) = true.
Proof. exact child_slots_ok. Qed.
Print Assumptions every_dereferenced_child_slot_exists.

(* ---- "no sequence of safe calls on such results can read outside a buffer": on a tree the specification
   accepts, every chain of value() calls of any depth that starts at an in-range slot arrives at an in-range slot
   of a valid node, where the validity-bitmap read, every accessor read and every child slot are again in
   bounds (induction over the chain, [reach] in Model/C01_Access.v) *)
Theorem accessor_chains_never_leave_buffers : forall a i b m,
  spec_valid a = true -> (i < p_len a)%nat -> reach a i b m ->
  (m < p_len b)%nat /\ null_read_in_bounds b m = true /\
  forallb (read_in_bounds b) (own_reads b m) = true /\ forallb (child_slots_in_bounds b) (child_slots b m) = true.
Proof. exact accessor_chain_ok. Qed.
Print Assumptions accessor_chains_never_leave_buffers.

(* the same from acceptance by the transcription of arrow-rs's own ArrayData::validate_full (Props/C09.v) *)
Theorem validated_accessor_chains_never_leave_buffers : forall a i b m,
  tree_all phys a = true -> tree_all covered a = true -> impl_validate_full a = true ->
  (i < p_len a)%nat -> reach a i b m ->
  (m < p_len b)%nat /\ null_read_in_bounds b m = true /\
  forallb (read_in_bounds b) (own_reads b m) = true /\ forallb (child_slots_in_bounds b) (child_slots b m) = true.
Proof. exact validated_chain_ok. Qed.
Print Assumptions validated_accessor_chains_never_leave_buffers.

(* non-vacuity: Struct<List<Int32>> at offset 1: slot 0 of the struct reaches, through the struct field and the
   list offsets [2,3), element 2 of the Int32 leaf *)
Example chain_nonvacuous :
  let leaf := PArr (TFixed 4) 3 0 None [[1;0;0;0; 2;0;0;0; 3;0;0;0]%N] [] in
  let lst := PArr (TList false true (TFixed 4)) 3 0 None [[0;0;0;0; 2;0;0;0; 3;0;0;0; 3;0;0;0]%N] [leaf] in
  let st := PArr (TStruct [(true, TList false true (TFixed 4))]) 2 1 None [] [lst] in
  spec_valid st = true /\ reach st 0 leaf 2.
Proof.
  split; [vm_compute; reflexivity|].
  eapply reach_step with (j := 0%nat) (s := 1%Z) (n := 1%Z) (k := 1%nat);
    [vm_compute; left; reflexivity | reflexivity | vm_compute; split; [discriminate | reflexivity] |].
  eapply reach_step with (j := 0%nat) (s := 2%Z) (n := 1%Z) (k := 2%nat);
    [vm_compute; left; reflexivity | reflexivity | vm_compute; split; [discriminate | reflexivity] |].
  apply reach_here.
Qed.
