(* C01 — property theorems only.  "Every array returned by a safe API is well formed ...
   consequently no sequence of safe calls on such results can read outside a buffer."
   The well-formedness predicate is [spec_valid] (Model/C09_Layout.v, written from the Arrow format
   specification); the harness applies its extraction to every array real kernels return.  The
   theorems below are the "consequently" clause: on a node the specification accepts, the byte
   ranges the unchecked typed accessors touch lie inside the buffers, and the child slots they
   dereference exist.  With [accept_implies_valid] (Props/C09.v) the same follows from acceptance by
   arrow-rs's own validators. *)
From Coq Require Import List Arith Bool ZArith.
From AV Require Import Base.Bytes Model.C09_Layout Model.C01_Access Proofs.C01_Bounds.
Import ListNotations.

Theorem validity_bitmap_read_in_bounds : forall a i,
  spec_nulls a = true -> (i < p_len a)%nat -> null_read_in_bounds a i = true.
Proof. exact spec_nulls_read. Qed.
Print Assumptions validity_bitmap_read_in_bounds.

Theorem fixed_width_reads_in_bounds : forall a i,
  spec_node a = true -> (i < p_len a)%nat ->
  match p_ty a with TBool | TFixed _ | TFixedBin _ | TDict _ _ _ | TView _ => True | _ => False end ->
  forallb (read_in_bounds a) (own_reads a i) = true.
Proof. exact own_reads_fixed. Qed.
Print Assumptions fixed_width_reads_in_bounds.

Theorem binary_reads_in_bounds : forall large utf8 len off nulls bufs kids i,
  let a := PArr (TBin large utf8) len off nulls bufs kids in
  spec_node a = true -> (i < len)%nat -> forallb (read_in_bounds a) (own_reads a i) = true.
Proof. exact own_reads_binary. Qed.
Print Assumptions binary_reads_in_bounds.

Theorem list_reads_and_child_range_in_bounds : forall large nullable c len off nulls bufs kids i,
  let a := PArr (TList large nullable c) len off nulls bufs kids in
  spec_node a = true -> (i < len)%nat ->
  forallb (read_in_bounds a) (own_reads a i) = true /\ forallb (child_slots_in_bounds a) (child_slots a i) = true.
Proof. exact child_slots_list. Qed.
Print Assumptions list_reads_and_child_range_in_bounds.

Theorem dictionary_key_indexes_existing_value : forall kw ks v len off nulls bufs kids i,
  let a := PArr (TDict kw ks v) len off nulls bufs kids in
  spec_node a = true -> (i < len)%nat -> forallb (child_slots_in_bounds a) (child_slots a i) = true.
Proof. exact child_slots_dict. Qed.
Print Assumptions dictionary_key_indexes_existing_value.

Theorem fixed_size_list_child_range_in_bounds : forall n nullable c len off nulls bufs kids i,
  let a := PArr (TFixedList n nullable c) len off nulls bufs kids in
  spec_node a = true -> (i < len)%nat -> forallb (child_slots_in_bounds a) (child_slots a i) = true.
Proof. exact child_slots_fixed_list. Qed.
Print Assumptions fixed_size_list_child_range_in_bounds.
