(* C02 — property theorems only.  "An array read back through its accessors yields exactly the values
   and nulls it was built from; `==` holds exactly when type, length, null positions and values
   coincide, whatever the physical layout; row-wise kernels commute with row selection."
   [logical] (Model/C02_Logical.v) is the column a physical layout denotes; [equal] (Model/C02_Equal.v)
   transcribes arrow-data/src/equal/*.rs; [build_*] transcribe the typed builders.  The correspondence
   run ties [logical] to the real accessors / iterators, [equal] to the real `==`, [build_*] to the
   real builders and [slice] to Array::slice / ArrayData::slice on every generated layout. *)
From Coq Require Import List Arith NArith ZArith Bool.
From AV Require Import Base.Bytes Model.C09_Layout Model.C02_Logical Model.C02_Equal Model.C02_Rows.
From AV Require Import Proofs.C02_Slice Proofs.C02_Readback Proofs.C02_EqualNulls Proofs.C02_EqualPrim Proofs.C02_EqualBool Proofs.C02_EqualBin Proofs.C02_EqualList Proofs.C02_EqualListPrim Proofs.C02_EqualDict Proofs.C02_EqualStruct Proofs.C02_EqualFixedList Proofs.C02_Reflect Proofs.C02_Rows.
Import ListNotations.

(* ---- slicing is a window on the logical content: EVERY modelled type (Null, Boolean, fixed width,
   FixedSizeBinary, (Large)Binary/Utf8, views, (Large)List, ListView, FixedSizeList, Struct, Dictionary,
   RunEndEncoded), any offset, with or without validity *)
Theorem slice_logical : forall a o n, o + n <= p_len a ->
  logical (slice a o n) = firstn n (skipn o (logical a)).
Proof. exact slice_logical_all. Qed.
Print Assumptions slice_logical.

(* the slot i of a slice IS the slot o+i of the array (no bound needed) *)
Theorem slice_slot : forall a o n i, logical_at (slice a o n) i = logical_at a (o + i).
Proof. exact logical_at_slice. Qed.
Print Assumptions slice_slot.

(* StructArray::slice (every field sliced, offset reset to 0) *)
Theorem slice_logical_struct : forall fs len off nulls bufs kids o n, o + n <= len ->
  logical (slice_struct (PArr (TStruct fs) len off nulls bufs kids) o n)
  = firstn n (skipn o (logical (PArr (TStruct fs) len off nulls bufs kids))).
Proof. exact slice_struct_logical. Qed.
Print Assumptions slice_logical_struct.

(* finding F3: ArrayData::slice on a Struct (offset advanced AND children sliced) does not denote the window *)
Theorem slice_arraydata_struct_refuted :
  exists a o n, o + n <= p_len a /\ logical (slice_data_struct a o n) <> firstn n (skipn o (logical a)).
Proof. exact arraydata_slice_struct_refuted. Qed.
Print Assumptions slice_arraydata_struct_refuted.

(* ---- read-back: the builder-made array denotes the appended column *)
Theorem readback_primitive : forall w vs, prim_col w vs -> logical (build_prim w vs) = vs.
Proof. exact readback_prim. Qed.
Print Assumptions readback_primitive.

Theorem readback_boolean : forall vs, bool_col vs -> logical (build_bool vs) = vs.
Proof. exact readback_bool. Qed.
Print Assumptions readback_boolean.

Theorem readback_binary : forall large utf8 vs, bin_col vs ->
  (N.of_nat (total_len vs) < 2 ^ N.of_nat (8 * offw large - 1))%N ->
  logical (build_bin large utf8 vs) = vs.
Proof. exact readback_bin. Qed.
Print Assumptions readback_binary.

Theorem readback_fixed_size_binary : forall n vs, fixedbin_col n vs -> logical (build_fixedbin n vs) = vs.
Proof. exact readback_fixedbin. Qed.
Print Assumptions readback_fixed_size_binary.

(* ---- equality: the transcribed arrow-data algorithm answers true exactly when type and logical
   column coincide — any offsets, validity present or absent, arbitrary payload under nulls *)
Theorem equal_iff_logical_primitive : forall w a b,
  p_ty a = TFixed w -> spec_node a = true -> spec_node b = true ->
  wf_bytes (buf a 0) -> wf_bytes (buf b 0) ->
  (equal a b = true <-> p_ty a = p_ty b /\ logical a = logical b).
Proof. exact equal_iff_logical_prim. Qed.
Print Assumptions equal_iff_logical_primitive.

Theorem equal_iff_logical_boolean : forall a b,
  p_ty a = TBool -> spec_node a = true -> spec_node b = true ->
  wf_bytes (buf a 0) -> wf_bytes (buf b 0) ->
  (equal a b = true <-> p_ty a = p_ty b /\ logical a = logical b).
Proof. exact equal_iff_logical_bool. Qed.
Print Assumptions equal_iff_logical_boolean.

Theorem equal_iff_logical_binary : forall large utf8 a b,
  p_ty a = TBin large utf8 -> spec_node a = true -> spec_node b = true ->
  (equal a b = true <-> p_ty a = p_ty b /\ logical a = logical b).
Proof. exact equal_iff_logical_bin. Qed.
Print Assumptions equal_iff_logical_binary.

Theorem equal_iff_logical_fixed_size_binary : forall s a b,
  p_ty a = TFixedBin s -> spec_node a = true -> spec_node b = true ->
  (equal a b = true <-> p_ty a = p_ty b /\ logical a = logical b).
Proof. exact equal_iff_logical_fixedbin. Qed.
Print Assumptions equal_iff_logical_fixed_size_binary.

(* the comparators on an arbitrary compared range (the form list / struct / dictionary recursion calls) *)
Theorem primitive_equal_range : forall w a b ls rs n,
  (p_off a + ls + n) * w <= length (buf a 0) -> (p_off b + rs + n) * w <= length (buf b 0) ->
  (forall i, i < n -> slot_valid a (ls + i) = slot_valid b (rs + i)) ->
  (primitive_equal w a b ls rs n = true
   <-> forall i, i < n -> slot_valid a (ls + i) = true ->
         chunk (buf a 0) w (p_off a + ls + i) = chunk (buf b 0) w (p_off b + rs + i)).
Proof. exact primitive_equal_iff. Qed.
Print Assumptions primitive_equal_range.

Theorem variable_sized_equal_range : forall w a b ls rs n,
  bin_ok a w -> bin_ok b w -> ls + n <= p_len a -> rs + n <= p_len b ->
  (forall i, i < n -> slot_valid a (ls + i) = slot_valid b (rs + i)) ->
  (variable_sized_equal w a b ls rs n = true
   <-> forall i, i < n -> slot_valid a (ls + i) = true -> bin_slice a w (ls + i) = bin_slice b w (rs + i)).
Proof. exact variable_sized_equal_iff. Qed.
Print Assumptions variable_sized_equal_range.

(* (Large)List, compositional: IF comparing the children on every range decides equality of the windows of
   the child's logical column, THEN list_equal (empty-children shortcut, null counts, the null-free path
   lengths_equal + ONE child range, the per-slot path) decides equality of the list slots, each slot being
   the window [offsets[j], offsets[j+1]) of the child's column *)
Theorem list_equal_range : forall (large nullable : bool) (c : dty) (alen aoff : nat) (anulls : option nullbuf)
    (abufs : list (list N)) (ka : parr) (akids : list parr) (b kb : parr) (bkids : list parr),
  let a := PArr (TList large nullable c) alen aoff anulls abufs (ka :: akids) in
  p_kids b = kb :: bkids ->
  offs_ok a (offw large) (p_len ka) -> offs_ok b (offw large) (p_len kb) ->
  (forall s1 s2 m, s1 + m <= p_len ka -> s2 + m <= p_len kb ->
     (equal_nulls ka kb s1 s2 m && equal_values ka kb s1 s2 m = true
      <-> window (logical ka) s1 m = window (logical kb) s2 m)) ->
  forall ls rs n, ls + n <= alen -> rs + n <= p_len b ->
  (forall i, i < n -> slot_valid a (ls + i) = slot_valid b (rs + i)) ->
  (equal_values a b ls rs n = true
   <-> forall i, i < n -> slot_valid a (ls + i) = true -> lslice large a ka (ls + i) = lslice large b kb (rs + i)).
Proof. exact list_equal_iff. Qed.
Print Assumptions list_equal_range.

(* instance: (Large)List of a fixed-width child — `==` exactly when type and logical column coincide
   (non-zero first offsets, unreferenced child slots, nulls at both levels with arbitrary payload) *)
Theorem equal_iff_logical_list_of_primitive : forall large nullable w a b,
  p_ty a = TList large nullable (TFixed w) -> spec_node a = true -> spec_node b = true ->
  (forall k, In k (p_kids a) -> spec_node k = true /\ wf_bytes (buf k 0)) ->
  (forall k, In k (p_kids b) -> spec_node k = true /\ wf_bytes (buf k 0)) ->
  (equal a b = true <-> p_ty a = p_ty b /\ logical a = logical b).
Proof. exact equal_iff_logical_list_prim. Qed.
Print Assumptions equal_iff_logical_list_of_primitive.

(* Dictionary, compositional: the code compares dictionaries by the values their keys select — permuted,
   duplicated and unused dictionary entries are irrelevant.  (Key validity itself is compared by equal_nulls:
   a valid key selecting a null value and a null key are told apart, see the findings.) *)
Theorem dictionary_equal_range : forall (kw : nat) (signed : bool) (v : dty) (alen aoff : nat) (anulls : option nullbuf)
    (abufs : list (list N)) (ka : parr) (akids : list parr) (b kb : parr) (bkids : list parr),
  let a := PArr (TDict kw signed v) alen aoff anulls abufs (ka :: akids) in
  p_kids b = kb :: bkids ->
  (forall s1 s2, s1 < p_len ka -> s2 < p_len kb ->
     (equal_nulls ka kb s1 s2 1 && equal_values ka kb s1 s2 1 = true <-> logical_at ka s1 = logical_at kb s2)) ->
  forall ls rs n, keys_ok kw signed a ka ls n -> keys_ok kw signed b kb rs n ->
  (forall i, i < n -> slot_valid a (ls + i) = slot_valid b (rs + i)) ->
  (equal_values a b ls rs n = true
   <-> forall i, i < n -> slot_valid a (ls + i) = true ->
         logical_at ka (Z.to_nat (dkey kw signed a (ls + i))) = logical_at kb (Z.to_nat (dkey kw signed b (rs + i)))).
Proof. exact dictionary_equal_iff. Qed.
Print Assumptions dictionary_equal_range.

(* Struct (ArrayData offset 0, as StructArray::to_data produces), compositional: whole-range path and
   per-slot path of struct_equal hold exactly when every valid slot has the same field values *)
Theorem struct_equal_range : forall (fs : list (bool * dty)) (alen : nat) (anulls : option nullbuf)
    (abufs : list (list N)) (akids : list parr) (b : parr),
  let a := PArr (TStruct fs) alen 0 anulls abufs akids in
  p_off b = 0 -> Forall2 range_ok akids (p_kids b) ->
  forall ls rs n,
  Forall (fun k => ls + n <= p_len k) akids -> Forall (fun k => rs + n <= p_len k) (p_kids b) ->
  (forall i, i < n -> slot_valid a (ls + i) = slot_valid b (rs + i)) ->
  (equal_values a b ls rs n = true
   <-> forall i, i < n -> slot_valid a (ls + i) = true ->
         map (fun k => logical_at k (ls + i)) akids = map (fun k => logical_at k (rs + i)) (p_kids b)).
Proof. exact struct_equal_iff. Qed.
Print Assumptions struct_equal_range.

(* FixedSizeList (any array offset), compositional *)
Theorem fixed_list_equal_range : forall (sz : Z) (nullable : bool) (c : dty) (alen aoff : nat) (anulls : option nullbuf)
    (abufs : list (list N)) (ka : parr) (akids : list parr) (b kb : parr) (bkids : list parr),
  let a := PArr (TFixedList sz nullable c) alen aoff anulls abufs (ka :: akids) in
  p_kids b = kb :: bkids -> range_ok ka kb ->
  forall ls rs n,
  (aoff + ls + n) * Z.to_nat sz <= p_len ka -> (p_off b + rs + n) * Z.to_nat sz <= p_len kb ->
  (forall i, i < n -> slot_valid a (ls + i) = slot_valid b (rs + i)) ->
  (equal_values a b ls rs n = true
   <-> forall i, i < n -> slot_valid a (ls + i) = true -> fslice sz a ka (ls + i) = fslice sz b kb (rs + i)).
Proof. exact fixed_list_equal_iff. Qed.
Print Assumptions fixed_list_equal_range.

(* equal_nulls / contains_nulls through the BitSliceIterator specification *)
Theorem equal_nulls_spec : forall a b ls rs n,
  equal_nulls a b ls rs n = true <-> (forall i, i < n -> slot_valid a (ls + i) = slot_valid b (rs + i)).
Proof. exact equal_nulls_iff. Qed.
Print Assumptions equal_nulls_spec.

(* the executable relation evaluated by the specification ops (c02.eq.spec, the input check of
   c02.congr.post) IS the relation of the property *)
Theorem logically_equal_spec : forall a b,
  logically_equal a b = true <-> (p_ty a = p_ty b /\ logical a = logical b).
Proof. exact logically_equal_iff. Qed.
Print Assumptions logically_equal_spec.

(* ---- row-wise kernels commute with row selection whenever the kernel succeeds on the whole input *)
Theorem rowwise_take : forall f xs ys idx,
  f LNull = Some LNull -> try_map_rows f xs = Some ys ->
  try_map_rows f (take_l xs idx) = Some (take_l ys idx).
Proof. exact rowwise_commutes_take. Qed.
Print Assumptions rowwise_take.

Theorem rowwise_slice : forall f xs ys o n,
  try_map_rows f xs = Some ys -> try_map_rows f (slice_l xs o n) = Some (slice_l ys o n).
Proof. exact rowwise_commutes_slice. Qed.
Print Assumptions rowwise_slice.

Theorem rowwise_concat : forall f xs1 xs2 ys1 ys2,
  try_map_rows f xs1 = Some ys1 -> try_map_rows f xs2 = Some ys2 ->
  try_map_rows f (xs1 ++ xs2) = Some (ys1 ++ ys2).
Proof. exact rowwise_commutes_concat. Qed.
Print Assumptions rowwise_concat.
