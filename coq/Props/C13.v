(* C13 — property theorems only: each closed by [exact] and followed by Print Assumptions. *)
From Coq Require Import List ZArith Bool.
From AV Require Import Model.C13_Num Model.C13_Decimal Model.C13_Cast Model.C13_Text Model.C13_Interval.
From AV Require Import Proofs.C13_Col Proofs.C13_Pow Proofs.C13_Rescale Proofs.C13_Int Proofs.C13_TextInt Proofs.C13_TextDec Proofs.C13_TextDecM Proofs.C13_DecInt Proofs.C13_Columns Proofs.C13_TextIntEq Proofs.C13_Interval.
Import ListNotations.
Local Open Scope Z_scope.

(* Strict / safe duality of the array combinators every fallible cast arm is built from
   (unary_opt = safe, try_unary = strict), for ANY per-value function f and ANY physical column
   (validity bit + raw value, arbitrary garbage under nulls):
   - the safe result is, row by row, f applied to the valid values; nulls stay null;
   - the strict run fails iff some VALID value fails;
   - when the strict run succeeds it returns exactly the safe result. *)
Theorem strict_safe_dual : forall (f : Z -> option Z) (c : column),
  logical (unary_opt f c) = map (fun x => match x with Some v => f v | None => None end) (logical c)
  /\ (try_unary f c = None <-> exists v, In (true, v) c /\ f v = None)
  /\ (forall r, try_unary f c = Some r -> r = unary_opt f c).
Proof. exact strict_safe_dual_cols. Qed.
Print Assumptions strict_safe_dual.

(* The same for the modelled cast itself: for every pair of modelled types whose arm has a safe and
   a strict reading (every arm except the decimal fast path and the calendar arms), safe mode
   succeeds with f applied row-wise, strict mode errs iff a valid value fails, and otherwise both
   modes return the same logical column. *)
Theorem cast_strict_safe_dual : forall a b f c, value_fn (kernel_of a b) = Some f ->
  exists r, cast_model a b true c = ROk r
    /\ logical r = spec_safe f (logical c)
    /\ (cast_model a b false c = RErr <-> exists v, In (true, v) c /\ f v = None)
    /\ (forall r', cast_model a b false c = ROk r' -> logical r' = logical r).
Proof. exact C13_Col.cast_strict_safe_dual. Qed.
Print Assumptions cast_strict_safe_dual.

(* M refines S on columns: if the arm's per-value function agrees with a specification conversion
   on the valid values of the column, the whole cast (either mode) is the specification cast. *)
Theorem cast_model_refines_spec : forall a b f conv safe c,
  value_fn (kernel_of a b) = Some f ->
  (forall v, In (true, v) c -> f v = conv v) ->
  match cast_model a b safe c with
  | ROk r => spec_cast conv safe (logical c) = Some (logical r)
  | RErr => spec_cast conv safe (logical c) = None
  | RPanic => False
  end.
Proof. exact C13_Col.cast_model_refines_spec. Qed.
Print Assumptions cast_model_refines_spec.

(* integer -> integer on a whole physical column, either CastOptions.safe value, any widths: the
   modelled cast IS the specification cast of the logical column (strict: error iff some valid value
   is outside the target range; safe: nulls exactly there; nulls stay null; never a panic) *)
Theorem int_column_cast : forall b1 s1 b2 s2 safe c,
  (forall v, In (true, v) c -> fits b1 s1 v = true) ->
  match cast_model (TInt b1 s1) (TInt b2 s2) safe c with
  | ROk r => spec_cast (num_cast b2 s2) safe (logical c) = Some (logical r)
  | RErr => spec_cast (num_cast b2 s2) safe (logical c) = None
  | RPanic => False
  end.
Proof. exact int_column_cast_spec. Qed.
Print Assumptions int_column_cast.

(* decimal -> decimal on a whole physical column, either mode, every width / precision / scale pair
   within the stated arithmetic limits: provided every RAW slot (the ones under nulls too — the fast
   path visits them) is within the declared input precision, the modelled cast is the specification
   cast: rescale with round half away from zero, null / error beyond the output precision *)
Theorem decimal_column_cast : forall w1 p1 s1 w2 p2 s2 safe c,
  In w1 [32; 64; 128; 256] -> In w2 [32; 64; 128; 256] ->
  dec_type_ok w1 p1 s1 = true -> dec_type_ok w2 p2 s2 = true ->
  - 127 <= s2 - s1 <= 127 -> p1 + (s2 - s1) <= 127 -> (s1 <= s2 -> s2 - s1 <= dec_maxp w2) ->
  (forall b v, In (b, v) c -> Z.abs v < 10 ^ p1) ->
  match cast_model (TDec w1 p1 s1) (TDec w2 p2 s2) safe c with
  | ROk r => spec_cast (dec_dec_spec s1 p2 s2) safe (logical c) = Some (logical r)
  | RErr => spec_cast (dec_dec_spec s1 p2 s2) safe (logical c) = None
  | RPanic => False
  end.
Proof. exact decimal_column_cast_spec. Qed.
Print Assumptions decimal_column_cast.

(* integer -> integer, all widths and signs (abstract widths): the value is kept iff it lies in
   the target range, otherwise null / error *)
Theorem int_cast_exact : forall b1 s1 b2 s2 v, fits b1 s1 v = true ->
  kernel_value (kernel_of (TInt b1 s1) (TInt b2 s2)) v = Some (if fits b2 s2 v then Some v else None).
Proof. exact C13_Int.int_cast_exact. Qed.
Print Assumptions int_cast_exact.

(* lossless inverse, integers: a value that survives a -> b is unchanged and b -> a returns it *)
Theorem lossless_inverse_int : forall b1 s1 b2 s2 v w, fits b1 s1 v = true ->
  kernel_value (kernel_of (TInt b1 s1) (TInt b2 s2)) v = Some (Some w) ->
  w = v /\ kernel_value (kernel_of (TInt b2 s2) (TInt b1 s1)) w = Some (Some v).
Proof. exact int_cast_inverse. Qed.
Print Assumptions lossless_inverse_int.

(* make_downscaler's "divide, compare the remainder with +-half" is round half away from zero *)
Theorem decimal_round_half_away : forall div x, 0 < div -> Z.even div = true ->
  downscale div x = round_half_away div x.
Proof. exact downscale_is_round_half_away. Qed.
Print Assumptions decimal_round_half_away.

(* decimal -> decimal, every width pair, every precision / scale the types allow: for a value within
   its declared precision the arm chosen by cast_decimal_to_decimal(_same_type) — clone, upscale via
   the 10^k table with checked multiply, downscale with manual rounding, all-zero shortcut, or the
   unchecked fast path — yields exactly the rescaled value (round half away from zero) when it has
   at most p2 digits, and a null / error otherwise; it never panics.  Hypotheses: the scale and
   precision arithmetic stays within i8 (it is done in i8 by the code) and, when upscaling, the
   scale difference is within the 10^k table of the output width (otherwise the real code refuses
   every input). *)
Theorem decimal_rescale_exact : forall w1 p1 s1 w2 p2 s2 x,
  In w1 [32; 64; 128; 256] -> In w2 [32; 64; 128; 256] ->
  dec_type_ok w1 p1 s1 = true -> dec_type_ok w2 p2 s2 = true ->
  - 127 <= s2 - s1 <= 127 -> p1 + (s2 - s1) <= 127 ->
  (s1 <= s2 -> s2 - s1 <= dec_maxp w2) ->
  Z.abs x < 10 ^ p1 ->
  kernel_value (dec_dec_kernel w1 p1 s1 w2 p2 s2) x
  = Some (let r := if s1 <=? s2 then x * 10 ^ (s2 - s1) else round_half_away (10 ^ (s1 - s2)) x in
          if Z.abs r <? 10 ^ p2 then Some r else None).
Proof. exact dec_dec_kernel_exact. Qed.
Print Assumptions decimal_rescale_exact.

(* the fast path that skips validation is sound under "values within the declared precision" *)
Theorem infallible_path_sound : forall w1 p1 s1 w2 p2 s2 f x,
  In w1 [32; 64; 128; 256] -> In w2 [32; 64; 128; 256] ->
  dec_type_ok w1 p1 s1 = true -> dec_type_ok w2 p2 s2 = true ->
  - 127 <= s2 - s1 <= 127 -> p1 + (s2 - s1) <= 127 -> (s1 <= s2 -> s2 - s1 <= dec_maxp w2) ->
  dec_dec_kernel w1 p1 s1 w2 p2 s2 = KUnwrap f ->
  Z.abs x < 10 ^ p1 ->
  exists r, f x = Some r /\ Z.abs r < 10 ^ p2 /\ fits w2 true r = true /\ r = rescale_spec s1 s2 x.
Proof. exact C13_Rescale.infallible_path_sound. Qed.
Print Assumptions infallible_path_sound.

(* ... and only under it: a raw value under a NULL that does not fit the output native type makes
   the fast path panic (Decimal128(5,0) -> Decimal32(9,2), one null slot holding 2^100) *)
Theorem infallible_path_garbage_refuted :
  exists c, logical c = [None] /\ run_kernel (dec_dec_kernel 128 5 0 32 9 2) true c = RPanic.
Proof. exact C13_Rescale.infallible_path_garbage_refuted. Qed.
Print Assumptions infallible_path_garbage_refuted.

(* lossless inverse, decimals (specification level): upscaling then downscaling returns the value *)
Theorem lossless_inverse_decimal : forall s1 p1 s2 p2 x y, s1 <= s2 -> Z.abs x < 10 ^ p1 ->
  dec_dec_spec s1 p2 s2 x = Some y -> dec_dec_spec s2 p1 s1 y = Some x.
Proof. exact decimal_upscale_inverse. Qed.
Print Assumptions lossless_inverse_decimal.

(* lossless inverse, decimals, at the level of the modelled kernels: a value that survives the
   upscale (w1,p1,s1) -> (w2,p2,s2) is returned by the cast back, whatever arms (checked, fast path,
   different native widths) the two directions take *)
Theorem lossless_inverse_decimal_kernels : forall w1 p1 s1 w2 p2 s2 x y,
  In w1 [32; 64; 128; 256] -> In w2 [32; 64; 128; 256] ->
  dec_type_ok w1 p1 s1 = true -> dec_type_ok w2 p2 s2 = true ->
  s1 <= s2 -> s2 - s1 <= 127 -> p1 + (s2 - s1) <= 127 -> s2 - s1 <= dec_maxp w2 ->
  Z.abs x < 10 ^ p1 ->
  kernel_value (dec_dec_kernel w1 p1 s1 w2 p2 s2) x = Some (Some y) ->
  kernel_value (dec_dec_kernel w2 p2 s2 w1 p1 s1) y = Some (Some x).
Proof. exact decimal_kernel_inverse. Qed.
Print Assumptions lossless_inverse_decimal_kernels.

(* integer -> decimal with a non-negative scale: v * 10^s when it has at most p digits, else null / error *)
Theorem int_decimal_exact : forall bits sg w p s v, In w [32; 64; 128; 256] ->
  1 <= p <= dec_maxp w -> 0 <= s <= dec_maxp w ->
  kernel_value (int_dec_kernel bits sg w p s) v
  = Some (let r := v * 10 ^ s in if Z.abs r <? 10 ^ p then Some r else None).
Proof. exact int_decimal_exact_explicit. Qed.
Print Assumptions int_decimal_exact.

(* decimal -> integer with a non-negative scale: division by 10^s truncated toward zero, kept iff
   it lies in the target integer range *)
Theorem decimal_int_exact : forall w s obits osg v, In w [32; 64; 128; 256] -> 0 <= s <= dec_maxp w ->
  kernel_value (dec_int_kernel w s obits osg) v = Some (num_cast obits osg (Z.quot v (10 ^ s))).
Proof. exact C13_DecInt.decimal_int_exact. Qed.
Print Assumptions decimal_int_exact.

(* timestamp / duration unit changes: to a finer unit the result is the exact product, to a coarser
   unit the exact quotient truncated toward zero *)
Theorem temporal_unit_exact : forall u1 u2 v w, In u1 [0; 1; 2; 3] -> In u2 [0; 1; 2; 3] ->
  kernel_value (unit_change_kernel u1 u2) v = Some (Some w) ->
  (unit_mult u1 <= unit_mult u2 -> w * unit_mult u1 = v * unit_mult u2)
  /\ (unit_mult u2 < unit_mult u1 -> w = Z.quot (v * unit_mult u2) (unit_mult u1)).
Proof. exact C13_Int.temporal_unit_exact. Qed.
Print Assumptions temporal_unit_exact.

(* ... null / error exactly when the exact product leaves i64 *)
Theorem temporal_unit_overflow : forall u1 u2 v, In u1 [0; 1; 2; 3] -> In u2 [0; 1; 2; 3] ->
  kernel_value (unit_change_kernel u1 u2) v = Some None <->
  unit_mult u1 < unit_mult u2 /\ fits 64 true (v * Z.quot (unit_mult u2) (unit_mult u1)) = false.
Proof. exact C13_Int.temporal_unit_overflow. Qed.
Print Assumptions temporal_unit_overflow.

(* lossless inverse, time units *)
Theorem lossless_inverse_temporal : forall u1 u2 v w, In u1 [0; 1; 2; 3] -> In u2 [0; 1; 2; 3] ->
  unit_mult u1 <= unit_mult u2 ->
  kernel_value (unit_change_kernel u1 u2) v = Some (Some w) ->
  kernel_value (unit_change_kernel u2 u1) w = Some (Some v).
Proof. exact temporal_unit_inverse. Qed.
Print Assumptions lossless_inverse_temporal.

(* Date32 -> Date64 is exact, never overflows, and Date64 -> Date32 returns the day *)
Theorem date32_date64_exact : forall v, fits 32 true v = true ->
  kernel_value (kernel_of TDate32 TDate64) v = Some (Some (v * 86400000))
  /\ fits 64 true (v * 86400000) = true
  /\ kernel_value (kernel_of TDate64 TDate32) (v * 86400000) = Some (Some v).
Proof. exact C13_Int.date32_date64_exact. Qed.
Print Assumptions date32_date64_exact.

(* integer text: the parser of arrow-cast (atoi with checked accumulation, trimming rules of
   parser_primitive!) applied to the decimal rendering of any value of the type returns it *)
Theorem int_text_roundtrip : forall bits sg v, 1 <= bits -> fits bits sg v = true ->
  parse_int bits sg (fmt_int v) = Some v.
Proof. exact int_text_roundtrip_M. Qed.
Print Assumptions int_text_roundtrip.

(* M = S for integer parsing, on EVERY byte string: the parser of arrow-cast (conditional trimming,
   two atoi attempts, checked accumulation that keeps consuming digits after an overflow) accepts
   exactly  blanks* [+-]? digit+ blanks*  with the value in the range of the type, and returns it *)
Theorem int_parse_model_is_spec : forall bits sg s, 1 <= bits ->
  parse_int bits sg s = parse_int_spec bits sg s.
Proof. exact parse_int_eq_spec. Qed.
Print Assumptions int_parse_model_is_spec.

(* decimal text, the real parser: for every decimal type (w, p, s) with a non-negative scale and every
   value within the declared precision, the Utf8 -> Decimal cast (parse_string_to_decimal_native:
   trim, sign, 19-digit u64 chunks folded with checked multiply / add, rounding digit, then the
   precision check) applied to the text the Decimal -> Utf8 cast produces (format_decimal_str: sign,
   leading "0.", zero padding) is defined and returns the value *)
Theorem decimal_text_roundtrip : forall w p s v,
  In w [32; 64; 128; 256] -> 1 <= p <= dec_maxp w -> 0 <= s <= dec_maxs w -> Z.abs v < 10 ^ p ->
  exists f, cast_str_dec w p s = Some f /\ f (fmt_dec v p s) = Some v.
Proof. exact decimal_text_roundtrip_M. Qed.
Print Assumptions decimal_text_roundtrip.

(* the same for the specification reader of decimal literals (sign, digits, one point, round half
   away from zero) that the correspondence run compares the real parser with on arbitrary strings *)
Theorem decimal_text_roundtrip_spec : forall w p s v,
  In w [32; 64; 128; 256] -> 1 <= p <= dec_maxp w -> 0 <= s -> Z.abs v < 10 ^ p ->
  parse_dec_spec w p s (fmt_dec v p s) = Some v.
Proof. exact C13_TextDec.decimal_text_roundtrip_spec. Qed.
Print Assumptions decimal_text_roundtrip_spec.

(* Interval(MonthDayNano) -> Duration(unit): defined exactly on the intervals without a calendar part,
   BOTH months = 0 and days = 0 being required; the value is the nanosecond count in the target unit
   truncated toward zero *)
Theorem interval_to_duration_exact : forall u m d n, - 2 ^ 31 <= d < 2 ^ 31 -> - 2 ^ 63 <= n < 2 ^ 63 ->
  mdn_to_dur u (pack_mdn m d n) = if (m =? 0) && (d =? 0) then Some (Z.quot n (dur_scale u)) else None.
Proof. exact mdn_to_dur_exact. Qed.
Print Assumptions interval_to_duration_exact.

(* strict / safe agreement for every modelled interval cast (MonthDayNano <-> Duration, YearMonth /
   DayTime -> MonthDayNano, Int32 -> YearMonth) on a whole physical column: strict mode errs iff some
   VALID row is not representable, safe mode nulls exactly those rows, rows under a null never matter *)
Theorem interval_cast_strict_safe : forall kind u conv safe c, interval_conv kind u = Some conv ->
  match run_kernel (interval_kernel kind u) safe c with
  | ROk r => spec_cast conv safe (logical c) = Some (logical r)
  | RErr => spec_cast conv safe (logical c) = None
  | RPanic => False
  end.
Proof. exact interval_cast_refines. Qed.
Print Assumptions interval_cast_strict_safe.

(* lossless inverse: Duration -> Interval(MonthDayNano) -> Duration returns the value *)
Theorem lossless_inverse_duration_interval : forall u v w, dur_to_mdn u v = Some w -> mdn_to_dur u w = Some v.
Proof. exact dur_mdn_roundtrip. Qed.
Print Assumptions lossless_inverse_duration_interval.

(* text form of the time part of Interval(DayTime) / Interval(MonthDayNano) (MillisecondsFormatter /
   NanosecondsFormatter): the printed hours, mins, secs and sub-second fields recompose to the count and
   every lower field stays below its carry bound (|mins| < 60, |secs| < 60, |sub| < units per second) *)
Theorem interval_text_fields_exact : forall U v, 0 < U ->
  v = ((hms_hours U v * 60 + hms_mins U v) * 60 + hms_secs U v) * U + hms_sub U v
  /\ Z.abs (hms_mins U v) < 60 /\ Z.abs (hms_secs U v) < 60 /\ Z.abs (hms_sub U v) < U.
Proof. exact hms_decomposition. Qed.
Print Assumptions interval_text_fields_exact.
