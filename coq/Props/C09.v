(* C09 — property theorems only. *)
From Coq Require Import List Bool NArith ZArith.
From AV Require Import Gen.Consts Model.C09_Layout Model.C09_Validate Model.C09_Gaps Model.C01_Access Proofs.C09_Tree Proofs.C09_Accept Proofs.C09_Main Proofs.C09_GenTie Proofs.C09_Refuted.
Import ListNotations.

(* A per-node implication between validators lifts to whole array trees of any shape and depth. *)
Theorem node_implication_lifts_to_trees : forall (P Q : parr -> bool),
  (forall a, P a = true -> Q a = true) -> forall a, tree_all P a = true -> tree_all Q a = true.
Proof. exact tree_all_impl. Qed.
Print Assumptions node_implication_lifts_to_trees.

(* Acceptance implies specification validity: for every array tree (any nesting) over the covered
   types — Null, Boolean, all fixed-width primitives, FixedSizeBinary, (Large)Binary, (Large)List, (Large)ListView,
   FixedSizeList (nullable child, or offset 0), Struct (offset 0), Dictionary, RunEndEncoded — with
   physically realisable buffers, if the transcription of ArrayData::validate_full accepts then the
   independent validator written from the format specification accepts.
   Not covered by this theorem (correspondence run only): Utf8 content, views, unions
   (type ids are not validated by arrow-rs: known finding F5), Struct / non-nullable FixedSizeList at a
   non-zero offset (validation ignores the offset: known finding F4). *)
Theorem accept_implies_valid : forall a,
  tree_all phys a = true -> tree_all covered a = true -> impl_validate_full a = true -> spec_valid a = true.
Proof. exact accept_implies_valid_tree. Qed.
Print Assumptions accept_implies_valid.

(* non-vacuity: a nested List<Int32> with a validity bitmap, offsets [0,2,2,3] and a 3-element child meets
   every hypothesis and is accepted *)
Example accept_nonvacuous :
  let child := PArr (TFixed 4) 3 0 None [[1;0;0;0; 2;0;0;0; 3;0;0;0]%N] [] in
  let a := PArr (TList false true (TFixed 4)) 3 0
             (Some {| nb_bytes := [5%N]; nb_off := 0; nb_len := 3; nb_count := 1 |})
             [[0;0;0;0; 2;0;0;0; 2;0;0;0; 3;0;0;0]%N] [child] in
  tree_all phys a = true /\ tree_all covered a = true /\ impl_validate_full a = true /\ spec_valid a = true.
Proof. vm_compute. repeat split. Qed.

(* The inline-view threshold of the models is the constant of the current source tree. *)
Theorem model_constants_match_source :
  Z.of_N max_inline_view_len = arrow_data_byte_view__MAX_INLINE_VIEW_LEN.
Proof. exact tie_max_inline_view_len. Qed.
Print Assumptions model_constants_match_source.

(* ---- the hypothesis [covered] cannot be dropped: at the known gaps the transcribed validator accepts what the
   specification rejects (witnesses in Proofs/C09_Refuted.v, decided by computation; the correspondence run
   reports the same inputs against the real ArrayData::validate_full as KNOWN-FINDING F4 / F5) *)
Theorem accept_implies_valid_struct_offset_refuted : exists a,
  tree_all phys a = true /\ impl_validate_full a = true /\ spec_valid a = false /\
  match p_ty a with TStruct _ => p_off a <> 0%nat | _ => False end.
Proof. exact accept_implies_valid_struct_offset_refuted_w. Qed.
Print Assumptions accept_implies_valid_struct_offset_refuted.

Theorem accept_implies_valid_fixed_size_list_offset_refuted : exists a,
  tree_all phys a = true /\ impl_validate_full a = true /\ spec_valid a = false /\
  match p_ty a with TFixedList _ false _ => p_off a <> 0%nat | _ => False end.
Proof. exact accept_implies_valid_fixed_size_list_offset_refuted_w. Qed.
Print Assumptions accept_implies_valid_fixed_size_list_offset_refuted.

Theorem accept_implies_valid_union_type_ids_refuted : exists a,
  tree_all phys a = true /\ impl_validate_full a = true /\ spec_valid a = false /\
  match p_ty a with TUnion _ _ => True | _ => False end.
Proof. exact accept_implies_valid_union_type_ids_refuted_w. Qed.
Print Assumptions accept_implies_valid_union_type_ids_refuted.

(* the known-gap classifier names each witness (kinds 1, 2, 3 of Model/C09_Gaps.v), and every tree over the covered
   types is outside the classifier: a gap node is never a covered node *)
Theorem gap_nodes_are_not_covered : forall a k, gap_kind a = Some k -> k <> 0%Z -> covered a = false.
Proof. exact gap_not_covered. Qed.
Print Assumptions gap_nodes_are_not_covered.

(* what the F4 gap costs downstream (C01): on the accepted struct witness, value(1) addresses child slot 2 of a
   2-slot child — the slot does not exist (arrow-rs answers with a safe panic there, see known finding F4) *)
Theorem accepted_struct_offset_addresses_missing_child_slot :
  impl_validate_full w_struct_offset = true /\
  forallb (child_slots_in_bounds w_struct_offset) (child_slots w_struct_offset 1) = false.
Proof. exact (conj (proj1 (proj2 (gap_refutes _ (proj1 struct_offset_gap)))) struct_offset_child_slot_missing). Qed.
Print Assumptions accepted_struct_offset_addresses_missing_child_slot.
