(* C09 — property theorems only. *)
From Coq Require Import List Bool NArith ZArith.
From AV Require Import Gen.Consts Model.C09_Layout Model.C09_Validate Proofs.C09_Tree Proofs.C09_Accept Proofs.C09_Main Proofs.C09_GenTie.
Import ListNotations.

(* A per-node implication between validators lifts to whole array trees of any shape and depth. *)
Theorem node_implication_lifts_to_trees : forall (P Q : parr -> bool),
  (forall a, P a = true -> Q a = true) -> forall a, tree_all P a = true -> tree_all Q a = true.
Proof. exact tree_all_impl. Qed.
Print Assumptions node_implication_lifts_to_trees.

(* Acceptance implies specification validity: for every array tree (any nesting) over the covered
   types — Null, Boolean, all fixed-width primitives, FixedSizeBinary, (Large)Binary, (Large)List,
   FixedSizeList (nullable child, or offset 0), Struct (offset 0), Dictionary, RunEndEncoded — with
   physically realisable buffers, if the transcription of ArrayData::validate_full accepts then the
   independent validator written from the format specification accepts.
   Not covered by this theorem (correspondence run only): Utf8 content, views, list-views, unions
   (type ids are not validated by arrow-rs: known finding F5), Struct / non-nullable FixedSizeList at a
   non-zero offset (validation ignores the offset: known finding F4). *)
Theorem accept_implies_valid : forall a,
  tree_all phys a = true -> tree_all covered a = true -> impl_validate_full a = true -> spec_valid a = true.
Proof. exact accept_implies_valid_tree. Qed.
Print Assumptions accept_implies_valid.

(* non-vacuity: a nested List<Int32> with a validity bitmap, offsets [0,2,2,3] and a 3-element child meets
   every hypothesis and is accepted *)
Example accept_nonvacuous :
  let child := PArr (TFixed 4) 3 0 None [[1;0;0;0; 2;0;0;0; 3;0;0;0]%N] [] in
  let a := PArr (TList false true (TFixed 4)) 3 0
             (Some {| nb_bytes := [5%N]; nb_off := 0; nb_len := 3; nb_count := 1 |})
             [[0;0;0;0; 2;0;0;0; 2;0;0;0; 3;0;0;0]%N] [child] in
  tree_all phys a = true /\ tree_all covered a = true /\ impl_validate_full a = true /\ spec_valid a = true.
Proof. vm_compute. repeat split. Qed.

(* The inline-view threshold of the models is the constant of the current source tree. *)
Theorem model_constants_match_source :
  Z.of_N max_inline_view_len = arrow_data_byte_view__MAX_INLINE_VIEW_LEN.
Proof. exact tie_max_inline_view_len. Qed.
Print Assumptions model_constants_match_source.
