(* C06 — property theorems only: each closed by [exact] and followed by Print Assumptions.
   [den] maps a RowSelection (run-length or bitmap backed) to the list of booleans "row i is
   selected"; the *_spec operations are the obvious operations on such lists
   (Model/C06_RowSel.v, section S). *)
From Coq Require Import List ZArith Arith Bool.
From AV Require Import Model.C06_RowSel Model.C06_Reader.
From AV Require Import Proofs.C06_Basics Proofs.C06_AndThen Proofs.C06_Construct Proofs.C06_Algebra Proofs.C06_Plan Proofs.C06_Total Proofs.C06_Cursor Proofs.C06_Scan.
Import ListNotations.

(* ---- constructors *)
(* From<Vec<RowSelector>> / collect(): dropping empty selectors and merging neighbours keeps
   the selected rows, for every selector vector (empty runs, repeated kinds included) ... *)
Theorem from_selectors_den : forall l : list sel, dens (from_iter l) = dens l.
Proof. exact from_iter_dens. Qed.
Print Assumptions from_selectors_den.

(* ... and establishes the documented invariants: no empty selector, alternating kinds *)
Theorem from_selectors_normal : forall l : list sel,
  Forall (fun s : sel => snd s <> 0) (from_iter l) /\ alternating (from_iter l).
Proof. exact from_iter_normal. Qed.
Print Assumptions from_selectors_normal.

(* mask_to_selectors / MaskRunIter / iter() on a bitmap: the run-length form of a bitmap
   denotes the bitmap *)
Theorem mask_selectors_agree : forall m : list bool, dens (mask_to_selectors m) = m.
Proof. exact mask_to_selectors_dens. Qed.
Print Assumptions mask_selectors_agree.

(* from_consecutive_ranges: whenever it does not panic, row i is selected iff it lies in one
   of the ranges, for 0 <= i < total_rows *)
Theorem from_consecutive_ranges_spec : forall (rs : list (nat * nat)) (total : nat) (l : list sel),
  from_consecutive_ranges rs total = Some l ->
  dens l = map (fun i => existsb (fun r => (fst r <=? i) && (i <? snd r)) rs) (seq 0 total).
Proof. exact from_consecutive_ranges_dens. Qed.
Print Assumptions from_consecutive_ranges_spec.

(* from_filters never panics on null-free filters and denotes their concatenation *)
Theorem from_filters_spec : forall filters : list (list bool),
  exists l, from_filters filters = Some l /\ dens l = concat filters.
Proof. exact from_filters_dens. Qed.
Print Assumptions from_filters_spec.

(* ---- and_then, all four backing pairings; None = the documented panic *)
Theorem den_and_then : forall a b r : rowsel,
  and_then a b = Some r -> den r = and_then_spec (den a) (den b).
Proof. exact Proofs.C06_Plan.den_and_then. Qed.
Print Assumptions den_and_then.

(* ... and under the documented precondition (the second selection has exactly as many rows as
   the first selects; its run-length form has no empty run, as every constructor guarantees)
   no pairing panics *)
Theorem and_then_total : forall a b : rowsel,
  match b with Sels l => Forall (fun s : sel => snd s <> 0) l | Mask _ => True end ->
  count_true (den a) = length (den b) -> and_then a b <> None.
Proof. exact Proofs.C06_Total.and_then_total. Qed.
Print Assumptions and_then_total.

(* ---- intersection / union: pointwise, the longer operand's tail passes through *)
Theorem den_intersection : forall a b : rowsel, den (intersection a b) = zip_tail andb (den a) (den b).
Proof. exact Proofs.C06_Algebra.den_intersection. Qed.
Print Assumptions den_intersection.

Theorem den_union : forall a b : rowsel, den (union a b) = zip_tail orb (den a) (den b).
Proof. exact Proofs.C06_Algebra.den_union. Qed.
Print Assumptions den_union.

(* ---- FromIterator<RowSelection>: concatenation, whatever the mix of backings *)
Theorem den_concat : forall l : list rowsel, den (concat_sel l) = flat_map den l.
Proof. exact Proofs.C06_Algebra.den_concat. Qed.
Print Assumptions den_concat.

(* ---- split_off: head = first n rows, tail = the rest *)
Theorem den_split_off : forall (s : rowsel) (n : nat),
  den (fst (split_off s n)) = firstn n (den s) /\ den (snd (split_off s n)) = skipn n (den s).
Proof. exact Proofs.C06_Algebra.den_split_off. Qed.
Print Assumptions den_split_off.

Theorem den_split_off_parts : forall (s : rowsel) (n : nat),
  den (fst (split_off s n)) ++ den (snd (split_off s n)) = den s
  /\ length (den (fst (split_off s n))) = Nat.min n (length (den s)).
Proof. exact Proofs.C06_Algebra.den_split_off_parts. Qed.
Print Assumptions den_split_off_parts.

(* ---- offset / limit / trim *)
Theorem den_offset : forall (s : rowsel) (n : nat),
  den (offset s n) = if n =? 0 then den s else if count_true (den s) <=? n then [] else clear_first n (den s).
Proof. exact Proofs.C06_Algebra.den_offset. Qed.
Print Assumptions den_offset.

Theorem den_limit : forall (s : rowsel) (n : nat), den (limit s n) = limit_spec n (den s).
Proof. exact Proofs.C06_Algebra.den_limit. Qed.
Print Assumptions den_limit.

(* trim and selects_any need the invariant "no empty select run" that every public constructor
   establishes (from_selectors_normal); without it both statements are false *)
Theorem den_trim : forall s : rowsel,
  match s with Sels l => Forall (fun x : sel => fst x = false -> snd x <> 0) l | Mask _ => True end ->
  den (trim s) = rev (drop_false (rev (den s))).
Proof. exact Proofs.C06_Algebra.den_trim. Qed.
Print Assumptions den_trim.

Theorem den_trim_unrestricted_refuted : exists s : rowsel, den (trim s) <> rev (drop_false (rev (den s))).
Proof. exact Proofs.C06_Algebra.den_trim_unrestricted_refuted. Qed.
Print Assumptions den_trim_unrestricted_refuted.

(* ---- counters *)
Theorem selects_any_spec : forall s : rowsel,
  match s with Sels l => Forall (fun x : sel => fst x = false -> snd x <> 0) l | Mask _ => True end ->
  selects_any s = existsb (fun b => b) (den s).
Proof. exact selects_any_den. Qed.
Print Assumptions selects_any_spec.

Theorem selects_any_unrestricted_refuted : exists s : rowsel, selects_any s <> existsb (fun b => b) (den s).
Proof. exact Proofs.C06_Algebra.selects_any_unrestricted_refuted. Qed.
Print Assumptions selects_any_unrestricted_refuted.

Theorem row_count_spec : forall s : rowsel,
  row_count s = count_true (den s) /\ total_row_count s = length (den s)
  /\ skipped_row_count s = length (den s) - count_true (den s).
Proof. exact counters_den. Qed.
Print Assumptions row_count_spec.

(* ---- scan_ranges (page pruning): a page holding a selected row is always fetched.
   [page_of pages r] is the page holding row r, for pages given as (index, first_row_index) *)
Theorem scan_ranges_cover : forall (s : rowsel) (first_rows : list nat) (i p : nat),
  nth i (den s) false = true ->
  page_of (combine (seq 0 (length first_rows)) first_rows) i = Some p ->
  In p (scan_ranges s first_rows).
Proof. exact Proofs.C06_Scan.scan_ranges_cover. Qed.
Print Assumptions scan_ranges_cover.

(* ---- ReadPlanBuilder::build with the Mask policy + MaskCursor::next_mask_chunk: the chunks
   (initial_skip, chunk_rows, selected_rows, mask_start, mask bits) tile the trimmed selection and
   none selects more rows than the batch size *)
Theorem mask_plan_tiles : forall (s : rowsel) (bs : nat),
  match s with Sels l => Forall (fun x : sel => fst x = false -> snd x <> 0) l | Mask _ => True end ->
  1 <= bs ->
  flat_map (fun c : nat * nat * nat * nat * list bool =>
              match c with (isk, _, _, _, bits) => repeat false isk ++ bits end) (plan_mask s bs)
  = rev (drop_false (rev (den s)))
  /\ Forall (fun c : nat * nat * nat * nat * list bool =>
               match c with (_, rows, selected, _, bits) =>
                 selected <= bs /\ selected = count_true bits /\ rows = length bits /\ 1 <= rows end)
            (plan_mask s bs).
Proof. exact plan_mask_spec. Qed.
Print Assumptions mask_plan_tiles.

(* ---- the read plan: the plan the sync reader derives from (selection, predicates, offset,
   limit) can always be built when the selection does not extend past the rows of the chosen row
   groups, and the rows it visits are exactly those of the reference reader: rows of the chosen
   row groups -> selection -> predicates in order -> offset -> limit *)
Theorem read_plan_refines : forall (nullmod : Z) (rg_counts : list Z) (chosen : list nat)
    (selection : option rowsel) (preds : list pred) (off lim : option nat),
  match selection with Some s => length (den s) <= length (rows_of rg_counts chosen) | None => True end ->
  plan_read nullmod rg_counts chosen selection preds off lim
  = Some (reference_read nullmod rg_counts chosen (option_map den selection) preds off lim).
Proof. exact plan_read_total. Qed.
Print Assumptions read_plan_refines.

(* without the side condition: whenever the plan can be built it reads the reference rows *)
Theorem read_plan_sound : forall (nullmod : Z) (rg_counts : list Z) (chosen : list nat)
    (selection : option rowsel) (preds : list pred) (off lim : option nat) (ids : list Z),
  plan_read nullmod rg_counts chosen selection preds off lim = Some ids ->
  ids = reference_read nullmod rg_counts chosen (option_map den selection) preds off lim.
Proof. exact plan_read_refines. Qed.
Print Assumptions read_plan_sound.
