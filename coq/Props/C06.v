(* C06 — property theorems only (placeholder while the proofs are being built). *)
From Coq Require Import List Arith.
From AV Require Import Model.C06_RowSel Model.C06_Reader.
