(* C16 — property theorems only: each closed by [exact] and followed by Print Assumptions.
   [run ops init] ranges over every state reachable by an operation history (clone / slice / wrap /
   drop / into_mutable / into_vec / unary_mut / try_unary_mut / into_builder / BooleanBuffer op= /
   claim / export / import / stream), in any order; an interleaving of per-thread histories is one
   such history.  [cnt s id] is the strong count of node [id] (references from live objects, live
   exported structures and live imported regions); [acts s i] are the references held by the object
   in slot [i]. *)
From Coq Require Import List Arith ZArith.
From AV Require Import Model.C16_Own Proofs.C16_Inv Proofs.C16_Ops Proofs.C16_Mut Proofs.C16_Excl Proofs.C16_Main.

(* IMMUTABILITY: one more operation [p], acting on slot [o_a p], does not change what any OTHER live
   object (buffer, array, boolean buffer, builder, vector, ...) shows. *)
Theorem immutability : forall (ops : list op) (p : op) (j : nat) (o : obj),
  get_slot (run ops init) j = Some o -> j <> o_a p ->
  view (step (run ops init) p) o = view (run ops init) o.
Proof. exact immutability_r. Qed.
Print Assumptions immutability.

(* ... and that object stays where it is (only the validity slot consumed by an array constructor goes away). *)
Theorem other_objects_stay : forall (ops : list op) (p : op) (j : nat),
  j <> o_a p -> (o_code p = 11 \/ o_code p = 13 -> j <> o_b p) -> j < length (slots (run ops init)) ->
  nth_error (slots (step (run ops init) p)) j = nth_error (slots (run ops init)) j.
Proof. exact other_slots_stay. Qed.
Print Assumptions other_objects_stay.

(* MUTATION REQUIRES UNIQUE OWNERSHIP: if an operation changes the content of an existing region, then
   every reference to that region is held by the object the operation acts on. *)
Theorem mutation_requires_unique : forall (ops : list op) (p : op) (id : nat),
  id < length (nodes (run ops init)) ->
  reg_bytes (step (run ops init) p) id <> reg_bytes (run ops init) id ->
  0 < count_occ Nat.eq_dec (acts (run ops init) (o_a p)) id
  /\ cnt (run ops init) id = count_occ Nat.eq_dec (acts (run ops init) (o_a p)) id.
Proof. exact mutation_requires_unique_r. Qed.
Print Assumptions mutation_requires_unique.

(* MutableBuffer, Vec and PrimitiveBuilder objects (which write without any run-time check) hold the
   only reference to their memory. *)
Theorem exclusive_objects_unique : forall (ops : list op) (i : nat) (o : obj) (id : nat),
  get_slot (run ops init) i = Some o -> is_excl_kind (okind o) = true -> In id (obj_refs o) ->
  cnt (run ops init) id = 1.
Proof. exact exclusive_objects_unique_l. Qed.
Print Assumptions exclusive_objects_unique.

(* RELEASED EXACTLY ONCE: every node (memory region with its owner, exported C-Data structure) is
   released at most once, and it has been released exactly when nothing refers to it any more. *)
Theorem release_exactly_once : forall (ops : list op) (id : nat) (n : node),
  nth_error (nodes (run ops init)) id = Some n ->
  node_rel n <= 1 /\ (node_rel n = 1 <-> cnt (run ops init) id = 0).
Proof. exact release_exactly_once_l. Qed.
Print Assumptions release_exactly_once.

(* Whatever a live object (buffer, array, builder, exported pair, stream) refers to has not been released. *)
Theorem no_use_after_release : forall (ops : list op) (i : nat) (o : obj) (h : handle),
  get_slot (run ops init) i = Some o -> In h (ohs o) ->
  exists n, nth_error (nodes (run ops init)) (hreg h) = Some n /\ node_rel n = 0.
Proof. exact no_use_after_release_l. Qed.
Print Assumptions no_use_after_release.

(* A live imported region keeps the producer's structure alive, and a live exported structure keeps
   the exporter's buffers (and through them their custom owners) alive; references only go to older nodes. *)
Theorem import_keeps_exporter_alive : forall (ops : list op) (id : nat) (n : node) (r : nat),
  nth_error (nodes (run ops init)) id = Some n -> In r (node_refs n) ->
  r < id /\ exists m, nth_error (nodes (run ops init)) r = Some m /\ node_rel m = 0.
Proof. exact keeps_alive_l. Qed.
Print Assumptions import_keeps_exporter_alive.

(* The memory an exported structure hands out (and the structure an imported region depends on) is never
   changed by any operation while that structure / region is alive. *)
Theorem exported_memory_immutable : forall (ops : list op) (p : op) (id : nat) (n : node) (r : nat),
  nth_error (nodes (run ops init)) id = Some n -> In r (node_refs n) ->
  reg_bytes (step (run ops init) p) r = reg_bytes (run ops init) r.
Proof. exact node_held_immutable. Qed.
Print Assumptions exported_memory_immutable.

(* Export then import of an Int32 array without validity (any slice of any region) yields an array that
   shows the same values; arrays with validity and Boolean arrays are covered by the correspondence run only. *)
Theorem export_import_roundtrip_partial : forall (s : state) (c : bool) (v : handle),
  hreg v < length (nodes s) -> hlen v mod 4 = 0 ->
  exists o, snd (import_arr (fst (export_arr s 4 c (v :: nil))) (snd (export_arr s 4 c (v :: nil)))) = Some o /\ okind o = 4 /\
            view (fst (import_arr (fst (export_arr s 4 c (v :: nil))) (snd (export_arr s 4 c (v :: nil))))) o = view s (mkO 4 (v :: nil) nil).
Proof. exact roundtrip_no_nulls. Qed.
Print Assumptions export_import_roundtrip_partial.

(* POOL ACCOUNTING: the pool counter (moved by reserve / resize / drop of reservations) equals the total
   size of the reservations of the regions that are alive, after every operation. *)
Theorem pool_accounting : forall (ops : list op), pool (run ops init) = live_resv (run ops init).
Proof. exact pool_accounting_l. Qed.
Print Assumptions pool_accounting.

(* One step preserves the whole invariant from ANY state satisfying it (not only from [init]). *)
Theorem step_preserves_invariant : forall (s : state) (p : op), Inv s -> Excl s -> Inv (step s p) /\ Excl (step s p).
Proof. exact (fun s p I X => conj (step_inv s p I) (step_excl s p I X)). Qed.
Print Assumptions step_preserves_invariant.
