(* C16 — property theorems only: each closed by [exact] and followed by Print Assumptions.
   [run ops init] ranges over every state reachable by an operation history (clone / slice / wrap /
   drop / into_mutable / into_vec / unary_mut / try_unary_mut / into_builder / BooleanBuffer op= /
   claim / export / import / stream), in any order; an interleaving of per-thread histories is one
   such history. *)
From Coq Require Import List Arith ZArith.
From AV Require Import Model.C16_Own Proofs.C16_Inv Proofs.C16_Ops Proofs.C16_Main.

(* Every node (memory region with its owner, exported C-Data structure) is released at most once,
   and it has been released exactly when nothing refers to it any more: no double release, no leak. *)
Theorem release_exactly_once : forall (ops : list op) (id : nat) (n : node),
  nth_error (nodes (run ops init)) id = Some n ->
  node_rel n <= 1 /\ (node_rel n = 1 <-> cnt (run ops init) id = 0).
Proof. exact release_exactly_once_l. Qed.
Print Assumptions release_exactly_once.

(* Whatever a live object (buffer, array, builder, exported pair, stream) refers to has not been released. *)
Theorem no_use_after_release : forall (ops : list op) (i : nat) (o : obj) (h : handle),
  get_slot (run ops init) i = Some o -> In h (ohs o) ->
  exists n, nth_error (nodes (run ops init)) (hreg h) = Some n /\ node_rel n = 0.
Proof. exact no_use_after_release_l. Qed.
Print Assumptions no_use_after_release.

(* A live imported region keeps the producer's structure alive, and a live exported structure keeps
   the exporter's buffers (and through them their custom owners) alive; references only go to older nodes. *)
Theorem import_keeps_exporter_alive : forall (ops : list op) (id : nat) (n : node) (r : nat),
  nth_error (nodes (run ops init)) id = Some n -> In r (node_refs n) ->
  r < id /\ exists m, nth_error (nodes (run ops init)) r = Some m /\ node_rel m = 0.
Proof. exact keeps_alive_l. Qed.
Print Assumptions import_keeps_exporter_alive.

(* The pool counter (moved by reserve / resize / drop of reservations) equals the total size of the
   reservations of the regions that are alive, after every operation. *)
Theorem pool_accounting : forall (ops : list op), pool (run ops init) = live_resv (run ops init).
Proof. exact pool_accounting_l. Qed.
Print Assumptions pool_accounting.

(* One step preserves the whole invariant from ANY state satisfying it (not only from [init]). *)
Theorem step_preserves_invariant : forall (s : state) (p : op), Inv s -> Inv (step s p).
Proof. exact step_inv. Qed.
Print Assumptions step_preserves_invariant.
