(* C12 — property theorems only: each closed by [exact] and followed by Print Assumptions.
   Integer types are (s, H): signed range [-H, H), unsigned range [0, 2H); every statement holds
   for every H > 0 (H = 2^7, 2^15, 2^31, 2^63, 2^127, 2^255 are the machine widths).
   i256 limbs: B = 2^64, H = 2^127 abstractly as any B, H with 0 < B, B*B = 2H. *)
From Coq Require Import List ZArith NArith Bool.
From AV Require Import Model.C12_Int Model.C12_Kernel Model.C12_I256 Model.C12_Bool Model.C12_Agg Model.C12_Decimal.
From AV Require Import Proofs.C12_Int Proofs.C12_Kernel Proofs.C12_I256 Proofs.C12_I256Mul Proofs.C12_Bool Proofs.C12_Agg Proofs.C12_Decimal.
Import ListNotations.
Local Open Scope Z_scope.

(* ---------------------------------------------------------------- scalar vocabulary *)

(* Every integer kernel closure (add/sub/mul checked and wrapping, div, rem), every width and
   signedness: the exact result when representable, Overflow otherwise; DivideByZero iff the
   divisor is 0; Overflow for div iff MIN / -1; rem(MIN, -1) = Ok 0; wrapping forms = the exact
   result reduced modulo the type width. *)
Theorem scalar_op_exact : forall (H : Z), 0 < H -> forall (s : bool) (op : aop) (a b : Z),
  in_range s H a = true -> in_range s H b = true ->
  integer_op_elem s H op a b =
    (if is_divrem op && (b =? 0) then Err E_DIVZERO
     else let z := exact_op op a b in
          if is_wrapping op then Ok (wrap s H z)
          else if in_range s H z then Ok z else Err E_OVERFLOW).
Proof. exact integer_op_elem_spec. Qed.
Print Assumptions scalar_op_exact.

(* an Ok result is always a value of the type (never a wrapped-out-of-range value) *)
Theorem scalar_op_result_in_range : forall (H : Z), 0 < H -> forall (s : bool) (op : aop) (a b z : Z),
  in_range s H a = true -> in_range s H b = true ->
  integer_op_elem s H op a b = Ok z -> in_range s H z = true.
Proof. exact integer_op_elem_in_range. Qed.
Print Assumptions scalar_op_result_in_range.

(* the reduction used by the wrapping forms: in range, and congruent to the exact value mod 2H *)
Theorem wrap_is_reduction : forall (H : Z), 0 < H -> forall (s : bool) (z : Z),
  in_range s H (wrap s H z) = true /\ exists k, wrap s H z = z + k * (2 * H).
Proof. exact wrap_is_reduction_all. Qed.
Print Assumptions wrap_is_reduction.

(* quotient overflow happens exactly at MIN / -1 of a signed type *)
Theorem div_overflow_iff_min_neg1 : forall (H : Z), 0 < H -> forall (s : bool) (a b : Z),
  in_range s H a = true -> in_range s H b = true -> b <> 0 ->
  in_range s H (Z.quot a b) = negb (s && (a =? tmin s H) && (b =? -1)).
Proof. exact quot_in_range. Qed.
Print Assumptions div_overflow_iff_min_neg1.

Theorem neg_checked_exact : forall (H : Z), 0 < H -> forall (s : bool) (a : Z),
  in_range s H a = true ->
  neg_checked s H a = (if in_range s H (- a) then Ok (- a) else Err E_OVERFLOW).
Proof. exact neg_checked_exact_all. Qed.
Print Assumptions neg_checked_exact.

(* recorded deviation of the trait method (not used by the integer kernel): mod_checked(MIN,-1)
   reports Overflow although the remainder 0 is representable *)
Theorem mod_checked_min_neg1_deviates : forall (H : Z), 0 < H ->
  mod_checked true H (- H) (-1) = Err E_OVERFLOW /\ Z.rem (- H) (-1) = 0.
Proof. exact mod_checked_min_neg1_all. Qed.
Print Assumptions mod_checked_min_neg1_deviates.

(* ---------------------------------------------------------------- row machinery *)

(* try_op!/try_binary/try_unary with any fallible row function f: values under null slots are
   inert (the result depends only on `denote`), result rows are null exactly where an input row is
   null, the kernel fails iff a valid row fails; a scalar operand is broadcast. *)
Theorem try_op_rows : forall (f : Z -> Z -> res) (l_s r_s : bool) (l r : parr),
  (match a_nulls l with Some n => length n = length (a_vals l) | None => True end) ->
  (match a_nulls r with Some n => length n = length (a_vals r) | None => True end) ->
  (l_s = true -> length (a_vals l) = 1%nat) -> (r_s = true -> length (a_vals r) = 1%nat) ->
  canon (try_op f l_s r_s l r) = spec_binary_kernel f l_s r_s (denote l) (denote r).
Proof. exact try_op_spec. Qed.
Print Assumptions try_op_rows.

(* the integer kernels add/sub/mul/div/rem (+ wrapping forms), array-array and array-scalar *)
Theorem integer_kernel_rows : forall (H : Z), 0 < H ->
  forall (s : bool) (op : aop) (l_s r_s : bool) (l r : parr),
  (match a_nulls l with Some n => length n = length (a_vals l) | None => True end) ->
  (match a_nulls r with Some n => length n = length (a_vals r) | None => True end) ->
  (l_s = true -> length (a_vals l) = 1%nat) -> (r_s = true -> length (a_vals r) = 1%nat) ->
  Forall (fun x => in_range s H x = true) (a_vals l) ->
  Forall (fun x => in_range s H x = true) (a_vals r) ->
  canon (integer_op s H op l_s r_s l r)
  = spec_binary_kernel (spec_scalar s H op) l_s r_s (denote l) (denote r).
Proof. exact integer_op_spec. Qed.
Print Assumptions integer_kernel_rows.

Theorem neg_kernel_rows : forall (H : Z) (a : parr),
  (match a_nulls a with Some n => length n = length (a_vals a) | None => True end) ->
  Forall (fun x => in_range true H x = true) (a_vals a) ->
  canon (neg_kernel true H a) = spec_rows1 (spec_neg true H) (denote a).
Proof. exact neg_kernel_spec. Qed.
Print Assumptions neg_kernel_rows.

Theorem neg_wrapping_kernel_rows : forall (H : Z) (s : bool) (a : parr),
  (match a_nulls a with Some n => length n = length (a_vals a) | None => True end) ->
  canon (neg_wrapping_kernel s H a) = spec_rows1 (spec_neg_wrapping s H) (denote a).
Proof. exact neg_wrapping_kernel_spec. Qed.
Print Assumptions neg_wrapping_kernel_rows.

(* ---------------------------------------------------------------- i256 *)

Theorem i256_wrapping_add_exact : forall (B H : Z), 0 < B -> B * B = 2 * H -> forall a b : i256,
  (0 <= low a < 2 * H /\ - H <= high a < H) -> (0 <= low b < 2 * H /\ - H <= high b < H) ->
  (0 <= low (wrapping_add H a b) < 2 * H /\ - H <= high (wrapping_add H a b) < H) /\
  val H (wrapping_add H a b) = wrap true (H * (2 * H)) (val H a + val H b).
Proof. exact wrapping_add_spec. Qed.
Print Assumptions i256_wrapping_add_exact.

Theorem i256_wrapping_sub_exact : forall (B H : Z), 0 < B -> B * B = 2 * H -> forall a b : i256,
  (0 <= low a < 2 * H /\ - H <= high a < H) -> (0 <= low b < 2 * H /\ - H <= high b < H) ->
  (0 <= low (wrapping_sub H a b) < 2 * H /\ - H <= high (wrapping_sub H a b) < H) /\
  val H (wrapping_sub H a b) = wrap true (H * (2 * H)) (val H a - val H b).
Proof. exact wrapping_sub_spec. Qed.
Print Assumptions i256_wrapping_sub_exact.

Theorem i256_wrapping_neg_exact : forall (B H : Z), 0 < B -> B * B = 2 * H -> forall a : i256,
  (0 <= low a < 2 * H /\ - H <= high a < H) ->
  (0 <= low (wrapping_neg256 H a) < 2 * H /\ - H <= high (wrapping_neg256 H a) < H) /\
  val H (wrapping_neg256 H a) = wrap true (H * (2 * H)) (- val H a).
Proof. exact wrapping_neg_spec. Qed.
Print Assumptions i256_wrapping_neg_exact.

(* mulx: the four 64x64 partial products with their carries give the full 128x128 product *)
Theorem i256_mulx_exact : forall (B H : Z), 0 < B -> B * B = 2 * H -> forall a b : Z,
  0 <= a < 2 * H -> 0 <= b < 2 * H ->
  mulx B H a b = ((a * b) mod (2 * H), (a * b) / (2 * H)).
Proof. exact mulx_spec. Qed.
Print Assumptions i256_mulx_exact.

Theorem i256_wrapping_mul_exact : forall (B H : Z), 0 < B -> B * B = 2 * H -> forall a b : i256,
  (0 <= low a < 2 * H /\ - H <= high a < H) -> (0 <= low b < 2 * H /\ - H <= high b < H) ->
  (0 <= low (wrapping_mul256 B H a b) < 2 * H /\ - H <= high (wrapping_mul256 B H a b) < H) /\
  val H (wrapping_mul256 B H a b) = wrap true (H * (2 * H)) (val H a * val H b).
Proof. exact wrapping_mul_spec. Qed.
Print Assumptions i256_wrapping_mul_exact.

(* checked add/sub/neg: Some exact value iff it is representable in 256 bits, None otherwise *)
Theorem i256_checked_add_exact : forall (B H : Z), 0 < B -> B * B = 2 * H -> forall a b : i256,
  (0 <= low a < 2 * H /\ - H <= high a < H) -> (0 <= low b < 2 * H /\ - H <= high b < H) ->
  match checked_add256 H a b with
  | Some r => (0 <= low r < 2 * H /\ - H <= high r < H) /\ val H r = val H a + val H b
              /\ in_range true (H * (2 * H)) (val H a + val H b) = true
  | None => in_range true (H * (2 * H)) (val H a + val H b) = false
  end.
Proof. exact checked_add_spec. Qed.
Print Assumptions i256_checked_add_exact.

Theorem i256_checked_sub_exact : forall (B H : Z), 0 < B -> B * B = 2 * H -> forall a b : i256,
  (0 <= low a < 2 * H /\ - H <= high a < H) -> (0 <= low b < 2 * H /\ - H <= high b < H) ->
  match checked_sub256 H a b with
  | Some r => (0 <= low r < 2 * H /\ - H <= high r < H) /\ val H r = val H a - val H b
              /\ in_range true (H * (2 * H)) (val H a - val H b) = true
  | None => in_range true (H * (2 * H)) (val H a - val H b) = false
  end.
Proof. exact checked_sub_spec. Qed.
Print Assumptions i256_checked_sub_exact.

Theorem i256_checked_neg_exact : forall (B H : Z), 0 < B -> B * B = 2 * H -> forall a : i256,
  (0 <= low a < 2 * H /\ - H <= high a < H) ->
  match checked_neg256 H a with
  | Some r => (0 <= low r < 2 * H /\ - H <= high r < H) /\ val H r = - val H a
              /\ in_range true (H * (2 * H)) (- val H a) = true
  | None => in_range true (H * (2 * H)) (- val H a) = false
  end.
Proof. exact checked_neg_spec. Qed.
Print Assumptions i256_checked_neg_exact.

(* checked_mul (abs-split, overflow-checked partial products, sign restore, final sign check):
   Some exact product iff representable *)
Theorem i256_checked_mul_exact : forall (B H : Z), 0 < B -> B * B = 2 * H -> forall a b : i256,
  (0 <= low a < 2 * H /\ - H <= high a < H) -> (0 <= low b < 2 * H /\ - H <= high b < H) ->
  match checked_mul256 B H a b with
  | Some r => (0 <= low r < 2 * H /\ - H <= high r < H) /\ val H r = val H a * val H b
              /\ in_range true (H * (2 * H)) (val H a * val H b) = true
  | None => in_range true (H * (2 * H)) (val H a * val H b) = false
  end.
Proof. exact checked_mul_spec. Qed.
Print Assumptions i256_checked_mul_exact.

(* div_rem: zero and MIN / -1 detection, |a|, |b|, exact unsigned division of the magnitudes
   (the Knuth long division of bigint/div.rs is abstracted as n / d, n mod d), sign restore:
   truncating quotient and remainder with the sign of the dividend *)
Theorem i256_div_rem_exact : forall (B H : Z), 0 < B -> B * B = 2 * H -> forall a b : i256,
  (0 <= low a < 2 * H /\ - H <= high a < H) -> (0 <= low b < 2 * H /\ - H <= high b < H) ->
  match div_rem256 H a b with
  | inr k => (k = E_DIVZERO /\ val H b = 0) \/ (k = E_OVERFLOW /\ val H a = - (H * (2 * H)) /\ val H b = -1)
  | inl (q, r) => val H b <> 0 /\
                  (0 <= low q < 2 * H /\ - H <= high q < H) /\ (0 <= low r < 2 * H /\ - H <= high r < H) /\
                  val H q = Z.quot (val H a) (val H b) /\ val H r = Z.rem (val H a) (val H b)
  end.
Proof. exact div_rem_spec. Qed.
Print Assumptions i256_div_rem_exact.

Theorem i256_cmp_exact : forall (B H : Z), 0 < B -> B * B = 2 * H -> forall a b : i256,
  (0 <= low a < 2 * H /\ - H <= high a < H) -> (0 <= low b < 2 * H /\ - H <= high b < H) ->
  cmp256 a b = (val H a ?= val H b).
Proof. exact cmp256_spec. Qed.
Print Assumptions i256_cmp_exact.

(* ---------------------------------------------------------------- boolean kernels *)

(* word level: validity/value words of and_kleene / or_kleene, any garbage value bit under null *)
Theorem and_kleene_word_exact : forall (a b c d i : N), (i < 64)%N ->
  (if N.testbit (and_kleene_both a b c d) i then Some (N.testbit (N.land b d) i) else None)
  = k3_and (if N.testbit a i then Some (N.testbit b i) else None)
           (if N.testbit c i then Some (N.testbit d i) else None).
Proof. exact and_kleene_word. Qed.
Print Assumptions and_kleene_word_exact.

Theorem or_kleene_word_exact : forall (a b c d i : N), (i < 64)%N ->
  (if N.testbit (or_kleene_both a b c d) i then Some (N.testbit (N.lor b d) i) else None)
  = k3_or (if N.testbit a i then Some (N.testbit b i) else None)
          (if N.testbit c i then Some (N.testbit d i) else None).
Proof. exact or_kleene_word. Qed.
Print Assumptions or_kleene_word_exact.

(* array level, every length, all four null-buffer combinations, 64-bit word loop with zero-padded
   last word: three-valued logic row by row *)
Theorem and_kleene_rows : forall l r : barr,
  bcanon (and_kleene l r) =
  (if negb (length (bdenote l) =? length (bdenote r))%nat then inr E_INVALID_n
   else inl (bmap2 k3_and (bdenote l) (bdenote r))).
Proof. exact and_kleene_spec. Qed.
Print Assumptions and_kleene_rows.

Theorem or_kleene_rows : forall l r : barr,
  bcanon (or_kleene l r) =
  (if negb (length (bdenote l) =? length (bdenote r))%nat then inr E_INVALID_n
   else inl (bmap2 k3_or (bdenote l) (bdenote r))).
Proof. exact or_kleene_spec. Qed.
Print Assumptions or_kleene_rows.

Theorem and_or_andnot_not_rows : forall l r : barr,
  bcanon (and_k l r) = spec_bool2 (strict2 andb) (bdenote l) (bdenote r) /\
  bcanon (or_k l r) = spec_bool2 (strict2 orb) (bdenote l) (bdenote r) /\
  bcanon (and_not_k l r) = spec_bool2 (strict2 (fun a b => a && negb b)) (bdenote l) (bdenote r) /\
  bcanon (not_k l) = inl (map k3_not (bdenote l)).
Proof. exact (fun l r => conj (and_spec l r) (conj (or_spec l r) (conj (and_not_spec l r) (not_spec l)))). Qed.
Print Assumptions and_or_andnot_not_rows.

(* ---------------------------------------------------------------- aggregates *)

(* lane-split sum: for ANY lane count 2^k, any length and null pattern, the tree-reduced lane
   accumulators equal the exact sum of the non-null values reduced into the type; None iff no
   non-null value *)
Theorem sum_lanes_exact : forall (H : Z), 0 < H -> forall (s : bool) (k : nat) (a : parr),
  (match a_nulls a with Some n => length n = length (a_vals a) | None => True end) ->
  Forall (fun x => in_range s H x = true) (a_vals a) ->
  aggregate (sum_acc s H) (2 ^ k) a =
  match valid_values (denote a) with [] => None | vs => Some (wrap s H (fold_right Z.add 0 vs)) end.
Proof. exact sum_lanes_spec. Qed.
Print Assumptions sum_lanes_exact.

Theorem min_lanes_exact : forall (H : Z) (s : bool) (k : nat) (a : parr),
  (match a_nulls a with Some n => length n = length (a_vals a) | None => True end) ->
  Forall (fun x => in_range s H x = true) (a_vals a) ->
  aggregate (min_acc s H) (2 ^ k) a =
  match valid_values (denote a) with [] => None | v :: vs => Some (fold_left Z.min vs v) end.
Proof. exact min_lanes_spec. Qed.
Print Assumptions min_lanes_exact.

Theorem max_lanes_exact : forall (H : Z) (s : bool) (k : nat) (a : parr),
  (match a_nulls a with Some n => length n = length (a_vals a) | None => True end) ->
  Forall (fun x => in_range s H x = true) (a_vals a) ->
  aggregate (max_acc s H) (2 ^ k) a =
  match valid_values (denote a) with [] => None | v :: vs => Some (fold_left Z.max vs v) end.
Proof. exact max_lanes_spec. Qed.
Print Assumptions max_lanes_exact.

(* sum_checked: left-to-right exact sum of the non-null values, Overflow at the first partial sum
   that is not representable *)
Theorem sum_checked_exact : forall (H : Z), 0 < H -> forall (s : bool) (a : parr),
  (match a_nulls a with Some n => length n = length (a_vals a) | None => True end) ->
  sum_checked s H a = spec_sum_checked s H (denote a).
Proof. exact sum_checked_spec. Qed.
Print Assumptions sum_checked_exact.

(* ---------------------------------------------------------------- decimals *)

(* the closure decimal_op applies per row (equal-scale fast path or rescale-then-operate with the
   multipliers lm, rm): Overflow iff a rescaled operand or the result does not fit the native type,
   DivideByZero iff the rescaled divisor is 0, otherwise the exact sum / difference / product /
   truncated quotient / remainder of the rescaled operands *)
Theorem decimal_row_exact_or_error : forall (H : Z), 0 < H ->
  forall (op : dop) (same : bool) (lm rm x y : Z),
  in_range true H x = true -> in_range true H y = true ->
  (same = true -> lm = 1 /\ rm = 1) -> (op = DMul -> lm = 1 /\ rm = 1) ->
  (op = DRem -> ~ (x * lm = - H /\ y * rm = -1)) ->
  decimal_row H op same lm rm x y =
  fits H (x * lm) (fun a => fits H (y * rm) (fun b =>
    match op with
    | DAdd => fits H (a + b) Ok
    | DSub => fits H (a - b) Ok
    | DMul => fits H (a * b) Ok
    | DDiv => if b =? 0 then Err E_DIVZERO else fits H (Z.quot a b) Ok
    | DRem => if b =? 0 then Err E_DIVZERO else Ok (Z.rem a b)
    end)).
Proof. exact decimal_row_exact. Qed.
Print Assumptions decimal_row_exact_or_error.

(* the whole decimal kernel (32/64/128/256-bit natives: H = 2^31 .. 2^255, m = MAX_PRECISION =
   MAX_SCALE): documented result precision/scale (computed in the source with saturating u8/i8
   arithmetic), Overflow when a rescaling power of ten does not fit, row-wise exact-or-error
   results with nulls and scalars, InvalidArgument when the documented type is not a valid decimal
   type.  For rem an unrepresentable multiplier is reported as Overflow by model and spec alike
   (finding F17, fixed in /repo 9e1df4d: the source used pow_wrapping there); the statement only
   excludes MIN as a rescaled dividend (mod_checked reports MIN % -1 as Overflow). *)
Theorem decimal_kernel_exact : forall (H : Z), 2 <= H -> forall (m : Z), 1 <= m <= 76 ->
  forall (op : dop) (l_s r_s : bool) (p1 s1 p2 s2 : Z) (l r : parr),
  1 <= p1 <= m -> 1 <= p2 <= m -> - 40 <= s1 <= p1 -> - 40 <= s2 <= p2 ->
  1 <= fst (spec_result_type m m op p1 s1 p2 s2) ->
  (match a_nulls l with Some n => length n = length (a_vals l) | None => True end) ->
  (match a_nulls r with Some n => length n = length (a_vals r) | None => True end) ->
  (l_s = true -> length (a_vals l) = 1%nat) -> (r_s = true -> length (a_vals r) = 1%nat) ->
  Forall (fun x => in_range true H x = true) (a_vals l) ->
  Forall (fun x => in_range true H x = true) (a_vals r) ->
  (op = DRem -> Forall (fun x => x * 10 ^ (Z.max s1 s2 - s1) <> - H) (a_vals l)) ->
  (match decimal_op H m m op l_s r_s p1 s1 p2 s2 l r with
   | DOk v n p s => inl (denote (mkarr v n), (p, s))
   | DErr k => inr k
   end)
  = spec_decimal H m m op l_s r_s p1 s1 p2 s2 (denote l) (denote r).
Proof. exact decimal_op_spec. Qed.
Print Assumptions decimal_kernel_exact.
