(* C12 — property theorems only: each closed by [exact] and followed by Print Assumptions. *)
From Coq Require Import List ZArith Bool.
From AV Require Import Model.C12_Int Model.C12_Kernel Model.C12_I256.
From AV Require Import Proofs.C12_Int Proofs.C12_Kernel Proofs.C12_I256.
Import ListNotations.
Local Open Scope Z_scope.

(* Every integer kernel closure (add/sub/mul checked and wrapping, div, rem) of every width and
   signedness: exact result when representable, Overflow otherwise; DivideByZero iff the divisor is 0;
   wrapping forms = exact result reduced into the type. (s,H): signed range [-H,H), unsigned [0,2H). *)
Theorem scalar_op_exact : forall (H : Z), 0 < H -> forall (s : bool) (op : aop) (a b : Z),
  in_range s H a = true -> in_range s H b = true ->
  integer_op_elem s H op a b = spec_scalar s H op a b.
Proof. exact integer_op_elem_spec. Qed.
Print Assumptions scalar_op_exact.
