(* C07 — property theorems only: each closed by [exact] and followed by Print Assumptions. *)
From Coq Require Import List NArith Arith.
From AV Require Import Model.C07_Trunc Model.C07_Bloom Proofs.C07_Trunc Proofs.C07_Bloom.
Import ListNotations.
Local Open Scope N_scope.

(* Bloom filter: every inserted hash tests positive, whatever else was inserted before or after. *)
Theorem bloom_no_false_negative : forall (hs : list N) (f : sbbf) (h : N),
  (0 < length f)%nat -> Forall (fun x => x < 2^64) hs -> In h hs ->
  check_hash (fold_left insert_hash hs f) h = true.
Proof. exact no_false_negative. Qed.
Print Assumptions bloom_no_false_negative.
