(* C07 — property theorems only: each closed by [exact] and followed by Print Assumptions.
   Models: Model/C07_Trunc.v (truncation), C07_Bloom.v (split-block bloom filter), C07_Stats.v
   (min/max accumulation and comparisons), C07_File.v (column chunk writer), C07_Spec.v (spec). *)
From Coq Require Import List NArith ZArith Arith Bool.
From AV Require Import Model.C07_Trunc Model.C07_Bloom Model.C07_Stats Model.C07_File Model.C07_Spec.
From AV Require Import Proofs.C07_Trunc Proofs.C07_Bloom Proofs.C07_MinMax Proofs.C07_Order Proofs.C07_Decimal.
From AV Require Import Proofs.C07_Utf8 Proofs.C07_Utf8Trunc Proofs.C07_FileM Proofs.C07_BaPath.
Import ListNotations.

(* ================================================================== truncation of byte-string bounds *)

(* The truncated minimum never exceeds the exact minimum (any column kind, any truncation length,
   UTF-8 aware or not); hence it is a lower bound of everything the exact minimum bounded. *)
Theorem truncate_min_le : forall (utf8 : bool) (tl : option nat) (d : list N),
  lex (fst (truncate_min_value utf8 tl d)) d <> Gt.
Proof. exact truncate_min_le_all. Qed.
Print Assumptions truncate_min_le.

(* When the writer reports a truncated maximum it is strictly greater than the exact maximum. *)
Theorem truncate_max_ge : forall (utf8 : bool) (tl : option nat) (d r : list N),
  truncate_max_value utf8 tl d = (r, true) -> lex d r = Lt.
Proof. exact truncate_max_gt_all. Qed.
Print Assumptions truncate_max_ge.

(* Exactness flags: "not truncated" means the stored bound is the exact one (so it is attained). *)
Theorem exact_flag_sound : forall (utf8 : bool) (tl : option nat) (d t : list N),
  (truncate_min_value utf8 tl d = (t, false) -> t = d) /\ (truncate_max_value utf8 tl d = (t, false) -> t = d).
Proof. exact exact_flags. Qed.
Print Assumptions exact_flag_sound.

(* The stored bounds still bound every value the exact bounds did. *)
Theorem truncated_bounds_cover : forall (utf8 : bool) (tl : option nat) (mn mx v : list N),
  lex mn v <> Gt -> lex v mx <> Gt ->
  lex (fst (truncate_min_value utf8 tl mn)) v <> Gt /\ lex v (fst (truncate_max_value utf8 tl mx)) <> Gt.
Proof. exact truncated_cover. Qed.
Print Assumptions truncated_bounds_cover.

(* increment: the result is strictly above every extension of its argument ... *)
Theorem increment_upper_bound : forall (d r : list N),
  increment d = Some r -> forall suffix, lex (d ++ suffix) r = Lt.
Proof. exact Proofs.C07_Trunc.increment_upper_bound. Qed.
Print Assumptions increment_upper_bound.

(* ... and it fails exactly on all-0xFF strings (then the bound is left untruncated). *)
Theorem increment_none_iff_all_ff : forall (d : list N), Forall (fun b => (b <= 255)%N) d ->
  (increment d = None <-> Forall (fun b => b = 255%N) d).
Proof. exact increment_none_iff. Qed.
Print Assumptions increment_none_iff_all_ff.

Theorem increment_carry : forall (p : list N) (b : N) (k : nat), b <> 255%N ->
  increment (p ++ b :: repeat 255%N k) = Some (p ++ (b + 1)%N :: repeat 0%N k).
Proof. exact Proofs.C07_Trunc.increment_carry. Qed.
Print Assumptions increment_carry.

(* UTF-8 columns: both stored bounds remain valid UTF-8 (surrogate gap and U+10FFFF included). *)
Theorem utf8_truncate_valid : forall (tl : option nat) (d : list N),
  valid_utf8 d = true -> valid_utf8 (fst (truncate_min_value true tl d)) = true.
Proof. exact truncate_min_utf8_valid. Qed.
Print Assumptions utf8_truncate_valid.

Theorem utf8_increment_valid : forall (tl : option nat) (d : list N),
  valid_utf8 d = true -> valid_utf8 (fst (truncate_max_value true tl d)) = true.
Proof. exact truncate_max_utf8_valid. Qed.
Print Assumptions utf8_increment_valid.

(* The UTF-8 codec of the model is a bijection between valid byte strings and scalar sequences. *)
Theorem utf8_decode_encode : forall (cs : list N), Forall (fun c => scalar c = true) cs ->
  decode (flat_map encode cs) = Some cs.
Proof. exact decode_encode. Qed.
Print Assumptions utf8_decode_encode.

Theorem utf8_encode_decode : forall (bs : list N) (cs : list N), decode bs = Some cs ->
  bs = flat_map encode cs /\ Forall (fun c => scalar c = true) cs.
Proof. exact decode_inv. Qed.
Print Assumptions utf8_encode_decode.

(* ================================================================== bloom filter *)

(* Every inserted hash tests positive, whatever else is inserted before or after it. *)
Theorem bloom_no_false_negative : forall (hs : list N) (f : sbbf) (h : N),
  (0 < length f)%nat -> Forall (fun x => (x < 2^64)%N) hs -> In h hs ->
  check_hash (fold_left insert_hash hs f) h = true.
Proof. exact no_false_negative. Qed.
Print Assumptions bloom_no_false_negative.

(* Folding k times (merging groups of 2^k adjacent blocks) keeps every positive answer, for every
   block count 2^k * n: the repository calls this "empirically demonstrated". *)
Theorem fold_preserves : forall (k n : nat) (f : sbbf) (h : N),
  (0 < n)%nat -> length f = (2^k * n)%nat -> (N.of_nat (length f) <= 2^32)%N -> (h < 2^64)%N ->
  check_hash f h = true -> check_hash (fold_n k f) h = true.
Proof. exact Proofs.C07_Bloom.fold_preserves. Qed.
Print Assumptions fold_preserves.

(* hash_to_block_index stays inside the filter (the Rust indexing cannot panic). *)
Theorem bloom_index_in_range : forall (n : nat) (h : N), (0 < n)%nat -> (h < 2^64)%N -> (block_index n h < n)%nat.
Proof. exact block_index_lt. Qed.
Print Assumptions bloom_index_in_range.

(* ================================================================== min/max accumulation *)

(* get_min_max + update_min/update_max over any split into mini-batches: for a comparison that is
   the strict part of a total preorder, the result bounds every non-NaN value, is attained, is not
   NaN as soon as a non-NaN value exists, and the NaN count is exact. *)
Theorem minmax_fold_bounds :
  forall (T : Type) (gt : T -> T -> bool) (nan : T -> bool) (le : T -> T -> bool),
  (forall a b c, le a b = true -> le b c = true -> le a c = true) ->
  (forall a b, le a b = true \/ le b a = true) ->
  (forall a b, gt a b = negb (le a b)) ->
  forall (float : bool) (batches : list (list T)) (mn mx : T) (nc : option nat),
  fold_left (fun st s => write_slice gt nan float s st) batches (None, None, None) = (Some mn, Some mx, nc) ->
  In mn (concat batches) /\ In mx (concat batches) /\
  (forall v, In v (concat batches) -> nan v = false ->
     nan mn = false /\ nan mx = false /\ le mn v = true /\ le v mx = true) /\
  (float = true -> nc = Some (length (filter nan (concat batches)))).
Proof. exact Proofs.C07_MinMax.minmax_fold_bounds. Qed.
Print Assumptions minmax_fold_bounds.

(* The column chunk model: chunk min/max merged from the pages bound every non-null, non-NaN value
   of every page, are attained, and the chunk null count is exact. *)
Theorem chunk_merges_pages :
  forall (T : Type) (gt : T -> T -> bool) (nan : T -> bool) (le : T -> T -> bool),
  (forall a b c, le a b = true -> le b c = true -> le a c = true) ->
  (forall a b, le a b = true \/ le b a = true) ->
  (forall a b, gt a b = negb (le a b)) ->
  forall (enc : T -> list N) (float can_trunc utf8 page_level : bool) (tl_index : option nat) (bs : nat)
         (pages : list (list (option T))),
  let w := run_pages T gt nan enc float true None can_trunc utf8 page_level tl_index bs pages in
  w_nulls T w = count_none (concat pages) /\
  match somes (concat pages) with
  | [] => w_cmin T w = None /\ w_cmax T w = None
  | _ => exists mn mx, w_cmin T w = Some mn /\ w_cmax T w = Some mx /\
         In mn (somes (concat pages)) /\ In mx (somes (concat pages)) /\
         forall v, In v (somes (concat pages)) -> nan v = false ->
           nan mn = false /\ nan mx = false /\ le mn v = true /\ le v mx = true
  end.
Proof. exact Proofs.C07_FileM.chunk_merges_pages. Qed.
Print Assumptions chunk_merges_pages.

(* String/Binary columns written through the arrow byte-array encoder. *)
Theorem byte_array_minmax_bounds : forall (batches : list (list (list N))) (mn mx : list N),
  fold_left (fun st s => ba_write s st) batches (None, None) = (Some mn, Some mx) ->
  In mn (concat batches) /\ In mx (concat batches) /\
  forall v, In v (concat batches) -> lex mn v <> Gt /\ lex v mx <> Gt.
Proof. exact ba_fold_bounds. Qed.
Print Assumptions byte_array_minmax_bounds.

(* ================================================================== compare_greater is the column order *)

(* f32/f64/f16::total_cmp (sign-mask xor trick) orders bit patterns by the IEEE totalOrder key of S. *)
Theorem total_cmp_is_total_order : forall (W a b : Z), (1 <= W)%Z -> (0 <= a < 2^W)%Z -> (0 <= b < 2^W)%Z ->
  gt_total W a b = (fkey W b <? fkey W a)%Z.
Proof. exact gt_total_is_key_order. Qed.
Print Assumptions total_cmp_is_total_order.

(* is_nan's threshold test is "exponent all ones and mantissa non-zero". *)
Theorem nan_test_is_ieee : forall (W u : Z), (W = 16 \/ W = 32 \/ W = 64)%Z -> (0 <= u < 2^W)%Z ->
  nan_bits W u = fnan W u.
Proof. exact nan_bits_is_fnan. Qed.
Print Assumptions nan_test_is_ieee.

(* UInt32/UInt64 are stored as i32/i64; comparing through as_u64 is the unsigned order. *)
Theorem unsigned_compare_is_order : forall (W a b : Z), (W = 32 \/ W = 64)%Z -> (0 <= a < 2^W)%Z -> (0 <= b < 2^W)%Z ->
  gt_unsigned (wrap_signed W a) (wrap_signed W b) = (b <? a)%Z.
Proof. exact gt_unsigned_is_order. Qed.
Print Assumptions unsigned_compare_is_order.

(* Decimals as big-endian two's complement bytes: for operands of equal length (every
   FIXED_LEN_BYTE_ARRAY decimal) compare_greater_byte_array_decimals is the order of the values. *)
Theorem decimal_compare_is_order_eqlen : forall (a b : list N),
  Forall (fun x => (x <= 255)%N) a -> Forall (fun x => (x <= 255)%N) b -> length a = length b -> a <> [] ->
  gt_decimal_bytes a b = (sval b <? sval a)%Z.
Proof. exact gt_decimal_eqlen. Qed.
Print Assumptions decimal_compare_is_order_eqlen.

(* Full intended statement (any two non-empty operands) is FALSE for the faithful model: with
   operands of different lengths whose extra leading bytes are sign extension the tails are compared
   unaligned (32768 = 00 80 00 is reported not greater than 32767 = 7F FF). *)
Theorem decimal_compare_is_order_refuted :
  exists a b : list N, Forall (fun x => (x <= 255)%N) a /\ Forall (fun x => (x <= 255)%N) b /\ a <> [] /\ b <> [] /\
    gt_decimal_bytes a b <> (sval b <? sval a)%Z.
Proof. exact gt_decimal_unequal_lengths_refuted. Qed.
Print Assumptions decimal_compare_is_order_refuted.

(* The spec's reading of a stored FLBA decimal bound is the signed big-endian value. *)
Theorem spec_decodes_flba_decimal : forall (l : list N), Forall (fun x => (x <= 255)%N) l -> l <> [] ->
  sdec KDF (length l) l = Some (sval l).
Proof. exact sdec_decimal_flba. Qed.
Print Assumptions spec_decodes_flba_decimal.

(* ================================================================== non-vacuity *)
Example truncate_max_example :
  truncate_max_value true (Some 2%nat) [97; 195; 169; 99]%N = ([98]%N, true) /\       (* "aéc" cut at 2 -> "b" *)
  truncate_max_value false (Some 2%nat) [97; 255; 0]%N = ([98; 0]%N, true) /\          (* carry over 0xFF *)
  truncate_max_value false (Some 2%nat) [255; 255; 7]%N = ([255; 255; 7]%N, false) /\  (* all 0xFF: left exact *)
  truncate_max_value true (Some 3%nat) [237; 159; 191; 97]%N = ([237; 159; 191; 97]%N, false). (* U+D7FF: no successor of equal width *)
Proof. vm_compute. repeat split. Qed.

Example fold_example :
  let f := fold_left insert_hash [12345678901234567890; 42; 18446744073709551615]%N (sbbf_new 8) in
  length (fold_n 2 f) = 2%nat /\ forallb (check_hash (fold_n 2 f)) [12345678901234567890; 42; 18446744073709551615]%N = true.
Proof. vm_compute. split; reflexivity. Qed.
