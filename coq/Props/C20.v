(* C20 — theorems (statements in full; proofs in Proofs/C20_*.v).
   Strings are lists of Unicode scalar values (N); `utf8` is their RFC 3629 encoding (Base/Utf8.v).
   S: like_spec / ilike_ascii_spec / starts_with_spec / ends_with_spec / contains_spec / substring_spec /
      substring_by_char_spec / length_spec / bit_length_spec / concat (Model/C20_Like.v, C20_Substr.v).
   M: the byte-level algorithms of arrow-string (same files), tied to the code by the correspondence run. *)
From Coq Require Import List NArith ZArith Bool.
From AV Require Import Base.Utf8 Model.C20_Like Model.C20_Substr.
From AV Require Import Proofs.C20_Utf8 Proofs.C20_Like Proofs.C20_Classify Proofs.C20_Layout Proofs.C20_Substr Proofs.C20_ByChar.
Import ListNotations.

(* ---- LIKE: every strategy Predicate::like selects (Eq, StartsWith, EndsWith, Contains, Regex)
        computes the reference matcher, for every pattern and every haystack *)
Theorem like_classify_sound : forall p h : list N,
  Forall (fun c => scalar c = true) p -> Forall (fun c => scalar c = true) h ->
  like_m (utf8 p) (utf8 h) = like_spec p h.
Proof. exact C20_Classify.like_classify_sound. Qed.
Print Assumptions like_classify_sound.

Theorem nlike_is_negation : forall p h : list N,
  Forall (fun c => scalar c = true) p -> Forall (fun c => scalar c = true) h ->
  nlike_m (utf8 p) (utf8 h) = negb (like_spec p h).
Proof. exact C20_Classify.nlike_is_negation. Qed.
Print Assumptions nlike_is_negation.

(* the scalar-pattern path (Predicate::evaluate_array: Eq length pre-check, StringViewArray
   prefix/suffix iterators, negation flag) *)
Theorem like_scalar_sound : forall (view neg : bool) (p h : list N),
  Forall (fun c => scalar c = true) p -> Forall (fun c => scalar c = true) h ->
  like_scalar_m view neg (utf8 p) (utf8 h) = xorb (like_spec p h) neg.
Proof. exact C20_Classify.like_scalar_sound. Qed.
Print Assumptions like_scalar_sound.

(* regex_like: the translated regex (leading-% and trailing-.* elision, escapes, trailing backslash),
   under the reference semantics of the fragment, is the matcher; for any character equality *)
Theorem regex_like_sound : forall (eqc : N -> N -> bool) (p s : list N),
  rx_is_match eqc (regex_like p) s = like_gen eqc p s.
Proof. exact C20_Like.regex_like_sound_gen. Qed.
Print Assumptions regex_like_sound.

(* the per-row flag semantics used as the spec of regexp_is_match with a flags array (s, m, i on ASCII)
   restricts, for flags "s", to the reference semantics above *)
Theorem rx_flags_s_is_reference : forall (eqc : N -> N -> bool) (r : rx) (s : list N),
  rx_is_match_f eqc true false r s = rx_is_match eqc r s.
Proof. exact C20_Like.rx_flags_s_is_reference. Qed.
Print Assumptions rx_flags_s_is_reference.

(* ---- UTF-8 self-synchronisation: byte-level occurrence <-> code-point occurrence *)
Theorem utf8_substring_lemma : forall n h : list N,
  Forall (fun c => scalar c = true) n -> Forall (fun c => scalar c = true) h ->
  ((exists l r, utf8 h = l ++ utf8 n ++ r) <-> (exists h1 h2, h = h1 ++ n ++ h2)).
Proof. exact C20_Utf8.utf8_substring_lemma. Qed.
Print Assumptions utf8_substring_lemma.

Theorem utf8_prefix_lemma : forall n h : list N,
  Forall (fun c => scalar c = true) n -> Forall (fun c => scalar c = true) h ->
  ((exists r, utf8 h = utf8 n ++ r) <-> (exists h2, h = n ++ h2)).
Proof. exact C20_Utf8.utf8_prefix_lemma. Qed.
Print Assumptions utf8_prefix_lemma.

Theorem utf8_suffix_lemma : forall n h : list N,
  Forall (fun c => scalar c = true) n -> Forall (fun c => scalar c = true) h ->
  ((exists l, utf8 h = l ++ utf8 n) <-> (exists h1, h = h1 ++ n)).
Proof. exact C20_Utf8.utf8_suffix_lemma. Qed.
Print Assumptions utf8_suffix_lemma.

(* ---- starts_with / ends_with / contains kernels (byte level, incl. the StringView fast paths) *)
Theorem starts_with_sound : forall (view : bool) (h n : list N),
  Forall (fun c => scalar c = true) h -> Forall (fun c => scalar c = true) n ->
  starts_with_m view (utf8 h) (utf8 n) = starts_with_spec h n.
Proof. exact C20_Classify.starts_with_sound. Qed.
Print Assumptions starts_with_sound.

Theorem ends_with_sound : forall (view : bool) (h n : list N),
  Forall (fun c => scalar c = true) h -> Forall (fun c => scalar c = true) n ->
  ends_with_m view (utf8 h) (utf8 n) = ends_with_spec h n.
Proof. exact C20_Classify.ends_with_sound. Qed.
Print Assumptions ends_with_sound.

Theorem contains_sound : forall h n : list N,
  Forall (fun c => scalar c = true) h -> Forall (fun c => scalar c = true) n ->
  contains_m (utf8 h) (utf8 n) = contains_spec h n.
Proof. exact C20_Classify.contains_sound. Qed.
Print Assumptions contains_sound.

(* ---- ILIKE on ASCII text: the ASCII fast paths (IEqAscii, IStartsWithAscii, IEndsWithAscii) and the
        case-insensitive regex give LIKE under ASCII case folding, whichever path `is_ascii` selects *)
Theorem ilike_ascii_paths_sound : forall (haystacks_ascii : bool) (p h : list N),
  is_ascii p = true -> is_ascii h = true ->
  ilike_m haystacks_ascii (utf8 p) (utf8 h) = ilike_ascii_spec p h.
Proof. exact C20_Classify.ilike_ascii_paths_sound. Qed.
Print Assumptions ilike_ascii_paths_sound.

Theorem ilike_scalar_sound : forall (view neg haystacks_ascii : bool) (p h : list N),
  is_ascii p = true -> is_ascii h = true ->
  ilike_scalar_m view neg haystacks_ascii (utf8 p) (utf8 h) = xorb (ilike_ascii_spec p h) neg.
Proof. exact C20_Classify.ilike_scalar_sound. Qed.
Print Assumptions ilike_scalar_sound.

(* ---- substring (Utf8 / LargeUtf8: byte_substring over an offsets buffer and a values buffer with
        arbitrary valid data before and after; `bits` = width of the offset type) *)
Theorem substring_spec_thm : forall (bits start : Z) (len : option Z), (1 <= bits)%Z ->
  (- 2 ^ (bits - 1) <= start < 2 ^ (bits - 1))%Z ->
  (match len with Some n => 0 <= n < 2 ^ (bits - 1) | None => True end)%Z ->
  forall (vals : list (list N)) (pre post : list N),
  Forall (fun v => Forall (fun c => scalar c = true) v) vals ->
  Forall (fun c => scalar c = true) pre -> Forall (fun c => scalar c = true) post ->
  byte_substring_m bits (layout_offsets (utf8 pre) (map utf8 vals))
                   (layout_data (utf8 pre) (map utf8 vals) (utf8 post)) start len
  = mapM (fun v => option_map utf8 (substring_spec v start len)) vals.
Proof. exact C20_Substr.substring_spec_thm. Qed.
Print Assumptions substring_spec_thm.

Theorem substring_valid_utf8_or_err : forall (bits start : Z) (len : option Z), (1 <= bits)%Z ->
  (- 2 ^ (bits - 1) <= start < 2 ^ (bits - 1))%Z ->
  (match len with Some n => 0 <= n < 2 ^ (bits - 1) | None => True end)%Z ->
  forall (vals : list (list N)) (pre post : list N) (out : list (list N)),
  Forall (fun v => Forall (fun c => scalar c = true) v) vals ->
  Forall (fun c => scalar c = true) pre -> Forall (fun c => scalar c = true) post ->
  byte_substring_m bits (layout_offsets (utf8 pre) (map utf8 vals))
                   (layout_data (utf8 pre) (map utf8 vals) (utf8 post)) start len = Some out ->
  Forall (fun o => valid_utf8 o = true) out.
Proof. exact C20_Substr.substring_valid_utf8_or_err. Qed.
Print Assumptions substring_valid_utf8_or_err.

(* Utf8View: string_view_substring on one value *)
Theorem substring_view_spec : forall (v : list N) (start : Z) (len : option Z),
  Forall (fun c => scalar c = true) v -> (match len with Some n => 0 <= n | None => True end)%Z ->
  view_substring_elem (utf8 v) start len = option_map utf8 (substring_spec v start len).
Proof. exact C20_Substr.view_substring_elem_spec. Qed.
Print Assumptions substring_view_spec.

(* outside the range of the offset type the `as i32` casts change the result: the precondition of
   substring_spec is necessary (start = 2^32 on Utf8 returns the whole string) *)
Theorem substring_i32_cast_refuted :
  exists (v : list N) (start : Z),
    byte_substring_m 32 (layout_offsets [] [utf8 v]) (layout_data [] [utf8 v] []) start None
    <> mapM (fun v => option_map utf8 (substring_spec v start None)) [v].
Proof. exact C20_Substr.substring_i32_cast_refuted. Qed.
Print Assumptions substring_i32_cast_refuted.

(* ---- substring_by_char (ascii_bounds when the whole array is ASCII, utf8_bounds otherwise) *)
Theorem substring_by_char_spec_thm : forall (s : list N) (start : Z) (len : option Z),
  (match len with Some k => 0 <= k | None => True end)%Z ->
  forall all_ascii : bool, (all_ascii = true -> is_ascii s = true) ->
  substring_by_char_m all_ascii (utf8 s) start len = utf8 (substring_by_char_spec s start len).
Proof. exact C20_ByChar.substring_by_char_thm. Qed.
Print Assumptions substring_by_char_spec_thm.

(* ---- length / bit_length over an offsets buffer *)
Theorem length_spec_thm : forall (bits : Z) (ss : list (list N)) (pre : list N), (1 <= bits)%Z ->
  Forall (fun s => (Z.of_nat (blen s) < 2 ^ (bits - 1))%Z) ss ->
  length_m bits (layout_offsets pre (map utf8 ss)) = map length_spec ss.
Proof. exact C20_Layout.length_spec_thm. Qed.
Print Assumptions length_spec_thm.

Theorem bit_length_spec_thm : forall (bits : Z) (ss : list (list N)) (pre : list N), (1 <= bits)%Z ->
  Forall (fun s => (8 * Z.of_nat (blen s) < 2 ^ (bits - 1))%Z) ss ->
  bit_length_m bits (layout_offsets pre (map utf8 ss)) = map bit_length_spec ss.
Proof. exact C20_Layout.bit_length_spec_thm. Qed.
Print Assumptions bit_length_spec_thm.

(* ---- concat_elements: the offsets/values the loop builds denote the row-wise concatenations *)
Theorem concat_elements_spec : forall (ls rs : list (list N)) (lpre lpost rpre rpost : list N),
  let r := concat_elements_m (layout_offsets lpre (map utf8 ls)) (layout_data lpre (map utf8 ls) lpost)
                             (layout_offsets rpre (map utf8 rs)) (layout_data rpre (map utf8 rs) rpost) in
  values_of (fst r) (snd r) = map utf8 (map2 (@app N) ls rs).
Proof. exact C20_Layout.concat_elements_spec_thm. Qed.
Print Assumptions concat_elements_spec.

Theorem concat_valid_utf8 : forall a b : list N,
  Forall (fun c => scalar c = true) a -> Forall (fun c => scalar c = true) b ->
  valid_utf8 (utf8 a ++ utf8 b) = true.
Proof. exact C20_Layout.concat_valid_utf8. Qed.
Print Assumptions concat_valid_utf8.

(* ---- non-vacuity: concrete instances (pattern "a\%_%é" on "a%xyé"; substring splitting "é") *)
Example like_example :
  like_m (utf8 [97; 92; 37; 95; 37; 233]%N) (utf8 [97; 37; 120; 121; 233]%N) = true
  /\ like_spec [97; 92; 37; 95; 37; 233]%N [97; 37; 120; 121; 233]%N = true
  /\ like_spec [37; 233]%N [233; 10]%N = false /\ like_spec [37; 233; 37]%N [10; 233; 10]%N = true.
Proof. vm_compute. auto. Qed.
Example substring_example :
  substring_spec [97; 233; 98]%N 1 (Some 1%Z) = None
  /\ substring_spec [97; 233; 98]%N 1 (Some 2%Z) = Some [233%N]
  /\ substring_spec [97; 233; 98]%N (-1) None = Some [98%N]
  /\ substring_by_char_spec [97; 233; 98]%N (-2) (Some 1%Z) = [233%N].
Proof. vm_compute. auto. Qed.
