(* C20 — theorems (statements in full; proofs in Proofs/C20_*.v). *)
From Coq Require Import List NArith ZArith Bool.
From AV Require Import Base.Utf8 Model.C20_Like Model.C20_Substr.
Import ListNotations.
