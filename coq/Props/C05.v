(* C05 — property theorems only: each closed by [exact] and followed by Print Assumptions. *)
From Coq Require Import List Arith NArith ZArith.
From AV Require Import Model.C05_Enc Model.C05_Levels.
From AV Require Import Proofs.C05_Bits Proofs.C05_BitWriter Proofs.C05_BitReader Proofs.C05_Rle Proofs.C05_Wrap Proofs.C05_Delta Proofs.C05_Plain Proofs.C05_Levels Proofs.C05_Examples.
Import ListNotations.

(* BitWriter::put_value / BitReader::get_value at the bit-stream level: packing n values of any width w
   (0..=64 and beyond) LSB-first and cutting the stream again returns the values, whatever follows. *)
Theorem bitpack_roundtrip : forall (w : nat) (vs : list N) (padding : list bool),
  Forall (fun v => (v < 2^N.of_nat w)%N) vs ->
  unpack w (length vs) (pack w vs ++ padding) = vs.
Proof. exact C05_Bits.bitpack_roundtrip. Qed.
Print Assumptions bitpack_roundtrip.

(* M = S: the word-level BitWriter (64-bit accumulator, spill when 64 bits are reached, checked shifts,
   flush of ceil(bit_offset/8) bytes) writes exactly the concatenated LSB-first bit groups, zero padded
   to a byte - for every sequence of (value, width) with width <= 64 and value < 2^width *)
Theorem bitwriter_put_value_spec : forall ops : list (N * N),
  Forall (fun p => (snd p <= 64)%N /\ (fst p < 2^(snd p))%N) ops ->
  bw_run ops = bits_to_bytes (flat_map (fun p => bits_of (N.to_nat (snd p)) (fst p)) ops).
Proof. exact C05_BitWriter.bitwriter_spec. Qed.
Print Assumptions bitwriter_put_value_spec.

(* M = S: the word-level BitReader::get_value (buffered 64-bit word, reload when a read crosses it, split
   reads, None when fewer than w bits remain) cuts the LSB-first bit stream - for every byte buffer and
   every sequence of widths <= 64 *)
Theorem bitreader_get_value_spec : forall (data : list N) (ws : list N),
  Forall (fun w => (w <= 64)%N) ws ->
  br_run data br_new ws = br_run_spec (bytes_bits data) ws.
Proof. exact C05_BitReader.bitreader_spec. Qed.
Print Assumptions bitreader_get_value_spec.

(* put_vlq_int / get_vlq_int: every u64 survives, 10 bytes suffice *)
Theorem vlq_roundtrip : forall (n : N) (rest : list N),
  (n < 2^64)%N -> vlq_dec (vlq n ++ rest) 0 0 = Some (n, rest).
Proof. exact C05_Bits.vlq_roundtrip. Qed.
Print Assumptions vlq_roundtrip.

(* M = S: the shift/xor zig-zag of put_zigzag_vlq_int is the arithmetic zig-zag, for every i64 *)
Theorem zigzag_shift_xor_is_arithmetic : forall v : Z,
  (- 2^63 <= v < 2^63)%Z ->
  Z.of_N (zz_enc_m v) = (if (0 <=? v)%Z then 2 * v else - 2 * v - 1)%Z /\ (zz_enc_m v < 2^64)%N.
Proof. exact C05_Bits.zz_enc_m_spec. Qed.
Print Assumptions zigzag_shift_xor_is_arithmetic.

Theorem zigzag_vlq_roundtrip : forall (v : Z) (rest : list N),
  (- 2^63 <= v < 2^63)%Z -> zz_vlq_dec (zz_vlq v ++ rest) = Some (v, rest).
Proof. exact C05_Bits.zz_vlq_roundtrip. Qed.
Print Assumptions zigzag_vlq_roundtrip.

(* RleDecoder on any sequence of well-formed runs (RLE runs of any length, bit-packed runs of any
   number of groups) returns the first n values of their expansion, for every bit width *)
Theorem rle_decode_runs : forall (w : nat) (runs : list run) (n : nat),
  Forall (wf_run w) runs ->
  rle_decode w n (flat_map (ser w) runs) = Some (firstn n (flat_map expand runs)).
Proof. exact C05_Rle.rle_decode_runs. Qed.
Print Assumptions rle_decode_runs.

(* the RleEncoder state machine (8-value buffering, run promotion, 63-group limit, final flush) emits
   well-formed runs whose expansion is the input followed by fewer than eight zeros *)
Theorem rle_encoder_runs : forall (w : nat) (vs : list N),
  Forall (fun v => (v < 2^N.of_nat w)%N) vs -> (N.of_nat (length vs) < 2147483648)%N ->
  exists k, (k < 8)%nat /\ flat_map expand (rle_runs vs) = vs ++ repeat 0%N k /\ Forall (wf_run w) (rle_runs vs).
Proof. exact C05_Rle.rle_runs_spec. Qed.
Print Assumptions rle_encoder_runs.

Theorem rle_roundtrip : forall (w : nat) (vs : list N),
  Forall (fun v => (v < 2^N.of_nat w)%N) vs -> (N.of_nat (length vs) < 2147483648)%N ->
  rle_decode w (length vs) (rle_encode w vs) = Some vs.
Proof. exact C05_Rle.rle_roundtrip. Qed.
Print Assumptions rle_roundtrip.

(* PLAIN *)
Theorem plain_int_roundtrip : forall (k : nat) (vs : list Z),
  (0 < k)%nat ->
  Forall (fun z => (- Z.of_N (2^(8 * N.of_nat k - 1)) <= z < Z.of_N (2^(8 * N.of_nat k - 1)))%Z) vs ->
  plain_int_dec k (length vs) (plain_int_enc k vs) = Some vs.
Proof. exact C05_Plain.plain_int_roundtrip. Qed.
Print Assumptions plain_int_roundtrip.

Theorem plain_bool_roundtrip : forall vs : list bool,
  plain_bool_dec (length vs) (plain_bool_enc vs) = vs.
Proof. exact C05_Plain.plain_bool_roundtrip. Qed.
Print Assumptions plain_bool_roundtrip.

Theorem plain_byte_array_roundtrip : forall (vs : list (list N)) (rest : list N),
  Forall (fun v => (N.of_nat (length v) < 2^32)%N) vs ->
  plain_ba_dec (length vs) (plain_ba_enc vs ++ rest) = match vs with [] => Some [] | _ => Some vs end.
Proof. exact C05_Plain.plain_ba_roundtrip. Qed.
Print Assumptions plain_byte_array_roundtrip.

(* DELTA_BINARY_PACKED, INT32 (tw = 32, 32-value mini blocks) and INT64 (tw = 64, 64-value mini blocks):
   every value list in the type's range, including wrapping deltas between the extremes, blocks of
   4 mini blocks, per-mini-block widths, zero-width mini blocks, the padded last mini block *)
Theorem delta_bp_roundtrip : forall (tw : N) (vs : list Z) (rest : list N),
  tw = 32%N \/ tw = 64%N ->
  Forall (fun z => (- Z.of_N (2^(tw - 1)) <= z < Z.of_N (2^(tw - 1)))%Z) vs ->
  (N.of_nat (length vs) < 2^64)%N ->
  delta_decode tw (delta_encode tw vs ++ rest) = Some (vs, rest).
Proof. exact C05_Delta.delta_bp_roundtrip. Qed.
Print Assumptions delta_bp_roundtrip.

Theorem delta_len_roundtrip : forall vs : list (list N),
  Forall (fun v => (N.of_nat (length v) < 2147483648)%N) vs -> (N.of_nat (length vs) < 2^64)%N ->
  dlba_decode (dlba_encode vs) = Some vs.
Proof. exact C05_Plain.dlba_roundtrip. Qed.
Print Assumptions delta_len_roundtrip.

Theorem delta_ba_roundtrip : forall vs : list (list N),
  Forall (fun v => (N.of_nat (length v) < 2147483648)%N) vs -> (N.of_nat (length vs) < 2^64)%N ->
  dba_decode (dba_encode vs) = Some vs.
Proof. exact C05_Plain.dba_roundtrip. Qed.
Print Assumptions delta_ba_roundtrip.

Theorem bss_roundtrip : forall (k : nat) (vs : list (list N)),
  Forall (fun v => length v = k) vs -> bss_decode k (length vs) (bss_encode k vs) = vs.
Proof. exact C05_Plain.bss_roundtrip. Qed.
Print Assumptions bss_roundtrip.

(* Dremel levels: for every path of Req / Opt / Rep nodes (any depth, any number of repeated levels) and
   every value of that path's type - null at each optional level, empty list at each repeated level -
   assembling the shredded entries gives the value back and consumes exactly its entries. *)
Theorem shred_assemble_value : forall (p : path) (fuel d r rl : nat) (v : val p) (rest : list entry),
  length (shred p d r rl v ++ rest) <= fuel ->
  match rest with [] => True | e :: _ => e_rep e < S rl end ->
  assemble fuel p d rl (shred p d r rl v ++ rest) = Some (v, rest).
Proof. exact C05_Levels.shred_assemble_gen. Qed.
Print Assumptions shred_assemble_value.

Theorem shred_assemble : forall (p : path) (rows : list (val p)) (fuel : nat),
  length rows <= fuel -> assemble_rows fuel p (shred_rows p rows) = Some rows.
Proof. exact C05_Levels.shred_assemble_rows. Qed.
Print Assumptions shred_assemble.

(* splitting the rows into batches at any record boundary does not change the level stream *)
Theorem shred_partition : forall (p : path) (rows1 rows2 : list (val p)),
  shred_rows p (rows1 ++ rows2) = shred_rows p rows1 ++ shred_rows p rows2.
Proof. exact C05_Levels.shred_partition. Qed.
Print Assumptions shred_partition.

Theorem shred_levels_bounded : forall (p : path) (d r rl : nat) (v : val p) (e : entry),
  In e (shred p d r rl v) ->
  e_def e <= d + max_def p /\ e_rep e <= Nat.max r (rl + max_rep p) /\
  (e_val e <> None <-> e_def e = d + max_def p).
Proof. exact C05_Levels.shred_levels_bounded. Qed.
Print Assumptions shred_levels_bounded.
