(* C11 — property theorems only: each closed by [exact] and followed by Print Assumptions. *)
From Coq Require Import List ZArith NArith.
From AV Require Import Model.C11_Row Proofs.C11_Lex Proofs.C11_Fixed Proofs.C11_Var Proofs.C11_Unfold Proofs.C11_Field.
Import ListNotations.
Local Open Scope N_scope.

(* Variable-length values: the block encoding behind the empty / non-empty sentinels is strongly
   order preserving for byte strings of EVERY length. *)
Theorem var_blocks_strong : forall (v w x y : list N),
  lex (var_body v ++ x) (var_body w ++ y) = match lex v w with Eq => lex x y | c => c end.
Proof. intros v w x y. exact (var_body_strong v w x y I I). Qed.
Print Assumptions var_blocks_strong.
