(* C11 — property theorems only: each closed by [exact] and followed by Print Assumptions.
   Model: coq/Model/C11_Row.v ([enc]/[enc_row] = RowConverter::convert_columns bytes, [dec]/[dec_row] =
   convert_rows, [cmp_field]/[row_cmp] = logical comparison under SortOptions, [lex] = Row::cmp). *)
From Coq Require Import List ZArith NArith.
From AV Require Import Model.C11_Row Proofs.C11_Lex Proofs.C11_Fixed Proofs.C11_Var Proofs.C11_Unfold Proofs.C11_Field Proofs.C11_Nested Proofs.C11_RowOrder Proofs.C11_Decode Proofs.C11_Len.
Import ListNotations.
Local Open Scope N_scope.

(* ROW ORDER: byte-wise comparison of two encoded rows = lexicographic comparison of the value
   tuples under the per-field SortOptions; for every list of (nested) field types and options. *)
Theorem row_order : forall (fs : list field) (r1 r2 : list value),
  Forall (fun f : field => wf_type (fst f)) fs -> wt_row fs r1 -> wt_row fs r2 ->
  lex (enc_row fs r1) (enc_row fs r2) = row_cmp fs r1 r2.
Proof. exact row_order_F. Qed.
Print Assumptions row_order.

(* ... and rows are prefix-free: whatever bytes follow (further columns, as in nested use) never
   influence the comparison unless the rows are logically equal. *)
Theorem row_order_strong : forall (fs : list field) (r1 r2 : list value) (x y : list N),
  Forall (fun f : field => wf_type (fst f)) fs -> wt_row fs r1 -> wt_row fs r2 ->
  lex (enc_row fs r1 ++ x) (enc_row fs r2 ++ y) = match row_cmp fs r1 r2 with Eq => lex x y | c => c end.
Proof. exact row_prefix_free_F. Qed.
Print Assumptions row_order_strong.

(* INJECTIVE: two rows are byte-equal exactly when all their values are equal. *)
Theorem row_injective : forall (fs : list field) (r1 r2 : list value),
  Forall (fun f : field => wf_type (fst f)) fs -> wt_row fs r1 -> wt_row fs r2 ->
  (enc_row fs r1 = enc_row fs r2 <-> r1 = r2).
Proof. exact row_injective_F. Qed.
Print Assumptions row_injective.

(* the logical comparison is Eq exactly on equal tuples (so Eq of Row::cmp means logical equality) *)
Theorem row_cmp_eq : forall (fs : list field) (r1 r2 : list value),
  Forall (fun f : field => wf_type (fst f)) fs -> wt_row fs r1 -> wt_row fs r2 ->
  (row_cmp fs r1 r2 = Eq <-> r1 = r2).
Proof. exact row_cmp_eq_F. Qed.
Print Assumptions row_cmp_eq.

(* the boolean equality used by the c11.cmp.spec oracle decides equality of value tuples *)
Theorem row_eqb_spec : forall r1 r2 : list value, row_eqb r1 r2 = true <-> r1 = r2.
Proof. exact row_eqb_eq. Qed.
Print Assumptions row_eqb_spec.

(* INVERTIBLE: decoding an encoded row (followed by anything) returns the original values. *)
Theorem decode_encode_row : forall (fs : list field) (r : list value) (rest : list N),
  Forall (fun f : field => wf_type (fst f)) fs -> wt_row fs r ->
  dec_row fs (enc_row fs r ++ rest) = r.
Proof. exact dec_enc_row_F. Qed.
Print Assumptions decode_encode_row.

Theorem decode_encode_field : forall (t : ftype), wf_type t -> forall (o : opts) (v : value) (rest : list N),
  wt t v -> dec t o (enc t o v ++ rest) = (v, rest).
Proof. exact dec_enc. Qed.
Print Assumptions decode_encode_field.

(* rows appended later / converted from other arrays: the encoding of a row depends on the row only *)
Theorem append_independent : forall (fs : list field) (a b : list (list value)),
  map (enc_row fs) (a ++ b) = map (enc_row fs) a ++ map (enc_row fs) b.
Proof. exact rows_append_indep. Qed.
Print Assumptions append_independent.

(* PER FIELD: every field encoder (fixed width, variable length, struct, list, fixed-size list,
   run-end encoded; any nesting) is strongly order preserving under every SortOptions: this packs
   order preservation, injectivity and prefix-freeness. *)
Theorem field_order_strong : forall (t : ftype) (o : opts) (a b : value) (x y : list N),
  wf_type t -> wt t a -> wt t b ->
  lex (enc t o a ++ x) (enc t o b ++ y) = match cmp_field t o a b with Eq => lex x y | c => c end.
Proof. exact field_order. Qed.
Print Assumptions field_order_strong.

(* Variable-length values: empty / non-empty sentinels, 4 mini blocks of 8 bytes, then blocks of 32
   bytes with continuation bytes and the final length byte: strong for byte strings of EVERY length
   (the 8- and 32-byte boundaries are induction steps, embedded 0x00 / 0xFF bytes are arbitrary). *)
Theorem var_order_strong : forall (nf : bool) (v w x y : list N),
  lex (encode_one (mkOpts false nf) (Some v) ++ x) (encode_one (mkOpts false nf) (Some w) ++ y)
  = match lex v w with Eq => lex x y | c => c end.
Proof. exact var_strong_asc. Qed.
Print Assumptions var_order_strong.

(* the row length pre-computed by row_lengths (padded_length, which the writes into the pre-sized
   buffer rely on) is exactly the number of bytes encode_one produces, for null / empty / any length *)
Theorem lengths_exact : forall (o : opts) (v : option (list N)),
  length (encode_one o v) = padded_length (option_map (@length N) v).
Proof. exact encode_one_length. Qed.
Print Assumptions lengths_exact.

(* decode_blocks returns the (still inverted) data and the exact number of bytes consumed *)
Theorem decode_blocks_inverts : forall (o : opts) (b rest : list N),
  Forall (fun x => x < 256) b ->
  decode_blocks o (encode_one o (Some b) ++ rest) = (inv_if (descending o) b, length (encode_one o (Some b))).
Proof. exact decode_blocks_some. Qed.
Print Assumptions decode_blocks_inverts.

(* Descending = bitwise complement: sound for ANY strongly order preserving encoder (prefix-freeness
   is what makes it work), reversing the comparison. *)
Theorem descending_by_complement : forall (A : Type) (P : A -> Prop) (e : A -> list N) (c : A -> A -> comparison),
  (forall a, P a -> Forall (fun b => b < 256) (e a)) ->
  (forall a b x y, P a -> P b -> lex (e a ++ x) (e b ++ y) = match c a b with Eq => lex x y | r => r end) ->
  forall a b x y, P a -> P b ->
    lex (invert (e a) ++ x) (invert (e b) ++ y) = match CompOpp (c a b) with Eq => lex x y | r => r end.
Proof. exact @complement_reverses. Qed.
Print Assumptions descending_by_complement.

(* Signed integers of any width (Int8..Int64, Decimal128/256 …): big-endian with the sign bit flipped. *)
Theorem signed_int_order : forall (w : nat) (a b : Z), (1 <= w)%nat ->
  (- Z.of_N (2 ^ (8 * N.of_nat w - 1)) <= a < Z.of_N (2 ^ (8 * N.of_nat w - 1)))%Z ->
  (- Z.of_N (2 ^ (8 * N.of_nat w - 1)) <= b < Z.of_N (2 ^ (8 * N.of_nat w - 1)))%Z ->
  lex (encode_signed w a) (encode_signed w b) = (a ?= b)%Z.
Proof. exact signed_order. Qed.
Print Assumptions signed_int_order.

(* Floats: the xor/shift key followed by the sign flip orders bit patterns by IEEE totalOrder
   (-NaN < -inf < … < -0 < +0 < … < +inf < +NaN, NaN payloads ordered). *)
Theorem float_total_order : forall (w : nat) (a b : Z), (1 <= w)%nat ->
  (0 <= a < Z.of_N (2 ^ (8 * N.of_nat w)))%Z -> (0 <= b < Z.of_N (2 ^ (8 * N.of_nat w)))%Z ->
  lex (encode_float w a) (encode_float w b) = total_cmp (Z.of_N (2 ^ (8 * N.of_nat w - 1))) a b.
Proof. exact float_order. Qed.
Print Assumptions float_total_order.

(* the float key, arithmetically: non-negative patterns are kept, negative ones get their low bits flipped *)
Theorem float_key_spec : forall (w : nat) (u : N), (1 <= w)%nat -> u < 2 ^ (8 * N.of_nat w) ->
  float_key w u = if u <? 2 ^ (8 * N.of_nat w - 1) then u else 3 * 2 ^ (8 * N.of_nat w - 1) - 1 - u.
Proof. exact float_key_arith. Qed.
Print Assumptions float_key_spec.

(* the specification itself: nulls_first decides the place of nulls whatever the direction *)
Theorem nulls_placement : forall (t : ftype) (o : opts) (a : value),
  match t with TRee _ => False | _ => True end -> a <> VNull ->
  cmp_field t o VNull a = (if nulls_first o then Lt else Gt) /\
  cmp_field t o a VNull = (if nulls_first o then Gt else Lt).
Proof. exact (fun t o a H N => conj (cmp_field_nl t o a H N) (cmp_field_ln t o a H N)). Qed.
Print Assumptions nulls_placement.
