(* C19 — property theorems only: each closed by [exact] and followed by Print Assumptions. *)
From Coq Require Import List Arith NArith ZArith.
From AV Require Import Base.Bytes Model.C19_Bits Proofs.C19_Chunks Proofs.C19_Masks Proofs.C19_LowBit Proofs.C19_IndexIter Proofs.C19_Remainder Proofs.C19_Unaligned.
Import ListNotations.
Local Open Scope N_scope.

(* Chunk iteration: bit j of the n-th u64 yielded by BitChunks::iter is exactly bit 64n+j of the
   addressed range, for every buffer, bit offset and length the constructor accepts. *)
Theorem chunks_spec : forall (bs : list N) (off len n j : nat),
  wf_bytes bs -> ((off + len + 7) / 8 <= length bs)%nat -> (n < len / 64)%nat -> (j < 64)%nat ->
  N.testbit (nth n (bitchunks_iter (bitchunks_new bs off len)) 0) (N.of_nat j)
  = nth (64 * n + j)%nat (bits_range bs off len) false.
Proof. exact bitchunks_iter_spec. Qed.
Print Assumptions chunks_spec.

Theorem chunks_count : forall (bs : list N) (off len : nat),
  length (bitchunks_iter (bitchunks_new bs off len)) = (len / 64)%nat.
Proof. exact bitchunks_count. Qed.
Print Assumptions chunks_count.

(* UnalignedBitChunk, single-word case: prefix & masks keep exactly the addressed bits,
   everything outside [lead, lead+len) reads as zero. *)
Theorem unaligned_single_word_spec : forall x len lead i,
  i < 64 -> lead < 8 -> 0 < len -> len + lead <= 64 ->
  N.testbit (N.land (N.land x (fst (suffix_mask len lead))) (prefix_mask lead)) i
  = (N.testbit x i && (lead <=? i) && (i <? len + lead))%bool.
Proof. exact single_word_spec. Qed.
Print Assumptions unaligned_single_word_spec.

Theorem unaligned_trailing_padding : forall len lead,
  (snd (suffix_mask len lead) + len + lead) mod 64 = 0 /\ snd (suffix_mask len lead) < 64.
Proof. exact trailing_padding_gen. Qed.
Print Assumptions unaligned_trailing_padding.

(* BitIndexIterator step: w & (w-1) clears exactly the lowest set bit, which is the one reported. *)
Theorem index_iter_step_clears_lowest : forall m t i,
  let w := (2 * m + 1) * 2^t in
  N.testbit (N.land w (w - 1)) i = (N.testbit w i && negb (i =? t))%bool.
Proof. exact clear_lowest. Qed.
Print Assumptions index_iter_step_clears_lowest.

Theorem index_iter_step_reports_min : forall m t i,
  N.testbit ((2 * m + 1) * 2^t) i = true -> t <= i.
Proof. exact lowest_is_min. Qed.
Print Assumptions index_iter_step_reports_min.

(* BitIndexIterator, the whole loop: over ANY list of u64 words (prefix, chunks, suffix of an
   UnalignedBitChunk) starting at chunk offset c, the iterator yields c + p for exactly the
   positions p of the set bits of the concatenated words, in increasing order; the inner-loop
   fuel of 64 steps is proved sufficient. *)
Theorem index_iter_yields_set_positions : forall ws c, Forall (fun w => w < 2^64) ws ->
  index_iter_words ws c = map (fun i => (c + Z.of_nat i)%Z) (positions (words_bits ws)).
Proof. exact index_iter_words_spec. Qed.
Print Assumptions index_iter_yields_set_positions.

(* BitChunks::remainder_bits (the byte-by-byte loop): bit j of the remainder word is bit 64*(len/64)+j of
   the addressed range for j < len mod 64 and zero above — for every buffer, offset and length. *)
Theorem remainder_spec : forall (bs : list N) (off len j : nat),
  wf_bytes bs -> ((off + len + 7) / 8 <= length bs)%nat ->
  N.testbit (remainder_bits (bitchunks_new bs off len)) (N.of_nat j)
  = if (j <? len mod 64)%nat then nth (64 * (len / 64) + j)%nat (bits_range bs off len) false else false.
Proof. exact remainder_bits_spec. Qed.
Print Assumptions remainder_spec.

(* UnalignedBitChunk::new when the addressed bytes fit in one u64 (ranges of up to 64 - offset%8 bits): for every
   buffer, pointer alignment, offset and length the constructor yields exactly one word whose bits [lead, lead+len)
   are the addressed bits and whose other bits are zero, with lead = offset mod 8 and trailing padding 64-(len+lead).
   (The align_to case — more than 16 addressed bytes — is tied to the code by the correspondence suite
   c19.unaligned and by the list-of-bool specifications of every iterator built on it; no theorem yet.) *)
Theorem unaligned_single_word_case : forall (bs : list N) (align off len : nat),
  wf_bytes bs -> (0 < len)%nat ->
  let lead := (off mod 8)%nat in
  let bytes_len := ((len + lead + 7) / 8)%nat in
  (bytes_len <= 8)%nat -> (off / 8 + bytes_len <= length bs)%nat ->
  let u := ubc_new bs align off len in
  u_lead u = N.of_nat lead /\ u_trail u = 64 - N.of_nat (len + lead) /\ u_chunks u = [] /\ u_suffix u = None /\
  exists p, u_prefix u = Some p /\
    forall i, (i < 64)%nat ->
      N.testbit p (N.of_nat i) = ((lead <=? i)%nat && (i <? lead + len)%nat && bit_at bs (8 * (off / 8) + i))%bool.
Proof. exact unaligned_single_word. Qed.
Print Assumptions unaligned_single_word_case.

(* UnalignedBitChunk::new when the addressed bytes span 9..16 bytes: a prefix word masked below the lead padding and
   a suffix word masked above the range; every bit is the addressed buffer bit or zero. *)
Theorem unaligned_two_word_case : forall (bs : list N) (align off len : nat),
  wf_bytes bs ->
  let lead := (off mod 8)%nat in
  let bytes_len := ((len + lead + 7) / 8)%nat in
  (8 < bytes_len <= 16)%nat -> (off / 8 + bytes_len <= length bs)%nat ->
  let u := ubc_new bs align off len in
  u_lead u = N.of_nat lead /\ u_trail u = N.of_nat (128 - (len + lead)) /\ u_chunks u = [] /\
  exists p q, u_prefix u = Some p /\ u_suffix u = Some q /\
    forall i, (i < 64)%nat ->
      N.testbit p (N.of_nat i) = ((lead <=? i)%nat && bit_at bs (8 * (off / 8) + i))%bool /\
      N.testbit q (N.of_nat i) = ((64 + i <? lead + len)%nat && bit_at bs (8 * (off / 8) + 64 + i))%bool.
Proof. exact unaligned_two_words. Qed.
Print Assumptions unaligned_two_word_case.
