(* C19 — property theorems only: each closed by [exact] and followed by Print Assumptions. *)
From Coq Require Import List Arith NArith ZArith.
From AV Require Import Base.Bytes Model.C19_Bits Proofs.C19_Chunks Proofs.C19_Masks Proofs.C19_LowBit Proofs.C19_IndexIter Proofs.C19_Remainder.
Local Open Scope N_scope.

(* Chunk iteration: bit j of the n-th u64 yielded by BitChunks::iter is exactly bit 64n+j of the
   addressed range, for every buffer, bit offset and length the constructor accepts. *)
Theorem chunks_spec : forall (bs : list N) (off len n j : nat),
  wf_bytes bs -> ((off + len + 7) / 8 <= length bs)%nat -> (n < len / 64)%nat -> (j < 64)%nat ->
  N.testbit (nth n (bitchunks_iter (bitchunks_new bs off len)) 0) (N.of_nat j)
  = nth (64 * n + j)%nat (bits_range bs off len) false.
Proof. exact bitchunks_iter_spec. Qed.
Print Assumptions chunks_spec.

Theorem chunks_count : forall (bs : list N) (off len : nat),
  length (bitchunks_iter (bitchunks_new bs off len)) = (len / 64)%nat.
Proof. exact bitchunks_count. Qed.
Print Assumptions chunks_count.

(* UnalignedBitChunk, single-word case: prefix & masks keep exactly the addressed bits,
   everything outside [lead, lead+len) reads as zero. *)
Theorem unaligned_single_word_spec : forall x len lead i,
  i < 64 -> lead < 8 -> 0 < len -> len + lead <= 64 ->
  N.testbit (N.land (N.land x (fst (suffix_mask len lead))) (prefix_mask lead)) i
  = (N.testbit x i && (lead <=? i) && (i <? len + lead))%bool.
Proof. exact single_word_spec. Qed.
Print Assumptions unaligned_single_word_spec.

Theorem unaligned_trailing_padding : forall len lead,
  (snd (suffix_mask len lead) + len + lead) mod 64 = 0 /\ snd (suffix_mask len lead) < 64.
Proof. exact trailing_padding_gen. Qed.
Print Assumptions unaligned_trailing_padding.

(* BitIndexIterator step: w & (w-1) clears exactly the lowest set bit, which is the one reported. *)
Theorem index_iter_step_clears_lowest : forall m t i,
  let w := (2 * m + 1) * 2^t in
  N.testbit (N.land w (w - 1)) i = (N.testbit w i && negb (i =? t))%bool.
Proof. exact clear_lowest. Qed.
Print Assumptions index_iter_step_clears_lowest.

Theorem index_iter_step_reports_min : forall m t i,
  N.testbit ((2 * m + 1) * 2^t) i = true -> t <= i.
Proof. exact lowest_is_min. Qed.
Print Assumptions index_iter_step_reports_min.

(* BitIndexIterator, the whole loop: over ANY list of u64 words (prefix, chunks, suffix of an
   UnalignedBitChunk) starting at chunk offset c, the iterator yields c + p for exactly the
   positions p of the set bits of the concatenated words, in increasing order; the inner-loop
   fuel of 64 steps is proved sufficient. *)
Theorem index_iter_yields_set_positions : forall ws c, Forall (fun w => w < 2^64) ws ->
  index_iter_words ws c = map (fun i => (c + Z.of_nat i)%Z) (positions (words_bits ws)).
Proof. exact index_iter_words_spec. Qed.
Print Assumptions index_iter_yields_set_positions.

(* BitChunks::remainder_bits (the byte-by-byte loop): bit j of the remainder word is bit 64*(len/64)+j of
   the addressed range for j < len mod 64 and zero above — for every buffer, offset and length. *)
Theorem remainder_spec : forall (bs : list N) (off len j : nat),
  wf_bytes bs -> ((off + len + 7) / 8 <= length bs)%nat ->
  N.testbit (remainder_bits (bitchunks_new bs off len)) (N.of_nat j)
  = if (j <? len mod 64)%nat then nth (64 * (len / 64) + j)%nat (bits_range bs off len) false else false.
Proof. exact remainder_bits_spec. Qed.
Print Assumptions remainder_spec.
