(* C10 — property theorems only: each closed by [exact] and followed by Print Assumptions. *)
From Coq Require Import List ZArith Bool.
From AV Require Import Model.C10_Order Proofs.C10_Float.
Local Open Scope Z_scope.

(* The integer key of std's total_cmp (x ^ (((x >> (w-1)) as unsigned) >> 1), compared as signed) orders
   bit patterns exactly like IEEE-754 totalOrder, for every width w and all bit patterns. *)
Theorem float_key_is_totalOrder : forall w x y : Z,
  0 < w -> 0 <= x < 2 ^ w -> 0 <= y < 2 ^ w ->
  total_cmp_key w x y = total_order (2 ^ (w - 1)) x y.
Proof. exact float_key_total_order. Qed.
Print Assumptions float_key_is_totalOrder.
