(* C10 — property theorems only: each closed by [exact] and followed by Print Assumptions. *)
From Coq Require Import List ZArith Bool Arith Permutation.
From AV Require Import Model.C10_Order Model.C10_Sort Model.C10_Rank Model.C10_Heap Model.C10_Dict Model.D_C10.
From AV Require Import Proofs.C10_Float Proofs.C10_Cmp Proofs.C10_Bytes Proofs.C10_MCmp Proofs.C10_Sort Proofs.C10_SortImpl.
From AV Require Import Proofs.C10_Kernels Proofs.C10_Partition Proofs.C10_Rank Proofs.C10_Examples Proofs.C10_SortSound Proofs.C10_Lex Proofs.C10_Bool Proofs.C10_Heap Proofs.C10_SortDict.
Import ListNotations.

(* Used below:  tpo c  :=  (forall a, c a a = Eq) /\ (forall a b, c b a = CompOpp (c a b)) /\
   (forall a b d, c a b <> Gt -> c b d <> Gt -> c a d <> Gt)   — a 3-way comparator that is a total preorder
   (Proofs/C10_Cmp.v);  bytes l := every element of l is in [0, 256);  wf_col: bytes are bytes and a float of width w
   is a bit pattern in [0, 2^w) tagged with h = 2^(w-1) (Proofs/C10_MCmp.v). *)

(* ---- 1. floats.  The integer key of f16/f32/f64::total_cmp (x ^ (((x >> (w-1)) as unsigned) >> 1), compared as
   signed) orders bit patterns exactly like IEEE-754 totalOrder (sign, then magnitude; reversed for negatives),
   for every width w and all bit patterns: NaN payloads, signed zeros, subnormals included. *)
Theorem float_key_is_totalOrder : forall w x y : Z,
  (0 < w)%Z -> (0 <= x < 2 ^ w)%Z -> (0 <= y < 2 ^ w)%Z ->
  total_cmp_key w x y = total_order (2 ^ (w - 1)) x y.
Proof. exact float_key_total_order. Qed.
Print Assumptions float_key_is_totalOrder.

(* ---- 2. the slot comparator (nulls by nulls_first, values reversed by descending, children under child_opts)
   is a total preorder for all four option combinations and all (nested) values ... *)
Theorem cmp_total_preorder : forall nf desc : bool,
  (forall p : oval, cmp_opts nf desc p p = Eq) /\
  (forall p q : oval, cmp_opts nf desc q p = CompOpp (cmp_opts nf desc p q)) /\
  (forall p q r : oval, cmp_opts nf desc p q <> Gt -> cmp_opts nf desc q r <> Gt -> cmp_opts nf desc p r <> Gt).
Proof. exact cmp_opts_tpo. Qed.
Print Assumptions cmp_total_preorder.

(* ... whose equivalence is equality of logical values (consistency with array equality: -0 <> +0, NaNs by payload,
   null = null) *)
Theorem cmp_eq_iff_equal : forall (nf desc : bool) (p q : oval), cmp_opts nf desc p q = Eq <-> p = q.
Proof. exact cmp_opts_eq_iff. Qed.
Print Assumptions cmp_eq_iff_equal.

(* ---- 3. make_comparator as arrow-cmp builds it — compare_impl's four null-buffer cases, the float key, the list zip
   loop, and a byte comparison [bc] that orders byte strings lexicographically — computes the specification
   comparator on every pair of slots of two well-formed columns. *)
Theorem make_comparator_is_spec : forall (bc : list Z -> list Z -> comparison),
  (forall x y, bytes x -> bytes y -> bc x y = bytes_cmp x y) ->
  forall (nf desc : bool) (a b : list oval) (i j : nat),
  wf_col a -> wf_col b -> i < length a -> j < length b ->
  m_cmp_idx bc nf desc a b i j = cmp_idx nf desc a b i j.
Proof. exact m_cmp_idx_spec. Qed.
Print Assumptions make_comparator_is_spec.

(* the byte-string fast paths order like the byte strings: sort_bytes' (4-byte prefix, length, full) comparator, *)
Theorem sort_bytes_prefix_cmp_is_lex : forall a b : list Z, bytes a -> bytes b -> cmp_bytes_prefix a b = bytes_cmp a b.
Proof. exact cmp_bytes_prefix_lex. Qed.
Print Assumptions sort_bytes_prefix_cmp_is_lex.
(* the 128-bit inline key of the view types (12 zero-padded bytes big-endian, then the length), *)
Theorem inline_key_is_lex : forall a b : list Z, bytes a -> bytes b -> length a <= 12 -> length b <= 12 ->
  (inline_key a ?= inline_key b)%Z = bytes_cmp a b.
Proof. exact inline_key_lex. Qed.
Print Assumptions inline_key_is_lex.
(* compare_unchecked / cmp_mixed / is_lt (inline keys, else 4-byte prefix, else full), and the view equality fast paths *)
Theorem view_cmp_is_lex : forall a b : list Z, bytes a -> bytes b -> view_cmp a b = bytes_cmp a b.
Proof. exact view_cmp_lex. Qed.
Print Assumptions view_cmp_is_lex.
Theorem view_eq_is_eq : forall a b : list Z, bytes a -> bytes b -> view_eq a b = list_eqb a b.
Proof. exact view_eq_spec. Qed.
Print Assumptions view_eq_is_eq.

(* ---- 4. sorting.  For ANY implementation [so] of slice::sort_unstable_by and [se] of select_nth_unstable_by that
   meet their documented contracts (a sorted permutation; a permutation with the n-th element in place, nothing
   greater before it, nothing smaller after it) and consult the comparator only on the slice's elements,
   sort_to_indices — early exits, partition_validity, the v_limit computation, sort_unstable_by / partial_sort,
   null placement, truncation — returns, for every array, every SortOptions and every limit, an index list that
   the sort predicate accepts (code 1: a duplicate-free list of in-range indices of length min(limit, n),
   non-decreasing under the comparator, no omitted row below a kept row).  [vc]/[value] are the value extraction and
   value comparison of the kernel; they only have to agree with the value order on the valid slots. *)
Theorem sort_impl_sorted_perm :
  forall (V : Type)
    (so : (nat * V -> nat * V -> comparison) -> list (nat * V) -> list (nat * V))
    (se : (nat * V -> nat * V -> comparison) -> nat -> list (nat * V) -> list (nat * V)),
  (forall c l, tpo c -> Permutation (so c l) l /\ sortedb c (so c l) = true) ->
  (forall c n l, tpo c -> n < length l ->
     Permutation (se c n l) l /\
     exists p, nth_error (se c n l) n = Some p /\
       Forall (fun x => c x p <> Gt) (firstn n (se c n l)) /\
       Forall (fun y => c p y <> Gt) (skipn (S n) (se c n l))) ->
  (forall c1 c2 l, (forall x y, In x l -> In y l -> c1 x y = c2 x y) -> so c1 l = so c2 l) ->
  (forall c1 c2 n l, (forall x y, In x l -> In y l -> c1 x y = c2 x y) -> se c1 n l = se c2 n l) ->
  forall (vc : V -> V -> comparison) (value : nat -> V) (a : list oval) (nf desc : bool),
  (forall i j u v, slot a i = Some u -> slot a j = Some v ->
     vc (value i) (value j) = vcmp (child_nf nf desc) u v) ->
  forall limit : option nat,
  sort_check (cmp_opts nf desc) a limit (sort_to_indices so se vc value a nf desc limit) = 1%Z.
Proof. exact (@sort_to_indices_check). Qed.
Print Assumptions sort_impl_sorted_perm.

(* the building block: sort_unstable_by(array, limit, cmp) — a full sort when limit = len, otherwise partial_sort =
   select_nth_unstable_by(limit - 1) followed by a sort of the part before it — is a permutation whose first `limit`
   elements are in order and not above anything after them *)
Theorem partial_sort_contract :
  forall (T : Type) (so : (T -> T -> comparison) -> list T -> list T) (se : (T -> T -> comparison) -> nat -> list T -> list T),
  (forall c l, tpo c -> Permutation (so c l) l /\ sortedb c (so c l) = true) ->
  (forall c n l, tpo c -> n < length l ->
     Permutation (se c n l) l /\
     exists p, nth_error (se c n l) n = Some p /\
       Forall (fun x => c x p <> Gt) (firstn n (se c n l)) /\
       Forall (fun y => c p y <> Gt) (skipn (S n) (se c n l))) ->
  forall (c : T -> T -> comparison) (k : nat) (l : list T), tpo c -> k <= length l ->
  Permutation (sort_unstable_by so se c k l) l /\
  sortedb c (firstn k (sort_unstable_by so se c k l)) = true /\
  (forall x y, In x (firstn k (sort_unstable_by so se c k l)) -> In y (skipn k (sort_unstable_by so se c k l)) -> c x y <> Gt).
Proof. exact (@sort_unstable_by_contract). Qed.
Print Assumptions partial_sort_contract.

(* what code 1 of the sort predicate means (the judge applied to every real sort_to_indices / lexsort_to_indices
   output by the correspondence run): for a total preorder c, [out] has length min(limit, n), has no duplicates, is in
   range, is non-decreasing for every pair of positions, and no omitted row is below a kept row *)
Theorem sort_predicate_meaning : forall (R : Type) (c : R -> R -> comparison) (rows : list R) (limit : option nat) (out : list nat),
  tpo c -> sort_check c rows limit out = 1%Z ->
  length out = out_len (length rows) limit /\ NoDup out /\ (forall i, In i out -> i < length rows) /\
  (forall l1 i l2 j l3 x y, out = l1 ++ i :: l2 ++ j :: l3 ->
     nth_error rows i = Some x -> nth_error rows j = Some y -> c x y <> Gt) /\
  (forall i j x y, In i out -> j < length rows -> ~ In j out ->
     nth_error rows i = Some x -> nth_error rows j = Some y -> c x y <> Gt).
Proof. exact (@sort_check_sound). Qed.
Print Assumptions sort_predicate_meaning.

(* the tuple order of lexsort — LexicographicalComparator::compare, the first non-Equal column comparator — is a total
   preorder on row numbers for any columns and per-column options, so the predicate above judges lexsort outputs too *)
Theorem lexsort_is_tuple_order : forall cols : list (bool * bool * list oval),
  (forall i, lex_idx cols i i = Eq) /\
  (forall i j, lex_idx cols j i = CompOpp (lex_idx cols i j)) /\
  (forall i j k, lex_idx cols i j <> Gt -> lex_idx cols j k <> Gt -> lex_idx cols i k <> Gt).
Proof. exact lex_idx_tpo. Qed.
Print Assumptions lexsort_is_tuple_order.

(* lexsort_topk, the bounded max-heap path of lexsort_to_indices (fully modelled: push + sift_up_worst_heap while fewer than
   `limit` rows are retained, else replace the root when the new row is smaller + sift_down_worst_heap; final sort by the
   oracle): for every total preorder, row count and limit >= 1 its result passes the sort predicate, i.e. it is the sorted
   list of the `limit` smallest rows. *)
Theorem heap_topk_correct :
  forall (cmp : nat -> nat -> comparison), tpo cmp ->
  forall (limit : nat), 0 < limit ->
  forall (so : (nat -> nat -> comparison) -> list nat -> list nat) (n : nat),
  (forall c l, tpo c -> Permutation (so c l) l /\ sortedb c (so c l) = true) ->
  sort_check cmp (seq 0 n) (Some limit) (lexsort_topk so n limit cmp) = 1%Z.
Proof. exact lexsort_topk_check. Qed.
Print Assumptions heap_topk_correct.

(* sort_dictionary: sorting the (key index, rank of the dictionary value) tuples — ranks computed under child_opts, only the
   KEY nulls partitioned away, so valid keys pointing at null dictionary values travel among the "valids" with the rank
   of a null — yields an output the predicate accepts for the comparator on the LOGICAL values of the dictionary array. *)
Theorem sort_dictionary_sorted_perm :
  forall (so : (nat * nat -> nat * nat -> comparison) -> list (nat * nat) -> list (nat * nat))
         (se : (nat * nat -> nat * nat -> comparison) -> nat -> list (nat * nat) -> list (nat * nat)),
  (forall c l, tpo c -> Permutation (so c l) l /\ sortedb c (so c l) = true) ->
  (forall c n l, tpo c -> n < length l ->
     Permutation (se c n l) l /\
     exists p, nth_error (se c n l) n = Some p /\
       Forall (fun x => c x p <> Gt) (firstn n (se c n l)) /\
       Forall (fun y => c p y <> Gt) (skipn (S n) (se c n l))) ->
  (forall c1 c2 l, (forall x y, In x l -> In y l -> c1 x y = c2 x y) -> so c1 l = so c2 l) ->
  (forall c1 c2 n l, (forall x y, In x l -> In y l -> c1 x y = c2 x y) -> se c1 n l = se c2 n l) ->
  forall (keys : list (option nat)) (values : list oval) (nf desc : bool) (limit : option nat),
  (forall i k, nth i keys None = Some k -> k < length values) ->
  sort_check (cmp_opts nf desc) (dict_col keys values) limit (sort_dictionary so se keys values nf desc limit) = 1%Z.
Proof. exact sort_dictionary_check. Qed.
Print Assumptions sort_dictionary_sorted_perm.

(* sort_list / sort_list_view / sort_fixed_size_list: every valid list carries the slice of its elements' child ranks and
   slices are compared like &[u32] (lexicographically, then by length); for lists whose elements are slots of the child
   array the output passes the predicate for the list comparator (elements under child_opts, nulls inside lists included) *)
Theorem sort_list_sorted_perm :
  forall (so : (nat * list nat -> nat * list nat -> comparison) -> list (nat * list nat) -> list (nat * list nat))
         (se : (nat * list nat -> nat * list nat -> comparison) -> nat -> list (nat * list nat) -> list (nat * list nat)),
  (forall c l, tpo c -> Permutation (so c l) l /\ sortedb c (so c l) = true) ->
  (forall c n l, tpo c -> n < length l ->
     Permutation (se c n l) l /\
     exists p, nth_error (se c n l) n = Some p /\
       Forall (fun x => c x p <> Gt) (firstn n (se c n l)) /\
       Forall (fun y => c p y <> Gt) (skipn (S n) (se c n l))) ->
  (forall c1 c2 l, (forall x y, In x l -> In y l -> c1 x y = c2 x y) -> so c1 l = so c2 l) ->
  (forall c1 c2 n l, (forall x y, In x l -> In y l -> c1 x y = c2 x y) -> se c1 n l = se c2 n l) ->
  forall (child a : list oval) (nf desc : bool) (limit : option nat),
  (forall i u, slot a i = Some u -> exists l, u = VList l /\ forall o, In o l -> In o child) ->
  sort_check (cmp_opts nf desc) a limit (sort_list so se child a nf desc limit) = 1%Z.
Proof. exact sort_list_check. Qed.
Print Assumptions sort_list_sorted_perm.

(* the contracts are satisfiable: insertion sort (the instance run by the extracted model) meets all four *)
Theorem sort_oracle_instance : forall T : Type,
  (forall (c : T -> T -> comparison) l, tpo c -> Permutation (isort c l) l /\ sortedb c (isort c l) = true) /\
  (forall (c : T -> T -> comparison) n l, tpo c -> n < length l ->
     Permutation (iselect c n l) l /\
     exists p, nth_error (iselect c n l) n = Some p /\
       Forall (fun x => c x p <> Gt) (firstn n (iselect c n l)) /\
       Forall (fun y => c p y <> Gt) (skipn (S n) (iselect c n l))) /\
  (forall (c1 c2 : T -> T -> comparison) l, (forall x y, In x l -> In y l -> c1 x y = c2 x y) -> isort c1 l = isort c2 l) /\
  (forall (c1 c2 : T -> T -> comparison) n l, (forall x y, In x l -> In y l -> c1 x y = c2 x y) -> iselect c1 n l = iselect c2 n l).
Proof. exact (fun T => conj (@isort_contract T) (conj (@iselect_contract T) (conj (@isort_ext T) (@iselect_ext T)))). Qed.
Print Assumptions sort_oracle_instance.

(* ---- 5. rank.  rank_impl (sort, reverse when descending, the backwards windows(2) loop with its run counter) gives
   every slot the rank of the specification — nulls: the null count (nulls first) or the length; a valid value:
   the nulls before it plus the number of valid values not after it, ties sharing the highest rank — for any sorter
   meeting the sort contract, any total preorder on values and an equality test consistent with it. *)
Theorem rank_spec_holds :
  forall (so : (val * nat -> val * nat -> comparison) -> list (val * nat) -> list (val * nat)),
  (forall c l, tpo c -> Permutation (so c l) l /\ sortedb c (so c l) = true) ->
  forall (vc : val -> val -> comparison), tpo vc ->
  forall (veq : val -> val -> bool), (forall x y, veq x y = is_eq_c (vc x y)) ->
  forall (nf desc : bool) (a : list oval),
  rank_m so vc veq nf desc a = rank_spec vc nf desc a.
Proof. exact rank_m_spec. Qed.
Print Assumptions rank_spec_holds.

(* boolean_rank (null/true/false counts, the [false, true, null] table for the four option combinations, the index
   (is_null << 1) | (value & !is_null)) is the same specification on boolean columns *)
Theorem boolean_rank_spec_holds : forall (nf desc : bool) (a : list oval),
  Forall (fun o : oval => match o with None => True | Some v => v = VInt 0 \/ v = VInt 1 end) a ->
  boolean_rank nf desc a = rank_spec (vcmp false) nf desc a.
Proof. exact boolean_rank_spec. Qed.
Print Assumptions boolean_rank_spec_holds.

(* ranks embed the order: not-after implies rank <=, strictly before implies rank < — why sorting dictionaries and
   lists by the ranks of their values (sort_dictionary, sort_list, child_rank) is sorting by the comparator *)
Theorem rank_order_embedding : forall (vc : val -> val -> comparison) (desc : bool) (a : list oval) (u v : val),
  tpo vc ->
  (rev_if desc (vc u v) <> Gt -> count_le desc vc a u <= count_le desc vc a v) /\
  (In (Some v) a -> rev_if desc (vc u v) = Lt -> count_le desc vc a u < count_le desc vc a v).
Proof. exact (fun vc desc a u v H => conj (count_le_mono vc desc a u v H) (count_le_strict vc desc a u v H)). Qed.
Print Assumptions rank_order_embedding.

(* ---- 6. partition.  The ranges computed from the boundary mask start at row 0 and after every set bit, end at the
   next start / the row count; and partition(columns).ranges() is the specification: a new range starts exactly
   where a row differs from its predecessor in some column (null = null, null <> value). *)
Theorem partition_ranges_spec : forall b : list bool,
  map fst (ranges_some b) = 0 :: map (fun i => i + 1) (set_indices b) /\
  map snd (ranges_some b) = map (fun i => i + 1) (set_indices b) ++ [length b + 1].
Proof. exact ranges_some_spec. Qed.
Print Assumptions partition_ranges_spec.

Theorem partition_spec_holds : forall cols : list (list oval),
  (forall c c', In c cols -> In c' cols -> length c = length c') ->
  partition_m cols = partition_spec cols.
Proof. exact partition_m_spec. Qed.
Print Assumptions partition_spec_holds.

(* ---- 7. comparison kernels.  compare_op — its case analysis on the two (optional) null buffers and scalar flags,
   with the word formulas (l ^ r) | (l & r & ne), !(l | r) | (l & r & eq), !l | ne, l & eq taken bit by bit —
   returns per row what the comparator says: eq/neq/lt/lt_eq/gt/gt_eq are null when either side is null,
   distinct/not_distinct never are (null is not distinct from null), with scalar broadcasting on either side.
   [is_eq]/[is_lt] are the element tests of the physical type, consistent with the value order. *)
Theorem cmp_kernels_agree :
  forall (is_eq is_lt : val -> val -> bool) (ok : val -> Prop),
  (forall a b, ok a -> ok b -> is_eq a b = is_eq_c (vcmp false a b)) ->
  (forall a b, ok a -> ok b -> is_lt a b = is_lt_c (vcmp false a b)) ->
  forall (op : cop) (l_s r_s : bool) (l r : list oval),
  (forall i v, slot l i = Some v -> ok v) -> (forall i v, slot r i = Some v -> ok v) ->
  (l_s = true -> length l = 1) -> (r_s = true -> length r = 1) ->
  (l_s = false -> r_s = false -> length l = length r) ->
  compare_op is_eq is_lt op l_s r_s l r = Some (kernels_spec op l_s r_s l r).
Proof. exact compare_op_spec. Qed.
Print Assumptions cmp_kernels_agree.

(* the element tests run by the extracted kernel model (bit equality for floats, the view equality shortcuts, is_lt through
   the float key / view keys) meet the two hypotheses above on well-formed non-nested values *)
Theorem kernel_element_tests_ok : forall (ty : list Z) (a b : val),
  (wf_val a /\ match a with VList _ => False | _ => True end) ->
  (wf_val b /\ match b with VList _ => False | _ => True end) ->
  m_is_eq ty a b = is_eq_c (vcmp false a b) /\ m_is_lt ty a b = is_lt_c (vcmp false a b).
Proof. exact (fun ty a b Ha Hb => conj (m_is_eq_ok ty a b Ha Hb) (m_is_lt_ok ty a b Ha Hb)). Qed.
Print Assumptions kernel_element_tests_ok.

(* the value comparators run by the extracted sort model (float key, slice cmp, sort_bytes' prefix comparator, view keys)
   meet the hypothesis of sort_impl_sorted_perm on well-formed non-nested values, for any child null order *)
Theorem sort_value_cmp_ok : forall (ty : list Z) (cnf : bool) (a b : val),
  (wf_val a /\ match a with VList _ => False | _ => True end) ->
  (wf_val b /\ match b with VList _ => False | _ => True end) ->
  m_value_cmp ty a b = vcmp cnf a b.
Proof. exact m_value_cmp_ok. Qed.
Print Assumptions sort_value_cmp_ok.
