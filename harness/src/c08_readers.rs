// ---------------------------------------------------------------------------------------------
// The safe readers under test.  read_input(kind, bytes, aux) -> Ok(columns of all batches) | Err
// ---------------------------------------------------------------------------------------------
use crate::c01;
use crate::util::*;
use arrow_array::{Array, ArrayRef, RecordBatch};
use arrow_buffer::Buffer;
use arrow_schema::{DataType, Field, Fields, Schema, SchemaRef, TimeUnit};
use num_bigint::BigInt;
use std::io::Cursor;
use std::sync::Arc;

pub const OK: i64 = 0;
pub const ERR: i64 = 1;
pub const PANIC: i64 = 2;
pub const TIMEOUT: i64 = 3;
pub const ABORT: i64 = 4;

pub const K_IPC_FILE: i64 = 0;
pub const K_IPC_STREAM: i64 = 1;
pub const K_IPC_DECODER: i64 = 2;
pub const K_PQ_ARROW: i64 = 3;
pub const K_PQ_META: i64 = 4;
pub const K_PQ_FOOTER: i64 = 5;
pub const K_AVRO: i64 = 6;
pub const K_CSV: i64 = 7;
pub const K_JSON: i64 = 8;
pub const K_VARIANT: i64 = 9;
pub const K_FLIGHT: i64 = 10;
pub const K_PQ_ROWS: i64 = 11;
pub const KIND_NAMES: [&str; 12] = ["ipc_file", "ipc_stream", "ipc_decoder", "pq_arrow", "pq_meta", "pq_footer", "avro", "csv", "json", "variant", "flight", "pq_rows"];

fn cols(batches: Vec<RecordBatch>) -> Vec<ArrayRef> {
    batches.into_iter().flat_map(|b| b.columns().to_vec()).collect()
}

pub fn text_schema(id: i64) -> SchemaRef {
    let base = vec![
        Field::new("a", DataType::Int32, true),
        Field::new("b", DataType::Utf8, true),
        Field::new("c", DataType::Float64, true),
        Field::new("d", DataType::Boolean, true),
        Field::new("e", DataType::Timestamp(TimeUnit::Millisecond, None), true),
        Field::new("f", DataType::Decimal128(12, 3), true),
        Field::new("g", DataType::Date32, true),
    ];
    match id {
        0 => Arc::new(Schema::new(base)),
        1 => Arc::new(Schema::new(vec![
            Field::new("a", DataType::Int64, true),
            Field::new("b", DataType::Utf8View, true),
            Field::new("c", DataType::UInt8, false),
        ])),
        _ => {
            let mut f = base;
            f.push(Field::new("l", DataType::List(Arc::new(Field::new("item", DataType::Int32, true))), true));
            f.push(Field::new("s", DataType::Struct(Fields::from(vec![Field::new("x", DataType::Int16, true), Field::new("y", DataType::Utf8, true)])), true));
            f.push(Field::new("m", DataType::Map(Arc::new(Field::new("entries", DataType::Struct(Fields::from(vec![Field::new("keys", DataType::Utf8, false), Field::new("values", DataType::Int32, true)])), false)), false), true));
            Arc::new(Schema::new(f))
        }
    }
}

fn walk_variant(v: &parquet_variant::Variant, depth: usize, acc: &mut u64) {
    use parquet_variant::Variant as V;
    *acc = acc.wrapping_add(1);
    if depth > 200 { return }
    match v {
        V::Object(o) => {
            let n = o.len();
            for i in 0..n {
                if let Some(name) = o.field_name(i) { *acc = acc.wrapping_add(name.len() as u64); let _ = o.get(name); }
                if let Some(f) = o.field(i) { walk_variant(&f, depth + 1, acc) }
            }
            for (k, f) in o.iter() { *acc = acc.wrapping_add(k.len() as u64); walk_variant(&f, depth + 1, acc) }
        }
        V::List(l) => {
            for i in 0..l.len() { if let Some(e) = l.get(i) { walk_variant(&e, depth + 1, acc) } }
            for e in l.iter() { *acc = acc.wrapping_add(format!("{e:?}").len() as u64) }
            for e in l.iter_try() { if let Ok(e) = e { *acc = acc.wrapping_add(e.as_int8().is_some() as u64) } }
        }
        V::String(s) => *acc = acc.wrapping_add(s.len() as u64),
        V::ShortString(s) => *acc = acc.wrapping_add(s.as_str().len() as u64),
        V::Binary(b) => *acc = acc.wrapping_add(b.len() as u64),
        other => {
            let _ = (other.as_int64(), other.as_f64(), other.as_boolean(), other.as_decimal16(), other.as_naive_date(), other.as_uuid());
            *acc = acc.wrapping_add(format!("{other:?}").len() as u64)
        }
    }
}

/// container used for the Flight artefact: per FlightData  u32 header_len, header, u32 body_len, body
pub fn flight_split(bytes: &[u8]) -> Option<Vec<(Vec<u8>, Vec<u8>)>> {
    let mut p = 0; let mut out = Vec::new();
    while p < bytes.len() {
        let hl = u32::from_le_bytes(bytes.get(p..p + 4)?.try_into().ok()?) as usize; p += 4;
        let h = bytes.get(p..p + hl)?.to_vec(); p += hl;
        let bl = u32::from_le_bytes(bytes.get(p..p + 4)?.try_into().ok()?) as usize; p += 4;
        let b = bytes.get(p..p + bl)?.to_vec(); p += bl;
        out.push((h, b));
    }
    Some(out)
}

pub fn read_input(kind: i64, bytes: &[u8], aux: &[i64]) -> Result<Vec<ArrayRef>, ()> {
    let a0 = aux.first().copied().unwrap_or(0);
    match kind {
        K_IPC_FILE => {
            let proj = if a0 == 1 { Some(vec![0usize]) } else { None };
            let rd = arrow_ipc::reader::FileReader::try_new(Cursor::new(bytes), proj).map_err(|_| ())?;
            let mut out = Vec::new();
            for b in rd { out.push(b.map_err(|_| ())?) }
            Ok(cols(out))
        }
        K_IPC_STREAM => {
            let proj = if a0 == 1 { Some(vec![0usize]) } else { None };
            let rd = arrow_ipc::reader::StreamReader::try_new(Cursor::new(bytes), proj).map_err(|_| ())?;
            let mut out = Vec::new();
            for b in rd { out.push(b.map_err(|_| ())?) }
            Ok(cols(out))
        }
        K_IPC_DECODER => {
            let mut dec = arrow_ipc::reader::StreamDecoder::new();
            let buf = Buffer::from(bytes.to_vec());
            let chunk = if a0 <= 0 { bytes.len().max(1) } else { a0 as usize };
            let mut out = Vec::new();
            let mut pos = 0;
            while pos < buf.len() {
                let n = chunk.min(buf.len() - pos);
                let mut c = buf.slice_with_length(pos, n);
                pos += n;
                while !c.is_empty() {
                    if let Some(b) = dec.decode(&mut c).map_err(|_| ())? { out.push(b) }
                }
            }
            dec.finish().map_err(|_| ())?;
            Ok(cols(out))
        }
        K_PQ_ARROW => {
            use parquet::arrow::arrow_reader::{ArrowReaderOptions, ParquetRecordBatchReaderBuilder};
            let data = bytes::Bytes::from(bytes.to_vec());
            let opts = ArrowReaderOptions::new().with_page_index_policy(if a0 == 1 { parquet::file::metadata::PageIndexPolicy::Optional } else { parquet::file::metadata::PageIndexPolicy::Skip });
            let b = ParquetRecordBatchReaderBuilder::try_new_with_options(data, opts).map_err(|_| ())?;
            let rd = b.with_batch_size(if a0 == 1 { 3 } else { 1024 }).build().map_err(|_| ())?;
            let mut out = Vec::new();
            for b in rd { out.push(b.map_err(|_| ())?) }
            Ok(cols(out))
        }
        K_PQ_META => {
            use parquet::file::metadata::{PageIndexPolicy, ParquetMetaDataReader};
            let data = bytes::Bytes::from(bytes.to_vec());
            let pol = match a0 { 0 => PageIndexPolicy::Skip, 1 => PageIndexPolicy::Optional, _ => PageIndexPolicy::Required };
            let md = ParquetMetaDataReader::new().with_page_index_policy(pol).parse_and_finish(&data).map_err(|_| ())?;
            let _ = format!("{md:?}").len();
            Ok(vec![])
        }
        K_PQ_FOOTER => {
            let md = parquet::file::metadata::ParquetMetaDataReader::decode_metadata(bytes).map_err(|_| ())?;
            let _ = format!("{md:?}").len();
            Ok(vec![])
        }
        K_PQ_ROWS => {
            use parquet::file::reader::FileReader;
            let data = bytes::Bytes::from(bytes.to_vec());
            let rd = parquet::file::serialized_reader::SerializedFileReader::new(data).map_err(|_| ())?;
            let it = rd.get_row_iter(None).map_err(|_| ())?;
            let mut n = 0usize;
            for row in it { let r = row.map_err(|_| ())?; n += format!("{r:?}").len(); }
            let _ = n;
            Ok(vec![])
        }
        K_AVRO => {
            let rd = arrow_avro::reader::ReaderBuilder::new().with_batch_size(if a0 == 1 { 4 } else { 1024 }).with_utf8_view(a0 == 2)
                .build(Cursor::new(bytes)).map_err(|_| ())?;
            let mut out = Vec::new();
            for b in rd { out.push(b.map_err(|_| ())?) }
            Ok(cols(out))
        }
        K_CSV => {
            let rd = arrow_csv::ReaderBuilder::new(text_schema(a0)).with_header(true).with_batch_size(8).build(Cursor::new(bytes)).map_err(|_| ())?;
            let mut out = Vec::new();
            for b in rd { out.push(b.map_err(|_| ())?) }
            // schema inference on the same bytes must not panic either
            let _ = arrow_csv::reader::Format::default().with_header(true).infer_schema(Cursor::new(bytes), Some(100));
            Ok(cols(out))
        }
        K_JSON => {
            let rd = arrow_json::ReaderBuilder::new(text_schema(a0)).with_batch_size(8).build(Cursor::new(bytes)).map_err(|_| ())?;
            let mut out = Vec::new();
            for b in rd { out.push(b.map_err(|_| ())?) }
            let _ = arrow_json::reader::infer_json_schema(Cursor::new(bytes), Some(100));
            Ok(cols(out))
        }
        K_VARIANT => {
            let split = (a0.max(0) as usize).min(bytes.len());
            let (m, v) = bytes.split_at(split);
            let var = parquet_variant::Variant::try_new(m, v).map_err(|_| ())?;
            let mut acc = 0u64;
            walk_variant(&var, 0, &mut acc);
            // a fully validated variant must support the infallible accessors: Debug and PartialEq walk everything again
            acc = acc.wrapping_add(format!("{var:?}").len() as u64);
            acc = acc.wrapping_add((var == var.clone()) as u64);
            for name in var.metadata().iter() { acc = acc.wrapping_add(name.len() as u64) }
            let _ = acc;
            Ok(vec![])
        }
        K_FLIGHT => {
            let parts = flight_split(bytes).ok_or(())?;
            let fds: Vec<arrow_flight::FlightData> = parts.into_iter().map(|(h, b)| arrow_flight::FlightData { flight_descriptor: None, data_header: h.into(), app_metadata: Default::default(), data_body: b.into() }).collect();
            let out = arrow_flight::utils::flight_data_to_batches(&fds).map_err(|_| ())?;
            Ok(cols(out))
        }
        _ => Err(()),
    }
}
