//! C08 — untrusted bytes yield an error or valid data, never an invalid array.
//!
//! Structure-aware corruption of valid artefacts of every format (Arrow IPC file/stream, Flight,
//! Parquet, Avro OCF, CSV, JSON, Variant) run through the safe readers.  Every corrupted input is
//! executed in a WORKER CHILD PROCESS (this binary re-invoked with `replay <file>` under
//! `ulimit -v`), inside the child in a watchdog thread under catch_unwind, so that panics, hangs,
//! aborts and runaway allocations of the implementation are observed as outcomes instead of
//! killing the harness.   Outcome codes: 0 Ok | 1 Err | 2 Panic | 3 Timeout | 4 Abort.
//!
//! impl ops (all pure functions of their args; the parent memoises child results):
//!   c08.outcome  [[kind],[bytes],[aux]]        -> [[code],[ncols],[panic location bytes]]
//!   c08.column   [[kind],[bytes],[aux],[i]]    -> c01 physical dump of the i-th returned column (skip if not Ok)
//!   c08.thrift_meta   [[bytes]]  -> ParquetMetaDataReader::decode_metadata_with_options (schema supplied)
//!   c08.schema_probe  [[bytes]]  -> ParquetMetaDataReader::decode_schema
//!   c08.avro_longs    [[bytes after the OCF header]] -> values of the single long column
//!   c08.ipc_batch     [[schema code],[nodes],[buffers],[body len]] -> arrow_ipc::reader::read_record_batch
include!("c08_readers.rs");
include!("c08_worker.rs");
include!("c08_artefacts.rs");
include!("c08_mutate.rs");
include!("c08_probes.rs");
include!("c08_gen.rs");
include!("c08_gen2.rs");
include!("c08_struct.rs");
