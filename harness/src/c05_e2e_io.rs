// (included into c05_e2e.rs) writer configuration, writing, reading back, level observation, generators

use parquet::arrow::arrow_reader::ParquetRecordBatchReaderBuilder;
use parquet::arrow::arrow_writer::{compute_leaves, ArrowColumnChunk, ArrowLeafColumn, ArrowWriterOptions};
use parquet::arrow::{ArrowSchemaConverter, ArrowWriter};
use parquet::basic::{BrotliLevel, Compression, Encoding, GzipLevel, Type as PhysicalType, ZstdLevel};
use parquet::column::reader::ColumnReader;
use parquet::file::properties::{CdcOptions, EnabledStatistics, WriterProperties, WriterVersion};
use parquet::file::reader::{FileReader, SerializedFileReader};
use parquet::schema::types::ColumnPath;

// config group layout
pub const C_VERSION: usize = 0; pub const C_COMPRESSION: usize = 1; pub const C_DICT: usize = 2; pub const C_DICT_LIMIT: usize = 3;
pub const C_PAGE_ROWS: usize = 4; pub const C_PAGE_BYTES: usize = 5; pub const C_BATCH: usize = 6; pub const C_RG_ROWS: usize = 7;
pub const C_STATS: usize = 8; pub const C_BLOOM: usize = 9; pub const C_CDC: usize = 10; pub const C_ENC_SEED: usize = 11;
pub const C_READ_BATCH: usize = 12; pub const C_MODE: usize = 13; pub const C_ORDER_SEED: usize = 14; pub const C_LAYOUT_SEED: usize = 15;
pub const C_RG_BYTES: usize = 16; pub const C_FLAGS: usize = 17; pub const C_LEN: usize = 18;

const CDC_PRESETS: [(usize, usize, i32); 4] = [(16, 144, 0), (1, 64, 0), (64, 1024, 1), (256, 4096, 2)];

fn compression_of(id: i64) -> Compression {
    match id {
        1 => Compression::SNAPPY,
        2 => Compression::ZSTD(ZstdLevel::try_new(1).unwrap()),
        3 => Compression::LZ4_RAW,
        4 => Compression::GZIP(GzipLevel::try_new(6).unwrap()),
        5 => Compression::BROTLI(BrotliLevel::try_new(1).unwrap()),
        6 => Compression::LZ4,
        7 => Compression::ZSTD(ZstdLevel::try_new(5).unwrap()),
        _ => Compression::UNCOMPRESSED,
    }
}

fn legal_encodings(pt: PhysicalType) -> &'static [Encoding] {
    match pt {
        PhysicalType::BOOLEAN => &[Encoding::PLAIN, Encoding::RLE],
        PhysicalType::INT32 | PhysicalType::INT64 => &[Encoding::PLAIN, Encoding::DELTA_BINARY_PACKED, Encoding::BYTE_STREAM_SPLIT],
        PhysicalType::FLOAT | PhysicalType::DOUBLE => &[Encoding::PLAIN, Encoding::BYTE_STREAM_SPLIT],
        PhysicalType::BYTE_ARRAY => &[Encoding::PLAIN, Encoding::DELTA_LENGTH_BYTE_ARRAY, Encoding::DELTA_BYTE_ARRAY],
        PhysicalType::FIXED_LEN_BYTE_ARRAY => &[Encoding::PLAIN, Encoding::DELTA_BYTE_ARRAY, Encoding::BYTE_STREAM_SPLIT],
        _ => &[Encoding::PLAIN],
    }
}

pub fn writer_props(cfg: &[i64], schema: &Schema) -> WriterProperties {
    let mut b = WriterProperties::builder()
        .set_writer_version(if cfg[C_VERSION] == 2 { WriterVersion::PARQUET_2_0 } else { WriterVersion::PARQUET_1_0 })
        .set_compression(compression_of(cfg[C_COMPRESSION]))
        .set_dictionary_enabled(cfg[C_DICT] != 0)
        .set_statistics_enabled(match cfg[C_STATS] { 0 => EnabledStatistics::None, 1 => EnabledStatistics::Chunk, _ => EnabledStatistics::Page })
        .set_bloom_filter_enabled(cfg[C_BLOOM] != 0);
    if cfg[C_BLOOM] == 2 { b = b.set_bloom_filter_max_ndv(16); }
    if cfg[C_DICT_LIMIT] > 0 { b = b.set_dictionary_page_size_limit(cfg[C_DICT_LIMIT] as usize); }
    if cfg[C_PAGE_ROWS] > 0 { b = b.set_data_page_row_count_limit(cfg[C_PAGE_ROWS] as usize); }
    if cfg[C_PAGE_BYTES] > 0 { b = b.set_data_page_size_limit(cfg[C_PAGE_BYTES] as usize); }
    if cfg[C_BATCH] > 0 { b = b.set_write_batch_size(cfg[C_BATCH] as usize); }
    if cfg[C_RG_ROWS] > 0 { b = b.set_max_row_group_row_count(Some(cfg[C_RG_ROWS] as usize)); }
    if cfg[C_RG_BYTES] > 0 { b = b.set_max_row_group_bytes(Some(cfg[C_RG_BYTES] as usize)); }
    if cfg[C_CDC] > 0 {
        let (mn, mx, nl) = CDC_PRESETS[(cfg[C_CDC] as usize - 1) % CDC_PRESETS.len()];
        b = b.set_content_defined_chunking(Some(CdcOptions { min_chunk_size: mn, max_chunk_size: mx, norm_level: nl }));
    }
    let fl = cfg[C_FLAGS];
    if fl & 1 != 0 { b = b.set_offset_index_disabled(true); }
    if fl & 2 != 0 { b = b.set_write_page_header_statistics(true); }
    if fl & 4 != 0 { b = b.set_statistics_truncate_length(Some(1)).set_column_index_truncate_length(Some(1)); }
    if fl & 8 != 0 { b = b.set_statistics_truncate_length(None).set_column_index_truncate_length(None); }
    if fl & 16 != 0 { b = b.set_data_page_v2_compression_ratio_threshold(0.5); }
    if fl & 32 != 0 { b = b.set_write_row_group_number_distinct_values(true); }
    // KNOWN-FINDING candidate: with content-defined chunking the writer forces a page break after every chunk
    // (ArrowColumnWriter::write_with_chunker -> add_data_page) even when the page is empty; for a BOOLEAN column
    // encoded with RLE (the writer-version-2 default) flushing an encoder that never saw `put` panics with
    // "RLE value encoder is not initialized".  Boolean leaves are therefore pinned to PLAIN whenever CDC is on.
    // (flag bit 64 is never generated; it switches the exclusion off so that the witness can be replayed by hand)
    let cdc_on = cfg[C_CDC] > 0 && fl & 64 == 0;
    if cdc_on {
        if let Ok(sd) = ArrowSchemaConverter::new().convert(schema) {
            for col in sd.columns() { if col.physical_type() == PhysicalType::BOOLEAN { b = b.set_column_encoding(col.path().clone(), Encoding::PLAIN); } }
        }
    }
    if cfg[C_ENC_SEED] != 0 {
        // per-leaf choices (encoding, dictionary, compression) from the parquet schema of this arrow schema
        let mut r = Rng::new(cfg[C_ENC_SEED] as u64);
        if let Ok(sd) = ArrowSchemaConverter::new().convert(schema) {
            for col in sd.columns() {
                let path: ColumnPath = col.path().clone();
                let encs = legal_encodings(col.physical_type());
                if r.chance(3, 4) { let e = *r.pick(encs); if !(cdc_on && col.physical_type() == PhysicalType::BOOLEAN) { b = b.set_column_encoding(path.clone(), e); } }
                if r.chance(1, 3) { b = b.set_column_dictionary_enabled(path.clone(), r.bool()); }
                if r.chance(1, 5) { b = b.set_column_compression(path.clone(), compression_of(r.below(8) as i64)); }
                if r.chance(1, 5) { b = b.set_column_dictionary_page_size_limit(path.clone(), 1 + r.below(200)); }
                if r.chance(1, 6) { b = b.set_column_bloom_filter_enabled(path.clone(), r.bool()); }
                if r.chance(1, 6) { b = b.set_column_statistics_enabled(path.clone(), *r.pick(&[EnabledStatistics::None, EnabledStatistics::Chunk, EnabledStatistics::Page])); }
            }
        }
    }
    b.build()
}

fn io_err<T, E: std::fmt::Debug>(x: std::result::Result<T, E>) -> std::result::Result<T, i64> {
    x.map_err(|e| { if std::env::var_os("C05_DEBUG").is_some() { eprintln!("ERR {e:?}"); } E_IO })
}

/// serial path: ArrowWriter::write per partition element, flush() on 0
fn write_serial(schema: &SchemaRef, batch: &RecordBatch, parts: &[usize], props: WriterProperties) -> std::result::Result<Vec<u8>, i64> {
    let mut out = Vec::new();
    let opts = ArrowWriterOptions::new().with_properties(props);
    let mut w = io_err(ArrowWriter::try_new_with_options(&mut out, schema.clone(), opts))?;
    let mut pos = 0;
    for &p in parts {
        if p == 0 { io_err(w.flush())?; continue; }
        let k = p.min(batch.num_rows() - pos);
        io_err(w.write(&batch.slice(pos, k)))?;
        pos += k;
    }
    if pos < batch.num_rows() { io_err(w.write(&batch.slice(pos, batch.num_rows() - pos)))?; }
    io_err(w.close())?;
    Ok(out)
}

/// parallel path: one thread per leaf column writer, `write` calls per partition element, the threads
/// close their writers in the order of a seeded permutation; 0 in the partition closes the row group.
fn write_parallel(schema: &SchemaRef, batch: &RecordBatch, parts: &[usize], props: WriterProperties, order_seed: u64) -> std::result::Result<Vec<u8>, i64> {
    use std::sync::atomic::{AtomicUsize, Ordering};
    let mut out = Vec::new();
    let opts = ArrowWriterOptions::new().with_properties(props);
    let w = io_err(ArrowWriter::try_new_with_options(&mut out, schema.clone(), opts))?;
    let (mut fw, factory) = io_err(w.into_serialized_writer())?;
    // row groups: split the partition at the 0 markers
    let mut groups: Vec<Vec<usize>> = vec![vec![]];
    for &p in parts { if p == 0 { if !groups.last().unwrap().is_empty() { groups.push(vec![]); } } else { groups.last_mut().unwrap().push(p); } }
    let mut pos = 0usize;
    let total = batch.num_rows();
    let mut rng = Rng::new(order_seed);
    let ngroups = groups.len();
    for (gi, g) in groups.iter().enumerate() {
        let mut g = g.clone();
        if gi + 1 == ngroups { let used: usize = g.iter().sum(); if pos + used < total { g.push(total - pos - used); } }
        let mut slices: Vec<RecordBatch> = Vec::new();
        for p in g { let k = p.min(total - pos); if k > 0 { slices.push(batch.slice(pos, k)); pos += k; } }
        if slices.is_empty() { continue; }
        let writers = io_err(factory.create_column_writers(fw.flushed_row_groups().len()))?;
        let n = writers.len();
        // completion order: a seeded permutation; rank[i] = position of writer i in the closing order
        let mut perm: Vec<usize> = (0..n).collect();
        for i in (1..n).rev() { let j = rng.below(i + 1); perm.swap(i, j); }
        let mut rank = vec![0usize; n];
        for (pos_in_order, &wi) in perm.iter().enumerate() { rank[wi] = pos_in_order; }
        let turn = Arc::new(AtomicUsize::new(0));
        let mut workers = Vec::new();
        for (wi, mut cw) in writers.into_iter().enumerate() {
            let (send, recv) = std::sync::mpsc::channel::<ArrowLeafColumn>();
            let turn = turn.clone();
            let my = rank[wi];
            let handle = std::thread::spawn(move || -> std::result::Result<ArrowColumnChunk, i64> {
                // takes this worker's place in the closing order even if the writer panics, so that nobody waits forever
                struct Turn { turn: Arc<AtomicUsize>, my: usize, waited: bool }
                impl Turn { fn wait(&mut self) { while self.turn.load(Ordering::Acquire) != self.my { std::thread::yield_now(); } self.waited = true; } }
                impl Drop for Turn { fn drop(&mut self) { if !self.waited { self.wait(); } self.turn.fetch_add(1, Ordering::AcqRel); } }
                let mut t = Turn { turn, my, waited: false };
                let mut res: std::result::Result<(), i64> = Ok(());
                for col in recv { if res.is_ok() { res = cw.write(&col).map_err(|_| E_IO); } }
                t.wait();
                let c = cw.close().map_err(|_| E_IO);
                drop(t);
                res?;
                c
            });
            workers.push((handle, send));
        }
        let mut fail = None;
        for s in &slices {
            let mut it = workers.iter();
            for (arr, field) in s.columns().iter().zip(schema.fields()) {
                match compute_leaves(field, arr) {
                    Ok(leaves) => for leaf in leaves { let _ = it.next().unwrap().1.send(leaf); },
                    Err(_) => { fail = Some(E_IO); }
                }
            }
        }
        let mut rg = io_err(fw.next_row_group())?;
        let mut chunks = Vec::new();
        let (handles, senders): (Vec<_>, Vec<_>) = workers.into_iter().unzip();
        drop(senders);   // all inputs complete before any join: the closing order is the permutation, not the join order
        for handle in handles { chunks.push(handle.join().map_err(|_| E_PANIC)); }
        if let Some(k) = fail { return Err(k); }
        for c in chunks { io_err(c??.append_to_row_group(&mut rg))?; }
        io_err(rg.close())?;
    }
    io_err(fw.close())?;
    Ok(out)
}

fn read_back(file: Vec<u8>, batch_size: usize) -> std::result::Result<(SchemaRef, Vec<RecordBatch>), i64> {
    let b = io_err(ParquetRecordBatchReaderBuilder::try_new(Bytes::from(file)))?.with_batch_size(batch_size);
    let schema = b.schema().clone();
    let rd = io_err(b.build())?;
    let mut v = Vec::new();
    for x in rd { v.push(io_err(x)?); }
    Ok((schema, v))
}

fn bigs(v: &[i64]) -> Group { v.iter().map(|x| BigInt::from(*x)).collect() }

fn build_batch(schema: &SchemaRef, cols: &[Vec<Val>], layout: &mut Rng) -> RecordBatch {
    let arrays: Vec<ArrayRef> = schema.fields().iter().zip(cols).map(|(f, v)| build_column(f, v, layout)).collect();
    let n = cols.first().map(|c| c.len()).unwrap_or(0);
    RecordBatch::try_new_with_options(schema.clone(), arrays, &RecordBatchOptions::new().with_row_count(Some(n))).expect("batch")
}

fn parse_content(schema: &Schema, nrows: usize, t: &[BigInt]) -> Vec<Vec<Val>> {
    let mut p = 0;
    schema.fields().iter().map(|f| (0..nrows).map(|_| parse_val(f.data_type(), t, &mut p)).collect()).collect()
}

/// c05.roundtrip : [config] [partition] [schema as read back] [nrows, content..] [schema as written, when different] -> [schema] [nrows, content..]
pub fn run_roundtrip(a: &Args) -> Option<Args> {
    let cfg = to_i64s(&a[0]);
    let parts: Vec<usize> = to_i64s(&a[1]).iter().map(|x| *x as usize).collect();
    let schema: SchemaRef = Arc::new(dec_schema(&to_i64s(if a.len() > 4 && !a[4].is_empty() { &a[4] } else { &a[2] })));
    let nrows = usize::try_from(&a[3][0]).unwrap();
    let cols = parse_content(&schema, nrows, &a[3][1..]);
    let mut layout = Rng::new(cfg[C_LAYOUT_SEED] as u64);
    LISTVIEW_ASCENDING.with(|c| c.set(cfg[C_CDC] > 0 && cfg[C_FLAGS] & 64 == 0));
    let batch = build_batch(&schema, &cols, &mut layout);
    // harness self-check: the arrays built denote the logical input
    {
        let mut chk: Vec<BigInt> = vec![nrows.into()];
        for c in batch.columns() { for i in 0..nrows { enc_row(c.as_ref(), i, &mut chk); } }
        assert!(chk == a[3], "harness: built arrays do not denote the input");
    }
    let props = writer_props(&cfg, &schema);
    let file = if cfg[C_MODE] == 0 { write_serial(&schema, &batch, &parts, props) } else { write_parallel(&schema, &batch, &parts, props, cfg[C_ORDER_SEED] as u64) };
    let file = match file { Ok(f) => f, Err(k) => return Some(err(k)) };
    let (rs, batches) = match read_back(file, cfg[C_READ_BATCH].max(1) as usize) { Ok(x) => x, Err(k) => return Some(err(k)) };
    let total: usize = batches.iter().map(|b| b.num_rows()).sum();
    let mut content: Vec<BigInt> = vec![total.into()];
    for ci in 0..rs.fields().len() {
        for b in &batches { let c = b.column(ci); for i in 0..c.len() { enc_row(c.as_ref(), i, &mut content); } }
    }
    Some(vec![bigs(&enc_schema(&rs)), content])
}

// ------------------------------------------------------------------------------------------ levels
// c05.levels / c05.assemble : [path: 0 Req 1 Opt 2 Rep] [tokens] [layout: seed, kinds of the Rep nodes.., cfg..]
//   path -> arrow type: leaf Int64; Opt/Req set the nullability of the next node; Rep = List | LargeList | FixedSizeList | Map | ListView | LargeListView
//   (a Req or Opt that is followed by neither Rep nor the leaf is a struct with one observed child, plus optional siblings)
fn levels_field(path: &[i64], kinds: &[i64], ki: &mut usize, depth: usize, fsl: &[i64], r: &mut Rng) -> Field {
    // consume the nullability marker of this node
    let (nullable, rest) = match path.first() { Some(1) => (true, &path[1..]), Some(0) => (false, &path[1..]), _ => (false, path) };
    let name = format!("n{depth}");
    match rest.first() {
        None => Field::new(name, DataType::Int64, nullable),
        Some(2) => {
            let kind = kinds[*ki]; let size = fsl[*ki]; *ki += 1;
            let child = levels_field(&rest[1..], kinds, ki, depth + 1, fsl, r);
            match kind {
                0 => Field::new(name, DataType::List(Arc::new(child.with_name("item"))), nullable),
                1 => Field::new(name, DataType::LargeList(Arc::new(child.with_name("element"))), nullable),
                2 => Field::new(name, DataType::FixedSizeList(Arc::new(child.with_name("item")), size as i32), nullable),
                4 => Field::new(name, DataType::ListView(Arc::new(child.with_name("item"))), nullable),
                5 => Field::new(name, DataType::LargeListView(Arc::new(child.with_name("item"))), nullable),
                _ => {
                    let entries = Field::new("entries", DataType::Struct(Fields::from(vec![Field::new("keys", DataType::Int32, false), child.with_name("values")])), false);
                    Field::new(name, DataType::Map(Arc::new(entries), false), nullable)
                }
            }
        }
        Some(_) => { // struct wrapping the rest of the path; siblings before/after the observed child
            let child = levels_field(rest, kinds, ki, depth + 1, fsl, r);
            let mut fs = Vec::new();
            if r.chance(1, 3) { fs.push(Field::new("sib_a", DataType::Int32, true)); }
            fs.push(child);
            if r.chance(1, 3) { fs.push(Field::new("sib_b", DataType::List(Arc::new(Field::new("item", DataType::Utf8, true))), true)); }
            Field::new(name, DataType::Struct(Fields::from(fs)), nullable)
        }
    }
}

/// tokens of one value following the model's `parse` -> Val following the arrow type of levels_field
fn tokens_to_val(f: &Field, path: &[i64], t: &[i64], p: &mut usize, r: &mut Rng) -> Val {
    let rest = match path.first() {
        Some(1) => { let flag = t[*p]; *p += 1; if flag == 0 { return Val::Null; } &path[1..] }
        Some(0) => &path[1..],
        _ => path,
    };
    match (f.data_type(), rest.first()) {
        (DataType::Int64, None) => { let v = t[*p]; *p += 1; Val::Int(v.into()) }
        (DataType::List(c), Some(2)) | (DataType::LargeList(c), Some(2)) | (DataType::FixedSizeList(c, _), Some(2))
        | (DataType::ListView(c), Some(2)) | (DataType::LargeListView(c), Some(2)) => {
            let n = t[*p] as usize; *p += 1;
            Val::List((0..n).map(|_| tokens_to_val(c, &rest[1..], t, p, r)).collect())
        }
        (DataType::Map(e, _), Some(2)) => {
            let n = t[*p] as usize; *p += 1;
            let vf = match e.data_type() { DataType::Struct(fs) => fs[1].clone(), _ => unreachable!() };
            Val::List((0..n).map(|_| Val::Struct(vec![Val::Int((r.next() as i32).into()), tokens_to_val(&vf, &rest[1..], t, p, r)])).collect())
        }
        (DataType::Struct(fs), _) => {
            Val::Struct(fs.iter().map(|c| if c.name().starts_with("sib_") { gen_val(c.data_type(), true, r, 30) } else { tokens_to_val(c, rest, t, p, r) }).collect())
        }
        _ => panic!("levels: path/type mismatch"),
    }
}

/// Arrow reader output -> tokens (inverse of tokens_to_val, ignoring siblings and map keys)
fn val_tokens(arr: &dyn Array, i: usize, path: &[i64], out: &mut Vec<i64>) {
    let rest = match path.first() {
        Some(1) => { if arr.is_null(i) { out.push(0); return; } out.push(1); &path[1..] }
        Some(0) => &path[1..],
        _ => path,
    };
    match arr.data_type() {
        DataType::Int64 => out.push(arr.as_primitive::<Int64Type>().value(i)),
        DataType::List(_) => { let l = arr.as_list::<i32>().value(i); out.push(l.len() as i64); for j in 0..l.len() { val_tokens(l.as_ref(), j, &rest[1..], out); } }
        DataType::LargeList(_) => { let l = arr.as_list::<i64>().value(i); out.push(l.len() as i64); for j in 0..l.len() { val_tokens(l.as_ref(), j, &rest[1..], out); } }
        DataType::FixedSizeList(_, _) => { let l = arr.as_fixed_size_list().value(i); out.push(l.len() as i64); for j in 0..l.len() { val_tokens(l.as_ref(), j, &rest[1..], out); } }
        DataType::ListView(_) => { let l = arr.as_list_view::<i32>().value(i); out.push(l.len() as i64); for j in 0..l.len() { val_tokens(l.as_ref(), j, &rest[1..], out); } }
        DataType::LargeListView(_) => { let l = arr.as_list_view::<i64>().value(i); out.push(l.len() as i64); for j in 0..l.len() { val_tokens(l.as_ref(), j, &rest[1..], out); } }
        DataType::Map(_, _) => { let l = arr.as_map().value(i); out.push(l.len() as i64); for j in 0..l.len() { val_tokens(l.column(1).as_ref(), j, &rest[1..], out); } }
        DataType::Struct(_) => { let s = arr.as_struct(); let c = s.columns().iter().zip(s.fields()).find(|(_, f)| !f.name().starts_with("sib_")).unwrap().0; val_tokens(c.as_ref(), i, rest, out); }
        _ => out.push(-999),
    }
}

pub fn run_levels(op: &str, a: &Args) -> Option<Args> {
    let path = to_i64s(&a[0]);
    let toks = to_i64s(&a[1]);
    let lay = to_i64s(&a[2]);
    // layout group: [seed, nrep, kinds.., fsl sizes.., cfg (C_LEN entries)]
    let nrep = lay[1] as usize;
    let kinds = &lay[2..2 + nrep]; let fsl = &lay[2 + nrep..2 + 2 * nrep];
    let cfg = &lay[2 + 2 * nrep..];
    let mut r = Rng::new(lay[0] as u64);
    let mut ki = 0;
    let field = levels_field(&path, kinds, &mut ki, 0, fsl, &mut r);
    let mut extra = Vec::new();
    if r.chance(1, 3) { extra.push(Field::new("other", DataType::Utf8, true)); }
    let mut fields = extra.clone(); fields.push(field.clone());
    let schema: SchemaRef = Arc::new(Schema::new(fields));
    let mut vals = Vec::new(); let mut p = 0;
    while p < toks.len() { vals.push(tokens_to_val(&field, &path, &toks, &mut p, &mut r)); }
    let mut cols: Vec<Vec<Val>> = Vec::new();
    for f in &extra { cols.push((0..vals.len()).map(|_| gen_val(f.data_type(), true, &mut r, 30)).collect()); }
    cols.push(vals);
    LISTVIEW_ASCENDING.with(|c| c.set(cfg[C_CDC] > 0 && cfg[C_FLAGS] & 64 == 0));
    let batch = build_batch(&schema, &cols, &mut r);
    let props = writer_props(cfg, &schema);
    let n = batch.num_rows();
    let mut parts = Vec::new(); let mut left = n;
    while left > 0 && parts.len() < 6 { let k = 1 + r.below(left); parts.push(k); left -= k; if r.chance(1, 5) { parts.push(0); } }
    let file = match write_serial(&schema, &batch, &parts, props) { Ok(f) => f, Err(k) => return Some(err(k)) };
    if op == "c05.assemble" {
        let (_, batches) = match read_back(file, cfg[C_READ_BATCH].max(1) as usize) { Ok(x) => x, Err(k) => return Some(err(k)) };
        let mut out = Vec::new();
        for b in &batches { let c = b.column(b.num_columns() - 1); for i in 0..c.len() { val_tokens(c.as_ref(), i, &path, &mut out); } }
        return Some(vec![bigs(&out)]);
    }
    // low-level: levels and values of the observed leaf (the Int64 leaf under the last top-level field)
    let rd = match SerializedFileReader::new(Bytes::from(file)) { Ok(x) => x, Err(_) => return Some(err(E_IO)) };
    let md = rd.metadata();
    let sd = md.file_metadata().schema_descr();
    let leaf = (0..sd.num_columns()).rev().find(|&i| sd.column(i).physical_type() == PhysicalType::INT64 && !sd.column(i).path().string().contains("sib_")).expect("leaf");
    let max_def = sd.column(leaf).max_def_level(); let max_rep = sd.column(leaf).max_rep_level();
    let (mut defs, mut reps, mut values): (Vec<i16>, Vec<i16>, Vec<i64>) = (vec![], vec![], vec![]);
    let chunk = 1 + (lay[0] as usize % 7) * 13;
    for g in 0..md.num_row_groups() {
        let rg = match rd.get_row_group(g) { Ok(x) => x, Err(_) => return Some(err(E_IO)) };
        let cr = match rg.get_column_reader(leaf) { Ok(x) => x, Err(_) => return Some(err(E_IO)) };
        if let ColumnReader::Int64ColumnReader(mut c) = cr {
            // a zero-value data page makes read_records return early (has_next() is false on it): keep asking
            // until the row group's row count is reached
            let want = rg.metadata().num_rows() as usize;
            let (mut got, mut idle) = (0usize, 0usize);
            while got < want && idle < 1000 {
                let res = c.read_records(chunk.min(want - got), if max_def > 0 { Some(&mut defs) } else { None }, if max_rep > 0 { Some(&mut reps) } else { None }, &mut values);
                match res { Ok((recs, _, _)) => { got += recs; if recs == 0 { idle += 1 } else { idle = 0 } } Err(_) => return Some(err(E_IO)) }
            }
        } else { return Some(err(E_INVALID)); }
    }
    let nlev = if max_def > 0 { defs.len() } else if max_rep > 0 { reps.len() } else { values.len() };
    if max_def == 0 { defs = vec![0; nlev]; }
    if max_rep == 0 { reps = vec![0; nlev]; }
    Some(vec![gs(&defs), gs(&reps), gs(&values)])
}

include!("c05_e2e_gen.rs");
