//! C20 — string predicates and functions: implementation runs (the real arrow_string kernels on
//! Utf8 / LargeUtf8 / Utf8View / Dictionary inputs, with nulls, hidden bytes under nulls, sliced
//! arrays) and case generators.  Row results: 0 false, 1 true, 2 null, 3 masked (ILIKE row with a
//! non-ASCII pattern or haystack: not determined by the ASCII-folding spec).
use crate::util::*;
use arrow_array::builder::StringViewBuilder;
use arrow_array::cast::AsArray;
use arrow_array::types::{Int16Type, Int32Type, Int64Type};
use arrow_array::*;
use arrow_buffer::{Buffer, NullBuffer, OffsetBuffer, ScalarBuffer};
use arrow_schema::DataType;
use arrow_string::concat_elements::{concat_elements_dyn, concat_elements_string_view_array, concat_elements_utf8, concat_elements_utf8_many};
use arrow_string::length::{bit_length, length};
use arrow_string::like::{contains, ends_with, ilike, like, nilike, nlike, starts_with};
use arrow_string::regexp::{regexp_is_match, regexp_is_match_scalar};
use arrow_string::substring::{substring, substring_by_char};
use num_bigint::BigInt;
use std::sync::Arc;

const NLAYOUTS: usize = 5;
type Rows<'a> = (&'a [Vec<u8>], &'a [bool]);

fn s(b: &[u8]) -> &str { std::str::from_utf8(b).expect("generator produced invalid UTF-8") }

/// Padding rows put before / after the addressed rows; the array is then sliced (non-zero offsets,
/// data before the first offset).
const PAD_PRE: [&str; 2] = ["é", "%_\\"];
const PAD_POST: [&str; 1] = ["😀a"];

fn byte_array<O: OffsetSizeTrait>(vals: &[Vec<u8>], valid: &[bool]) -> ArrayRef {
    let mut data: Vec<u8> = Vec::new();
    let mut offs: Vec<O> = vec![O::usize_as(0)];
    let mut nulls: Vec<bool> = Vec::new();
    for p in PAD_PRE { data.extend_from_slice(p.as_bytes()); offs.push(O::usize_as(data.len())); nulls.push(true); }
    for (v, ok) in vals.iter().zip(valid) { data.extend_from_slice(v); offs.push(O::usize_as(data.len())); nulls.push(*ok); }
    for p in PAD_POST { data.extend_from_slice(p.as_bytes()); offs.push(O::usize_as(data.len())); nulls.push(false); }
    let a = GenericStringArray::<O>::new(OffsetBuffer::new(ScalarBuffer::from(offs)), Buffer::from(data), Some(NullBuffer::from(nulls)));
    Arc::new(a.slice(PAD_PRE.len(), vals.len()))
}
fn view_array(vals: &[Vec<u8>], valid: &[bool]) -> ArrayRef {
    // small blocks: long strings are spread over several data buffers
    let mut b = StringViewBuilder::new().with_fixed_block_size(40);
    let mut nulls: Vec<bool> = Vec::new();
    for p in PAD_PRE { b.append_value(p); nulls.push(true); }
    for (v, ok) in vals.iter().zip(valid) { b.append_value(s(v)); nulls.push(*ok); }
    for p in PAD_POST { b.append_value(p); nulls.push(false); }
    let (views, buffers, _) = b.finish().into_parts();
    let a = StringViewArray::new(views, buffers, Some(NullBuffer::from(nulls)));
    Arc::new(a.slice(PAD_PRE.len(), vals.len()))
}
/// Dictionary: values = the distinct strings of the valid rows (first-occurrence order) followed by a
/// null value; null rows alternate between a null key (garbage key underneath) and a key pointing at the
/// null value.  `extra`: additionally an unused non-ASCII value in front.
fn dict_array(vals: &[Vec<u8>], valid: &[bool], view_values: bool, extra: bool) -> ArrayRef {
    let mut distinct: Vec<Vec<u8>> = Vec::new();
    let mut index: std::collections::HashMap<Vec<u8>, usize> = std::collections::HashMap::new();
    if extra { distinct.push("é%".as_bytes().to_vec()); }
    let mut keys: Vec<Option<usize>> = Vec::new();
    for (v, ok) in vals.iter().zip(valid) {
        if *ok {
            let k = *index.entry(v.clone()).or_insert_with(|| { distinct.push(v.clone()); distinct.len() - 1 });
            keys.push(Some(k));
        } else { keys.push(None); }
    }
    let nullslot = distinct.len();
    distinct.push(Vec::new());
    let mut dvalid = vec![true; distinct.len()];
    dvalid[nullslot] = false;
    let values: ArrayRef = if view_values {
        let mut b = StringViewBuilder::new().with_fixed_block_size(40);
        for d in &distinct { b.append_value(s(d)); }
        let (views, buffers, _) = b.finish().into_parts();
        Arc::new(StringViewArray::new(views, buffers, Some(NullBuffer::from(dvalid))))
    } else {
        let mut data: Vec<u8> = Vec::new();
        let mut offs: Vec<i32> = vec![0];
        for d in &distinct { data.extend_from_slice(d); offs.push(data.len() as i32); }
        Arc::new(StringArray::new(OffsetBuffer::new(ScalarBuffer::from(offs)), Buffer::from(data), Some(NullBuffer::from(dvalid))))
    };
    // keys with one padding key in front, sliced away
    let mut kv: Vec<i64> = vec![0];
    let mut kn: Vec<bool> = vec![true];
    for (i, k) in keys.iter().enumerate() {
        match k {
            Some(k) => { kv.push(*k as i64); kn.push(true); }
            None => if i % 2 == 0 { kv.push(0); kn.push(false); } else { kv.push(nullslot as i64); kn.push(true); }
        }
    }
    if view_values {
        let k = Int16Array::new(ScalarBuffer::from(kv.iter().map(|x| *x as i16).collect::<Vec<_>>()), Some(NullBuffer::from(kn)));
        Arc::new(DictionaryArray::<Int16Type>::new(k, values).slice(1, vals.len()))
    } else {
        let k = Int32Array::new(ScalarBuffer::from(kv.iter().map(|x| *x as i32).collect::<Vec<_>>()), Some(NullBuffer::from(kn)));
        Arc::new(DictionaryArray::<Int32Type>::new(k, values).slice(1, vals.len()))
    }
}
fn build(layout: usize, vals: &[Vec<u8>], valid: &[bool], extra: bool) -> ArrayRef {
    match layout {
        0 => byte_array::<i32>(vals, valid),
        1 => byte_array::<i64>(vals, valid),
        2 => view_array(vals, valid),
        3 => dict_array(vals, valid, false, extra),
        _ => dict_array(vals, valid, true, extra),
    }
}
/// The plain (non-dictionary) array type a pattern for `layout` must have.
fn plain_layout(layout: usize) -> usize { match layout { 3 => 0, 4 => 2, l => l } }

fn bool_codes(r: Result<BooleanArray, arrow_schema::ArrowError>) -> Group {
    match r {
        Err(_) => vec![BigInt::from(-1), BigInt::from(E_INVALID)],
        Ok(b) => {
            if b.to_data().validate_full().is_err() { return vec![BigInt::from(-1), BigInt::from(9)]; }
            (0..b.len()).map(|i| BigInt::from(if b.is_null(i) { 2 } else if b.value(i) { 1 } else { 0 })).collect()
        }
    }
}

/// Logical rows of a string array of any of the layouts.
fn logical_strings(a: &dyn Array) -> Vec<Option<Vec<u8>>> {
    if let Some(d) = a.as_any_dictionary_opt() {
        let vals = logical_strings(d.values().as_ref());
        let keys = d.normalized_keys();
        return (0..a.len()).map(|i| if d.keys().is_null(i) { None } else { vals[keys[i]].clone() }).collect();
    }
    match a.data_type() {
        DataType::Utf8 => { let x = a.as_string::<i32>(); (0..x.len()).map(|i| x.is_valid(i).then(|| x.value(i).as_bytes().to_vec())).collect() }
        DataType::LargeUtf8 => { let x = a.as_string::<i64>(); (0..x.len()).map(|i| x.is_valid(i).then(|| x.value(i).as_bytes().to_vec())).collect() }
        DataType::Utf8View => { let x = a.as_string_view(); (0..x.len()).map(|i| x.is_valid(i).then(|| x.value(i).as_bytes().to_vec())).collect() }
        t => panic!("unexpected result type {t:?}"),
    }
}
fn logical_ints(a: &dyn Array) -> Vec<Option<i64>> {
    if let Some(d) = a.as_any_dictionary_opt() {
        let vals = logical_ints(d.values().as_ref());
        let keys = d.normalized_keys();
        return (0..a.len()).map(|i| if d.keys().is_null(i) { None } else { vals[keys[i]] }).collect();
    }
    match a.data_type() {
        DataType::Int32 => { let x = a.as_primitive::<Int32Type>(); (0..x.len()).map(|i| x.is_valid(i).then(|| x.value(i) as i64)).collect() }
        DataType::Int64 => { let x = a.as_primitive::<Int64Type>(); (0..x.len()).map(|i| x.is_valid(i).then(|| x.value(i))).collect() }
        t => panic!("unexpected result type {t:?}"),
    }
}
fn push_strings(out: &mut Args, r: Result<ArrayRef, arrow_schema::ArrowError>) {
    match r {
        Err(_) => out.push(vec![BigInt::from(-1), BigInt::from(E_INVALID)]),
        Ok(a) => {
            if a.to_data().validate_full().is_err() { out.push(vec![BigInt::from(-1), BigInt::from(9)]); return; }
            let rows = logical_strings(a.as_ref());
            out.push(gbools(rows.iter().map(|r| r.is_some())));
            for r in rows { out.push(r.map(|b| gbytes(&b)).unwrap_or_default()); }
        }
    }
}

fn split_rows(a: &Args, from: usize, n: usize) -> Vec<Vec<u8>> { a[from..from + n].iter().map(to_u8s).collect() }

fn run_likes(a: &Args, mask: bool) -> Args {
    let family = to_usize(&a[0]);
    let mode = usize::try_from(&a[0][1]).unwrap();
    let hv = to_bools(&a[1]);
    let pv = to_bools(&a[2]);
    let (n, m) = (hv.len(), pv.len());
    let hs = split_rows(a, 3, n);
    let ps = split_rows(a, 3 + n, m);
    let nrows = match mode { 0 => n, 1 => n, _ => m };
    let ascii_row = |i: usize| -> bool {
        let (h, p) = match mode { 0 => (&hs[i], &ps[0]), 1 => (&hs[i], &ps[i]), _ => (&hs[0], &ps[i]) };
        h.is_ascii() && p.is_ascii()
    };
    type K = fn(&dyn Datum, &dyn Datum) -> Result<BooleanArray, arrow_schema::ArrowError>;
    let kernels: Vec<K> = match family { 0 => vec![like, nlike], 1 => vec![ilike, nilike], _ => vec![starts_with, ends_with, contains] };
    let mut out: Args = Vec::new();
    for layout in 0..NLAYOUTS {
        let extra = (n + m) % 3 == 0;
        let harr = build(layout, &hs, &hv, extra);
        // the pattern side: same value type; for dictionary haystacks alternately a plain or a dictionary pattern
        let pl = if layout >= 3 && (n + m) % 2 == 0 { layout } else { plain_layout(layout) };
        // a dictionary scalar pattern gets an unused value in front, so that its single key is not 0
        let parr = build(pl, &ps, &pv, mode == 0);
        for k in &kernels {
            let r = match mode {
                0 => k(&harr, &Scalar::new(parr.clone())),
                1 => k(&harr, &parr),
                _ => k(&Scalar::new(harr.clone()), &parr),
            };
            let mut g = bool_codes(r);
            if mask && family == 1 && g.len() == nrows && !(g.len() == 2 && g[0] == BigInt::from(-1)) {
                for i in 0..nrows { if g[i] != BigInt::from(2) && !ascii_row(i) { g[i] = BigInt::from(3); } }
            }
            out.push(g);
        }
    }
    out
}

fn opt_len(a: &Args) -> Option<u64> { if a[0][1] == BigInt::from(0) { None } else { Some(u64::try_from(&a[0][2]).unwrap()) } }

/// The harness' own transcription of predicate.rs `regex_like` (source text only); the model checks it
/// against its rendering of the modelled translation.
fn like_to_regex_text(p: &str) -> String {
    let meta = |c: char| "\\.+*?()|[]{}^$#&-~".contains(c);
    let mut out = String::new();
    let mut it = p.chars().peekable();
    if it.peek() == Some(&'%') { it.next(); } else { out.push('^'); }
    while let Some(c) = it.next() {
        match c {
            '\\' => match it.next() {
                Some(n) => { if meta(n) { out.push('\\'); } out.push(n); }
                None => out.push_str("\\\\"),
            },
            '%' => out.push_str(".*"),
            '_' => out.push('.'),
            c => { if meta(c) { out.push('\\'); } out.push(c); }
        }
    }
    if out.ends_with(".*") { out.pop(); out.pop(); } else { out.push('$'); }
    out
}

pub fn run(op: &str, a: &Args) -> Option<Args> {
    Some(match op {
        "c20.likes" => run_likes(a, true),
        "c20.likes_raw" => run_likes(a, false),
        "c20.substring" => {
            let start = to_i64(&a[0]);
            let len = opt_len(a);
            let valid = to_bools(&a[1]);
            let vals = split_rows(a, 2, valid.len());
            let mut out = Vec::new();
            for layout in 0..NLAYOUTS {
                let arr = build(layout, &vals, &valid, false);
                push_strings(&mut out, substring(arr.as_ref(), start, len));
            }
            out
        }
        "c20.substr_char" => {
            let start = to_i64(&a[0]);
            let len = opt_len(a);
            let valid = to_bools(&a[1]);
            let vals = split_rows(a, 2, valid.len());
            let mut out = Vec::new();
            let arr = build(0, &vals, &valid, false);
            push_strings(&mut out, substring_by_char(arr.as_string::<i32>(), start, len).map(|x| Arc::new(x) as ArrayRef));
            let arr = build(1, &vals, &valid, false);
            push_strings(&mut out, substring_by_char(arr.as_string::<i64>(), start, len).map(|x| Arc::new(x) as ArrayRef));
            out
        }
        "c20.length" => {
            let valid = to_bools(&a[0]);
            let vals = split_rows(a, 1, valid.len());
            let mut out = Vec::new();
            for layout in 0..NLAYOUTS {
                let arr = build(layout, &vals, &valid, false);
                match (length(arr.as_ref()), bit_length(arr.as_ref())) {
                    (Ok(l), Ok(b)) => {
                        let (l, b) = (logical_ints(l.as_ref()), logical_ints(b.as_ref()));
                        out.push(gbools(l.iter().map(|x| x.is_some())));
                        out.push(l.iter().map(|x| BigInt::from(x.unwrap_or(0))).collect());
                        out.push(b.iter().map(|x| BigInt::from(x.unwrap_or(0))).collect());
                    }
                    _ => out.push(vec![BigInt::from(-1), BigInt::from(E_INVALID)]),
                }
            }
            out
        }
        "c20.concat" => {
            let lv = to_bools(&a[0]);
            let rv = to_bools(&a[1]);
            let n = lv.len();
            let ls = split_rows(a, 2, n);
            let rs = split_rows(a, 2 + n, n);
            let mut out = Vec::new();
            let (l, r) = (build(0, &ls, &lv, false), build(0, &rs, &rv, false));
            push_strings(&mut out, concat_elements_utf8(l.as_string::<i32>(), r.as_string::<i32>()).map(|x| Arc::new(x) as ArrayRef));
            let (l, r) = (build(1, &ls, &lv, false), build(1, &rs, &rv, false));
            push_strings(&mut out, concat_elements_dyn(l.as_ref(), r.as_ref()));
            let (l, r) = (build(2, &ls, &lv, false), build(2, &rs, &rv, false));
            push_strings(&mut out, concat_elements_string_view_array(l.as_string_view(), r.as_string_view()).map(|x| Arc::new(x) as ArrayRef));
            // left ++ right ++ left through concat_elements_utf8_many (LargeUtf8)
            let (l, r) = (build(1, &ls, &lv, false), build(1, &rs, &rv, false));
            push_strings(&mut out, concat_elements_utf8_many(&[l.as_string::<i64>(), r.as_string::<i64>(), l.as_string::<i64>()]).map(|x| Arc::new(x) as ArrayRef));
            out
        }
        "c20.regexp" => {
            let mode = to_usize(&a[0]);
            let layout = usize::try_from(&a[0][1]).unwrap();
            let n = usize::try_from(&a[0][2]).unwrap();
            let k = usize::try_from(&a[0][3]).unwrap();
            let valid = to_bools(&a[1]);
            let hs = split_rows(a, 2, n);
            let ps = split_rows(a, 2 + n, k);
            let ts = split_rows(a, 2 + n + k, k);
            let texts_ok: Group = ps.iter().zip(&ts).map(|(p, t)| BigInt::from((like_to_regex_text(s(p)).as_bytes() == &t[..]) as u8)).collect();
            let arr = build(layout, &hs, &valid, false);
            let rtexts: Vec<Vec<u8>> = (0..n).map(|i| ts[i % k].clone()).collect();
            let rarr = build(layout, &rtexts, &vec![true; n], false);
            let flags: Vec<Vec<u8>> = vec![b"s".to_vec(); n];
            let farr = build(layout, &flags, &vec![true; n], false);
            // modes 0/1: scalar / array with flag "s"; modes 2/3: scalar / array without flags
            let flag = if mode < 2 { Some("s") } else { None };
            let r = match (mode % 2, layout) {
                (0, 0) => regexp_is_match_scalar(arr.as_string::<i32>(), s(&ts[0]), flag),
                (0, 1) => regexp_is_match_scalar(arr.as_string::<i64>(), s(&ts[0]), flag),
                (0, _) => regexp_is_match_scalar(arr.as_string_view(), s(&ts[0]), flag),
                (_, 0) => regexp_is_match(arr.as_string::<i32>(), rarr.as_string::<i32>(), if mode < 2 { Some(farr.as_string::<i32>()) } else { None }),
                (_, 1) => regexp_is_match(arr.as_string::<i64>(), rarr.as_string::<i64>(), if mode < 2 { Some(farr.as_string::<i64>()) } else { None }),
                (_, _) => regexp_is_match(arr.as_string_view(), rarr.as_string_view(), if mode < 2 { Some(farr.as_string_view()) } else { None }),
            };
            vec![texts_ok, bool_codes(r)]
        }
        "c20.regexp_flags" => {
            // regexp_is_match with a pattern array and a per-row flags array (the kernel caches compiled regexes)
            let layout = to_usize(&a[0]);
            let n = usize::try_from(&a[0][1]).unwrap();
            let k = usize::try_from(&a[0][2]).unwrap();
            let vv = to_bools(&a[1]);
            let pv = to_bools(&a[2]);
            let fl = to_i64s(&a[3]);
            let ix = to_i64s(&a[4]);
            let hs = split_rows(a, 5, n);
            let ps = split_rows(a, 5 + n, k);
            let ts = split_rows(a, 5 + n + k, k);
            let texts_ok: Group = ps.iter().zip(&ts).map(|(p, t)| BigInt::from((like_to_regex_text(s(p)).as_bytes() == &t[..]) as u8)).collect();
            let arr = build(layout, &hs, &vv, false);
            let rtexts: Vec<Vec<u8>> = (0..n).map(|i| ts[ix[i] as usize].clone()).collect();
            let rarr = build(layout, &rtexts, &pv, false);
            // a null flag hides "i" underneath: it must be read as "no flags"
            let flags: Vec<Vec<u8>> = fl.iter().map(|f| match f { 0 => b"".to_vec(), 1 => b"i".to_vec(), 2 => b"s".to_vec(), 3 => b"is".to_vec(), 4 => b"m".to_vec(), _ => b"i".to_vec() }).collect();
            let fvalid: Vec<bool> = fl.iter().map(|f| *f >= 0).collect();
            let farr = build(layout, &flags, &fvalid, false);
            let r = match layout {
                0 => regexp_is_match(arr.as_string::<i32>(), rarr.as_string::<i32>(), Some(farr.as_string::<i32>())),
                1 => regexp_is_match(arr.as_string::<i64>(), rarr.as_string::<i64>(), Some(farr.as_string::<i64>())),
                _ => regexp_is_match(arr.as_string_view(), rarr.as_string_view(), Some(farr.as_string_view())),
            };
            vec![texts_ok, bool_codes(r)]
        }
        _ => return None,
    })
}

// ===================================================================================== generators
fn enc(cs: &[char]) -> Vec<u8> { cs.iter().collect::<String>().into_bytes() }

/// All strings over `alpha` of length <= maxlen, shortest first, lexicographic in alphabet order.
fn all_strings(alpha: &[char], maxlen: usize) -> Vec<Vec<char>> {
    let mut out: Vec<Vec<char>> = vec![vec![]];
    let mut start = 0;
    for _ in 0..maxlen {
        let end = out.len();
        for i in start..end { for &c in alpha { let mut v = out[i].clone(); v.push(c); out.push(v); } }
        start = end;
    }
    out
}

const FULL: [&str; 19] = ["a", "A", "%", "_", "\\", ".", "*", "é", "ß", "İ", "σ", "ς", "e\u{301}", "\n", "😀", "[", "$", "b", "k"];

fn rand_string(r: &mut Rng, alpha: &[&str], maxlen: usize) -> Vec<u8> {
    let n = r.below(maxlen + 1);
    let mut o = String::new();
    for _ in 0..n { o.push_str(r.pick(alpha)); }
    o.into_bytes()
}
/// A haystack built from the pattern: wildcards instantiated, escapes resolved; optionally damaged.
fn instantiate(r: &mut Rng, pat: &str, alpha: &[&str]) -> Vec<u8> {
    let mut o = String::new();
    let mut it = pat.chars();
    while let Some(c) = it.next() {
        match c {
            '%' => { for _ in 0..r.below(4) { o.push_str(r.pick(alpha)); } }
            '_' => { let x = r.pick(alpha); o.push(x.chars().next().unwrap()); }
            '\\' => match it.next() { Some(n) => o.push(n), None => o.push('\\') },
            c => o.push(c),
        }
    }
    let mut cs: Vec<char> = o.chars().collect();
    match r.below(9) {
        0 => { cs.extend(r.pick(alpha).chars()); }
        1 => { let x: Vec<char> = r.pick(alpha).chars().collect(); cs.splice(0..0, x); }
        2 => { cs.pop(); }
        3 => { if !cs.is_empty() { cs.remove(0); } }
        4 => { if !cs.is_empty() { let i = r.below(cs.len()); cs[i] = r.pick(alpha).chars().next().unwrap(); } }   // replace inside
        5 => { if !cs.is_empty() { let i = r.below(cs.len()); cs.remove(i); } }                                   // delete inside
        6 => { let i = r.below(cs.len() + 1); cs.insert(i, r.pick(alpha).chars().next().unwrap()); }               // insert inside
        _ => {}
    }
    let o: String = cs.into_iter().collect();
    o.into_bytes()
}
/// validity with ~1/den nulls; the bytes of a null row stay what they are (hidden bytes under the null)
fn validity(r: &mut Rng, n: usize, den: u32) -> Vec<bool> { (0..n).map(|_| !r.chance(1, den)).collect() }

fn likes_case(op: &'static str, family: usize, mode: usize, hs: &[Vec<u8>], hv: &[bool], ps: &[Vec<u8>], pv: &[bool], tag: String) -> Case {
    let mut args: Args = vec![vec![family.into(), mode.into()], gbools(hv.iter().copied()), gbools(pv.iter().copied())];
    for h in hs { args.push(gbytes(h)); }
    for p in ps { args.push(gbytes(p)); }
    let models: &[&'static str] = if op == "c20.likes" { &["c20.likes", "c20.likes.spec"] } else { &["c20.likes_raw.post1"] };
    Case::new(op, args, models, tag)
}

/// coarse shape of a LIKE pattern (for coverage tags): which Predicate variant it selects
fn shape(p: &[u8]) -> &'static str {
    let sp = |b: &[u8]| b.iter().any(|c| matches!(c, b'%' | b'_' | b'\\'));
    if !sp(p) { "eq" }
    else if p.ends_with(b"%") && !sp(&p[..p.len() - 1]) { "starts" }
    else if p.starts_with(b"%") && !sp(&p[1..]) { "ends" }
    else if p.len() >= 2 && p.starts_with(b"%") && p.ends_with(b"%") && !sp(&p[1..p.len() - 1]) { "contains" }
    else if p.contains(&b'\\') { "regex-esc" } else { "regex" }
}

fn gen_likes(tier: &str, r: &mut Rng, emit: &mut dyn FnMut(Case)) {
    let thorough = tier == "thorough";
    // ---- exhaustive grid: every pattern over {%, _, \, a, b, é} x every haystack of length <= 4 over {a, b, é, \n}
    let pats: Vec<Vec<u8>> = all_strings(&['%', '_', '\\', 'a', 'b', 'é'], if thorough { 5 } else { 4 }).iter().map(|p| enc(p)).collect();
    let hays: Vec<Vec<u8>> = all_strings(&['a', 'b', 'é', '\n'], 4).iter().map(|h| enc(h)).collect();
    for p in &pats {
        let hv = validity(r, hays.len(), 24);
        let pv = [!r.chance(1, 400)];
        emit(likes_case("c20.likes", 0, 0, &hays, &hv, std::slice::from_ref(p), &pv, format!("like scalar {} len{}", shape(p), p.len().min(6))));
    }
    // pattern arrays: runs of equal patterns (the one-entry predicate cache) over sampled haystacks
    let per = if thorough { 60 } else { 24 };
    let (mut hs, mut ps): (Vec<Vec<u8>>, Vec<Vec<u8>>) = (Vec::new(), Vec::new());
    let flush = |hs: &mut Vec<Vec<u8>>, ps: &mut Vec<Vec<u8>>, r: &mut Rng, emit: &mut dyn FnMut(Case), family: usize| {
        if hs.is_empty() { return; }
        let hv = validity(r, hs.len(), 16);
        let pv = validity(r, ps.len(), 16);
        emit(likes_case("c20.likes", family, 1, hs, &hv, ps, &pv, format!("fam{family} array n{}", hs.len().min(300) / 100)));
        hs.clear(); ps.clear();
    };
    for p in &pats {
        let run = 1 + r.below(per);
        for _ in 0..run { hs.push(r.pick(&hays).clone()); ps.push(p.clone()); }
        if hs.len() >= 280 { flush(&mut hs, &mut ps, r, emit, 0); }
    }
    flush(&mut hs, &mut ps, r, emit, 0);
    // scalar haystack against a pattern array
    for _ in 0..(if thorough { 200 } else { 30 }) {
        let h = r.pick(&hays).clone();
        let ps: Vec<Vec<u8>> = (0..64).map(|_| r.pick(&pats).clone()).collect();
        let pv = validity(r, ps.len(), 16);
        emit(likes_case("c20.likes", 0, 2, std::slice::from_ref(&h), &[!r.chance(1, 20)], &ps, &pv, "like scalar-haystack".to_string()));
    }

    // ---- starts_with / ends_with / contains: every needle of length <= 3 x every haystack
    let needles: Vec<Vec<u8>> = all_strings(&['a', 'b', 'é', '\n'], 3).iter().map(|p| enc(p)).collect();
    for nd in &needles {
        let hv = validity(r, hays.len(), 24);
        emit(likes_case("c20.likes", 2, 0, &hays, &hv, std::slice::from_ref(nd), &[true], format!("sec scalar len{}", nd.len().min(6))));
    }
    for _ in 0..(if thorough { 300 } else { 40 }) {
        let n = 1 + r.below(200);
        let hs: Vec<Vec<u8>> = (0..n).map(|_| r.pick(&hays).clone()).collect();
        let ps: Vec<Vec<u8>> = (0..n).map(|i| {
            // needles related to the haystack: a random sub-slice on character boundaries, or a random needle
            let h = s(&hs[i]); let cs: Vec<char> = h.chars().collect();
            if r.bool() && !cs.is_empty() { let a = r.below(cs.len()); let b = a + r.below(cs.len() - a + 1); cs[a..b].iter().collect::<String>().into_bytes() }
            else { r.pick(&needles).clone() }
        }).collect();
        let (hv, pv) = (validity(r, n, 16), validity(r, n, 16));
        emit(likes_case("c20.likes", 2, 1, &hs, &hv, &ps, &pv, "sec array".to_string()));
    }

    // ---- escapes and regex metacharacters: `\c`, unescaped c, next to wildcards, for every c of the alphabet and
    //      every regex metacharacter; haystacks: every string of length <= 3 over {c, a, \}
    let specials: Vec<char> = "\\.+*?()|[]{}^$#&-~%_ax\n".chars().chain(['é', 'ß', '😀', '\u{301}']).collect();
    for fam in [0usize, 1] {
        for &c in &specials {
            if fam == 1 && !c.is_ascii() { continue; }
            let hs: Vec<Vec<u8>> = all_strings(&[c, 'a', '\\'], 3).iter().map(|h| enc(h)).collect();
            let forms: Vec<String> = vec![format!("\\{c}"), format!("{c}"), format!("a\\{c}"), format!("\\{c}a"), format!("%\\{c}"), format!("\\{c}%"),
                format!("%\\{c}%"), format!("_\\{c}"), format!("\\{c}_"), format!("\\\\{c}"), format!("{c}%"), format!("%{c}"), format!("%{c}%"), format!("{c}_{c}"),
                format!("{c}\\"), format!("a{c}a"), format!("%{c}_"), format!("{c}%{c}")];
            for f in &forms {
                let p = f.clone().into_bytes();
                let hv = validity(r, hs.len(), 30);
                emit(likes_case("c20.likes", fam, 0, &hs, &hv, std::slice::from_ref(&p), &[true], format!("esc fam{fam} scalar {}", shape(&p))));
            }
            // the same forms as a pattern array against sampled haystacks
            let n = 4 * forms.len();
            let ps: Vec<Vec<u8>> = (0..n).map(|i| forms[i / 4].clone().into_bytes()).collect();
            let hs2: Vec<Vec<u8>> = (0..n).map(|_| r.pick(&hs).clone()).collect();
            emit(likes_case("c20.likes", fam, 1, &hs2, &validity(r, n, 16), &ps, &validity(r, n, 16), format!("esc fam{fam} array")));
        }
    }

    // ---- ILIKE: every pattern over {%, _, \, a, A, é} x haystacks over {a, A, é, \n} (rows with é are masked)
    let ipats: Vec<Vec<u8>> = all_strings(&['%', '_', '\\', 'a', 'A', 'é'], if thorough { 4 } else { 3 }).iter().map(|p| enc(p)).collect();
    let ihays_ascii: Vec<Vec<u8>> = all_strings(&['a', 'A', 'b', '\n'], 4).iter().map(|h| enc(h)).collect();
    let ihays_mixed: Vec<Vec<u8>> = all_strings(&['a', 'A', 'é', '\n'], 3).iter().map(|h| enc(h)).collect();
    for p in &ipats {
        // all-ASCII array: the ASCII fast paths; mixed array: the regex path for the same pattern
        let hv = validity(r, ihays_ascii.len(), 24);
        emit(likes_case("c20.likes", 1, 0, &ihays_ascii, &hv, std::slice::from_ref(p), &[true], format!("ilike scalar ascii {}", shape(p))));
        let hv = validity(r, ihays_mixed.len(), 24);
        emit(likes_case("c20.likes", 1, 0, &ihays_mixed, &hv, std::slice::from_ref(p), &[true], format!("ilike scalar mixed {}", shape(p))));
        let run = 1 + r.below(per);
        for _ in 0..run { hs.push(r.pick(&ihays_ascii).clone()); ps.push(p.clone()); }
        if hs.len() >= 280 { flush(&mut hs, &mut ps, r, emit, 1); }
    }
    flush(&mut hs, &mut ps, r, emit, 1);

    // ---- sampled longer patterns / haystacks over the full alphabet (regex metacharacters, >12-byte strings)
    let ascii_alpha: Vec<&str> = FULL.iter().copied().filter(|x| x.is_ascii()).collect();
    let nlong = if thorough { 8000 } else { 1200 };
    for i in 0..nlong {
        let family = if i % 3 == 2 { 1 } else { 0 };
        let alpha: &[&str] = if family == 1 && r.bool() { &ascii_alpha } else { &FULL };
        // pattern: a fast-path shape or a free pattern
        let lit = |r: &mut Rng, n: usize| -> String { (0..r.below(n + 1)).map(|_| *r.pick(alpha)).filter(|c| !matches!(*c, "%" | "_" | "\\")).collect() };
        let pat: String = match r.below(8) {
            0 => lit(r, 14),
            1 => format!("{}%", lit(r, 14)),
            2 => format!("%{}", lit(r, 14)),
            3 => format!("%{}%", lit(r, 14)),
            4 => format!("{}\\%", lit(r, 6)),
            5 => format!("{}%{}", lit(r, 8), lit(r, 8)),
            _ => String::from_utf8(rand_string(r, alpha, 10)).unwrap(),
        };
        let n = 24 + r.below(40);
        let hs: Vec<Vec<u8>> = (0..n).map(|j| match j % 4 {
            0 => rand_string(r, alpha, 20),
            _ => instantiate(r, &pat, alpha),
        }).collect();
        let hv = validity(r, n, 12);
        let p = pat.clone().into_bytes();
        emit(likes_case("c20.likes", family, 0, &hs, &hv, std::slice::from_ref(&p), &[true], format!("long fam{family} scalar {}", shape(&p))));
        if i % 4 == 0 {
            // the same rows with a pattern array: this pattern and a few variations
            let ps: Vec<Vec<u8>> = (0..n).map(|j| if j % 8 < 6 { p.clone() } else { rand_string(r, alpha, 6) }).collect();
            let pv = validity(r, n, 12);
            emit(likes_case("c20.likes", family, 1, &hs, &hv, &ps, &pv, format!("long fam{family} array")));
        }
        if i % 5 == 0 {
            // needles taken from the haystacks
            let ps: Vec<Vec<u8>> = hs.iter().map(|h| { let cs: Vec<char> = s(h).chars().collect();
                if cs.is_empty() { vec![] } else { let a = r.below(cs.len()); let b = a + r.below(cs.len() - a + 1); cs[a..b].iter().collect::<String>().into_bytes() } }).collect();
            emit(likes_case("c20.likes", 2, 1, &hs, &hv, &ps, &validity(r, n, 12), "long sec array".to_string()));
            let nd = r.pick(&ps).clone();
            emit(likes_case("c20.likes", 2, 0, &hs, &hv, std::slice::from_ref(&nd), &[true], "long sec scalar".to_string()));
        }
    }

    // ---- non-ASCII ILIKE: only self-consistency (layouts agree, nilike = not ilike); scalar and array
    let uni: [&str; 16] = ["a", "A", "é", "É", "ß", "İ", "i", "I", "σ", "ς", "Σ", "k", "K", "\u{212A}", "s", "\u{17F}"];
    for i in 0..(if thorough { 3000 } else { 300 }) {
        let pat: String = match r.below(5) {
            0 => String::from_utf8(rand_string(r, &uni, 5)).unwrap(),
            1 => format!("{}%", String::from_utf8(rand_string(r, &uni, 5)).unwrap()),
            2 => format!("%{}", String::from_utf8(rand_string(r, &uni, 5)).unwrap()),
            3 => format!("%{}%", String::from_utf8(rand_string(r, &uni, 5)).unwrap()),
            _ => format!("{}_{}", String::from_utf8(rand_string(r, &uni, 3)).unwrap(), String::from_utf8(rand_string(r, &uni, 3)).unwrap()),
        };
        let n = 16 + r.below(32);
        let hs: Vec<Vec<u8>> = (0..n).map(|_| {
            // case-swapped instances of the pattern
            let base = String::from_utf8(instantiate(r, &pat, &uni)).unwrap();
            base.chars().map(|c| if r.bool() { c.to_uppercase().next().unwrap() } else { c.to_lowercase().next().unwrap() }).collect::<String>().into_bytes()
        }).collect();
        let hv = validity(r, n, 12);
        let p = pat.into_bytes();
        if i % 2 == 0 {
            emit(likes_case("c20.likes_raw", 1, 0, &hs, &hv, std::slice::from_ref(&p), &[true], "ilike unicode scalar".to_string()));
        } else {
            let ps = vec![p.clone(); n];
            emit(likes_case("c20.likes_raw", 1, 1, &hs, &hv, &ps, &validity(r, n, 12), "ilike unicode array".to_string()));
        }
    }
}

fn strings_case(op: &'static str, head: Group, valid: &[bool], vals: &[Vec<u8>], tag: String) -> Case {
    let mut args: Args = Vec::new();
    if !head.is_empty() { args.push(head); }
    args.push(gbools(valid.iter().copied()));
    for v in vals { args.push(gbytes(v)); }
    let models: Vec<&'static str> = match op {
        "c20.substring" => vec!["c20.substring", "c20.substring.spec"],
        "c20.substr_char" => vec!["c20.substr_char", "c20.substr_char.spec"],
        _ => vec!["c20.length", "c20.length.spec"],
    };
    Case::new(op, args, &models, tag)
}
fn head(start: i64, len: Option<u64>) -> Group {
    vec![BigInt::from(start), BigInt::from(len.is_some() as u8), BigInt::from(len.unwrap_or(0))]
}

fn gen_strings(tier: &str, r: &mut Rng, emit: &mut dyn FnMut(Case)) {
    let thorough = tier == "thorough";
    let pool: Vec<&str> = vec!["", "a", "é", "aé", "éa", "😀", "a😀b", "éé", "e\u{301}x", "hello", "İσς", "ab\ncd", "aéb😀c\u{301}dß", "0123456789abcdef", "ééééééé", "😀😀😀😀"];
    let ascii_pool: Vec<&str> = vec!["", "a", "ab", "hello", "ab\ncd", "0123456789abcdef", "%_\\", "A.*[$"];
    let lens: Vec<Option<u64>> = std::iter::once(None).chain((0..=8).map(Some)).collect();
    for start in -8i64..=8 {
        for len in &lens {
            // single-string arrays: the error is per call, so each string gets its own call
            for v in &pool {
                let vals = vec![v.as_bytes().to_vec()];
                emit(strings_case("c20.substring", head(start, *len), &[true], &vals, format!("sub1 s{} l{}", start.signum(), len.map(|x| (x > 0) as i32).unwrap_or(-1))));
            }
            // arrays: ASCII only (never an error), uniform multi-byte shape, and mixed (mostly errors)
            let kinds = if thorough { 6 } else { 3 };
            for k in 0..kinds {
                let n = 1 + r.below(12);
                let vals: Vec<Vec<u8>> = (0..n).map(|_| match k % 3 {
                    0 => r.pick(&ascii_pool).as_bytes().to_vec(),
                    1 => { let m = r.below(6); "é".repeat(m).into_bytes() }
                    _ => r.pick(&pool).as_bytes().to_vec(),
                }).collect();
                let mut valid = validity(r, n, 5);
                // KNOWN-FINDING candidate: byte_substring also checks character boundaries in the bytes hidden under a
                // null row (and substring on a dictionary checks unused values), so a null row holding a multi-byte
                // string makes Utf8/LargeUtf8 fail where Utf8View does not.  Null rows therefore hide ASCII bytes only.
                let vals: Vec<Vec<u8>> = vals.into_iter().zip(valid.iter_mut()).map(|(v, ok)| if !*ok { b"xyz".to_vec() } else { v }).collect();
                emit(strings_case("c20.substring", head(start, *len), &valid, &vals, format!("subN k{} s{} l{}", k % 3, start.signum(), len.is_some() as u8)));
                emit(strings_case("c20.substr_char", head(start, *len), &valid, &vals, format!("subc k{} s{} l{}", k % 3, start.signum(), len.is_some() as u8)));
            }
            for v in &pool {
                emit(strings_case("c20.substr_char", head(start, *len), &[true], &[v.as_bytes().to_vec()], format!("subc1 s{} l{}", start.signum(), len.is_some() as u8)));
            }
        }
    }
    // out-of-range starts and lengths that every offset width represents (|x| < 2^31 - total bytes)
    for &start in &[i32::MIN as i64 + 200, -1000, -17, 17, 1000, i32::MAX as i64 - 200] {
        for &len in &[None, Some(0u64), Some(1), Some(1000), Some(i32::MAX as u64 - 400)] {
            // (start + len must itself stay below 2^31 for the i32 offset arithmetic: see KNOWN-FINDING candidates in the report)
            if let Some(l) = len { if start > 0 && start as u64 + l > i32::MAX as u64 - 200 { continue; } }
            let n = 1 + r.below(6);
            let vals: Vec<Vec<u8>> = (0..n).map(|_| r.pick(&pool).as_bytes().to_vec()).collect();
            let valid = vec![true; n];
            emit(strings_case("c20.substring", head(start, len), &valid, &vals, "sub far".to_string()));
            emit(strings_case("c20.substr_char", head(start, len), &valid, &vals, "subc far".to_string()));
        }
    }
    // length / bit_length, concat_elements
    for i in 0..(if thorough { 2000 } else { 250 }) {
        let n = match i % 5 { 0 => 0, 1 => 1, 2 => 8 + r.below(2), 3 => 63 + r.below(3), _ => r.below(40) };
        let vals: Vec<Vec<u8>> = (0..n).map(|_| if r.bool() { r.pick(&pool).as_bytes().to_vec() } else { rand_string(r, &FULL, 24) }).collect();
        let valid = validity(r, n, 5);
        emit(strings_case("c20.length", vec![], &valid, &vals, format!("length n{}", n.min(70) / 8)));
        let rvals: Vec<Vec<u8>> = (0..n).map(|_| if r.bool() { r.pick(&pool).as_bytes().to_vec() } else { rand_string(r, &FULL, 24) }).collect();
        let rvalid = validity(r, n, 5);
        let mut args: Args = vec![gbools(valid.iter().copied()), gbools(rvalid.iter().copied())];
        for v in &vals { args.push(gbytes(v)); }
        for v in &rvals { args.push(gbytes(v)); }
        emit(Case::new("c20.concat", args, &["c20.concat", "c20.concat.spec"], format!("concat n{}", n.min(70) / 8)));
    }
}

fn gen_regexp(tier: &str, r: &mut Rng, emit: &mut dyn FnMut(Case)) {
    let alpha: Vec<&str> = FULL.to_vec();
    for i in 0..(if tier == "thorough" { 3000 } else { 300 }) {
        let array = i % 2;
        let layout = (i / 2) % 3;
        let k = if array == 0 { 1 } else { 1 + r.below(3) };
        let pats: Vec<String> = (0..k).map(|_| match r.below(6) {
            0 => "%".to_string(), 1 => "%%".to_string(),     // translate to "" : the empty-regex special case
            _ => String::from_utf8(rand_string(r, &alpha, 7)).unwrap() }).collect();
        let n = 8 + r.below(24);
        let hs: Vec<Vec<u8>> = (0..n).map(|j| if j % 3 == 0 { rand_string(r, &alpha, 10) } else { instantiate(r, &pats[j % k], &alpha) }).collect();
        let valid = validity(r, n, 10);
        let texts: Vec<String> = pats.iter().map(|p| like_to_regex_text(p)).collect();
        // without the "s" flag '.' does not match a newline: only when no text contains a '.' or no haystack a newline
        let noflag_ok = texts.iter().all(|t| !t.contains('.')) || hs.iter().all(|h| !h.contains(&b'\n'));
        let mode = array + if noflag_ok && r.bool() { 2 } else { 0 };
        let mut args: Args = vec![vec![mode.into(), layout.into(), n.into(), k.into()], gbools(valid.iter().copied())];
        for h in &hs { args.push(gbytes(h)); }
        for p in &pats { args.push(gbytes(p.as_bytes())); }
        for t in &texts { args.push(gbytes(t.as_bytes())); }
        emit(Case::new("c20.regexp", args, &["c20.regexp.spec"], format!("regexp m{mode} l{layout}")));
    }
}

/// regexp_is_match with per-row flags: few distinct pattern texts repeated over many rows, each row with its own
/// flags from {None, "", "i", "s", "is", "m"}; haystacks are instances of the row's pattern with ASCII case swapped
/// and newlines / extra lines added, so that every flag changes some row's result.
fn gen_regexp_flags(tier: &str, r: &mut Rng, emit: &mut dyn FnMut(Case)) {
    const ASCII: [&str; 16] = ["a", "A", "b", "B", "k", "K", "%", "_", "_", "\\", ".", "*", "\n", "[", "$", "^"];
    for i in 0..(if tier == "thorough" { 2000 } else { 220 }) {
        let layout = i % 3;
        // even cases: ASCII text, all flags; odd cases: the full alphabet, flags without "i" (case folding is
        // specified for ASCII only)
        let ascii = i % 2 == 0;
        let alpha: &[&str] = if ascii { &ASCII } else { &FULL };
        let k = 1 + r.below(3);
        let lit = |r: &mut Rng, n: usize| -> String { (0..1 + r.below(n)).map(|_| *r.pick(alpha)).filter(|c| !matches!(*c, "%" | "\\")).collect() };
        let pats: Vec<String> = (0..k).map(|_| match r.below(6) {
            0 => lit(r, 4), 1 => format!("{}%", lit(r, 4)), 2 => format!("%{}", lit(r, 4)), 3 => format!("{}_{}", lit(r, 3), lit(r, 3)),
            4 => format!("{}%{}", lit(r, 3), lit(r, 3)),
            _ => String::from_utf8(rand_string(r, alpha, 6)).unwrap() }).collect();
        let texts: Vec<String> = pats.iter().map(|p| like_to_regex_text(p)).collect();
        let n = 24 + r.below(40);
        let with_empty_flag = i % 8 == 7;      // "(?)" does not compile: the whole call is an error
        let ix: Vec<usize> = (0..n).map(|_| r.below(k)).collect();
        let fl: Vec<i64> = (0..n).map(|_| {
            if with_empty_flag && r.chance(1, 12) { 0 }
            else if ascii { *r.pick(&[-1i64, -1, 1, 1, 2, 3, 4]) } else { *r.pick(&[-1i64, 2, 4]) } }).collect();
        let hs: Vec<Vec<u8>> = (0..n).map(|j| {
            let base = if r.chance(1, 5) { rand_string(r, alpha, 8) } else { instantiate(r, &pats[ix[j]], alpha) };
            let mut h: String = String::from_utf8(base).unwrap().chars().map(|c|
                if c.is_ascii_alphabetic() && r.bool() { if c.is_ascii_lowercase() { c.to_ascii_uppercase() } else { c.to_ascii_lowercase() } } else { c }).collect();
            match r.below(6) {
                0 => h.insert_str(0, "b\n"),        // the instance is the last line
                1 => h.push_str("\na"),             // the instance is the first line
                2 => { h.insert_str(0, "\n"); h.push('\n'); }
                3 => { let cs: Vec<char> = h.chars().collect(); let p = r.below(cs.len() + 1); h = cs[..p].iter().chain(['\n'].iter()).chain(cs[p..].iter()).collect(); }
                _ => {}
            }
            h.into_bytes()
        }).collect();
        let (vv, pv) = (validity(r, n, 10), validity(r, n, 10));
        let mut args: Args = vec![vec![layout.into(), n.into(), k.into()], gbools(vv.iter().copied()), gbools(pv.iter().copied()),
                                  fl.iter().map(|f| BigInt::from(*f)).collect(), ix.iter().map(|x| BigInt::from(*x)).collect()];
        for h in &hs { args.push(gbytes(h)); }
        for p in &pats { args.push(gbytes(p.as_bytes())); }
        for t in &texts { args.push(gbytes(t.as_bytes())); }
        emit(Case::new("c20.regexp_flags", args, &["c20.regexp_flags.spec"], format!("regexp flags l{layout} ascii{} k{k} e{}", ascii as u8, with_empty_flag as u8)));
    }
}

pub fn generate(tier: &str, r: &mut Rng, emit: &mut dyn FnMut(Case)) {
    gen_strings(tier, r, emit);
    gen_regexp(tier, r, emit);
    gen_regexp_flags(tier, r, emit);
    gen_likes(tier, r, emit);
}
