//! C19 — bit-packed mask primitives: implementation runs and case generators.
use crate::util::*;
use arrow_buffer::bit_chunk_iterator::{BitChunks, UnalignedBitChunk};
use arrow_buffer::bit_iterator::{BitIndexIterator, BitSliceIterator};
use arrow_buffer::bit_mask::set_bits;
use num_bigint::BigInt;

pub fn run(op: &str, a: &Args) -> Option<Args> {
    Some(match op {
        "c19.bitchunks" => {
            let buf = to_u8s(&a[0]);
            let c = BitChunks::new(&buf, to_usize(&a[1]), to_usize(&a[2]));
            vec![c.iter().map(BigInt::from).collect(), g(c.remainder_bits()),
                 vec![c.chunk_len().into(), c.remainder_len().into()]]
        }
        "c19.unaligned" => {
            let al = Aligned::new(&to_u8s(&a[0]), to_usize(&a[1]));
            let u = UnalignedBitChunk::new(al.slice(), to_usize(&a[2]), to_usize(&a[3]));
            vec![vec![u.lead_padding().into(), u.trailing_padding().into()], gopt(u.prefix()),
                 u.chunks().iter().map(|x| BigInt::from(*x)).collect(), gopt(u.suffix()), g(u.count_ones())]
        }
        "c19.index_iter" => {
            let al = Aligned::new(&to_u8s(&a[0]), to_usize(&a[1]));
            vec![BitIndexIterator::new(al.slice(), to_usize(&a[2]), to_usize(&a[3])).map(BigInt::from).collect()]
        }
        "c19.slice_iter" => {
            let al = Aligned::new(&to_u8s(&a[0]), to_usize(&a[1]));
            vec![BitSliceIterator::new(al.slice(), to_usize(&a[2]), to_usize(&a[3]))
                .flat_map(|(s, e)| [BigInt::from(s), BigInt::from(e)]).collect()]
        }
        "c19.set_bits" => {
            let mut wd = to_u8s(&a[0]);
            let data = to_u8s(&a[1]);
            let n = set_bits(&mut wd, &data, to_usize(&a[2]), to_usize(&a[3]), to_usize(&a[4]));
            vec![gbytes(&wd), g(n)]
        }
        _ => return None,
    })
}

/// Bit contents named by the property: all-zero, all-one, alternating (both phases), single bit, random.
fn content(r: &mut Rng, kind: usize, nbytes: usize, off: usize, len: usize) -> Vec<u8> {
    let mut v = r.bytes(nbytes); // random surrounding bits
    let set = |v: &mut Vec<u8>, i: usize, b: bool| { if b { v[i / 8] |= 1 << (i % 8) } else { v[i / 8] &= !(1 << (i % 8)) } };
    match kind {
        0 => for i in 0..len { set(&mut v, off + i, false) },
        1 => for i in 0..len { set(&mut v, off + i, true) },
        2 => for i in 0..len { set(&mut v, off + i, i % 2 == 0) },
        3 => for i in 0..len { set(&mut v, off + i, i % 2 == 1) },
        4 => { for i in 0..len { set(&mut v, off + i, false) } if len > 0 { let p = r.below(len); set(&mut v, off + p, true) } }
        5 => { for i in 0..len { set(&mut v, off + i, true) } if len > 0 { let p = r.below(len); set(&mut v, off + p, false) } }
        6 => { // run-structured
            let mut i = 0; let mut b = r.bool();
            while i < len { let run = 1 + r.below(90); for j in i..(i + run).min(len) { set(&mut v, off + j, b) } i += run; b = !b; }
        }
        _ => {}
    }
    v
}

fn grid(tier: &str, r: &mut Rng) -> Vec<(usize, usize)> {
    let mut v = Vec::new();
    if tier == "thorough" {
        for off in 0..=130 { for len in 0..=200 { v.push((off, len)); } }
    } else {
        let offs: Vec<usize> = (0..=9).chain([15, 16, 17, 31, 32, 33]).chain(55..=73).chain(119..=130).collect();
        let lens: Vec<usize> = (0..=20).chain(55..=73).chain(119..=137).chain(183..=200).collect();
        for &o in &offs { for &l in &lens { if r.chance(1, 4) { v.push((o, l)); } } }
        for _ in 0..400 { v.push((r.below(131), r.below(201))); }
    }
    v
}

pub fn generate(tier: &str, r: &mut Rng, emit: &mut dyn FnMut(Case)) {
    let pairs = grid(tier, r);
    let kinds = if tier == "thorough" { 8 } else { 3 };
    for &(off, len) in &pairs {
        for _ in 0..kinds {
            let kind = r.below(9);
            let slack = r.below(3) * r.below(9);
            let nbytes = (off + len + 7) / 8 + slack;
            let buf = content(r, kind, nbytes.max(1), off, len);
            let align = r.below(8);
            let tag = format!("k{} o{} l{}", kind, off % 8, if len == 0 { 0 } else if len < 64 { 1 } else if len % 64 == 0 { 2 } else { 3 });
            emit(Case::new("c19.bitchunks", vec![gbytes(&buf), g(off), g(len)], &["c19.bitchunks", "c19.bitchunks.spec"], format!("bc {tag}")));
            emit(Case::new("c19.unaligned", vec![gbytes(&buf), g(align), g(off), g(len)], &["c19.unaligned"], format!("ub a{align} {tag}")));
            emit(Case::new("c19.index_iter", vec![gbytes(&buf), g(align), g(off), g(len)], &["c19.index_iter", "c19.index_iter.spec"], format!("ii a{align} {tag}")));
            emit(Case::new("c19.slice_iter", vec![gbytes(&buf), g(align), g(off), g(len)], &["c19.slice_iter", "c19.slice_iter.spec"], format!("si a{align} {tag}")));
            // set_bits: destination zeroed in the addressed range (the documented use), random elsewhere
            let ow = r.below(131);
            let dbytes = (ow + len + 7) / 8 + r.below(3);
            let zero_dest = !r.chance(1, 10);
            let dst = if zero_dest { content(r, 0, dbytes.max(1), ow, len) } else { r.bytes(dbytes.max(1)) };
            let models: &[&str] = if zero_dest { &["c19.set_bits", "c19.set_bits.spec"] } else { &["c19.set_bits"] };
            emit(Case::new("c19.set_bits", vec![gbytes(&dst), gbytes(&buf), g(ow), g(off), g(len)], models,
                format!("sb z{} r{} w{} {tag}", zero_dest as u8, off % 8, ow % 8)));
        }
    }
}
