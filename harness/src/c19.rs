//! C19 — bit-packed mask primitives: implementation runs and case generators.
use crate::util::*;
use arrow_buffer::bit_chunk_iterator::{BitChunks, UnalignedBitChunk};
use arrow_buffer::bit_iterator::{BitIndexIterator, BitSliceIterator};
use arrow_buffer::bit_mask::set_bits;
use num_bigint::BigInt;

pub fn run(op: &str, a: &Args) -> Option<Args> {
    Some(match op {
        "c19.bitchunks" => {
            let buf = to_u8s(&a[0]);
            let c = BitChunks::new(&buf, to_usize(&a[1]), to_usize(&a[2]));
            assert_eq!(c.iter().len(), c.chunk_len());
            vec![c.iter().map(BigInt::from).collect(), g(c.remainder_bits()),
                 vec![c.chunk_len().into(), c.remainder_len().into(), c.num_u64s().into(), c.num_bytes().into()]]
        }
        "c19.unaligned" => {
            let al = Aligned::new(&to_u8s(&a[0]), to_usize(&a[1]));
            let u = UnalignedBitChunk::new(al.slice(), to_usize(&a[2]), to_usize(&a[3]));
            vec![vec![u.lead_padding().into(), u.trailing_padding().into()], gopt(u.prefix()),
                 u.chunks().iter().map(|x| BigInt::from(*x)).collect(), gopt(u.suffix()), g(u.count_ones())]
        }
        "c19.index_iter" => {
            let al = Aligned::new(&to_u8s(&a[0]), to_usize(&a[1]));
            vec![BitIndexIterator::new(al.slice(), to_usize(&a[2]), to_usize(&a[3])).map(BigInt::from).collect()]
        }
        "c19.slice_iter" => {
            let al = Aligned::new(&to_u8s(&a[0]), to_usize(&a[1]));
            vec![BitSliceIterator::new(al.slice(), to_usize(&a[2]), to_usize(&a[3]))
                .flat_map(|(s, e)| [BigInt::from(s), BigInt::from(e)]).collect()]
        }
        "c19.set_bits" => {
            let mut wd = to_u8s(&a[0]);
            let data = to_u8s(&a[1]);
            let n = set_bits(&mut wd, &data, to_usize(&a[2]), to_usize(&a[3]), to_usize(&a[4]));
            vec![gbytes(&wd), g(n)]
        }
        _ => return run2(op, a),
    })
}

/// Bit contents named by the property: all-zero, all-one, alternating (both phases), single bit, random.
fn content(r: &mut Rng, kind: usize, nbytes: usize, off: usize, len: usize) -> Vec<u8> {
    let mut v = r.bytes(nbytes); // random surrounding bits
    let set = |v: &mut Vec<u8>, i: usize, b: bool| { if b { v[i / 8] |= 1 << (i % 8) } else { v[i / 8] &= !(1 << (i % 8)) } };
    match kind {
        0 => for i in 0..len { set(&mut v, off + i, false) },
        1 => for i in 0..len { set(&mut v, off + i, true) },
        2 => for i in 0..len { set(&mut v, off + i, i % 2 == 0) },
        3 => for i in 0..len { set(&mut v, off + i, i % 2 == 1) },
        4 => { for i in 0..len { set(&mut v, off + i, false) } if len > 0 { let p = r.below(len); set(&mut v, off + p, true) } }
        5 => { for i in 0..len { set(&mut v, off + i, true) } if len > 0 { let p = r.below(len); set(&mut v, off + p, false) } }
        6 => { // run-structured
            let mut i = 0; let mut b = r.bool();
            while i < len { let run = 1 + r.below(90); for j in i..(i + run).min(len) { set(&mut v, off + j, b) } i += run; b = !b; }
        }
        _ => {}
    }
    v
}

fn grid(tier: &str, r: &mut Rng) -> Vec<(usize, usize)> {
    let mut v = Vec::new();
    if tier == "thorough" {
        for off in 0..=130 { for len in 0..=200 { v.push((off, len)); } }
    } else {
        let offs: Vec<usize> = (0..=9).chain([15, 16, 17, 31, 32, 33]).chain(55..=73).chain(119..=130).collect();
        let lens: Vec<usize> = (0..=20).chain(55..=73).chain(119..=137).chain(183..=200).collect();
        for &o in &offs { for &l in &lens { if r.chance(1, 4) { v.push((o, l)); } } }
        for _ in 0..400 { v.push((r.below(131), r.below(201))); }
    }
    v
}

pub fn generate(tier: &str, r: &mut Rng, emit: &mut dyn FnMut(Case)) {
    generate_api(tier, r, emit);
    let pairs = grid(tier, r);
    let kinds = if tier == "thorough" { 8 } else { 3 };
    for &(off, len) in &pairs {
        for _ in 0..kinds {
            let kind = r.below(9);
            let slack = r.below(3) * r.below(9);
            let nbytes = (off + len + 7) / 8 + slack;
            let buf = content(r, kind, nbytes.max(1), off, len);
            let align = r.below(8);
            let tag = format!("k{} o{} l{}", kind, off % 8, if len == 0 { 0 } else if len < 64 { 1 } else if len % 64 == 0 { 2 } else { 3 });
            emit(Case::new("c19.bitchunks", vec![gbytes(&buf), g(off), g(len)], &["c19.bitchunks", "c19.bitchunks.spec"], format!("bc {tag}")));
            emit(Case::new("c19.unaligned", vec![gbytes(&buf), g(align), g(off), g(len)], &["c19.unaligned"], format!("ub a{align} {tag}")));
            emit(Case::new("c19.index_iter", vec![gbytes(&buf), g(align), g(off), g(len)], &["c19.index_iter", "c19.index_iter.spec"], format!("ii a{align} {tag}")));
            emit(Case::new("c19.slice_iter", vec![gbytes(&buf), g(align), g(off), g(len)], &["c19.slice_iter", "c19.slice_iter.spec"], format!("si a{align} {tag}")));
            // set_bits: destination zeroed in the addressed range (the documented use), random elsewhere
            let ow = r.below(131);
            let dbytes = (ow + len + 7) / 8 + r.below(3);
            let zero_dest = !r.chance(1, 10);
            let dst = if zero_dest { content(r, 0, dbytes.max(1), ow, len) } else { r.bytes(dbytes.max(1)) };
            // non-zero destinations are compared with the copy specification too: they re-find known finding F6
            let models: &[&str] = &["c19.set_bits", "c19.set_bits.spec"];
            emit(Case::new("c19.set_bits", vec![gbytes(&dst), gbytes(&buf), g(ow), g(off), g(len)], models,
                format!("sb z{} r{} w{} {tag}", zero_dest as u8, off % 8, ow % 8)));
        }
    }
}

// ===================================================================== whole-API operations vs list-of-bool spec
use arrow_buffer::buffer::{
    bitwise_bin_op_helper, bitwise_quaternary_op_helper, bitwise_unary_op_helper, buffer_bin_and, buffer_bin_and_not,
    buffer_bin_or, buffer_bin_xor, buffer_unary_not,
};
use arrow_buffer::bit_iterator::{BitIndexU32Iterator, BitIterator};
use arrow_buffer::bit_util::{apply_bitwise_binary_op, apply_bitwise_unary_op};
use arrow_buffer::{BooleanBuffer, BooleanBufferBuilder, Buffer, MutableBuffer, NullBuffer};

fn w1(code: usize, a: u64) -> u64 { match code { 0 => !a, 1 => a, 2 => u64::MAX, _ => 0 } }
fn w2(code: usize, a: u64, b: u64) -> u64 {
    match code { 0 => a & b, 1 => a | b, 2 => a ^ b, 3 => a & !b, 4 => !(a & b), 5 => !a | b, 6 => a, _ => b }
}
fn w4(code: usize, a: u64, b: u64, c: u64, d: u64) -> u64 {
    match code { 0 => (a & b) | (c & d), 1 => a ^ b ^ c ^ d, 2 => (a | b) & !(c & d), _ => (a & b) | (!a & (c | d)) }
}
/// Buffer whose data pointer has the requested alignment (mod 8) and the given bytes.
fn mkbuf(bytes: &[u8], align: usize) -> Buffer {
    let mut v = vec![0u8; align];
    v.extend_from_slice(bytes);
    Buffer::from_vec(v).slice(align)
}
fn bb(bytes: &[u8], align: usize, off: usize, len: usize) -> BooleanBuffer { BooleanBuffer::new(mkbuf(bytes, align), off, len) }
fn bits_of(b: &BooleanBuffer) -> Group { (0..b.len()).map(|i| BigInt::from(b.value(i) as u8)).collect() }
fn bits_of_buf(b: &Buffer, off: usize, len: usize) -> Group {
    (0..len).map(|i| BigInt::from(arrow_buffer::bit_util::get_bit(b.as_slice(), off + i) as u8)).collect()
}

pub fn run2(op: &str, a: &Args) -> Option<Args> {
    Some(match op {
        // [bytes][off][len][api][fn]
        "c19.unop" => {
            let (bytes, off, len, api, f) = (to_u8s(&a[0]), to_usize(&a[1]), to_usize(&a[2]), to_usize(&a[3]), to_usize(&a[4]));
            let align = api / 16; let api = api % 16;
            let b = bb(&bytes, align, off, len);
            let out: Group = match api {
                0 => { assert_eq!(f, 0); bits_of(&!&b) }
                1 => { assert_eq!(f, 0); bits_of_buf(&buffer_unary_not(b.inner(), off, len), 0, len) }
                2 => bits_of_buf(&bitwise_unary_op_helper(b.inner(), off, len, |x| w1(f, x)), 0, len),
                3 => bits_of(&BooleanBuffer::from_bitwise_unary_op(b.inner().as_slice(), off, len, |x| w1(f, x))),
                4 => { assert_eq!(f, 1); bits_of(&BooleanBuffer::from_bits(b.inner().as_slice(), off, len)) }
                5 => { assert_eq!(f, 1); bits_of_buf(&b.sliced(), 0, len) }
                6 => { assert_eq!(f, 1); bits_of(&BooleanBuffer::collect_bool(len, |i| b.value(i))) }
                7 => { assert_eq!(f, 1); bits_of(&b.iter().collect::<BooleanBuffer>()) }
                8 => { assert_eq!(f, 1); let v: Vec<bool> = b.iter().collect(); bits_of(&BooleanBuffer::from(v)) }
                9 => { assert_eq!(f, 1); let s = b.slice(len / 3, len - len / 3); let mut g = bits_of(&b.slice(0, len / 3)); g.extend(bits_of(&s)); g }
                10 => { assert_eq!(f, 1); bits_of_buf(&b.inner().bit_slice(off, len), 0, len) }
                11 => { assert_eq!(f, 1); gbools(BitIterator::new(b.values(), off, len)) }
                12 => { assert_eq!(f, 1); let mut v = vec![false; len]; for i in b.set_indices() { v[i] = true; } gbools(v) }
                13 => { assert_eq!(f, 1); let mut v = vec![false; len]; for i in BitIndexU32Iterator::new(b.values(), off, len) { v[i as usize] = true; } gbools(v) }
                14 => { assert_eq!(f, 1); let mut v = vec![false; len]; for (s, e) in b.set_slices() { for i in s..e { v[i] = true; } } gbools(v) }
                _ => { assert_eq!(f, 1); let c = b.bit_chunks(); let mut v = Vec::new(); for w in c.iter_padded() { for j in 0..64 { v.push((w >> j) & 1 == 1); } } v.truncate(len); gbools(v) }
            };
            vec![out]
        }
        // [lbytes][loff][rbytes][roff][len][api][fn]
        "c19.binop" => {
            let (lb, lo, rb, ro, len, api, f) = (to_u8s(&a[0]), to_usize(&a[1]), to_u8s(&a[2]), to_usize(&a[3]), to_usize(&a[4]), to_usize(&a[5]), to_usize(&a[6]));
            let (al, ar) = ((api / 16) % 8, (api / 128) % 8); let api = api % 16;
            let l = bb(&lb, al, lo, len); let r = bb(&rb, ar, ro, len);
            let out: Group = match api {
                0 => match f { 0 => bits_of(&(&l & &r)), 1 => bits_of(&(&l | &r)), _ => bits_of(&(&l ^ &r)) },
                1 => { let bf = match f { 0 => buffer_bin_and(l.inner(), lo, r.inner(), ro, len), 1 => buffer_bin_or(l.inner(), lo, r.inner(), ro, len),
                        2 => buffer_bin_xor(l.inner(), lo, r.inner(), ro, len), _ => buffer_bin_and_not(l.inner(), lo, r.inner(), ro, len) }; bits_of_buf(&bf, 0, len) }
                2 => bits_of_buf(&bitwise_bin_op_helper(l.inner(), lo, r.inner(), ro, len, |x, y| w2(f, x, y)), 0, len),
                3 => bits_of(&BooleanBuffer::from_bitwise_binary_op(l.inner().as_slice(), lo, r.inner().as_slice(), ro, len, |x, y| w2(f, x, y))),
                4 => { let mut x = l.clone(); match f { 0 => x &= &r, 1 => x |= &r, _ => x ^= &r }; bits_of(&x) }
                _ => { // uniquely owned left: in-place path of the assign operators
                    let mut x = BooleanBuffer::new(Buffer::from_vec(lb.clone()), lo, len);
                    match f { 0 => x &= &r, 1 => x |= &r, _ => x ^= &r }; bits_of(&x) }
            };
            vec![out]
        }
        "c19.quat" => {
            let len = to_usize(&a[8]); let f = to_usize(&a[9]);
            let bufs: Vec<Buffer> = (0..4).map(|i| mkbuf(&to_u8s(&a[2 * i]), i)).collect();
            let offs = [to_usize(&a[1]), to_usize(&a[3]), to_usize(&a[5]), to_usize(&a[7])];
            let r = bitwise_quaternary_op_helper([&bufs[0], &bufs[1], &bufs[2], &bufs[3]], offs, len, |x, y, z, w| w4(f, x, y, z, w));
            vec![bits_of_buf(&r, 0, len)]
        }
        "c19.unop_inplace" => {
            let mut buf = to_u8s(&a[0]); let f = to_usize(&a[3]);
            apply_bitwise_unary_op(&mut buf, to_usize(&a[1]), to_usize(&a[2]), |x| w1(f, x));
            vec![gbytes(&buf)]
        }
        "c19.binop_inplace" => {
            let mut l = to_u8s(&a[0]); let r = to_u8s(&a[2]); let f = to_usize(&a[5]);
            apply_bitwise_binary_op(&mut l, to_usize(&a[1]), &r, to_usize(&a[3]), to_usize(&a[4]), |x, y| w2(f, x, y));
            vec![gbytes(&l)]
        }
        // [bytes][off][len][api]
        "c19.count" => {
            let (bytes, off, len, api) = (to_u8s(&a[0]), to_usize(&a[1]), to_usize(&a[2]), to_usize(&a[3]));
            let b = bb(&bytes, api / 8, off, len);
            vec![g(match api % 8 {
                0 => b.count_set_bits(),
                1 => b.inner().count_set_bits_offset(off, len),
                2 => len - NullBuffer::new(b.clone()).null_count(),
                3 => UnalignedBitChunk::new(b.values(), off, len).count_ones(),
                4 => b.set_indices().count(),
                5 => b.set_slices().map(|(s, e)| e - s).sum(),
                6 => b.iter().filter(|x| *x).count(),
                _ => b.bit_chunks().iter_padded().map(|w| w.count_ones() as usize).sum(),
            })]
        }
        "c19.has" => {
            let b = bb(&to_u8s(&a[0]), to_usize(&a[3]), to_usize(&a[1]), to_usize(&a[2]));
            vec![vec![(b.has_true() as u8).into(), (b.has_false() as u8).into()]]
        }
        "c19.find_nth" => {
            let b = bb(&to_u8s(&a[0]), 0, to_usize(&a[1]), to_usize(&a[2]));
            vec![g(b.find_nth_set_bit_position(to_usize(&a[3]), to_usize(&a[4])))]
        }
        "c19.iter_script" => {
            let bytes = to_u8s(&a[0]);
            let mut it = BitIterator::new(&bytes, to_usize(&a[1]), to_usize(&a[2]));
            let zob = |o: Option<bool>| BigInt::from(match o { None => -1, Some(true) => 1, Some(false) => 0 });
            let mut out = Vec::new();
            for (c, k) in to_i64s(&a[3]).iter().zip(to_i64s(&a[4]).iter()) {
                let k = *k as usize;
                out.push(zob(match c { 0 => it.next(), 1 => it.next_back(), 2 => it.nth(k), _ => it.nth_back(k) }));
            }
            out.push(BigInt::from(it.len()));
            out.push(zob(it.clone().last()));
            out.push(zob(it.clone().max()));
            vec![out]
        }
        "c19.eq" => {
            let x = bb(&to_u8s(&a[0]), 0, to_usize(&a[1]), to_usize(&a[4]));
            let y = bb(&to_u8s(&a[2]), 3, to_usize(&a[3]), to_usize(&a[5]));
            vec![g((x == y) as u8)]
        }
        "c19.union" => {
            let len = to_usize(&a[6]);
            let x = if to_usize(&a[0]) != 0 { Some(NullBuffer::new(bb(&to_u8s(&a[1]), 1, to_usize(&a[2]), len))) } else { None };
            let y = if to_usize(&a[3]) != 0 { Some(NullBuffer::new(bb(&to_u8s(&a[4]), 2, to_usize(&a[5]), len))) } else { None };
            out_opt(NullBuffer::union(x.as_ref(), y.as_ref()))
        }
        "c19.union_many" => {
            let len = to_usize(&a[0]);
            let nbs: Vec<Option<NullBuffer>> = a[1..].chunks(3).map(|c| if to_usize(&c[0]) != 0 { Some(NullBuffer::new(bb(&to_u8s(&c[1]), 0, to_usize(&c[2]), len))) } else { None }).collect();
            out_opt(NullBuffer::union_many(nbs.iter().map(|x| x.as_ref())))
        }
        "c19.contains" => {
            let len = to_usize(&a[4]);
            let x = NullBuffer::new(bb(&to_u8s(&a[0]), 0, to_usize(&a[1]), len));
            let y = NullBuffer::new(bb(&to_u8s(&a[2]), 5, to_usize(&a[3]), len));
            vec![g(x.contains(&y) as u8)]
        }
        "c19.expand" => {
            let x = NullBuffer::new(bb(&to_u8s(&a[0]), 0, to_usize(&a[1]), to_usize(&a[2])));
            let e = x.expand(to_usize(&a[3]));
            assert_eq!(e.null_count(), e.len() - e.inner().count_set_bits());
            vec![bits_of(e.inner())]
        }
        "c19.builder" => {
            let mut b = BooleanBufferBuilder::new(0);
            for gop in a {
                let v: Vec<i64> = to_i64s(gop);
                let bits = |s: &[i64]| s.iter().map(|x| *x != 0).collect::<Vec<bool>>();
                match v[0] {
                    0 => b.append(v[1] != 0),
                    1 => b.append_n(v[1] as usize, v[2] != 0),
                    2 => b.append_slice(&bits(&v[1..])),
                    3 => { // append_packed_range / append_buffer: pack the bits at a bit offset derived from the length
                        let bs = bits(&v[1..]); let off = (bs.len() * 7 + 3) % 19;
                        let mut packed = vec![0xA5u8; (off + bs.len() + 7) / 8 + 1];
                        for (i, x) in bs.iter().enumerate() { if *x { arrow_buffer::bit_util::set_bit(&mut packed, off + i) } else { arrow_buffer::bit_util::unset_bit(&mut packed, off + i) } }
                        if bs.len() % 2 == 0 { b.append_packed_range(off..off + bs.len(), &packed) }
                        else { b.append_buffer(&BooleanBuffer::new(Buffer::from_vec(packed), off, bs.len())) }
                    }
                    4 => b.set_bit(v[1] as usize, v[2] != 0),
                    5 => b.truncate(v[1] as usize),
                    6 => b.resize(v[1] as usize),
                    7 => b.advance(v[1] as usize),
                    _ => { let bs = bits(&v[1..]); let mut w = 0u64; for (i, x) in bs.iter().enumerate() { if *x { w |= 1 << i } } b.append_word(w, bs.len()) }
                }
            }
            let fin = b.finish_cloned();
            assert_eq!(fin.len(), b.len());
            let fin2 = b.finish();
            assert!(fin == fin2);
            vec![bits_of(&fin2)]
        }
        _ => return None,
    })
}
fn out_opt(o: Option<NullBuffer>) -> Args {
    match o { Some(n) => { assert_eq!(n.null_count(), n.len() - n.inner().count_set_bits()); vec![g(1), bits_of(n.inner())] } None => vec![g(0), vec![]] }
}

fn lenclass(len: usize) -> usize { if len == 0 { 0 } else if len < 64 { 1 } else if len % 64 == 0 { 2 } else if len < 128 { 3 } else { 4 } }

fn generate_api(tier: &str, r: &mut Rng, emit: &mut dyn FnMut(Case)) {
    let n = if tier == "thorough" { 12000 } else { 1200 };
    let big = |r: &mut Rng| if r.chance(1, 8) { 900 + r.below(2400) } else { r.below(201) };
    for _ in 0..n {
        // --- unary family
        let off = if r.chance(1, 3) { 8 * r.below(17) } else { r.below(131) };
        let len = big(r);
        let kind = if len > 600 && r.bool() { 4 + r.below(2) } else { r.below(9) };
        let pad = r.below(4) + 1;
        let buf = content(r, kind, (off + len + 7) / 8 + pad, off, len);
        let api = r.below(16); let align = r.below(8);
        let f = match api { 0 | 1 => 0, 2 | 3 => r.below(4), _ => 1 };
        emit(Case::new("c19.unop", vec![gbytes(&buf), g(off), g(len), g(api + 16 * align), g(f)], &["c19.unop.spec"],
            format!("unop api{api} f{f} o{} l{} k{kind}", off % 8, lenclass(len))));
        emit(Case::new("c19.count", vec![gbytes(&buf), g(off), g(len), g(r.below(8) + 8 * align)], &["c19.count.spec"], format!("count o{} l{} k{kind}", off % 8, lenclass(len))));
        emit(Case::new("c19.has", vec![gbytes(&buf), g(off), g(len), g(align)], &["c19.has.spec"], format!("has o{} l{} k{kind} a{align}", off % 8, lenclass(len))));
        let f1 = r.below(4);
        emit(Case::new("c19.unop_inplace", vec![gbytes(&buf), g(off), g(len), g(f1)], &["c19.unop_inplace.spec"], format!("unip f{f1} o{} l{} k{kind}", off % 8, lenclass(len))));
        if len > 0 {
            let start = r.below(len + 1); let nth = r.below(len.min(12) + 2);
            emit(Case::new("c19.find_nth", vec![gbytes(&buf), g(off), g(len), g(start), g(nth)], &["c19.find_nth.spec"], format!("nth o{} l{} k{kind}", off % 8, lenclass(len))));
        }
        // iterator script
        let steps = r.below(8);
        let mut codes = Vec::new(); let mut ks = Vec::new();
        for _ in 0..steps { let c = r.below(4); codes.push(c as i64); ks.push(if c >= 2 { r.below(len / 3 + 2) as i64 } else { 0 }); }
        emit(Case::new("c19.iter_script", vec![gbytes(&buf), g(off), g(len), gs(&codes), gs(&ks)], &["c19.iter_script.spec"], format!("iters n{steps} l{}", lenclass(len))));
        // --- binary family
        let ro = if r.chance(1, 3) { (off % 64) + 64 * r.below(2) } else if r.chance(1, 4) { 8 * r.below(17) } else { r.below(131) };
        let kind2 = r.below(9);
        let pad2 = r.below(4) + 1;
        let rbuf = content(r, kind2, (ro + len + 7) / 8 + pad2, ro, len);
        let api = r.below(6);
        let f = match api { 0 | 4 | 5 => r.below(3), 1 => r.below(4), _ => r.below(8) };
        let al = r.below(8); let ar = r.below(8);
        emit(Case::new("c19.binop", vec![gbytes(&buf), g(off), gbytes(&rbuf), g(ro), g(len), g(api + 16 * al + 128 * ar), g(f)], &["c19.binop.spec"],
            format!("binop api{api} f{f} lo{} ro{} l{}", off % 8, ro % 8, lenclass(len))));
        let f2 = r.below(8);
        emit(Case::new("c19.binop_inplace", vec![gbytes(&buf), g(off), gbytes(&rbuf), g(ro), g(len), g(f2)], &["c19.binop_inplace.spec"],
            format!("binip f{f2} lo{} ro{} l{}", off % 8, ro % 8, lenclass(len))));
        let lenb = if r.chance(1, 5) { r.below(201) } else { len };
        let same = r.bool();
        let (eb, eo) = if same && lenb == len { // same logical bits at a different offset
            let mut v = r.bytes((ro + len + 7) / 8 + 1);
            for i in 0..len { let bit = (buf[(off + i) / 8] >> ((off + i) % 8)) & 1 == 1; if bit { v[(ro + i) / 8] |= 1 << ((ro + i) % 8) } else { v[(ro + i) / 8] &= !(1 << ((ro + i) % 8)) } }
            if len > 0 && r.chance(1, 3) { let p = r.below(len); v[(ro + p) / 8] ^= 1 << ((ro + p) % 8); }
            (v, ro) } else { (rbuf.clone(), ro) };
        if (eo + lenb + 7) / 8 <= eb.len() {
            emit(Case::new("c19.eq", vec![gbytes(&buf), g(off), gbytes(&eb), g(eo), g(len), g(lenb)], &["c19.eq.spec"], format!("eq s{} l{}", same as u8, lenclass(len))));
        }
        let (pa, pb) = (r.chance(4, 5), r.chance(4, 5));
        emit(Case::new("c19.union", vec![g(pa as u8), gbytes(&buf), g(off), g(pb as u8), gbytes(&rbuf), g(ro), g(len)], &["c19.union.spec"], format!("union {}{} k{kind}{kind2} l{}", pa as u8, pb as u8, lenclass(len))));
        emit(Case::new("c19.contains", vec![gbytes(&buf), g(off), gbytes(&rbuf), g(ro), g(len)], &["c19.contains.spec"], format!("contains k{kind}{kind2} l{}", lenclass(len))));
        if r.chance(1, 3) {
            let mut args = vec![g(len)];
            let m = r.below(5);
            for _ in 0..m { let o = r.below(70); let k = r.below(9); let b = content(r, k, (o + len + 7) / 8 + 1, o, len); args.push(g(r.chance(4, 5) as u8)); args.push(gbytes(&b)); args.push(g(o)); }
            emit(Case::new("c19.union_many", args, &["c19.union_many.spec"], format!("union_many m{m} l{}", lenclass(len))));
            let cnt = r.below(6); let l2 = len.min(80);
            emit(Case::new("c19.expand", vec![gbytes(&buf), g(off), g(l2), g(cnt)], &["c19.expand.spec"], format!("expand c{cnt} l{}", lenclass(l2))));
            // quaternary
            let mut qa = Vec::new();
            for _ in 0..4 { let o = r.below(131); let k = r.below(9); qa.push(gbytes(&content(r, k, (o + len + 7) / 8 + 1, o, len))); qa.push(g(o)); }
            let f = r.below(4); qa.push(g(len)); qa.push(g(f));
            emit(Case::new("c19.quat", qa, &["c19.quat.spec"], format!("quat f{f} l{}", lenclass(len))));
            // builder history
            let mut ops: Args = Vec::new(); let mut cur = 0usize;
            for _ in 0..r.below(12) {
                let c = r.below(9);
                let bitsn = |r: &mut Rng, n: usize| -> Vec<i64> { (0..n).map(|_| r.bool() as i64).collect() };
                match c {
                    0 => { ops.push(gs(&[0, r.bool() as i64])); cur += 1 }
                    1 => { let k = r.below(150); ops.push(gs(&[1, k as i64, r.bool() as i64])); cur += k }
                    2 | 3 => { let k = r.below(140); let mut v = vec![c as i64]; v.extend(bitsn(r, k)); ops.push(gs(&v)); cur += k }
                    4 => if cur > 0 { ops.push(gs(&[4, r.below(cur) as i64, r.bool() as i64])) },
                    5 => { let k = r.below(cur + 1); ops.push(gs(&[5, k as i64])); cur = k }
                    6 => { let k = r.below(cur + 80); ops.push(gs(&[6, k as i64])); cur = k }
                    7 => { let k = r.below(70); ops.push(gs(&[7, k as i64])); cur += k }
                    _ => { let k = r.below(65); let mut v = vec![8i64]; v.extend(bitsn(r, k)); ops.push(gs(&v)); cur += k }
                }
            }
            let nops = ops.len();
            emit(Case::new("c19.builder", ops, &["c19.builder.spec"], format!("builder n{nops}")));
        }
    }
}
