//! C06 — parquet RowSelection algebra and pushdown reads: implementation runs and case generators.
//!
//! Suite (a) ALGEBRA drives the public API of `RowSelection` / `RowSelector` / `MaskRunIter` /
//! `ReadPlanBuilder`; suite (b) END-TO-END writes small files with `ArrowWriter` and reads them
//! back with `ParquetRecordBatchReaderBuilder` under random option tuples.  Argument and result
//! encodings are documented in coq/Model/D_C06.v.
use crate::util::*;
use arrow_array::builder::{Int32Builder, ListBuilder};
use arrow_array::{Array, ArrayRef, BooleanArray, Decimal128Array, Int32Array, Int64Array, ListArray, RecordBatch, StringArray};
use arrow_buffer::{BooleanBuffer, NullBuffer};
use arrow_schema::{ArrowError, DataType, Field, Schema};
use bytes::Bytes;
use num_bigint::BigInt;
use parquet::arrow::arrow_reader::{
    ArrowPredicate, ArrowPredicateFn, ArrowReaderOptions, MaskRunIter, ParquetRecordBatchReaderBuilder,
    ReadPlanBuilder, RowFilter, RowSelection, RowSelectionCursor, RowSelectionPolicy, RowSelector,
};
use parquet::arrow::{ArrowWriter, ProjectionMask};
use parquet::file::metadata::PageIndexPolicy;
use parquet::file::page_index::offset_index::PageLocation;
use parquet::basic::Encoding;
use parquet::file::properties::{EnabledStatistics, WriterProperties, WriterVersion};
use parquet::schema::types::ColumnPath;
use std::collections::HashMap;
use std::sync::{Arc, Mutex, OnceLock};

const NULL_I: i64 = -1_000_000;

// ------------------------------------------------------------------------------------------------
// decoding / encoding of selections

/// A BooleanBuffer holding `bits` at bit offset `off` of a larger allocation with garbage around it.
fn mask_buffer(bits: &[bool], off: usize) -> BooleanBuffer {
    let mut v: Vec<bool> = (0..off).map(|i| (i * 7 + off) % 3 != 0).collect();
    v.extend_from_slice(bits);
    v.extend((0..(off % 11)).map(|i| (i + off) % 2 == 0));
    BooleanBuffer::from(v).slice(off, bits.len())
}

fn dec_sel(g: &Group) -> RowSelection {
    let v = to_i64s(g);
    let (kind, aux, data) = (v[0], v[1] as usize, &v[2..]);
    if kind == 0 {
        let sels: Vec<RowSelector> = data
            .chunks(2)
            .map(|p| if p[0] != 0 { RowSelector::skip(p[1] as usize) } else { RowSelector::select(p[1] as usize) })
            .collect();
        if aux & 1 == 1 { sels.into_iter().collect() } else { RowSelection::from(sels) }
    } else {
        let bits: Vec<bool> = data.iter().map(|b| *b != 0).collect();
        let s = RowSelection::from_boolean_buffer(mask_buffer(&bits, aux % 64));
        // prime the popcount / selector caches of the mask backing
        if (aux / 64) & 1 == 1 { let _ = s.row_count(); }
        if (aux / 128) & 1 == 1 { let _ = s.iter().count(); }
        s
    }
}

fn sel_pairs(v: &[RowSelector]) -> Group {
    v.iter().flat_map(|s| [BigInt::from(s.skip as u8), BigInt::from(s.row_count)]).collect()
}
fn expand(v: &[RowSelector]) -> Vec<bool> {
    v.iter().flat_map(|s| std::iter::repeat(!s.skip).take(s.row_count)).collect()
}
fn sel_bits(s: &RowSelection) -> Vec<bool> {
    match s.as_mask() {
        Some(m) => m.iter().collect(),
        None => expand(&s.iter().copied().collect::<Vec<_>>()),
    }
}
fn out_sel(s: &RowSelection, repr: bool) -> Args {
    if !repr { return vec![gbools(sel_bits(s))]; }
    match s.as_mask() {
        Some(m) => vec![g(1), gbools(m.iter())],
        None => vec![g(0), sel_pairs(&s.iter().copied().collect::<Vec<_>>())],
    }
}

// ------------------------------------------------------------------------------------------------
// end-to-end: file contents as functions of the row number (mirrors Model/C06_Reader.v)

fn val_of(nullmod: i64, id: i64) -> Option<i32> {
    if nullmod > 0 && (id * 7 + 3) % nullmod == 0 { None } else { Some(((id * 37) % 101 - 50) as i32) }
}
fn str_of(id: i64) -> Option<String> { if id % 13 == 7 { None } else { Some(format!("r{id}")) } }
fn lst_of(id: i64) -> Option<Vec<Option<i32>>> {
    if id % 11 == 5 { None } else {
        Some((0..id % 4).map(|j| { let e = id + j; if e % 5 == 0 { None } else { Some(e as i32) } }).collect())
    }
}

fn ll_of(id: i64) -> Option<Vec<Option<Vec<Option<i32>>>>> {
    if id % 17 == 3 { return None; }
    Some((id..id + id % 3).map(|j| {
        if j % 7 == 0 { None } else { Some((j..j + j % 3).map(|e| if e % 6 == 0 { None } else { Some(e as i32) }).collect()) }
    }).collect())
}

fn dec_of(id: i64) -> Option<i128> { if id % 9 == 4 { None } else { Some(id as i128 * 1_000_003 - 7) } }

fn file_schema() -> Arc<Schema> {
    Arc::new(Schema::new(vec![
        Field::new("id", DataType::Int64, false),
        Field::new("val", DataType::Int32, true),
        Field::new("s", DataType::Utf8, true),
        Field::new("lst", DataType::List(Arc::new(Field::new("item", DataType::Int32, true))), true),
        Field::new("ll", DataType::List(Arc::new(Field::new("item",
            DataType::List(Arc::new(Field::new("item", DataType::Int32, true))), true))), true),
        Field::new("dec", DataType::Decimal128(30, 2), true),
    ]))
}

fn make_batch(schema: &Arc<Schema>, nullmod: i64, start: i64, n: i64) -> RecordBatch {
    let ids: Vec<i64> = (start..start + n).collect();
    let id: ArrayRef = Arc::new(Int64Array::from(ids.clone()));
    let val: ArrayRef = Arc::new(Int32Array::from(ids.iter().map(|i| val_of(nullmod, *i)).collect::<Vec<_>>()));
    let s: ArrayRef = Arc::new(StringArray::from(ids.iter().map(|i| str_of(*i)).collect::<Vec<_>>()));
    let mut lb = ListBuilder::new(Int32Builder::new());
    for i in &ids {
        match lst_of(*i) {
            None => lb.append(false),
            Some(es) => { for e in es { lb.values().append_option(e); } lb.append(true); }
        }
    }
    let lst: ArrayRef = Arc::new(lb.finish());
    let mut llb = ListBuilder::new(ListBuilder::new(Int32Builder::new()));
    for i in &ids {
        match ll_of(*i) {
            None => llb.append(false),
            Some(inners) => {
                for inner in inners {
                    match inner {
                        None => llb.values().append(false),
                        Some(es) => { for e in es { llb.values().values().append_option(e); } llb.values().append(true); }
                    }
                }
                llb.append(true);
            }
        }
    }
    let ll: ArrayRef = Arc::new(llb.finish());
    let dec: ArrayRef = Arc::new(Decimal128Array::from(ids.iter().map(|i| dec_of(*i)).collect::<Vec<_>>())
        .with_precision_and_scale(30, 2).expect("decimal"));
    RecordBatch::try_new(schema.clone(), vec![id, val, s, lst, ll, dec]).expect("batch")
}

/// file parameters (group 0): nullmod, page row limit, write batch size, writer version (1|2),
/// dictionary on/off, offset index disabled, rows per written RecordBatch, statistics level,
/// value encoding (0 default; 1 dec BYTE_STREAM_SPLIT; 2 dec PLAIN without dictionary;
/// 3 id, val and dec BYTE_STREAM_SPLIT; 4 dec DELTA_BYTE_ARRAY)
fn write_file(p: &[i64], rg_counts: &[i64]) -> Bytes {
    let (nullmod, page_rows, wbatch, version, dict, no_oidx, chunk, stats) =
        (p[0], p[1] as usize, p[2] as usize, p[3], p[4] != 0, p[5] != 0, p[6].max(1), p[7]);
    let enc = p.get(8).copied().unwrap_or(0);
    let mut pb = WriterProperties::builder();
    let cols: &[&str] = match enc { 1 | 2 | 4 => &["dec"], 3 => &["id", "val", "dec"], _ => &[] };
    for c in cols {
        let path = ColumnPath::from(*c);
        pb = pb.set_column_dictionary_enabled(path.clone(), false).set_column_encoding(path, match enc {
            2 => Encoding::PLAIN, 4 => Encoding::DELTA_BYTE_ARRAY, _ => Encoding::BYTE_STREAM_SPLIT });
    }
    let props = pb
        .set_writer_version(if version == 2 { WriterVersion::PARQUET_2_0 } else { WriterVersion::PARQUET_1_0 })
        .set_data_page_row_count_limit(page_rows.max(1))
        .set_write_batch_size(wbatch.max(1))
        .set_max_row_group_row_count(Some(1 << 20))
        .set_dictionary_enabled(dict)
        .set_offset_index_disabled(no_oidx)
        .set_statistics_enabled(match stats { 0 => EnabledStatistics::None, 1 => EnabledStatistics::Chunk, _ => EnabledStatistics::Page })
        .build();
    let schema = file_schema();
    let mut buf: Vec<u8> = Vec::new();
    let mut w = ArrowWriter::try_new(&mut buf, schema.clone(), Some(props)).expect("writer");
    let mut start = 0i64;
    for &n in rg_counts {
        let mut done = 0;
        while done < n {
            let k = chunk.min(n - done);
            w.write(&make_batch(&schema, nullmod, start + done, k)).expect("write");
            done += k;
        }
        w.flush().expect("flush");
        start += n;
    }
    w.close().expect("close");
    Bytes::from(buf)
}

fn cached_file(p: &Group, rgs: &Group) -> Bytes {
    static FILES: OnceLock<Mutex<HashMap<String, Bytes>>> = OnceLock::new();
    let key = fmt_args(&vec![p.clone(), rgs.clone()]);
    let m = FILES.get_or_init(|| Mutex::new(HashMap::new()));
    if let Some(b) = m.lock().unwrap_or_else(|e| e.into_inner()).get(&key) { return b.clone(); }
    let b = write_file(&to_i64s(p), &to_i64s(rgs));
    let mut guard = m.lock().unwrap_or_else(|e| e.into_inner());
    if guard.len() > 64 { guard.clear(); }
    guard.insert(key, b.clone());
    b
}

fn make_predicate(desc: &parquet::schema::types::SchemaDescriptor, nullmod: i64, q: &[i64]) -> Box<dyn ArrowPredicate> {
    let (kind, p1, p2, extra) = (q[0], q[1], q[2], q[3]);
    let need = if kind == 0 || kind == 3 { 0usize } else { 1usize };
    let mut leaves: Vec<usize> = (0..6).filter(|i| *i == need || (extra >> i) & 1 == 1).collect();
    leaves.sort();
    let proj = ProjectionMask::leaves(desc, leaves);
    let _ = nullmod;
    Box::new(ArrowPredicateFn::new(proj, move |batch: RecordBatch| -> Result<BooleanArray, ArrowError> {
        Ok(match kind {
            0 | 3 => {
                let ids = batch.column_by_name("id").expect("id").as_any().downcast_ref::<Int64Array>().expect("i64").clone();
                ids.iter().map(|i| i.map(|i| if kind == 0 { i % p1 != p2 } else { p1 <= i && i < p2 })).collect()
            }
            _ => {
                let v = batch.column_by_name("val").expect("val").as_any().downcast_ref::<Int32Array>().expect("i32").clone();
                if kind == 1 {
                    // three-valued result as a comparison kernel produces it: NULL where val is NULL, and the
                    // value bit under a NULL slot is whatever the kernel computed on the padding - here set
                    // (extra bit 6 clear) or the comparison of the padding value 0 (extra bit 6 set)
                    let under_null = if (extra >> 6) & 1 == 1 { 0 < p1 } else { true };
                    let values: BooleanBuffer = v.iter().map(|x| match x { Some(x) => (x as i64) < p1, None => under_null }).collect();
                    let nulls: BooleanBuffer = v.iter().map(|x| x.is_some()).collect();
                    BooleanArray::new(values, Some(NullBuffer::new(nulls)))
                }
                else { v.iter().map(|x| Some(x.is_none())).collect() }
            }
        })
    }))
}

fn run_read(a: &Args) -> Args {
    let fp = to_i64s(&a[0]);
    let nullmod = fp[0];
    let file = cached_file(&a[0], &a[1]);
    let hp = to_i64s(&a[9]); // policy, threshold, page index policy, call with_row_groups, projection via roots
    let pidx = match hp[2] { 0 => PageIndexPolicy::Skip, 1 => PageIndexPolicy::Optional, _ => PageIndexPolicy::Required };
    let opts = ArrowReaderOptions::new().with_page_index_policy(pidx);
    let mut b = match ParquetRecordBatchReaderBuilder::try_new_with_options(file, opts) { Ok(b) => b, Err(_) => return err(E_INVALID) };
    let desc = b.metadata().file_metadata().schema_descr_ptr();
    let proj_bits = to_i64s(&a[8]);
    let leaves: Vec<usize> = (0..6).filter(|i| proj_bits[*i] != 0).collect();
    if leaves.len() < 6 || hp[4] >= 0 {
        b = b.with_projection(if hp[4] == 1 { ProjectionMask::roots(&desc, leaves.clone()) } else { ProjectionMask::leaves(&desc, leaves.clone()) });
    }
    if hp[3] != 0 { b = b.with_row_groups(to_i64s(&a[2]).iter().map(|x| *x as usize).collect()); }
    if !a[3].is_empty() { b = b.with_row_selection(dec_sel(&a[3])); }
    let preds: Vec<Box<dyn ArrowPredicate>> = to_i64s(&a[4]).chunks(4).map(|q| make_predicate(&desc, nullmod, q)).collect();
    if !preds.is_empty() { b = b.with_row_filter(RowFilter::new(preds)); }
    if !a[5].is_empty() { b = b.with_offset(to_usize(&a[5])); }
    if !a[6].is_empty() { b = b.with_limit(to_usize(&a[6])); }
    let bs = to_usize(&a[7]);
    b = b.with_batch_size(bs);
    b = match hp[0] {
        1 => b.with_row_selection_policy(RowSelectionPolicy::Selectors),
        2 => b.with_row_selection_policy(RowSelectionPolicy::Mask),
        3 => b.with_row_selection_policy(RowSelectionPolicy::Auto { threshold: hp[1] as usize }),
        _ => b,
    };
    let reader = match b.build() { Ok(r) => r, Err(_) => return err(E_INVALID) };
    let (mut rows, mut big) = (0usize, 0usize);
    let (mut ids, mut vals, mut strs, mut lsts, mut lls): (Group, Group, Group, Group, Group) = (vec![], vec![], vec![], vec![], vec![]);
    let mut decs: Group = vec![];
    let push_list = |out: &mut Group, e: ArrayRef| {
        let e = e.as_any().downcast_ref::<Int32Array>().expect("item type").clone();
        out.push(BigInt::from(e.len()));
        out.extend(e.iter().map(|x| BigInt::from(x.map(|x| x as i64).unwrap_or(NULL_I))));
    };
    for batch in reader {
        let batch = match batch { Ok(x) => x, Err(_) => return err(E_IO) };
        rows += batch.num_rows();
        if batch.num_rows() > bs { big += 1; }
        if batch.num_columns() != leaves.len() { return err(E_UNSUPPORTED); }
        if let Some(c) = batch.column_by_name("id") {
            let c = c.as_any().downcast_ref::<Int64Array>().expect("id type");
            if c.null_count() != 0 { return err(E_INVALID); }
            ids.extend(c.values().iter().map(|x| BigInt::from(*x)));
        }
        if let Some(c) = batch.column_by_name("val") {
            let c = c.as_any().downcast_ref::<Int32Array>().expect("val type");
            vals.extend(c.iter().map(|x| BigInt::from(x.map(|x| x as i64).unwrap_or(NULL_I))));
        }
        if let Some(c) = batch.column_by_name("s") {
            let c = c.as_any().downcast_ref::<StringArray>().expect("s type");
            strs.extend(c.iter().map(|x| BigInt::from(match x {
                None => -1i64,
                Some(t) => t.strip_prefix('r').and_then(|d| d.parse::<i64>().ok()).unwrap_or(-2),
            })));
        }
        if let Some(c) = batch.column_by_name("lst") {
            let c = c.as_any().downcast_ref::<ListArray>().expect("lst type");
            for i in 0..c.len() {
                if c.is_null(i) { lsts.push(BigInt::from(-1)); continue; }
                push_list(&mut lsts, c.value(i));
            }
        }
        if let Some(c) = batch.column_by_name("dec") {
            let c = c.as_any().downcast_ref::<Decimal128Array>().expect("dec type");
            decs.extend(c.iter().map(|x| BigInt::from(x.unwrap_or(NULL_I as i128))));
        }
        if let Some(c) = batch.column_by_name("ll") {
            let c = c.as_any().downcast_ref::<ListArray>().expect("ll type");
            for i in 0..c.len() {
                if c.is_null(i) { lls.push(BigInt::from(-1)); continue; }
                let inner = c.value(i);
                let inner = inner.as_any().downcast_ref::<ListArray>().expect("inner type").clone();
                lls.push(BigInt::from(inner.len()));
                for j in 0..inner.len() {
                    if inner.is_null(j) { lls.push(BigInt::from(-1)); } else { push_list(&mut lls, inner.value(j)); }
                }
            }
        }
    }
    vec![g(rows), g(big), ids, vals, strs, lsts, lls, decs]
}

// ------------------------------------------------------------------------------------------------
pub fn run(op: &str, a: &Args) -> Option<Args> {
    let (base, repr) = match op.strip_suffix(".repr") { Some(b) => (b, true), None => (op, false) };
    Some(match base {
        "c06.from_selectors" => out_sel(&dec_sel(&a[0]), repr),
        "c06.from_ranges" => {
            let (ss, es) = (to_i64s(&a[0]), to_i64s(&a[1]));
            let it = ss.iter().zip(es.iter()).map(|(s, e)| (*s as usize)..(*e as usize));
            out_sel(&RowSelection::from_consecutive_ranges(it, to_usize(&a[2])), repr)
        }
        "c06.from_filters" => {
            let lens = to_i64s(&a[0]);
            let bits = to_bools(&a[1]);
            let offs = to_i64s(&a[2]);
            let mut pos = 0usize;
            let mut filters = Vec::new();
            for (i, n) in lens.iter().enumerate() {
                let n = *n as usize;
                filters.push(BooleanArray::new(mask_buffer(&bits[pos..pos + n], offs[i] as usize), None));
                pos += n;
            }
            out_sel(&RowSelection::from_filters(&filters), repr)
        }
        "c06.to_selectors" => {
            let s = dec_sel(&a[0]);
            let v_into: Vec<RowSelector> = s.clone().into();
            let v_iter: Vec<RowSelector> = s.iter().copied().collect();
            let v_run: Vec<RowSelector> = match s.as_mask() {
                Some(m) => MaskRunIter::new(m).collect(),
                None => std::collections::VecDeque::<RowSelector>::from(s.clone()).into_iter().collect(),
            };
            [v_into, v_iter, v_run].iter().map(|v| if repr { sel_pairs(v) } else { gbools(expand(v)) }).collect()
        }
        "c06.and_then" => out_sel(&dec_sel(&a[0]).and_then(&dec_sel(&a[1])), repr),
        "c06.intersection" => out_sel(&dec_sel(&a[0]).intersection(&dec_sel(&a[1])), repr),
        "c06.union" => out_sel(&dec_sel(&a[0]).union(&dec_sel(&a[1])), repr),
        "c06.concat" => out_sel(&a.iter().map(dec_sel).collect::<RowSelection>(), repr),
        "c06.split_off" => {
            let mut s = dec_sel(&a[0]);
            let head = s.split_off(to_usize(&a[1]));
            let mut o = out_sel(&head, repr);
            o.extend(out_sel(&s, repr));
            o
        }
        "c06.counts" => {
            let s = dec_sel(&a[0]);
            vec![g(s.selects_any() as u8), g(s.row_count()), g(s.total_row_count()), g(s.skipped_row_count())]
        }
        "c06.scan_ranges" => {
            let s = dec_sel(&a[0]);
            let pages: Vec<PageLocation> = to_i64s(&a[1]).iter().enumerate()
                .map(|(i, f)| PageLocation { offset: 1000 + 100 * i as i64, compressed_page_size: 100, first_row_index: *f })
                .collect();
            vec![s.scan_ranges(&pages).iter().map(|r| {
                if r.end - r.start == 100 && r.start >= 1000 && (r.start - 1000) % 100 == 0 { BigInt::from((r.start - 1000) / 100) } else { BigInt::from(-1) }
            }).collect()]
        }
        "c06.eq" => {
            let (x, y) = (dec_sel(&a[0]), dec_sel(&a[1]));
            let (e1, e2) = (x == y, y == x);
            vec![g(if e1 == e2 { e1 as i64 } else { -1 })]
        }
        "c06.plan_mask" => {
            let bs = to_usize(&a[1]);
            let mut plan = ReadPlanBuilder::new(bs)
                .with_selection(Some(dec_sel(&a[0])))
                .with_row_selection_policy(RowSelectionPolicy::Mask)
                .build();
            let RowSelectionCursor::Mask(c) = plan.row_selection_cursor_mut() else { return Some(err(E_UNSUPPORTED)) };
            let (mut bits, mut tuples, mut ok) = (Vec::new(), Vec::new(), true);
            let mut guard = 0;
            while let Some(ch) = c.next_mask_chunk(bs) {
                guard += 1;
                if guard > 100_000 { return Some(err(E_UNSUPPORTED)); }
                let m = match c.mask_values_for(&ch) { Ok(m) => m, Err(_) => return Some(err(E_INVALID)) };
                if m.len() != ch.chunk_rows || m.true_count() != ch.selected_rows { return Some(err(E_INVALID)); }
                bits.extend(std::iter::repeat(false).take(ch.initial_skip));
                bits.extend(m.values().iter());
                ok &= ch.selected_rows <= bs;
                tuples.extend([ch.initial_skip, ch.chunk_rows, ch.selected_rows, ch.mask_start].map(BigInt::from));
            }
            if repr { vec![tuples] } else { vec![gbools(bits), g(ok as u8)] }
        }
        "c06.read" => run_read(a),
        _ => return None,
    })
}

// ------------------------------------------------------------------------------------------------
// generators

const COUNTS: [usize; 22] = [0, 0, 0, 1, 1, 1, 2, 3, 5, 7, 8, 9, 15, 16, 17, 31, 32, 33, 63, 64, 65, 130];

/// a raw selector vector: empty runs, adjacent runs of the same kind, boundary-dense counts
fn gen_runs(r: &mut Rng, max_runs: usize) -> Vec<(bool, usize)> {
    let n = match r.below(8) { 0 => 0, 1 => 1, 2 => 2, _ => r.below(max_runs + 1) };
    let alt = r.below(3); // 0: random kinds, 1: mostly alternating, 2: sticky
    let mut skip = r.bool();
    (0..n).map(|_| {
        skip = match alt { 0 => r.bool(), 1 => if r.chance(9, 10) { !skip } else { skip }, _ => if r.chance(1, 3) { !skip } else { skip } };
        (skip, if r.chance(1, 6) { r.below(200) } else { *r.pick(&COUNTS) })
    }).collect()
}
/// a raw selector vector covering exactly `total` rows
fn gen_runs_total(r: &mut Rng, total: usize) -> Vec<(bool, usize)> {
    let mut v = Vec::new();
    let mut left = total;
    let mut skip = r.bool();
    let style = r.below(4);
    if r.chance(1, 5) { v.push((r.bool(), 0)); }
    while left > 0 {
        let c = match style { 0 => 1 + r.below(3), 1 => 1 + r.below(40), 2 => *r.pick(&COUNTS), _ => 1 + r.below(left) }.min(left);
        v.push((skip, c));
        left -= c;
        skip = if r.chance(1, 8) { skip } else { !skip };
        if r.chance(1, 10) { v.push((r.bool(), 0)); }
    }
    v
}
fn bits_of_runs(v: &[(bool, usize)]) -> Vec<bool> {
    v.iter().flat_map(|(s, c)| std::iter::repeat(!*s).take(*c)).collect()
}
fn gen_bits(r: &mut Rng, len: usize) -> Vec<bool> {
    match r.below(8) {
        0 => vec![false; len],
        1 => vec![true; len],
        2 => (0..len).map(|i| i % 2 == 0).collect(),
        3 => { let mut v = vec![false; len]; if len > 0 { v[r.below(len)] = true; } v }
        4 => { let mut v = vec![true; len]; if len > 0 { v[r.below(len)] = false; } v }
        5 => { let d = 1 + r.below(20) as u32; (0..len).map(|_| r.chance(1, d)).collect() }
        6 => { let d = 1 + r.below(20) as u32; (0..len).map(|_| !r.chance(1, d)).collect() }
        _ => bits_of_runs(&gen_runs_total(r, len)),
    }
}
fn gen_len(r: &mut Rng) -> usize {
    match r.below(6) { 0 => r.below(3), 1 => *r.pick(&[7, 8, 9, 63, 64, 65, 127, 128, 129, 1023, 1024, 1025]), 2 => r.below(70), _ => r.below(600) }
}
fn enc_runs(r: &mut Rng, v: &[(bool, usize)]) -> Group {
    let mut gr = vec![BigInt::from(0), BigInt::from(r.below(2))];
    for (s, c) in v { gr.push(BigInt::from(*s as u8)); gr.push(BigInt::from(*c)); }
    gr
}
fn enc_mask(r: &mut Rng, bits: &[bool]) -> Group {
    let aux = if r.chance(1, 4) { 0 } else { r.below(64) } + 64 * r.below(4);
    let mut gr = vec![BigInt::from(1), BigInt::from(aux)];
    gr.extend(bits.iter().map(|b| BigInt::from(*b as u8)));
    gr
}
/// encode `bits` in a random backing: a run-length vector (possibly un-normalised) or a bitmap
fn enc_bits(r: &mut Rng, bits: &[bool]) -> (Group, char) {
    if r.bool() { (enc_mask(r, bits), 'm') } else {
        // split runs randomly and sprinkle empty selectors
        let mut v: Vec<(bool, usize)> = Vec::new();
        let mut i = 0;
        while i < bits.len() {
            let mut j = i;
            while j < bits.len() && bits[j] == bits[i] { j += 1; }
            let mut left = j - i;
            while left > 0 {
                let c = if r.chance(3, 4) { left } else { 1 + r.below(left) };
                v.push((!bits[i], c));
                left -= c;
                if r.chance(1, 12) { v.push((r.bool(), 0)); }
            }
            i = j;
        }
        if r.chance(1, 10) { v.insert(0, (r.bool(), 0)); }
        (enc_runs(r, &v), 's')
    }
}
/// a random selection in a random backing, with its denotation
fn gen_sel(r: &mut Rng) -> (Group, Vec<bool>, char) {
    if r.bool() {
        let v = gen_runs(r, 70);
        let bits = bits_of_runs(&v);
        (enc_runs(r, &v), bits, 's')
    } else {
        let len = gen_len(r);
        let bits = gen_bits(r, len);
        (enc_mask(r, &bits), bits, 'm')
    }
}
fn both(emit: &mut dyn FnMut(Case), op: &'static str, repr: &'static str, args: Args, models: &[&'static str], tag: String) {
    emit(Case::new(op, args.clone(), models, tag.clone()));
    emit(Case::new(repr, args, &[repr], format!("{tag} repr")));
}
fn lclass(n: usize) -> &'static str { if n == 0 { "0" } else if n < 64 { "s" } else { "L" } }

fn gen_algebra(n: usize, r: &mut Rng, emit: &mut dyn FnMut(Case)) {
    for _ in 0..n {
        // constructors
        let v = gen_runs(r, 70);
        let tag = format!("runs{}", lclass(v.len()));
        both(emit, "c06.from_selectors", "c06.from_selectors.repr", vec![enc_runs(r, &v)],
            &["c06.from_selectors", "c06.from_selectors.spec"], format!("from_selectors {tag}"));
        {
            // consecutive ranges: in order, possibly empty / adjacent, within total
            let k = r.below(12);
            let (mut ss, mut es, mut pos) = (Vec::new(), Vec::new(), 0usize);
            for _ in 0..k {
                let s = pos + if r.chance(1, 3) { 0 } else { r.below(20) };
                let e = s + if r.chance(1, 5) { 0 } else { 1 + r.below(40) };
                ss.push(s); es.push(e); pos = e;
            }
            let total = pos + if r.bool() { 0 } else { r.below(30) };
            both(emit, "c06.from_ranges", "c06.from_ranges.repr", vec![gs(&ss), gs(&es), g(total)],
                &["c06.from_ranges", "c06.from_ranges.spec"], format!("from_ranges k{} tail{}", lclass(k), (total > pos) as u8));
            if k >= 2 && r.chance(1, 10) {
                // documented panic "out of order": only the model's exact prediction is compared
                let i = 1 + r.below(k - 1);
                if es[i - 1] > 0 && es[i] > ss[i] {
                    let mut ss2 = ss.clone(); ss2[i] = r.below(es[i - 1]);
                    if ss2[i] < es[i - 1] && (0..i).any(|j| es[j] > ss[j]) {
                        emit(Case::new("c06.from_ranges.repr", vec![gs(&ss2), gs(&es), g(total)], &["c06.from_ranges.repr"], "from_ranges out-of-order"));
                    }
                }
            }
        }
        {
            let nf = r.below(5);
            let lens: Vec<usize> = (0..nf).map(|_| gen_len(r).min(200)).collect();
            let bits: Vec<bool> = lens.iter().flat_map(|l| gen_bits(r, *l)).collect();
            let offs: Vec<usize> = (0..nf).map(|_| r.below(64)).collect();
            both(emit, "c06.from_filters", "c06.from_filters.repr", vec![gs(&lens), gbools(bits), gs(&offs)],
                &["c06.from_filters", "c06.from_filters.spec"], format!("from_filters n{nf}"));
        }
        let (sa, ba, ka) = gen_sel(r);
        both(emit, "c06.to_selectors", "c06.to_selectors.repr", vec![sa.clone()],
            &["c06.to_selectors", "c06.to_selectors.spec"], format!("to_selectors {ka}{}", lclass(ba.len())));
        emit(Case::new("c06.counts", vec![sa.clone()], &["c06.counts", "c06.counts.spec"],
            format!("counts {ka} any{} len{}", ba.iter().any(|b| *b) as u8, lclass(ba.len()))));

        // and_then: the second operand covers exactly the rows the first selects
        {
            let cnt = ba.iter().filter(|b| **b).count();
            let bb = gen_bits(r, cnt);
            let (sb, kb) = enc_bits(r, &bb);
            let cb = bb.iter().filter(|b| **b).count();
            let path = if cb == 0 { "none" } else if cb == cnt { "all" } else { "some" };
            both(emit, "c06.and_then", "c06.and_then.repr", vec![sa.clone(), sb],
                &["c06.and_then", "c06.and_then.spec"], format!("and_then {ka}{kb} {path} {}", lclass(cnt)));
            if r.chance(1, 12) {
                // documented panic on a length mismatch: only the model's exact prediction is compared
                let d = if cnt > 0 && r.bool() { cnt - 1 - r.below(cnt.min(3)) } else { cnt + 1 + r.below(3) };
                let bb = gen_bits(r, d);
                let (sb, kb) = enc_bits(r, &bb);
                emit(Case::new("c06.and_then.repr", vec![sa.clone(), sb], &["c06.and_then.repr"],
                    format!("and_then mismatch {ka}{kb} {}", if d < cnt { "short" } else { "long" })));
            }
        }
        // intersection / union: equal and unequal lengths
        {
            let lb = match r.below(4) { 0 => gen_len(r), 1 => ba.len() + r.below(9), 2 => ba.len().saturating_sub(r.below(9)), _ => ba.len() };
            let bb = gen_bits(r, lb);
            let (sb, kb) = enc_bits(r, &bb);
            let rel = if lb == ba.len() { "eq" } else if lb < ba.len() { "lt" } else { "gt" };
            both(emit, "c06.intersection", "c06.intersection.repr", vec![sa.clone(), sb.clone()],
                &["c06.intersection", "c06.intersection.spec"], format!("intersection {ka}{kb} {rel}"));
            both(emit, "c06.union", "c06.union.repr", vec![sa.clone(), sb.clone()],
                &["c06.union", "c06.union.spec"], format!("union {ka}{kb} {rel}"));
            // PartialEq: a re-encoding of the same rows, a one-bit change, a trailing-skip change
            let (other, what) = match r.below(4) {
                0 => (ba.clone(), "same"),
                1 if !ba.is_empty() => { let mut x = ba.clone(); let i = r.below(x.len()); x[i] = !x[i]; (x, "flip") }
                2 => { let mut x = ba.clone(); x.push(r.bool()); (x, "longer") }
                _ => (bb.clone(), "other"),
            };
            let (so, ko) = enc_bits(r, &other);
            emit(Case::new("c06.eq", vec![sa.clone(), so], &["c06.eq", "c06.eq.spec"], format!("eq {ka}{ko} {what}")));
        }
        // FromIterator<RowSelection>: all bitmaps (stays a bitmap) or mixed (flattened)
        {
            let n = r.below(5);
            let all_mask = r.bool();
            let mut items: Args = Vec::new();
            for _ in 0..n {
                let len = gen_len(r).min(150);
                let bits = gen_bits(r, len);
                items.push(if all_mask { enc_mask(r, &bits) } else { enc_bits(r, &bits).0 });
            }
            both(emit, "c06.concat", "c06.concat.repr", items, &["c06.concat", "c06.concat.spec"],
                format!("concat n{n} allmask{}", all_mask as u8));
        }
        // split_off at run boundaries +-1, 0, total, beyond
        {
            let total = ba.len();
            let mut bounds: Vec<usize> = vec![0, total, total + 1 + r.below(5)];
            for i in 1..total { if ba[i] != ba[i - 1] { bounds.push(i); } }
            let n0 = *r.pick(&bounds);
            let nsp = match r.below(4) { 0 => n0.saturating_sub(1), 1 => n0 + 1, 2 => r.below(total + 2), _ => n0 };
            let cls = if nsp == 0 { "zero" } else if nsp < total { "inside" } else if nsp == total { "total" } else { "beyond" };
            both(emit, "c06.split_off", "c06.split_off.repr", vec![sa.clone(), g(nsp)],
                &["c06.split_off", "c06.split_off.spec"], format!("split_off {ka} {cls}"));
        }
        // scan_ranges: pages start at row 0, strictly increasing first rows
        {
            let total = ba.len();
            let mut firsts = vec![0usize];
            let np = r.below(9);
            for _ in 0..np {
                let last = *firsts.last().unwrap();
                let step = match r.below(4) { 0 => 1, 1 => 1 + r.below(8), _ => 1 + r.below(total / 3 + 2) };
                firsts.push(last + step);
            }
            let over = *firsts.last().unwrap() >= total;
            emit(Case::new("c06.scan_ranges", vec![sa.clone(), gs(&firsts)], &["c06.scan_ranges", "c06.scan_ranges.spec"],
                format!("scan_ranges {ka} p{} over{}", lclass(firsts.len() - 1), over as u8)));
        }
        // ReadPlanBuilder::build + MaskCursor
        {
            let bs = *r.pick(&[1usize, 1, 2, 3, 8, 64, 1024, 5000]);
            both(emit, "c06.plan_mask", "c06.plan_mask.repr", vec![sa.clone(), g(bs)],
                &["c06.plan_mask", "c06.plan_mask.spec"], format!("plan_mask {ka} bs{}", lclass(bs)));
        }
    }
}

fn gen_reads(files: usize, reads: usize, r: &mut Rng, emit: &mut dyn FnMut(Case)) {
    for fi in 0..files {
        // ---- file layout
        let nrg = 1 + r.below(5);
        let mut budget = 2000usize;
        let rgs: Vec<usize> = (0..nrg).map(|_| {
            let n = match r.below(6) { 0 => 1 + r.below(3), 1 => 1 + r.below(40), _ => 20 + r.below(500) }.min(budget.max(1));
            budget = budget.saturating_sub(n);
            n
        }).collect();
        let total: usize = rgs.iter().sum();
        let page_rows = *r.pick(&[1usize, 2, 3, 5, 8, 13, 32, 100, 1000]);
        let wbatch = *r.pick(&[1usize, 1, 2, 4, 16, 1024]);
        let fparams: Vec<i64> = vec![
            *r.pick(&[0i64, 2, 3, 7, 10]), page_rows as i64, wbatch as i64, 1 + r.below(2) as i64, r.below(2) as i64,
            (fi % 4 == 3) as i64, *r.pick(&[1i64, 7, 64, 1000, 5000]), r.below(3) as i64,
            *r.pick(&[0i64, 1, 1, 1, 2, 3, 3, 4]),
        ];
        let no_oidx = fparams[5] != 0;
        for _ in 0..reads {
            // ---- option tuple
            let all: Vec<usize> = (0..nrg).collect();
            let (chosen, rgk) = match r.below(5) {
                0 | 1 => (all.clone(), "all"),
                2 => (all.iter().copied().filter(|_| r.bool()).collect::<Vec<_>>(), "subset"),
                3 => { let mut c: Vec<usize> = all.iter().copied().filter(|_| r.chance(2, 3)).collect(); // any order
                       for i in (1..c.len()).rev() { let j = r.below(i + 1); c.swap(i, j); } (c, "perm") }
                _ => (vec![r.below(nrg)], "one"),
            };
            let call_rg = if rgk == "all" { r.below(2) as i64 } else { 1 };
            let nrows: usize = chosen.iter().map(|g| rgs[*g]).sum();
            let mut cum: Vec<usize> = Vec::new(); // selected-row counts at the end of each select run
            let (sel, selk) = match r.below(8) {
                0 | 1 => (vec![], "nosel".to_string()),
                k => {
                    let len = if r.chance(1, 8) { r.below(nrows + 1) } else { nrows };
                    let bits = match k {
                        2 => { // a few rows around page / row-group edges
                            let mut v = vec![false; len];
                            let mut edges: Vec<usize> = Vec::new();
                            let mut acc = 0; for g in &chosen { acc += rgs[*g]; edges.push(acc); }
                            for _ in 0..1 + r.below(6) {
                                let e = if r.bool() && !edges.is_empty() { *r.pick(&edges) } else { page_rows * r.below(nrows / page_rows + 1) };
                                let p = (e + r.below(3)).saturating_sub(1);
                                if p < len { v[p] = true; }
                            }
                            v
                        }
                        3 => { // runs commensurate with the page size
                            let mut v = Vec::with_capacity(len); let mut on = r.bool();
                            while v.len() < len { let c = 1 + r.below(3 * page_rows + 2); for _ in 0..c.min(len - v.len()) { v.push(on); } on = !on; }
                            v
                        }
                        _ => gen_bits(r, len),
                    };
                    let mut c = 0;
                    for i in 0..bits.len() { if bits[i] { c += 1; if i + 1 == bits.len() || !bits[i + 1] { cum.push(c); } } }
                    let (gsel, kk) = enc_bits(r, &bits);
                    (gsel, format!("sel{kk}{}", if len < nrows { "short" } else { "" }))
                }
            };
            let np = match r.below(6) { 0 | 1 => 0, 2 | 3 => 1, 4 => 2, _ => 3 };
            let mut preds: Vec<i64> = Vec::new();
            for _ in 0..np {
                let extra = if r.chance(1, 3) { r.below(64) as i64 } else { 0 } + 64 * r.below(2) as i64;
                match r.below(8) {
                    0 => preds.extend([0, 1, 1, extra]),                                   // always true
                    1 | 2 => { let k = 2 + r.below(6) as i64; preds.extend([0, k, r.below(k as usize) as i64, extra]) }
                    3 | 4 => preds.extend([1, r.range(-55, 55), 0, extra]),
                    5 => preds.extend([2, 0, 0, extra]),
                    6 => { let lo = r.below(total + 1) as i64; preds.extend([3, lo, lo + r.below(total / 2 + 2) as i64, extra]) }
                    _ => { let lo = r.below(total + 1) as i64; preds.extend([3, lo, lo, extra]) }       // always false
                }
            }
            if cum.is_empty() { let mut acc = 0; for g in &chosen { acc += rgs[*g]; cum.push(acc); } cum.push(page_rows); }
            let (cb1, cb2) = ((*r.pick(&cum) + r.below(3)).saturating_sub(1), (*r.pick(&cum) + r.below(3)).saturating_sub(1));
            let (rb1, rb2) = if r.bool() { (cb1, cb2) } else { (r.below(nrows + 2), r.below(nrows + 2)) };
            let offset: Vec<usize> = if r.chance(1, 3) { vec![*r.pick(&[0, 1, 2, page_rows, nrows / 2, nrows, nrows + 1, rb1, rb1, rb1, rb1, rb1])] } else { vec![] };
            let limit: Vec<usize> = if r.chance(1, 3) { vec![*r.pick(&[0, 1, 2, page_rows, nrows / 2, nrows, nrows + 5, rb2, rb2, rb2, rb2, rb2])] } else { vec![] };
            let bs = *r.pick(&[1usize, 2, 3, 7, 8, 64, 100, 1024, 8192]);
            let proj: Vec<i64> = match r.below(11) {
                0 => vec![1, 0, 0, 0, 0, 0], 1 => vec![1, 1, 1, 1, 1, 1], 2 => vec![1, 0, 0, 1, 0, 0], 3 => vec![0, 0, 0, 1, 0, 0],
                4 => vec![1, 0, 0, 0, 1, 0], 5 => vec![0, 0, 0, 0, 1, 0], 6 => vec![1, 0, 0, 0, 0, 1], 7 => vec![0, 0, 0, 0, 0, 1],
                _ => { let v: Vec<i64> = (0..6).map(|_| r.below(2) as i64).collect(); if v.iter().all(|x| *x == 0) { vec![0, 0, 1, 0, 0, 0] } else { v } }
            };
            let policy = r.below(4) as i64;
            let pidx = if no_oidx { r.below(2) as i64 } else { r.below(3) as i64 };
            let hp: Vec<i64> = vec![policy, *r.pick(&[0i64, 1, 2, 8, 32, 1000]), pidx, call_rg, r.below(3) as i64 - 1];
            let args: Args = vec![
                gs(&fparams), gs(&rgs), gs(&chosen), sel, gs(&preds), gs(&offset), gs(&limit), g(bs), gs(&proj), gs(&hp),
            ];
            let tag = format!("read rg:{rgk} {selk} p{np} o{} l{} pol{policy} pidx{pidx} oidx{} v{} e{} proj{}",
                offset.len(), limit.len(), !no_oidx as u8, fparams[3], fparams[8], proj.iter().map(|x| x.to_string()).collect::<String>());
            emit(Case::new("c06.read", args, &["c06.read", "c06.read.spec"], tag));
        }
    }
}

pub fn generate(tier: &str, r: &mut Rng, emit: &mut dyn FnMut(Case)) {
    let thorough = tier == "thorough";
    gen_algebra(if thorough { 15000 } else { 1500 }, r, emit);
    gen_reads(if thorough { 200 } else { 30 }, if thorough { 150 } else { 100 }, r, emit);
}
