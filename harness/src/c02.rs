//! C02 — array content, equality and kernel results depend only on logical values.
//! Physical arrays travel as c09 `Node` trees; `build` turns a tree into a real array through
//! SAFE public constructors only (path 0: checked ArrayDataBuilder + make_array, path 1: typed
//! `try_new` constructors), `read_lv` reads a real array back through its accessors / iterators.
use crate::c01::from_data;
use crate::c09::{self, Node, Nulls, Ty};
use crate::util::*;
use arrow_array::builder::*;
use arrow_array::cast::AsArray;
use arrow_array::types::*;
use arrow_array::*;
use arrow_buffer::{BooleanBuffer, Buffer, MutableBuffer, NullBuffer, OffsetBuffer, ScalarBuffer, ToByteSlice};
use arrow_data::ArrayData;
use arrow_schema::{ArrowError, DataType, Field, Fields, IntervalUnit, SortOptions, TimeUnit};
use num_bigint::{BigInt, Sign};
use std::sync::Arc;

include!("c02_kernels.rs");
include!("c02_gen.rs");

// ------------------------------------------------------------------ logical values
#[derive(Clone, Debug, PartialEq)]
pub enum LV { Null, Bool(bool), Int(BigInt), Bytes(Vec<u8>), List(Vec<LV>), Struct(Vec<LV>) }

fn enc_lv(v: &LV, out: &mut Group) {
    match v {
        LV::Null => out.push(0.into()),
        LV::Bool(b) => { out.push(1.into()); out.push((*b as u8).into()) }
        LV::Int(z) => { out.push(2.into()); out.push(z.clone()) }
        LV::Bytes(l) => { out.push(3.into()); out.push(l.len().into()); out.extend(l.iter().map(|b| BigInt::from(*b))) }
        LV::List(l) => { out.push(4.into()); out.push(l.len().into()); for x in l { enc_lv(x, out) } }
        LV::Struct(l) => { out.push(5.into()); out.push(l.len().into()); for x in l { enc_lv(x, out) } }
    }
}
pub fn enc_col(vs: &[LV]) -> Group { let mut g: Group = vec![vs.len().into()]; for v in vs { enc_lv(v, &mut g) } g }
fn dec_lv(l: &Group, p: &mut usize) -> LV {
    let tag = i64::try_from(&l[*p]).unwrap(); *p += 1;
    match tag {
        0 => LV::Null,
        1 => { let b = l[*p] != BigInt::from(0); *p += 1; LV::Bool(b) }
        2 => { let z = l[*p].clone(); *p += 1; LV::Int(z) }
        3 => { let k = usize::try_from(&l[*p]).unwrap(); *p += 1; let v = l[*p..*p + k].iter().map(|b| u8::try_from(b).unwrap()).collect(); *p += k; LV::Bytes(v) }
        4 | 5 => { let k = usize::try_from(&l[*p]).unwrap(); *p += 1; let v = (0..k).map(|_| dec_lv(l, p)).collect(); if tag == 4 { LV::List(v) } else { LV::Struct(v) } }
        _ => panic!("lv tag"),
    }
}
pub fn dec_col(l: &Group) -> Vec<LV> { let n = usize::try_from(&l[0]).unwrap(); let mut p = 1; (0..n).map(|_| dec_lv(l, &mut p)).collect() }

// ------------------------------------------------------------------ data types (flavour of fixed-width leaves)
/// flavour: 0 signed ints / decimals, 1 unsigned ints, 2 floats, 3 temporal (Date32 / Timestamp us),
/// 4 temporal-2 (Time32 s / Duration ms / IntervalMonthDayNano)
pub fn prim_dt(w: usize, fl: usize) -> DataType {
    use DataType::*;
    match (w, fl) {
        (1, 1) => UInt8, (2, 1) => UInt16, (4, 1) => UInt32, (8, 1) => UInt64,
        (2, 2) => Float16, (4, 2) => Float32, (8, 2) => Float64,
        (4, 3) => Date32, (8, 3) => Timestamp(TimeUnit::Microsecond, None),
        (4, 4) => Time32(TimeUnit::Second), (8, 4) => Duration(TimeUnit::Millisecond), (16, 4) => Interval(IntervalUnit::MonthDayNano),
        (1, _) => Int8, (2, _) => Int16, (4, _) => Int32, (8, _) => Int64, (16, _) => Decimal128(38, 10), _ => Decimal256(76, 10),
    }
}
fn key_dt(kw: usize, signed: bool) -> DataType {
    use DataType::*;
    match (kw, signed) { (1, true) => Int8, (2, true) => Int16, (4, true) => Int32, (8, true) => Int64, (1, false) => UInt8, (2, false) => UInt16, (4, false) => UInt32, _ => UInt64 }
}
fn item_field(c: &Ty, fl: usize, nullable: bool) -> Arc<Field> { Arc::new(Field::new("item", dt_of(c, fl), nullable)) }
fn struct_fields(fs: &[(bool, Ty)], fl: usize) -> Fields { Fields::from(fs.iter().enumerate().map(|(i, (nb, t))| Field::new(format!("f{i}"), dt_of(t, fl), *nb)).collect::<Vec<_>>()) }
pub fn dt_of(t: &Ty, fl: usize) -> DataType {
    match t {
        Ty::Fixed(w) => prim_dt(*w, fl),
        Ty::List { large, nullable, c } => if *large { DataType::LargeList(item_field(c, fl, *nullable)) } else { DataType::List(item_field(c, fl, *nullable)) },
        Ty::ListView { large, nullable, c } => if *large { DataType::LargeListView(item_field(c, fl, *nullable)) } else { DataType::ListView(item_field(c, fl, *nullable)) },
        Ty::FixedList { n, nullable, c } => DataType::FixedSizeList(item_field(c, fl, *nullable), *n),
        Ty::Struct(fs) => DataType::Struct(struct_fields(fs, fl)),
        Ty::Dict { kw, signed, v } => DataType::Dictionary(Box::new(key_dt(*kw, *signed)), Box::new(dt_of(v, fl))),
        Ty::Ree { rw, v } => DataType::RunEndEncoded(Arc::new(Field::new("run_ends", prim_dt(*rw, 0), false)), Arc::new(Field::new("values", dt_of(v, fl), true))),
        other => c09::to_dt(other),
    }
}

// ------------------------------------------------------------------ Node -> real array
fn abuf(b: &[u8]) -> Buffer { let mut m = MutableBuffer::new(b.len()); m.extend_from_slice(b); m.into() }
fn null_buffer(x: &Nulls) -> NullBuffer { NullBuffer::new(BooleanBuffer::new(abuf(&x.bytes), x.off, x.len)) }

macro_rules! with_prim_type {
    ($dt:expr, $m:ident, $other:expr) => {
        match $dt {
            DataType::Int8 => $m!(Int8Type), DataType::Int16 => $m!(Int16Type), DataType::Int32 => $m!(Int32Type), DataType::Int64 => $m!(Int64Type),
            DataType::UInt8 => $m!(UInt8Type), DataType::UInt16 => $m!(UInt16Type), DataType::UInt32 => $m!(UInt32Type), DataType::UInt64 => $m!(UInt64Type),
            DataType::Float16 => $m!(Float16Type), DataType::Float32 => $m!(Float32Type), DataType::Float64 => $m!(Float64Type),
            DataType::Date32 => $m!(Date32Type), DataType::Timestamp(TimeUnit::Microsecond, _) => $m!(TimestampMicrosecondType),
            DataType::Time32(TimeUnit::Second) => $m!(Time32SecondType), DataType::Duration(TimeUnit::Millisecond) => $m!(DurationMillisecondType),
            DataType::Interval(IntervalUnit::MonthDayNano) => $m!(IntervalMonthDayNanoType),
            DataType::Decimal128(_, _) => $m!(Decimal128Type), DataType::Decimal256(_, _) => $m!(Decimal256Type),
            _ => $other,
        }
    };
}

/// typed primitive array over `bytes` with element offset/len (safe constructors only)
fn prim_array(dt: &DataType, bytes: &[u8], off: usize, len: usize, nulls: Option<NullBuffer>) -> Result<ArrayRef, ArrowError> {
    macro_rules! mk { ($t:ty) => {{
        let sb = ScalarBuffer::<<$t as ArrowPrimitiveType>::Native>::new(abuf(bytes), off, len);
        Arc::new(PrimitiveArray::<$t>::try_new(sb, nulls)?.with_data_type(dt.clone())) as ArrayRef
    }} }
    Ok(with_prim_type!(dt, mk, return Err(ArrowError::NotYetImplemented("prim".into()))))
}

fn offsets_of<O: arrow_buffer::ArrowNativeType + std::ops::Sub<Output = O> + PartialOrd + num_traits::Zero>(b: &[u8], off: usize, len: usize) -> OffsetBuffer<O> where O: arrow_array::OffsetSizeTrait {
    if b.is_empty() && len == 0 { OffsetBuffer::new_empty() } else { OffsetBuffer::new(ScalarBuffer::<O>::new(abuf(b), off, len + 1)) }
}

pub fn build_typed(n: &Node, fl: usize) -> Result<ArrayRef, ArrowError> {
    let nulls = n.nulls.as_ref().map(null_buffer);
    Ok(match &n.ty {
        Ty::Null => Arc::new(NullArray::new(n.len)),
        Ty::Bool => { if let Some(nb) = &nulls { if nb.len() != n.len { return Err(ArrowError::InvalidArgumentError("nulls".into())) } }
            Arc::new(BooleanArray::new(BooleanBuffer::new(abuf(&n.bufs[0]), n.off, n.len), nulls)) }
        Ty::Fixed(w) => prim_array(&prim_dt(*w, fl), &n.bufs[0], n.off, n.len, nulls)?,
        Ty::FixedBin(s) => { let sz = *s as usize; Arc::new(FixedSizeBinaryArray::try_new_with_len(*s, abuf(&n.bufs[0]).slice_with_length(n.off * sz, n.len * sz), nulls, n.len)?) }
        Ty::Bin { large, utf8 } => match (large, utf8) {
            (false, false) => Arc::new(BinaryArray::try_new(offsets_of::<i32>(&n.bufs[0], n.off, n.len), abuf(&n.bufs[1]), nulls)?),
            (true, false) => Arc::new(LargeBinaryArray::try_new(offsets_of::<i64>(&n.bufs[0], n.off, n.len), abuf(&n.bufs[1]), nulls)?),
            (false, true) => Arc::new(StringArray::try_new(offsets_of::<i32>(&n.bufs[0], n.off, n.len), abuf(&n.bufs[1]), nulls)?),
            (true, true) => Arc::new(LargeStringArray::try_new(offsets_of::<i64>(&n.bufs[0], n.off, n.len), abuf(&n.bufs[1]), nulls)?),
        },
        Ty::View { utf8 } => {
            let views = ScalarBuffer::<u128>::new(abuf(&n.bufs[0]), n.off, n.len);
            let data: Vec<Buffer> = n.bufs[1..].iter().map(|b| abuf(b)).collect();
            if *utf8 { Arc::new(StringViewArray::try_new(views, data, nulls)?) } else { Arc::new(BinaryViewArray::try_new(views, data, nulls)?) }
        }
        Ty::List { large, nullable, c } => {
            let child = build_typed(&n.kids[0], fl)?; let f = item_field(c, fl, *nullable);
            if *large { Arc::new(LargeListArray::try_new(f, offsets_of::<i64>(&n.bufs[0], n.off, n.len), child, nulls)?) }
            else { Arc::new(ListArray::try_new(f, offsets_of::<i32>(&n.bufs[0], n.off, n.len), child, nulls)?) }
        }
        Ty::ListView { large, nullable, c } => {
            let child = build_typed(&n.kids[0], fl)?; let f = item_field(c, fl, *nullable);
            if *large { Arc::new(LargeListViewArray::try_new(f, ScalarBuffer::<i64>::new(abuf(&n.bufs[0]), n.off, n.len), ScalarBuffer::<i64>::new(abuf(&n.bufs[1]), n.off, n.len), child, nulls)?) }
            else { Arc::new(ListViewArray::try_new(f, ScalarBuffer::<i32>::new(abuf(&n.bufs[0]), n.off, n.len), ScalarBuffer::<i32>::new(abuf(&n.bufs[1]), n.off, n.len), child, nulls)?) }
        }
        Ty::FixedList { n: s, nullable, c } => {
            let sz = *s as usize;
            let child = build_typed(&n.kids[0], fl)?;
            if (n.off + n.len) * sz > child.len() { return Err(ArrowError::InvalidArgumentError("child".into())) }
            Arc::new(FixedSizeListArray::try_new_with_length(item_field(c, fl, *nullable), *s, child.slice(n.off * sz, n.len * sz), nulls, n.len)?)
        }
        Ty::Struct(fs) => {
            let mut arrays = Vec::new();
            for k in &n.kids { let a = build_typed(k, fl)?; if n.off + n.len > a.len() { return Err(ArrowError::InvalidArgumentError("child".into())) } arrays.push(a.slice(n.off, n.len)) }
            Arc::new(StructArray::try_new_with_length(struct_fields(fs, fl), arrays, nulls, n.len)?)
        }
        Ty::Dict { kw, signed, .. } => {
            let keys = prim_array(&key_dt(*kw, *signed), &n.bufs[0], n.off, n.len, nulls)?;
            let values = build_typed(&n.kids[0], fl)?;
            macro_rules! mk { ($t:ty) => { Arc::new(DictionaryArray::<$t>::try_new(keys.as_primitive::<$t>().clone(), values)?) as ArrayRef } }
            match (kw, signed) { (1, true) => mk!(Int8Type), (2, true) => mk!(Int16Type), (4, true) => mk!(Int32Type), (8, true) => mk!(Int64Type),
                (1, false) => mk!(UInt8Type), (2, false) => mk!(UInt16Type), (4, false) => mk!(UInt32Type), _ => mk!(UInt64Type) }
        }
        Ty::Ree { rw, .. } => {
            if n.nulls.is_some() { return Err(ArrowError::InvalidArgumentError("ree nulls".into())) }
            let r = &n.kids[0];
            let ends = prim_array(&prim_dt(*rw, 0), &r.bufs[0], r.off, r.len, None)?;
            let values = build_typed(&n.kids[1], fl)?;
            macro_rules! mk { ($t:ty) => {{ let ra = RunArray::<$t>::try_new(ends.as_primitive::<$t>(), values.as_ref())?;
                if n.off + n.len > ra.len() { return Err(ArrowError::InvalidArgumentError("ree len".into())) } Arc::new(ra.slice(n.off, n.len)) as ArrayRef }} }
            match rw { 2 => mk!(Int16Type), 4 => mk!(Int32Type), _ => mk!(Int64Type) }
        }
        Ty::Union { .. } => return Err(ArrowError::NotYetImplemented("union".into())),
    })
}

/// checked ArrayDataBuilder at every level (validate_full), explicit NullBuffer (may have its own offset)
pub fn build_data(n: &Node, fl: usize) -> Option<ArrayData> {
    let mut kids = Vec::new();
    for (i, k) in n.kids.iter().enumerate() { kids.push(build_data(k, if matches!(n.ty, Ty::Ree { .. }) && i == 0 { 0 } else { fl })?) }
    if let Some(x) = &n.nulls { if x.off + x.len > 8 * x.bytes.len() || x.len != n.len { return None } }
    ArrayData::builder(dt_of(&n.ty, fl)).len(n.len).offset(n.off)
        .buffers(n.bufs.iter().map(|b| abuf(b)).collect()).child_data(kids)
        .nulls(n.nulls.as_ref().map(null_buffer)).build().ok()
}

/// path 0: ArrayData (checked builder) + make_array;  path 1: typed constructors
pub fn build(n: &Node, fl: usize, path: usize) -> Option<ArrayRef> {
    std::panic::catch_unwind(std::panic::AssertUnwindSafe(|| {
        if path == 0 { build_data(n, fl).map(make_array) } else { build_typed(n, fl).ok() }
    })).unwrap_or(None)
}

/// physical dump of a real array; an all-valid validity buffer (dropped by to_data) is kept at top level
pub fn dump(a: &dyn Array) -> Option<Node> {
    let mut node = from_data(&a.to_data())?;
    if node.nulls.is_none() { if let Some(nb) = a.nulls() { node.nulls = Some(Nulls { bytes: nb.validity().to_vec(), off: nb.offset(), len: nb.len(), count: nb.null_count() }) } }
    Some(node)
}

// ------------------------------------------------------------------ real array -> logical column (accessors / iterators)
fn bits(b: &[u8]) -> LV { LV::Int(BigInt::from_bytes_le(Sign::Plus, b)) }
/// mode 0: is_null(i) + value(i);  mode 1: iter() where the array type has one
pub fn read_lv(a: &dyn Array, mode: usize) -> Option<Vec<LV>> {
    let n = a.len();
    macro_rules! by_index { ($arr:expr, $f:expr) => {{ let arr = $arr; (0..n).map(|i| if arr.is_null(i) { LV::Null } else { $f(arr.value(i)) }).collect::<Vec<LV>>() }} }
    macro_rules! by_iter { ($arr:expr, $f:expr) => {{ let arr = $arr; arr.iter().map(|o| match o { None => LV::Null, Some(v) => $f(v) }).collect::<Vec<LV>>() }} }
    macro_rules! rd { ($arr:expr, $f:expr) => { if mode == 1 { by_iter!($arr, $f) } else { by_index!($arr, $f) } } }
    Some(match a.data_type() {
        DataType::Null => vec![LV::Null; n],
        DataType::Boolean => rd!(a.as_boolean(), |v: bool| LV::Bool(v)),
        DataType::FixedSizeBinary(_) => rd!(a.as_fixed_size_binary(), |v: &[u8]| LV::Bytes(v.to_vec())),
        DataType::Binary => rd!(a.as_binary::<i32>(), |v: &[u8]| LV::Bytes(v.to_vec())),
        DataType::LargeBinary => rd!(a.as_binary::<i64>(), |v: &[u8]| LV::Bytes(v.to_vec())),
        DataType::Utf8 => rd!(a.as_string::<i32>(), |v: &str| LV::Bytes(v.as_bytes().to_vec())),
        DataType::LargeUtf8 => rd!(a.as_string::<i64>(), |v: &str| LV::Bytes(v.as_bytes().to_vec())),
        DataType::BinaryView => rd!(a.as_binary_view(), |v: &[u8]| LV::Bytes(v.to_vec())),
        DataType::Utf8View => rd!(a.as_string_view(), |v: &str| LV::Bytes(v.as_bytes().to_vec())),
        DataType::List(_) | DataType::LargeList(_) | DataType::ListView(_) | DataType::LargeListView(_) | DataType::FixedSizeList(_, _) | DataType::Map(_, _) => {
            let mut out = Vec::with_capacity(n);
            macro_rules! lst { ($arr:expr) => {{ let arr = $arr;
                if mode == 1 { for o in arr.iter() { out.push(match o { None => LV::Null, Some(v) => LV::List(read_lv(v.as_ref(), mode)?) }) } }
                else { for i in 0..n { out.push(if arr.is_null(i) { LV::Null } else { LV::List(read_lv(arr.value(i).as_ref(), mode)?) }) } } }} }
            match a.data_type() {
                DataType::List(_) => lst!(a.as_list::<i32>()), DataType::LargeList(_) => lst!(a.as_list::<i64>()),
                DataType::ListView(_) => { let arr = a.as_list_view::<i32>(); for i in 0..n { out.push(if arr.is_null(i) { LV::Null } else { LV::List(read_lv(arr.value(i).as_ref(), mode)?) }) } }
                DataType::LargeListView(_) => { let arr = a.as_list_view::<i64>(); for i in 0..n { out.push(if arr.is_null(i) { LV::Null } else { LV::List(read_lv(arr.value(i).as_ref(), mode)?) }) } }
                DataType::Map(_, _) => { let arr = a.as_map(); for i in 0..n { out.push(if arr.is_null(i) { LV::Null } else { LV::List(read_lv(&arr.value(i), mode)?) }) } }
                _ => lst!(a.as_fixed_size_list()),
            }
            out
        }
        DataType::Struct(_) => {
            let s = a.as_struct();
            let cols: Vec<Vec<LV>> = s.columns().iter().map(|c| read_lv(c.as_ref(), mode)).collect::<Option<_>>()?;
            (0..n).map(|i| if s.is_null(i) { LV::Null } else { LV::Struct(cols.iter().map(|c| c[i].clone()).collect()) }).collect()
        }
        DataType::Dictionary(_, _) => {
            let d = a.as_any_dictionary();
            let keys = read_lv(d.keys(), mode)?; let vals = read_lv(d.values().as_ref(), mode)?;
            keys.iter().map(|k| match k { LV::Int(z) => { let i = usize::try_from(z).ok()?; vals.get(i).cloned() } _ => Some(LV::Null) }).collect::<Option<Vec<LV>>>()?
        }
        DataType::RunEndEncoded(r, _) => {
            macro_rules! ree { ($t:ty) => {{ let ra = a.as_any().downcast_ref::<RunArray<$t>>()?; let vals = read_lv(ra.values().as_ref(), mode)?;
                (0..n).map(|i| vals[ra.get_physical_index(i)].clone()).collect::<Vec<LV>>() }} }
            match r.data_type() { DataType::Int16 => ree!(Int16Type), DataType::Int32 => ree!(Int32Type), DataType::Int64 => ree!(Int64Type), _ => return None }
        }
        DataType::Union(_, _) => return None,
        _ => downcast_primitive_array!(
            a => { if mode == 1 { a.iter().map(|o| match o { None => LV::Null, Some(v) => bits(v.to_byte_slice()) }).collect() }
                   else { (0..n).map(|i| if a.is_null(i) { LV::Null } else { bits(a.value(i).to_byte_slice()) }).collect() } }
            _t => return None
        ),
    })
}

// ------------------------------------------------------------------ logical column -> fresh canonical array
fn le_bytes(z: &BigInt, w: usize) -> Vec<u8> { let (_, mut b) = z.to_bytes_le(); b.resize(w, 0); b }
fn nulls_from(vs: &[LV]) -> Option<NullBuffer> { if vs.iter().any(|v| *v == LV::Null) { Some(NullBuffer::from(vs.iter().map(|v| *v != LV::Null).collect::<Vec<bool>>())) } else { None } }
/// a non-null value of the type (payload of slots that must exist physically under a null parent)
pub fn default_lv(t: &Ty) -> LV {
    match t {
        Ty::Null => LV::Null, Ty::Bool => LV::Bool(false), Ty::Fixed(_) => LV::Int(0.into()), Ty::FixedBin(n) => LV::Bytes(vec![0; *n as usize]),
        Ty::Bin { .. } | Ty::View { .. } => LV::Bytes(vec![]), Ty::List { .. } | Ty::ListView { .. } => LV::List(vec![]),
        Ty::FixedList { n, c, .. } => LV::List(vec![default_lv(c); *n as usize]), Ty::Struct(fs) => LV::Struct(fs.iter().map(|(_, t)| default_lv(t)).collect()),
        Ty::Dict { v, .. } | Ty::Ree { v, .. } => default_lv(v), Ty::Union { .. } => LV::Null,
    }
}
fn child_or_default(v: &LV, t: &Ty, nullable: bool) -> LV { if *v == LV::Null && !nullable { default_lv(t) } else { v.clone() } }

pub fn from_lv(t: &Ty, fl: usize, vs: &[LV]) -> Option<ArrayRef> {
    let n = vs.len();
    Some(match t {
        Ty::Null => Arc::new(NullArray::new(n)),
        Ty::Bool => { let mut b = BooleanBuilder::new(); for v in vs { match v { LV::Bool(x) => b.append_value(*x), _ => b.append_null() } } Arc::new(b.finish()) }
        Ty::Fixed(w) => { let mut bytes = Vec::with_capacity(n * w); for v in vs { match v { LV::Int(z) => bytes.extend(le_bytes(z, *w)), _ => bytes.extend(std::iter::repeat(0).take(*w)) } }
            prim_array(&prim_dt(*w, fl), &bytes, 0, n, nulls_from(vs)).ok()? }
        Ty::FixedBin(s) => { let mut b = FixedSizeBinaryBuilder::new(*s); for v in vs { match v { LV::Bytes(x) => b.append_value(x).ok()?, _ => b.append_null() } } Arc::new(b.finish()) }
        Ty::Bin { large, utf8 } => {
            macro_rules! bb { ($b:ty, $conv:expr) => {{ let mut b = <$b>::new(); for v in vs { match v { LV::Bytes(x) => b.append_value($conv(x)), _ => b.append_null() } } Arc::new(b.finish()) as ArrayRef }} }
            match (large, utf8) { (false, false) => bb!(BinaryBuilder, |x: &Vec<u8>| x.clone()), (true, false) => bb!(LargeBinaryBuilder, |x: &Vec<u8>| x.clone()),
                (false, true) => bb!(StringBuilder, |x: &Vec<u8>| String::from_utf8(x.clone()).unwrap()), (true, true) => bb!(LargeStringBuilder, |x: &Vec<u8>| String::from_utf8(x.clone()).unwrap()) }
        }
        Ty::View { utf8 } => if *utf8 { let mut b = StringViewBuilder::new(); for v in vs { match v { LV::Bytes(x) => b.append_value(std::str::from_utf8(x).ok()?), _ => b.append_null() } } Arc::new(b.finish()) }
                             else { let mut b = BinaryViewBuilder::new(); for v in vs { match v { LV::Bytes(x) => b.append_value(x), _ => b.append_null() } } Arc::new(b.finish()) },
        Ty::List { large, nullable, c } => {
            let mut flat = Vec::new(); let mut lens = Vec::new();
            for v in vs { match v { LV::List(l) => { lens.push(l.len()); flat.extend(l.iter().cloned()) } _ => lens.push(0) } }
            let child = from_lv(c, fl, &flat)?; let f = item_field(c, fl, *nullable);
            if *large { Arc::new(LargeListArray::try_new(f, OffsetBuffer::from_lengths(lens), child, nulls_from(vs)).ok()?) } else { Arc::new(ListArray::try_new(f, OffsetBuffer::from_lengths(lens), child, nulls_from(vs)).ok()?) }
        }
        Ty::ListView { large, nullable, c } => {
            let mut flat = Vec::new(); let mut offs = Vec::new(); let mut sizes = Vec::new();
            for v in vs { offs.push(flat.len()); match v { LV::List(l) => { sizes.push(l.len()); flat.extend(l.iter().cloned()) } _ => sizes.push(0) } }
            let child = from_lv(c, fl, &flat)?; let f = item_field(c, fl, *nullable);
            if *large { Arc::new(LargeListViewArray::try_new(f, offs.iter().map(|x| *x as i64).collect::<Vec<_>>().into(), sizes.iter().map(|x| *x as i64).collect::<Vec<_>>().into(), child, nulls_from(vs)).ok()?) }
            else { Arc::new(ListViewArray::try_new(f, offs.iter().map(|x| *x as i32).collect::<Vec<_>>().into(), sizes.iter().map(|x| *x as i32).collect::<Vec<_>>().into(), child, nulls_from(vs)).ok()?) }
        }
        Ty::FixedList { n: s, nullable, c } => {
            let mut flat = Vec::new();
            for v in vs { match v { LV::List(l) => flat.extend(l.iter().cloned()), _ => flat.extend((0..*s).map(|_| child_or_default(&LV::Null, c, *nullable))) } }
            let child = from_lv(c, fl, &flat)?;
            Arc::new(FixedSizeListArray::try_new_with_length(item_field(c, fl, *nullable), *s, child, nulls_from(vs), n).ok()?)
        }
        Ty::Struct(fs) => {
            let mut arrays = Vec::new();
            for (j, (nb, ft)) in fs.iter().enumerate() {
                let col: Vec<LV> = vs.iter().map(|v| match v { LV::Struct(l) => l[j].clone(), _ => child_or_default(&LV::Null, ft, *nb) }).collect();
                arrays.push(from_lv(ft, fl, &col)?);
            }
            Arc::new(StructArray::try_new_with_length(struct_fields(fs, fl), arrays, nulls_from(vs), n).ok()?)
        }
        Ty::Dict { kw, signed, v } => {
            // canonical dictionary: distinct non-null values in first-occurrence order
            let mut dict: Vec<LV> = Vec::new(); let mut keys: Vec<LV> = Vec::new();
            for x in vs { if *x == LV::Null { keys.push(LV::Null) } else { let k = match dict.iter().position(|d| d == x) { Some(k) => k, None => { dict.push(x.clone()); dict.len() - 1 } }; keys.push(LV::Int(k.into())) } }
            dict_from(*kw, *signed, &keys, from_lv(v, fl, &dict)?)?
        }
        Ty::Ree { rw, v } => {
            let mut ends: Vec<LV> = Vec::new(); let mut vals: Vec<LV> = Vec::new();
            for (i, x) in vs.iter().enumerate() { if i > 0 && vals.last() == Some(x) { *ends.last_mut().unwrap() = LV::Int((i + 1).into()) } else { vals.push(x.clone()); ends.push(LV::Int((i + 1).into())) } }
            ree_from(*rw, &ends, from_lv(v, fl, &vals)?)?
        }
        Ty::Union { .. } => return None,
    })
}
pub fn dict_from(kw: usize, signed: bool, keys: &[LV], values: ArrayRef) -> Option<ArrayRef> {
    let ka = from_lv(&Ty::Fixed(kw), if signed { 0 } else { 1 }, keys)?;
    macro_rules! mk { ($t:ty) => { Arc::new(DictionaryArray::<$t>::try_new(ka.as_primitive::<$t>().clone(), values).ok()?) as ArrayRef } }
    Some(match (kw, signed) { (1, true) => mk!(Int8Type), (2, true) => mk!(Int16Type), (4, true) => mk!(Int32Type), (8, true) => mk!(Int64Type),
        (1, false) => mk!(UInt8Type), (2, false) => mk!(UInt16Type), (4, false) => mk!(UInt32Type), _ => mk!(UInt64Type) })
}
pub fn ree_from(rw: usize, ends: &[LV], values: ArrayRef) -> Option<ArrayRef> {
    let ea = from_lv(&Ty::Fixed(rw), 0, ends)?;
    macro_rules! mk { ($t:ty) => { Arc::new(RunArray::<$t>::try_new(ea.as_primitive::<$t>(), values.as_ref()).ok()?) as ArrayRef } }
    Some(match rw { 2 => mk!(Int16Type), 4 => mk!(Int32Type), _ => mk!(Int64Type) })
}
